import Zed.Proofs.ZngFrames
import Zed.Proofs.ZngTypes
import Zed.Proofs.ZngZcode
/-!
  The ZNG round trip: what `zngio.Writer` writes, `zngio.Reader` reads back.
  Reader-side lemmas (one frame at a time), the writer invariant, and the induction over
  the writer's operations.
-/
namespace Zed.Zng
open Zed.Generated.C01

/-! ### compressed frames -/

theorem readFrame_comp (o : ROpts) (decomp : Bytes → Nat → Option Bytes) (kind : Nat) (hk : kind < 3)
    (b z rest : Bytes) (hb : b.length < two63) (hz : z.length + writeCompExtra b.length < two63)
    (hfb : b.length ≤ o.maxSize) (hfz : z.length ≤ o.maxSize)
    (hd : decomp z b.length = some b) :
    ∃ c tl al, compFrameHeader kind b.length z.length ++ z ++ rest = c :: tl ∧
      c.toNat ≠ eos ∧ c.toNat &&& versionMask = 0 ∧ frameTypeOf c.toNat = kind ∧
      readFrame o decomp c.toNat tl = .ok b rest al := by
  let zl := z.length + writeCompExtra b.length
  have hf := comp_code_facts kind hk (zl % 16) (Nat.mod_lt _ (by decide))
  simp only at hf
  obtain ⟨h256, heos, hver, hty, hcm, hlo⟩ := hf
  have hcode : writeCompHeaderCode kind zl = ((kind <<< 4) ||| (zl % 16)) ||| 64 := by
    unfold writeCompHeaderCode; rw [and15]
  refine ⟨UInt8.ofNat (writeCompHeaderCode kind zl),
    uvarint (writeHeaderLen zl) ++ (UInt8.ofNat compressionFormatLZ4 :: (uvarint b.length ++ (z ++ rest))),
    [z.length, b.length], by simp [compFrameHeader, zl], ?_, ?_, ?_, ?_⟩
  all_goals try rw [ofNatByte _ (by rw [hcode]; exact h256), hcode]
  · exact heos
  · exact hver
  · exact hty
  · unfold readFrame
    rw [if_pos hcm]
    unfold readCompFrame readCompHeader
    rw [frameLen_header zl _ _ hz hlo]
    simp only
    have hb64 : b.length < two64 := by unfold two63 two64 at *; omega
    rw [readUvarint_uvarint b.length (z ++ rest) hb64]
    simp only [asInt_small b.length hb]
    have h1 : ¬ ((b.length : Int) < 0 ∨ (b.length : Int) > Int.ofNat o.maxSize) := by
      simp only [Int.ofNat_eq_coe]; omega
    rw [if_neg h1]
    have hn' : wrapInt ((zl : Int) - Int.ofNat (readCompExtra b.length)) = (z.length : Int) := by
      have : (zl : Int) - Int.ofNat (readCompExtra b.length) = (z.length : Int) := by
        have e : readCompExtra b.length = writeCompExtra b.length := rfl
        simp only [Int.ofNat_eq_coe, e, zl]; omega
      rw [this]; exact wrapInt_small _ (by omega)
    rw [hn']
    have hp : peekRead o.maxSize (z.length : Int) (z ++ rest) = .ok z rest := by
      unfold peekRead
      have h2 : ¬ ((z.length : Int) < 0) := by omega
      have h3 : (z.length : Int).toNat = z.length := Int.toNat_natCast _
      have h4 : hasLen (z ++ rest) z.length = true := by rw [hasLen_iff]; simp
      simp only [h2, if_false, h3, hfz, h4, and_self, if_true]
      simp
    rw [hp]
    simp only
    have h6 : (UInt8.ofNat compressionFormatLZ4).toNat = compressionFormatLZ4 := ofNatByte _ (by decide)
    simp only [h6, ne_eq, not_true_eq_false, if_false, Int.toNat_natCast, hd]

/-- the bytes of one block parse back to its payload, compressed or not -/
theorem readFrame_block (wo : WOpts) (o : ROpts) (comp : Bytes → Option Bytes) (decomp : Bytes → Nat → Option Bytes)
    (hlz : ∀ b z, comp b = some z → decomp z b.length = some b)
    (kind : Nat) (hk : kind < 3) (b rest : Bytes) (hne : b.isEmpty = false)
    (hs : blockSmall wo comp b = true) (hm : blockMax wo comp b ≤ o.maxSize) :
    ∃ c tl al, blockBytes wo comp kind b ++ rest = c :: tl ∧
      c.toNat ≠ eos ∧ c.toNat &&& versionMask = 0 ∧ frameTypeOf c.toNat = kind ∧
      readFrame o decomp c.toNat tl = .ok b rest al := by
  unfold blockBytes
  rw [hne]
  simp only [Bool.false_eq_true, if_false]
  unfold blockSmall at hs
  unfold blockMax at hm
  split
  · rename_i z hc
    rw [hc] at hs hm
    simp only [Bool.and_eq_true, decide_eq_true_eq] at hs
    simp only at hm
    have hm1 : b.length ≤ o.maxSize := Nat.le_trans (Nat.le_max_left _ _) hm
    have hm2 : z.length ≤ o.maxSize := Nat.le_trans (Nat.le_max_right _ _) hm
    split
    · obtain ⟨c, tl, al, h1, h2, h3, h4, _, h6, _⟩ := readFrame_plain o decomp kind hk b rest hs.1 hm1
      exact ⟨c, tl, al, h1, h2, h3, h4, h6⟩
    · have hcomp : comp b = some z := by
        by_cases hcp : wo.compress = true
        · simpa [hcp] using hc
        · simp [hcp] at hc
      exact readFrame_comp o decomp kind hk b z rest hs.1 hs.2 hm1 hm2 (hlz b z hcomp)
  · rename_i hc
    rw [hc] at hs hm
    simp only [decide_eq_true_eq] at hs
    simp only at hm
    obtain ⟨c, tl, al, h1, h2, h3, h4, _, h6, _⟩ := readFrame_plain o decomp kind hk b rest hs hm
    exact ⟨c, tl, al, h1, h2, h3, h4, h6⟩

/-! ### `readStream`, one step -/

theorem readStream_cont {o : ROpts} {decomp : Bytes → Nat → Option Bytes} {ctx ctx' : Ctx} {code : UInt8}
    {tl rest : Bytes} {vs : List RVal} {al : List Nat}
    (h : step o decomp ctx code tl = .cont ctx' vs al rest) :
    (readStream o decomp ctx (code :: tl)).vals = vs ++ (readStream o decomp ctx' rest).vals ∧
    (readStream o decomp ctx (code :: tl)).out = (readStream o decomp ctx' rest).out := by
  rw [readStream]
  split
  · rename_i h2; rw [h] at h2; cases h2
  · rename_i h2; rw [h] at h2; cases h2; exact ⟨rfl, rfl⟩

theorem readStream_nil (o : ROpts) (decomp : Bytes → Nat → Option Bytes) (ctx : Ctx) :
    (readStream o decomp ctx []).vals = [] ∧ (readStream o decomp ctx []).out = .eof := by
  rw [readStream]; exact ⟨rfl, rfl⟩

theorem readStream_eos (o : ROpts) (decomp : Bytes → Nat → Option Bytes) (ctx : Ctx) (rest : Bytes) :
    (readStream o decomp ctx (UInt8.ofNat eos :: rest)).vals = (readStream o decomp [] rest).vals ∧
    (readStream o decomp ctx (UInt8.ofNat eos :: rest)).out = (readStream o decomp [] rest).out := by
  have h : step o decomp ctx (UInt8.ofNat eos) rest = .cont [] [] [] rest := by
    simp only [step, ofNatByte eos (by decide), if_true]
  have := readStream_cont h
  simpa using this

section blocks
variable (wo : WOpts) (o : ROpts) (comp : Bytes → Option Bytes) (decomp : Bytes → Nat → Option Bytes)
variable (hlz : ∀ b z, comp b = some z → decomp z b.length = some b)
include hlz

theorem readStream_types (ctx ctx' : Ctx) (b rest : Bytes) (hne : b.isEmpty = false)
    (hs : blockSmall wo comp b = true) (hm : blockMax wo comp b ≤ o.maxSize)
    (hd : decTypedefs ctx b = .ok ctx') :
    (readStream o decomp ctx (blockBytes wo comp typesFrame b ++ rest)).vals = (readStream o decomp ctx' rest).vals ∧
    (readStream o decomp ctx (blockBytes wo comp typesFrame b ++ rest)).out = (readStream o decomp ctx' rest).out := by
  obtain ⟨c, tl, al, h1, h2, h3, h4, h5⟩ := readFrame_block wo o comp decomp hlz typesFrame (by decide) b rest hne hs hm
  rw [h1]
  have h : step o decomp ctx c tl = .cont ctx' [] al rest := by
    simp only [step, h2, if_false, h3, ne_eq, not_true_eq_false, h4, if_true, h5, hd]
  have := readStream_cont h
  simpa using this

theorem readStream_values (ctx : Ctx) (b rest : Bytes) (vs : List RVal) (hne : b.isEmpty = false)
    (hs : blockSmall wo comp b = true) (hm : blockMax wo comp b ≤ o.maxSize)
    (hd : decodeVals o ctx b = .ok vs) :
    (readStream o decomp ctx (blockBytes wo comp valuesFrame b ++ rest)).vals = vs ++ (readStream o decomp ctx rest).vals ∧
    (readStream o decomp ctx (blockBytes wo comp valuesFrame b ++ rest)).out = (readStream o decomp ctx rest).out := by
  obtain ⟨c, tl, al, h1, h2, h3, h4, h5⟩ := readFrame_block wo o comp decomp hlz valuesFrame (by decide) b rest hne hs hm
  rw [h1]
  have hk1 : ¬ (valuesFrame = typesFrame) := by decide
  have h : ∃ al', step o decomp ctx c tl = .cont ctx vs al' rest := by
    simp only [step, h2, if_false, h3, ne_eq, not_true_eq_false, h4, hk1, if_true, h5, hd]
    exact ⟨_, rfl⟩
  obtain ⟨al', h⟩ := h
  exact readStream_cont h

theorem readStream_control (ctx : Ctx) (b rest : Bytes) (hne : b.isEmpty = false)
    (hs : blockSmall wo comp b = true) (hm : blockMax wo comp b ≤ o.maxSize) :
    (readStream o decomp ctx (blockBytes wo comp controlFrame b ++ rest)).vals = (readStream o decomp ctx rest).vals ∧
    (readStream o decomp ctx (blockBytes wo comp controlFrame b ++ rest)).out = (readStream o decomp ctx rest).out := by
  obtain ⟨c, tl, al, h1, h2, h3, h4, h5⟩ := readFrame_block wo o comp decomp hlz controlFrame (by decide) b rest hne hs hm
  rw [h1]
  have hk1 : ¬ (controlFrame = typesFrame) := by decide
  have hk2 : ¬ (controlFrame = valuesFrame) := by decide
  have h : step o decomp ctx c tl = .cont ctx [] al rest := by
    simp only [step, h2, if_false, h3, ne_eq, not_true_eq_false, h4, hk1, hk2, if_true, h5, hne, Bool.false_eq_true]
  have := readStream_cont h
  simpa using this

end blocks

/-! ### values -/

/-- one value record as the writer appends it: (type id, type, body) -/
abbrev Rec := Nat × ZTy × Option Bytes

def recBytes (r : Rec) : Bytes := uvarint r.1 ++ zappend r.2.2
def recsBytes : List Rec → Bytes
  | [] => []
  | r :: rs => recBytes r ++ recsBytes rs
def Rec.toRVal (r : Rec) : RVal := ⟨r.2.1, r.2.2⟩

def RecOk (o : ROpts) (ctx : Ctx) (r : Rec) : Prop :=
  ctx.typeOfId (r.1 : Int) = some r.2.1 ∧ r.1 < two63 ∧ BodyFits r.2.2 ∧
    (o.validate = true → validate r.2.1 r.2.2 = true)

theorem recsBytes_append (a b : List Rec) : recsBytes (a ++ b) = recsBytes a ++ recsBytes b := by
  induction a with
  | nil => rfl
  | cons x xs ih => simp [recsBytes, ih]

theorem recBytes_ne_nil (r : Rec) : (recBytes r ++ rest).isEmpty = false := by
  unfold recBytes
  have := uvarint_ne_nil r.1
  cases h : uvarint r.1 with
  | nil => exact absurd h this
  | cons a b => simp

theorem decodeVal_rec (o : ROpts) (ctx : Ctx) (r : Rec) (rest : Bytes) (h : RecOk o ctx r) :
    decodeVal o ctx (recBytes r ++ rest) = .ok r.toRVal rest := by
  obtain ⟨id, ty, body⟩ := r
  obtain ⟨hty, hid, hfit, hval⟩ := h
  simp only at hty hid hfit hval
  unfold decodeVal recBytes
  simp only [List.append_assoc]
  rw [readUvarintAsInt_uvarint id _ hid]
  simp only
  have hidn : ¬ ((id : Int) < 0) := by omega
  cases body with
  | none =>
    simp only [zappend, tagNull]
    rw [readUvarint_uvarint 0 rest (by decide)]
    simp only [if_true]
    have : readBody (-1) rest = some (none, rest) := by
      unfold readBody; simp
    rw [this]
    simp only [hidn, if_false, hty]
    cases hv : o.validate with
    | false => simp [Rec.toRVal]
    | true => simp [Rec.toRVal, hval hv]
  | some b =>
    simp only [BodyFits] at hfit
    simp only [zappend, toTag, tagNull, tagLength, List.append_assoc]
    rw [readUvarint_uvarint (b.length + 1) (b ++ rest) (by unfold two63 two64 at *; omega)]
    have h1 : asInt (b.length + 1 - 1) = (b.length : Int) := by
      rw [Nat.add_sub_cancel]; exact asInt_small _ (by omega)
    simp only [Nat.add_one_ne_zero, if_false, h1]
    have hb : readBody (b.length : Int) (b ++ rest) = some (some b, rest) := by
      unfold readBody
      by_cases h0 : b.length = 0
      · have : b = [] := List.eq_nil_of_length_eq_zero h0
        subst this; simp
      · have hne : ¬ ((b.length : Int) = 0) := by omega
        have hnn : ¬ ((b.length : Int) < 0) := by omega
        have hl : hasLen (b ++ rest) b.length = true := by rw [hasLen_iff]; simp
        simp only [hne, if_false, hnn, Int.toNat_natCast, hl, if_true]
        simp
    rw [hb]
    simp only [hidn, if_false, hty]
    cases hv : o.validate with
    | false => simp [Rec.toRVal]
    | true => simp [Rec.toRVal, hval hv]

theorem decodeVals_recs (o : ROpts) (ctx : Ctx) : ∀ (rs : List Rec), (∀ r ∈ rs, RecOk o ctx r) →
    decodeVals o ctx (recsBytes rs) = .ok (rs.map Rec.toRVal)
  | [], _ => by rw [decodeVals]; rfl
  | r :: rs, h => by
    rw [decodeVals]
    simp only [recsBytes, recBytes_ne_nil, Bool.false_eq_true, if_false]
    have hd := decodeVal_rec o ctx r (recsBytes rs) (h r (by simp))
    split
    · rename_i h2; rw [hd] at h2; cases h2
    · rename_i h2; rw [hd] at h2; cases h2
    · rename_i v r' h2
      rw [hd] at h2; cases h2
      rw [decodeVals_recs o ctx rs (fun x hx => h x (by simp [hx]))]
      rfl

theorem RecOk.append {o : ROpts} {ctx : Ctx} {r : Rec} (e : Ctx) (h : RecOk o ctx r) : RecOk o (ctx ++ e) r :=
  ⟨typeOfId_append e h.1, h.2.1, h.2.2.1, h.2.2.2⟩

/-! ### the writer invariant -/

theorem recsBytes_nil_iff (rs : List Rec) (h : (recsBytes rs).isEmpty = true) : rs = [] := by
  cases rs with
  | nil => rfl
  | cons r rs => simp only [recsBytes] at h; rw [recBytes_ne_nil] at h; cases h

section writer
variable (wo : WOpts) (o : ROpts) (comp : Bytes → Option Bytes) (decomp : Bytes → Nat → Option Bytes)

/-- the reader, having consumed `out`, has delivered `flushed` and is in context `D` -/
def ReadsTo (out : Bytes) (flushed : List RVal) (D : Ctx) : Prop :=
  ∀ rest, (readStream o decomp [] (out ++ rest)).vals = flushed ++ (readStream o decomp D rest).vals ∧
          (readStream o decomp [] (out ++ rest)).out = (readStream o decomp D rest).out

/-- Writer invariant: `vs` are the values written so far. -/
def WInv (w : WSt) (vs : List RVal) : Prop :=
  ∃ (D : Ctx) (flushed : List RVal) (recs : List Rec),
    ReadsTo o decomp w.out flushed D ∧
    (∀ rest', decTypedefs D (w.enc.bytes ++ rest') = decTypedefs w.enc.ctx rest') ∧
    w.values = recsBytes recs ∧ (∀ r ∈ recs, RecOk o w.enc.ctx r) ∧
    vs = flushed ++ recs.map Rec.toRVal ∧
    CacheOk w.enc ∧ (w.dirty = false → D = [])

def Good (w : WSt) : Prop := w.small = true ∧ w.enc.small = true ∧ w.maxFrame ≤ o.maxSize

theorem writeBlock_facts (w : WSt) (kind : Nat) (b : Bytes) :
    let w' := w.writeBlock wo comp kind b
    w'.enc = w.enc ∧ w'.values = w.values ∧ (w'.small = true → w.small = true) ∧ w.maxFrame ≤ w'.maxFrame ∧
    (b.isEmpty = true → w' = w) ∧
    (b.isEmpty = false → w'.out = w.out ++ blockBytes wo comp kind b ∧ w'.dirty = true ∧
      (w'.small = true → blockSmall wo comp b = true) ∧ blockMax wo comp b ≤ w'.maxFrame) := by
  simp only [WSt.writeBlock]
  cases hb : b.isEmpty with
  | true => simp
  | false =>
    simp only [Bool.false_eq_true, if_false, true_and, Bool.and_eq_true, forall_const, false_implies, and_true]
    exact ⟨fun h => h.1, Nat.le_max_left _ _, fun h => h.2, Nat.le_max_right _ _⟩

variable (hlz : ∀ b z, comp b = some z → decomp z b.length = some b)
include hlz

theorem flush_inv (w : WSt) (vs : List RVal) (hi : WInv o decomp w vs) (hg : Good o (w.flush wo comp)) :
    WInv o decomp (w.flush wo comp) vs := by
  obtain ⟨D, flushed, recs, hread, htd, hvals, hrecs, hvs, hcache, hdirty⟩ := hi
  obtain ⟨hsmall, hencsmall, hmax⟩ := hg
  -- the two blocks
  have f1 := writeBlock_facts wo comp w typesFrame w.enc.bytes
  have f2 := writeBlock_facts wo comp (w.writeBlock wo comp typesFrame w.enc.bytes) valuesFrame w.values
  simp only at f1 f2
  obtain ⟨e1, v1, s1, m1, emp1, ne1⟩ := f1
  obtain ⟨e2, v2, s2, m2, emp2, ne2⟩ := f2
  simp only [WSt.flush] at hsmall hencsmall hmax ⊢
  have hsm2 : ((w.writeBlock wo comp typesFrame w.enc.bytes).writeBlock wo comp valuesFrame w.values).small = true := hsmall
  have hsm1 := s2 hsm2
  have hmx2 : ((w.writeBlock wo comp typesFrame w.enc.bytes).writeBlock wo comp valuesFrame w.values).maxFrame ≤ o.maxSize := hmax
  have hmx1 : (w.writeBlock wo comp typesFrame w.enc.bytes).maxFrame ≤ o.maxSize := Nat.le_trans m2 hmx2
  -- decoder context after the pending typedefs
  have hctx : decTypedefs D w.enc.bytes = .ok w.enc.ctx := by
    have := htd []; rwa [List.append_nil, decTypedefs_nil] at this
  -- after the types block the reader is in `w.enc.ctx`
  have hread1 : ReadsTo o decomp (w.writeBlock wo comp typesFrame w.enc.bytes).out flushed w.enc.ctx := by
    cases hb : w.enc.bytes.isEmpty with
    | true =>
      rw [emp1 hb]
      have hnil : w.enc.bytes = [] := List.isEmpty_iff.mp hb
      rw [hnil, decTypedefs_nil] at hctx
      cases hctx
      exact hread
    | false =>
      obtain ⟨hout, _, hbs, hbm⟩ := ne1 hb
      intro rest
      rw [hout, List.append_assoc]
      have h1 := hread (blockBytes wo comp typesFrame w.enc.bytes ++ rest)
      have h2 := readStream_types wo o comp decomp hlz D w.enc.ctx w.enc.bytes rest hb (hbs hsm1) (Nat.le_trans hbm hmx1) hctx
      exact ⟨by rw [h1.1, h2.1], by rw [h1.2, h2.2]⟩
  -- the pending values decode in `w.enc.ctx`
  have hdv : decodeVals o w.enc.ctx w.values = .ok (recs.map Rec.toRVal) := by
    rw [hvals]; exact decodeVals_recs o w.enc.ctx recs hrecs
  have hread2 : ReadsTo o decomp ((w.writeBlock wo comp typesFrame w.enc.bytes).writeBlock wo comp valuesFrame w.values).out
      (flushed ++ recs.map Rec.toRVal) w.enc.ctx := by
    cases hb : w.values.isEmpty with
    | true =>
      rw [emp2 hb]
      have : recs = [] := recsBytes_nil_iff recs (by rw [← hvals]; exact hb)
      subst this
      simpa using hread1
    | false =>
      obtain ⟨hout, _, hbs, hbm⟩ := ne2 hb
      intro rest
      rw [hout, List.append_assoc]
      have h1 := hread1 (blockBytes wo comp valuesFrame w.values ++ rest)
      have h2 := readStream_values wo o comp decomp hlz w.enc.ctx w.values rest _ hb (hbs hsm2) (Nat.le_trans hbm hmx2) hdv
      exact ⟨by rw [h1.1, h2.1, List.append_assoc], by rw [h1.2, h2.2]⟩
  refine ⟨w.enc.ctx, flushed ++ recs.map Rec.toRVal, [], hread2, ?_, rfl, ?_, ?_, ?_, ?_⟩
  · intro rest'; simp [e2, e1]
  · intro r hr; cases hr
  · simp [hvs]
  · simpa [CacheOk, e2, e1] using hcache
  · intro hd
    simp only at hd
    cases hb2 : w.values.isEmpty with
    | false => rw [(ne2 hb2).2.1] at hd; cases hd
    | true =>
      rw [emp2 hb2] at hd
      cases hb1 : w.enc.bytes.isEmpty with
      | false => rw [(ne1 hb1).2.1] at hd; cases hd
      | true =>
        rw [emp1 hb1] at hd
        have hnil : w.enc.bytes = [] := List.isEmpty_iff.mp hb1
        rw [hnil, decTypedefs_nil] at hctx
        cases hctx
        exact hdirty hd

omit hlz in
theorem flush_mono (w : WSt) :
    ((w.flush wo comp).small = true → w.small = true) ∧ (w.flush wo comp).enc.small = w.enc.small ∧
    w.maxFrame ≤ (w.flush wo comp).maxFrame ∧ (w.flush wo comp).values = [] ∧ (w.flush wo comp).enc.bytes = [] ∧
    (w.flush wo comp).enc.ctx = w.enc.ctx ∧ (w.flush wo comp).enc.cache = w.enc.cache := by
  have f1 := writeBlock_facts wo comp w typesFrame w.enc.bytes
  have f2 := writeBlock_facts wo comp (w.writeBlock wo comp typesFrame w.enc.bytes) valuesFrame w.values
  simp only at f1 f2
  obtain ⟨e1, _, s1, m1, _, _⟩ := f1
  obtain ⟨e2, _, s2, m2, _, _⟩ := f2
  simp only [WSt.flush]
  refine ⟨fun h => s1 (s2 h), ?_, Nat.le_trans m1 m2, ?_, ?_, ?_, ?_⟩ <;> simp [e2, e1]

omit hlz in
theorem good_flush_mono (w : WSt) (hg : Good o (w.flush wo comp)) : Good o w := by
  obtain ⟨h1, h2, h3⟩ := hg
  obtain ⟨m1, m2, m3, _⟩ := flush_mono wo comp w
  exact ⟨m1 h1, by rw [← m2]; exact h2, Nat.le_trans m3 h3⟩

omit hlz in
theorem good_step_mono (w : WSt) (op : WOp) (hg : Good o (WSt.step wo comp w op)) : Good o w := by
  cases op with
  | write v =>
    simp only [WSt.step] at hg
    cases hk : encTy v.cid v.ty w.enc with
    | mk enc' id =>
      simp only [hk] at hg
      have key : Good o (w.addValue enc' id v.body) := by
        split at hg
        · exact good_flush_mono wo o comp _ hg
        · exact hg
      obtain ⟨h1, h2, h3⟩ := key
      simp only [WSt.addValue, Bool.and_eq_true] at h1 h2 h3
      refine ⟨h1.1.1, ?_, h3⟩
      exact encTy_small v.cid v.ty w.enc (by rw [hk]; exact h2)
  | endStream =>
    simp only [WSt.step] at hg
    apply good_flush_mono wo o comp
    obtain ⟨h1, h2, h3⟩ := hg
    split at h1 <;> split at h2 <;> split at h3 <;> exact ⟨h1, h2, h3⟩
  | control f b =>
    simp only [WSt.step] at hg
    apply good_flush_mono wo o comp
    have f1 := writeBlock_facts wo comp (w.flush wo comp) controlFrame (UInt8.ofNat f :: b)
    simp only at f1
    obtain ⟨e1, _, s1, m1, _, _⟩ := f1
    obtain ⟨h1, h2, h3⟩ := hg
    exact ⟨s1 h1, by rw [← e1]; exact h2, Nat.le_trans m1 h3⟩

omit hlz in
theorem good_run_mono : ∀ (ops : List WOp) (w : WSt), Good o (WSt.run wo comp w ops) → Good o w := by
  intro ops
  induction ops with
  | nil => intro w h; exact h
  | cons op ops ih =>
    intro w h
    simp only [WSt.run, List.foldl_cons] at h
    exact good_step_mono wo o comp w op (ih _ h)

theorem step_inv (w : WSt) (vs : List RVal) (op : WOp) (hi : WInv o decomp w vs)
    (hv : ∀ v, op = .write v → v.ty.valid = true ∧ (o.validate = true → validate v.ty v.body = true))
    (hg : Good o (WSt.step wo comp w op)) :
    WInv o decomp (WSt.step wo comp w op) (vs ++ (opsValues [op]).map fun v => ⟨v.ty, v.body⟩) := by
  cases op with
  | write v =>
    obtain ⟨hvalid, hvalidate⟩ := hv v rfl
    simp only [opsValues, List.map_cons, List.map_nil]
    simp only [WSt.step] at hg ⊢
    cases hk : encTy v.cid v.ty w.enc with
    | mk enc' id =>
      simp only [hk] at hg ⊢
      -- the state after appending the value record
      have hg1 : Good o (w.addValue enc' id v.body) := by
        split at hg
        · exact good_flush_mono wo o comp _ hg
        · exact hg
      obtain ⟨D, flushed, recs, hread, htd, hvals, hrecs, hvs, hcache, hdirty⟩ := hi
      have hsm : (w.small = true ∧ id < two63) ∧ bodySmall v.body = true := by
        have := hg1.1; simpa [WSt.addValue] using this
      have hencs : enc'.small = true := by have := hg1.2.1; simpa [WSt.addValue] using this
      have hspec := encTy_spec v.cid v.ty w.enc hvalid hcache (by rw [hk]; exact hencs)
      rw [hk] at hspec
      obtain ⟨hok, hid⟩ := hspec
      obtain ⟨e, he⟩ := hok.ext
      obtain ⟨d, hd, hdec⟩ := hok.dec
      have hfit : BodyFits v.body := by
        cases hb : v.body with
        | none => trivial
        | some b => have := hsm.2; rw [hb] at this; simpa [bodySmall, BodyFits] using this
      have hi1 : WInv o decomp (w.addValue enc' id v.body) (vs ++ [⟨v.ty, v.body⟩]) := by
        refine ⟨D, flushed, recs ++ [(id, v.ty, v.body)], hread, ?_, ?_, ?_, ?_, hok.cache, hdirty⟩
        · intro rest'
          simp only [WSt.addValue]
          rw [hd, List.append_assoc, htd, hdec]
        · simp only [WSt.addValue, hvals, recsBytes_append, recsBytes, recBytes, List.append_nil, List.append_assoc]
        · intro r hr
          simp only [WSt.addValue]
          rcases List.mem_append.mp hr with hr | hr
          · rw [he]; exact (hrecs r hr).append e
          · simp only [List.mem_singleton] at hr
            subst hr
            exact ⟨hid, hsm.1.2, hfit, hvalidate⟩
        · simp [hvs, Rec.toRVal]
      split
      · rename_i hfl
        rw [if_pos hfl] at hg
        exact flush_inv wo o comp decomp hlz _ _ hi1 hg
      · exact hi1
  | endStream =>
    simp only [opsValues, List.map_nil, List.append_nil]
    simp only [WSt.step] at hg ⊢
    have hgf : Good o (w.flush wo comp) := by
      obtain ⟨h1, h2, h3⟩ := hg
      split at h1 <;> split at h2 <;> split at h3 <;> exact ⟨h1, h2, h3⟩
    have hif := flush_inv wo o comp decomp hlz w vs hi hgf
    obtain ⟨D, flushed, recs, hread, htd, hvals, hrecs, hvs, hcache, hdirty⟩ := hif
    obtain ⟨_, _, _, hv0, hb0, _, _⟩ := flush_mono wo comp w
    have hrecs0 : recs = [] := recsBytes_nil_iff recs (by rw [← hvals, hv0]; rfl)
    subst hrecs0
    refine ⟨[], flushed, [], ?_, ?_, ?_, ?_, ?_, ?_, ?_⟩
    · intro rest
      cases hdy : (w.flush wo comp).dirty with
      | true =>
        simp only [hdy, if_true, List.append_assoc, List.singleton_append]
        have h1 := hread (UInt8.ofNat eos :: rest)
        have h2 := readStream_eos o decomp D rest
        exact ⟨by rw [h1.1, h2.1], by rw [h1.2, h2.2]⟩
      | false =>
        simp only [hdy, Bool.false_eq_true, if_false]
        have := hdirty hdy
        subst this
        exact hread rest
    · intro rest'; split <;> simp
    · split <;> simp [hv0, recsBytes]
    · intro r hr; cases hr
    · simpa using hvs
    · intro c t hm; split at hm <;> simp at hm
    · intro _; rfl
  | control f b =>
    simp only [opsValues, List.map_nil, List.append_nil]
    simp only [WSt.step] at hg ⊢
    have f1 := writeBlock_facts wo comp (w.flush wo comp) controlFrame (UInt8.ofNat f :: b)
    simp only at f1
    obtain ⟨e1, v1, s1, m1, _, ne1⟩ := f1
    obtain ⟨hout, hdy, hbs, hbm⟩ := ne1 rfl
    have hgf : Good o (w.flush wo comp) := ⟨s1 hg.1, by rw [← e1]; exact hg.2.1, Nat.le_trans m1 hg.2.2⟩
    have hif := flush_inv wo o comp decomp hlz w vs hi hgf
    obtain ⟨D, flushed, recs, hread, htd, hvals, hrecs, hvs, hcache, hdirty⟩ := hif
    refine ⟨D, flushed, recs, ?_, ?_, ?_, ?_, hvs, ?_, ?_⟩
    · intro rest
      rw [hout, List.append_assoc]
      have h1 := hread (blockBytes wo comp controlFrame (UInt8.ofNat f :: b) ++ rest)
      have h2 := readStream_control wo o comp decomp hlz D (UInt8.ofNat f :: b) rest rfl (hbs hg.1) (Nat.le_trans hbm hg.2.2)
      exact ⟨by rw [h1.1, h2.1], by rw [h1.2, h2.2]⟩
    · intro rest'; rw [e1]; exact htd rest'
    · rw [v1]; exact hvals
    · rw [e1]; exact hrecs
    · simpa [CacheOk, e1] using hcache
    · intro hd; rw [hdy] at hd; cases hd

omit hlz in
theorem opsValues_cons (op : WOp) (ops : List WOp) : opsValues (op :: ops) = opsValues [op] ++ opsValues ops := by
  cases op <;> simp [opsValues]

theorem run_inv : ∀ (ops : List WOp) (w : WSt) (vs : List RVal), WInv o decomp w vs →
    (∀ v ∈ opsValues ops, v.ty.valid = true ∧ (o.validate = true → validate v.ty v.body = true)) →
    Good o (WSt.run wo comp w ops) →
    WInv o decomp (WSt.run wo comp w ops) (vs ++ (opsValues ops).map fun v => ⟨v.ty, v.body⟩) := by
  intro ops
  induction ops with
  | nil => intro w vs hi _ _; simpa [WSt.run, opsValues] using hi
  | cons op ops ih =>
    intro w vs hi hv hg
    simp only [WSt.run, List.foldl_cons] at hg ⊢
    have hg1 : Good o (WSt.step wo comp w op) := good_run_mono wo o comp ops _ hg
    have h1 := step_inv wo o comp decomp hlz w vs op hi
      (by intro v hop; subst hop; exact hv v (by simp [opsValues])) hg1
    have h2 := ih (WSt.step wo comp w op) _ h1
      (by intro v hm; exact hv v (by rw [opsValues_cons]; exact List.mem_append_right _ hm)) hg
    rw [opsValues_cons, List.map_append, ← List.append_assoc]
    exact h2

/-- **The round trip**, in prefix form: after the bytes of a closed writer the reader has
    delivered exactly the written values and is back in its initial state, whatever follows. -/
theorem roundtrip_prefix (ops : List WOp)
    (hv : ∀ v ∈ opsValues ops, v.ty.valid = true ∧ (o.validate = true → validate v.ty v.body = true))
    (hg : Good o (writeAll wo comp ops)) (rest : Bytes) :
    (readStream o decomp [] ((writeAll wo comp ops).out ++ rest)).vals =
      (opsValues ops).map (fun v => ⟨v.ty, v.body⟩) ++ (readStream o decomp [] rest).vals ∧
    (readStream o decomp [] ((writeAll wo comp ops).out ++ rest)).out = (readStream o decomp [] rest).out := by
  have h0 : WInv o decomp ({} : WSt) [] := by
    refine ⟨[], [], [], ?_, ?_, rfl, ?_, rfl, ?_, fun _ => rfl⟩
    · intro rest; simp
    · intro rest'; simp
    · intro r hr; cases hr
    · intro c t hm; simp at hm
  unfold writeAll at hg ⊢
  have hg1 : Good o (WSt.run wo comp {} ops) := good_step_mono wo o comp _ _ hg
  have h1 := run_inv wo o comp decomp hlz ops {} [] h0 hv hg1
  have h2 := step_inv wo o comp decomp hlz _ _ .endStream h1 (by intro v h; cases h) hg
  simp only [List.nil_append, opsValues, List.map_nil, List.append_nil] at h2
  obtain ⟨D, flushed, recs, hread, _, hvals, _, hvs, _, hdirty⟩ := h2
  have hfacts : (WSt.step wo comp (WSt.run wo comp {} ops) .endStream).values = [] ∧
      (WSt.step wo comp (WSt.run wo comp {} ops) .endStream).dirty = false := by
    simp only [WSt.step]
    obtain ⟨_, _, _, hvf, _⟩ := flush_mono wo comp (WSt.run wo comp {} ops)
    constructor
    · split <;> simp [hvf]
    · split
      · rfl
      · rename_i h; simpa using h
  have hrecs0 : recs = [] := recsBytes_nil_iff recs (by rw [← hvals, hfacts.1]; rfl)
  subst hrecs0
  have hD := hdirty hfacts.2
  subst hD
  have hr := hread rest
  exact ⟨by rw [hr.1, hvs]; simp, hr.2⟩

theorem roundtrip (ops : List WOp)
    (hv : ∀ v ∈ opsValues ops, v.ty.valid = true ∧ (o.validate = true → validate v.ty v.body = true))
    (hg : Good o (writeAll wo comp ops)) :
    (readAll o decomp (writeAll wo comp ops).out).vals = (opsValues ops).map (fun v => ⟨v.ty, v.body⟩) ∧
    (readAll o decomp (writeAll wo comp ops).out).out = .eof := by
  have h := roundtrip_prefix wo o comp decomp hlz ops hv hg []
  have hn := readStream_nil o decomp []
  simp only [List.append_nil] at h
  unfold readAll
  exact ⟨by rw [h.1, hn.1]; simp, by rw [h.2, hn.2]⟩

end writer

end Zed.Zng
