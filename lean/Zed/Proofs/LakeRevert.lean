/-
  What playing `Patch.Revert` on a tip does, and `merge_play` (what playing the commit object
  of `Diff` on the parent tip does).  Helper lemmas for C15.
-/
import Zed.Proofs.LakeMerge
namespace Zed.Lake
variable {K : Type}

theorem any_id_contains (os : List (Obj K)) (id : Nat) :
    os.any (·.id == id) = (os.map (·.id)).contains id := by
  induction os with
  | nil => rfl
  | cons o os ih =>
    simp only [List.any_cons, List.map_cons, List.contains_cons, ih]
    congr 1
    exact BEq.comm

theorem contains_filter (l : List Nat) (q : Nat → Bool) (id : Nat) :
    (l.filter q).contains id = (l.contains id && q id) := by
  induction l with
  | nil => rfl
  | cons x xs ih =>
    simp only [List.filter_cons]
    by_cases hx : id = x
    · subst hx
      cases hq : q id <;> simp [hq, ih]
    · cases hq : q x <;> simp [hq, ih, hx]

theorem ids_filter (l : List (Obj K)) (q : Nat → Bool) :
    (l.filter (fun o => q o.id)).map (·.id) = (l.map (·.id)).filter q := by
  rw [List.filter_map]; rfl

theorem find_id (s : Snap K) (id : Nat) (o : Obj K) (h : s.find id = some o) : o.id = id := by
  unfold Snap.find at h
  have := List.find?_some h
  simpa using this

theorem revertAdds_spec (B : Snap K) (p : Patch K) (hb : p.base = .snap B) (tip : Snap K)
    (ids : List Nat) (acts : List (Action K)) (h : p.revertAdds tip ids = .ok acts) :
    ∃ os : List (Obj K), acts = os.map .add ∧ os.map (·.id) = ids.filter (fun id => !tip.hasObj id) := by
  induction ids generalizing acts with
  | nil => simp [Patch.revertAdds] at h; exact ⟨[], by simp [h], rfl⟩
  | cons x xs ih =>
    unfold Patch.revertAdds at h
    rw [hb] at h
    cases hl : (View.snap B).lookup x with
    | none => simp [hl] at h
    | some o =>
      simp only [hl] at h
      have hoid : o.id = x := find_id B x o (by simpa [View.lookup] using hl)
      cases hr : p.revertAdds tip xs with
      | error e => simp [hr] at h
      | ok r =>
        simp only [hr, Except.ok.injEq] at h
        obtain ⟨os, h1, h2⟩ := ih r hr
        cases ht : tip.hasObj x with
        | true =>
          simp only [ht, if_true] at h
          exact ⟨os, by rw [← h, h1], by simp [List.filter_cons, ht, h2]⟩
        | false =>
          simp only [ht, Bool.false_eq_true, if_false] at h
          exact ⟨o :: os, by rw [← h, h1]; rfl, by simp [List.filter_cons, ht, h2, hoid]⟩

/-- **revert, patch level**: playing the revert of a commit (patch `pc` over its parent
    snapshot `B`) on any tip `T` succeeds and yields `(T \ added) ∪ deleted`. -/
theorem revert_play (B Sc T : Snap K) (A : List (Action K)) (pc : Patch K) (acts : List (Action K))
    (hpc : (Patch.new (.snap B)).play A = .ok pc) (hSc : play B A = .ok Sc)
    (hr : pc.revert T = .ok acts) :
    ∃ T', play T acts = .ok T' ∧ T'.vecs = T.vecs ∧
      ∀ id, T'.hasObj id = ((T.hasObj id && !pc.diff.hasObj id) || pc.delObjs.contains id) := by
  have rc := sim B A _ pc B Sc (Rel.init B) hpc hSc
  unfold Patch.revert at hr
  simp only [] at hr
  cases hra : pc.revertAdds T pc.delObjs with
  | error e => simp [hra] at hr
  | ok adds =>
    simp only [hra] at hr
    split at hr
    · cases hr
    · cases hr
      obtain ⟨os, hos, hids⟩ := revertAdds_spec B pc rc.base T pc.delObjs adds hra
      have hmap : (pc.diff.objs.filter (T.hasObj ·.id)).map (fun o => Action.del (K := K) o.id)
          = ((pc.diff.objs.filter (fun o => T.hasObj o.id)).map (·.id)).map .del := by simp
      rw [play_append, hmap, ids_filter pc.diff.objs T.hasObj]
      obtain ⟨T1, hT1, hv1, hm1⟩ := play_dels T ((pc.diff.objs.map (fun x : Obj K => x.id)).filter T.hasObj)
        (rc.diffNodup.filter _) (by intro id hid; exact (List.mem_filter.mp hid).2)
      rw [hT1]
      simp only []
      rw [hos]
      have hadd := play_adds T1 os (by rw [hids]; exact rc.delNodup.filter _) (by
        intro o ho
        have : o.id ∈ pc.delObjs.filter (fun id => !T.hasObj id) := by
          rw [← hids]; exact List.mem_map_of_mem (f := fun x : Obj K => x.id) ho
        have ht := (List.mem_filter.mp this).2
        rw [hm1]
        have : T.hasObj o.id = false := by simpa using ht
        rw [this]; rfl)
      refine ⟨_, hadd, hv1, ?_⟩
      intro id
      rw [hasObj_append, hm1, contains_filter, any_id_contains, hids, contains_filter,
        ← any_id_contains]
      have hd : pc.diff.objs.any (·.id == id) = pc.diff.hasObj id := rfl
      rw [hd]
      cases hT : T.hasObj id <;> cases hD : pc.diff.hasObj id <;> cases hC : pc.delObjs.contains id <;> simp
      -- remaining cases: in the diff and in delObjs at once — impossible (diff ∩ B = ∅, delObjs ⊆ B)
      all_goals (have := rc.delIn id hC; rw [rc.diffOut id hD] at this; cases this)

/-- **merge, patch level**: for two patches over the common-ancestor snapshot `B`, playing the
    commit object of `Diff(parent, child)` on the parent tip `Sp` succeeds — provided every
    object the child deleted is still in `Sp` — and yields `Sp \ childDeleted ∪ childAdded`. -/
theorem merge_play (B Sp Sc : Snap K) (Ap Ac : List (Action K)) (pp pc d : Patch K)
    (hpp : (Patch.new (.snap B)).play Ap = .ok pp) (hpc : (Patch.new (.snap B)).play Ac = .ok pc)
    (hSp : play B Ap = .ok Sp) (hSc : play B Ac = .ok Sc)
    (hd : diff pp pc = .ok d) (guard : pc.delObjs.all Sp.hasObj = true) :
    ∃ S', play Sp d.commitActions = .ok S' ∧ S'.vecs = Sp.vecs ∧
      ∀ id, S'.hasObj id = ((Sp.hasObj id && !pc.delObjs.contains id) || pc.diff.hasObj id) := by
  have rp := sim B Ap _ pp B Sp (Rel.init B) hpp hSp
  have rc := sim B Ac _ pc B Sc (Rel.init B) hpc hSc
  obtain ⟨h1, h2, h3, h4⟩ := diff_spec B pp pc d Sp Sc rp rc hd
  unfold Patch.commitActions
  rw [h1, h2, h3, h4]
  simp only [List.map_nil, List.append_nil]
  obtain ⟨S1, hS1, hv1, hm1⟩ := play_dels Sp pc.delObjs rc.delNodup (fun id hid => (List.all_eq_true.mp guard) id hid)
  rw [play_append, hS1]
  simp only []
  have hadds := play_adds S1 (pc.diff.objs.filter (fun o => !pp.exists_ o.id))
    (by rw [ids_filter pc.diff.objs (fun i => !pp.exists_ i)]; exact rc.diffNodup.filter _)
    (by
      intro o ho
      have hne := (List.mem_filter.mp ho).2
      have hne : pp.exists_ o.id = false := by simpa using hne
      rw [patch_exists pp B rp.base] at hne
      have h5 : pp.diff.hasObj o.id = false := by
        cases h : pp.diff.hasObj o.id <;> simp_all
      have h6 : B.hasObj o.id = false := by
        cases h : B.hasObj o.id <;> simp_all
      rw [hm1, rp.mem, h5, h6]; simp)
  refine ⟨_, hadds, hv1, ?_⟩
  intro id
  rw [hasObj_append, hm1, List.any_filter]
  cases hcd : pc.diff.hasObj id with
  | false =>
    have : (pc.diff.objs.any fun o => (!pp.exists_ o.id) && o.id == id) = false := by
      rw [List.any_eq_false]
      intro o ho hc
      simp only [Bool.and_eq_true] at hc
      have : pc.diff.hasObj id = true := by
        simp only [Snap.hasObj, List.any_eq_true]; exact ⟨o, ho, hc.2⟩
      rw [hcd] at this; cases this
    rw [this]
  | true =>
    have hB := rc.diffOut id hcd
    have hnd : pc.delObjs.contains id = false := by
      cases h : pc.delObjs.contains id with
      | false => rfl
      | true => rw [rc.delIn id h] at hB; cases hB
    rw [hnd]
    simp only [Bool.not_false, Bool.and_true, Bool.or_true]
    cases hpe : pp.exists_ id with
    | true =>
      -- the parent already has it (an earlier merge): it is in the parent tip
      rw [patch_exists pp B rp.base, hB, Bool.or_false] at hpe
      have : Sp.hasObj id = true := by rw [rp.mem, hpe]; simp
      rw [this]; simp
    | false =>
      have : (pc.diff.objs.any fun o => (!pp.exists_ o.id) && o.id == id) = true := by
        have hcd' : pc.diff.objs.any (·.id == id) = true := hcd
        obtain ⟨o, ho, hoid⟩ := List.any_eq_true.mp hcd'
        rw [List.any_eq_true]
        have : o.id = id := by simpa using hoid
        exact ⟨o, ho, by rw [this, hpe]; simp⟩
      rw [this]; simp

end Zed.Lake
