package hlib

import (
	"bufio"
	"fmt"
	"io"
	"os/exec"
	"strings"
)

// Model is a session with the compiled Lean driver: one s-expression per line in, one
// line out.
type Model struct {
	cmd *exec.Cmd
	in  io.WriteCloser
	w   *bufio.Writer
	out *bufio.Reader
}

func (c *Ctx) Model() *Model {
	if c.model != nil {
		return c.model
	}
	cmd := exec.Command(c.driver)
	in, err := cmd.StdinPipe()
	if err != nil {
		panic(err)
	}
	out, err := cmd.StdoutPipe()
	if err != nil {
		panic(err)
	}
	if err := cmd.Start(); err != nil {
		panic(fmt.Errorf("cannot start Lean driver %s: %w", c.driver, err))
	}
	c.model = &Model{cmd: cmd, in: in, w: bufio.NewWriterSize(in, 1<<20), out: bufio.NewReaderSize(out, 1<<20)}
	return c.model
}

func (c *Ctx) closeModel() {
	if c.model != nil {
		c.model.in.Close()
		c.model.cmd.Wait()
		c.model = nil
	}
}

// Call sends one line and returns the one-line answer.
func (m *Model) Call(line string) string {
	return m.Batch([]string{line})[0]
}

// Batch sends the lines and reads as many answers.  Writing and reading are interleaved
// in chunks so that pipe buffers never fill on both sides.
func (m *Model) Batch(lines []string) []string {
	out := make([]string, 0, len(lines))
	const chunk = 64
	for i := 0; i < len(lines); i += chunk {
		j := i + chunk
		if j > len(lines) {
			j = len(lines)
		}
		done := make(chan error, 1)
		go func(ls []string) {
			for _, l := range ls {
				if strings.ContainsAny(l, "\n\r") {
					done <- fmt.Errorf("newline in model request")
					return
				}
				m.w.WriteString(l)
				m.w.WriteByte('\n')
			}
			done <- m.w.Flush()
		}(lines[i:j])
		for k := i; k < j; k++ {
			s, err := m.out.ReadString('\n')
			if err != nil {
				panic(fmt.Errorf("Lean driver died: %v (after %d answers; request %q)", err, len(out), lines[k]))
			}
			out = append(out, strings.TrimRight(s, "\n"))
		}
		if err := <-done; err != nil {
			panic(err)
		}
	}
	return out
}
