/-
  Delete-where: what `meta.Deleter` selects, and the refinement theorem (a successful
  delete-where leaves exactly the values for which the complement filter holds).  Helper for C14.
-/
import Zed.Proofs.LakeFresh
namespace Zed.Lake
variable {K V : Type}

theorem filter_eq_self_of_length {α : Type} (l : List α) (q : α → Bool) (h : (l.filter q).length = l.length) :
    l.filter q = l := by
  induction l with
  | nil => rfl
  | cons a as ih =>
    simp only [List.filter_cons] at h ⊢
    cases hq : q a
    · simp only [hq, Bool.false_eq_true, if_false, List.length_cons] at h
      have := List.length_filter_le q as
      omega
    · simp only [hq, if_true, List.length_cons] at h ⊢
      rw [ih (by omega)]

/-- `meta.Deleter`'s test `count != object.Count` -/
def touched (files : List (Nat × List V)) (keep : V → Bool) (o : Obj K) : Bool :=
  ((pay files o).filter keep).length != o.count

theorem deleterScan_spec (files : List (Nat × List V)) (keep : V → Bool) (L : List (Obj K))
    (ids : List Nat) (kept : List V) (h : deleterScan files keep L = .ok (ids, kept)) :
    ids = (L.filter (touched files keep)).map (·.id) ∧
    kept = (L.filter (touched files keep)).flatMap (fun o => (pay files o).filter keep) ∧
    ∀ o ∈ L, (fileOf files o.id).isSome = true := by
  induction L generalizing ids kept with
  | nil =>
    simp only [deleterScan, Except.ok.injEq, Prod.mk.injEq] at h
    obtain ⟨h1, h2⟩ := h
    subst h1; subst h2; simp
  | cons o os ih =>
    unfold deleterScan at h
    cases hf : fileOf files o.id with
    | none => simp [hf] at h
    | some p =>
      simp only [hf] at h
      cases hr : deleterScan files keep os with
      | error e => simp [hr] at h
      | ok r =>
        obtain ⟨ids', kept'⟩ := r
        simp only [hr] at h
        obtain ⟨e1, e2, e3⟩ := ih ids' kept' hr
        have hpay : pay files o = p := by simp [pay, hf]
        have hall : ∀ o' ∈ o :: os, (fileOf files o'.id).isSome = true := by
          intro o' ho'
          simp only [List.mem_cons] at ho'
          rcases ho' with h1 | h1
          · subst h1; simp [hf]
          · exact e3 o' h1
        by_cases ht : touched files keep o = true
        · have hne : ((p.filter keep).length != o.count) = true := by rw [← hpay]; exact ht
          simp only [hne, if_true, Except.ok.injEq, Prod.mk.injEq] at h
          obtain ⟨h1, h2⟩ := h
          subst h1; subst h2
          refine ⟨?_, ?_, hall⟩
          · simp [List.filter_cons, ht, e1]
          · simp [List.filter_cons, ht, e2, hpay]
        · have ht' : touched files keep o = false := by simpa using ht
          have hne : ((p.filter keep).length != o.count) = false := by rw [← hpay]; exact ht'
          simp only [hne, Bool.false_eq_true, if_false, Except.ok.injEq, Prod.mk.injEq] at h
          obtain ⟨h1, h2⟩ := h
          subst h1; subst h2
          refine ⟨?_, ?_, hall⟩
          · simp [List.filter_cons, ht', e1]
          · simp [List.filter_cons, ht', e2]

theorem eq_of_id_eq (l : List (Obj K)) (hn : (l.map (·.id)).Nodup) (a b : Obj K) (ha : a ∈ l) (hb : b ∈ l)
    (h : a.id = b.id) : a = b := by
  induction l with
  | nil => cases ha
  | cons x xs ih =>
    simp only [List.map_cons, List.nodup_cons] at hn
    simp only [List.mem_cons] at ha hb
    rcases ha with ha | ha <;> rcases hb with hb | hb
    · rw [ha, hb]
    · exfalso; apply hn.1; rw [← ha, h]; exact List.mem_map_of_mem (f := fun x : Obj K => x.id) hb
    · exfalso; apply hn.1; rw [← hb, ← h]; exact List.mem_map_of_mem (f := fun x : Obj K => x.id) ha
    · exact ih hn.2 ha hb
end Zed.Lake

namespace Zed.Lake
variable {K V : Type} [DecidableEq V]

omit [DecidableEq V] in
theorem filter_flatMap' {α β : Type} (l : List α) (f : α → List β) (q : β → Bool) :
    (l.flatMap f).filter q = l.flatMap (fun a => (f a).filter q) := by
  induction l with
  | nil => rfl
  | cons a as ih => simp [List.flatMap_cons, List.filter_append, ih]

/-- **refinement, delete-where** (`abs (step s (delete-where P)) = {v ∈ abs s | keep v}`): a
    successful delete-where leaves the branch readable, vectors untouched, and its contents
    exactly the previous values for which `keep` (the evaluator of `!P or missing(P)`) holds. -/
theorem deleteWhere_refines (cfg : Cfg K V) (s s' : State K V) (b : Nat) (keep : V → Bool)
    (parts : List (List V)) (g : Good s) (h : deleteWhere cfg s b keep parts = .ok s') :
    ∃ t, s.tip b = some t ∧ ∀ snap, snapAt s.commits t = .ok snap →
      ∃ snap', snapAt s'.commits (s.commits.length + 1) = .ok snap' ∧ snap'.vecs = snap.vecs ∧
        (snap'.objs.flatMap (pay s'.files)).Perm ((snap.objs.flatMap (pay s.files)).filter keep) ∧
        ∀ o ∈ snap'.objs, o ∈ snap.objs ∨ (fileOf s'.files o.id).isSome = true := by
  unfold deleteWhere at h
  split at h
  · cases h
  · rename_i t ht
    refine ⟨t, ht, ?_⟩
    intro snap hs
    simp only [hs] at h
    split at h
    · cases h
    · rename_i ids kept hscan
      split at h
      · cases h
      · split at h
        · cases h
        · rename_i hvalid
          have w := writeObjs_spec cfg s parts g.files
          cases hw : writeObjs cfg s parts with
          | mk s1 objs =>
            rw [hw] at h w
            simp only [] at h w
            split at h
            · cases h
            · rename_i p1 hp1
              split at h
              · cases h
              · rename_i p2 hp2
                cases h
                have e1 := delAll_spec _ p1 _ (by intro id _; simp [Patch.new, Snap.hasObj]) hp1
                have e2 := addAll_spec _ _ _ hp2
                have hacts : p2.commitActions = ids.map .del ++ objs.map .add := by
                  rw [e2, e1]; simp [Patch.commitActions, Patch.new]
                obtain ⟨d1, d2, d3⟩ := deleterScan_spec s.files keep _ ids kept hscan
                have hperm := lister_perm cfg snap.objs
                have hnodup := snapAt_nodup s.commits t snap hs
                have hlt := Good.snap_lt s g t snap hs
                have hok := Good.snap s g t snap hs
                have hLn : ((lister cfg snap.objs).map (·.id)).Nodup := (hperm.map _).nodup_iff.mpr hnodup
                have hidsn : ids.Nodup := by
                  rw [d1]
                  exact ((List.filter_sublist (l := lister cfg snap.objs)).map _).nodup hLn
                have hidsin : ∀ id ∈ ids, snap.hasObj id = true := by
                  intro id hid
                  rw [d1] at hid
                  obtain ⟨o, ho, hoid⟩ := List.mem_map.mp hid
                  rw [← hoid]
                  exact hasObj_of_mem snap o (hperm.mem_iff.mp (List.mem_filter.mp ho).1)
                obtain ⟨S1, hS1, _, hm1⟩ := play_dels snap ids hidsn hidsin
                obtain ⟨hS1o, hS1v⟩ := play_dels_objs snap S1 ids hS1
                have hadds := play_adds S1 objs w.nodup (by
                  intro o ho
                  rw [hm1]
                  have : snap.hasObj o.id = false := by
                    cases hc : snap.hasObj o.id with
                    | false => rfl
                    | true => have := hasObj_lt snap _ _ hlt.1 hc; have := (w.ids o ho).1; omega
                  rw [this]; rfl)
                have hc1 : s1.commits = s.commits := by
                  have := writeObjs_commits cfg s parts; rw [hw] at this; exact this
                have hs1 : snapAt s1.commits t = .ok snap := by rw [hc1]; exact hs
                have hlen : s.commits.length = s1.commits.length := by rw [hc1]
                refine ⟨{ objs := S1.objs ++ objs, vecs := S1.vecs }, by
                  rw [hlen, commit_snap_ s1 b t _ snap hs1, hacts, play_append, hS1]
                  simp only [hadds], hS1v, ?_, ?_⟩
                rotate_left
                · intro o ho
                  simp only [List.mem_append] at ho
                  rcases ho with h1 | h1
                  · rw [hS1o] at h1; exact Or.inl (List.mem_filter.mp h1).1
                  · exact Or.inr (by rw [commit_files]; exact w.present o h1)
                simp only [commit_files, List.flatMap_append]
                obtain ⟨e, he, hee⟩ := w.ext
                have hold : ∀ l : List (Obj K), (∀ o ∈ l, o ∈ snap.objs) →
                    l.flatMap (pay s1.files) = l.flatMap (pay s.files) := by
                  intro l hl
                  apply flatMap_congr''
                  intro o ho
                  unfold pay
                  rw [he, fileOf_append_none]
                  intro f hf
                  have := (hee f hf).1
                  have := hlt.1 o (hl o ho)
                  omega
                -- which objects were deleted: exactly the touched ones
                have hcont : ∀ o ∈ snap.objs, ids.contains o.id = touched s.files keep o := by
                  intro o ho
                  cases ht : touched s.files keep o with
                  | true =>
                    have : o.id ∈ ids := by
                      rw [d1]
                      exact List.mem_map.mpr ⟨o, List.mem_filter.mpr ⟨hperm.mem_iff.mpr ho, ht⟩, rfl⟩
                    simpa using this
                  | false =>
                    cases hc : ids.contains o.id with
                    | false => rfl
                    | true =>
                      have hm : o.id ∈ ids := by simpa using hc
                      rw [d1] at hm
                      obtain ⟨o', ho', hoid'⟩ := List.mem_map.mp hm
                      have ho'm := hperm.mem_iff.mp (List.mem_filter.mp ho').1
                      have := eq_of_id_eq snap.objs hnodup o' o ho'm ho hoid'
                      subst this
                      have := (List.mem_filter.mp ho').2
                      rw [ht] at this; cases this
                have hS1o' : S1.objs = snap.objs.filter (fun o => !touched s.files keep o) := by
                  rw [hS1o]
                  apply List.filter_congr
                  intro o ho
                  rw [hcont o ho]
                rw [hS1o', hold _ (fun o ho => (List.mem_filter.mp ho).1), w.payload]
                -- untouched objects keep all their values
                have hunt : ∀ o ∈ snap.objs.filter (fun o => !touched s.files keep o),
                    pay s.files o = (pay s.files o).filter keep := by
                  intro o ho
                  obtain ⟨hom, hot⟩ := List.mem_filter.mp ho
                  have hot : touched s.files keep o = false := by simpa using hot
                  have hfile := d3 o (hperm.mem_iff.mpr hom)
                  cases hf : fileOf s.files o.id with
                  | none => simp [hf] at hfile
                  | some p =>
                    have hcount := (hok.1 o hom).2 p hf
                    have hpay : pay s.files o = p := by simp [pay, hf]
                    unfold touched at hot
                    rw [hpay] at hot ⊢
                    have : (p.filter keep).length = o.count := by simpa using hot
                    exact (filter_eq_self_of_length p keep (by rw [this, hcount])).symm
                have hvp : parts.flatten.Perm kept := by
                  have hv : validParts cfg kept parts = true := by simpa using hvalid
                  unfold validParts at hv
                  simp only [Bool.and_eq_true] at hv
                  exact List.isPerm_iff.mp hv.2
                rw [filter_flatMap']
                have hsplit := (List.filter_append_perm (fun o => !touched s.files keep o) snap.objs)
                have h2 : (snap.objs.filter fun o => !!touched s.files keep o)
                    = snap.objs.filter (touched s.files keep) := by
                  congr 1; funext o; cases touched s.files keep o <;> rfl
                rw [h2] at hsplit
                refine List.Perm.trans ?_ (hsplit.flatMap_right _)
                rw [List.flatMap_append]
                refine List.Perm.append ?_ ?_
                · rw [flatMap_congr'' _ _ _ hunt]
                · rw [d2] at hvp
                  exact hvp.trans ((hperm.filter _).flatMap_right _)
end Zed.Lake
