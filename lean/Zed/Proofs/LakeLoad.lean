/-
  Writers: `chunk` only cuts, `sortVals` only permutes, `writeObjs` stores every part under a
  fresh id without touching existing files.  Helper lemmas for C14.
-/
import Zed.Proofs.LakeScan
import Zed.Proofs.LakeSnap
namespace Zed.Lake
variable {K V : Type}

theorem chunkGo_flatten (cfg : Cfg K V) (vs cur : List V) (n : Nat) :
    (chunkGo cfg vs cur n).flatten = cur ++ vs := by
  induction vs generalizing cur n with
  | nil =>
    unfold chunkGo
    split
    · rename_i h; have : cur = [] := by simpa using h
      simp [this]
    · simp
  | cons v vs ih =>
    unfold chunkGo
    simp only []
    split
    · simp [ih]
    · rw [ih]; simp

/-- `lake.Writer` only cuts its input into consecutive buffers -/
theorem chunk_flatten (cfg : Cfg K V) (vals : List V) : (chunk cfg vals).flatten = vals := by
  simp [chunk, chunkGo_flatten]

theorem sortVals_perm (cfg : Cfg K V) (l : List V) : (sortVals cfg l).Perm l := List.mergeSort_perm _ _

theorem flatten_map_sort_perm (cfg : Cfg K V) (ls : List (List V)) :
    ((ls.map (sortVals cfg)).flatten).Perm ls.flatten := by
  induction ls with
  | nil => simp
  | cons l ls ih => simp only [List.map_cons, List.flatten_cons]; exact (sortVals_perm cfg l).append ih

theorem mkObj_none (cfg : Cfg K V) (id : Nat) (p : List V) (h : mkObj cfg id p = none) : p = [] := by
  cases p with
  | nil => rfl
  | cons a as =>
    unfold mkObj at h
    have h2 : (a :: as).getLast? = some ((a :: as).getLast (by simp)) := List.getLast?_eq_some_getLast (by simp)
    simp only [List.head?_cons, h2] at h
    cases h

theorem mkObj_id (cfg : Cfg K V) (id : Nat) (p : List V) (o : Obj K) (h : mkObj cfg id p = some o) : o.id = id := by
  unfold mkObj at h
  split at h
  · simp only [Option.some.injEq] at h
    subst h
    split <;> rfl
  · cases h

theorem mkObj_count (cfg : Cfg K V) (id : Nat) (p : List V) (o : Obj K) (h : mkObj cfg id p = some o) :
    o.count = p.length := by
  unfold mkObj at h
  split at h
  · simp only [Option.some.injEq] at h
    subst h
    split <;> rfl
  · cases h

theorem fileOf_append_none (files ext : List (Nat × List V)) (id : Nat)
    (h : ∀ f ∈ ext, f.1 ≠ id) : fileOf (files ++ ext) id = fileOf files id := by
  unfold fileOf
  rw [List.find?_append]
  have : ext.find? (·.1 == id) = none := by
    rw [List.find?_eq_none]; intro f hf; simpa using h f hf
  rw [this]
  cases files.find? (·.1 == id) <;> rfl

theorem fileOf_fresh (files : List (Nat × List V)) (n : Nat) (h : ∀ f ∈ files, f.1 < n) (id : Nat) (hid : n ≤ id) :
    fileOf files id = none := by
  unfold fileOf
  have : files.find? (·.1 == id) = none := by
    rw [List.find?_eq_none]; intro f hf
    have := h f hf
    simp only [beq_iff_eq]; omega
  rw [this]

/-- what `writeObjs` guarantees -/
structure Written (cfg : Cfg K V) (s s1 : State K V) (objs : List (Obj K)) (parts : List (List V)) : Prop where
  next : s.nextObj ≤ s1.nextObj
  ids : ∀ o ∈ objs, s.nextObj ≤ o.id ∧ o.id < s1.nextObj
  nodup : (objs.map (·.id)).Nodup
  ext : ∃ e, s1.files = s.files ++ e ∧ ∀ f ∈ e, s.nextObj ≤ f.1 ∧ f.1 < s1.nextObj
  payload : objs.flatMap (pay s1.files) = parts.flatten
  counts : ∀ o ∈ objs, ∀ p, fileOf s1.files o.id = some p → o.count = p.length
  present : ∀ o ∈ objs, (fileOf s1.files o.id).isSome = true

theorem writeObjs_spec (cfg : Cfg K V) (s : State K V) (parts : List (List V))
    (hf : ∀ f ∈ s.files, f.1 < s.nextObj) :
    Written cfg s (writeObjs cfg s parts).1 (writeObjs cfg s parts).2 parts := by
  induction parts generalizing s with
  | nil =>
    exact { next := Nat.le_refl _, ids := by simp [writeObjs], nodup := by simp [writeObjs],
            ext := ⟨[], by simp [writeObjs]⟩, payload := by simp [writeObjs], counts := by simp [writeObjs], present := by simp [writeObjs] }
  | cons p ps ih =>
    unfold writeObjs
    split
    · rename_i hn
      have hp := mkObj_none cfg _ p hn
      have w := ih s hf
      exact { next := w.next, ids := w.ids, nodup := w.nodup, ext := w.ext,
              payload := by rw [w.payload, hp]; simp, counts := w.counts, present := w.present }
    · rename_i o ho
      have hoid := mkObj_id cfg _ p o ho
      simp only []
      have hf' : ∀ f ∈ ({ s with files := s.files ++ [(s.nextObj, p)], nextObj := s.nextObj + 1 } : State K V).files,
          f.1 < ({ s with files := s.files ++ [(s.nextObj, p)], nextObj := s.nextObj + 1 } : State K V).nextObj := by
        intro f hfm
        simp only [List.mem_append, List.mem_singleton] at hfm
        rcases hfm with h | h
        · have := hf f h; show f.1 < s.nextObj + 1; omega
        · subst h; show s.nextObj < s.nextObj + 1; omega
      have w := ih { s with files := s.files ++ [(s.nextObj, p)], nextObj := s.nextObj + 1 } hf'
      obtain ⟨e, he, hee⟩ := w.ext
      have hnext : s.nextObj + 1 ≤ (writeObjs cfg { s with files := s.files ++ [(s.nextObj, p)], nextObj := s.nextObj + 1 } ps).1.nextObj := w.next
      exact {
        next := by have := w.next; simp only [] at this; omega
        ids := by
          intro o' ho'
          simp only [List.mem_cons] at ho'
          rcases ho' with h | h
          · subst h; rw [hoid]; exact ⟨Nat.le_refl _, by omega⟩
          · have := w.ids o' h; simp only [] at this; exact ⟨by omega, this.2⟩
        nodup := by
          simp only [List.map_cons, List.nodup_cons]
          refine ⟨?_, w.nodup⟩
          intro hm
          obtain ⟨o', ho', hoid'⟩ := List.mem_map.mp hm
          have := (w.ids o' ho').1
          simp only [] at this
          rw [hoid', hoid] at this; omega
        ext := ⟨(s.nextObj, p) :: e, by rw [he]; simp, by
          intro f hfm
          simp only [List.mem_cons] at hfm
          rcases hfm with h | h
          · subst h; exact ⟨Nat.le_refl _, by omega⟩
          · have := hee f h; simp only [] at this; exact ⟨by omega, this.2⟩⟩
        payload := by
          simp only [List.flatMap_cons, List.flatten_cons, w.payload]
          congr 1
          unfold pay
          rw [he, hoid]
          have : fileOf (s.files ++ [(s.nextObj, p)] ++ e) s.nextObj = some p := by
            apply fileOf_append
            unfold fileOf
            rw [List.find?_append]
            have hnone : s.files.find? (·.1 == s.nextObj) = none := by
              rw [List.find?_eq_none]; intro f hfm
              have := hf f hfm
              simp only [beq_iff_eq]; omega
            rw [hnone]; simp
          simp only [] at this ⊢
          rw [this]; rfl
        counts := by
          intro o' ho' q hq
          simp only [List.mem_cons] at ho'
          rcases ho' with h | h
          · subst h
            rw [he, hoid] at hq
            have : fileOf (s.files ++ [(s.nextObj, p)] ++ e) s.nextObj = some p := by
              apply fileOf_append
              unfold fileOf
              rw [List.find?_append]
              have hnone : s.files.find? (·.1 == s.nextObj) = none := by
                rw [List.find?_eq_none]; intro f hfm
                have := hf f hfm
                simp only [beq_iff_eq]; omega
              rw [hnone]; simp
            simp only [] at this hq
            rw [this] at hq
            cases hq
            exact mkObj_count cfg _ _ _ ho
          · exact w.counts o' h q hq
        present := by
          intro o' ho'
          simp only [List.mem_cons] at ho'
          rcases ho' with h | h
          · subst h
            rw [he, hoid]
            have : fileOf (s.files ++ [(s.nextObj, p)] ++ e) s.nextObj = some p := by
              apply fileOf_append
              unfold fileOf
              rw [List.find?_append]
              have hnone : s.files.find? (·.1 == s.nextObj) = none := by
                rw [List.find?_eq_none]; intro f hfm
                have := hf f hfm
                simp only [beq_iff_eq]; omega
              rw [hnone]; simp
            simp only [] at this ⊢
            rw [this]; rfl
          · exact w.present o' h }

end Zed.Lake
