package main

// Hazards below the abstract syntax: primitive text that does not survive
// formatPrimitive → lexer → BuildPrimitive on its own, and names the formatter writes
// without quoting.  The Lean model takes both as parameters ("primitive text round-trips",
// "names are written so that the lexer reads them back"); the oracle checks them on the real
// code and reports what breaks; the model correspondences are skipped for cases that
// contain a hazard.

import (
	"encoding/binary"
	"encoding/hex"
	"math"
	"net/netip"
	"strings"

	zed "github.com/brimdata/super"
	astzed "github.com/brimdata/super/compiler/ast/zed"
	"github.com/brimdata/super/zson"
	"github.com/x448/float16"
)

var primHazardMemo = map[string]string{}

// primHazard returns "" when the non-null primitive body survives the real text round trip
// alone, as an array element, as a record field and as a map key/value, else a class name.
func primHazard(id int, body []byte) string {
	key := string(rune(id)) + string(body)
	if r, ok := primHazardMemo[key]; ok {
		return r
	}
	r := primHazard1(id, body)
	primHazardMemo[key] = r
	return r
}

func primHazard1(id int, body []byte) string {
	typ, err := zed.LookupPrimitiveByID(id)
	if err != nil {
		return "unknown-primitive"
	}
	if id == idType || id == idNull {
		return ""
	}
	p := Prim(id)
	pv := &VSpec{Hex: hex.EncodeToString(body)}
	shapes := []tv{
		{p, pv},
		{&TSpec{Kind: "array", Elems: []*TSpec{p}}, &VSpec{Elems: []*VSpec{pv, pv}}},
		{&TSpec{Kind: "record", Fields: []TField{{Name: "a", Type: p}}}, &VSpec{Elems: []*VSpec{pv}}},
		{&TSpec{Kind: "map", Elems: []*TSpec{p, p}}, &VSpec{Elems: []*VSpec{pv, pv}}},
	}
	ok := true
	for _, sh := range shapes {
		r := runRT(&rtCase{Mode: "value", Vals: []tv{sh}})
		if !r.ok {
			ok = false
		}
	}
	if ok {
		return ""
	}
	switch id {
	case idFloat16:
		if len(body) == 2 && float16.Frombits(binary.LittleEndian.Uint16(body)).Bits() == 0x8000 {
			return "float-negative-zero"
		}
	case idFloat32:
		if len(body) == 4 && binary.LittleEndian.Uint32(body) == 0x80000000 {
			return "float-negative-zero"
		}
	case idFloat64:
		if len(body) == 8 && math.Float64bits(math.Float64frombits(binary.LittleEndian.Uint64(body))) == 1<<63 {
			return "float-negative-zero"
		}
	case idIP:
		if a, ok := netip.AddrFromSlice(body); ok && a.Is4In6() {
			return "ip-v4-mapped"
		}
	case idNet:
		if len(body) == 32 {
			if a, ok := netip.AddrFromSlice(body[:16]); ok && a.Is4In6() {
				return "net-v4-mapped"
			}
		}
	}
	return "prim-" + zed.PrimitiveName(typ) + "-" + hex.EncodeToString(body)
}

type hazards struct {
	prim     []string // classes of primitive text hazards
	typeName []string // classes of type-name hazards
	enumSym  bool     // an enum symbol that is not an identifier
}

func (hz *hazards) any() bool { return len(hz.prim) > 0 || len(hz.typeName) > 0 || hz.enumSym }

func typeNameHazard(n string) string {
	switch {
	case n == "":
		return "type-name-empty"
	case n == "error" || n == "enum":
		return "type-name-keyword"
	case isAllDigits(n):
		return "type-name-numeric"
	case strings.HasPrefix(n, ".") && zson.IsTypeName(n):
		return "type-name-leading-dot"
	case !zson.IsTypeName(n):
		return "type-name-needs-quotes"
	}
	return ""
}

func isAllDigits(s string) bool {
	if s == "" {
		return false
	}
	return strings.Trim(s, "0123456789") == ""
}

func typeHazards(t *TSpec, hz *hazards) {
	if t == nil {
		return
	}
	if t.Kind == "named" {
		if c := typeNameHazard(t.Name); c != "" {
			hz.typeName = append(hz.typeName, c)
		}
	}
	if t.Kind == "enum" {
		for _, s := range t.Syms {
			if !zson.IsIdentifier(s) {
				hz.enumSym = true
			}
		}
	}
	for _, f := range t.Fields {
		typeHazards(f.Type, hz)
	}
	for _, e := range t.Elems {
		typeHazards(e, hz)
	}
}

func valHazards(t *TSpec, v *VSpec, hz *hazards) {
	if v == nil || v.Null {
		return
	}
	switch t.Kind {
	case "prim":
		if t.ID == idType {
			typeHazards(v.T, hz)
			return
		}
		body, _ := hex.DecodeString(v.Hex)
		if body == nil {
			body = []byte{}
		}
		if c := primHazard(t.ID, body); c != "" {
			hz.prim = append(hz.prim, c)
		}
	case "record":
		for i, f := range t.Fields {
			if i < len(v.Elems) {
				valHazards(f.Type, v.Elems[i], hz)
			}
		}
	case "array", "set":
		for _, e := range v.Elems {
			valHazards(t.Elems[0], e, hz)
		}
	case "map":
		for i, e := range v.Elems {
			valHazards(t.Elems[i%2], e, hz)
		}
		// key:value pairs of primitives whose texts only mis-lex when juxtaposed
		if len(hz.prim) == 0 {
			for i := 0; i+1 < len(v.Elems); i += 2 {
				kt, k := leafPrim(t.Elems[0], v.Elems[i])
				xt, x := leafPrim(t.Elems[1], v.Elems[i+1])
				if kt == nil || xt == nil {
					continue
				}
				if c := pairHazard(&TSpec{Kind: "map", Elems: []*TSpec{kt, xt}}, k, x); c != "" {
					hz.prim = append(hz.prim, c)
				}
			}
		}
	case "union":
		if v.Tag < len(t.Elems) && len(v.Elems) == 1 {
			valHazards(t.Elems[v.Tag], v.Elems[0], hz)
		}
	case "named", "error":
		valHazards(t.Elems[0], v, hz)
	}
}

func caseHazards(cs *rtCase) *hazards {
	hz := &hazards{}
	for _, x := range cs.Vals {
		typeHazards(x.T, hz)
		valHazards(x.T, x.V, hz)
	}
	return hz
}

var pairHazardMemo = map[string]string{}

// pairHazard: does the real lexer read `key:value` — both written without decorators, as
// inside a value whose type is known — back as these two primitives?
func pairHazard(t *TSpec, k, x *VSpec) string {
	kt, _ := zed.LookupPrimitiveByID(t.Elems[0].ID)
	xt, _ := zed.LookupPrimitiveByID(t.Elems[1].ID)
	kb, _ := hex.DecodeString(k.Hex)
	xb, _ := hex.DecodeString(x.Hex)
	if kb == nil {
		kb = []byte{}
	}
	if xb == nil {
		xb = []byte{}
	}
	ktext := zson.FormatPrimitive(kt, kb)
	xtext := zson.FormatPrimitive(xt, xb)
	if t.Elems[0].ID == idIP && len(kb) == 16 {
		ktext += " " // the formatter separates a 16-byte IP key from the colon
	}
	key := ktext + "\x00" + xtext
	if r, ok := pairHazardMemo[key]; ok {
		return r
	}
	r := "map-entry-lexer-ambiguity"
	func() {
		defer func() { recover() }()
		a, err := zson.NewParser(strings.NewReader("|{" + ktext + ":" + xtext + "}|")).ParseValue()
		if err != nil || a == nil {
			return
		}
		iv, ok := a.(*astzed.ImpliedValue)
		if !ok {
			return
		}
		mp, ok := iv.Of.(*astzed.Map)
		if !ok || len(mp.Entries) != 1 {
			return
		}
		prim := func(v astzed.Value) (string, bool) {
			i2, ok := v.(*astzed.ImpliedValue)
			if !ok {
				return "", false
			}
			p, ok := i2.Of.(*astzed.Primitive)
			if !ok {
				return "", false
			}
			if p.Type == "string" {
				return zson.QuotedString([]byte(p.Text)), true
			}
			return p.Text, true
		}
		kk, ok1 := prim(mp.Entries[0].Key)
		xx, ok2 := prim(mp.Entries[0].Value)
		if ok1 && ok2 && kk == strings.TrimSpace(ktext) && xx == xtext {
			r = ""
		}
	}()
	pairHazardMemo[key] = r
	return r
}

// leafPrim looks through names and union tags for a non-null primitive (not a type value).
func leafPrim(t *TSpec, v *VSpec) (*TSpec, *VSpec) {
	for {
		if v == nil || v.Null {
			return nil, nil
		}
		switch t.Kind {
		case "named":
			t = t.Elems[0]
		case "union":
			if v.Tag >= len(t.Elems) || len(v.Elems) != 1 {
				return nil, nil
			}
			t, v = t.Elems[v.Tag], v.Elems[0]
		case "prim":
			if t.ID == idType || t.ID == idNull {
				return nil, nil
			}
			return t, v
		default:
			return nil, nil
		}
	}
}
