import Zed.Generated.C19
/-!
  C19 model — the framing of query responses (`api/queryio/writer.go`, `service.handleQuery`)
  and the client-side decode (`api/queryio/client.go`), logic only.

  A query run is what the handler loop sees from the flowgraph: labelled batches, channel
  ends and timer ticks, then either the normal end or an error returned by `Pull` (a *late*
  error: the response status is already 200).  The handler turns it into frames on the wire:
  values, and control messages (`QueryChannelSet`, `QueryChannelEnd`, `QueryStats`,
  `QueryError`).  `Writer.WriteControl` is a no-op when `ctrl` is off or the format's writer
  has no control channel; which formats have one is regenerated from the source
  (`Zed.Generated.C19.controlFormats`).  Values are abstract (`Nat`); how a batch is cut into
  ZNG frames is not observable by the client and not modelled.
-/
namespace Zed.Svc

inductive Event where
  | batch (label : String) (vals : List Nat)
  | chanEnd (label : String)
  | tick
  deriving DecidableEq, Repr

structure Run where
  events : List Event
  err : Option String
  deriving DecidableEq, Repr

inductive Frame where
  | values (vs : List Nat)
  | channelSet (ch : String)
  | channelEnd (ch : String)
  | stats
  | error (msg : String)
  deriving DecidableEq, Repr

/-- the response format's writer implements `WriteControl` -/
def hasControl (fmt : String) : Bool := Generated.C19.controlFormats.contains fmt

/-- `Writer.WriteControl`: emitted only with `ctrl` on and a control-capable writer. -/
def writeControl (on : Bool) (f : Frame) : List Frame := if on then [f] else []

/-- The handler loop over the events; `ch` is `Writer.channel`. -/
def encodeEvents (on : Bool) : String → List Event → List Frame × String
  | ch, [] => ([], ch)
  | ch, .batch label vals :: rest =>
    if vals.isEmpty then encodeEvents on ch rest     -- `len(batch.Values()) == 0 → continue`
    else
      let pre := if ch ≠ label then writeControl on (.channelSet label) else []
      let (fs, ch') := encodeEvents on label rest
      (pre ++ [.values vals] ++ fs, ch')
  | ch, .chanEnd label :: rest =>
    let (fs, ch') := encodeEvents on ch rest
    (writeControl on (.channelEnd label) ++ fs, ch')
  | ch, .tick :: rest =>
    let (fs, ch') := encodeEvents on ch rest
    (writeControl on .stats ++ fs, ch')

/-- `handleQuery` after the query started: the events, then `WriteProgress` at the normal end or
    `WriteError` for an error returned by `Pull`; `Close` adds nothing the client interprets. -/
def serverEncode (fmt : String) (ctrl : Bool) (r : Run) : List Frame :=
  let on := ctrl && hasControl fmt
  (encodeEvents on "" r.events).1 ++
    (match r.err with
     | none => writeControl on .stats
     | some msg => writeControl on (.error msg))

/-- `queryio.scanner.Pull` until end of stream: values labelled with the current channel;
    `QueryError` ends the stream with that error. -/
def clientDecode : String → List Frame → List (String × Nat) × Option String
  | _, [] => ([], none)
  | ch, .values vs :: rest =>
    let (out, e) := clientDecode ch rest
    (vs.map (fun v => (ch, v)) ++ out, e)
  | _, .channelSet ch :: rest => clientDecode ch rest
  | ch, .channelEnd _ :: rest => clientDecode ch rest
  | ch, .stats :: rest => clientDecode ch rest
  | _, .error msg :: _ => ([], some msg)

/-- the labelled values a run produces before it ends -/
def Run.labelled : List Event → List (String × Nat)
  | [] => []
  | .batch label vals :: rest => vals.map (fun v => (label, v)) ++ Run.labelled rest
  | _ :: rest => Run.labelled rest

def Run.values (es : List Event) : List Nat := (Run.labelled es).map (·.2)

/-! ### media types (`api/mime.go`) over the regenerated tables -/

def mediaTypeToFormat (m : String) : Option String :=
  (Generated.C19.mediaTypeToFormat.find? fun p => p.1 == m).map (·.2)

def formatToMediaType (f : String) : Option String :=
  (Generated.C19.formatToMediaType.find? fun p => p.1 == f).map (·.2)

/-- `service.newRequest`: the response format is that of the first entry of the Accept list
    (already split at commas, trimmed, parameters dropped) that is a known media type; an
    empty entry or `*/*` selects the default; no usable entry is an error (400). -/
def negotiate (dflt : String) : List String → Option String
  | [] => none
  | m :: rest =>
    if m = "" ∨ m = "*/*" then some dflt
    else match mediaTypeToFormat m with
      | some f => some f
      | none => negotiate dflt rest

end Zed.Svc
