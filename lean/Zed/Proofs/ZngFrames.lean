import Zed.Model.ZngWriter
import Zed.Model.ZngReader
import Zed.Proofs.ZngUvarint
/-!
  Frame headers: what `writeHeader` / `writeCompHeader` put on the wire is what
  `parser.read` / `decodeLength` / `readFrame` / `readCompressedFrame` take off it.  All
  arithmetic is the regenerated (T1) expressions of `Zed.Generated.C01`.
-/
namespace Zed.Zng
open Zed.Generated.C01

/-- bit-level facts about the code byte, for the three frame kinds and every low nibble -/
theorem code_facts : ∀ kind, kind < 3 → ∀ lo, lo < 16 →
    let c := (kind <<< 4) ||| lo
    c < 256 ∧ c ≠ eos ∧ c &&& versionMask = 0 ∧ frameTypeOf c = kind ∧ c &&& compressedMask = 0 ∧ c &&& 15 = lo := by
  decide

theorem comp_code_facts : ∀ kind, kind < 3 → ∀ lo, lo < 16 →
    let c := ((kind <<< 4) ||| lo) ||| 64
    c < 256 ∧ c ≠ eos ∧ c &&& versionMask = 0 ∧ frameTypeOf c = kind ∧ c &&& compressedMask ≠ 0 ∧ c &&& 15 = lo := by
  decide

theorem and15 (n : Nat) : n &&& 15 = n % 16 := Nat.and_two_pow_sub_one_eq_mod n 4

theorem decodeLength_spec (size c : Nat) (hc : c &&& 15 = size % 16) :
    decodeLengthExpr (writeHeaderLen size) c = size := by
  unfold decodeLengthExpr writeHeaderLen
  rw [hc, Nat.shiftRight_eq_div_pow, ← Nat.shiftLeft_add_eq_or_of_lt (by omega), Nat.shiftLeft_eq]
  have : (2:Nat) ^ 4 = 16 := by decide
  rw [this]; omega

theorem wrapInt_small (n : Nat) (h : n < two63) : wrapInt (n : Int) = (n : Int) := by
  unfold wrapInt asU64
  have h1 : ((n : Int) % (Int.ofNat two64)).toNat = n := by
    have : (n : Int) % (Int.ofNat two64) = (n : Int) := by
      apply Int.emod_eq_of_lt (by omega)
      unfold two63 two64 at *; simp; omega
    rw [this]; simp
  rw [h1]; exact asInt_small n h

theorem ofNatByte (n : Nat) (h : n < 256) : (UInt8.ofNat n).toNat = n := by
  simp [UInt8.toNat_ofNat']; omega

/-- `frameLen` reads back the length `frameHeader` wrote. -/
theorem frameLen_header (size c : Nat) (rest : Bytes) (hs : size < two63) (hc : c &&& 15 = size % 16) :
    frameLen c (uvarint (writeHeaderLen size) ++ rest) = .ok ((size : Int), rest) := by
  unfold frameLen
  have hlt : writeHeaderLen size < two64 := by
    unfold writeHeaderLen; rw [Nat.shiftRight_eq_div_pow]
    have : size / 2 ^ 4 ≤ size := Nat.div_le_self _ _
    unfold two63 two64 at *; omega
  rw [readUvarint_uvarint _ rest hlt]
  simp only [decodeLength_spec size c hc, asInt_small size hs]

/-- **plain frame round trip**: the bytes `frameHeader kind size ++ payload` parse back to
    `payload`, for the three frame kinds, whenever the payload fits the reader's limit. -/
theorem readFrame_plain (o : ROpts) (decomp : Bytes → Nat → Option Bytes) (kind : Nat) (hk : kind < 3)
    (payload rest : Bytes) (hs : payload.length < two63) (hfit : payload.length ≤ o.maxSize) :
    ∃ c tl al, frameHeader kind payload.length ++ payload ++ rest = c :: tl ∧
      c.toNat ≠ eos ∧ c.toNat &&& versionMask = 0 ∧ frameTypeOf c.toNat = kind ∧
      c.toNat &&& compressedMask = 0 ∧
      readFrame o decomp c.toNat tl = .ok payload rest al ∧ ∀ a ∈ al, a ≤ o.maxSize := by
  have hf := code_facts kind hk (payload.length % 16) (Nat.mod_lt _ (by decide))
  simp only at hf
  obtain ⟨h256, heos, hver, hty, hcm, hlo⟩ := hf
  have hcode : writeHeaderCode kind payload.length = (kind <<< 4) ||| (payload.length % 16) := by
    unfold writeHeaderCode; rw [and15]
  refine ⟨UInt8.ofNat (writeHeaderCode kind payload.length), uvarint (writeHeaderLen payload.length) ++ (payload ++ rest),
    [payload.length], by simp [frameHeader], ?_, ?_, ?_, ?_, ?_, ?_⟩
  all_goals try rw [ofNatByte _ (by rw [hcode]; exact h256), hcode]
  · exact heos
  · exact hver
  · exact hty
  · exact hcm
  · unfold readFrame
    rw [if_neg (by rw [hcm]; simp)]
    unfold readPlainFrame
    rw [frameLen_header _ _ _ hs hlo]
    simp only
    have h1 : ¬ ((payload.length : Int) > Int.ofNat o.maxSize) := by
      simp only [Int.ofNat_eq_coe]; omega
    rw [if_neg h1]
    unfold peekRead
    have h2 : ¬ ((payload.length : Int) < 0) := by omega
    have h3 : (payload.length : Int).toNat = payload.length := Int.toNat_natCast _
    have h4 : hasLen (payload ++ rest) payload.length = true := by rw [hasLen_iff]; simp
    simp only [h2, if_false, h3, hfit, h4, and_self, if_true]
    simp
  · intro a ha; simp at ha; omega

end Zed.Zng
