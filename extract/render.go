package main

import (
	"bytes"
	"go/ast"
	"go/printer"
	"regexp"
	"strings"
)

var wsRE = regexp.MustCompile(`\s+`)

func renderNode(f *file, n any) string {
	var buf bytes.Buffer
	printer.Fprint(&buf, f.fset, n)
	return strings.TrimSpace(wsRE.ReplaceAllString(buf.String(), " "))
}

func renderExpr(f *file, e ast.Expr) string { return renderNode(f, e) }
func renderStmt(f *file, s ast.Stmt) string { return renderNode(f, s) }

var binExprOpRE = regexp.MustCompile(`dag\.NewBinaryExpr\("[^"]*", `)

// renderStmts renders statements one per entry, with the combiner literal of
// dag.NewBinaryExpr abstracted to `_` (it is reported separately as a fact).
func renderStmts(f *file, stmts []ast.Stmt) []string {
	var out []string
	for _, s := range stmts {
		if _, ok := s.(*ast.EmptyStmt); ok {
			continue
		}
		r := renderStmt(f, s)
		r = binExprOpRE.ReplaceAllString(r, "dag.NewBinaryExpr(_, ")
		out = append(out, r)
	}
	return out
}
