/-
  C09 — the vector runtime agrees with the sequential runtime and never crashes the query;
  adding / removing vector copies never changes a result.
  Property theorems only.  Model: Zed/Model/VecOps.lean (+ the column model of C03);
  lemmas: Zed/Proofs/VecOps.lean; tables: Zed.Generated.C09 / C03, regenerated from /repo
  (runtime/vam/op/agg.go, compiler/optimizer/vam.go, compiler/kernel/vop.go, vexpr.go,
  runtime/vcache/*.go, vector/*.go) on every check.

  The full statements
      countby_agree : ∀ objs, (cbRun objs).map cbRows ≈ seqCountBy (values objs)
      sum_agree     : ∀ objs, sumRun objs = seqSum (values objs)
      vam_total     : every vector kind the loader can hand to an operator is handled
  are FALSE of the current code.  Below: their negations on concrete witnesses (each replayed
  on the real code by the harness and recorded as a known finding), and the `_partial`
  theorems under explicit guards.
-/
import Zed.Proofs.VecOps
namespace Zed.Props.C09
open Zed.Vec Zed.Vng Zed.Generated.C09

/-! ## T1 obligations -/

/-- the operator / planner functions the model mirrors have the source it was written against. -/
theorem modelled_sources_unchanged : pinnedSources =
  [("runtime/vam/op/agg.go:CountByString.Pull", "4cd1343883f9"),
   ("runtime/vam/op/agg.go:CountByString.update", "f717d48d5a1f"),
   ("runtime/vam/op/agg.go:countByString.count", "34194e831fd8"),
   ("runtime/vam/op/agg.go:countByString.countDict", "4f1644685571"),
   ("runtime/vam/op/agg.go:countByString.countFixed", "acc75b5edfc0"),
   ("runtime/vam/op/agg.go:countByString.materialize", "0329ab8282ca"),
   ("runtime/vam/op/agg.go:Sum.Pull", "4f1ab8626bf9"),
   ("runtime/vam/op/agg.go:Sum.update", "361761f6e279"),
   ("runtime/vam/op/agg.go:Sum.materialize", "39bd1945a706"),
   ("runtime/vam/expr/dot.go:DotExpr.eval", "fd7536bd3cdb"),
   ("compiler/optimizer/vam.go:Optimizer.Vectorize", "9a237303785c"),
   ("compiler/optimizer/vam.go:Optimizer.isScanWithVectors", "887531a19d64"),
   ("compiler/optimizer/vam.go:vectorize", "c9b2ff654b5d"),
   ("compiler/optimizer/vam.go:IsCountByString", "bc90a2a5db9b"),
   ("compiler/optimizer/vam.go:IsSum", "d71aac3a3e95"),
   ("compiler/optimizer/vam.go:isCount", "2962e518fca9"),
   ("compiler/optimizer/vam.go:isSum", "b1b508abd319"),
   ("compiler/optimizer/vam.go:isSingleField", "eb2b55e7bb6e"),
   ("compiler/job.go:Job.Parallelize", "cebc14195165"),
   ("runtime/vam/op/scan.go:Scanner.run", "9ec29dd02c94"),
   ("runtime/vcache/loader.go:loader.loadDict", "ffafd58ea306"),
   ("runtime/vcache/loader.go:loader.loadPrimitive", "5300522c4557")] := rfl

/-- `Optimizer.Vectorize`: sequences shorter than two operators are left alone; the scan must
    have vectors for every object; only `count() by <field>` and `sum(<field>)` directly after
    the scan are vectorized (`vectorized` in the model). -/
theorem planner_as_modelled : vectorizeSkipWhenLen = "< 2" ∧ vectorizeTests =
  ["isScanWithVectors(seq[0])", "IsCountByString(seq[1]) -> return vectorize(seq, 2), nil", "IsSum(seq[1]) -> return vectorize(seq, 2), nil"] := ⟨rfl, rfl⟩

/-! ## vam_total: kinds handled vs kinds produced -/

/-- A vector kind is handled by `CountByString.update` when it has a case, or is a `Dynamic`
    (the operator recurses into its values first). -/
def cbHandled (k : String) : Bool :=
  countByKinds.contains k || (k == "Dynamic" && countByKindsRecursesIntoDynamic)

/-- **vam_total for count() by — FALSE**: the loader / projection / field access can produce
    kinds `CountByString.update` has no case for, and its default panics. -/
theorem not_countby_total :
    ¬ (∀ k ∈ Zed.Generated.C09.loaderVectorKinds, cbHandled k = true) ∧ countByKindsDefault = "panic" := by
  refine ⟨?_, rfl⟩
  intro h
  exact absurd (h "Int" (by decide)) (by decide)

/-- … what is handled. -/
theorem countby_total_partial (k : String) (hk : k ∈ ["String", "Dict", "Const", "Dynamic"]) :
    cbHandled k = true := by
  revert k; decide

/-- The `Dict` case asserts that the dictionary values are strings without checking, while
    the loader builds dictionaries over other kinds too: a second panic site. -/
theorem not_countby_dict_total :
    countByDictAssertion = "unchecked-String" ∧
    ∃ t ∈ Zed.Generated.C03.loadDictCases, t ≠ "TypeOfString" := by
  refine ⟨rfl, "TypeOfInt64", by decide, by decide⟩

/-- **vam_total for sum**: `Sum.update` has no panicking default (unknown kinds are ignored —
    which is what makes `sum_agree` false) and recurses into `Dynamic`. -/
theorem sum_total : sumKindsDefault = "ignore" ∧ sumKindsRecursesIntoDynamic = true := ⟨rfl, rfl⟩

/-- every vector kind that exists is either produced by the loader or is `View` (built only
    by operators): the kind list the statements above range over is complete. -/
theorem loader_kinds_complete (k : String) (hk : k ∈ vectorKindsWithSerialize) :
    k ∈ Zed.Generated.C09.loaderVectorKinds ∨ k = "View" := by
  revert k; decide

/-! ## count() by -/

/-- **countby_agree_partial.**  Guard: one object, one top-level type, the field is a string
    column without nulls (any contents: plain, dictionary or const encoded).  Then the vector
    operator does not fail and its rows agree, as a multiset, with the sequential
    `count() by f`. -/
theorem countby_agree_partial (xs : List Bytes) :
    ∃ s, cbRun [[strCol xs]] = .ok s ∧ RowsAgree (cbRows s) (seqCountBy (strCol xs).values) := by
  obtain ⟨s, hrun, hn, hc⟩ := cbRun_strCol xs
  refine ⟨s, hrun, ?_⟩
  have hrows : cbRows s = s.table.map fun e => ((strTy, Val.prim e.1), e.2) := by
    simp [cbRows, hn]
  rw [hrows]
  exact RowsAgree.of_counts
    (Counts.map_inj (fun x : Bytes => (strTy, Val.prim x)) (by intro a b h; simpa using h) hc)
    (seqCountBy_strCol xs)

-- non-vacuity: the three encodings
example : cbRun [[strCol [[97], [98], [97]]]] = .ok { table := [([97], 2), ([98], 1)], nulls := 0 } := by decide
example : cbRun [[strCol [[97], [97]]]] = .ok { table := [([97], 2)], nulls := 0 } := by decide
example : fieldVec (strCol [[97], [98], [97]]) = .dict "String" [([97], 2), ([98], 1)] 3 := by decide
example : fieldVec (strCol [[97], [97]]) = .const 25 [97] 2 := by decide

private def disagree (objs : List (List FCol)) : Prop :=
  ∀ s, cbRun objs = .ok s → ¬ RowsAgree (cbRows s) (seqCountBy (objs.flatten.flatMap FCol.values))

/-- **not_countby_agree (dictionary counts across objects)**: `countDict` assigns instead of
    adding.  Two objects `a b a` / `a c`, both dictionary encoded: the vector operator reports
    a:1 where the data has a:3. -/
theorem not_countby_agree_dict_across_objects :
    cbRun [[strCol [[97], [98], [97]]], [strCol [[97], [99]]]] =
      .ok { table := [([97], 1), ([98], 1), ([99], 1)], nulls := 0 } ∧
    cnt (seqCountBy ([strCol [[97], [98], [97]], strCol [[97], [99]]].flatMap FCol.values))
      (strTy, .prim [97]) = 3 := by decide

/-- **not_countby_agree (non-string vectors panic)**: an int64 column with two distinct values
    is dictionary encoded and hits the unchecked assertion; a uint8 column (never dictionary
    encoded) hits the switch default; a record without the field yields `error("missing")`,
    which also hits the default. -/
theorem not_countby_total_witnesses :
    cbRun [[.col (.prim 9) [.prim [2], .prim [4]]]] =
      .error "interface conversion: vector.Any is *vector.Int, not *vector.String" ∧
    cbRun [[.col (.prim 0) [.prim [1], .prim [2]]]] = .error "UNKNOWN Uint" ∧
    cbRun [[.missing 1]] = .error "UNKNOWN Error" := by decide

/-- **not_countby_agree (silently wrong)**: a const-encoded non-string column is dropped; null
    slots of a const string column are counted as the value; null slots of a flat string
    column are counted as ""; a column of type null is reported with key type string. -/
theorem not_countby_agree_witnesses :
    cbRun [[.col (.prim 9) [.prim [2]]]] = .ok {} ∧
    cbRun [[.col strTy [.prim [97], .null]]] = .ok { table := [([97], 2)], nulls := 0 } ∧
    cbRun [[.col strTy [.null]]] = .ok { table := [([], 1)], nulls := 0 } ∧
    (cbRun [[.col (.prim 29) [.null]]]).map cbRows = .ok [((strTy, .null), 1)] ∧
    seqCountBy (FCol.col (.prim 29) [.null]).values = [((.prim 29, .null), 1)] := by decide

/-! ## sum -/

/-- **sum_agree_partial.**  Guard: one object, one top-level type, the field is an integer
    column (signed or unsigned kind) without nulls that is not const-encoded.  Then the vector
    operator returns the exact sum of the values (the sequential runtime's int64 / uint64 sum
    up to the result type, see `not_sum_agree_witnesses`). -/
theorem sum_agree_partial (val : Bytes → Int) (id : Nat) (xs : List Bytes)
    (hk : kindOfPrim id = "Int" ∨ kindOfPrim id = "Uint")
    (hc : (primEncode id true xs).isConst = false) :
    sumRun val [[.col (.prim id) (xs.map Val.prim)]] = .ok (xs.map val).sum :=
  sumRun_intCol val id xs hk hc

-- non-vacuity of the guard: int64 with two distinct values (dictionary), uint8 (plain)
example : (kindOfPrim 9 = "Int" ∨ kindOfPrim 9 = "Uint") ∧ (primEncode 9 true [[2], [4], [2]]).isConst = false := by decide
example : (kindOfPrim 0 = "Int" ∨ kindOfPrim 0 = "Uint") ∧ (primEncode 0 true [[1], [1]]).isConst = false := by decide

/-- **not_sum_agree**: a const-encoded integer column (all values equal) is ignored: the sum of
    `5 5` is reported as 0; float columns are ignored; so is everything else. -/
theorem not_sum_agree_witnesses (val : Bytes → Int) :
    sumRun val [[.col (.prim 9) [.prim [10], .prim [10]]]] = .ok 0 ∧
    sumRun val [[.col (.prim 16) [.prim [1], .prim [2]]]] = .ok 0 ∧
    sumRun val [[.missing 3]] = .ok 0 := by
  refine ⟨by rfl, by rfl, by rfl⟩

/-! ## adding / removing vector copies -/

/-- the result of `from pool | count() by f` given which objects have vector copies (one
    scan leg). -/
def lakeCountBy (hasVector : List Bool) (objs : List (List FCol)) : Except String (List Row) :=
  if vectorized .countBy hasVector then (cbRun objs).map cbRows
  else .ok (seqCountBy (objs.flatten.flatMap FCol.values))

/-- **vectorize_transparent_partial.**  Under the guard of `countby_agree_partial`, whichever
    objects have vector copies, the query succeeds with the same multiset of rows. -/
theorem vectorize_transparent_partial (xs : List Bytes) (f f' : List Bool) :
    ∃ r r', lakeCountBy f [[strCol xs]] = .ok r ∧ lakeCountBy f' [[strCol xs]] = .ok r' ∧
      RowsAgree r r' := by
  obtain ⟨s, hrun, hag⟩ := countby_agree_partial xs
  have hseq : [[strCol xs]].flatten.flatMap FCol.values = (strCol xs).values := by simp
  have hsym : RowsAgree (seqCountBy (strCol xs).values) (cbRows s) :=
    ⟨hag.2.1, hag.1, fun k => (hag.2.2 k).symm⟩
  have hrefl : ∀ r, rowsOK r → RowsAgree r r := fun r h => ⟨h, h, fun _ => rfl⟩
  unfold lakeCountBy
  by_cases h1 : vectorized .countBy f = true <;> by_cases h2 : vectorized .countBy f' = true <;>
    simp only [h1, h2, if_true, if_false, hrun, hseq, Except.map, Bool.false_eq_true]
  · exact ⟨_, _, rfl, rfl, hrefl _ hag.1⟩
  · exact ⟨_, _, rfl, rfl, hag⟩
  · exact ⟨_, _, rfl, rfl, hsym⟩
  · exact ⟨_, _, rfl, rfl, hrefl _ hag.2.1⟩

/-- **not_vectorize_transparent**: with an int64 key column the same pool answers
    `count() by f` without vectors and crashes with them. -/
theorem not_vectorize_transparent :
    (lakeCountBy [false] [[.col (.prim 9) [.prim [2], .prim [4]]]]).toBool = true ∧
    (lakeCountBy [true] [[.col (.prim 9) [.prim [2], .prim [4]]]]).toBool = false := by decide

end Zed.Props.C09
