import Zed.Model.ZngZcode
import Zed.Proofs.ZngUvarint
/-! zcode round trip lemmas. -/
namespace Zed.Zng
open Zed.Generated.C01 (toTag tagLength tagNull)

/-- A body fits in a Go slice (its tag fits in an `int`). -/
def BodyFits : Option Bytes → Prop
  | none => True
  | some b => b.length + 1 < two63

instance : (v : Option Bytes) → Decidable (BodyFits v)
  | none => isTrue trivial
  | some b => inferInstanceAs (Decidable (b.length + 1 < two63))

theorem znext_zappend (v : Option Bytes) (rest : Bytes) (hv : BodyFits v) :
    znext (zappend v ++ rest) = .ok (v, rest) := by
  cases v with
  | none =>
    simp only [zappend, znext, tagNull]
    rw [readUvarint_uvarint 0 rest (by decide)]
    simp
  | some b =>
    simp only [BodyFits] at hv
    simp only [zappend, znext, toTag, tagNull, tagLength, List.append_assoc]
    rw [readUvarint_uvarint (b.length + 1) (b ++ rest) (by unfold two63 two64 at *; omega)]
    have h1 : asInt (b.length + 1 - 1) = (b.length : Int) := by
      rw [Nat.add_sub_cancel]; exact asInt_small _ (by omega)
    simp only [Nat.add_one_ne_zero, if_false, h1]
    have h2 : ¬ ((b.length : Int) < 0) := by omega
    have h3 : hasLen (b ++ rest) (b.length : Int).toNat = true := by
      rw [hasLen_iff]; simp
    rw [if_neg h2, h3]
    simp

theorem ziterAll_zappendAll (vs : List (Option Bytes)) (h : ∀ v ∈ vs, BodyFits v) :
    ziterAll (zappendAll vs) = .ok vs := by
  induction vs with
  | nil => rw [ziterAll]; simp [zappendAll]
  | cons v vs ih =>
    rw [ziterAll]
    have hne : (zappendAll (v :: vs)).isEmpty = false := by
      simp only [zappendAll]
      cases v with
      | none => simp [zappend, uvarint_ne_nil]
      | some b => simp [zappend, uvarint_ne_nil]
    simp only [hne, Bool.false_eq_true, if_false]
    have hz := znext_zappend v (zappendAll vs) (h v (by simp))
    simp only [zappendAll] at *
    split
    · rename_i e he; rw [hz] at he; cases he
    · rename_i v' r he
      rw [hz] at he
      cases he
      simp [ih (fun x hx => h x (by simp [hx]))]

end Zed.Zng
