import Zed.Model.Sexp
import Zed.Model.FuseShape
import Zed.Model.FuseFits
/-!
  Driver glue for C20.
  `(C20 fuse <memMax> (T V nbytes) …)` →
      `(<spilled 0|1> <fused type | nil> <agg type | nil> (<out> <guard 0|1> <fits 0|1>) …)`
  where `<out>` is `(v T V)`, `(e <error-class>)`, `panic` or `unsupported`, and `<guard>` says
  whether the hypothesis of `fuse_lossless_partial` (a cast-free covering plan into the fused
  type) holds for that input.
  `(C20 merge T T)` → the merged type.   Answers `fuel` if merge ran out of fuel.

  type:  (p id) (r (hexname T)…) (a T) (s T) (m K V) (u T…) (n hexname T) (e T) (en hexsym…)
         values of enum / error types travel as opaque leaves (p 1000 hex) / (p 1001 hex)
  value: n | (p id hex) | (r V…) | (l V…) | (m V…) | (u tag V)
-/
namespace Zed.Drv.C20
open Zed Zed.Fuse

mutual
partial def tyOf : Sexp → Option Ty
  | .list [.atom "p", .atom id] => do pure (.prim (← id.toNat?))
  | .list (.atom "r" :: fs) => do pure (.record (Fields.ofList (← fs.mapM fieldOf)))
  | .list [.atom "a", t] => do pure (.array (← tyOf t))
  | .list [.atom "s", t] => do pure (.set (← tyOf t))
  | .list [.atom "m", k, v] => do pure (.map (← tyOf k) (← tyOf v))
  | .list (.atom "u" :: ts) => do pure (.union (Tys.ofList (← ts.mapM tyOf)))
  | .list [.atom "n", .atom n, t] => do pure (.named (← Sexp.bytesOfHex n) (← tyOf t))
  | .list [.atom "e", t] => do pure (.error (← tyOf t))
  | .list (.atom "en" :: ss) => do pure (.enum (← ss.mapM fun | .atom x => Sexp.bytesOfHex x | _ => none))
  | _ => none
partial def fieldOf : Sexp → Option (Name × Ty)
  | .list [.atom n, t] => do pure (← Sexp.bytesOfHex n, ← tyOf t)
  | _ => none
end

partial def valOf : Sexp → Option Val
  | .atom "n" => some .null
  | .list [.atom "p", .atom id, .atom b] => do pure (.prim (← id.toNat?) (← Sexp.bytesOfHex b))
  | .list (.atom "r" :: vs) => do pure (.recd (Vals.ofList (← vs.mapM valOf)))
  | .list (.atom "l" :: vs) => do pure (.list (Vals.ofList (← vs.mapM valOf)))
  | .list (.atom "m" :: vs) => do pure (.map (Vals.ofList (← vs.mapM valOf)))
  | .list [.atom "u", .atom tag, v] => do pure (.union (← tag.toNat?) (← valOf v))
  | _ => none

partial def tyStr : Ty → Sexp
  | .prim id => .list [.atom "p", .atom (toString id)]
  | .record fs => .list (.atom "r" :: fs.toList.map fun (n, t) => .list [.atom (Sexp.hexOfBytes n), tyStr t])
  | .array t => .list [.atom "a", tyStr t]
  | .set t => .list [.atom "s", tyStr t]
  | .map k v => .list [.atom "m", tyStr k, tyStr v]
  | .union ts => .list (.atom "u" :: ts.toList.map tyStr)
  | .named n t => .list [.atom "n", .atom (Sexp.hexOfBytes n), tyStr t]
  | .error t => .list [.atom "e", tyStr t]
  | .enum ss => .list (.atom "en" :: ss.map fun x => .atom (Sexp.hexOfBytes x))

partial def valStr : Val → Sexp
  | .null => .atom "n"
  | .prim id b => .list [.atom "p", .atom (toString id), .atom (Sexp.hexOfBytes b)]
  | .recd vs => .list (.atom "r" :: vs.toList.map valStr)
  | .list vs => .list (.atom "l" :: vs.toList.map valStr)
  | .map vs => .list (.atom "m" :: vs.toList.map valStr)
  | .union tag v => .list [.atom "u", .atom (toString tag), valStr v]

def errStr : ShapeErr → String
  | .maps => "maps"
  | .unionCast => "unionCast"
  | .createStep => "createStep"
  | .dupField => "dupField"
  | .castNotImpl => "castNotImpl"

def outStr : Out → Sexp
  | .val t v => .list [.atom "v", tyStr t, valStr v]
  | .err e => .list [.atom "e", .atom (errStr e)]
  | .panic => .atom "panic"
  | .unsupported => .atom "unsupported"

def inputOf : Sexp → Option Input
  | .list [t, v, .atom n] => do pure { ty := ← tyOf t, val := ← valOf v, nbytes := ← n.toNat? }
  | _ => none

def optTy : Option Ty → Sexp
  | none => .atom "nil"
  | some t => tyStr t

def handle : List Sexp → String
  | .atom "fuse" :: .atom mm :: ins =>
    match mm.toNat?, ins.mapM inputOf with
    | some mm, some xs =>
      match Fuser.writeAll bigFuel { memMax := mm } xs, aggType bigFuel (xs.map (·.ty)) with
      | some f, some agg =>
        let outs := f.readAll
        let guards := guardAll f.schema xs
        let fitsL := xs.map fun x => match f.schema with | some t => fits x.ty t | none => false
        toString (Sexp.list (
          .atom (if f.spill.isSome then "1" else "0") :: optTy f.schema :: optTy agg ::
          ((outs.zip guards).zip fitsL).map fun ((o, g), ft) =>
            .list [outStr o, .atom (if g then "1" else "0"), .atom (if ft then "1" else "0")]))
      | _, _ => "fuel"
    | _, _ => "bad-op"
  | [.atom "merge", a, b] =>
    match tyOf a, tyOf b with
    | some a, some b =>
      match merge bigFuel a b with
      | some c => toString (tyStr c)
      | none => "fuel"
    | _, _ => "bad-op"
  | _ => "bad-op"

end Zed.Drv.C20
