package main

// Response format negotiation: the Accept header of POST /query against the model's
// `negotiate` over the regenerated media-type table.

import (
	"fmt"
	"io"
	"mime"
	"net/http"
	"strings"

	"github.com/brimdata/super/api"

	. "verifharness/hlib"
)

var acceptHeaders = []string{
	"", "*/*", "application/json", "text/csv", "application/x-zng", "application/x-zson", "application/x-zjson",
	"text/plain, application/json", "bogus/type", "bogus/type, also/bogus",
	"application/x-zng;q=0.5, */*", "text/csv , application/x-zson", "application/x-zjson; charset=utf-8",
	"text/html,application/xhtml+xml,*/*;q=0.8", "application/x-ndjson", "text/tab-separated-values, text/csv",
	"not a media type, application/x-zson", ",application/json",
}

// splitAccept mirrors the lexical part of newRequest / MediaTypeToFormat: split at commas,
// trim, drop parameters (mime.ParseMediaType; an entry it rejects is unusable).
func splitAccept(h string) []string {
	var out []string
	for _, part := range strings.Split(h, ",") {
		part = strings.TrimSpace(part)
		if part == "" {
			out = append(out, "")
			continue
		}
		typ, _, err := mime.ParseMediaType(part)
		if err != nil && err != mime.ErrInvalidMediaParameter {
			out = append(out, "unparsable/unparsable")
			continue
		}
		out = append(out, typ)
	}
	return out
}

func runAccept(c *Ctx) {
	rem, err := newRemote()
	if err != nil {
		panic(err)
	}
	defer rem.close()
	if r := rem.exec(Op{Kind: "createPool", Pool: "p", Key: "k"}); r.Class != "ok" {
		c.Note("accept: setup failed: %s", r.Err)
		return
	}
	if r := rem.exec(Op{Kind: "load", Pool: "p", Branch: "main", Format: "zson", Data: []string{`{k:1,s:"a",n:0}`, `{k:2,s:"b",n:1}`}}); r.Class != "ok" {
		c.Note("accept: setup failed: %s", r.Err)
		return
	}
	m := c.Model()
	for _, h := range acceptHeaders {
		c.Eval("accept|" + h)
		c.Res.ModelCases++
		var line strings.Builder
		line.WriteString("(C19 accept")
		for _, mt := range splitAccept(h) {
			line.WriteString(" M" + strings.ReplaceAll(mt, " ", ""))
		}
		line.WriteString(")")
		want := m.Call(line.String())
		fail := func(kind, key, what string) {
			c.Fail(kind, key, fmt.Sprintf("Accept %q: %s", h, what), map[string]any{"accept": h})
		}
		ctx, cancel := ctxT()
		req := rem.conn.NewRequest(ctx, http.MethodPost, "/query?ctrl=F", api.QueryRequest{Query: "from p"})
		req.Header.Set("Accept", h)
		resp, err := rem.conn.Do(req)
		if err != nil {
			cancel()
			c.Stat("accept:rejected")
			if want != "none" {
				fail("correspondence", "C19:accept:rejected", fmt.Sprintf("the service rejects the request (%s); the model negotiates %s", clip(err.Error()), want))
			}
			continue
		}
		body, _ := io.ReadAll(resp.Body)
		resp.Body.Close()
		defer cancel()
		if want == "none" || want == "bad-op" {
			fail("correspondence", "C19:accept:accepted", "the service answers; the model finds no usable media type ("+want+")")
			continue
		}
		c.Stat("accept:" + want)
		ct := resp.Header.Get("Content-Type")
		if !strings.HasPrefix(ct, mediaType(want)) {
			fail("oracle", "C19:content-type:"+want, fmt.Sprintf("negotiated %s, response Content-Type is %q", want, ct))
			continue
		}
		switch want {
		case "zng", "zson", "zjson", "json", "csv":
			vals, _, _, derr := decodeResponse(ctx, want, body)
			if derr != nil || len(vals) != 2 {
				fail("oracle", "C19:accept:body:"+want, fmt.Sprintf("the body does not read back as %s (%d values, %v)", want, len(vals), derr))
			}
		}
	}
}
