/-
  Lemmas for the lifting rewrites of C07 (liftIntoParPaths) at the level of the parallel
  legs' output lists.
-/
import Zed.Model.OptSem
namespace Zed.Opt
variable {V : Type}

theorem flatMap_flatten (f : V → List V) (legs : List (List V)) :
    legs.flatten.flatMap f = (legs.map (fun l => l.flatMap f)).flatten := by
  induction legs with
  | nil => rfl
  | cons l ls ih => simp [List.flatMap_append, ih]

/-- a per-value operator below a combine: the plan with the operator copied into every leg
    yields the same multiset, whatever the two schedulers do. -/
theorem flatMap_legs_perm (f : V → List V) (legs : List (List V)) (p q : List V)
    (hp : p.Perm legs.flatten) (hq : q.Perm (legs.map (fun l => l.flatMap f)).flatten) :
    (p.flatMap f).Perm q := by
  have h1 : (p.flatMap f).Perm (legs.flatten.flatMap f) := List.Perm.flatMap_right f hp
  rw [flatMap_flatten] at h1
  exact h1.trans hq.symm

theorem flatten_take_drop_perm (n : Nat) (legs : List (List V)) :
    legs.flatten.Perm ((legs.map (List.take n)).flatten ++ (legs.map (List.drop n)).flatten) := by
  induction legs with
  | nil => simp
  | cons l ls ih =>
    simp only [List.flatten_cons, List.map_cons]
    have h : (l ++ ls.flatten).Perm ((l.take n ++ l.drop n) ++ ((ls.map (List.take n)).flatten ++ (ls.map (List.drop n)).flatten)) := by
      rw [List.take_append_drop]; exact List.Perm.append_left l ih
    refine h.trans ?_
    -- (a ++ b) ++ (c ++ d) ~ (a ++ c) ++ (b ++ d)
    have : ((l.take n ++ l.drop n) ++ ((ls.map (List.take n)).flatten ++ (ls.map (List.drop n)).flatten)).Perm
        ((l.take n ++ (ls.map (List.take n)).flatten) ++ (l.drop n ++ (ls.map (List.drop n)).flatten)) := by
      simp only [List.append_assoc]
      apply List.Perm.append_left
      rw [← List.append_assoc, ← List.append_assoc]
      exact List.Perm.append_right _ List.perm_append_comm
    exact this

theorem length_flatten_take_lt (n : Nat) (legs : List (List V))
    (h : (legs.map (List.take n)).flatten.length < n) : (legs.map (List.drop n)).flatten = [] := by
  induction legs with
  | nil => rfl
  | cons l ls ih =>
    simp only [List.map_cons, List.flatten_cons, List.length_append, List.length_take] at h
    have hl : l.length < n := by omega
    have hd : l.drop n = [] := List.drop_eq_nil_of_le (by omega)
    simp only [List.map_cons, List.flatten_cons, hd, List.nil_append]
    exact ih (by omega)

/-- `head n` below a combine, copied into the legs and kept: every output of the optimized
    plan is an output of the original plan under some schedule (some rearrangement `p` of the
    legs). -/
theorem head_legs_refines (n : Nat) (legs : List (List V)) (q : List V)
    (hq : q.Perm (legs.map (List.take n)).flatten) :
    ∃ p : List V, p.Perm legs.flatten ∧ p.take n = q.take n := by
  refine ⟨q ++ (legs.map (List.drop n)).flatten, ?_, ?_⟩
  · exact ((List.Perm.append_right _ hq).trans (flatten_take_drop_perm n legs).symm)
  · by_cases hlen : n ≤ q.length
    · exact List.take_append_of_le_length hlen
    · have : (legs.map (List.take n)).flatten.length < n := by rw [← hq.length_eq]; omega
      rw [length_flatten_take_lt n legs this, List.append_nil]

theorem flatten_split_perm (k : List V → Nat) (legs : List (List V)) :
    legs.flatten.Perm ((legs.map fun l => l.take (k l)).flatten ++ (legs.map fun l => l.drop (k l)).flatten) := by
  induction legs with
  | nil => simp
  | cons l ls ih =>
    simp only [List.flatten_cons, List.map_cons]
    have h : (l ++ ls.flatten).Perm ((l.take (k l) ++ l.drop (k l)) ++
        ((ls.map fun l => l.take (k l)).flatten ++ (ls.map fun l => l.drop (k l)).flatten)) := by
      rw [List.take_append_drop]; exact List.Perm.append_left l ih
    refine h.trans ?_
    simp only [List.append_assoc]
    apply List.Perm.append_left
    rw [← List.append_assoc, ← List.append_assoc]
    exact List.Perm.append_right _ List.perm_append_comm

theorem lastN_length_lt (n : Nat) (legs : List (List V))
    (h : (legs.map (lastN n)).flatten.length < n) :
    (legs.map fun l => l.take (l.length - n)).flatten = [] := by
  induction legs with
  | nil => rfl
  | cons l ls ih =>
    simp only [List.map_cons, List.flatten_cons, List.length_append, lastN, List.length_drop] at h
    have hl : l.length - n = 0 := by omega
    simp only [List.map_cons, List.flatten_cons, hl, List.take_zero, List.nil_append]
    exact ih (by omega)

theorem lastN_append_of_le (n : Nat) (a q : List V) (h : n ≤ q.length) : lastN n (a ++ q) = lastN n q := by
  unfold lastN
  rw [List.length_append, List.drop_append]
  have h1 : a.length + q.length - n - a.length = q.length - n := by omega
  have h2 : List.drop (a.length + q.length - n) a = [] := List.drop_eq_nil_of_le (by omega)
  rw [h1, h2, List.nil_append]

/-- `tail n` below a combine, copied into the legs and kept. -/
theorem tail_legs_refines (n : Nat) (legs : List (List V)) (q : List V)
    (hq : q.Perm (legs.map (lastN n)).flatten) :
    ∃ p : List V, p.Perm legs.flatten ∧ lastN n p = lastN n q := by
  refine ⟨(legs.map fun l => l.take (l.length - n)).flatten ++ q, ?_, ?_⟩
  · have := flatten_split_perm (fun l => l.length - n) legs
    exact ((List.Perm.append_left _ hq).trans this.symm)
  · by_cases hlen : n ≤ q.length
    · exact lastN_append_of_le n _ q hlen
    · have : (legs.map (lastN n)).flatten.length < n := by rw [← hq.length_eq]; omega
      rw [lastN_length_lt n legs this, List.nil_append]

/-! ## sort and merge -/

theorem leOf_trans {c : V → V → Ordering} (h : LawfulCmp c) :
    ∀ a b d, leOf c a b = true → leOf c b d = true → leOf c a d = true := by
  intro a b d h1 h2
  simp only [leOf, bne_iff_ne, ne_eq] at *
  exact h.trans a b d h1 h2

theorem leOf_total {c : V → V → Ordering} (h : LawfulCmp c) :
    ∀ a b, (leOf c a b || leOf c b a) = true := by
  intro a b
  simp only [leOf, Bool.or_eq_true, bne_iff_ne, ne_eq]
  rw [h.swap a b]
  cases c a b <;> simp [Ordering.swap]

theorem sortedBy_iff (c : V → V → Ordering) (xs : List V) :
    SortedBy c xs ↔ xs.Pairwise (fun a b => leOf c a b = true) := by
  simp [SortedBy, leOf]

theorem mergeLegs_perm (le : V → V → Bool) (legs : List (List V)) : (mergeLegs le legs).Perm legs.flatten := by
  induction legs with
  | nil => exact List.Perm.refl _
  | cons l ls ih =>
    simp only [mergeLegs, List.flatten_cons]
    exact (List.merge_perm_append le).trans (List.Perm.append_left l ih)

theorem mergeLegs_sorted {c : V → V → Ordering} (h : LawfulCmp c) (legs : List (List V))
    (hs : ∀ l ∈ legs, SortedBy c l) : SortedBy c (mergeLegs (leOf c) legs) := by
  induction legs with
  | nil => simp [mergeLegs, SortedBy]
  | cons l ls ih =>
    simp only [mergeLegs]
    rw [sortedBy_iff]
    apply List.pairwise_merge (leOf_trans h) (leOf_total h)
    · rw [← sortedBy_iff]; exact hs l (by simp)
    · rw [← sortedBy_iff]; exact ih (fun l' hl' => hs l' (by simp [hl']))

theorem mergeSort_sorted {c : V → V → Ordering} (h : LawfulCmp c) (xs : List V) :
    SortedBy c (xs.mergeSort (leOf c)) := by
  rw [sortedBy_iff]
  exact List.pairwise_mergeSort (leOf_trans h) (leOf_total h) xs

/-- `sort` below a fan-in, copied into the legs and replaced by a merge with the *same*
    comparator: both plans emit the same multiset, in sort order. -/
theorem sort_legs_sound {c : V → V → Ordering} (h : LawfulCmp c) (legs : List (List V)) (p : List V)
    (hp : p.Perm legs.flatten) :
    let orig := p.mergeSort (leOf c)
    let opt := mergeLegs (leOf c) (legs.map fun l => l.mergeSort (leOf c))
    orig.Perm opt ∧ SortedBy c orig ∧ SortedBy c opt := by
  refine ⟨?_, mergeSort_sorted h p, ?_⟩
  · have h1 : (p.mergeSort (leOf c)).Perm legs.flatten := (List.mergeSort_perm p _).trans hp
    have h2 : (mergeLegs (leOf c) (legs.map fun l => l.mergeSort (leOf c))).Perm legs.flatten := by
      refine (mergeLegs_perm _ _).trans ?_
      clear hp h1
      induction legs with
      | nil => exact List.Perm.refl _
      | cons l ls ih =>
        simp only [List.map_cons, List.flatten_cons]
        exact List.Perm.append (List.mergeSort_perm l _) ih
    exact h1.trans h2.symm
  · apply mergeLegs_sorted h
    intro l hl
    simp only [List.mem_map] at hl
    obtain ⟨l', _, rfl⟩ := hl
    exact mergeSort_sorted h l'

end Zed.Opt
