package main

// Running the real summarize / join operators with every knob the property quantifies over:
// groupby.DefaultLimit, declared input order (compiler.CompileWithSortKey's mechanism),
// batch boundaries of the input, partials-out / partials-in.

import (
	"context"
	"os"
	"errors"
	"fmt"
	"strings"
	"time"

	. "verifharness/hlib"

	zed "github.com/brimdata/super"
	"github.com/brimdata/super/compiler"
	"github.com/brimdata/super/compiler/ast/dag"
	"github.com/brimdata/super/compiler/data"
	"github.com/brimdata/super/order"
	"github.com/brimdata/super/pkg/field"
	"github.com/brimdata/super/pkg/storage"
	"github.com/brimdata/super/runtime"
	"github.com/brimdata/super/runtime/exec"
	"github.com/brimdata/super/runtime/sam/expr"
	"github.com/brimdata/super/runtime/sam/op/groupby"
	"github.com/brimdata/super/runtime/sam/op/join"
	"github.com/brimdata/super/zbuf"
	"github.com/brimdata/super/zio"
	"github.com/brimdata/super/zson"
)

// batchReader is a zio.Reader that also hands out its values in caller-chosen batches
// (zbuf.ScannerAble), so that the group-by's per-batch early release can be exercised on
// small inputs.  sizes == nil: one value per Read through the default scanner (batches of
// up to 100).
type batchReader struct {
	vals  []zed.Value
	sizes []int
	pos   int
}

func (b *batchReader) Read() (*zed.Value, error) {
	if b.pos >= len(b.vals) {
		return nil, nil
	}
	v := &b.vals[b.pos]
	b.pos++
	return v, nil
}

type batchScanner struct {
	r      *batchReader
	filter expr.Evaluator
	ectx   expr.Context
	bi     int
	prog   zbuf.Progress
}

func (b *batchReader) NewScanner(ctx context.Context, f zbuf.Filter) (zbuf.Scanner, error) {
	s := &batchScanner{r: b, ectx: expr.NewContext()}
	if f != nil {
		ev, err := f.AsEvaluator()
		if err != nil {
			return nil, err
		}
		s.filter = ev
	}
	return s, nil
}

func (s *batchScanner) Progress() zbuf.Progress { return s.prog }

func (s *batchScanner) Pull(done bool) (zbuf.Batch, error) {
	if done {
		s.r.pos = len(s.r.vals)
		return nil, nil
	}
	for {
		if s.r.pos >= len(s.r.vals) {
			return nil, nil
		}
		n := 100
		if s.bi < len(s.r.sizes) && s.r.sizes[s.bi] > 0 {
			n = s.r.sizes[s.bi]
		}
		s.bi++
		end := s.r.pos + n
		if end > len(s.r.vals) {
			end = len(s.r.vals)
		}
		var out []zed.Value
		for _, v := range s.r.vals[s.r.pos:end] {
			if s.filter != nil {
				r := s.filter.Eval(s.ectx, v)
				if !(r.Type() == zed.TypeBool && !r.IsNull() && r.Bool()) {
					continue
				}
			}
			out = append(out, v)
		}
		s.r.pos = end
		if len(out) > 0 {
			return zbuf.NewArray(out), nil
		}
	}
}

type qopts struct {
	Prog     string
	Inputs   [][]zed.Value // one (summarize) or two (join) inputs
	Sizes    []int         // batch sizes of input 0 (nil = default scanner batches)
	Limit    int           // groupby.DefaultLimit for this run (0 = leave)
	SortKey  string        // declared order of input 0: "" | "k:asc" | "k:desc"
	PartOut  bool          // summarize emits partials
	PartIn   bool          // summarize consumes partials (keys re-pointed at their output names)
	Zctx     *zed.Context
	WantDag  bool
	DagNotes *[]string
	// FileSort: the program reads `file` sources; for each path the declared sort keys of
	// that source ("" = none), set on its dag.FileScan before optimization
	FileSort map[string]string
}

// fileScans collects the file scans of a DAG.
func fileScans(seq dag.Seq, out *[]*dag.FileScan) {
	for _, op := range seq {
		switch op := op.(type) {
		case *dag.FileScan:
			*out = append(*out, op)
		case *dag.Fork:
			for _, p := range op.Paths {
				fileScans(p, out)
			}
		case *dag.Scope:
			fileScans(op.Body, out)
		}
	}
}

var errNoSummarize = errors.New("no top-level summarize in the compiled plan")

// runQuery compiles and runs the program over the inputs with the real compiler/runtime.
func runQuery(o qopts) (out []zed.Value, err error) {
	e, panicked := Protect(func() error {
		ctx, cancel := context.WithTimeout(context.Background(), 60*time.Second)
		defer cancel()
		ast, _, err := compiler.Parse(o.Prog)
		if err != nil {
			return fmt.Errorf("parse: %w", err)
		}
		rctx := runtime.NewContext(ctx, o.Zctx)
		defer rctx.Cancel()
		src := data.NewSource(nil, nil)
		if o.FileSort != nil {
			src = data.NewSource(storage.NewLocalEngine(), nil)
		}
		job, err := compiler.NewJob(rctx, ast, src, nil)
		if err != nil {
			return fmt.Errorf("newjob: %w", err)
		}
		if o.FileSort != nil {
			var scans []*dag.FileScan
			fileScans(job.Entry(), &scans)
			n := 0
			for _, fs := range scans {
				if sk, ok := o.FileSort[fs.Path]; ok {
					n++
					if sk != "" {
						keys, err := order.ParseSortKeys(sk)
						if err != nil {
							return err
						}
						fs.SortKeys = keys
					}
				}
			}
			if n != len(o.FileSort) {
				return fmt.Errorf("found %d of %d file scans in the plan", n, len(o.FileSort))
			}
		}
		if o.SortKey != "" {
			scan, ok := job.DefaultScan()
			if !ok {
				return errors.New("declared sort key needs a default scan")
			}
			sk, err := order.ParseSortKeys(o.SortKey)
			if err != nil {
				return err
			}
			scan.SortKeys = sk
		}
		if err := job.Optimize(); err != nil {
			return fmt.Errorf("optimize: %w", err)
		}
		if o.PartOut || o.PartIn {
			var sum *dag.Summarize
			for _, op := range job.Entry() {
				if s, ok := op.(*dag.Summarize); ok {
					sum = s
					break
				}
			}
			if sum == nil {
				return errNoSummarize
			}
			// exactly what optimizer.liftIntoParPaths does to the two halves
			sum.PartialsOut = o.PartOut
			sum.PartialsIn = o.PartIn
			if o.PartIn {
				for k := range sum.Keys {
					sum.Keys[k].RHS = sum.Keys[k].LHS
				}
			}
		}
		if os.Getenv("C10_DEBUG") != "" {
			for _, op := range job.Entry() {
				if j, ok := op.(*dag.Join); ok {
					fmt.Printf("JOIN style=%s leftDir=%v rightDir=%v\n", j.Style, j.LeftDir, j.RightDir)
				} else {
					fmt.Printf("OP %T\n", op)
				}
			}
		}
		if o.DagNotes != nil {
			for _, op := range job.Entry() {
				if s, ok := op.(*dag.Summarize); ok {
					*o.DagNotes = append(*o.DagNotes, fmt.Sprintf("summarize dir=%d pin=%v pout=%v", s.InputSortDir, s.PartialsIn, s.PartialsOut))
				}
			}
		}
		save := groupby.DefaultLimit
		if o.Limit > 0 {
			groupby.DefaultLimit = o.Limit
		}
		defer func() { groupby.DefaultLimit = save }()
		var readers []zio.Reader
		for i, in := range o.Inputs {
			br := &batchReader{vals: in}
			if i == 0 {
				br.sizes = o.Sizes
			}
			readers = append(readers, br)
		}
		if err := job.Build(readers...); err != nil {
			return fmt.Errorf("build: %w", err)
		}
		q := exec.NewQuery(rctx, job.Puller(), job.Builder().Meter())
		defer q.Pull(true)
		for {
			b, err := q.Pull(false)
			if err != nil {
				return err
			}
			if b == nil {
				return nil
			}
			for _, v := range b.Values() {
				out = append(out, v.Copy())
			}
			b.Unref()
		}
	})
	if panicked {
		return out, fmt.Errorf("PANIC %w", e)
	}
	return out, e
}

func isPanic(err error) bool { return err != nil && strings.HasPrefix(err.Error(), "PANIC ") }

func parseRows(zctx *zed.Context, rows []string) ([]zed.Value, error) {
	out := make([]zed.Value, 0, len(rows))
	for _, r := range rows {
		v, err := zson.ParseValue(zctx, r)
		if err != nil {
			return nil, fmt.Errorf("cannot parse %q: %w", r, err)
		}
		out = append(out, v.Copy())
	}
	return out, nil
}

func fmtVals(vs []zed.Value) []string {
	out := make([]string, len(vs))
	for i, v := range vs {
		out[i] = zson.FormatValue(v)
	}
	return out
}

// fieldOf returns (type text, value text) of a record field; ok=false when absent.
func fieldOf(v zed.Value, name string) (typ, val string, isNull, ok bool) {
	f := v.DerefPath(field.Path{name})
	if f == nil {
		return "", "", false, false
	}
	return zson.String(f.Type()), zson.FormatValue(*f), f.IsNull(), true
}


// runJoinDirect builds the join operator itself over two separate readers, declaring each
// side's direction independently ("" unknown, fasc up, fdesc down), and drains it.
func runJoinDirect(zctx *zed.Context, style string, lv, rv []zed.Value, lmode, rmode string) (out []zed.Value, err error) {
	e, panicked := Protect(func() error {
		ctx, cancel := context.WithTimeout(context.Background(), 60*time.Second)
		defer cancel()
		rctx := runtime.NewContext(ctx, zctx)
		defer rctx.Cancel()
		dir := func(m string) order.Direction {
			switch m {
			case "fasc":
				return order.Up
			case "fdesc":
				return order.Down
			}
			return order.Unknown
		}
		lp, err := (&batchReader{vals: lv}).NewScanner(ctx, nil)
		if err != nil {
			return err
		}
		rp, err := (&batchReader{vals: rv}).NewScanner(ctx, nil)
		if err != nil {
			return err
		}
		var lhs []*expr.Lval
		var rhs []expr.Evaluator
		if style != "anti" {
			lhs = []*expr.Lval{expr.NewLval([]expr.LvalElem{&expr.StaticLvalElem{Name: "rr"}})}
			rhs = []expr.Evaluator{expr.NewDottedExpr(zctx, field.Path{"r"})}
		}
		j, err := join.New(rctx, style == "anti", style == "inner", lp, rp,
			expr.NewDottedExpr(zctx, field.Path{"a"}), expr.NewDottedExpr(zctx, field.Path{"b"}),
			dir(lmode), dir(rmode), lhs, rhs, expr.Resetters{})
		if err != nil {
			return err
		}
		for {
			b, err := j.Pull(false)
			if err != nil {
				return err
			}
			if b == nil {
				return nil
			}
			for _, v := range b.Values() {
				out = append(out, v.Copy())
			}
			b.Unref()
		}
	})
	if panicked {
		return out, fmt.Errorf("PANIC %w", e)
	}
	return out, e
}
