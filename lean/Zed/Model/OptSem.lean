/-
  Layer L3 for the optimizer (C07; the filter part is shared with C04): a denotational
  semantics of the model DAG over value lists.

  Anchors: compiler/kernel/op.go (compile / compileLeaf / compileFork / compileSeq: a leaf
  operator with several parents reads their *combine*; a fork feeds every path the same
  input; the outputs of the paths are the parents of what follows), runtime/sam/op/apply.go
  (a per-value operator drops missing/quiet errors and emits every other result, including a
  non-quiet error value), runtime/sam/expr/eval.go (And / Or / Not over EvalBool),
  zbuf/scanner.go + zio/zngio/scanner.go (a filter pushed into the scanner keeps a value only
  when the predicate is Bool true), runtime/sam/op/{head,tail,sort,merge,combine}.

  Everything the optimizer does not reason about is a parameter (`Interp`): the value of an
  atomic predicate, per-value operators, the key comparator, opaque list operators.  The
  scheduler of `combine` is a parameter too (`Sched`): any function returning *some*
  rearrangement of its legs.
-/
import Zed.Model.OptRewrites
namespace Zed.Opt

/-- Result of a predicate: Bool true / false, error("missing"), or another error value
    (`EvalBool` wraps a non-boolean result into such an error). -/
inductive R (V : Type) where
  | tt | ff | miss
  | err (w : V)

structure Interp (V : Type) where
  /-- value of a predicate that is not an and/or/not. -/
  atom : Expr → V → R V
  /-- error values the applier drops (quiet errors). -/
  quiet : V → Bool
  /-- cut / drop / put / rename / yield and every other per-value operator. -/
  perValue : Op → V → List V
  /-- `compareValues(key(a), key(b), nullsMax)` with missing read as null. -/
  cmp : (nullsMax : Bool) → Expr → V → V → Ordering
  /-- operators the optimizer treats as black boxes over the whole input. -/
  opq : Op → List V → List V
  /-- what a source delivers. -/
  source : Op → List V
  /-- operators reading several legs as such (join). -/
  multi : Op → List (List V) → List V
  /-- over with a body: the body's meaning is supplied. -/
  over : String → Option (List V → List V) → List V → List V

variable {V : Type}

def andR (a : R V) (b : R V) : R V :=
  match a with
  | .tt => b          -- `b` is already the EvalBool image: tt/ff/miss/err
  | .ff => .ff
  | .miss => .miss
  | .err w => .err w

def orR (a : R V) (b : R V) : R V :=
  match a with
  | .tt => .tt
  | .err w => .err w  -- an error that is not "missing" is returned at once
  | _ => b

def notR (a : R V) : R V :=
  match a with
  | .tt => .ff
  | .ff => .tt
  | r => r

/-- And / Or / Not as coded; everything else is an atom of the interpretation. -/
def evalB (I : Interp V) : Expr → V → R V
  | .bin op a b, v =>
    if op == "and" then andR (evalB I a v) (evalB I b v)
    else if op == "or" then orR (evalB I a v) (evalB I b v)
    else I.atom (.bin op a b) v
  | .un op a, v => if op == "!" then notR (evalB I a v) else I.atom (.un op a) v
  | e, v => I.atom e v

/-- what the filter *operator* emits for one value. -/
def filterOut (I : Interp V) (e : Expr) (v : V) : List V :=
  match evalB I e v with
  | .tt => [v]
  | .ff => []
  | .miss => []
  | .err w => if I.quiet w then [] else [w]

def filterSem (I : Interp V) (e : Expr) (xs : List V) : List V := xs.flatMap (filterOut I e)

/-- what a filter pushed into the scanner keeps. -/
def keepTrue (I : Interp V) (e : Expr) (xs : List V) : List V :=
  xs.filter fun v => match evalB I e v with | .tt => true | _ => false

def lastN (n : Nat) (xs : List V) : List V := xs.drop (xs.length - n)

def limitOf (n : Nat) : Nat := if n == 0 then 1 else n

/-- `≤` of a three-way comparator. -/
def leOf (c : V → V → Ordering) (a b : V) : Bool := c a b != .gt

/-- the comparator of the sort operator (`setComparator`): `-r` flips every key order, a
    descending first key flips nullsMax, a descending key swaps the operands. -/
def sortCmp (I : Interp V) (args : List SortArg) (nullsFirst reverse : Bool) (a b : V) : Ordering :=
  let descOf (s : SortArg) : Bool := if reverse then !s.desc else s.desc
  let nullsMax0 := !nullsFirst
  let nullsMax := match args with
    | s :: _ => if descOf s then !nullsMax0 else nullsMax0
    | [] => nullsMax0
  let rec go : List SortArg → Ordering
    | [] => .eq
    | s :: r =>
      match (if descOf s then I.cmp nullsMax s.key b a else I.cmp nullsMax s.key a b) with
      | .eq => go r
      | o => o
  go args

/-- the comparator of the merge operator: `NewComparator(true, {expr, order})`. -/
def mergeCmp (I : Interp V) (e : Expr) (desc : Desc) (a b : V) : Ordering :=
  if desc then I.cmp true e b a else I.cmp true e a b

def sortSem (I : Interp V) (args : List SortArg) (nf rev : Bool) (xs : List V) : List V :=
  xs.mergeSort (leOf (sortCmp I args nf rev))

/-- the merge operator over its legs: repeated two-way merge (`List.merge`: from the left on
    ties). -/
def mergeLegs (le : V → V → Bool) : List (List V) → List V
  | [] => []
  | l :: ls => List.merge l (mergeLegs le ls) le

/-- the scheduler of combine: some rearrangement of the legs' values; a single leg passes
    through untouched. -/
structure Sched (V : Type) where
  comb : List (List V) → List V
  comb_single : ∀ l, comb [l] = l
  comb_perm : ∀ ls, (comb ls).Perm ls.flatten
  /-- how a scatter distributes its input over n legs. -/
  split : Nat → List V → List (List V)

/-- leaf operators (one input stream, one output stream). -/
def leafSem (I : Interp V) (op : Op) (xs : List V) : List V :=
  match op with
  | .filter e => filterSem I e xs
  | .pass => xs
  | .output _ => xs
  | .head n => xs.take (limitOf n)
  | .tail n => lastN (limitOf n) xs
  | .sort args nf rev => sortSem I args nf rev xs
  | .cut _ | .drop _ | .put _ | .rename _ | .yield _ => xs.flatMap (I.perValue op)
  | .defaultScan f _ | .fileScan _ f _ | .seqScan _ _ _ f =>
    match f with
    | .none => I.source op
    | f => keepTrue I f (I.source (match op with
        | .defaultScan _ sk => .defaultScan .none sk
        | .fileScan h _ sk => .fileScan h .none sk
        | .seqScan p c fl _ => .seqScan p c fl .none
        | o => o))
  | op => I.opq op xs

mutual
/-- an operator as a function from its parents' streams to its output streams. -/
def semOp (I : Interp V) (S : Sched V) : Op → List (List V) → List (List V)
  | .fork ps, ins => semPaths I S ps (S.comb ins)
  | .scatter ps, ins => semScatter I S ps (S.split ps.toList.length (S.comb ins))
  | .mirror m mi, ins => semSeq I S m [S.comb ins] ++ semSeq I S mi [S.comb ins]
  | .scope _ b, ins => semSeq I S b ins
  | .over h hb b, ins =>
    [I.over h (if hb then some (fun xs => S.comb (semSeq I S b [xs])) else Option.none) (S.comb ins)]
  | .merge e d, ins => [mergeLegs (leOf (mergeCmp I e d)) ins]
  | .combine, ins => [S.comb ins]
  | .join st lk ld rk rd a, ins => [I.multi (.join st lk ld rk rd a) ins]
  | op, ins => [leafSem I op (S.comb ins)]
def semSeq (I : Interp V) (S : Sched V) : Seq → List (List V) → List (List V)
  | .nil, ins => ins
  | .cons o r, ins => semSeq I S r (semOp I S o ins)
def semPaths (I : Interp V) (S : Sched V) : Seqs → List V → List (List V)
  | .nil, _ => []
  | .cons s r, x => semSeq I S s [x] ++ semPaths I S r x
def semScatter (I : Interp V) (S : Sched V) : Seqs → List (List V) → List (List V)
  | .nil, _ => []
  | .cons s r, shares => semSeq I S s [shares.headD []] ++ semScatter I S r shares.tail
end

/-! ## joins: what the kernel hands to `join.New`, and what `join.New` does with the directions -/

structure JoinArgs (V : Type) where
  left : List V
  right : List V
  lkey : Expr
  rkey : Expr
  ldir : Int
  rdir : Int

/-- `Builder.compile` for a `dag.Join`: for a `right` join the parents, the key expressions and
    the declared directions are swapped — each swap is read from the regenerated statement list of
    the `case "right":` clause (compiler/kernel/op.go). -/
def kernelJoinArgs (style : String) (L R : List V) (lk rk : Expr) (ld rd : Int) : JoinArgs V :=
  if style == "right" then
    let sw (s : String) : Bool := Zed.Generated.C07.rightJoinSwaps.contains s
    let parents := sw "leftParent, rightParent = rightParent, leftParent"
    let keys := sw "leftKey, rightKey = rightKey, leftKey"
    let dirs := sw "leftDir, rightDir = rightDir, leftDir"
    { left := if parents then R else L, right := if parents then L else R
      lkey := if keys then rk else lk, rkey := if keys then lk else rk
      ldir := if dirs then rd else ld, rdir := if dirs then ld else rd }
  else { left := L, right := R, lkey := lk, rkey := rk, ldir := ld, rdir := rd }

/-- the common order `join.New` picks: that of the left side if declared, else of the right. -/
def joinOrder (ld rd : Int) : Desc :=
  if ld ≠ 0 then decide (ld < 0) else if rd ≠ 0 then decide (rd < 0) else false

/-- `Direction.HasOrder`. -/
def hasOrder (d : Int) (o : Desc) : Bool := (decide (d > 0) && !o) || (decide (d < 0) && o)

/-- the comparator of the sort `join.New` inserts in front of a side. -/
def joinSortCmp (I : Interp V) (key : Expr) (o : Desc) : V → V → Ordering := sortCmp I [⟨key, o⟩] false false

/-- a side as the merge join reads it: sorted by the join unless declared in the common order. -/
def joinSide (I : Interp V) (key : Expr) (dir : Int) (o : Desc) (xs : List V) : List V :=
  if hasOrder dir o then xs else xs.mergeSort (leOf (joinSortCmp I key o))

/-- `join.New` followed by the merge join proper (`J`, a parameter: the merge of two sides that
    are sorted in order `o`). -/
def joinNew (I : Interp V) (J : Desc → List V → List V → List V) (a : JoinArgs V) : List V :=
  let o := joinOrder a.ldir a.rdir
  J o (joinSide I a.lkey a.ldir o a.left) (joinSide I a.rkey a.rdir o a.right)

def kernelJoin (I : Interp V) (J : Desc → List V → List V → List V) (style : String) (L R : List V)
    (lk rk : Expr) (ld rd : Int) : List V :=
  joinNew I J (kernelJoinArgs style L R lk rk ld rd)

/-- No predicate evaluates to an error value the applier would emit.  (With such values
    `where A | where B` and `where A and B` differ, and so do a filter operator and a filter
    pushed into the scanner — both are recorded defects of the current tree.) -/
def Total (I : Interp V) : Prop := ∀ e v w, evalB I e v = .err w → I.quiet w = true

/-- laws of a three-way comparator that make it a total preorder. -/
structure LawfulCmp (c : V → V → Ordering) : Prop where
  swap : ∀ a b, c b a = (c a b).swap
  trans : ∀ a b d, c a b ≠ .gt → c b d ≠ .gt → c a d ≠ .gt

def SortedBy (c : V → V → Ordering) (xs : List V) : Prop := xs.Pairwise (fun a b => c a b ≠ .gt)

end Zed.Opt
