import Zed.Model.VecExpr
/-! Agreement of the vector expression evaluators with the sequential semantics on null-free
    operands (C09). -/
namespace Zed.VExpr

/-- every column has the batch length. -/
def Batch.WF (b : Batch) : Prop := ∀ p ∈ b.cols, p.2.len = b.n

def Col.nullFree : Col → Bool
  | .int xs => xs.all Option.isSome
  | .str xs => xs.all Option.isSome
  | .bool xs => xs.all Option.isSome
  | .other _ => true

/-- every column the expression reads is null-free. -/
def NullFree (b : Batch) : Expr → Bool
  | .field name => match b.col name with | some c => c.nullFree | none => true
  | .litInt _ => true
  | .litStr _ => true
  | .arith _ x y => NullFree b x && NullFree b y
  | .cmp _ x y => NullFree b x && NullFree b y
  | .and x y => NullFree b x && NullFree b y
  | .or x y => NullFree b x && NullFree b y
  | .not x => NullFree b x

def XV.isVal : XV → Bool
  | .int _ _ _ => true
  | .str _ _ _ => true
  | .bool _ _ _ => true
  | _ => false

def XV.nulls : XV → List Bool
  | .int _ _ n => n
  | .str _ _ n => n
  | .bool _ _ n => n
  | _ => []

/-- what holds of a value vector computed from null-free operands. -/
structure Good (b : Batch) (e : Expr) (v : XV) : Prop where
  len : v.len = b.n
  nlen : v.nulls.length = b.n
  clear : ∀ k, v.nulls.getD k false = false
  atk : ∀ k, k < b.n → v.at k = evalS b k e

theorem getD_replicate_false (n k : Nat) : (List.replicate n false).getD k false = false := by
  simp only [List.getD_eq_getElem?_getD, List.getElem?_replicate]
  split <;> rfl

theorem Batch.col_mem {b : Batch} {name : Bytes} {c : Col} (h : b.col name = some c) :
    ∃ p ∈ b.cols, p.2 = c := by
  unfold Batch.col at h
  cases hf : b.cols.find? (·.1 == name) with
  | none => simp [hf] at h
  | some p =>
    simp only [hf, Option.map_some, Option.some.injEq] at h
    exact ⟨p, List.mem_of_find?_eq_some hf, h⟩

theorem allSame_spec {α : Type} [BEq α] [LawfulBEq α] (nn : List α) (h : allSame nn = true)
    (d : α) : ∀ x ∈ nn, x = nn.headD d := by
  cases nn with
  | nil => simp [allSame] at h
  | cons y ys =>
    intro x hx
    simp only [allSame, List.all_eq_true, beq_iff_eq] at h
    simp only [List.headD_cons]
    rcases List.mem_cons.mp hx with rfl | hx
    · rfl
    · exact h x hx

theorem all_isSome_getElem {α : Type} (xs : List (Option α)) (h : xs.all Option.isSome = true)
    (k : Nat) (hk : k < xs.length) : ∃ a, xs[k]? = some (some a) := by
  have := List.all_eq_true.mp h xs[k] (List.getElem_mem hk)
  cases hx : xs[k] with
  | none => rw [hx] at this; cases this
  | some a => exact ⟨a, by rw [List.getElem?_eq_getElem hk, hx]⟩

theorem isNone_of_all_isSome {α : Type} (xs : List (Option α)) (h : xs.all Option.isSome = true)
    (k : Nat) : (xs.map Option.isNone).getD k false = false := by
  simp only [List.getD_eq_getElem?_getD, List.getElem?_map]
  cases hx : xs[k]? with
  | none => rfl
  | some o =>
    have hm : o ∈ xs := List.mem_of_getElem? hx
    have := List.all_eq_true.mp h o hm
    cases o with
    | none => cases this
    | some a => rfl

theorem mem_filterMap_of_getElem {α : Type} (xs : List (Option α)) (k : Nat) (a : α)
    (h : xs[k]? = some (some a)) : a ∈ xs.filterMap id := by
  rw [List.mem_filterMap]
  exact ⟨some a, List.mem_of_getElem? h, rfl⟩

/-- a null-free column loads to a vector whose slots read the column's values, whatever
    encoding (plain / dictionary / const) the statistics selected. -/
theorem loadCol_good (b : Batch) (name : Bytes) (c : Col) (hc : b.col name = some c)
    (hwf : b.WF) (hnf : c.nullFree = true) (hv : (loadCol c).isVal = true) :
    Good b (.field name) (loadCol c) := by
  obtain ⟨p, hp, rfl⟩ := Batch.col_mem hc
  have hlen := hwf p hp
  cases hcol : p.2 with
  | other n => rw [hcol] at hv; simp [loadCol, XV.isVal] at hv
  | int xs =>
    rw [hcol] at hlen hnf
    simp only [Col.len] at hlen
    simp only [Col.nullFree] at hnf
    have hat : ∀ k, k < b.n → ∀ (form : Form) (vals : List Int), vals.length = xs.length →
        (∀ (k : Nat) (a : Int), xs[k]? = some (some a) → vals[k]? = some a) →
        (XV.int form vals (xs.map Option.isNone)).at k = evalS b k (.field name) := by
      intro k hk form vals hvl hvals
      obtain ⟨a, ha⟩ := all_isSome_getElem xs hnf k (by omega)
      simp only [XV.at, isNone_of_all_isSome xs hnf k, Bool.false_eq_true, if_false, hvals k a ha,
        Option.map_some, Option.getD_some, evalS, hc, hcol, Col.at, ha]
    simp only [loadCol]
    cases hf : formOf (xs.filterMap id) with
    | flat =>
      refine ⟨by simp [XV.len, hlen], by simp [XV.nulls, hlen], fun k => by simpa [XV.nulls] using isNone_of_all_isSome xs hnf k, ?_⟩
      intro k hk
      exact hat k hk _ _ (by simp) (fun k a h => by simp [List.getElem?_map, h])
    | dict =>
      refine ⟨by simp [XV.len, hlen], by simp [XV.nulls, hlen], fun k => by simpa [XV.nulls] using isNone_of_all_isSome xs hnf k, ?_⟩
      intro k hk
      exact hat k hk _ _ (by simp) (fun k a h => by simp [List.getElem?_map, h])
    | const =>
      have hsame : allSame (xs.filterMap id) = true := by
        unfold formOf at hf
        split at hf
        · cases hf
        · split at hf
          · assumption
          · split at hf
            · cases hf
            · split at hf <;> cases hf
      refine ⟨by simp [XV.len, hlen], by simp [XV.nulls, hlen], fun k => by simpa [XV.nulls] using isNone_of_all_isSome xs hnf k, ?_⟩
      intro k hk
      refine hat k hk _ _ (by simp) (fun k a h => ?_)
      have := allSame_spec _ hsame 0 a (mem_filterMap_of_getElem xs k a h)
      simp [List.getElem?_map, h, this]
  | str xs =>
    rw [hcol] at hlen hnf
    simp only [Col.len] at hlen
    simp only [Col.nullFree] at hnf
    have hat : ∀ k, k < b.n → ∀ (form : Form) (vals : List Bytes), vals.length = xs.length →
        (∀ (k : Nat) (a : Bytes), xs[k]? = some (some a) → vals[k]? = some a) →
        (XV.str form vals (xs.map Option.isNone)).at k = evalS b k (.field name) := by
      intro k hk form vals hvl hvals
      obtain ⟨a, ha⟩ := all_isSome_getElem xs hnf k (by omega)
      simp only [XV.at, isNone_of_all_isSome xs hnf k, Bool.false_eq_true, if_false, hvals k a ha,
        Option.map_some, Option.getD_some, evalS, hc, hcol, Col.at, ha]
    simp only [loadCol]
    cases hf : formOf (xs.filterMap id) with
    | flat =>
      refine ⟨by simp [XV.len, hlen], by simp [XV.nulls, hlen], fun k => by simpa [XV.nulls] using isNone_of_all_isSome xs hnf k, ?_⟩
      intro k hk
      exact hat k hk _ _ (by simp) (fun k a h => by simp [List.getElem?_map, h])
    | dict =>
      refine ⟨by simp [XV.len, hlen], by simp [XV.nulls, hlen], fun k => by simpa [XV.nulls] using isNone_of_all_isSome xs hnf k, ?_⟩
      intro k hk
      exact hat k hk _ _ (by simp) (fun k a h => by simp [List.getElem?_map, h])
    | const =>
      have hsame : allSame (xs.filterMap id) = true := by
        unfold formOf at hf
        split at hf
        · cases hf
        · split at hf
          · assumption
          · split at hf
            · cases hf
            · split at hf <;> cases hf
      refine ⟨by simp [XV.len, hlen], by simp [XV.nulls, hlen], fun k => by simpa [XV.nulls] using isNone_of_all_isSome xs hnf k, ?_⟩
      intro k hk
      refine hat k hk _ _ (by simp) (fun k a h => ?_)
      have := allSame_spec _ hsame [] a (mem_filterMap_of_getElem xs k a h)
      simp [List.getElem?_map, h, this]
  | bool xs =>
    rw [hcol] at hlen hnf
    simp only [Col.len] at hlen
    simp only [Col.nullFree] at hnf
    simp only [loadCol]
    refine ⟨by simp [XV.len, hlen], by simp [XV.nulls, hlen], fun k => by simpa [XV.nulls] using isNone_of_all_isSome xs hnf k, ?_⟩
    intro k hk
    obtain ⟨a, ha⟩ := all_isSome_getElem xs hnf k (by omega)
    simp only [XV.at, isNone_of_all_isSome xs hnf k, Bool.false_eq_true, if_false, List.getElem?_map, ha,
      Option.map_some, Option.getD_some, evalS, hc, hcol, Col.at]

end Zed.VExpr

namespace Zed.VExpr

theorem at_int (f : Form) (vals : List Int) (nulls : List Bool) (k : Nat)
    (hn : nulls.getD k false = false) (hk : k < vals.length) :
    (XV.int f vals nulls).at k = .int vals[k] := by
  have hn' : nulls[k]?.getD false = false := by simpa using hn
  simp [XV.at, hn', List.getElem?_eq_getElem hk]

theorem at_str (f : Form) (vals : List Bytes) (nulls : List Bool) (k : Nat)
    (hn : nulls.getD k false = false) (hk : k < vals.length) :
    (XV.str f vals nulls).at k = .str vals[k] := by
  have hn' : nulls[k]?.getD false = false := by simpa using hn
  simp [XV.at, hn', List.getElem?_eq_getElem hk]

theorem at_bool (f : Form) (vals : List Bool) (nulls : List Bool) (k : Nat)
    (hn : nulls.getD k false = false) (hk : k < vals.length) :
    (XV.bool f vals nulls).at k = .bool vals[k] := by
  have hn' : nulls[k]?.getD false = false := by simpa using hn
  simp [XV.at, hn', List.getElem?_eq_getElem hk]

theorem noNulls_getD (n k : Nat) : (noNulls n).getD k false = false := getD_replicate_false n k

theorem ok_bind {α β : Type} {x : Except String α} {f : α → Except String β} {v : β}
    (h : (x >>= f) = .ok v) : ∃ a, x = .ok a ∧ f a = .ok v := by
  cases x with
  | error e => simp [bind, Except.bind] at h
  | ok a => exact ⟨a, rfl, by simpa [bind, Except.bind] using h⟩

/-- `evalArith` on two good operands. -/
theorem evalArith_good (b : Batch) (op : ArOp) (x y : Expr) (l r v : XV)
    (hl : l.isVal = true → Good b x l) (hr : r.isVal = true → Good b y r)
    (h : evalArith op l r = .ok v) (hv : v.isVal = true) : Good b (.arith op x y) v := by
  cases l with
  | int f lv ln =>
    cases r with
    | int g rv rn =>
      have gl := hl rfl
      have gr := hr rfl
      have hll : lv.length = b.n := gl.len
      have hrl : rv.length = b.n := gr.len
      simp only [evalArith] at h
      split at h
      · cases h
      · rename_i hz
        cases h
        refine ⟨by simp [XV.len, hll, hrl], by simp [XV.nulls, noNulls, hll], fun k => by simpa [XV.nulls] using noNulls_getD _ k, ?_⟩
        intro k hk
        have e1 := gl.atk k hk
        have e2 := gr.atk k hk
        rw [at_int f lv ln k (gl.clear k) (by omega)] at e1
        rw [at_int g rv rn k (gr.clear k) (by omega)] at e2
        rw [at_int _ _ _ k (noNulls_getD _ k) (by simp [hll, hrl]; omega)]
        simp only [evalS, ← e1, ← e2, toIntS, List.getElem_zipWith]
        have hnz : ((op == .div || op == .mod) && rv[k]'(by omega) == 0) = false := by
          cases hop : (op == .div || op == .mod) with
          | false => simp
          | true =>
            simp only [hop, Bool.true_and, Bool.and_eq_true, decide_eq_true_eq, not_and] at hz
            cases hzz : (rv[k]'(by omega) == 0) with
            | false => simp
            | true =>
              exfalso
              have hany : rv.any (· == 0) = true := List.any_eq_true.mpr ⟨_, List.getElem_mem (by omega), hzz⟩
              exact hz hany (by omega)
        simp [hnz]
    | str _ _ _ => simp [evalArith, incompatible] at h; cases h; simp [XV.isVal] at hv
    | bool _ _ _ => simp [evalArith, incompatible] at h; cases h; simp [XV.isVal] at hv
    | err _ _ => simp [evalArith, incompatible] at h; cases h; simp [XV.isVal] at hv
    | other _ => simp [evalArith, incompatible] at h; cases h; simp [XV.isVal] at hv
  | str f lv ln =>
    cases r with
    | str g rv rn =>
      have gl := hl rfl
      have gr := hr rfl
      have hll : lv.length = b.n := gl.len
      have hrl : rv.length = b.n := gr.len
      simp only [evalArith] at h
      split at h
      · rename_i hadd
        cases h
        have hop : op = .add := by simpa using hadd
        subst hop
        refine ⟨by simp [XV.len, hll, hrl], by simp [XV.nulls, noNulls, hll], fun k => by simpa [XV.nulls] using noNulls_getD _ k, ?_⟩
        intro k hk
        have e1 := gl.atk k hk
        have e2 := gr.atk k hk
        rw [at_str f lv ln k (gl.clear k) (by omega)] at e1
        rw [at_str g rv rn k (gr.clear k) (by omega)] at e2
        rw [at_str _ _ _ k (noNulls_getD _ k) (by simp [hll, hrl]; omega)]
        simp [evalS, ← e1, ← e2, toIntS, toStrS, List.getElem_zipWith]
      · cases h; simp [incompatible, XV.isVal] at hv
    | int _ _ _ => simp [evalArith, incompatible] at h; cases h; simp [XV.isVal] at hv
    | bool _ _ _ => simp [evalArith, incompatible] at h; cases h; simp [XV.isVal] at hv
    | err _ _ => simp [evalArith, incompatible] at h; cases h; simp [XV.isVal] at hv
    | other _ => simp [evalArith, incompatible] at h; cases h; simp [XV.isVal] at hv
  | bool _ _ _ => simp [evalArith, incompatible] at h; cases h; simp [XV.isVal] at hv
  | err _ _ => simp [evalArith, incompatible] at h; cases h; simp [XV.isVal] at hv
  | other _ => simp [evalArith, incompatible] at h; cases h; simp [XV.isVal] at hv


/-- an expression that reads no field has the same value at compile time and on every row. -/
theorem evalS_closed (b : Batch) (k : Nat) : ∀ e : Expr, e.usesField = false →
    evalS b k e = evalS emptyBatch 0 e
  | .field _, h => by simp [Expr.usesField] at h
  | .litInt _, _ => by simp [evalS]
  | .litStr _, _ => by simp [evalS]
  | .arith op x y, h => by
    simp only [Expr.usesField, Bool.or_eq_false_iff] at h
    simp only [evalS, evalS_closed b k x h.1, evalS_closed b k y h.2]
  | .cmp op x y, h => by
    simp only [Expr.usesField, Bool.or_eq_false_iff] at h
    simp only [evalS, evalS_closed b k x h.1, evalS_closed b k y h.2]
  | .and x y, h => by
    simp only [Expr.usesField, Bool.or_eq_false_iff] at h
    simp only [evalS, evalS_closed b k x h.1, evalS_closed b k y h.2]
  | .or x y, h => by
    simp only [Expr.usesField, Bool.or_eq_false_iff] at h
    simp only [evalS, evalS_closed b k x h.1, evalS_closed b k y h.2]
  | .not x, h => by
    simp only [Expr.usesField] at h
    simp only [evalS, evalS_closed b k x h]

/-- `evalCmp` on two good operands. -/
theorem evalCmp_good (b : Batch) (op : CmpOp) (x y : Expr) (l r v : XV)
    (hl : l.isVal = true → Good b x l) (hr : r.isVal = true → Good b y r)
    (h : evalCmp op l r = .ok v) (hv : v.isVal = true) : Good b (.cmp op x y) v := by
  cases l with
  | int f lv ln =>
    cases r with
    | int g rv rn =>
      have gl := hl rfl
      have gr := hr rfl
      have hll : lv.length = b.n := gl.len
      have hrl : rv.length = b.n := gr.len
      simp only [evalCmp] at h
      cases h
      refine ⟨by simp [XV.len, hll, hrl], by simp [XV.nulls, noNulls, hll], fun k => by simpa [XV.nulls] using noNulls_getD _ k, ?_⟩
      intro k hk
      have e1 := gl.atk k hk
      have e2 := gr.atk k hk
      rw [at_int f lv ln k (gl.clear k) (by omega)] at e1
      rw [at_int g rv rn k (gr.clear k) (by omega)] at e2
      rw [at_bool _ _ _ k (noNulls_getD _ k) (by simp [hll, hrl]; omega)]
      cases huf : y.usesField with
      | true => simp [evalS, huf, ← e1, ← e2, SV.isNull, List.getElem_zipWith]
      | false =>
        have hc := evalS_closed b k y huf
        rw [← e2] at hc
        simp [evalS, huf, ← hc, ← e1, SV.isNull, List.getElem_zipWith]
    | str _ _ _ => simp [evalCmp, incompatible] at h; cases h; simp [XV.isVal] at hv
    | bool _ _ _ => simp [evalCmp, incompatible] at h; cases h; simp [XV.isVal] at hv
    | err _ _ => simp [evalCmp, incompatible] at h; cases h; simp [XV.isVal] at hv
    | other _ => simp [evalCmp, incompatible] at h; cases h; simp [XV.isVal] at hv
  | str f lv ln =>
    cases r with
    | str g rv rn =>
      have gl := hl rfl
      have gr := hr rfl
      have hll : lv.length = b.n := gl.len
      have hrl : rv.length = b.n := gr.len
      simp only [evalCmp] at h
      cases h
      refine ⟨by simp [XV.len, hll, hrl], by simp [XV.nulls, noNulls, hll], fun k => by simpa [XV.nulls] using noNulls_getD _ k, ?_⟩
      intro k hk
      have e1 := gl.atk k hk
      have e2 := gr.atk k hk
      rw [at_str f lv ln k (gl.clear k) (by omega)] at e1
      rw [at_str g rv rn k (gr.clear k) (by omega)] at e2
      rw [at_bool _ _ _ k (noNulls_getD _ k) (by simp [hll, hrl]; omega)]
      cases huf : y.usesField with
      | true => simp [evalS, huf, ← e1, ← e2, SV.isNull, List.getElem_zipWith]
      | false =>
        have hc := evalS_closed b k y huf
        rw [← e2] at hc
        simp [evalS, huf, ← hc, ← e1, SV.isNull, List.getElem_zipWith]
    | int _ _ _ => simp [evalCmp, incompatible] at h; cases h; simp [XV.isVal] at hv
    | bool _ _ _ => simp [evalCmp, incompatible] at h; cases h; simp [XV.isVal] at hv
    | err _ _ => simp [evalCmp, incompatible] at h; cases h; simp [XV.isVal] at hv
    | other _ => simp [evalCmp, incompatible] at h; cases h; simp [XV.isVal] at hv
  | bool _ _ _ => simp [evalCmp, incompatible] at h; cases h; simp [XV.isVal] at hv
  | err _ _ => simp [evalCmp, incompatible] at h; cases h; simp [XV.isVal] at hv
  | other _ => simp [evalCmp, incompatible] at h; cases h; simp [XV.isVal] at hv

theorem asBool_ok {n : Nat} {l : XV} {v nulls : List Bool} (h : asBool n l = .ok (v, nulls)) :
    l = .bool .flat v nulls := by
  unfold asBool at h
  split at h
  · cases h; rfl
  · cases h

theorem asBool_error {n : Nat} {l e : XV} (h : asBool n l = .error e) : e.isVal = false := by
  unfold asBool at h
  split at h
  · cases h
  · cases h; rfl

/-- **Agreement of the two expression evaluators.**  When every column the expression reads is
    null-free and the vector evaluator produces a value vector (not an error vector), the vector
    has the batch length, an all-clear null bitmap, and at every slot serialises to exactly the
    value the sequential evaluator computes for that row — for every vector form (flat, dict,
    const) the column statistics select. -/
theorem evalX_good (b : Batch) (hwf : b.WF) : ∀ (e : Expr) (v : XV), NullFree b e = true →
    evalX b e = .ok v → v.isVal = true → Good b e v
  | .field name, v, hnf, h, hv => by
    simp only [evalX] at h
    cases hc : b.col name with
    | none => simp [hc] at h; cases h; simp [XV.isVal] at hv
    | some c =>
      simp only [hc] at h
      cases h
      simp only [NullFree, hc] at hnf
      exact loadCol_good b name c hc hwf hnf hv
  | .litInt i, v, _, h, _ => by
    simp only [evalX] at h
    cases h
    refine ⟨by simp [XV.len], by simp [XV.nulls, noNulls], fun k => by simpa [XV.nulls] using noNulls_getD _ k, ?_⟩
    intro k hk
    rw [at_int _ _ _ k (noNulls_getD _ k) (by simpa using hk)]
    simp [evalS]
  | .litStr s, v, _, h, _ => by
    simp only [evalX] at h
    cases h
    refine ⟨by simp [XV.len], by simp [XV.nulls, noNulls], fun k => by simpa [XV.nulls] using noNulls_getD _ k, ?_⟩
    intro k hk
    rw [at_str _ _ _ k (noNulls_getD _ k) (by simpa using hk)]
    simp [evalS]
  | .arith op x y, v, hnf, h, hv => by
    simp only [NullFree, Bool.and_eq_true] at hnf
    simp only [evalX] at h
    obtain ⟨l, hl, h⟩ := ok_bind h
    obtain ⟨r, hr, h⟩ := ok_bind h
    exact evalArith_good b op x y l r v (evalX_good b hwf x l hnf.1 hl) (evalX_good b hwf y r hnf.2 hr) h hv
  | .cmp op x y, v, hnf, h, hv => by
    simp only [NullFree, Bool.and_eq_true] at hnf
    simp only [evalX] at h
    obtain ⟨l, hl, h⟩ := ok_bind h
    obtain ⟨r, hr, h⟩ := ok_bind h
    exact evalCmp_good b op x y l r v (evalX_good b hwf x l hnf.1 hl) (evalX_good b hwf y r hnf.2 hr) h hv
  | .and x y, v, hnf, h, hv => by
    simp only [NullFree, Bool.and_eq_true] at hnf
    simp only [evalX] at h
    obtain ⟨l, hl, h⟩ := ok_bind h
    cases hab : asBool b.n l with
    | error e => simp [hab, pure, Except.pure] at h; cases h; rw [asBool_error hab] at hv; cases hv
    | ok pr =>
      obtain ⟨lv, ln⟩ := pr
      simp only [hab] at h
      obtain ⟨r, hr, h⟩ := ok_bind h
      cases hab2 : asBool b.n r with
      | error e => simp [hab2, pure, Except.pure] at h; cases h; rw [asBool_error hab2] at hv; cases hv
      | ok pr2 =>
        obtain ⟨rv, rn⟩ := pr2
        simp only [hab2, pure, Except.pure, Except.ok.injEq] at h
        subst h
        have el := asBool_ok hab
        have er := asBool_ok hab2
        subst el er
        have gl := evalX_good b hwf x _ hnf.1 hl rfl
        have gr := evalX_good b hwf y _ hnf.2 hr rfl
        have hll : lv.length = b.n := gl.len
        have hrl : rv.length = b.n := gr.len
        refine ⟨by simp [XV.len, hll, hrl], gl.nlen, gl.clear, ?_⟩
        intro k hk
        have e1 := gl.atk k hk
        have e2 := gr.atk k hk
        rw [at_bool _ lv ln k (gl.clear k) (by omega)] at e1
        rw [at_bool _ rv rn k (gr.clear k) (by omega)] at e2
        have hcl : ln.getD k false = false := gl.clear k
        rw [at_bool _ _ ln k hcl (by simp [hll, hrl]; omega)]
        simp only [evalS, ← e1, ← e2, boolS, List.getElem_zipWith]
        cases lv[k]'(by omega) <;> simp
  | .or x y, v, hnf, h, hv => by
    simp only [NullFree, Bool.and_eq_true] at hnf
    simp only [evalX] at h
    obtain ⟨l, hl, h⟩ := ok_bind h
    cases hab : asBool b.n l with
    | error e => simp [hab, pure, Except.pure] at h; cases h; rw [asBool_error hab] at hv; cases hv
    | ok pr =>
      obtain ⟨lv, ln⟩ := pr
      simp only [hab] at h
      obtain ⟨r, hr, h⟩ := ok_bind h
      cases hab2 : asBool b.n r with
      | error e => simp [hab2, pure, Except.pure] at h; cases h; rw [asBool_error hab2] at hv; cases hv
      | ok pr2 =>
        obtain ⟨rv, rn⟩ := pr2
        simp only [hab2, pure, Except.pure, Except.ok.injEq] at h
        subst h
        have el := asBool_ok hab
        have er := asBool_ok hab2
        subst el er
        have gl := evalX_good b hwf x _ hnf.1 hl rfl
        have gr := evalX_good b hwf y _ hnf.2 hr rfl
        have hll : lv.length = b.n := gl.len
        have hrl : rv.length = b.n := gr.len
        refine ⟨by simp [XV.len, hll, hrl], gl.nlen, gl.clear, ?_⟩
        intro k hk
        have e1 := gl.atk k hk
        have e2 := gr.atk k hk
        rw [at_bool _ lv ln k (gl.clear k) (by omega)] at e1
        rw [at_bool _ rv rn k (gr.clear k) (by omega)] at e2
        have hcl : ln.getD k false = false := gl.clear k
        rw [at_bool _ _ ln k hcl (by simp [hll, hrl]; omega)]
        simp only [evalS, ← e1, ← e2, boolS, List.getElem_zipWith]
        cases lv[k]'(by omega) <;> simp
  | .not x, v, hnf, h, hv => by
    simp only [NullFree] at hnf
    simp only [evalX] at h
    obtain ⟨l, hl, h⟩ := ok_bind h
    cases hab : asBool b.n l with
    | error e => simp [hab, pure, Except.pure] at h; cases h; rw [asBool_error hab] at hv; cases hv
    | ok pr =>
      obtain ⟨lv, ln⟩ := pr
      simp only [hab, pure, Except.pure, Except.ok.injEq] at h
      subst h
      have el := asBool_ok hab
      subst el
      have gl := evalX_good b hwf x _ hnf hl rfl
      have hll : lv.length = b.n := gl.len
      refine ⟨by simp [XV.len, hll], gl.nlen, gl.clear, ?_⟩
      intro k hk
      have e1 := gl.atk k hk
      rw [at_bool _ lv ln k (gl.clear k) (by omega)] at e1
      have hcl : ln.getD k false = false := gl.clear k
      rw [at_bool _ _ ln k hcl (by simp [hll]; omega)]
      simp [evalS, ← e1, boolS]


/-! ### operators -/

def Op.plain : Op → Bool
  | .head _ => true
  | .tail _ => true
  | _ => false

/-- head and tail only move the view: whatever the state, the vector pipeline emits exactly the
    rows the sequential one does. -/
theorem runV_plain : ∀ (rest : List Op) (s : VState), rest.all Op.plain = true →
    runV rest s = .ok (runS s.batch rest s.slots)
  | [], s, _ => by simp [runV, runS]
  | .head n :: rest, s, h => by
    simp only [List.all_cons, Bool.and_eq_true] at h
    simp only [runV, runS]
    rw [runV_plain rest _ h.2]
    congr 2
    simp only [VState.slots]
    by_cases hn : n ≤ (s.view.getD (List.range s.batch.n)).length
    · simp [hn]
    · have : (s.view.getD (List.range s.batch.n)).length ≤ n := by omega
      simp only [hn, if_false]
      rw [List.take_of_length_le this]
  | .tail n :: rest, s, h => by
    simp only [List.all_cons, Bool.and_eq_true] at h
    simp only [runV, runS]
    rw [runV_plain rest _ h.2]
    congr 2
    simp only [VState.slots]
    by_cases hn : n < (s.view.getD (List.range s.batch.n)).length
    · simp [hn]
    · have : (s.view.getD (List.range s.batch.n)).length - n = 0 := by omega
      simp only [hn, if_false]
      rw [this, List.drop_zero]
  | .filter _ :: _, _, h => by simp [Op.plain] at h
  | .yieldE _ :: _, _, h => by simp [Op.plain] at h

theorem runS_nil (b : Batch) : ∀ (rest : List Op), runS b rest [] = []
  | [] => rfl
  | .head n :: rest => by simp [runS, runS_nil b rest]
  | .tail n :: rest => by simp [runS, runS_nil b rest]
  | .filter e :: rest => by simp [runS, runS_nil b rest]
  | .yieldE e :: _ => by simp [runS]

/-- `yield <expr>` straight after the scan. -/
theorem vyield_agree (b : Batch) (hwf : b.WF) (e : Expr) (v : XV) (rest : List Op)
    (hnf : NullFree b e = true) (h : evalX b e = .ok v) (hv : v.isVal = true) :
    runV (.yieldE e :: rest) { batch := b } = .ok (runS b (.yieldE e :: rest) (List.range b.n)) := by
  have g := evalX_good b hwf e v hnf h hv
  simp only [runV, runS, VState.slots, Option.getD_none, List.length_range, Option.isSome_none,
    Bool.false_eq_true, if_false, h]
  congr 1
  apply List.map_congr_left
  intro k hk
  rw [g.atk k (List.mem_range.mp hk)]

/-- the filter mask reads true exactly where the sequential predicate is `true`. -/
theorem mask_agree (b : Batch) (e : Expr) (v : XV) (g : Good b e v) (hv : v.isVal = true)
    (k : Nat) (hk : k < b.n) : maskAt v k = (evalS b k e == .bool true) := by
  have e1 := g.atk k hk
  have hl := g.len
  have hc := g.clear k
  cases v with
  | int f vals nulls =>
    simp only [XV.len] at hl
    rw [at_int f vals nulls k hc (by omega)] at e1
    simp [maskAt, ← e1]
  | str f vals nulls =>
    simp only [XV.len] at hl
    rw [at_str f vals nulls k hc (by omega)] at e1
    simp [maskAt, ← e1]
  | bool f vals nulls =>
    simp only [XV.len] at hl
    rw [at_bool f vals nulls k hc (by omega)] at e1
    have : vals.getD k false = vals[k]'(by omega) := by
      simp [List.getD_eq_getElem?_getD, List.getElem?_eq_getElem (show k < vals.length by omega)]
    rw [maskAt, this, ← e1]
    cases vals[k]'(by omega) <;> rfl
  | err _ _ => simp [XV.isVal] at hv
  | other _ => simp [XV.isVal] at hv

/-- `where <expr>` straight after the scan, followed by any heads and tails. -/
theorem vfilter_agree (b : Batch) (hwf : b.WF) (e : Expr) (v : XV) (rest : List Op)
    (hnf : NullFree b e = true) (h : evalX b e = .ok v) (hv : v.isVal = true)
    (hrest : rest.all Op.plain = true) :
    runV (.filter e :: rest) { batch := b } = .ok (runS b (.filter e :: rest) (List.range b.n)) := by
  have g := evalX_good b hwf e v hnf h hv
  have hf : (List.range b.n).filter (maskAt v) = (List.range b.n).filter (fun k => evalS b k e == .bool true) := by
    apply List.filter_congr
    intro k hk
    exact mask_agree b e v g hv k (List.mem_range.mp hk)
  simp only [runV, runS, VState.slots, Option.getD_none, List.length_range, Option.isSome_none,
    Bool.false_eq_true, if_false, h]
  rw [hf]
  split
  · rename_i h0
    rw [List.eq_nil_of_length_eq_zero h0, runS_nil]
  · split
    · rename_i hfull
      have hall : (List.range b.n).filter (fun k => evalS b k e == .bool true) = List.range b.n := by
        have hsub := List.filter_sublist (p := fun k => evalS b k e == .bool true) (l := List.range b.n)
        exact hsub.eq_of_length (by simpa using hfull)
      rw [hall]
      have := runV_plain rest { batch := b } hrest
      simpa [VState.slots] using this
    · have hid : ((List.range b.n).filter (fun k => evalS b k e == .bool true)).map (fun i => (List.range b.n).getD i 0)
          = (List.range b.n).filter (fun k => evalS b k e == .bool true) := by
        have : ∀ i ∈ (List.range b.n).filter (fun k => evalS b k e == .bool true), (fun i => (List.range b.n).getD i 0) i = id i := by
          intro i hi
          have hi' : i < b.n := List.mem_range.mp (List.mem_filter.mp hi).1
          simp [List.getD_eq_getElem?_getD, List.getElem?_range hi']
        rw [List.map_congr_left this, List.map_id]
      have := runV_plain rest { batch := b, view := some (((List.range b.n).filter (fun k => evalS b k e == .bool true)).map (fun i => (List.range b.n).getD i 0)) } hrest
      rw [this]
      simp only [VState.slots, Option.getD_some, hid]

end Zed.VExpr
