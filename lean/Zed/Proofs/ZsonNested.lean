import Zed.Proofs.ZsonStream
/-!
  C02 — named types *inside* values: records, arrays and sets whose fields / elements are of
  named types over plain types; first occurrences extend the formatter's typedefs and the
  analyzer's name table alike, later occurrences are written by bare name; carried over a whole
  value and over a stream.
-/
namespace Zed.Zson
open Generated

/-- the coupling invariant against a binding table `b` (one name, one type): whatever the
    formatter has bound is bound alike in `b` and in the analyzer's table. -/
def CoupledB (b : List (Name × Ty)) (fst : FState) (a : AState) : Prop :=
  ∀ n t, Bound fst n t → assoc n b = some t ∧ alookup n a.names = some t

/-- the whole-value form and the nested form of writing a value of a named type coincide. -/
theorem fmtTop_named_eq (fst : FState) (n : Name) (u : Ty) (v' : Val) (e : Bool)
    (hu : (e && u.under.isUnion) = false) :
    fmtTop fst (.named n u) (.named v') =
      ((fmtValue fst (.named n u) (.named v') false false true e).1,
        mkVal (fmtValue fst (.named n u) (.named v') false false true e).2.1
          (fmtValue fst (.named n u) (.named v') false false true e).2.2) := by
  unfold fmtTop
  simp only [implied, Val.isNull]
  simp only [fmtValue, hu, Bool.false_eq_true, if_false, Bool.false_or, finish, if_true]
  cases fst.hasName (.named n u) <;> rfl

/-- one value of a named type inside a value: both tables evolve alike. -/
theorem named_step (b : List (Name × Ty)) (fst : FState) (a : AState) (n : Name) (u : Ty) (v' : Val)
    (hinv : CoupledB b fst a) (hok : namedNodeOK b n u v' = true) :
    ∃ fst1 a1 x, (fmtTop fst (.named n u) (.named v')).1 = fst1 ∧
      convertValue a (fmtTop fst (.named n u) (.named v')).2 none = .ok (a1, (.named n u, x)) ∧
      wrapAll (.named n u) x = .named v' ∧ CoupledB b fst1 a1 := by
  simp only [namedNodeOK, namedTopGuard, Bool.and_eq_true, Bool.not_eq_true', Option.isNone_iff_eq_none,
    decide_eq_true_eq] at hok
  obtain ⟨⟨⟨⟨⟨⟨⟨⟨⟨⟨⟨hok', hp⟩, hw⟩, hv⟩, hnn⟩, hb⟩, hod⟩, hen⟩, herr⟩, hku⟩, _⟩, hbn⟩ := hok
  have raw : ∀ a1 (h : analyzeTop a (fmtTop fst (.named n u) (.named v')).2 = .ok (a1, (.named n u, .named v'))),
      ∃ x, convertValue a (fmtTop fst (.named n u) (.named v')).2 none = .ok (a1, (.named n u, x)) ∧
        wrapAll (.named n u) x = .named v' := by
    intro a1 h
    simp only [analyzeTop] at h
    cases hc : convertValue a (fmtTop fst (.named n u) (.named v')).2 none with
    | error e => simp [hc, Except.map] at h
    | ok r =>
      obtain ⟨s, t, x⟩ := r
      simp only [hc, Except.map, Except.ok.injEq, Prod.mk.injEq] at h
      obtain ⟨rfl, rfl, hx⟩ := h
      exact ⟨x, rfl, hx⟩
  by_cases hh : fst.hasName (.named n u) = true
  · obtain ⟨t', hb'⟩ := (hasName_iff_bound fst n u).mp hh
    have hbind : ∀ t'', Bound fst n t'' → t'' = .named n u := by
      intro t'' hb''
      have := (hinv n t'' hb'').1
      rw [hbn] at this; exact (Option.some.inj this).symm
    have hnne : n ≠ [] := by
      simp only [nameOK, Bool.and_eq_true, bne_iff_ne, ne_eq] at hok'
      exact hok'.1.1
    have hname : fst.nameOf (.named n u) = some n := by
      cases htd : assoc n fst.typedefs with
      | some t1 =>
        have := hbind t1 (Or.inl htd)
        subst this
        simp [FState.nameOf, hnne, htd]
      | none =>
        rcases hb' with h | ⟨p, hp', h⟩
        · rw [htd] at h; cases h
        · have := hbind t' (Or.inr ⟨p, hp', h⟩)
          subst this
          simp [FState.nameOf, hnne, htd, hp', h]
    have ha : alookup n a.names = some (.named n u) := by
      have := (hinv n t' hb').2
      rwa [hbind t' hb'] at this
    obtain ⟨h1, h2⟩ := named_later fst a n u v' hp hw hku hen hv hnn herr hname hh ha
    obtain ⟨x, hx1, hx2⟩ := raw a h2
    exact ⟨fst, a, x, h1, hx1, hx2, hinv⟩
  · have hh' : fst.hasName (.named n u) = false := by simpa using hh
    obtain ⟨h1, h2⟩ := named_top fst a n u v' hok' hp hw hv hnn hb hod hen herr hh'
    obtain ⟨x, hx1, hx2⟩ := raw _ h2
    refine ⟨fst.saveType n (.named n u), aPush a n (.named n u), x, h1, hx1, hx2, ?_⟩
    intro m t'' hb''
    by_cases hmn : n = m
    · subst hmn
      have : t'' = .named n u := by
        rcases hb'' with h | ⟨p, hp', h⟩
        · simpa [FState.saveType, assoc] using h.symm
        · have hno : ¬ ∃ t, Bound fst n t := fun hx => hh ((hasName_iff_bound fst n u).mpr hx)
          simp only [FState.saveType] at hp'
          cases hperm : fst.permanent with
          | none => simp [hperm] at hp'
          | some p0 =>
            simp only [hperm] at hp'
            by_cases hps : fst.persist n = true
            · simp only [hps, if_true, Option.some.injEq] at hp'
              subst hp'
              simpa [assoc] using h.symm
            · have hps' : fst.persist n = false := by simpa using hps
              simp only [hps', Bool.false_eq_true, if_false, Option.some.injEq] at hp'
              subst hp'
              exact absurd ⟨t'', Or.inr ⟨p0, hperm, h⟩⟩ hno
      subst this
      exact ⟨hbn, by simp [aPush, alookup]⟩
    · have hbold : Bound fst m t'' := by
        rcases hb'' with h | ⟨p, hp', h⟩
        · left; simpa [FState.saveType, assoc, hmn] using h
        · right
          simp only [FState.saveType] at hp'
          cases hperm : fst.permanent with
          | none => simp [hperm] at hp'
          | some p0 =>
            simp only [hperm] at hp'
            by_cases hps : fst.persist n = true
            · simp only [hps, if_true, Option.some.injEq] at hp'
              subst hp'
              exact ⟨p0, rfl, by simpa [assoc, hmn] using h⟩
            · have hps' : fst.persist n = false := by simpa using hps
              simp only [hps', Bool.false_eq_true, if_false, Option.some.injEq] at hp'
              subst hp'
              exact ⟨p0, rfl, h⟩
      obtain ⟨hx, hy⟩ := hinv m t'' hbold
      exact ⟨hx, by simp [aPush, alookup, hmn, hy]⟩


/-- a value with named types inside, written at a position where nothing encloses it
    (`parentKnown = false`, no enclosing decorator): both tables evolve alike, and the analysis
    returns the type and — up to the `named` wrappers `wrapAll` restores — the value. -/
def GoodS (b : List (Name × Ty)) (t : Ty) (v : Val) (e : Bool) : Prop :=
  ∀ (fst : FState) (a : AState), CoupledB b fst a → ∃ any ds fst1 a1 x,
    fmtValue fst t v false false true e = (fst1, any, ds) ∧ CoupledB b fst1 a1 ∧
    convertValue a (mkVal any ds) none = .ok (a1, (t, x)) ∧ wrapAll t x = v

def GoodSFields (b : List (Name × Ty)) (fs : Fields) (vs : Vals) : Prop :=
  ∀ (fst : FState) (a : AState), CoupledB b fst a → ∃ afs fst1 a1 xs,
    fmtFields fst fs vs false false = (fst1, afs) ∧ afs.names = fs.names ∧ CoupledB b fst1 a1 ∧
    convertFields a afs none = .ok (a1, xs) ∧ xs.map (·.1) = fieldTypes fs ∧
    wrapFields fs (Vals.ofList (xs.map (·.2))) = vs

def GoodSElems (b : List (Name × Ty)) (et : Ty) (vs : Vals) : Prop :=
  ∀ (fst : FState) (a : AState), CoupledB b fst a → ∃ asts fst1 a1 xs,
    fmtElems fst et vs false false = (fst1, asts) ∧ CoupledB b fst1 a1 ∧
    convertElems a asts none = .ok (a1, xs.map (fun x => (et, x))) ∧ xs.length = vs.length ∧
    (Vals.ofList xs).mapV (wrapAll et) = vs

theorem goodS_plain (b : List (Name × Ty)) (t : Ty) (v : Val) (e : Bool) (hp : plainTy t = true)
    (hw : wfTy t = true) (hv : wfVal t v = true) (he : errOK v = true) (hu : (e && t.isUnion) = false) :
    GoodS b t v e := by
  intro fst a hinv
  obtain ⟨any, ds, hf, _, hA, _⟩ := goodV_all v t e hp hw hv he false fst a
  refine ⟨any, ds, fst, a, strip v, hf, hinv, ?_, wrapAll_strip v t hv⟩
  rw [hA]; simp [expA, hu]

theorem goodS_named (b : List (Name × Ty)) (n : Name) (u : Ty) (v' : Val) (e : Bool)
    (hok : namedNodeOK b n u v' = true) : GoodS b (.named n u) (.named v') e := by
  intro fst a hinv
  have hnu : u.isUnion = false := by
    simp only [namedNodeOK, Bool.and_eq_true, Bool.not_eq_true'] at hok; exact hok.1.2
  have hpu : plainTy u = true := by
    simp only [namedNodeOK, namedTopGuard, Bool.and_eq_true] at hok; exact hok.1.1.1.1.1.1.1.1.1.1.2
  have hu : (e && u.under.isUnion) = false := by rw [under_plain u hpu, hnu]; simp
  obtain ⟨fst1, a1, x, h1, h2, h3, h4⟩ := named_step b fst a n u v' hinv hok
  rw [fmtTop_named_eq fst n u v' e hu] at h1 h2
  exact ⟨_, _, fst1, a1, x, Prod.ext h1 rfl, h4, h2, h3⟩

theorem goodSFields_nil (b : List (Name × Ty)) : GoodSFields b .nil .nil := by
  intro fst a hinv
  exact ⟨.nil, fst, a, [], by simp [fmtFields], rfl, hinv, by simp [convertFields], rfl, by simp [Vals.ofList, wrapFields]⟩

theorem goodSFields_cons (b : List (Name × Ty)) (n : Name) (t : Ty) (fr : Fields) (v : Val) (vr : Vals)
    (h1 : GoodS b t v false) (h2 : GoodSFields b fr vr) : GoodSFields b (.cons n t fr) (.cons v vr) := by
  intro fst a hinv
  obtain ⟨any, ds, fst1, a1, x, hf, hinv1, hA, hx⟩ := h1 fst a hinv
  obtain ⟨afs, fst2, a2, xs, hf2, hn, hinv2, hA2, ht2, hx2⟩ := h2 fst1 a1 hinv1
  refine ⟨.cons n (mkVal any ds) afs, fst2, a2, (t, x) :: xs, ?_, ?_, hinv2, ?_, ?_, ?_⟩
  · simp [fmtFields, hf, hf2]
  · simp [AVFields.names, Fields.names, hn]
  · simp [convertFields, hA, hA2, bind, Except.bind, pure, Except.pure]
  · simp [fieldTypes, ht2]
  · simp [Vals.ofList, wrapFields, hx, hx2]

theorem goodSElems_nil (b : List (Name × Ty)) (et : Ty) : GoodSElems b et .nil := by
  intro fst a hinv
  exact ⟨.nil, fst, a, [], by simp [fmtElems], hinv, by simp [convertElems], rfl, by simp [Vals.ofList, Vals.mapV]⟩

theorem goodSElems_cons (b : List (Name × Ty)) (et : Ty) (v : Val) (vr : Vals)
    (h1 : GoodS b et v true) (h2 : GoodSElems b et vr) : GoodSElems b et (.cons v vr) := by
  intro fst a hinv
  obtain ⟨any, ds, fst1, a1, x, hf, hinv1, hA, hx⟩ := h1 fst a hinv
  obtain ⟨asts, fst2, a2, xs, hf2, hinv2, hA2, hl2, hx2⟩ := h2 fst1 a1 hinv1
  refine ⟨.cons (mkVal any ds) asts, fst2, a2, x :: xs, ?_, hinv2, ?_, ?_, ?_⟩
  · simp [fmtElems, hf, hf2]
  · simp [convertElems, hA, hA2, bind, Except.bind, pure, Except.pure]
  · simp [Vals.length, hl2]
  · simp [Vals.ofList, Vals.mapV, hx, hx2]

theorem nameOf_record (st : FState) (fs : Fields) : st.nameOf (.record fs) = none := rfl
theorem hasName_record (st : FState) (fs : Fields) : st.hasName (.record fs) = false := rfl

theorem decorateM_selfdesc_nonnamed (st : FState) (t : Ty) (hn : t.isNamed = false)
    (hs : selfDescribing t = true) : decorateM st t false false = (st, []) := by
  unfold decorateM
  have hno : st.nameOf t = none := by cases t <;> simp_all [FState.nameOf, Ty.isNamed]
  by_cases hi : implied t = true
  · simp [hi]
  · simp only [Bool.false_or, Bool.false_and, Bool.not_false, Bool.true_and, hi, Bool.false_eq_true, if_false, hno, hs,
      Bool.and_self, if_true]
    cases t <;> simp_all [Ty.isNamed]

theorem mkFields_of_names (afs : AVFields) (fs : Fields) (h : afs.names = fs.names) :
    mkFields afs.names (fieldTypes fs) = fs := by rw [h]; exact mkFields_self fs

theorem goodS_record (b : List (Name × Ty)) (fs : Fields) (vs : Vals) (e : Bool) (hd : fs.hasDup = false)
    (hF : GoodSFields b fs vs) : GoodS b (.record fs) (.record vs) e := by
  intro fst a hinv
  obtain ⟨afs, fst1, a1, xs, hf, hn, hinv1, hA, ht, hx⟩ := hF fst a hinv
  have hfmt : fmtValue fst (.record fs) (.record vs) false false true e = (fst1, .record afs, []) := by
    simp [fmtValue, hasName_record, hf, finish,
      decorateM_selfdesc_nonnamed fst1 (.record fs) rfl (by simp [selfDescribing])]
  refine ⟨_, _, fst1, a1, .record (Vals.ofList (xs.map (·.2))), hfmt, hinv1, ?_, by simp [wrapAll, hx]⟩
  simp [convertValue, viaUnion, convertAny, hA, ht, mkFields_of_names afs fs hn, hd, bind, Except.bind, pure,
    Except.pure]

theorem needsDecoration_underNotUnion (et : Ty) (seen : List Ty) (h : et.under.isUnion = false) :
    needsDecoration et seen = false := by
  unfold needsDecoration
  cases hu : et.under <;> simp_all [unionLen, Ty.isUnion]

theorem fmtValue_elem_underNotUnion (fst : FState) (t : Ty) (v : Val) (pk pi d : Bool)
    (h1 : t.under.isUnion = false) : fmtValue fst t v pk pi d true = fmtValue fst t v pk pi d false := by
  cases v with
  | null => simp [fmtValue, h1]
  | named v' =>
    cases t with
    | named n u => simp only [Ty.under] at h1; simp [fmtValue, h1]
    | _ => simp [fmtValue]
  | union tag v' => cases t <;> simp_all [fmtValue, Ty.isUnion, Ty.under]
  | prim _ => simp [fmtValue]
  | typeval _ => simp [fmtValue]
  | record _ => simp [fmtValue]
  | array _ => simp [fmtValue]
  | set _ => simp [fmtValue]
  | map _ => simp [fmtValue]
  | enum _ => simp [fmtValue]
  | error _ => simp [fmtValue]

theorem norm_uniform (et : Ty) (xs : List Val) (hne : xs ≠ []) :
    normalizeElems (xs.map (fun x => (et, x))) = .ok (xs, et) := by
  have := norm_nonunion et xs id hne
  simpa using this

theorem goodS_array (b : List (Name × Ty)) (et : Ty) (x0 : Val) (r : Vals) (e : Bool)
    (hu : et.under.isUnion = false) (hE : GoodSElems b et (.cons x0 r)) :
    GoodS b (.array et) (.array (.cons x0 r)) e := by
  intro fst a hinv
  obtain ⟨asts, fst1, a1, xs, hf, hinv1, hA, hl, hx⟩ := hE fst a hinv
  have hne : xs ≠ [] := by intro h; subst h; simp [Vals.length] at hl
  have hfmt : fmtValue fst (.array et) (.array (.cons x0 r)) false false true e = (fst1, .array asts, []) := by
    simp [fmtValue, FState.hasName, hf, finish, needsDecoration_underNotUnion et _ hu,
      decorateM_selfdesc_nonnamed fst1 (.array et) rfl (by simp [selfDescribing])]
  refine ⟨_, _, fst1, a1, .array (Vals.ofList xs), hfmt, hinv1, ?_, by simp [wrapAll, hx]⟩
  have hemp : (xs.map (fun x => (et, x))).isEmpty = false := by cases xs <;> simp_all
  simp only [mkVal_nil, convertValue, viaUnion, convertAny, hA, bind, Except.bind, pure, Except.pure, hemp,
    norm_uniform et xs hne]
  simp

theorem goodS_set (b : List (Name × Ty)) (et : Ty) (x0 : Val) (r : Vals) (e : Bool)
    (hu : et.under.isUnion = false) (hE : GoodSElems b et (.cons x0 r)) :
    GoodS b (.set et) (.set (.cons x0 r)) e := by
  intro fst a hinv
  obtain ⟨asts, fst1, a1, xs, hf, hinv1, hA, hl, hx⟩ := hE fst a hinv
  have hne : xs ≠ [] := by intro h; subst h; simp [Vals.length] at hl
  have hfmt : fmtValue fst (.set et) (.set (.cons x0 r)) false false true e = (fst1, .set asts, []) := by
    simp [fmtValue, FState.hasName, hf, finish, needsDecoration_underNotUnion et _ hu,
      decorateM_selfdesc_nonnamed fst1 (.set et) rfl (by simp [selfDescribing])]
  refine ⟨_, _, fst1, a1, .set (Vals.ofList xs), hfmt, hinv1, ?_, by simp [wrapAll, hx]⟩
  have hemp : (xs.map (fun x => (et, x))).isEmpty = false := by cases xs <;> simp_all
  simp only [mkVal_nil, convertValue, viaUnion, convertAny, hA, bind, Except.bind, pure, Except.pure, hemp,
    norm_uniform et xs hne]
  simp


mutual
theorem implied_plain : (t : Ty) → implied t = true → plainTy t = true
  | .prim _, _ => rfl
  | .record fs, h => by simp only [implied] at h; simp [plainTy, impliedFields_plain fs h]
  | .array t, h => by simp only [implied] at h; simp [plainTy, implied_plain t h]
  | .set t, h => by simp only [implied] at h; simp [plainTy, implied_plain t h]
  | .map k v, h => by
    simp only [implied, Bool.and_eq_true] at h
    simp [plainTy, implied_plain k h.1, implied_plain v h.2]
  | .error t, h => by simp only [implied] at h; simp [plainTy, implied_plain t h]
  | .union _, h => by simp [implied] at h
  | .enum _, _ => rfl
  | .named _ _, h => by simp [implied] at h
theorem impliedFields_plain : (fs : Fields) → impliedFields fs = true → plainFields fs = true
  | .nil, _ => rfl
  | .cons _ t r, h => by
    simp only [impliedFields, Bool.and_eq_true] at h
    simp [plainFields, implied_plain t h.1, implied_notUnion t h.1, impliedFields_plain r h.2]
end

mutual
theorem goodS_all (b : List (Name × Ty)) : (v : Val) → ∀ (t : Ty) (e : Bool), spineOK b t v = true →
    (e && t.under.isUnion) = false → GoodS b t v e
  | .null, t, e, h, hu => by
    unfold spineOK at h
    by_cases hp : plainTy t = true
    · simp only [hp, if_true, Bool.and_eq_true] at h
      exact goodS_plain b t .null e hp h.1.1 h.1.2 h.2 (by rwa [under_plain t hp] at hu)
    · simp [hp] at h
  | .prim x, t, e, h, hu => by
    unfold spineOK at h
    by_cases hp : plainTy t = true
    · simp only [hp, if_true, Bool.and_eq_true] at h
      exact goodS_plain b t _ e hp h.1.1 h.1.2 h.2 (by rwa [under_plain t hp] at hu)
    · simp [hp] at h
  | .typeval x, t, e, h, hu => by
    unfold spineOK at h
    by_cases hp : plainTy t = true
    · simp only [hp, if_true, Bool.and_eq_true] at h
      exact goodS_plain b t _ e hp h.1.1 h.1.2 h.2 (by rwa [under_plain t hp] at hu)
    · simp [hp] at h
  | .enum x, t, e, h, hu => by
    unfold spineOK at h
    by_cases hp : plainTy t = true
    · simp only [hp, if_true, Bool.and_eq_true] at h
      exact goodS_plain b t _ e hp h.1.1 h.1.2 h.2 (by rwa [under_plain t hp] at hu)
    · simp [hp] at h
  | .map x, t, e, h, hu => by
    unfold spineOK at h
    by_cases hp : plainTy t = true
    · simp only [hp, if_true, Bool.and_eq_true] at h
      exact goodS_plain b t _ e hp h.1.1 h.1.2 h.2 (by rwa [under_plain t hp] at hu)
    · simp [hp] at h
  | .union k x, t, e, h, hu => by
    unfold spineOK at h
    by_cases hp : plainTy t = true
    · simp only [hp, if_true, Bool.and_eq_true] at h
      exact goodS_plain b t _ e hp h.1.1 h.1.2 h.2 (by rwa [under_plain t hp] at hu)
    · simp [hp] at h
  | .error x, t, e, h, hu => by
    unfold spineOK at h
    by_cases hp : plainTy t = true
    · simp only [hp, if_true, Bool.and_eq_true] at h
      exact goodS_plain b t _ e hp h.1.1 h.1.2 h.2 (by rwa [under_plain t hp] at hu)
    · simp [hp] at h
  | .named v', t, e, h, _ => by
    unfold spineOK at h
    by_cases hp : plainTy t = true
    · simp only [hp, if_true, Bool.and_eq_true] at h
      cases t <;> simp_all [wfVal, plainTy]
    · simp only [hp, Bool.false_eq_true, if_false] at h
      cases t with
      | named n u => exact goodS_named b n u v' e h
      | _ => simp at h
  | .record vs, t, e, h, hu => by
    unfold spineOK at h
    by_cases hp : plainTy t = true
    · simp only [hp, if_true, Bool.and_eq_true] at h
      exact goodS_plain b t _ e hp h.1.1 h.1.2 h.2 (by rwa [under_plain t hp] at hu)
    · simp only [hp, Bool.false_eq_true, if_false] at h
      cases t with
      | record fs =>
        simp only [Bool.and_eq_true, Bool.not_eq_true'] at h
        exact goodS_record b fs vs e h.2 (goodSFields_all b vs fs h.1)
      | _ => simp at h
  | .array vs, t, e, h, hu => by
    unfold spineOK at h
    by_cases hp : plainTy t = true
    · simp only [hp, if_true, Bool.and_eq_true] at h
      exact goodS_plain b t _ e hp h.1.1 h.1.2 h.2 (by rwa [under_plain t hp] at hu)
    · simp only [hp, Bool.false_eq_true, if_false] at h
      cases t with
      | array et =>
        cases vs with
        | nil => simp at h
        | cons x r =>
          simp only [Bool.and_eq_true, Bool.not_eq_true'] at h
          exact goodS_array b et x r e h.1 (goodSElems_all b (.cons x r) et h.2 h.1)
      | _ => cases vs <;> simp at h
  | .set vs, t, e, h, hu => by
    unfold spineOK at h
    by_cases hp : plainTy t = true
    · simp only [hp, if_true, Bool.and_eq_true] at h
      exact goodS_plain b t _ e hp h.1.1 h.1.2 h.2 (by rwa [under_plain t hp] at hu)
    · simp only [hp, Bool.false_eq_true, if_false] at h
      cases t with
      | set et =>
        cases vs with
        | nil => simp at h
        | cons x r =>
          simp only [Bool.and_eq_true, Bool.not_eq_true'] at h
          exact goodS_set b et x r e h.1 (goodSElems_all b (.cons x r) et h.2 h.1)
      | _ => cases vs <;> simp at h
theorem goodSFields_all (b : List (Name × Ty)) : (vs : Vals) → ∀ (fs : Fields), spineFields b fs vs = true →
    GoodSFields b fs vs
  | .nil, fs, h => by
    cases fs with
    | nil => exact goodSFields_nil b
    | cons _ _ _ => simp [spineFields] at h
  | .cons v vr, fs, h => by
    cases fs with
    | nil => simp [spineFields] at h
    | cons n t fr =>
      simp only [spineFields, Bool.and_eq_true, Bool.not_eq_true'] at h
      exact goodSFields_cons b n t fr v vr (goodS_all b v t false h.1.2 (by simp)) (goodSFields_all b vr fr h.2)
theorem goodSElems_all (b : List (Name × Ty)) : (vs : Vals) → ∀ (et : Ty), spineElems b et vs = true →
    et.under.isUnion = false → GoodSElems b et vs
  | .nil, et, _, _ => goodSElems_nil b et
  | .cons v vr, et, h, hu => by
    simp only [spineElems, Bool.and_eq_true] at h
    exact goodSElems_cons b et v vr (goodS_all b v et true h.1 (by simp [hu])) (goodSElems_all b vr et h.2 hu)
end


theorem fmtTop_eq_spine (fst : FState) (t : Ty) (v : Val)
    (hshape : match v, t with
      | .record _, .record _ => True
      | .array (.cons _ _), .array _ => True
      | .set (.cons _ _), .set _ => True
      | _, _ => False) :
    fmtTop fst t v =
      ((fmtValue fst t v false (implied t) true false).1,
       mkVal (fmtValue fst t v false (implied t) true false).2.1 (fmtValue fst t v false (implied t) true false).2.2) := by
  unfold fmtTop
  cases v with
  | record vs =>
    cases t <;> simp_all [fmtValue, finish, Val.isNull, FState.hasName]
  | array vs =>
    cases vs with
    | nil => cases t <;> simp_all
    | cons x r => cases t <;> simp_all [fmtValue, finish, Val.isNull, FState.hasName]
  | set vs =>
    cases vs with
    | nil => cases t <;> simp_all
    | cons x r => cases t <;> simp_all [fmtValue, finish, Val.isNull, FState.hasName]
  | _ => simp_all

/-- one value of a stream: a plain value, or a value with named types inside. -/
theorem spine_step (b : List (Name × Ty)) (fst : FState) (a : AState) (t : Ty) (v : Val)
    (hinv : CoupledB b fst a) (hok : spineOK b t v = true) (hb : bareEmpty v = false) :
    ∃ fst1 a1, (fmtTop fst t v).1 = fst1 ∧ analyzeTop a (fmtTop fst t v).2 = .ok (a1, (t, v)) ∧
      CoupledB b fst1 a1 := by
  by_cases hp : plainTy t = true
  · have h := hok
    unfold spineOK at h
    simp only [hp, if_true, Bool.and_eq_true] at h
    obtain ⟨h1, h2⟩ := roundtrip_plain fst a t v hp h.1.1 h.1.2 hb h.2
    exact ⟨fst, a, h1, h2, hinv⟩
  · have hni : implied t = false := by
      cases hi : implied t with
      | false => rfl
      | true => exact absurd (implied_plain t hi) hp
    have hnu : (false && t.under.isUnion) = false := by simp
    obtain ⟨any, ds, fst1, a1, x, hf, hinv1, hA, hx⟩ := goodS_all b v t false hok hnu fst a hinv
    have hfmt : fmtTop fst t v = (fst1, mkVal any ds) := by
      have h := hok
      unfold spineOK at h
      simp only [hp, Bool.false_eq_true, if_false] at h
      cases v with
      | named v' =>
        cases t with
        | named n u => rw [fmtTop_named_eq fst n u v' false (by simp), hf]
        | _ => simp at h
      | record vs =>
        cases t with
        | record fs => rw [fmtTop_eq_spine fst _ _ (by simp), hni, hf]
        | _ => simp at h
      | array vs =>
        cases t with
        | array et =>
          cases vs with
          | nil => simp at h
          | cons x0 r => rw [fmtTop_eq_spine fst _ _ (by simp), hni, hf]
        | _ => cases vs <;> simp at h
      | set vs =>
        cases t with
        | set et =>
          cases vs with
          | nil => simp at h
          | cons x0 r => rw [fmtTop_eq_spine fst _ _ (by simp), hni, hf]
        | _ => cases vs <;> simp at h
      | _ => simp at h
    rw [hfmt]
    exact ⟨fst1, a1, rfl, by simp [analyzeTop, hA, Except.map, hx], hinv1⟩

theorem stream_roundtrip_nested (reset : Bool) (b : List (Name × Ty)) :
    (items : List (Ty × Val)) → (∀ x ∈ items, itemOKB b x = true) →
    ∀ (fst : FState) (a : AState), CoupledB b fst a →
      analyzeStream a (fmtStream reset fst items) = .ok items
  | [], _, _, _, _ => rfl
  | (t, v) :: rest, hok, fst, a, hinv => by
    have hitem := hok (t, v) (by simp)
    simp only [itemOKB, Bool.and_eq_true, Bool.not_eq_true'] at hitem
    have hinv0 : CoupledB b (if reset then fst.resetTypedefs else fst) a := by
      cases reset
      · exact hinv
      · intro n t' hb'
        apply hinv n t'
        rcases hb' with h | h
        · simp [FState.resetTypedefs, assoc] at h
        · exact Or.inr h
    obtain ⟨fst1, a1, hf1, han, hinv1⟩ := spine_step b _ a t v hinv0 hitem.1 hitem.2
    have ih := stream_roundtrip_nested reset b rest (fun x hx => hok x (by simp [hx])) fst1 a1 hinv1
    simp only [fmtStream]
    rw [hf1]
    simp only [analyzeStream, han, ih]

theorem coupledB_init (b : List (Name × Ty)) (persist : Name → Bool) (perm : Bool) (a : AState) :
    CoupledB b { typedefs := [], permanent := if perm then some [] else none, persist := persist } a := by
  intro n t hb
  rcases hb with h | ⟨p, hp, h⟩
  · simp [assoc] at h
  · cases perm <;> simp at hp
    subst hp; simp [assoc] at h

end Zed.Zson
