package main

// Shared helpers for fact sets that read constant blocks and simple predicates
// (used by c05.go, c06.go).  Additive: nothing here is used by c16.go.

import (
	"fmt"
	"go/ast"
	"go/token"
	"strconv"
	"strings"
)

type constTable struct {
	vals  map[string]int64
	order []string // declaration order
}

// readConsts evaluates every top-level `const` declaration of f whose values are integer
// literals, iota, identifiers of earlier constants, or implicit repetition.  Anything else
// is skipped silently unless it is requested later (lookup then fails).
func readConsts(f *file, into *constTable) {
	if into.vals == nil {
		into.vals = map[string]int64{}
	}
	for _, d := range f.f.Decls {
		gd, ok := d.(*ast.GenDecl)
		if !ok || gd.Tok != token.CONST {
			continue
		}
		var lastExpr ast.Expr
		for i, s := range gd.Specs {
			vs := s.(*ast.ValueSpec)
			if len(vs.Names) != 1 {
				continue
			}
			var e ast.Expr
			if len(vs.Values) == 1 {
				e = vs.Values[0]
				lastExpr = e
			} else if len(vs.Values) == 0 {
				e = lastExpr
			}
			if e == nil {
				continue
			}
			v, ok := evalConst(e, int64(i), into)
			if !ok {
				lastExpr = nil
				continue
			}
			name := vs.Names[0].Name
			into.vals[name] = v
			into.order = append(into.order, name)
		}
	}
}

func evalConst(e ast.Expr, iota int64, t *constTable) (int64, bool) {
	switch e := e.(type) {
	case *ast.BasicLit:
		if e.Kind != token.INT {
			return 0, false
		}
		n, err := strconv.ParseInt(e.Value, 0, 64)
		return n, err == nil
	case *ast.Ident:
		if e.Name == "iota" {
			return iota, true
		}
		v, ok := t.vals[e.Name]
		return v, ok
	case *ast.ParenExpr:
		return evalConst(e.X, iota, t)
	}
	return 0, false
}

func (t *constTable) get(name string) (int64, error) {
	name = strings.TrimPrefix(name, "zed.")
	v, ok := t.vals[name]
	if !ok {
		return 0, fmt.Errorf("constant %s not found (or not an integer literal/iota/alias)", name)
	}
	return v, nil
}

// withPrefix returns the constants whose name starts with prefix, in declaration order.
func (t *constTable) withPrefix(prefix string) []string {
	var out []string
	for _, n := range t.order {
		if strings.HasPrefix(n, prefix) {
			out = append(out, n)
		}
	}
	return out
}

// boundsOf reads an expression of the form `id OP C` or `id OP C && id OP C` (OP one of
// <=, <, >=, >, ==, !=; C a known constant) into a list of (op, value).
func boundsOf(f *file, e ast.Expr, varName string, t *constTable) ([][2]string, error) {
	switch e := e.(type) {
	case *ast.ParenExpr:
		return boundsOf(f, e.X, varName, t)
	case *ast.BinaryExpr:
		if e.Op == token.LAND {
			l, err := boundsOf(f, e.X, varName, t)
			if err != nil {
				return nil, err
			}
			r, err := boundsOf(f, e.Y, varName, t)
			if err != nil {
				return nil, err
			}
			return append(l, r...), nil
		}
		switch e.Op {
		case token.LEQ, token.LSS, token.GEQ, token.GTR, token.EQL, token.NEQ:
		default:
			return nil, fmt.Errorf("%s: operator %s not recognised", f.pos(e), e.Op)
		}
		id, ok := identName(e.X)
		if !ok || id != varName {
			return nil, fmt.Errorf("%s: left operand is not `%s`", f.pos(e), varName)
		}
		var v int64
		if n, ok := intLit(e.Y); ok {
			v = n
		} else {
			cn, ok := selName(e.Y)
			if !ok {
				return nil, fmt.Errorf("%s: right operand is not a constant name", f.pos(e))
			}
			var err error
			v, err = t.get(cn)
			if err != nil {
				return nil, fmt.Errorf("%s: %v", f.pos(e), err)
			}
		}
		return [][2]string{{e.Op.String(), strconv.FormatInt(v, 10)}}, nil
	}
	return nil, fmt.Errorf("%s: expression not recognised: %s", f.pos(e), renderExpr(f, e))
}

func leanBounds(bs [][2]string) string {
	var parts []string
	for _, b := range bs {
		parts = append(parts, fmt.Sprintf("(%s, %s)", leanStr(b[0]), b[1]))
	}
	return "[" + strings.Join(parts, ", ") + "]"
}

// predicateFunc reads `func name(id int) bool { return <bounds on id> }`.
func predicateFunc(f *file, name string, t *constTable) ([][2]string, error) {
	fd, err := f.funcDecl("", name)
	if err != nil {
		return nil, err
	}
	if fd.Type.Params == nil || len(fd.Type.Params.List) != 1 || len(fd.Type.Params.List[0].Names) != 1 {
		return nil, fmt.Errorf("%s: %s: expected one parameter", f.pos(fd), name)
	}
	v := fd.Type.Params.List[0].Names[0].Name
	ret, ok := singleReturn(fd.Body.List)
	if !ok {
		return nil, fmt.Errorf("%s: %s: body is not a single return", f.pos(fd), name)
	}
	return boundsOf(f, ret, v, t)
}

// renderParams renders a parameter list as "a, b T; c U".
func renderParams(f *file, fl *ast.FieldList) string {
	var parts []string
	if fl != nil {
		for _, p := range fl.List {
			var ns []string
			for _, n := range p.Names {
				ns = append(ns, n.Name)
			}
			parts = append(parts, strings.Join(ns, ", ")+" "+renderExpr(f, p.Type))
		}
	}
	return strings.Join(parts, "; ")
}

// intReturn reads `return 1` / `return -1` / `return 0`.
func intReturn(stmts []ast.Stmt) (int64, bool) {
	e, ok := singleReturn(stmts)
	if !ok {
		return 0, false
	}
	if u, ok := e.(*ast.UnaryExpr); ok && u.Op == token.SUB {
		n, ok := intLit(u.X)
		return -n, ok
	}
	return intLit(e)
}
