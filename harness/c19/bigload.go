package main

// bigload: a request body larger than the client's 16 MiB replay buffer
// (api/client/request.go, recordReader) loaded directly and through the remote handle; the
// pool contents must agree (count, sum, min, max, and a multiset hash of all values).
// remote.Load streams through an io.Pipe, so the HTTP transport sees reads of irregular
// sizes and one of them straddles the limit.

import (
	"bytes"
	"context"
	"fmt"
	"hash/fnv"
	"io"

	zed "github.com/brimdata/super"
	lakeapi "github.com/brimdata/super/lake/api"
	"github.com/brimdata/super/zcode"
	"github.com/brimdata/super/zio"
	"github.com/brimdata/super/zio/anyio"

	. "verifharness/hlib"
)

// genReader yields n records {k:int64,s:string} without going through text.
type genReader struct {
	typ  zed.Type
	i, n int
	// body size as written by a ZNG writer is reported by the caller
	b   zcode.Builder
	val zed.Value
}

func newGenReader(zctx *zed.Context, n int) *genReader {
	typ := zctx.MustLookupTypeRecord([]zed.Field{zed.NewField("k", zed.TypeInt64), zed.NewField("s", zed.TypeString)})
	return &genReader{typ: typ, n: n}
}

func (g *genReader) Read() (*zed.Value, error) {
	if g.i >= g.n {
		return nil, nil
	}
	g.i++
	g.b.Reset()
	g.b.Append(zed.EncodeInt(int64(g.i)))
	// pseudo-random text: the ZNG writer compresses frames (LZ4) and the body must stay large
	var s [48]byte
	x := uint64(g.i)*0x9E3779B97F4A7C15 + 1
	for j := range s {
		x ^= x << 13
		x ^= x >> 7
		x ^= x << 17
		s[j] = "ABCDEFGHIJKLMNOPQRSTUVWXYZabcdefghijklmnopqrstuvwxyz0123456789+/"[x&63]
	}
	g.b.Append(s[:])
	g.val = zed.NewValue(g.typ, g.b.Bytes())
	return &g.val, nil
}

type poolDigest struct {
	Count int
	Stats string
	Hash  uint64
}

func digest(lk lakeapi.Interface, pool string) (d poolDigest, err error) {
	st, err := queryStrings(lk, nil, fmt.Sprintf("from %s | summarize count:=count(), sum:=sum(k), min:=min(k), max:=max(k), len:=sum(len(s))", pool))
	if err != nil {
		return d, err
	}
	d.Stats = fmt.Sprint(st)
	e, _ := Protect(func() error {
		ctx, cancel := ctxT()
		defer cancel()
		sc, err := lk.Query(ctx, nil, "from "+pool)
		if err != nil {
			return err
		}
		defer sc.Pull(true)
		for {
			b, err := sc.Pull(false)
			if err != nil {
				return err
			}
			if b == nil {
				return nil
			}
			for _, v := range b.Values() {
				h := fnv.New64a()
				h.Write(v.Bytes())
				d.Hash += h.Sum64() // commutative: a multiset hash
				d.Count++
			}
			b.Unref()
		}
	})
	return d, e
}

type bigCase struct {
	Records int    `json:"records"`
	Via     string `json:"via"`    // handle (remote.Load over io.Pipe) | conn (client.Connection.Load)
	Format  string `json:"format"` // conn only: content type
	Chunk   int    `json:"chunk"`  // conn only: bytes per Read of the body reader (0 = a bytes.Reader)
}

func runBigLoad(c *Ctx) {
	cases := []bigCase{{Records: 400000, Via: "handle"}}
	if c.Thorough() {
		cases = append(cases,
			bigCase{Records: 400000, Via: "conn", Format: "zng", Chunk: 191},
			bigCase{Records: 400000, Via: "conn", Format: "zng", Chunk: 65537},
			bigCase{Records: 300000, Via: "conn", Format: "zson", Chunk: 1021},
			bigCase{Records: 400000, Via: "conn", Format: "zng", Chunk: 0},
			bigCase{Records: 1000, Via: "handle"},
		)
	}
	for _, bc := range cases {
		runBigCase(c, bc)
	}
}

func runBigCase(c *Ctx, bc bigCase) {
	c.Eval(fmt.Sprintf("bigload|%+v", bc))
	fail := func(kind, key, what string) { c.Fail(kind, key, fmt.Sprintf("bigload %+v: %s", bc, what), bc) }
	loc, err := newLocal()
	if err != nil {
		panic(err)
	}
	defer loc.close()
	rem, err := newRemote()
	if err != nil {
		panic(err)
	}
	defer rem.close()
	for _, s := range []*side{loc, rem} {
		if r := s.exec(Op{Kind: "createPool", Pool: "big", Key: "k"}); r.Class != "ok" {
			fail("oracle", "C19:bigload:setup", s.name+": "+r.Err)
			return
		}
	}
	load := func(s *side) error {
		e, _ := Protect(func() error {
			ctx, cancel := ctxT()
			defer cancel()
			id, err := s.poolID("big")
			if err != nil {
				return err
			}
			zctx := zed.NewContext()
			if !s.remote() || bc.Via == "handle" {
				_, err = s.lk.Load(ctx, zctx, id, "main", newGenReader(zctx, bc.Records), msg)
				return err
			}
			var buf bytes.Buffer
			w, err := anyio.NewWriter(zio.NopCloser(&buf), anyio.WriterOpts{Format: bc.Format})
			if err != nil {
				return err
			}
			if err := zio.Copy(w, newGenReader(zctx, bc.Records)); err != nil {
				return err
			}
			if err := w.Close(); err != nil {
				return err
			}
			c.Stat(fmt.Sprintf("bigload:body-MiB:%d", buf.Len()>>20))
			var rd io.Reader = bytes.NewReader(buf.Bytes())
			if bc.Chunk > 0 {
				rd = &slowReader{r: rd, n: bc.Chunk}
			}
			_, err = s.conn.Load(context.Background(), id, "main", mediaType(bc.Format), rd, msg)
			return err
		})
		return e
	}
	if err := load(loc); err != nil {
		fail("oracle", "C19:bigload:setup", "direct load: "+err.Error())
		return
	}
	if err := load(rem); err != nil {
		fail("oracle", "C19:error-presence:bigload:local=ok:remote="+classify(err), "the load through the service fails: "+clip(err.Error()))
		return
	}
	dl, err := digest(loc.lk, "big")
	if err != nil {
		fail("oracle", "C19:bigload:setup", "direct digest: "+err.Error())
		return
	}
	dr, err := digest(rem.lk, "big")
	if err != nil {
		fail("oracle", "C19:bigload:digest", "digest through the service: "+err.Error())
		return
	}
	c.Stat(fmt.Sprintf("bigload:%s:%s", bc.Via, orAuto(bc.Format)))
	if dl.Count != bc.Records {
		fail("oracle", "C19:bigload:setup", fmt.Sprintf("direct access holds %d of %d records", dl.Count, bc.Records))
		return
	}
	if dl != dr {
		fail("oracle", "C19:state:bigload:"+bc.Via, fmt.Sprintf("after loading %d records (a body beyond the client's replay buffer): direct access %d values %s hash %x; through the service %d values %s hash %x",
			bc.Records, dl.Count, dl.Stats, dl.Hash, dr.Count, dr.Stats, dr.Hash))
	}
}
