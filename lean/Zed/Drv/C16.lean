import Zed.Model.Sexp
import Zed.Model.Pruner
/-! Driver glue for C16: `(C16 build <pred>)` → the model's pruner expression. -/
namespace Zed.Drv.C16
open Zed Zed.Pruner

partial def predOf : Sexp → Option (Pred String)
  | .list [.atom "cmp", .atom op, .atom kl, .atom lit] => do
    let op ← CmpOp.ofStr op
    pure (.cmp op (kl == "1") lit)
  | .list [.atom "and", a, b] => do pure (.and (← predOf a) (← predOf b))
  | .list [.atom "or", a, b] => do pure (.or (← predOf a) (← predOf b))
  | .list [.atom "not", a] => do pure (.not (← predOf a))
  | .list [.atom "other", .atom n] => do pure (.other (← n.toNat?))
  | _ => none

def argStr : Arg String → Sexp
  | .lit l => .list [.atom "lit", .atom l]
  | .min => .atom "min"
  | .max => .atom "max"

def pexprStr : PExpr String → Sexp
  | .cmp op a b => .list [.atom "cmp", .atom op.toStr, argStr a, argStr b]
  | .or a b => .list [.atom "or", pexprStr a, pexprStr b]
  | .and a b => .list [.atom "and", pexprStr a, pexprStr b]

def handle : List Sexp → String
  | [.atom "build", p] =>
    match predOf p with
    | none => "bad-op"
    | some p => match build p with
      | none => "none"
      | some e => toString (pexprStr e)
  | _ => "bad-op"

end Zed.Drv.C16
