import Zed.Generated.C02
/-!
  C02 — the character layer of ZSON, for names and strings only
  (`zson/escape.go`: `QuotedString`, `QuotedName`, `QuotedTypeName`;
   `zson/name.go`: `IsIdentifier`, `IsTypeName`;
   `zson/lexer.go`: `scanString`, `scanToCloseQuote`, `parseStringBytes`, `scanTypeName`,
   `scanIdentifier`; `zson/parser-types.go`: `matchIdentifier`, `matchTypeName`'s keyword
   dispatch; `zson/parser-values.go`: `matchSymbol`, `matchEnum`).

  Text is a list of code points (`Nat`); UTF-8 encoding/decoding of *valid* text is the
  identity at this level (`utf8.DecodeRune` followed by `WriteRune`) and is a parameter of the
  model (the driver converts through Lean's `String`).  `unicode.IsLetter` above ASCII is a
  parameter too: `L` lists the non-ASCII code points that are letters.
-/
namespace Zed.Zson.Quote
open Generated

abbrev Rune := Nat
abbrev Text := List Rune

def cQuote : Rune := 34       -- "
def cBackslash : Rune := 92   -- \
def cSlash : Rune := 47       -- /
def cApos : Rune := 39        -- '
def cNewline : Rune := 10
def cU : Rune := 117          -- u

def hexDigit (n : Nat) : Rune := if n < 10 then 48 + n else 87 + n

/-- `safeSet[c]` for ASCII, over the regenerated table. -/
def safeAscii (c : Rune) : Bool := !C02.unsafeAscii.contains c

def shortEscape (c : Rune) : Option Rune :=
  (C02.shortEscapes.find? (fun p => p.1 == c)).map (·.2)

/-- one character of `QuotedString`'s loop. -/
def escapeChar (c : Rune) : Text :=
  if c < 128 then
    if safeAscii c then [c]
    else match shortEscape c with
      | some e => [cBackslash, e]
      | none => [cBackslash, cU, 48, 48, hexDigit (c / 16), hexDigit (c % 16)]
  else [c]

def escape : Text → Text
  | [] => []
  | c :: r => escapeChar c ++ escape r

/-- `QuotedString`. -/
def quotedString (s : Text) : Text := cQuote :: (escape s ++ [cQuote])

/-! ### identifiers and type names -/

def asciiLetter (c : Rune) : Bool := (65 ≤ c && c ≤ 90) || (97 ≤ c && c ≤ 122)
def isLetter (L : List Rune) (c : Rune) : Bool := if c < 128 then asciiLetter c else L.contains c
def isDigit (c : Rune) : Bool := 48 ≤ c && c ≤ 57
def idChar (L : List Rune) (c : Rune) : Bool := isLetter L c || c == 95 || c == 36
def typeChar (L : List Rune) (c : Rune) : Bool := idChar L c || isDigit c || c == 46

/-- `IsIdentifier`. -/
def isIdentifier (L : List Rune) : Text → Bool
  | [] => false
  | c :: r => idChar L c && r.all (fun x => idChar L x || isDigit x)

/-- `IsTypeName` (true on the empty string). -/
def isTypeName (L : List Rune) : Text → Bool
  | [] => true
  | c :: r => typeChar L c && !isDigit c && r.all (typeChar L)

def quotedName (L : List Rune) (s : Text) : Text := if isIdentifier L s then s else quotedString s
def quotedTypeName (L : List Rune) (s : Text) : Text := if isTypeName L s then s else quotedString s

/-! ### the lexer's string scanner -/

def unhex (c : Rune) : Option Nat :=
  if 48 ≤ c ∧ c ≤ 57 then some (c - 48)
  else if 97 ≤ c ∧ c ≤ 102 then some (c - 87)
  else if 65 ≤ c ∧ c ≤ 70 then some (c - 55)
  else none

/-- `unhexRune`. -/
def unhex4 (a b c d : Rune) : Option Nat := do
  let x ← unhex a; let y ← unhex b; let z ← unhex c; let w ← unhex d
  pure (x * 4096 + y * 256 + z * 16 + w)

def isSurrogate (r : Nat) : Bool := 0xd800 ≤ r && r < 0xe000

/-- `utf16.DecodeRune`; `none` = U+FFFD. -/
def decodeSurrogates (r1 r2 : Nat) : Option Nat :=
  if 0xd800 ≤ r1 ∧ r1 < 0xdc00 ∧ 0xdc00 ≤ r2 ∧ r2 < 0xe000 then
    some ((r1 - 0xd800) * 1024 + (r2 - 0xdc00) + 0x10000)
  else none

/-- `scanToCloseQuote`: the text up to (not including) the first unescaped quote, and the
    rest starting at that quote. -/
def scanToClose : Text → Option (Text × Text)
  | [] => none
  | c :: r =>
    if c = cQuote then some ([], c :: r)
    else if c = cBackslash then
      match r with
      | [] => none
      | d :: r2 => (scanToClose r2).map fun (b, rest) => (c :: d :: b, rest)
    else (scanToClose r).map fun (b, rest) => (c :: b, rest)

def simpleEscape (c : Rune) : Option Rune :=
  if c = 98 then some 8 else if c = 102 then some 12 else if c = 110 then some 10
  else if c = 114 then some 13 else if c = 116 then some 9 else none

/-- `parseStringBytes(b, bytes)`: `whole` is the complete slice (the surrogate check looks at
    its first two characters, whatever the current position is). -/
def parseSlow (whole : Text) (acc : Text) : Text → Option Text
  | [] => some acc
  | c :: r =>
    if c = cBackslash then
      match r with
      | [] => none
      | d :: r2 =>
        if d = cQuote ∨ d = cBackslash ∨ d = cSlash ∨ d = cApos then parseSlow whole (acc ++ [d]) r2
        else if d = cU then
          match r2 with
          | a :: b :: c2 :: d2 :: r3 =>
            match unhex4 a b c2 d2 with
            | none => none
            | some u =>
              if isSurrogate u then
                if whole.length < 6 ∨ whole.head? ≠ some cBackslash ∨ whole.tail.head? ≠ some cU then none
                else match r3 with
                  | _ :: _ :: e :: f :: g :: h :: r4 =>
                    match unhex4 e f g h with
                    | none => none
                    | some u2 =>
                      match decodeSurrogates u u2 with
                      | some x => parseSlow whole (acc ++ [x]) r4
                      | none => parseSlow whole acc r4
                  | _ => none
              else parseSlow whole (acc ++ [u]) r3
          | _ => none
        else match simpleEscape d with
          | some e => parseSlow whole (acc ++ [e]) r2
          | none => none
    else if c = cQuote then none
    else if c < 32 then none
    else parseSlow whole (acc ++ [c]) r

/-- `Lexer.scanString` (the opening quote is consumed already); returns the string and the
    rest *after* the closing quote. -/
def scanString (acc : Text) : Text → Option (Text × Text)
  | [] => none
  | c :: r =>
    if c = cQuote then some (acc, r)
    else if c ≥ 128 then
      match scanToClose (c :: r) with
      | some (body, _ :: rest) => (parseSlow body acc body).map (·, rest)
      | _ => none
    else if c = cNewline then none
    else if c = cBackslash then
      match r with
      | [] => none
      | d :: r2 =>
        if d = cU then
          match scanToClose r2 with
          | some (body, _ :: rest) =>
            (parseSlow (cBackslash :: cU :: body) acc (cBackslash :: cU :: body)).map (·, rest)
          | _ => none
        else if d = cQuote ∨ d = cBackslash ∨ d = cSlash then scanString (acc ++ [d]) r2
        else match simpleEscape d with
          | some e => scanString (acc ++ [e]) r2
          | none => none
    else scanString (acc ++ [c]) r

/-- a quoted string token. -/
def unquoteString : Text → Option (Text × Text)
  | c :: r => if c = cQuote then scanString [] r else none
  | [] => none

/-- `scanTypeName`'s unquoted branch: the longest prefix of type characters. -/
def spanType (L : List Rune) : Text → Text × Text
  | [] => ([], [])
  | c :: r => if typeChar L c then let (a, b) := spanType L r; (c :: a, b) else ([], c :: r)

def ascii (s : String) : Text := s.toList.map Char.toNat

def isPrimitiveName (s : Text) : Bool := C02.lookupPrimitive.any (fun p => ascii p.1 == s)

/-- where a name is written, and by which rule. -/
inductive Kind where
  | string      -- a string value: `QuotedString` / `matchString`
  | name        -- a field name, an enum symbol inside a type: `QuotedName` / `matchSymbol`
  | tname       -- a type name in a decorator or type value: `QuotedTypeName` / `matchTypeName`
  | tnameRaw    -- a type name written by `Formatter.formatType`: not quoted at all
  | enumval     -- the symbol of an enum value `%sym`: not quoted at all / `matchIdentifier`
  deriving DecidableEq, Repr

def quote (L : List Rune) : Kind → Text → Text
  | .string, s => quotedString s
  | .name, s => quotedName L s
  | .tname, s => quotedTypeName L s
  | .tnameRaw, s => s
  | .enumval, s => s

/-- `matchSymbol`. -/
def unquoteName (L : List Rune) (t : Text) : Option (Text × Text) :=
  match t with
  | [] => none
  | c :: _ =>
    if c = cQuote then unquoteString t
    else if idChar L c then
      let (a, b) := spanType L t
      if isIdentifier L a then some (a, b) else none
    else none

/-- `matchTypeName` as far as it yields a *name* (`TypeName` / `TypeDef`): the scanned name
    must not be `error`, `enum` or a primitive type name. -/
def unquoteTName (L : List Rune) (t : Text) : Option (Text × Text) :=
  match t with
  | [] => none
  | c :: _ =>
    let r :=
      if c = cQuote then unquoteString t
      else if idChar L c ∨ isDigit c then some (spanType L t)
      else none
    match r with
    | some (a, b) =>
      if a = ascii "error" ∨ a = ascii "enum" ∨ isPrimitiveName a then none else some (a, b)
    | none => none

/-- `matchEnum` after the `%`. -/
def unquoteEnumVal (L : List Rune) (t : Text) : Option (Text × Text) :=
  match t with
  | [] => none
  | c :: _ =>
    if idChar L c then
      let (a, b) := spanType L t
      if isIdentifier L a then some (a, b) else none
    else none

def unquote (L : List Rune) : Kind → Text → Option (Text × Text)
  | .string, t => unquoteString t
  | .name, t => unquoteName L t
  | .tname, t => unquoteTName L t
  | .tnameRaw, t => unquoteTName L t
  | .enumval, t => unquoteEnumVal L t

end Zed.Zson.Quote
