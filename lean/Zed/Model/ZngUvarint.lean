/-!
  L0 — unsigned varints as `encoding/binary` reads and writes them, and Go's `int(uint64)`
  conversion.  Anchors: `binary.AppendUvarint`, `binary.ReadUvarint`, `binary.Uvarint`,
  `zio/zngio/reader.go readUvarintAsInt`.

  Bytes are `List UInt8`.  `readUvarint` is total: it consumes at most 10 bytes
  (`MaxVarintLen64`) and reports the three ways the Go function fails.
-/
namespace Zed.Zng

abbrev Bytes := List UInt8

/-- `binary.AppendUvarint(nil, n)` (for `n < 2^64`; the definition itself is unbounded). -/
def uvarint (n : Nat) : Bytes :=
  if n < 128 then [UInt8.ofNat n] else UInt8.ofNat (n % 128 + 128) :: uvarint (n / 128)
decreasing_by omega

inductive UvErr where
  | eof            -- io.EOF: no byte at all
  | unexpectedEof  -- io.ErrUnexpectedEOF: input ends inside the varint
  | overflow       -- more than 64 bits
  deriving DecidableEq, Repr

/-- `binary.ReadUvarint` with `k` bytes still allowed (10 at the start).  `first` tells
    whether no byte has been consumed yet (io.EOF vs io.ErrUnexpectedEOF). -/
def readUvarintAux : Nat → Bool → Bytes → Except UvErr (Nat × Bytes)
  | 0, _, _ => .error .overflow
  | _ + 1, first, [] => .error (if first then .eof else .unexpectedEof)
  | k + 1, _, b :: bs =>
    if b.toNat < 128 then
      if k = 0 ∧ b.toNat > 1 then .error .overflow else .ok (b.toNat, bs)
    else
      match readUvarintAux k false bs with
      | .ok (v, r) => .ok (b.toNat - 128 + 128 * v, r)
      | .error e => .error e

/-- `binary.ReadUvarint(r)`: the decoded `uint64` and the unread rest. -/
def readUvarint (bs : Bytes) : Except UvErr (Nat × Bytes) := readUvarintAux 10 true bs

/-! Progress: a successful read consumes at least one byte.  Stated here (not in `Proofs/`)
    because the decoders' termination proofs need it. -/
theorem readUvarintAux_progress : ∀ (k : Nat) (f : Bool) (bs : Bytes) (v : Nat) (r : Bytes),
    readUvarintAux k f bs = .ok (v, r) → r.length < bs.length := by
  intro k
  induction k with
  | zero => intro f bs v r h; simp [readUvarintAux] at h
  | succ k ih =>
    intro f bs v r h
    cases bs with
    | nil => simp [readUvarintAux] at h
    | cons b bs =>
      simp only [readUvarintAux] at h
      split at h
      · split at h
        · cases h
        · cases h; simp
      · split at h
        · rename_i v' r' heq
          have := ih false bs v' r' heq
          cases h
          simp; omega
        · cases h

theorem readUvarint_progress (bs : Bytes) (v : Nat) (r : Bytes)
    (h : readUvarint bs = .ok (v, r)) : r.length < bs.length :=
  readUvarintAux_progress 10 true bs v r h

def two63 : Nat := 9223372036854775808
def two64 : Nat := 18446744073709551616

/-- Go's `int(u)` for `u : uint64` on a 64-bit platform (two's complement). -/
def asInt (u : Nat) : Int := if u % two64 < two63 then Int.ofNat (u % two64) else Int.ofNat (u % two64) - Int.ofNat two64

/-- Go's `uint64(i)` for `i : int`. -/
def asU64 (i : Int) : Nat := (i % (Int.ofNat two64)).toNat

/-- 64-bit wrap-around of an integer result (`int` arithmetic in Go never traps). -/
def wrapInt (i : Int) : Int := asInt (asU64 i)

/-- `readUvarintAsInt`. -/
def readUvarintAsInt (bs : Bytes) : Except UvErr (Int × Bytes) :=
  match readUvarint bs with
  | .ok (u, r) => .ok (asInt u, r)
  | .error e => .error e

theorem readUvarintAsInt_progress (bs : Bytes) (v : Int) (r : Bytes)
    (h : readUvarintAsInt bs = .ok (v, r)) : r.length < bs.length := by
  unfold readUvarintAsInt at h
  split at h
  · rename_i u r' heq
    cases h
    exact readUvarint_progress bs u _ heq
  · cases h

/-- `n ≤ l.length`, computed in `O(n)` (the remaining input can be long). -/
def hasLen : List α → Nat → Bool
  | _, 0 => true
  | [], _ + 1 => false
  | _ :: l, n + 1 => hasLen l n

theorem hasLen_iff : ∀ (l : List α) (n : Nat), hasLen l n = true ↔ n ≤ l.length := by
  intro l
  induction l with
  | nil => intro n; cases n <;> simp [hasLen]
  | cons a l ih => intro n; cases n <;> simp [hasLen, ih]

end Zed.Zng
