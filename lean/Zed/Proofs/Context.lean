import Zed.Proofs.DecodeInv
namespace Zed
open Zcode List Generated.C05
namespace Ctx

theorem Rel_nil (cd : List (Name × Ty)) : Rel [] cd := by intro n x h; simp [List.lookup] at h

/-- decoding a serialized well-formed type in a context that satisfies the invariant gives that
    type back and consumes exactly its bytes -/
theorem decodeC_encodeTV (c : Ctx) (hc : c.Inv) (t : Ty) (w : t.wf = true) (rest : Bytes) :
    ∃ c', c.decodeC (encodeTV t ++ rest) = (c', some (t, rest)) ∧ c'.Inv ∧ (∀ u, c.has u → c'.has u) ∧ c'.has t := by
  obtain ⟨c', h, i, _, m, x⟩ := rt_ty t [] c rest ((encodeTV t ++ rest).length + 1) w hc (Rel_nil _)
    (by simp [encodeTV, length_append])
  exact ⟨c', h, i, m, x⟩

theorem lookupByValue_good (c : Ctx) (hc : c.Inv) (tv : Bytes) : Good c (c.lookupByValue tv) := by
  unfold lookupByValue
  cases hl : c.toType.lookup tv with
  | some t => exact ⟨hc, fun _ h => h, fun t' e => by cases e; exact hc.range _ _ hl⟩
  | none =>
    simp only
    have dg := dec_inv (tv.length + 1) c tv hc
    unfold decodeC
    cases hd : decodeTV (tv.length + 1) c tv with
    | mk c1 o =>
      rw [hd] at dg
      cases o with
      | none => exact ⟨dg.1, dg.2.1, fun _ e => by cases e⟩
      | some p =>
        obtain ⟨t, rest⟩ := p
        simp only
        have ht := dg.2.2 t rest rfl
        -- if the bytes are the canonical serialization of a well-formed type, that type is `t`
        have hcanon : ∀ u, u.wf = true → encodeTV u = tv → u = t := by
          intro u wu e
          obtain ⟨c2, h2, _⟩ := decodeC_encodeTV c hc u wu []
          rw [append_nil, e] at h2
          unfold decodeC at h2
          rw [hd] at h2
          simp only [Prod.mk.injEq, Option.some.injEq] at h2
          exact h2.2.1.symm
        refine ⟨⟨dg.1.nodup, dg.1.wf, ?_, ?_, ?_, dg.1.defs, ?_, ?_⟩, fun u h => ⟨(dg.2.1 u h).1, (dg.2.1 u h).2⟩, fun t' e => by cases e; exact ht⟩
        · intro u hu
          simp only [storeByValue, lookup_cons_bytes]
          by_cases e : encodeTV u = tv
          · rw [if_pos e, hcanon u (dg.1.wf u hu).1 e]
          · rw [if_neg e]; exact dg.1.total u hu
        · intro u u' wu' hlk
          simp only [storeByValue, lookup_cons_bytes] at hlk
          by_cases e : encodeTV u' = tv
          · rw [if_pos e] at hlk
            rw [hcanon u' wu' e]; exact (Option.some.inj hlk).symm
          · rw [if_neg e] at hlk; exact dg.1.sound u u' wu' hlk
        · intro k u hlk
          simp only [storeByValue, lookup_cons_bytes] at hlk
          by_cases e : k = tv
          · rw [if_pos e] at hlk; cases hlk; exact ht
          · rw [if_neg e] at hlk; exact dg.1.range k u hlk
        · intro u b hlk
          simp only [storeByValue] at hlk
          split at hlk
          · exact dg.1.tvcanon u b hlk
          · rw [lookup_cons_ty] at hlk
            by_cases e : u = t
            · rw [if_pos e] at hlk; rw [e]; exact (Option.some.inj hlk).symm
            · rw [if_neg e] at hlk; exact dg.1.tvcanon u b hlk
        · intro k u hlk
          simp only [storeByValue, lookup_cons_bytes] at hlk
          simp only [storeByValue]
          by_cases e : k = tv
          · rw [if_pos e] at hlk; cases hlk
            split
            · assumption
            · simp [lookup_cons_ty]
          · rw [if_neg e] at hlk
            have := dg.1.tvtotal k u hlk
            split
            · exact this
            · rw [lookup_cons_ty]; by_cases e2 : u = t
              · simp [e2]
              · rw [if_neg e2]; exact this

/-- `TranslateType` of a well-formed type of any context returns the structurally same type -/
theorem translate_spec (c : Ctx) (hc : c.Inv) (ext : Ty) (w : ext.wf = true) :
    (c.translate ext).1 = some ext ∧ (c.translate ext).2.Inv ∧ (∀ u, c.has u → (c.translate ext).2.has u) ∧
    (c.translate ext).2.has ext := by
  have g := lookupByValue_good c hc (encodeTV ext)
  unfold translate at *
  have hres : (c.lookupByValue (encodeTV ext)).1 = some ext := by
    unfold lookupByValue
    cases hl : c.toType.lookup (encodeTV ext) with
    | some t => simp only; rw [hc.sound t ext w hl]
    | none =>
      simp only
      obtain ⟨c2, h2, _⟩ := decodeC_encodeTV c hc ext w []
      rw [append_nil] at h2
      rw [h2]
  exact ⟨hres, g.1, g.2.1, g.2.2 ext hres⟩

/-- the bytes `LookupTypeValue` returns for a well-formed type are its canonical serialization -/
theorem lookupTypeValue_canonical (c : Ctx) (hc : c.Inv) (t : Ty) (w : t.wf = true) (b : Bytes)
    (h : (c.lookupTypeValue t).1 = some b) : b = encodeTV t := by
  unfold lookupTypeValue at h
  cases hl : c.toValue.lookup t with
  | some b' => simp only [hl] at h; cases h; exact hc.tvcanon t b hl
  | none =>
    simp only [hl] at h
    have sp := translate_spec c hc t w
    unfold translate at sp
    cases hb : c.lookupByValue (encodeTV t) with
    | mk o c' =>
      rw [hb] at sp h
      simp only at sp
      cases o with
      | none => simp at sp
      | some t' =>
        simp only at h
        have e : t' = t := by simpa using sp.1
        subst e
        exact sp.2.1.tvcanon _ b h

theorem lookupTypeValue_good (c : Ctx) (hc : c.Inv) (t : Ty) :
    (c.lookupTypeValue t).2.Inv ∧ ∀ u, c.has u → (c.lookupTypeValue t).2.has u := by
  unfold lookupTypeValue
  cases hl : c.toValue.lookup t with
  | some b => exact ⟨hc, fun _ h => h⟩
  | none =>
    simp only
    have g := lookupByValue_good c hc (encodeTV t)
    cases hb : c.lookupByValue (encodeTV t) with
    | mk o c' =>
      rw [hb] at g
      cases o with
      | none => exact ⟨g.1, g.2.1⟩
      | some t' => exact ⟨g.1, g.2.1⟩

end Ctx
end Zed
namespace Zed
open Zcode List Generated.C05
namespace Ctx

def EnvOk (c : Ctx) (env : Env) : Prop := ∀ r ∈ env, ∀ t, r = some t → c.has t

theorem argOf_has (c : Ctx) (env : Env) (he : EnvOk c env) (a : Arg) (t : Ty) (h : argOf env a = some t) : c.has t := by
  cases a with
  | prim id => exact primitiveByID?_has c id t h
  | res k =>
    simp only [argOf] at h
    cases hk : env[k]? with
    | none => simp [hk] at h
    | some r =>
      simp only [hk, Option.join] at h
      exact he r (List.mem_of_getElem? hk) t (by simpa using h)

theorem argsOf_has (c : Ctx) (env : Env) (he : EnvOk c env) : (as : List Arg) → (ts : List Ty) →
    argsOf env as = some ts → ts.length = as.length ∧ ∀ t ∈ ts, c.has t
  | [], ts, h => by simp [argsOf] at h; subst h; simp
  | a :: r, ts, h => by
    simp only [argsOf] at h
    cases ha : argOf env a with
    | none => simp [ha] at h
    | some t =>
      cases hr : argsOf env r with
      | none => simp [ha, hr] at h
      | some ts' =>
        simp only [ha, hr, Option.some.injEq] at h
        have ih := argsOf_has c env he r ts' hr
        subst h
        refine ⟨by simp [ih.1], fun u hu => ?_⟩
        simp only [mem_cons] at hu
        rcases hu with rfl | hu
        · exact argOf_has c env he a _ ha
        · exact ih.2 u hu

theorem fieldsOf_has (c : Ctx) (env : Env) (he : EnvOk c env) : (fs : List (Name × Arg)) → (l : List (Name × Ty)) →
    fieldsOf env fs = some l → ∀ p ∈ l, c.has p.2
  | [], l, h => by simp [fieldsOf] at h; subst h; simp
  | (n, a) :: r, l, h => by
    simp only [fieldsOf] at h
    cases ha : argOf env a with
    | none => simp [ha] at h
    | some t =>
      cases hr : fieldsOf env r with
      | none => simp [ha, hr] at h
      | some l' =>
        simp only [ha, hr, Option.some.injEq] at h
        have ih := fieldsOf_has c env he r l' hr
        subst h
        intro p hp
        simp only [mem_cons] at hp
        rcases hp with rfl | hp
        · exact argOf_has c env he a _ ha
        · exact ih p hp

/-- what one operation guarantees -/
def OpGood (c : Ctx) (r : Option Ty × Option Bytes × Ctx) : Prop :=
  r.2.2.Inv ∧ (∀ u, c.has u → r.2.2.has u) ∧ ∀ t, r.1 = some t → r.2.2.has t

theorem OpGood_skip (c : Ctx) (hc : c.Inv) : OpGood c (none, none, c) := ⟨hc, fun _ h => h, fun _ e => by cases e⟩

theorem exec_good (c : Ctx) (hc : c.Inv) (env : Env) (he : EnvOk c env) (op : Op) : OpGood c (c.exec env op) := by
  cases op with
  | record fs =>
    simp only [exec]
    cases hf : fieldsOf env fs with
    | none => exact OpGood_skip c hc
    | some l =>
      simp only
      split
      · rename_i hlim
        have hh := fieldsOf_has c env he fs l hf
        have g := lookupRecord_good c hc l
          (fun p hp => ⟨by have := hlim.2; simp only [all_eq_true] at this; exact this p hp, hh p hp⟩) hlim.1
        exact ⟨g.1, g.2.1, g.2.2⟩
      · exact OpGood_skip c hc
  | array a =>
    simp only [exec]
    cases ha : argOf env a with
    | none => exact OpGood_skip c hc
    | some t =>
      have sp := lookupArray_spec c hc t (argOf_has c env he a t ha)
      exact ⟨sp.2.1, sp.2.2.2.1, fun u e => by simp only [Option.some.injEq] at e; rw [← e, sp.1]; exact sp.2.2.2.2⟩
  | set a =>
    simp only [exec]
    cases ha : argOf env a with
    | none => exact OpGood_skip c hc
    | some t =>
      have sp := lookupSet_spec c hc t (argOf_has c env he a t ha)
      exact ⟨sp.2.1, sp.2.2.2.1, fun u e => by simp only [Option.some.injEq] at e; rw [← e, sp.1]; exact sp.2.2.2.2⟩
  | error a =>
    simp only [exec]
    cases ha : argOf env a with
    | none => exact OpGood_skip c hc
    | some t =>
      have sp := lookupError_spec c hc t (argOf_has c env he a t ha)
      exact ⟨sp.2.1, sp.2.2.2.1, fun u e => by simp only [Option.some.injEq] at e; rw [← e, sp.1]; exact sp.2.2.2.2⟩
  | map k v =>
    simp only [exec]
    cases hk : argOf env k with
    | none => exact OpGood_skip c hc
    | some kt =>
      cases hv : argOf env v with
      | none => exact OpGood_skip c hc
      | some vt =>
        have sp := lookupMap_spec c hc kt vt (argOf_has c env he k kt hk) (argOf_has c env he v vt hv)
        exact ⟨sp.2.1, sp.2.2.2.1, fun u e => by simp only [Option.some.injEq] at e; rw [← e, sp.1]; exact sp.2.2.2.2⟩
  | union as =>
    simp only [exec]
    cases ha : argsOf env as with
    | none => exact OpGood_skip c hc
    | some ts =>
      simp only
      split
      · rename_i hlim
        have sp := lookupUnion_spec c hc ts (argsOf_has c env he as ts ha).2 hlim
        exact ⟨sp.2.1, sp.2.2.2.1, fun u e => by simp only [Option.some.injEq] at e; rw [← e, sp.1]; exact sp.2.2.2.2⟩
      · exact OpGood_skip c hc
  | enum syms =>
    simp only [exec]
    split
    · rename_i hlim
      have sp := lookupEnum_spec c hc syms hlim.2 hlim.1
      exact ⟨sp.2.1, sp.2.2.2.1, fun u e => by simp only [Option.some.injEq] at e; rw [← e, sp.1]; exact sp.2.2.2.2⟩
    · exact OpGood_skip c hc
  | named n a =>
    simp only [exec]
    cases ha : argOf env a with
    | none => exact OpGood_skip c hc
    | some t =>
      simp only
      split
      · rename_i hn
        have g := lookupNamed_good c hc n t hn (argOf_has c env he a t ha)
        exact ⟨g.1, g.2.1, g.2.2⟩
      · exact OpGood_skip c hc
  | byValue tv =>
    simp only [exec]
    have g := lookupByValue_good c hc tv
    exact ⟨g.1, g.2.1, g.2.2⟩
  | translate ext =>
    simp only [exec]
    split
    · rename_i w
      have sp := translate_spec c hc ext w
      exact ⟨sp.2.1, sp.2.2.1, fun u e => by rw [sp.1] at e; cases e; exact sp.2.2.2⟩
    · exact OpGood_skip c hc
  | typeValue a =>
    simp only [exec]
    cases ha : argOf env a with
    | none => exact OpGood_skip c hc
    | some t =>
      have g := lookupTypeValue_good c hc t
      exact ⟨g.1, g.2, fun _ e => by cases e⟩
  | typeDef n =>
    simp only [exec]
    refine ⟨hc, fun _ h => h, fun t e => ?_⟩
    have := hc.defs n t e
    exact ⟨(hc.wf t this.1).1, Or.inl this.1⟩

theorem runOps_good : (ops : List Op) → (c : Ctx) → (env : Env) → c.Inv → EnvOk c env →
    (runOps ops c env).1.Inv ∧ EnvOk (runOps ops c env).1 (runOps ops c env).2
  | [], c, env, hc, he => ⟨hc, he⟩
  | op :: rest, c, env, hc, he => by
    simp only [runOps]
    have g := exec_good c hc env he op
    refine runOps_good rest _ _ g.1 ?_
    intro r hr t e
    simp only [mem_append, mem_singleton] at hr
    rcases hr with hr | rfl
    · exact g.2.1 t (he r hr t e)
    · exact g.2.2 t e

end Ctx
end Zed
