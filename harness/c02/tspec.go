package main

// Own copy of the structural type spec (kept local so that concurrent edits of hlib's
// ztypes.go by other checks cannot break or change this harness).

import (
	"encoding/hex"
	"fmt"
	"sort"
	"strings"

	zed "github.com/brimdata/super"
)

type TField struct {
	Name string `json:"name"`
	Type *TSpec `json:"type"`
}

// TSpec: Kind ∈ prim, record, array, set, map, union, enum, error, named.
type TSpec struct {
	Kind   string   `json:"kind"`
	ID     int      `json:"id,omitempty"`
	Name   string   `json:"name,omitempty"`
	Fields []TField `json:"fields,omitempty"`
	Elems  []*TSpec `json:"elems,omitempty"` // array/set/error/named: 1; map: 2; union: n
	Syms   []string `json:"syms,omitempty"`
}

func Prim(id int) *TSpec { return &TSpec{Kind: "prim", ID: id} }

func HexAtom(b []byte) string {
	if len(b) == 0 {
		return "-"
	}
	return hex.EncodeToString(b)
}

// Descr prints the structure (member order significant).
func (t *TSpec) Descr() string {
	var b strings.Builder
	t.descr(&b)
	return b.String()
}

func (t *TSpec) descr(b *strings.Builder) {
	switch t.Kind {
	case "prim":
		fmt.Fprintf(b, "(prim %d)", t.ID)
	case "record":
		b.WriteString("(record")
		for _, f := range t.Fields {
			b.WriteString(" (" + HexAtom([]byte(f.Name)) + " ")
			f.Type.descr(b)
			b.WriteString(")")
		}
		b.WriteString(")")
	case "enum":
		b.WriteString("(enum")
		for _, s := range t.Syms {
			b.WriteString(" " + HexAtom([]byte(s)))
		}
		b.WriteString(")")
	case "named":
		b.WriteString("(named " + HexAtom([]byte(t.Name)) + " ")
		t.Elems[0].descr(b)
		b.WriteString(")")
	default:
		b.WriteString("(" + t.Kind)
		for _, e := range t.Elems {
			b.WriteString(" ")
			e.descr(b)
		}
		b.WriteString(")")
	}
}

// SpecOf reads the structure of a real type (real member order).
func SpecOf(t zed.Type) *TSpec {
	switch t := t.(type) {
	case *zed.TypeNamed:
		return &TSpec{Kind: "named", Name: t.Name, Elems: []*TSpec{SpecOf(t.Type)}}
	case *zed.TypeRecord:
		s := &TSpec{Kind: "record"}
		for _, f := range t.Fields {
			s.Fields = append(s.Fields, TField{f.Name, SpecOf(f.Type)})
		}
		return s
	case *zed.TypeArray:
		return &TSpec{Kind: "array", Elems: []*TSpec{SpecOf(t.Type)}}
	case *zed.TypeSet:
		return &TSpec{Kind: "set", Elems: []*TSpec{SpecOf(t.Type)}}
	case *zed.TypeMap:
		return &TSpec{Kind: "map", Elems: []*TSpec{SpecOf(t.KeyType), SpecOf(t.ValType)}}
	case *zed.TypeUnion:
		s := &TSpec{Kind: "union"}
		for _, m := range t.Types {
			s.Elems = append(s.Elems, SpecOf(m))
		}
		return s
	case *zed.TypeEnum:
		return &TSpec{Kind: "enum", Syms: append([]string(nil), t.Symbols...)}
	case *zed.TypeError:
		return &TSpec{Kind: "error", Elems: []*TSpec{SpecOf(t.Type)}}
	default:
		return Prim(t.ID())
	}
}

// DescrType = SpecOf(t).Descr().
func DescrType(t zed.Type) string { return SpecOf(t).Descr() }

// Build creates the type in zctx through the public Lookup* API, bottom-up, left to right.
func (t *TSpec) Build(zctx *zed.Context) (zed.Type, error) {
	switch t.Kind {
	case "prim":
		return zed.LookupPrimitiveByID(t.ID)
	case "record":
		var fs []zed.Field
		for _, f := range t.Fields {
			ft, err := f.Type.Build(zctx)
			if err != nil {
				return nil, err
			}
			fs = append(fs, zed.NewField(f.Name, ft))
		}
		return zctx.LookupTypeRecord(fs)
	case "enum":
		return zctx.LookupTypeEnum(append([]string(nil), t.Syms...)), nil
	}
	var es []zed.Type
	for _, e := range t.Elems {
		et, err := e.Build(zctx)
		if err != nil {
			return nil, err
		}
		es = append(es, et)
	}
	switch t.Kind {
	case "array":
		return zctx.LookupTypeArray(es[0]), nil
	case "set":
		return zctx.LookupTypeSet(es[0]), nil
	case "error":
		return zctx.LookupTypeError(es[0]), nil
	case "map":
		return zctx.LookupTypeMap(es[0], es[1]), nil
	case "union":
		return zctx.LookupTypeUnion(es), nil
	case "named":
		return zctx.LookupTypeNamed(t.Name, es[0])
	}
	return nil, fmt.Errorf("bad spec kind %q", t.Kind)
}

// Canon prints the structure with union members as a sorted set (same text as canonType of
// the real type built from the spec).
func (t *TSpec) Canon() string {
	switch t.Kind {
	case "prim":
		return fmt.Sprintf("(prim %d)", t.ID)
	case "record":
		var b strings.Builder
		b.WriteString("(record")
		for _, f := range t.Fields {
			b.WriteString(" (" + HexAtom([]byte(f.Name)) + " " + f.Type.Canon() + ")")
		}
		b.WriteString(")")
		return b.String()
	case "enum":
		var b strings.Builder
		b.WriteString("(enum")
		for _, s := range t.Syms {
			b.WriteString(" " + HexAtom([]byte(s)))
		}
		b.WriteString(")")
		return b.String()
	case "named":
		return "(named " + HexAtom([]byte(t.Name)) + " " + t.Elems[0].Canon() + ")"
	case "union":
		var ms []string
		for _, e := range t.Elems {
			ms = append(ms, e.Canon())
		}
		sort.Strings(ms)
		return "(union " + strings.Join(ms, " ") + ")"
	default:
		var ms []string
		for _, e := range t.Elems {
			ms = append(ms, e.Canon())
		}
		return "(" + t.Kind + " " + strings.Join(ms, " ") + ")"
	}
}
