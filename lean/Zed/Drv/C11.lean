import Zed.Drv.ZngGlue
import Zed.Model.ZngTypeValue
import Zed.Model.ZngVng
/-!
  Driver glue for C11:
    (C11 read <maxSize> <validate01> <vals01> <hex> ((zhex size uhex|fail)…))
        → (<outcome> (allocs…) (vals …))    model reader with the LZ4 answers supplied by the harness
        → (need (zhex size)…)               when an LZ4 block of the stream is not in the table
    (C11 validate <ty> <body>)  → 1 | 0     model of zed.Value.Validate
    (C11 ziter <hex>)           → (ok items…) | (panic)
    (C11 vnghdr <hex>)          → (ok meta data) | err                model of vng.Header.Deserialize
    (C11 typevalue <hex>)       → (ok <ty>) | fail | panic:<site>   model of Context.LookupByValue on a fresh context
-/
namespace Zed.Drv.C11
open Zed Zed.Zng Zed.Drv.Zng

def handle : List Sexp → String
  | [.atom "read", .atom maxSize, .atom validate, .atom withVals, .atom hex, .list tbl] =>
    match maxSize.toNat?, bytesOfHexFast hex, tblOf tbl with
    | some m, some bs, some tbl =>
      if (validate != "0" && validate != "1") || (withVals != "0" && withVals != "1") then "bad-op" else
      let o : ROpts := ⟨m, validate == "1"⟩
      let reqs := compRequests o bs
      let missing := reqs.filter fun (z, size) =>
        size ≥ 0 && !(tbl.any fun e => e.1 == z && (e.2.1 : Int) == size)
      if !missing.isEmpty then
        toString (Sexp.list (.atom "need" :: missing.map fun (z, size) =>
          .list [.atom (hexOfBytesFast z), .atom (toString size)]))
      else
        toString (sexpOfRRes (readAll o (decompOf tbl) bs) (withVals == "1"))
    | _, _, _ => "bad-op"
  | [.atom "validate", t, b] =>
    match tyOf t, bodyOf b with
    | some t, some b => if validate t b then "1" else "0"
    | _, _ => "bad-op"
  | [.atom "vnghdr", .atom hex] =>
    match bytesOfHexFast hex with
    | some bs =>
      match Vng.deserialize bs with
      | some h => toString (Sexp.list [.atom "ok", .atom (toString h.metaSize), .atom (toString h.dataSize)])
      | none => "err"
    | none => "bad-op"
  | [.atom "typevalue", .atom hex] =>
    match bytesOfHexFast hex with
    | some bs =>
      match TV.lookupByValue bs with
      | .ok t _ _ => toString (Sexp.list [.atom "ok", sexpOfTy t])
      | .fail => "fail"
      | .panic p => "panic:" ++ p
      | .fuelOut => "fuel"
    | none => "bad-op"
  | [.atom "ziter", .atom hex] =>
    match bytesOfHexFast hex with
    | some bs =>
      match ziterAll bs with
      | .ok vs => toString (Sexp.list (.atom "ok" :: vs.map sexpOfBody))
      | .error _ => "(panic)"
    | none => "bad-op"
  | _ => "bad-op"

end Zed.Drv.C11
