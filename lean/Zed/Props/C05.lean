/-
  C05 — types are canonical within a context and portable across contexts.
  Property theorems only.  Tables come from Zed.Generated.C05 (regenerated from
  /repo/type.go, primitive.go, context.go on every check); the model is Zed.Model.TyContext.
-/
import Zed.Model.TyContext
import Zed.Proofs.CompareTypesTrans
import Zed.Proofs.InsertionSort
import Zed.Proofs.TypeValue
import Zed.Proofs.Context
namespace Zed.Props.C05
open Zed Zed.Ord Zed.Generated.C05

/-- Obligation on the regenerated tables: the nine type-value codes are pairwise distinct,
    fit a byte and are not primitive ids (so the first byte of a serialized type determines
    its constructor). -/
theorem typeValueCodes_distinct :
    [tvRecord, tvArray, tvSet, tvMap, tvUnion, tvEnum, tvError, tvNameDef, tvNameRef].Nodup ∧
    (∀ c ∈ [tvRecord, tvArray, tvSet, tvMap, tvUnion, tvEnum, tvError, tvNameDef, tvNameRef],
      idTypeComplex ≤ c ∧ c < 256) := by decide

/-- Obligation on the regenerated tables: `LookupPrimitiveByID(id).ID() = id`, every
    implemented id is below `IDTypeComplex`, and `LookupPrimitive` names exactly those types. -/
theorem primitive_tables_consistent :
    (∀ p ∈ primitiveByID, p.1 = p.2 ∧ p.1 < idTypeComplex) ∧
    (primitiveByID.map (·.1)).Nodup ∧
    (∀ e ∈ primitiveNames, e.2.2 ∈ primitiveByID.map (·.1)) ∧
    (primitiveNames.map (·.2.1)).Nodup := by decide

/-! ### the order on types (`zed.CompareTypes`)

  Full statement: `cmpTy` is a total order on structural types (zero only on equal types,
  antisymmetric, transitive).  Reflexivity and antisymmetry hold for all types.  "Zero only on
  equal types" and transitivity are FALSE of the current code (`not_compareTypes_eq_iff`,
  `not_compareTypes_trans`: when two named types share the underlying type only their outermost
  names are compared) and are proved under the guard `Ty.nnn` (no named type directly wraps a
  named type) in the `_partial` theorems. -/

theorem compareTypes_refl (a : Ty) : cmpTy a a = .eq := cmpTy_refl a

theorem compareTypes_antisymm (a b : Ty) : cmpTy b a = (cmpTy a b).swap := cmpTy_swap a b

def tInt : Ty := .prim 9
/-- x=(y=int64) -/
def tXY : Ty := .named [120] (.named [121] tInt)
/-- x=(z=int64) -/
def tXZ : Ty := .named [120] (.named [122] tInt)
def tRA : Ty := .record (.cons [97] tXY .nil)
def tRB : Ty := .record (.cons [97] tXZ .nil)
/-- q={a:x=(y=int64)} -/
def tQ : Ty := .named [113] tRA

theorem not_compareTypes_eq_iff : ¬ (∀ a b : Ty, cmpTy a b = .eq → a = b) := by
  intro h
  exact absurd (h tXY tXZ (by decide)) (by decide)

theorem not_compareTypes_trans :
    ¬ (∀ a b c : Ty, cmpTy a b ≠ .gt → cmpTy b c ≠ .gt → cmpTy a c ≠ .gt) := by
  intro h
  exact h tQ tRB tRA (by decide) (by decide) (by decide)

theorem compareTypes_eq_iff_partial (a b : Ty) (ha : a.nnn = true) (hb : b.nnn = true) :
    cmpTy a b = .eq ↔ a = b := cmpTy_eq_iff a b ha hb

theorem compareTypes_trans_partial (a b c : Ty) (ha : a.nnn = true) (hb : b.nnn = true) (hc : c.nnn = true) :
    cmpTy a b ≠ .gt → cmpTy b c ≠ .gt → cmpTy a c ≠ .gt :=
  (cmpTy_STr a b c ha hb hc).le

/-- non-vacuity: the guard holds for ordinary named types and fails for the witnesses -/
example : tRA.nnn = false ∧ (Ty.record (.cons [97] (.named [120] tInt) .nil)).nnn = true := by decide

/-! ### union member order -/

private theorem tyLess_strictTotal : StrictTotalOn tyLess (fun t => t.nnn = true) where
  asymm := by
    intro a b _ _ h
    simp only [tyLess, beq_iff_eq] at h
    simp [tyLess, cmpTy_swap a b, h, Ordering.swap]
  trans_ge := by
    intro a b c ha hb hc h1 h2
    simp only [tyLess, beq_eq_false_iff_ne] at *
    exact (cmpTy_STr a b c ha hb hc).ge h1 h2
  antisymm := by
    intro a b ha hb h1 h2
    simp only [tyLess, beq_eq_false_iff_ne] at *
    rw [cmpTy_swap a b] at h2
    apply (cmpTy_eq_iff a b ha hb).mp
    revert h1 h2
    cases cmpTy a b <;> simp [Ordering.swap]

/-- Full statement: `lookupUnion c ts' = lookupUnion c ts` for every permutation `ts'` of `ts` —
    FALSE of the current code (`not_union_order_irrelevant`); proved when the members satisfy
    the guard of the type order. -/
theorem union_order_irrelevant_partial (c : Ctx) (ts ts' : List Ty) (hp : ts'.Perm ts)
    (hg : ∀ t ∈ ts, t.nnn = true) : c.lookupUnion ts' = c.lookupUnion ts := by
  unfold Ctx.lookupUnion sortTys
  rw [insertionSort_eq_of_perm tyLess _ tyLess_strictTotal ts ts' hp hg]

theorem not_union_order_irrelevant :
    ¬ (∀ (c : Ctx) (ts ts' : List Ty), ts'.Perm ts → (c.lookupUnion ts').1 = (c.lookupUnion ts).1) := by
  intro h
  have := h Ctx.empty [tXY, tXZ] [tXZ, tXY] (List.Perm.swap _ _ _)
  revert this
  decide

/-! ### serialized type values

  `Ty.wf` (Model/TyContext): implemented primitives, no duplicate field names, union members in
  the order `LookupTypeUnion` leaves them in, valid type names, and the decoder's size limits. -/

/-- the serialized type value is a function of the structure only (it is defined on `Ty`) and
    determines it: two well-formed types with the same type value are the same type -/
theorem typevalue_injective (t₁ t₂ : Ty) (w₁ : t₁.wf = true) (w₂ : t₂.wf = true)
    (h : encodeTV t₁ = encodeTV t₂) : t₁ = t₂ := encodeTV_injective t₁ t₂ w₁ w₂ h

/-- decoding the type value of a well-formed type, in *any* context that satisfies the context
    invariant and with any bytes following it, yields exactly that type and consumes exactly
    its bytes; the context keeps the invariant.  (The typedef map of the encoder is mirrored by
    the context's `typedefs` in DFS order: `Ctx.Rel` in Proofs/TypeValueRT.) -/
theorem typevalue_roundtrip (t : Ty) (w : t.wf = true) (c : Ctx) (hc : c.Inv) (rest : Bytes) :
    ∃ c', c.decode (encodeTV t ++ rest) = some (t, rest, c') ∧ c'.Inv := by
  obtain ⟨c', h, i, _, _⟩ := Ctx.decodeC_encodeTV c hc t w rest
  exact ⟨c', by simp [Ctx.decode, h], i⟩

/-- non-vacuity: a record over a named type, a map and a sorted union is well-formed -/
example : (Ty.record (.cons [97] (.named [120] tInt) (.cons [98] (.map tInt (.prim 25))
    (.cons [99] (.union (.cons tInt (.cons (.prim 25) .nil))) .nil)))).wf = true := by decide

/-! ### the context

  `Ctx.Inv c` (Proofs/ContextInv): no structure is entered twice (`byID.Nodup`), every entered
  type is well-formed, `toType` maps the canonical serialization of every entered type to that
  type and nothing else to it, every value of `toType` and `typedefs` is a type of the context. -/

/-- **context_canonical** (sequential): after any history of operations (record / array / set /
    map / union / enum / error / named lookups, LookupByValue with arbitrary bytes, TranslateType
    of well-formed foreign types, LookupTypeValue, LookupTypeDef — arguments being primitives or
    earlier results) the context satisfies the invariant and every result is a type of the
    context.  Operations beyond the decoder's size limits are skipped (see `Ctx.exec`). -/
theorem context_canonical (ops : List Ctx.Op) :
    (Ctx.runOps ops Ctx.empty []).1.Inv ∧ Ctx.EnvOk (Ctx.runOps ops Ctx.empty []).1 (Ctx.runOps ops Ctx.empty []).2 :=
  Ctx.runOps_good ops Ctx.empty [] Ctx.inv_empty (by intro r hr; simp at hr)

/-- two ids of a context never hold the same structure, and the ids are dense from
    `IDTypeComplex` (`lookupType (IDTypeComplex + i) = byID[i]`) -/
theorem ids_canonical (c : Ctx) (hc : c.Inv) (i j : Nat) (hi : i < c.byID.length) (hj : j < c.byID.length)
    (h : c.byID[i] = c.byID[j]) : i = j :=
  (List.getElem_inj hc.nodup).mp h

/-- looking a structure up again returns the same type and enters nothing -/
theorem lookup_idempotent (c : Ctx) (hc : c.Inv) (t : Ty) (wt : t.wf = true) (ct : t.isComplex = true) :
    (c.lookupOrEnter t).1 = t ∧
    ((c.lookupOrEnter t).2.lookupOrEnter t) = (t, (c.lookupOrEnter t).2) := by
  have sp := Ctx.lookupOrEnter_spec c hc t wt ct
  refine ⟨sp.1, ?_⟩
  have hin := sp.2.2.2.2
  have hmem : t ∈ (c.lookupOrEnter t).2.byID := hin.2.resolve_right (by simp [ct])
  exact Ctx.lookupOrEnter_hit _ t t (sp.2.1.total t hmem)

/-- **translate_roundtrip**: translating a well-formed type of another context yields the
    structurally same type, so translating there and back is the identity -/
theorem translate_roundtrip (c₁ c₂ : Ctx) (h₁ : c₁.Inv) (h₂ : c₂.Inv) (t : Ty) (w : t.wf = true) :
    (c₂.translate t).1 = some t ∧ ((c₁.translate t).1 = some t) :=
  ⟨(Ctx.translate_spec c₂ h₂ t w).1, (Ctx.translate_spec c₁ h₁ t w).1⟩

/-! ### what is false of the current code -/

/-- Full statement `typevalue_stable`: the bytes `lookupTypeValue t` returns never change over
    any later operation.  FALSE: `LookupByValue` stores the caller's bytes as the type's value.
    Witness: context holding `|[int8]|`; LookupByValue of its encoding followed by one byte. -/
theorem not_typevalue_stable :
    ¬ (∀ (c : Ctx) (t : Ty) (b : Bytes) (op : Ctx.Op) (env : Ctx.Env), c.Inv →
        (c.lookupTypeValue t).1 = some b →
        ((c.exec env op).2.2.lookupTypeValue t).1 = some b) := by
  intro h
  have hc := (Ctx.runOps_good [Ctx.Op.set (.prim 6)] Ctx.empty [] Ctx.inv_empty (by intro r hr; simp at hr)).1
  have := h (Ctx.runOps [Ctx.Op.set (.prim 6)] Ctx.empty []).1 (.set (.prim 6)) [32, 6] (.byValue [32, 6, 0]) [] hc
    (by decide)
  revert this
  decide

/-- Full statement `nameref_atomicity`: under interleaving of the decoders' atomic steps a
    NameRef resolves to the decoder's own preceding NameDef.  FALSE on a shared context: between
    decoder A's `LookupTypeNamed(x, int64)` and its `LookupTypeDef(x)`, decoder B's
    `LookupTypeNamed(x, string)` rebinds `x`. -/
theorem not_nameref_atomicity :
    ¬ (∀ (c : Ctx) (n : Name) (a b : Ty),
        ((c.lookupNamed n a).2.lookupNamed n b).2.lookupTypeDef n = (c.lookupNamed n a).1) := by
  intro h
  have := h Ctx.empty [120] (.prim 9) (.prim 25)
  revert this
  decide

end Zed.Props.C05
