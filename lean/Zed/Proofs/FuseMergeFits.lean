import Zed.Proofs.FuseFits
import Zed.Proofs.FuseMergeLemmas
/-!
  C20: for two clean (union-free, map-free) types, both fit their merge.
-/
namespace Zed.Fuse

/-- what the pairwise theorem says of a merge function -/
def FitsJoin (m : Ty → Ty → Option Ty) : Prop :=
  ∀ a b c, clean a = true → clean b = true → m a b = some c → fitsN a c = true ∧ fitsN b c = true

theorem fits_of_fitsN {a T : Ty} (he : a.isError = false) (h : fitsN a T = true) : fits a T = true := by
  simp [fits, he, h]

theorem fits_of_under_eq {a T : Ty} (h : a.under = T.under) : fitsN a T = true := by
  simp [fitsN, fitsHead, h]

theorem fits_of_null {a T : Ty} (h : a.under = tyNull) : fitsN a T = true := by
  simp [fitsN, fitsHead, h]

theorem findIdx_isSome_of_mem (p : Ty → Bool) : (ms : Tys) → (m : Ty) → m ∈ ms.toList → p m = true →
    (ms.findIdx p).isSome = true
  | .nil, _, h, _ => by simp [Tys.toList] at h
  | .cons t r, m, h, hp => by
    simp only [Tys.findIdx]
    by_cases ht : p t = true
    · simp [ht]
    · simp only [ht, Bool.false_eq_true, if_false, Option.isSome_map]
      simp only [Tys.toList, List.mem_cons] at h
      rcases h with rfl | h
      · exact absurd hp ht
      · exact findIdx_isSome_of_mem p r m h hp

theorem bestUnionTag_of_mem {a T : Ty} {ms : Tys} (hT : T.under = .union ms) (h : a ∈ ms.toList) :
    (bestUnionTag a T).isSome = true := by
  unfold bestUnionTag
  simp only [hT]
  have := findIdx_isSome_of_mem (· == a) ms a h (by simp)
  cases hf : ms.findIdx (· == a) with
  | some i => simp
  | none => simp [hf] at this

/-- a non-union type fitsN any target in which it has a union member -/
theorem fitsU_of_tag (orig T : Ty) (hb : (bestUnionTag orig T).isSome = true) :
    (cur : Ty) → cur.isUnion = false → fitsU orig cur T = true
  | .named _ t, h => by
    simp only [fitsU]
    exact fitsU_of_tag orig T hb t (by simpa [Ty.isUnion, Ty.under] using h)
  | .prim _, _ => by simp [fitsU, hb]
  | .map _ _, _ => by simp [fitsU, hb]
  | .record _, _ => by simp [fitsU, hb]
  | .array _, _ => by simp [fitsU, hb]
  | .set _, _ => by simp [fitsU, hb]
  | .enum _, _ => by simp [fitsU, hb]
  | .error _, _ => by simp [fitsU, hb]
  | .union _, h => by simp [Ty.isUnion, Ty.under] at h

theorem clean_not_union : (a : Ty) → clean a = true → a.isUnion = false ∧ a.isMap = false
  | .named _ t, h => by
    have := clean_not_union t (by simpa [clean] using h)
    simpa [Ty.isUnion, Ty.isMap, Ty.under] using this
  | .prim _, _ => by simp [Ty.isUnion, Ty.isMap, Ty.under]
  | .record _, _ => by simp [Ty.isUnion, Ty.isMap, Ty.under]
  | .array _, _ => by simp [Ty.isUnion, Ty.isMap, Ty.under]
  | .set _, _ => by simp [Ty.isUnion, Ty.isMap, Ty.under]
  | .enum _, _ => by simp [Ty.isUnion, Ty.isMap, Ty.under]
  | .error _, h => by simp [clean] at h
  | .map _ _, h => by simp [clean] at h
  | .union _, h => by simp [clean] at h

theorem clean_not_error (a : Ty) (h : clean a = true) : a.isError = false := by
  have := clean_under_aux a h
  exact this
where
  clean_under_aux : (a : Ty) → clean a = true → a.isError = false
    | .named _ t, h => by simpa [Ty.isError, Ty.under] using clean_under_aux t (by simpa [clean] using h)
    | .prim _, _ => by simp [Ty.isError, Ty.under]
    | .record _, _ => by simp [Ty.isError, Ty.under]
    | .array _, _ => by simp [Ty.isError, Ty.under]
    | .set _, _ => by simp [Ty.isError, Ty.under]
    | .enum _, _ => by simp [Ty.isError, Ty.under]
    | .error _, h => by simp [clean] at h
    | .map _ _, h => by simp [clean] at h
    | .union _, h => by simp [clean] at h

theorem clean_under : (a : Ty) → clean a = true → clean a.under = true
  | .named _ t, h => by simpa [Ty.under] using clean_under t (by simpa [clean] using h)
  | .prim _, h => by simpa [Ty.under] using h
  | .record _, h => by simpa [Ty.under] using h
  | .array _, h => by simpa [Ty.under] using h
  | .set _, h => by simpa [Ty.under] using h
  | .enum _, h => by simpa [Ty.under] using h
  | .error _, h => by simp [clean] at h
  | .map _ _, h => by simp [clean] at h
  | .union _, h => by simp [clean] at h

theorem fits_member {a T : Ty} {ms : Tys} (hc : clean a = true) (hT : T.under = .union ms)
    (h : a ∈ ms.toList) : fitsN a T = true := by
  have hb := bestUnionTag_of_mem hT h
  have hu := (clean_not_union a hc).1
  have hTm : T.isMap = false := by simp [Ty.isMap, hT]
  have hTp : T.isPrim = false := by simp [Ty.isPrim, hT]
  simp [fitsN, fitsHead, hTm, hTp, fitsU_of_tag a T hb a hu]

theorem mem_lookupUnion (ts : List Ty) (t : Ty) (h : t ∈ ts) :
    ∃ ms, (lookupUnion ts).under = .union ms ∧ t ∈ ms.toList :=
  ⟨_, rfl, by rw [toList_ofList, mem_sortTypes]; exact h⟩

/-! ### records -/

/-- `lookup` after one step of the field loop -/
theorem mergeFieldInto_lookup (m : Ty → Ty → Option Ty) (name : Name) (t : Ty) :
    (acc acc' : Fields) → mergeFieldInto m name t acc = some acc' → ∀ n,
      acc'.lookup n =
        if n = name then
          (match acc.lookup name with
           | none => some t
           | some u => if u = t then some u else m u t)
        else acc.lookup n
  | .nil, acc', h, n => by
    simp only [mergeFieldInto, Option.some.injEq] at h
    subst h
    by_cases hn : n = name
    · subst hn; simp [Fields.lookup]
    · have : ¬ name = n := fun e => hn e.symm
      simp [Fields.lookup, hn, this]
  | .cons k u rest, acc', h, n => by
    simp only [mergeFieldInto] at h
    by_cases hk : k = name
    · subst hk
      simp only [if_true] at h
      by_cases hu : u = t
      · simp only [hu, if_true, Option.some.injEq] at h
        subst h; subst hu
        by_cases hn : n = k
        · subst hn; simp [Fields.lookup]
        · simp [hn]
      · simp only [hu, if_false, Option.map_eq_some_iff] at h
        obtain ⟨w, hw, rfl⟩ := h
        by_cases hn : n = k
        · subst hn; simp [Fields.lookup, hu, hw]
        · have : ¬ k = n := fun e => hn e.symm
          simp [Fields.lookup, hn, this]
    · simp only [hk, if_false, Option.map_eq_some_iff] at h
      obtain ⟨r', hr, rfl⟩ := h
      have ih := mergeFieldInto_lookup m name t rest r' hr n
      by_cases hn : n = name
      · subst hn
        simp only [Fields.lookup, hk, if_false, if_true] at ih ⊢
        exact ih
      · simp only [hn, if_false] at ih ⊢
        simp only [Fields.lookup]
        by_cases hkn : k = n
        · simp [hkn]
        · simp [hkn, ih]

theorem mergeFieldInto_names (m : Ty → Ty → Option Ty) (name : Name) (t : Ty) :
    (acc acc' : Fields) → mergeFieldInto m name t acc = some acc' →
      acc'.names = acc.names ++ (if name ∈ acc.names then [] else [name])
  | .nil, acc', h => by
    simp only [mergeFieldInto, Option.some.injEq] at h
    subst h; simp [Fields.names]
  | .cons k u rest, acc', h => by
    simp only [mergeFieldInto] at h
    by_cases hk : k = name
    · subst hk
      simp only [if_true] at h
      by_cases hu : u = t
      · simp only [hu, if_true, Option.some.injEq] at h
        subst h; simp [Fields.names]
      · simp only [hu, if_false, Option.map_eq_some_iff] at h
        obtain ⟨w, _, rfl⟩ := h
        simp [Fields.names]
    · simp only [hk, if_false, Option.map_eq_some_iff] at h
      obtain ⟨r', hr, rfl⟩ := h
      have ih := mergeFieldInto_names m name t rest r' hr
      have : ¬ name = k := fun e => hk e.symm
      simp only [Fields.names, ih, List.mem_cons, this, false_or, List.cons_append]

theorem lookup_none_of_not_mem : {fs : Fields} → {n : Name} → n ∉ fs.names → fs.lookup n = none
  | .nil, _, _ => by simp [Fields.lookup]
  | .cons k u r, n, h => by
    simp only [Fields.names, List.mem_cons, not_or] at h
    have : ¬ k = n := fun e => h.1 e.symm
    simp [Fields.lookup, this, lookup_none_of_not_mem h.2]

/-- `lookup` in the merged record, field by field -/
theorem mergeFields_lookup (m : Ty → Ty → Option Ty) :
    (fb acc fc : Fields) → fb.names.Nodup → mergeFields m acc fb = some fc → ∀ n,
      fc.lookup n =
        (match acc.lookup n, fb.lookup n with
         | some u, none => some u
         | none, some t => some t
         | none, none => none
         | some u, some t => if u = t then some u else m u t)
  | .nil, acc, fc, _, h, n => by
    simp only [mergeFields, Option.some.injEq] at h
    subst h
    cases acc.lookup n <;> simp [Fields.lookup]
  | .cons k t rest, acc, fc, hnd, h, n => by
    simp only [mergeFields, Option.bind_eq_some_iff] at h
    obtain ⟨acc', h1, h2⟩ := h
    simp only [Fields.names, List.nodup_cons] at hnd
    have ih := mergeFields_lookup m rest acc' fc hnd.2 h2 n
    have hl := mergeFieldInto_lookup m k t acc acc' h1 n
    rw [ih, hl]
    by_cases hn : n = k
    · subst hn
      have hr : rest.lookup n = none := lookup_none_of_not_mem hnd.1
      simp only [if_true, hr, Fields.lookup]
      cases ha : acc.lookup n with
      | none => simp
      | some u =>
        by_cases hu : u = t
        · simp [hu]
        · simp only [hu, if_false]
          cases m u t <;> simp
    · have : ¬ k = n := fun e => hn e.symm
      simp [hn, Fields.lookup, this]

theorem mergeFields_names_nodup (m : Ty → Ty → Option Ty) :
    (fb acc fc : Fields) → acc.names.Nodup → mergeFields m acc fb = some fc → fc.names.Nodup
  | .nil, acc, fc, ha, h => by
    simp only [mergeFields, Option.some.injEq] at h
    subst h; exact ha
  | .cons k t rest, acc, fc, ha, h => by
    simp only [mergeFields, Option.bind_eq_some_iff] at h
    obtain ⟨acc', h1, h2⟩ := h
    refine mergeFields_names_nodup m rest acc' fc ?_ h2
    rw [mergeFieldInto_names m k t acc acc' h1]
    by_cases hk : k ∈ acc.names
    · simpa [hk] using ha
    · simp only [hk, if_false]
      rw [List.nodup_append]
      exact ⟨ha, by simp, by intro a ha' b hb; simp at hb; subst hb; exact fun e => hk (e ▸ ha')⟩

theorem fitsFields_of (fc : Fields) : (fa : Fields) →
    (∀ i n t, fa.get? i = some (n, t) → ∃ u, fc.lookup n = some u ∧ fitsN t u = true) →
    fitsFields fa fc = true
  | .nil, _ => by simp [fitsFields]
  | .cons n t r, h => by
    obtain ⟨u, h1, h2⟩ := h 0 n t rfl
    have ih := fitsFields_of fc r (fun i n' t' hi => h (i + 1) n' t' (by simpa [Fields.get?] using hi))
    simp only [fitsFields, h1, ih, Bool.and_true]
    exact h2

theorem cleanF_get? : {fs : Fields} → cleanF fs = true → {i : Nat} → {n : Name} → {t : Ty} →
    fs.get? i = some (n, t) → clean t = true
  | .nil, _, _, _, _, h => by simp [Fields.get?] at h
  | .cons k u r, hc, 0, n, t, h => by
    simp only [Fields.get?, Option.some.injEq, Prod.mk.injEq] at h
    simp only [cleanF, Bool.and_eq_true] at hc
    rw [← h.2]; exact hc.1
  | .cons k u r, hc, i + 1, n, t, h => by
    simp only [cleanF, Bool.and_eq_true] at hc
    exact cleanF_get? hc.2 (by simpa [Fields.get?] using h)

/-- a record type fitsN a record target that has all its fields, each fitting -/
theorem fits_record {a T : Ty} {fa fo : Fields} (ha : a.under = .record fa) (hT : T.under = .record fo)
    (hna : fa.names.Nodup) (hno : fo.names.Nodup) (hf : fitsFields fa fo = true) : fitsN a T = true := by
  have hTm : T.isMap = false := by simp [Ty.isMap, hT]
  have hTp : T.isPrim = false := by simp [Ty.isPrim, hT]
  have hU : ∀ cur : Ty, cur.under = .record fa → fitsU a cur T = true := by
    intro cur
    fun_induction Ty.under cur with
    | case1 n t ih => intro h; simp only [fitsU]; exact ih h
    | case2 t hnot =>
      intro h
      subst h
      simp [fitsU, hT, hna, hno, hf]
  simp [fitsN, fitsHead, hTm, hTp, hU a ha]

theorem lookup_of_mem_names : {fs : Fields} → {n : Name} → n ∈ fs.names → ∃ u, fs.lookup n = some u
  | .nil, _, h => by simp [Fields.names] at h
  | .cons k u r, n, h => by
    by_cases hk : k = n
    · exact ⟨u, by simp [Fields.lookup, hk]⟩
    · simp only [Fields.names, List.mem_cons] at h
      rcases h with h | h
      · exact absurd h.symm hk
      · obtain ⟨w, hw⟩ := lookup_of_mem_names h
        exact ⟨w, by simp [Fields.lookup, hk, hw]⟩

theorem mergeFields_names_sup (m : Ty → Ty → Option Ty) :
    (fb acc fc : Fields) → mergeFields m acc fb = some fc →
      (∀ n ∈ acc.names, n ∈ fc.names) ∧ (∀ n ∈ fb.names, n ∈ fc.names)
  | .nil, acc, fc, h => by
    simp only [mergeFields, Option.some.injEq] at h
    subst h; simp [Fields.names]
  | .cons k t rest, acc, fc, h => by
    simp only [mergeFields, Option.bind_eq_some_iff] at h
    obtain ⟨acc', h1, h2⟩ := h
    obtain ⟨i1, i2⟩ := mergeFields_names_sup m rest acc' fc h2
    have hn := mergeFieldInto_names m k t acc acc' h1
    have hsub : ∀ n ∈ acc.names, n ∈ acc'.names := by
      intro n hn'; rw [hn]; exact List.mem_append_left _ hn'
    have hk : k ∈ acc'.names := by
      rw [hn]
      by_cases hk : k ∈ acc.names
      · exact List.mem_append_left _ hk
      · simp [hk]
    refine ⟨fun n hn' => i1 n (hsub n hn'), ?_⟩
    intro n hn'
    simp only [Fields.names, List.mem_cons] at hn'
    rcases hn' with rfl | hn'
    · exact i1 _ hk
    · exact i2 n hn'

theorem fits_inner {a T x z : Ty} (ha : a.inner? = some x) (hT : T.inner? = some z) (h : fitsN x z = true) :
    fitsN a T = true := by
  have hTm : T.isMap = false := by
    unfold Ty.inner? at hT; unfold Ty.isMap
    cases hu : T.under <;> simp_all
  have hTp : T.isPrim = false := by
    unfold Ty.inner? at hT; unfold Ty.isPrim
    cases hu : T.under <;> simp_all
  have hU : ∀ cur : Ty, cur.inner? = some x → fitsU a cur T = true := by
    intro cur
    fun_induction Ty.under cur with
    | case1 n t ih => intro hh; simp only [fitsU]; exact ih (by simpa [Ty.inner?, Ty.under] using hh)
    | case2 t hnot =>
      intro hh
      unfold fitsN at h
      cases t with
      | array i =>
        simp only [Ty.inner?, Ty.under, Option.some.injEq] at hh; subst hh
        simp [fitsU, hT, h]
      | set i =>
        simp only [Ty.inner?, Ty.under, Option.some.injEq] at hh; subst hh
        simp [fitsU, hT, h]
      | named n u => exact absurd rfl (hnot n u)
      | prim _ => simp [Ty.inner?, Ty.under] at hh
      | record _ => simp [Ty.inner?, Ty.under] at hh
      | map _ _ => simp [Ty.inner?, Ty.under] at hh
      | union _ => simp [Ty.inner?, Ty.under] at hh
      | enum _ => simp [Ty.inner?, Ty.under] at hh
      | error _ => simp [Ty.inner?, Ty.under] at hh
  simp [fitsN, fitsHead, hTm, hTp, hU a ha]

theorem fits_refl (t : Ty) : fitsN t t = true := fits_of_under_eq rfl

theorem clean_inner {a x : Ty} (hc : clean a = true) (h : a.inner? = some x) : clean x = true := by
  have := clean_under a hc
  unfold Ty.inner? at h
  cases hu : a.under <;> simp_all [clean]

/-- **Both inputs fit their merge**, for clean inputs and every fuel at which `merge` answers. -/
theorem merge_fitsJoin : (n : Nat) → FitsJoin (merge n)
  | 0 => by intro a b c _ _ h; simp [merge] at h
  | n + 1 => by
    have ih := merge_fitsJoin n
    intro a b c ca cb h
    simp only [merge] at h
    by_cases ha : a.under = tyNull
    · simp only [ha, if_true, Option.some.injEq] at h
      subst h; exact ⟨fits_of_null ha, fits_refl _⟩
    · simp only [ha, if_false] at h
      by_cases hb : b.under = tyNull
      · simp only [hb, if_true, Option.some.injEq] at h
        subst h; exact ⟨fits_refl _, fits_of_null hb⟩
      · simp only [hb, if_false] at h
        have cua := clean_under a ca
        have cub := clean_under b cb
        split at h
        · rename_i fa fb hfa hfb
          simp only [Option.map_eq_some_iff] at h
          obtain ⟨fc, h1, rfl⟩ := h
          rw [hfa] at cua; rw [hfb] at cub
          simp only [clean, Bool.and_eq_true, decide_eq_true_eq] at cua cub
          have hnc := mergeFields_names_nodup (merge n) fb fa fc cua.2 h1
          have hL := mergeFields_lookup (merge n) fb fa fc cub.2 h1
          obtain ⟨sa, sb⟩ := mergeFields_names_sup (merge n) fb fa fc h1
          constructor
          · refine fits_record hfa rfl cua.2 hnc (fitsFields_of fc fa ?_)
            intro i nm t hi
            obtain ⟨w, hw⟩ := lookup_of_mem_names (sa nm (get?_mem_names hi))
            refine ⟨w, hw, ?_⟩
            have hl := hL nm
            rw [hw, (nodup_get?_lookup cua.2 hi).1] at hl
            cases hfbl : fb.lookup nm with
            | none =>
              simp only [hfbl, Option.some.injEq] at hl
              subst hl; exact fits_refl _
            | some t' =>
              simp only [hfbl] at hl
              by_cases htt : t = t'
              · simp only [htt, if_true, Option.some.injEq] at hl
                subst hl; subst htt; exact fits_refl _
              · simp only [htt, if_false] at hl
                obtain ⟨j, hj, _⟩ := lookup_some_get? hfbl
                exact (ih t t' w (cleanF_get? cua.1 hi) (cleanF_get? cub.1 hj) hl.symm).1
          · refine fits_record hfb rfl cub.2 hnc (fitsFields_of fc fb ?_)
            intro j nm t' hj
            obtain ⟨w, hw⟩ := lookup_of_mem_names (sb nm (get?_mem_names hj))
            refine ⟨w, hw, ?_⟩
            have hl := hL nm
            rw [hw, (nodup_get?_lookup cub.2 hj).1] at hl
            cases hfal : fa.lookup nm with
            | none =>
              simp only [hfal, Option.some.injEq] at hl
              subst hl; exact fits_refl _
            | some t =>
              simp only [hfal] at hl
              by_cases htt : t = t'
              · simp only [htt, if_true, Option.some.injEq] at hl
                subst hl; exact fits_refl _
              · simp only [htt, if_false] at hl
                obtain ⟨i, hi, _⟩ := lookup_some_get? hfal
                exact (ih t t' w (cleanF_get? cua.1 hi) (cleanF_get? cub.1 hj) hl.symm).2
        · rename_i x y hx hy
          simp only [Option.map_eq_some_iff] at h
          obtain ⟨z, h1, rfl⟩ := h
          have hax : a.inner? = some x := by simp [Ty.inner?, hx]
          have hby : b.inner? = some y := by simp [Ty.inner?, hy]
          obtain ⟨f1, f2⟩ := ih x y z (clean_inner ca hax) (clean_inner cb hby) h1
          exact ⟨fits_inner hax (by simp [Ty.inner?, Ty.under]) f1, fits_inner hby (by simp [Ty.inner?, Ty.under]) f2⟩
        · rename_i x y hx hy
          simp only [Option.map_eq_some_iff] at h
          obtain ⟨z, h1, rfl⟩ := h
          have hax : a.inner? = some x := by simp [Ty.inner?, hx]
          have hby : b.inner? = some y := by simp [Ty.inner?, hy]
          obtain ⟨f1, f2⟩ := ih x y z (clean_inner ca hax) (clean_inner cb hby) h1
          exact ⟨fits_inner hax (by simp [Ty.inner?, Ty.under]) f1, fits_inner hby (by simp [Ty.inner?, Ty.under]) f2⟩
        · rename_i x y hx hy
          simp only [Option.map_eq_some_iff] at h
          obtain ⟨z, h1, rfl⟩ := h
          have hax : a.inner? = some x := by simp [Ty.inner?, hx]
          have hby : b.inner? = some y := by simp [Ty.inner?, hy]
          obtain ⟨f1, f2⟩ := ih x y z (clean_inner ca hax) (clean_inner cb hby) h1
          exact ⟨fits_inner hax (by simp [Ty.inner?, Ty.under]) f1, fits_inner hby (by simp [Ty.inner?, Ty.under]) f2⟩
        · rename_i x y hx hy
          simp only [Option.map_eq_some_iff] at h
          obtain ⟨z, h1, rfl⟩ := h
          have hax : a.inner? = some x := by simp [Ty.inner?, hx]
          have hby : b.inner? = some y := by simp [Ty.inner?, hy]
          obtain ⟨f1, f2⟩ := ih x y z (clean_inner ca hax) (clean_inner cb hby) h1
          exact ⟨fits_inner hax (by simp [Ty.inner?, Ty.under]) f1, fits_inner hby (by simp [Ty.inner?, Ty.under]) f2⟩
        · rename_i k v k' v' hx hy
          rw [hx] at cua
          simp [clean] at cua
        · -- neither pair of kinds matches: the two-member union (inputs are not unions)
          have hau := (clean_not_union a ca).1
          have hbu := (clean_not_union b cb).1
          unfold mergeUnion at h
          split at h
          · rename_i as has
            simp [Ty.isUnion, has] at hau
          · simp only [hbu, Bool.false_eq_true, if_false, Option.some.injEq] at h
            subst h
            obtain ⟨ms, m1, m2⟩ := mem_lookupUnion [a, b] a (by simp)
            obtain ⟨ms', m1', m2'⟩ := mem_lookupUnion [a, b] b (by simp)
            exact ⟨fits_member ca m1 m2, fits_member cb m1' m2'⟩

end Zed.Fuse
