import Zed.Model.VecCacheLock
/-! A set of states that contains the initial state and is closed under `step` contains every
    state any schedule reaches (C09, lock protocol of `vcache.Cache.Fetch`). -/
namespace Zed.VecCacheLock

theorem run_mem (prog : List Ins) (ss : List St) (hc : closed prog ss = true) :
    ∀ (sched : List Bool) (s s' : St), ss.contains s = true → run prog sched s = some s' →
      ss.contains s' = true
  | [], s, s', hs, h => by
    simp only [run, Option.some.injEq] at h
    subst h
    exact hs
  | t :: rest, s, s', hs, h => by
    simp only [run] at h
    cases hst : step prog s t with
    | none => simp [hst] at h
    | some s1 =>
      simp only [hst] at h
      have hmem : s ∈ ss := by simpa using hs
      have hall := List.all_eq_true.mp hc s hmem
      simp only [List.all_cons, List.all_nil, Bool.and_true, Bool.and_eq_true] at hall
      have h1 : ss.contains s1 = true := by
        cases t with
        | false => have := hall.1; simpa [hst] using this
        | true => have := hall.2; simpa [hst] using this
      exact run_mem prog ss hc rest s1 s' h1 h

end Zed.VecCacheLock
