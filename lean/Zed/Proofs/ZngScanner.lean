import Zed.Model.ZngScanner
/-! Invariant of the scanner transition system. -/
namespace Zed.Zng.Scanner
variable {R : Type}

/-- queue = the consecutive slot numbers `pulled … next-1`; every filled slot holds its own
    item's result; what was delivered is the results of items `0 … pulled-1` in order. -/
structure Inv (res : Nat → R) (s : State R) : Prop where
  le : s.pulled ≤ s.next
  queue : s.queue = List.range' s.pulled (s.next - s.pulled)
  filled : ∀ k r, lookup k s.filled = some r → r = res k
  delivered : s.delivered = (List.range s.pulled).map res

theorem inv_init (res : Nat → R) (threads : Nat) : Inv res (init threads : State R) :=
  ⟨Nat.le_refl _, by simp [init], by intro k r h; simp [init, lookup] at h, by simp [init]⟩

theorem lookup_cons (k j : Nat) (r : R) (l : List (Nat × R)) (x : R)
    (h : lookup k ((j, r) :: l) = some x) : (j = k ∧ x = r) ∨ lookup k l = some x := by
  simp only [lookup] at h
  split at h
  · left; exact ⟨by assumption, by cases h; rfl⟩
  · right; exact h

theorem inv_step (res : Nat → R) (isWork : Nat → Bool) (total : Nat) (s s' : State R) (a : Action)
    (hi : Inv res s) (h : step res isWork total s a = some s') : Inv res s' := by
  obtain ⟨hle, hq, hf, hd⟩ := hi
  cases a with
  | dispatch =>
    simp only [step] at h
    split at h
    · cases h
      refine ⟨by simp; omega, ?_, hf, hd⟩
      simp only [hq]
      have e : s.next + 1 - s.pulled = (s.next - s.pulled) + 1 := by omega
      rw [e, List.range'_concat]
      simp; omega
    · cases h
  | control =>
    simp only [step] at h
    split at h
    · cases h
      refine ⟨by simp; omega, ?_, ?_, hd⟩
      · simp only [hq]
        have e : s.next + 1 - s.pulled = (s.next - s.pulled) + 1 := by omega
        rw [e, List.range'_concat]
        simp; omega
      · intro k r hl
        rcases lookup_cons k _ _ _ r hl with ⟨rfl, rfl⟩ | h2
        · rfl
        · exact hf k r h2
    · cases h
  | finish k =>
    simp only [step] at h
    split at h
    · cases h
      refine ⟨hle, hq, ?_, hd⟩
      intro j r hl
      rcases lookup_cons j _ _ _ r hl with ⟨rfl, rfl⟩ | h2
      · rfl
      · exact hf j r h2
    · cases h
  | pull =>
    simp only [step] at h
    split at h
    · cases h
    · rename_i k rest hqe
      split at h
      · cases h
      · rename_i r hl
        cases h
        have hne : s.next - s.pulled ≠ 0 := by
          intro h0; rw [h0] at hq; simp [hq] at hqe
        have e : s.next - s.pulled = (s.next - s.pulled - 1) + 1 := by omega
        rw [hqe, e, List.range'_succ] at hq
        have hk : k = s.pulled := (List.cons.inj hq).1
        have hrest : rest = List.range' (s.pulled + 1) (s.next - s.pulled - 1) := (List.cons.inj hq).2
        refine ⟨by simp; omega, ?_, hf, ?_⟩
        · simp only [hrest]
          have : s.next - (s.pulled + 1) = s.next - s.pulled - 1 := by omega
          rw [this]
        · simp only [hd, List.range_succ, List.map_append, List.map_cons, List.map_nil]
          rw [hf k r hl, hk]

theorem inv_run (res : Nat → R) (isWork : Nat → Bool) (total : Nat) :
    ∀ (sched : List Action) (s : State R), Inv res s → Inv res (run res isWork total s sched) := by
  intro sched
  induction sched with
  | nil => intro s h; exact h
  | cons a as ih =>
    intro s h
    simp only [run]
    split
    · rename_i s' hs; exact ih s' (inv_step res isWork total s s' a h hs)
    · exact ih s h

end Zed.Zng.Scanner
