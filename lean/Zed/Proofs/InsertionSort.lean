import Zed.Model.CompareTypes
/-! Insertion sort (`insRev` / `insertionSort` of Model/CompareTypes) yields the unique sorted
    permutation when `less` is a strict total order on the elements. -/
namespace Zed
open List

section
variable {α : Type} (less : α → α → Bool) (P : α → Prop)

structure StrictTotalOn : Prop where
  asymm : ∀ a b, P a → P b → less a b = true → less b a = false
  trans_ge : ∀ a b c, P a → P b → P c → less a b = false → less b c = false → less a c = false
  antisymm : ∀ a b, P a → P b → less a b = false → less b a = false → a = b

theorem insRev_perm (x : α) : (acc : List α) → (insRev less x acc).Perm (x :: acc)
  | [] => by simp [insRev]
  | y :: ys => by
    simp only [insRev]
    split
    · exact ((insRev_perm x ys).cons y).trans (Perm.swap x y ys)
    · exact Perm.refl _

theorem insRev_sorted (h : StrictTotalOn less P) (x : α) (hx : P x) :
    (acc : List α) → (∀ y ∈ acc, P y) → acc.Pairwise (fun a b => less a b = false) →
    (insRev less x acc).Pairwise (fun a b => less a b = false)
  | [], _, _ => by simp [insRev]
  | y :: ys, hP, hs => by
    have hy : P y := hP y (by simp)
    have hys : ∀ z ∈ ys, P z := fun z hz => hP z (by simp [hz])
    rw [pairwise_cons] at hs
    simp only [insRev]
    split
    · rename_i hlt
      rw [pairwise_cons]
      refine ⟨?_, insRev_sorted h x hx ys hys hs.2⟩
      intro z hz
      have hz' := (insRev_perm less x ys).mem_iff.mp hz
      simp only [mem_cons] at hz'
      rcases hz' with rfl | hz'
      · exact h.asymm _ _ hx hy hlt
      · exact hs.1 z hz'
    · rename_i hge
      have hge' : less x y = false := by simpa using hge
      rw [pairwise_cons]
      refine ⟨?_, pairwise_cons.mpr hs⟩
      intro z hz
      simp only [mem_cons] at hz
      rcases hz with rfl | hz
      · exact hge'
      · exact h.trans_ge x y z hx hy (hys z hz) hge' (hs.1 z hz)

theorem foldl_insRev (h : StrictTotalOn less P) :
    (l acc : List α) → (∀ y ∈ l, P y) → (∀ y ∈ acc, P y) → acc.Pairwise (fun a b => less a b = false) →
    (l.foldl (fun acc x => insRev less x acc) acc).Pairwise (fun a b => less a b = false) ∧
    (l.foldl (fun acc x => insRev less x acc) acc).Perm (l ++ acc)
  | [], acc, _, _, hs => ⟨hs, Perm.refl _⟩
  | x :: xs, acc, hl, ha, hs => by
    have hx : P x := hl x (by simp)
    have hxs : ∀ y ∈ xs, P y := fun y hy => hl y (by simp [hy])
    have hp := insRev_perm less x acc
    have ha' : ∀ y ∈ insRev less x acc, P y := by
      intro y hy
      have := hp.mem_iff.mp hy
      simp only [mem_cons] at this
      rcases this with rfl | this
      · exact hx
      · exact ha y this
    have ih := foldl_insRev h xs (insRev less x acc) hxs ha' (insRev_sorted less P h x hx acc ha hs)
    refine ⟨ih.1, ih.2.trans ?_⟩
    simp only [cons_append]
    exact (Perm.append_left xs hp).trans perm_middle

theorem insertionSort_perm (h : StrictTotalOn less P) (l : List α) (hl : ∀ y ∈ l, P y) :
    (insertionSort less l).Perm l := by
  have := (foldl_insRev less P h l [] hl (by simp) Pairwise.nil).2
  simp only [append_nil] at this
  exact (reverse_perm _).trans this

theorem insertionSort_sorted (h : StrictTotalOn less P) (l : List α) (hl : ∀ y ∈ l, P y) :
    (insertionSort less l).Pairwise (fun a b => less b a = false) := by
  have := (foldl_insRev less P h l [] hl (by simp) Pairwise.nil).1
  unfold insertionSort
  rw [pairwise_reverse]
  exact this

/-- any two member orders give the same sorted list -/
theorem insertionSort_eq_of_perm (h : StrictTotalOn less P) (l l' : List α) (hp : l'.Perm l)
    (hl : ∀ y ∈ l, P y) : insertionSort less l' = insertionSort less l := by
  have hl' : ∀ y ∈ l', P y := fun y hy => hl y (hp.mem_iff.mp hy)
  have p1 := insertionSort_perm less P h l hl
  have p2 := insertionSort_perm less P h l' hl'
  refine Perm.eq_of_pairwise (le := fun a b => less b a = false) ?_
    (insertionSort_sorted less P h l' hl') (insertionSort_sorted less P h l hl) (p2.trans (hp.trans p1.symm))
  intro a b ha hb hab hba
  exact h.antisymm a b (hl' a (p2.mem_iff.mp ha)) (hl b (p1.mem_iff.mp hb)) hba hab

/-- a list that is already sorted is left alone -/
theorem insertionSort_of_sorted (h : StrictTotalOn less P) (l : List α) (hl : ∀ y ∈ l, P y)
    (hs : l.Pairwise (fun a b => less b a = false)) : insertionSort less l = l := by
  refine Perm.eq_of_pairwise (le := fun a b => less b a = false) ?_
    (insertionSort_sorted less P h l hl) hs (insertionSort_perm less P h l hl)
  intro a b ha hb hab hba
  exact h.antisymm a b (hl a ((insertionSort_perm less P h l hl).mem_iff.mp ha)) (hl b hb) hba hab
end
end Zed
