import Zed.Model.FuseGood
/-!
  C20 model, layer 5 — `fits a T`: a decidable relation between an *input type* `a` and a
  target type `T` (in `fuse`: the fused type) that does not mention plans.  It says, place by
  place: the same underlying type, or a null-typed input, or a record all of whose fields are
  fields of the target and fit there, or an array/set whose element type fits, or a union all
  of whose members fit, or — for anything that has to go into a union of the target — a member
  of that union with the same underlying type (**NoUnionMemberReshape**); a map never has to
  become a different map and no primitive has to become a different primitive
  (**NoMapReshape**, no casts).  `Zed.Proofs.FuseFits` shows that it implies a good plan.
-/
namespace Zed.Fuse

def Fields.names : Fields → List Name
  | .nil => []
  | .cons n _ r => n :: r.names

def fitsHead (a T : Ty) (deep : Bool) : Bool :=
  a.under == tyNull || a.under == T.under || (!T.isMap && !(a.isPrim && T.isPrim) && deep)

mutual
def fitsU (orig : Ty) : Ty → Ty → Bool
  | .named _ t, T => fitsU orig t T
  | .prim _, T => (bestUnionTag orig T).isSome
  | .map _ _, T => (bestUnionTag orig T).isSome
  | .record fa, T =>
    (bestUnionTag orig T).isSome ||
      (match T.under with
       | .record fo => decide fa.names.Nodup && decide fo.names.Nodup && fitsFields fa fo
       | _ => false)
  | .array i, T =>
    (bestUnionTag orig T).isSome ||
      (match T.inner? with | some oi => fitsHead i oi (fitsU i i oi) | none => false)
  | .set i, T =>
    (bestUnionTag orig T).isSome ||
      (match T.inner? with | some oi => fitsHead i oi (fitsU i i oi) | none => false)
  | .union ms, T => fitsMembers ms T
  | .enum _, T => (bestUnionTag orig T).isSome
  | .error _, T => (bestUnionTag orig T).isSome
termination_by structural x => x
/-- every input field is a field of the target and fits there -/
def fitsFields : Fields → Fields → Bool
  | .nil, _ => true
  | .cons n t r, fo =>
    (match fo.lookup n with
     | some u => fitsHead t u (fitsU t t u)
     | none => false) && fitsFields r fo
termination_by structural x => x
def fitsMembers : Tys → Ty → Bool
  | .nil, _ => true
  | .cons m r, T => fitsHead m T (fitsU m m T) && fitsMembers r T
termination_by structural x => x
end

/-- (`fitsN`: at a nested position; `fits`: for a whole input value.)
    The input type `a` can be shaped into `T` without reshaping a map, casting a primitive or
    reshaping a value into a union member; a top-level error value is never shaped
    (`ConstShaper.Eval` returns it as it is), so an error type fits only itself -/
def fitsN (a T : Ty) : Bool := fitsHead a T (fitsU a a T)

def fits (a T : Ty) : Bool := (!a.isError || a == T) && fitsN a T

mutual
/-- union-free, map-free types with distinct field names (names allowed) -/
def clean : Ty → Bool
  | .prim _ => true
  | .record fs => cleanF fs && decide fs.names.Nodup
  | .array t => clean t
  | .set t => clean t
  | .map _ _ => false
  | .union _ => false
  | .named _ t => clean t
  | .enum _ => true
  | .error _ => false
def cleanF : Fields → Bool
  | .nil => true
  | .cons _ t r => clean t && cleanF r
end

end Zed.Fuse
