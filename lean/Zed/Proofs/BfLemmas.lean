/-
  Lemmas for C04 (Props/C04.lean): byte search, sub-value serialisations, Walk.
-/
import Zed.Model.BfFilter
namespace Zed.Bf

/-! ## byte search -/

theorem prefixBy_append (eq : UInt8 → UInt8 → Bool) :
    ∀ (pat a b : Bytes), prefixBy eq pat a = true → prefixBy eq pat (a ++ b) = true
  | [], a, b, _ => by cases h : a ++ b <;> rfl
  | _ :: _, [], _, h => by simp [prefixBy] at h
  | p :: ps, x :: xs, b, h => by
    simp only [prefixBy, Bool.and_eq_true] at h
    simp only [List.cons_append, prefixBy, Bool.and_eq_true]
    exact ⟨h.1, prefixBy_append eq ps xs b h.2⟩

theorem findBy_append_right (eq : UInt8 → UInt8 → Bool) (pat : Bytes) :
    ∀ (a b : Bytes), findBy eq pat a = true → findBy eq pat (a ++ b) = true
  | [], b, h => by
    simp only [findBy] at h
    have := prefixBy_append eq pat [] b h
    simp only [List.nil_append] at this ⊢
    cases b with
    | nil => simpa [findBy] using this
    | cons y ys => simp [findBy, this]
  | x :: xs, b, h => by
    simp only [findBy, Bool.or_eq_true] at h
    simp only [List.cons_append, findBy, Bool.or_eq_true]
    rcases h with h | h
    · exact Or.inl (prefixBy_append eq pat (x :: xs) b h)
    · exact Or.inr (findBy_append_right eq pat xs b h)

theorem findBy_append_left (eq : UInt8 → UInt8 → Bool) (pat : Bytes) :
    ∀ (a b : Bytes), findBy eq pat b = true → findBy eq pat (a ++ b) = true
  | [], _, h => h
  | x :: xs, b, h => by
    simp only [List.cons_append, findBy, Bool.or_eq_true]
    exact Or.inr (findBy_append_left eq pat xs b h)

/-- `a` occurs contiguously in `b`. -/
def Infix (a b : Bytes) : Prop := ∃ pre post, b = pre ++ a ++ post

theorem Infix.refl (a : Bytes) : Infix a a := ⟨[], [], by simp⟩

theorem Infix.trans {a b c : Bytes} (h1 : Infix a b) (h2 : Infix b c) : Infix a c := by
  obtain ⟨p1, q1, rfl⟩ := h1
  obtain ⟨p2, q2, rfl⟩ := h2
  exact ⟨p2 ++ p1, q1 ++ q2, by simp [List.append_assoc]⟩

theorem Infix.append_left {a b : Bytes} (pre : Bytes) (h : Infix a b) : Infix a (pre ++ b) := by
  obtain ⟨p, q, rfl⟩ := h
  exact ⟨pre ++ p, q, by simp [List.append_assoc]⟩

theorem Infix.append_right {a b : Bytes} (post : Bytes) (h : Infix a b) : Infix a (b ++ post) := by
  obtain ⟨p, q, rfl⟩ := h
  exact ⟨p, q ++ post, by simp [List.append_assoc]⟩

theorem findBy_infix (eq : UInt8 → UInt8 → Bool) (pat : Bytes) {a b : Bytes} (h : Infix a b)
    (hf : findBy eq pat a = true) : findBy eq pat b = true := by
  obtain ⟨p, q, rfl⟩ := h
  exact findBy_append_right eq pat _ q (findBy_append_left eq pat p a hf)

theorem prefixBy_self (eq : UInt8 → UInt8 → Bool) (hrefl : ∀ x, eq x x = true) :
    ∀ pat : Bytes, prefixBy eq pat pat = true
  | [] => rfl
  | p :: ps => by simp [prefixBy, hrefl, prefixBy_self eq hrefl ps]

theorem findBy_self (eq : UInt8 → UInt8 → Bool) (hrefl : ∀ x, eq x x = true) (pat : Bytes) :
    findBy eq pat pat = true := by
  cases pat with
  | nil => rfl
  | cons p ps => simp [findBy, prefixBy_self eq hrefl (p :: ps)]

theorem lowerAscii_idem (b : UInt8) : lowerAscii (lowerAscii b) = lowerAscii b := by
  unfold lowerAscii
  split
  · rename_i h
    have hb : (b + 32).toNat = b.toNat + 32 := by
      rw [UInt8.toNat_add]; simp; omega
    have : ¬ (65 ≤ (b + 32).toNat ∧ (b + 32).toNat ≤ 90) := by omega
    rw [if_neg this]
  · rfl

theorem prefixBy_lower (pat : Bytes) : ∀ s : Bytes,
    prefixBy foldEq (pat.map lowerAscii) s = prefixBy foldEq pat s := by
  induction pat with
  | nil => intro s; rfl
  | cons p ps ih =>
    intro s
    cases s with
    | nil => rfl
    | cons x xs => simp [prefixBy, foldEq, lowerAscii_idem, ih xs]

theorem findBy_lower (pat : Bytes) : ∀ s : Bytes,
    findBy foldEq (pat.map lowerAscii) s = findBy foldEq pat s
  | [] => by simp [findBy, prefixBy_lower]
  | x :: xs => by simp [findBy, prefixBy_lower, findBy_lower pat xs]

/-! ## sub-values are contiguous in the serialisation -/

theorem enc_prim_infix (b : Bytes) : Infix b (enc (.prim b)) :=
  ⟨uvarint (b.length + 1), [], by simp [enc]⟩

theorem enc_cont_infix (items : Vals) : Infix (encs items) (enc (.cont items)) :=
  ⟨uvarint ((encs items).length + 1), [], by simp [enc]⟩

theorem vals_any_infix : ∀ (items : Vals) (f : Val → Bool), items.any f = true →
    ∃ v, f v = true ∧ Infix (enc v) (encs items)
  | .nil, _, h => by simp [Vals.any] at h
  | .cons v r, f, h => by
    simp only [Vals.any, Bool.or_eq_true] at h
    rcases h with h | h
    · exact ⟨v, h, ⟨[], encs r, by simp [encs]⟩⟩
    · obtain ⟨w, hw, hi⟩ := vals_any_infix r f h
      exact ⟨w, hw, by simp only [encs]; exact hi.append_left _⟩

theorem vals_anyKV_infix : ∀ (items : Vals) (fk fv : Val → Bool), items.anyKV fk fv = true →
    ∃ v, (fk v = true ∨ fv v = true) ∧ Infix (enc v) (encs items)
  | .nil, _, _, h => by simp [Vals.anyKV] at h
  | .cons _ .nil, _, _, h => by simp [Vals.anyKV] at h
  | .cons k (.cons v r), fk, fv, h => by
    simp only [Vals.anyKV, Bool.or_eq_true] at h
    rcases h with (h | h) | h
    · exact ⟨k, Or.inl h, ⟨[], encs (.cons v r), by simp [encs]⟩⟩
    · exact ⟨v, Or.inr h, ⟨enc k, encs r, by simp [encs]⟩⟩
    · obtain ⟨w, hw, hi⟩ := vals_anyKV_infix r fk fv h
      refine ⟨w, hw, ?_⟩
      simp only [encs]
      exact (hi.append_left _).append_left _

theorem getField_infix : ∀ (fs : Fields) (items : Vals) (name : Bytes) (t : Ty) (v : Val),
    getField fs items name = some (t, v) → Infix (enc v) (encs items)
  | .cons n ft r, .cons x xs, name, t, v, h => by
    simp only [getField] at h
    split at h
    · simp only [Option.some.injEq, Prod.mk.injEq] at h
      obtain ⟨_, rfl⟩ := h
      exact ⟨[], encs xs, by simp [encs]⟩
    · have := getField_infix r xs name t v h
      simp only [encs]; exact this.append_left _
  | .nil, _, _, _, _, h => by simp [getField] at h
  | .cons _ _ _, .nil, _, _, _, h => by simp [getField] at h

theorem getPath_infix : ∀ (p : List Bytes) (t : Ty) (v : Val) (t' : Ty) (v' : Val),
    getPath t v p = some (t', v') → Infix (enc v') (enc v)
  | [], t, v, t', v', h => by
    simp only [getPath, Option.some.injEq, Prod.mk.injEq] at h
    obtain ⟨_, rfl⟩ := h; exact Infix.refl _
  | name :: rest, t, v, t', v', h => by
    simp only [getPath] at h
    split at h
    · rename_i _ _ fs items _
      split at h
      · rename_i ft fv hgf
        have h1 := getPath_infix rest ft fv t' v' h
        have h2 := getField_infix fs items name ft fv hgf
        exact h1.trans (h2.trans (enc_cont_infix items))
      · simp at h
    · simp at h

/-- every (type, body) pair `Walk` visits is a sub-value, contiguous in the serialisation. -/
theorem walkAny_infix (t : Ty) : ∀ (visit : Ty → Val → Bool) (skip : Bool) (v : Val),
    walkAny visit skip t v = true → ∃ t' v', visit t' v' = true ∧ Infix (enc v') (enc v) := by
  apply @Ty.rec
    (motive_1 := fun t => ∀ (visit : Ty → Val → Bool) (skip : Bool) (v : Val),
      walkAny visit skip t v = true → ∃ t' v', visit t' v' = true ∧ Infix (enc v') (enc v))
    (motive_2 := fun fs => ∀ (visit : Ty → Val → Bool) (items : Vals),
      walkFields visit fs items = true → ∃ t' v', visit t' v' = true ∧ Infix (enc v') (encs items))
    (motive_3 := fun ts => ∀ (visit : Ty → Val → Bool) (n : Nat) (v : Val),
      walkUnion visit ts n v = true → ∃ t' v', visit t' v' = true ∧ Infix (enc v') (enc v))
  case prim =>
    intro id visit skip v h
    cases skip <;> simp only [walkAny] at h <;> exact ⟨_, _, h, Infix.refl _⟩
  case enum =>
    intro n visit skip v h
    cases skip <;> simp only [walkAny] at h <;> exact ⟨_, _, h, Infix.refl _⟩
  case record =>
    intro fs ih visit skip v h
    cases skip <;> simp only [walkAny, Bool.or_eq_true] at h <;>
    · rcases h with h | h
      · exact ⟨_, _, h, Infix.refl _⟩
      · split at h
        · rename_i items
          obtain ⟨t', v', hv, hi⟩ := ih visit items h
          exact ⟨t', v', hv, hi.trans (enc_cont_infix items)⟩
        · simp at h
  case array =>
    intro t ih visit skip v h
    cases skip <;> simp only [walkAny, Bool.or_eq_true] at h <;>
    · rcases h with h | h
      · exact ⟨_, _, h, Infix.refl _⟩
      · split at h
        · rename_i items
          obtain ⟨w, hw, hi⟩ := vals_any_infix items _ h
          obtain ⟨t', v', hv, hi'⟩ := ih visit false w hw
          exact ⟨t', v', hv, hi'.trans (hi.trans (enc_cont_infix items))⟩
        · simp at h
  case set =>
    intro t ih visit skip v h
    cases skip <;> simp only [walkAny, Bool.or_eq_true] at h <;>
    · rcases h with h | h
      · exact ⟨_, _, h, Infix.refl _⟩
      · split at h
        · rename_i items
          obtain ⟨w, hw, hi⟩ := vals_any_infix items _ h
          obtain ⟨t', v', hv, hi'⟩ := ih visit true w hw
          exact ⟨t', v', hv, hi'.trans (hi.trans (enc_cont_infix items))⟩
        · simp at h
  case map =>
    intro k e ihk ihe visit skip v h
    cases skip <;> simp only [walkAny, Bool.or_eq_true] at h <;>
    · rcases h with h | h
      · exact ⟨_, _, h, Infix.refl _⟩
      · split at h
        · rename_i items
          obtain ⟨w, hw, hi⟩ := vals_anyKV_infix items _ _ h
          rcases hw with hw | hw
          · obtain ⟨t', v', hv, hi'⟩ := ihk visit true w hw
            exact ⟨t', v', hv, hi'.trans (hi.trans (enc_cont_infix items))⟩
          · obtain ⟨t', v', hv, hi'⟩ := ihe visit true w hw
            exact ⟨t', v', hv, hi'.trans (hi.trans (enc_cont_infix items))⟩
        · simp at h
  case union =>
    intro ts ih visit skip v h
    cases skip <;> simp only [walkAny, Bool.or_eq_true] at h <;>
    · rcases h with h | h
      · exact ⟨_, _, h, Infix.refl _⟩
      · split at h
        · rename_i tag x
          split at h
          · rename_i i _
            obtain ⟨t', v', hv, hi⟩ := ih visit i x h
            refine ⟨t', v', hv, hi.trans ?_⟩
            refine Infix.trans ?_ (enc_cont_infix _)
            exact ⟨enc (.prim tag), [], by simp [encs]⟩
          · simp at h
        · simp at h
  case named =>
    intro n t ih visit skip v h
    cases skip
    · simp only [walkAny, Bool.or_eq_true] at h
      rcases h with h | h
      · exact ⟨_, _, h, Infix.refl _⟩
      · exact ih visit false v h
    · simp only [walkAny] at h
      exact ih visit true v h
  case error =>
    intro t ih visit skip v h
    cases skip <;> simp only [walkAny, Bool.or_eq_true] at h <;>
    · rcases h with h | h
      · exact ⟨_, _, h, Infix.refl _⟩
      · exact ih visit false v h
  case nil =>
    intro visit items h
    simp [walkFields] at h
  case cons =>
    intro n t r iht ihr visit items h
    cases items with
    | nil => simp [walkFields] at h
    | cons x xs =>
      simp only [walkFields, Bool.or_eq_true] at h
      rcases h with h | h
      · obtain ⟨t', v', hv, hi⟩ := iht visit false x h
        exact ⟨t', v', hv, hi.trans ⟨[], encs xs, by simp [encs]⟩⟩
      · obtain ⟨t', v', hv, hi⟩ := ihr visit xs h
        exact ⟨t', v', hv, by simp only [encs]; exact hi.append_left _⟩
  case nil =>
    intro visit n v h
    simp [walkUnion] at h
  case cons =>
    intro t r iht ihr visit n v h
    cases n with
    | zero => simp only [walkUnion] at h; exact iht visit false v h
    | succ m => simp only [walkUnion] at h; exact ihr visit m v h

/-! ## where records may sit -/

mutual
/-- no record type anywhere inside. -/
def noRec : Ty → Bool
  | .prim _ => true
  | .enum _ => true
  | .record _ => false
  | .array t => noRec t
  | .set t => noRec t
  | .error t => noRec t
  | .named _ t => noRec t
  | .map k v => noRec k && noRec v
  | .union ts => noRecs ts
def noRecFields : Fields → Bool
  | .nil => true
  | .cons _ t r => noRec t && noRecFields r
def noRecs : Tys → Bool
  | .nil => true
  | .cons t r => noRec t && noRecs r
end

mutual
/-- records are nested only directly in records (possibly through type names): no record below
    an array, set, map, union or error. -/
def recOnly : Ty → Bool
  | .prim _ => true
  | .enum _ => true
  | .named _ t => recOnly t
  | .record fs => recOnlyF fs
  | .array t => noRec t
  | .set t => noRec t
  | .error t => noRec t
  | .map k v => noRec k && noRec v
  | .union ts => noRecs ts
def recOnlyF : Fields → Bool
  | .nil => true
  | .cons _ t r => recOnly t && recOnlyF r
def recOnlyT : Tys → Bool
  | .nil => true
  | .cons t r => recOnly t && recOnlyT r
end

/-- the visit of `searchString.Eval`'s walk. -/
def searchVisit (term : Bytes) (ty : Ty) (b : Val) : Bool := searchType term ty || strLeaf term ty b

theorem recordNames_noRec : ∀ (t : Ty), noRec t = true → recordNames t = none
  | .prim _, _ => rfl
  | .enum _, _ => rfl
  | .record _, h => by simp [noRec] at h
  | .array _, _ => rfl
  | .set _, _ => rfl
  | .error _, _ => rfl
  | .map _ _, _ => rfl
  | .union _, _ => rfl
  | .named _ t, h => by simp only [noRec] at h; simp only [recordNames]; exact recordNames_noRec t h

theorem searchType_noRec (term : Bytes) (t : Ty) (h : noRec t = true) : searchType term t = false := by
  simp [searchType, recordNames_noRec t h]

theorem vals_any_congr : ∀ (items : Vals) (f g : Val → Bool), (∀ v, f v = g v) → items.any f = items.any g
  | .nil, _, _, _ => rfl
  | .cons v r, f, g, h => by simp only [Vals.any, h v, vals_any_congr r f g h]

theorem vals_anyKV_congr : ∀ (items : Vals) (f g f' g' : Val → Bool), (∀ v, f v = g v) → (∀ v, f' v = g' v) →
    items.anyKV f f' = items.anyKV g g'
  | .nil, _, _, _, _, _, _ => rfl
  | .cons _ .nil, _, _, _, _, _, _ => rfl
  | .cons k (.cons v r), f, g, f', g', h, h' => by
    simp only [Vals.anyKV, h k, h' v, vals_anyKV_congr r f g f' g' h h']

/-- below a type without records the walk of a keyword search only looks at string leaves. -/
theorem walkAny_noRec (term : Bytes) (t : Ty) : noRec t = true → ∀ (skip : Bool) (v : Val),
    walkAny (searchVisit term) skip t v = walkAny (strLeaf term) skip t v := by
  apply @Ty.rec
    (motive_1 := fun t => noRec t = true → ∀ (skip : Bool) (v : Val),
      walkAny (searchVisit term) skip t v = walkAny (strLeaf term) skip t v)
    (motive_2 := fun fs => noRecFields fs = true → ∀ (items : Vals),
      walkFields (searchVisit term) fs items = walkFields (strLeaf term) fs items)
    (motive_3 := fun ts => noRecs ts = true → ∀ (n : Nat) (v : Val),
      walkUnion (searchVisit term) ts n v = walkUnion (strLeaf term) ts n v)
  case prim =>
    intro id h skip v
    cases skip <;> simp [walkAny, searchVisit, searchType, recordNames]
  case enum =>
    intro n h skip v
    cases skip <;> simp [walkAny, searchVisit, searchType, recordNames]
  case record => intro fs _ h; simp [noRec] at h
  case array =>
    intro t ih h skip v
    simp only [noRec] at h
    have e := fun items => vals_any_congr items (walkAny (searchVisit term) false t) (walkAny (strLeaf term) false t) (ih h false)
    cases skip <;> cases v <;> simp [walkAny, searchVisit, searchType, recordNames, e]
  case set =>
    intro t ih h skip v
    simp only [noRec] at h
    have e := fun items => vals_any_congr items (walkAny (searchVisit term) true t) (walkAny (strLeaf term) true t) (ih h true)
    cases skip <;> cases v <;> simp [walkAny, searchVisit, searchType, recordNames, e]
  case map =>
    intro k e ihk ihe h skip v
    simp only [noRec, Bool.and_eq_true] at h
    have e' := fun items => vals_anyKV_congr items _ _ _ _ (ihk h.1 true) (ihe h.2 true)
    cases skip <;> cases v <;> simp [walkAny, searchVisit, searchType, recordNames, e']
  case union =>
    intro ts ih h skip v
    simp only [noRec] at h
    cases skip <;> simp only [walkAny, searchVisit, searchType, recordNames, Bool.false_or] <;>
    · congr 1
      split
      · split
        · exact ih h _ _
        · rfl
      · rfl
  case named =>
    intro n t ih h skip v
    simp only [noRec] at h
    cases skip
    · simp only [walkAny, searchVisit, searchType, recordNames]
      rw [ih h false v]
      have := searchType_noRec term t h
      simp only [searchType] at this
      rw [this]; rfl
    · simp only [walkAny]; exact ih h true v
  case error =>
    intro t ih h skip v
    simp only [noRec] at h
    cases skip <;> simp [walkAny, searchVisit, searchType, recordNames, ih h false v]
  case nil => intro _ items; cases items <;> rfl
  case cons =>
    intro n t r iht ihr h items
    simp only [noRecFields, Bool.and_eq_true] at h
    cases items with
    | nil => rfl
    | cons x xs => simp only [walkFields, iht h.1 false x, ihr h.2 xs]
  case nil => intro _ n v; rfl
  case cons =>
    intro t r iht ihr h n v
    simp only [noRecs, Bool.and_eq_true] at h
    cases n with
    | zero => simp only [walkUnion]; exact iht h.1 false v
    | succ m => simp only [walkUnion]; exact ihr h.2 m v

theorem list_any_append_left {α : Type} (p : α → Bool) (a b : List α) (h : a.any p = true) : (a ++ b).any p = true := by
  simp [List.any_append, h]

theorem list_any_append_right {α : Type} (p : α → Bool) (a b : List α) (h : b.any p = true) : (a ++ b).any p = true := by
  simp [List.any_append, h]

theorem stringSearch_prefixed (term n m : Bytes) (h : stringSearch term m = true) :
    stringSearch term (n ++ dot :: m) = true := by
  unfold stringSearch at *
  have : n ++ dot :: m = (n ++ [dot]) ++ m := by simp
  rw [this]
  exact findBy_append_left foldEq term _ m h

/-- a field type whose own leaf names contain the term is a non-empty record, so its names
    reappear, prefixed, among the leaf names of the enclosing record. -/
theorem nestedNames_of_searchType (term : Bytes) : ∀ (t : Ty), searchType term t = true →
    ∃ ns, nestedNames t = some ns ∧ ns.any (stringSearch term) = true
  | .named _ t, h => by
    have := nestedNames_of_searchType term t (by simpa [searchType, recordNames] using h)
    simpa [nestedNames] using this
  | .record fs, h => by
    simp only [searchType, recordNames] at h
    refine ⟨fieldNames fs, ?_, h⟩
    cases fs with
    | nil => simp [fieldNames] at h
    | cons n t r => simp [nestedNames, Fields.isEmpty]
  | .prim _, h => by simp [searchType, recordNames] at h
  | .enum _, h => by simp [searchType, recordNames] at h
  | .array _, h => by simp [searchType, recordNames] at h
  | .set _, h => by simp [searchType, recordNames] at h
  | .map _ _, h => by simp [searchType, recordNames] at h
  | .union _, h => by simp [searchType, recordNames] at h
  | .error _, h => by simp [searchType, recordNames] at h

theorem fieldNames_cons_of_nested (term n : Bytes) (t : Ty) (r : Fields) (h : searchType term t = true) :
    (fieldNames (.cons n t r)).any (stringSearch term) = true := by
  obtain ⟨ns, hn, ha⟩ := nestedNames_of_searchType term t h
  simp only [fieldNames, hn]
  apply list_any_append_left
  rw [List.any_map]
  rw [List.any_eq_true] at ha ⊢
  obtain ⟨m, hm, hs⟩ := ha
  exact ⟨m, hm, stringSearch_prefixed term n m hs⟩

theorem strLeaf_record (term : Bytes) (fs : Fields) (v : Val) : strLeaf term (.record fs) v = false := by
  simp [strLeaf, under]

/-- with records nested only in records, a keyword search that succeeds in the walk succeeds
    through a leaf name of the *top-level* type or through a string leaf. -/
theorem walkAny_recOnly (term : Bytes) (t : Ty) : recOnly t = true → ∀ (skip : Bool) (v : Val),
    walkAny (searchVisit term) skip t v = true →
      searchType term t = true ∨ walkAny (strLeaf term) skip t v = true := by
  apply @Ty.rec
    (motive_1 := fun t => recOnly t = true → ∀ (skip : Bool) (v : Val),
      walkAny (searchVisit term) skip t v = true →
        searchType term t = true ∨ walkAny (strLeaf term) skip t v = true)
    (motive_2 := fun fs => recOnlyF fs = true → ∀ (items : Vals),
      walkFields (searchVisit term) fs items = true →
        (fieldNames fs).any (stringSearch term) = true ∨ walkFields (strLeaf term) fs items = true)
    (motive_3 := fun _ => True)
  case prim =>
    intro id _ skip v h
    rw [walkAny_noRec term (.prim id) (by simp [noRec])] at h; exact Or.inr h
  case enum =>
    intro n _ skip v h
    rw [walkAny_noRec term (.enum n) (by simp [noRec])] at h; exact Or.inr h
  case array =>
    intro t _ hr skip v h
    rw [walkAny_noRec term (.array t) (by simpa [noRec, recOnly] using hr)] at h; exact Or.inr h
  case set =>
    intro t _ hr skip v h
    rw [walkAny_noRec term (.set t) (by simpa [noRec, recOnly] using hr)] at h; exact Or.inr h
  case error =>
    intro t _ hr skip v h
    rw [walkAny_noRec term (.error t) (by simpa [noRec, recOnly] using hr)] at h; exact Or.inr h
  case map =>
    intro k e _ _ hr skip v h
    rw [walkAny_noRec term (.map k e) (by simpa [noRec, recOnly] using hr)] at h; exact Or.inr h
  case union =>
    intro ts _ hr skip v h
    rw [walkAny_noRec term (.union ts) (by simpa [noRec, recOnly] using hr)] at h; exact Or.inr h
  case named =>
    intro n t ih hr skip v h
    simp only [recOnly] at hr
    cases skip
    · simp only [walkAny, Bool.or_eq_true] at h
      rcases h with h | h
      · simp only [searchVisit, Bool.or_eq_true] at h
        rcases h with h | h
        · exact Or.inl h
        · exact Or.inr (by simp [walkAny, h])
      · rcases ih hr false v h with h' | h'
        · exact Or.inl (by simpa [searchType, recordNames] using h')
        · exact Or.inr (by simp [walkAny, h'])
    · simp only [walkAny] at h
      rcases ih hr true v h with h' | h'
      · exact Or.inl (by simpa [searchType, recordNames] using h')
      · exact Or.inr (by simpa [walkAny] using h')
  case record =>
    intro fs ih hr skip v h
    simp only [recOnly] at hr
    have key : walkAny (searchVisit term) skip (.record fs) v = true →
        searchType term (.record fs) = true ∨ walkAny (strLeaf term) skip (.record fs) v = true := by
      intro h
      cases skip <;> simp only [walkAny, Bool.or_eq_true] at h <;>
      · rcases h with h | h
        · simp only [searchVisit, strLeaf_record, Bool.or_false] at h
          exact Or.inl h
        · split at h
          · rename_i _ items _
            rcases ih hr items h with h' | h'
            · exact Or.inl (by simpa [searchType, recordNames] using h')
            · exact Or.inr (by simp [walkAny, h'])
          · simp at h
    exact key h
  case nil => intro _ items h; simp [walkFields] at h
  case cons =>
    intro n t r iht ihr hr items h
    simp only [recOnlyF, Bool.and_eq_true] at hr
    cases items with
    | nil => simp [walkFields] at h
    | cons x xs =>
      simp only [walkFields, Bool.or_eq_true] at h
      rcases h with h | h
      · rcases iht hr.1 false x h with h' | h'
        · exact Or.inl (fieldNames_cons_of_nested term n t r h')
        · exact Or.inr (by simp [walkFields, h'])
      · rcases ihr hr.2 xs h with h' | h'
        · exact Or.inl (by simp only [fieldNames]; exact list_any_append_right _ _ _ h')
        · exact Or.inr (by simp [walkFields, h'])
  case nil => trivial
  case cons => intros; trivial

theorem strLeaf_findBy (term : Bytes) (t : Ty) (v : Val) (h : strLeaf term t v = true) :
    findBy foldEq term (enc v) = true := by
  unfold strLeaf at h
  split at h
  · rename_i _ _ id b _
    simp only [Bool.and_eq_true] at h
    exact findBy_infix foldEq term (enc_prim_infix b) h.2
  · simp at h

/-- `searchString.Eval` true on a value whose type keeps records out of containers: a leaf name
    of the top-level type contains the term, or the term occurs (ASCII case folded) in the
    value's serialisation. -/
theorem searchString_sound (term : Bytes) (t : Ty) (v : Val) (hr : recOnly t = true)
    (h : searchStringEval term t v = true) :
    searchType term t = true ∨ findBy foldEq term (enc v) = true := by
  simp only [searchStringEval, Bool.or_eq_true] at h
  rcases h with h | h
  · exact Or.inl h
  · have hw : walkAny (searchVisit term) false t v = true := h
    rcases walkAny_recOnly term t hr false v hw with h' | h'
    · exact Or.inl h'
    · obtain ⟨t', v', hv, hi⟩ := walkAny_infix t (strLeaf term) false v h'
      exact Or.inr (findBy_infix foldEq term hi (strLeaf_findBy term t' v' hv))

/-! ## field access -/

theorem recordNames_under : ∀ (t : Ty), recordNames t = recordNames (under t)
  | .named _ t => by simp only [recordNames, under]; exact recordNames_under t
  | .prim _ | .enum _ | .record _ | .array _ | .set _ | .map _ _ | .union _ | .error _ => rfl

theorem recOnly_under : ∀ (t : Ty), recOnly t = recOnly (under t)
  | .named _ t => by simp only [recOnly, under]; exact recOnly_under t
  | .prim _ | .enum _ | .record _ | .array _ | .set _ | .map _ _ | .union _ | .error _ => rfl

theorem getField_recOnly : ∀ (fs : Fields) (items : Vals) (name : Bytes) (t : Ty) (v : Val),
    getField fs items name = some (t, v) → recOnlyF fs = true → recOnly t = true
  | .cons n ft r, .cons x xs, name, t, v, h, hr => by
    simp only [getField] at h
    simp only [recOnlyF, Bool.and_eq_true] at hr
    split at h
    · simp only [Option.some.injEq, Prod.mk.injEq] at h
      obtain ⟨rfl, _⟩ := h; exact hr.1
    · exact getField_recOnly r xs name t v h hr.2
  | .nil, _, _, _, _, h, _ => by simp [getField] at h
  | .cons _ _ _, .nil, _, _, _, h, _ => by simp [getField] at h

theorem getField_names (term : Bytes) : ∀ (fs : Fields) (items : Vals) (name : Bytes) (t : Ty) (v : Val),
    getField fs items name = some (t, v) → searchType term t = true →
      (fieldNames fs).any (stringSearch term) = true
  | .cons n ft r, .cons x xs, name, t, v, h, hs => by
    simp only [getField] at h
    split at h
    · simp only [Option.some.injEq, Prod.mk.injEq] at h
      obtain ⟨rfl, _⟩ := h
      exact fieldNames_cons_of_nested term n ft r hs
    · have := getField_names term r xs name t v h hs
      simp only [fieldNames]; exact list_any_append_right _ _ _ this
  | .nil, _, _, _, _, h, _ => by simp [getField] at h
  | .cons _ _ _, .nil, _, _, _, h, _ => by simp [getField] at h

/-- a field reached through records keeps the guard, and a leaf-name match of its type is a
    leaf-name match of the enclosing type (the enclosing names extend the nested ones). -/
theorem getPath_guard (term : Bytes) : ∀ (p : List Bytes) (t : Ty) (v : Val) (t' : Ty) (v' : Val),
    getPath t v p = some (t', v') → recOnly t = true →
      recOnly t' = true ∧ (searchType term t' = true → searchType term t = true)
  | [], t, v, t', v', h, hr => by
    simp only [getPath, Option.some.injEq, Prod.mk.injEq] at h
    obtain ⟨rfl, _⟩ := h; exact ⟨hr, id⟩
  | name :: rest, t, v, t', v', h, hr => by
    simp only [getPath] at h
    split at h
    · rename_i _ _ fs items hu
      split at h
      · rename_i ft fv hgf
        have hrf : recOnlyF fs = true := by
          have := recOnly_under t; rw [hu] at this; simpa [recOnly, this] using hr
        have h1 := getField_recOnly fs items name ft fv hgf hrf
        obtain ⟨h2, h3⟩ := getPath_guard term rest ft fv t' v' h h1
        refine ⟨h2, fun hs => ?_⟩
        have := getField_names term fs items name ft fv hgf (h3 hs)
        simp only [searchType, recordNames_under t, hu, recordNames]; exact this
      · simp at h
    · simp at h

/-! ## frames -/

theorem encFrame_infix : ∀ (frame : List (Nat × Val)) (m : Nat × Val), m ∈ frame →
    Infix (enc m.2) (encFrame frame)
  | [], _, h => by simp at h
  | (id, v) :: r, m, h => by
    simp only [List.mem_cons] at h
    rcases h with rfl | h
    · exact ⟨uvarint id, encFrame r, by simp [encFrame, encMsg]⟩
    · simp only [encFrame]; exact (encFrame_infix r m h).append_left _

theorem fieldNameFind_of_mem (ctx : Ctx) (term : Bytes) : ∀ (frame : List (Nat × Val)) (m : Nat × Val) (t : Ty),
    m ∈ frame → ctx m.1 = some t → searchType term t = true → fieldNameFind ctx term frame = true
  | [], _, _, h, _, _ => by simp at h
  | (id, v) :: r, m, t, h, hc, hs => by
    simp only [List.mem_cons] at h
    simp only [fieldNameFind, Bool.or_eq_true]
    rcases h with rfl | h
    · left
      simp only [hc]
      simp only [searchType] at hs
      split at hs
      · rename_i ns hn; simp [hn, hs]
      · simp at hs
    · exact Or.inr (fieldNameFind_of_mem ctx term r m t h hc hs)

theorem Tri.and_eq_tt {a b : Tri} (h : a.and b = .tt) : a = .tt ∧ b = .tt := by
  cases a <;> cases b <;> simp_all [Tri.and]

theorem Tri.or_eq_tt {a b : Tri} (h : a.or b = .tt) : a = .tt ∨ b = .tt := by
  cases a <;> cases b <;> simp_all [Tri.or]

theorem ofBool_eq_tt {b : Bool} (h : ofBool b = .tt) : b = true := by
  cases b <;> simp_all [ofBool]

end Zed.Bf
