/-
  C05 — types are canonical within a context and portable across contexts.
  Property theorems only.  Tables come from Zed.Generated.C05 (regenerated from
  /repo/type.go, primitive.go, context.go on every check).
-/
import Zed.Model.TyContext
namespace Zed.Props.C05
open Zed Zed.Generated.C05

/-- Obligation on the regenerated tables: the nine type-value codes are pairwise distinct,
    fit a byte and are not primitive ids (so the first byte of a serialized type determines
    its constructor). -/
theorem typeValueCodes_distinct :
    [tvRecord, tvArray, tvSet, tvMap, tvUnion, tvEnum, tvError, tvNameDef, tvNameRef].Nodup ∧
    (∀ c ∈ [tvRecord, tvArray, tvSet, tvMap, tvUnion, tvEnum, tvError, tvNameDef, tvNameRef],
      idTypeComplex ≤ c ∧ c < 256) := by decide

/-- Obligation on the regenerated tables: `LookupPrimitiveByID(id).ID() = id`, every
    implemented id is below `IDTypeComplex`, and `LookupPrimitive` names exactly those types. -/
theorem primitive_tables_consistent :
    (∀ p ∈ primitiveByID, p.1 = p.2 ∧ p.1 < idTypeComplex) ∧
    (primitiveByID.map (·.1)).Nodup ∧
    (∀ e ∈ primitiveNames, e.2.2 ∈ primitiveByID.map (·.1)) ∧
    (primitiveNames.map (·.2.1)).Nodup := by decide

end Zed.Props.C05
