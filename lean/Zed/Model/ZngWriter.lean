import Zed.Model.ZngZcode
import Zed.Model.ZngTypes
/-!
  `zngio.Writer` (`zio/zngio/writer.go`) as a state machine over operations
  `write v | endStream | control fmt bytes`; `Close` is `endStream`.  Frame header arithmetic,
  the flush condition and the frame codes are the regenerated (T1) definitions of
  `Zed.Generated.C01`.  LZ4 is a parameter `comp : Bytes → Option Bytes` (`none`/empty =
  the compressor declined).
-/
namespace Zed.Zng
open Zed.Generated.C01

/-- a value as the writer sees it: the `zed.Context` its type lives in (tag), the type,
    the body (`none` = null) -/
structure WVal where
  cid : Nat
  ty : ZTy
  body : Option Bytes
  deriving Repr

inductive WOp where
  | write (v : WVal)
  | endStream
  | control (format : Nat) (b : Bytes)
  deriving Repr

structure WOpts where
  compress : Bool
  thresh : Nat

structure WSt where
  enc : EncSt := {}
  values : Bytes := []
  out : Bytes := []
  /-- `position != flushed`: something was written since the last end-of-stream marker -/
  dirty : Bool := false
  /-- every length written so far fits in a Go `int` -/
  small : Bool := true
  /-- largest frame payload (compressed or not) and largest uncompressed size so far -/
  maxFrame : Nat := 0

/-- `writeHeader`. -/
def frameHeader (kind size : Nat) : Bytes :=
  UInt8.ofNat (writeHeaderCode kind size) :: uvarint (writeHeaderLen size)

/-- `writeCompHeader`. -/
def compFrameHeader (kind size zlen : Nat) : Bytes :=
  let zl := zlen + writeCompExtra size
  UInt8.ofNat (writeCompHeaderCode kind zl) :: (uvarint (writeHeaderLen zl) ++
    UInt8.ofNat compressionFormatLZ4 :: uvarint size)

/-- the bytes `writeBlock` sends to the sink -/
def blockBytes (o : WOpts) (comp : Bytes → Option Bytes) (kind : Nat) (b : Bytes) : Bytes :=
  if b.isEmpty then []
  else
    match (if o.compress then comp b else none) with
    | some z => if z.isEmpty then frameHeader kind b.length ++ b
                else compFrameHeader kind b.length z.length ++ z
    | none => frameHeader kind b.length ++ b

def blockSmall (o : WOpts) (comp : Bytes → Option Bytes) (b : Bytes) : Bool :=
  match (if o.compress then comp b else none) with
  | some z => decide (b.length < two63) && decide (z.length + writeCompExtra b.length < two63)
  | none => decide (b.length < two63)

def blockMax (o : WOpts) (comp : Bytes → Option Bytes) (b : Bytes) : Nat :=
  match (if o.compress then comp b else none) with
  | some z => max b.length z.length
  | none => b.length

def WSt.writeBlock (w : WSt) (o : WOpts) (comp : Bytes → Option Bytes) (kind : Nat) (b : Bytes) : WSt :=
  if b.isEmpty then w
  else { w with out := w.out ++ blockBytes o comp kind b, dirty := true,
                small := w.small && blockSmall o comp b,
                maxFrame := max w.maxFrame (blockMax o comp b) }

/-- `Writer.flush`: types frame, then values frame (the regenerated `flushOrder`). -/
def WSt.flush (w : WSt) (o : WOpts) (comp : Bytes → Option Bytes) : WSt :=
  let w1 := w.writeBlock o comp typesFrame w.enc.bytes
  let w2 := w1.writeBlock o comp valuesFrame w.values
  { w2 with enc := { w2.enc with bytes := [] }, values := [] }

def bodySmall : Option Bytes → Bool
  | none => true
  | some b => decide (b.length + 1 < two63)

/-- `Writer.Write` before the threshold test: the value record `uvarint id ++ zcode.Append(body)`
    is appended to the values buffer -/
def WSt.addValue (w : WSt) (enc' : EncSt) (id : Nat) (body : Option Bytes) : WSt :=
  { w with enc := enc', values := w.values ++ uvarint id ++ zappend body,
           small := w.small && decide (id < two63) && bodySmall body }

def WSt.step (o : WOpts) (comp : Bytes → Option Bytes) (w : WSt) : WOp → WSt
  | .write v =>
    let (enc', id) := encTy v.cid v.ty w.enc
    let w1 := w.addValue enc' id v.body
    if flushCond w1.values.length w1.enc.bytes.length o.thresh then w1.flush o comp else w1
  | .endStream =>
    let w1 := w.flush o comp
    let w2 := if w1.dirty then { w1 with out := w1.out ++ [UInt8.ofNat eos], dirty := false } else w1
    { w2 with enc := { w2.enc with ctx := [], cache := [], bytes := [] } }
  | .control format b =>
    let w1 := w.flush o comp
    w1.writeBlock o comp controlFrame (UInt8.ofNat format :: b)

def WSt.run (o : WOpts) (comp : Bytes → Option Bytes) (w : WSt) (ops : List WOp) : WSt :=
  ops.foldl (WSt.step o comp) w

/-- the whole output of a writer that performs `ops` and is then closed -/
def writeAll (o : WOpts) (comp : Bytes → Option Bytes) (ops : List WOp) : WSt :=
  WSt.step o comp (WSt.run o comp {} ops) .endStream

/-- the values a sequence of operations writes, in order -/
def opsValues : List WOp → List WVal
  | [] => []
  | .write v :: r => v :: opsValues r
  | _ :: r => opsValues r

end Zed.Zng
