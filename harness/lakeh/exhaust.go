package lakeh

import (
	"fmt"
	"math/rand"
	"strings"

	"verifharness/hlib"
)

// Symbolic operations for the exhaustive short histories; they are resolved against the
// objects observed at that moment.
//
//	La Lb Lc   load {0,1,2} / {3,1} into main, {4,0} into branch 1
//	D1 Da Dc   delete the first / all live objects of main, the first of branch 1
//	W Wv       delete-where on main: keys >= 2 / non-key field v in {1,3}
//	Ld         load {3,0} into main (overlaps La: both span keys 1..3)
//	C Cc       compact all live objects of main / branch 1
//	V          vacuum main's tip
//	B          create branch 1 at main's tip
//	M Mr       merge branch 1 into main / main into branch 1
//	R Rf       revert the latest / the first commit on main
func resolveSym(sym string, v *View) (Op, bool) {
	live0, live1 := v.Live[0], v.Live[1]
	has1 := false
	for _, b := range v.Branches {
		if b == 1 {
			has1 = true
		}
	}
	switch sym {
	case "La":
		return Op{Kind: "load", Vals: []int{0, 1, 2}}, true
	case "Lb":
		return Op{Kind: "load", Vals: []int{3, 1}}, true
	case "Lc":
		return Op{Kind: "load", Branch: 1, Vals: []int{4, 0}}, has1
	case "D1":
		if len(live0) == 0 {
			return Op{}, false
		}
		return Op{Kind: "delete", IDs: []int{live0[0]}}, true
	case "Da":
		if len(live0) == 0 {
			return Op{}, false
		}
		return Op{Kind: "delete", IDs: append([]int(nil), live0...)}, true
	case "Dc":
		if !has1 || len(live1) == 0 {
			return Op{}, false
		}
		return Op{Kind: "delete", Branch: 1, IDs: []int{live1[0]}}, true
	case "W":
		return Op{Kind: "delwhere", Pred: "k >= 2"}, v.Tips[0] != 0 && !v.Gone[0]
	case "Wv":
		// non-key predicate: removes some but not all values of overlapping objects
		return Op{Kind: "delwhere", Pred: "v == 1 or v == 3"}, v.Tips[0] != 0 && !v.Gone[0]
	case "Ld":
		return Op{Kind: "load", Vals: []int{3, 0}}, true
	case "C":
		if len(live0) == 0 {
			return Op{}, false
		}
		ids := append([]int(nil), live0...)
		if len(ids) == 1 {
			ids = append(ids, ids[0])
		}
		return Op{Kind: "compact", IDs: ids}, true
	case "Cc":
		if !has1 || len(live1) == 0 {
			return Op{}, false
		}
		ids := append([]int(nil), live1...)
		if len(ids) == 1 {
			ids = append(ids, ids[0])
		}
		return Op{Kind: "compact", Branch: 1, IDs: ids}, true
	case "V":
		return Op{Kind: "vacuum", Commit: v.Tips[0]}, v.Tips[0] != 0
	case "B":
		return Op{Kind: "branch", Name: 1, Commit: v.Tips[0]}, !has1 && v.Tips[0] != 0
	case "M":
		return Op{Kind: "merge", Branch: 0, Child: 1}, has1
	case "Mr":
		return Op{Kind: "merge", Branch: 1, Child: 0}, has1
	case "R":
		return Op{Kind: "revert", Commit: v.NCommits}, v.NCommits > 0
	case "Rf":
		return Op{Kind: "revert", Commit: 1}, v.NCommits > 0
	}
	return Op{}, false
}

// RunExhaustive runs every sequence of `depth` symbols over `syms` after the fixed `prefix`,
// on an ascending and a descending pool with a small threshold (search, not proof).
func RunExhaustive(c *hlib.Ctx, opt Options, prefix, syms []string, depth int) {
	RunExhaustiveCfg(c, opt, prefix, syms, depth, 9, 0)
}

// RunExhaustiveCfg: the same with an explicit pool threshold and compiler.Parallelism.
func RunExhaustiveCfg(c *hlib.Ctx, opt Options, prefix, syms []string, depth int, thresh int64, par int) {
	WithParallelism(par, func() { runExhaustive(c, opt, prefix, syms, depth, thresh, par) })
}

func runExhaustive(c *hlib.Ctx, opt Options, prefix, syms []string, depth int, thresh int64, par int) {
	if c.Replay != nil {
		return
	}
	vals := []string{"{k:1,v:0}", "{k:3,v:1}", "{k:2,v:2}", "{k:3,v:3}", "{k:null,v:4}"}
	keys := []string{"i1", "i3", "i2", "i3", "n"}
	var seqs [][]string
	var rec func(cur []string)
	rec = func(cur []string) {
		if len(cur) == depth {
			seqs = append(seqs, append(append([]string(nil), prefix...), cur...))
			return
		}
		for _, s := range syms {
			rec(append(cur, s))
		}
	}
	rec(nil)
	// thorough: every sequence on an ascending and on a descending pool; quick: alternating
	per := 1
	if c.Thorough() {
		per = 2
	}
	outs := make([]*Outcome, per*len(seqs))
	hlib.ParallelDo(len(outs), 8, func(i int) {
		seq := seqs[i/per]
		cfg := Cfg{Key: "k", Desc: i%2 == 1, Thresh: thresh, Stride: 1}
		h := &History{Cfg: cfg, Vals: vals, Keys: keys, Profile: "exhaustive:" + strings.Join(seq, ",")}
		prof := &Profile{Name: h.Profile, Script: seq, Guarded: true}
		outs[i] = RunHistory(h, prof, rand.New(rand.NewSource(1)), opt)
	})
	var lines []string
	var idx []int
	for i, o := range outs {
		c.Stat(fmt.Sprintf("exhaustive:thresh=%d:par=%d", thresh, par))
		if line := Report(c, o, opt); line != "" {
			lines = append(lines, line)
			idx = append(idx, i)
		}
	}
	if len(lines) == 0 {
		return
	}
	for k, a := range c.Model().Batch(lines) {
		CompareModel(c, outs[idx[k]], opt, a)
	}
	c.Note("exhaustive: %d sequences of %d symbols over %v after %v, asc and desc (search)", len(seqs), depth, syms, prefix)
	_ = fmt.Sprint
}
