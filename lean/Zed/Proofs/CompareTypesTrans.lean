import Zed.Proofs.CompareTypesEq
namespace Zed
open Zed.Ord

theorem cmpFs_refl : (fs : Fields) → cmpFs fs fs = .eq
  | .nil => rfl
  | .cons _ x r => by simp [cmpFs_cons, cmpTy_refl, cmpFs_refl r, Ordering.then]
theorem cmpTs_refl : (ts : Tys) → cmpTs ts ts = .eq
  | .nil => rfl
  | .cons x r => by simp [cmpTs_cons, cmpTy_refl, cmpTs_refl r, Ordering.then]

theorem cmpS_self (u : Ty) (hu : u.isNamed = false) : cmpS u u = .eq := by
  cases u with
  | named => simp [Ty.isNamed] at hu
  | prim i => simp [cmpS_prim]
  | record fs => simp [cmpS_record, cmpFieldNames_eq, cmpNames_refl, cmpFs_refl, Ordering.then]
  | array x => simp [cmpS_array, cmpTy_refl]
  | set x => simp [cmpS_set, cmpTy_refl]
  | error x => simp [cmpS_error, cmpTy_refl]
  | map k v => simp [cmpS_map, cmpTy_refl, Ordering.then]
  | union ts => simp [cmpS_union, cmpTs_refl, Ordering.then]
  | enum s => simp [cmpS_enum, cmpNames_refl, Ordering.then]

/-- on non-named types CompareTypes is its structural branch -/
theorem cmpTy_eq_cmpS (u v : Ty) (hu : u.isNamed = false) (hv : v.isNamed = false) : cmpTy u v = cmpS u v := by
  rw [cmpTy_def, Ty.under_of_not_named hu, Ty.under_of_not_named hv]
  by_cases h : u = v
  · subst h; rw [if_pos rfl, cmpRank_refl, cmpS_self u hu]
  · rw [if_neg h]

theorem cmpS_eq_iff (u v : Ty) (hu : u.isNamed = false) (hv : v.isNamed = false)
    (gu : u.nnn = true) (gv : v.nnn = true) : cmpS u v = .eq ↔ u = v := by
  rw [← cmpTy_eq_cmpS u v hu hv]; exact cmpTy_eq_iff u v gu gv

theorem cmpS_swap (u v : Ty) (hu : u.isNamed = false) (hv : v.isNamed = false) :
    cmpS v u = (cmpS u v).swap := by
  rw [← cmpTy_eq_cmpS u v hu hv, ← cmpTy_eq_cmpS v u hv hu]; exact cmpTy_swap u v

/-- from the structural branch on the underlying types to CompareTypes itself -/
theorem cmpTy_STr_of (a b c : Ty) (ga : a.nnn = true) (gb : b.nnn = true) (gc : c.nnn = true)
    (hK : STr (cmpS a.under b.under) (cmpS b.under c.under) (cmpS a.under c.under)) :
    STr (cmpTy a b) (cmpTy b c) (cmpTy a c) := by
  rw [cmpTy_def a b, cmpTy_def b c, cmpTy_def a c]
  have hn : ∀ k, k ∈ [a.under, b.under, c.under] → k.isNamed = false ∧ k.nnn = true := by
    intro k hk
    simp only [List.mem_cons, List.mem_nil_iff, or_false] at hk
    rcases hk with rfl | rfl | rfl
    · exact ⟨Ty.under_not_named a, Ty.nnn_under a ga⟩
    · exact ⟨Ty.under_not_named b, Ty.nnn_under b gb⟩
    · exact ⟨Ty.under_not_named c, Ty.nnn_under c gc⟩
  exact STr.classified (fun u v => cmpS u v) a.under b.under c.under _ _ _
    (fun k k' hk hk' => cmpS_eq_iff k k' (hn k hk).1 (hn k' hk').1 (hn k hk).2 (hn k' hk').2)
    (fun k k' hk hk' => cmpS_swap k k' (hn k hk).1 (hn k' hk').1)
    hK (fun _ _ => cmpRank_STr a b c)

theorem cmpS_by_kind (u v : Ty) (hu : u.isNamed = false) (hv : v.isNamed = false) :
    cmpS u v = if u.kind = v.kind then cmpS u v else compare u.kind v.kind := by
  by_cases h : u.kind = v.kind
  · rw [if_pos h]
  · rw [if_neg h, cmpS_kind u v hu hv h]

/-- the structural branch: different kinds are ordered by kind, equal kinds by `hW` -/
theorem cmpS_STr_of (u v w : Ty) (hu : u.isNamed = false) (hv : v.isNamed = false) (hw : w.isNamed = false)
    (hW : u.kind = v.kind → v.kind = w.kind → STr (cmpS u v) (cmpS v w) (cmpS u w)) :
    STr (cmpS u v) (cmpS v w) (cmpS u w) := by
  rw [cmpS_by_kind u v hu hv, cmpS_by_kind v w hv hw, cmpS_by_kind u w hu hw]
  exact STr.classified (fun (k k' : Nat) => compare k k') u.kind v.kind w.kind _ _ _
    (fun k k' _ _ => Nat.compare_eq_eq) (fun k k' _ _ => compare_nat_swap k k')
    (STr_compare_nat _ _ _) hW

end Zed
namespace Zed
open Zed.Ord

theorem kind_eq_prim {v : Ty} (hv : v.isNamed = false) (h : (0 : Nat) = v.kind) : ∃ j, v = .prim j := by
  cases v <;> simp_all [Ty.isNamed]
theorem kind_eq_record {v : Ty} (hv : v.isNamed = false) (h : (1 : Nat) = v.kind) : ∃ gs, v = .record gs := by
  cases v <;> simp_all [Ty.isNamed]
theorem kind_eq_array {v : Ty} (hv : v.isNamed = false) (h : (2 : Nat) = v.kind) : ∃ y, v = .array y := by
  cases v <;> simp_all [Ty.isNamed]
theorem kind_eq_set {v : Ty} (hv : v.isNamed = false) (h : (3 : Nat) = v.kind) : ∃ y, v = .set y := by
  cases v <;> simp_all [Ty.isNamed]
theorem kind_eq_map {v : Ty} (hv : v.isNamed = false) (h : (4 : Nat) = v.kind) : ∃ k w, v = .map k w := by
  cases v <;> simp_all [Ty.isNamed]
theorem kind_eq_union {v : Ty} (hv : v.isNamed = false) (h : (5 : Nat) = v.kind) : ∃ us, v = .union us := by
  cases v <;> simp_all [Ty.isNamed]
theorem kind_eq_enum {v : Ty} (hv : v.isNamed = false) (h : (6 : Nat) = v.kind) : ∃ s, v = .enum s := by
  cases v <;> simp_all [Ty.isNamed]
theorem kind_eq_error {v : Ty} (hv : v.isNamed = false) (h : (7 : Nat) = v.kind) : ∃ y, v = .error y := by
  cases v <;> simp_all [Ty.isNamed]

mutual
theorem cmpTy_STr : (a b c : Ty) → a.nnn = true → b.nnn = true → c.nnn = true →
    STr (cmpTy a b) (cmpTy b c) (cmpTy a c)
  | .named n x, b, c, ga, gb, gc => by
    refine cmpTy_STr_of _ b c ga gb gc ?_
    have hx : x.isNamed = false ∧ x.nnn = true := by simpa [Ty.nnn, Bool.and_eq_true] using ga
    rw [Ty.under_named_of_nnn ga]
    have ih := cmpTy_STr x b.under c.under hx.2 (Ty.nnn_under b gb) (Ty.nnn_under c gc)
    rwa [cmpTy_eq_cmpS x _ hx.1 (Ty.under_not_named b), cmpTy_eq_cmpS _ _ (Ty.under_not_named b) (Ty.under_not_named c),
      cmpTy_eq_cmpS x _ hx.1 (Ty.under_not_named c)] at ih
  | .prim i, b, c, ga, gb, gc => by
    refine cmpTy_STr_of _ b c ga gb gc ?_
    simp only [Ty.under]
    have hv := Ty.under_not_named b; have hw := Ty.under_not_named c
    generalize b.under = v at *; generalize c.under = w at *
    refine cmpS_STr_of _ v w rfl hv hw (fun h1 h2 => ?_)
    obtain ⟨j, rfl⟩ := kind_eq_prim hv (by simpa using h1)
    obtain ⟨k, rfl⟩ := kind_eq_prim hw (by simpa using h2)
    simp only [cmpS_prim]; exact STr_compare_nat _ _ _
  | .record fs, b, c, ga, gb, gc => by
    refine cmpTy_STr_of _ b c ga gb gc ?_
    simp only [Ty.under]
    have hv := Ty.under_not_named b; have hw := Ty.under_not_named c
    have gv := Ty.nnn_under b gb; have gw := Ty.nnn_under c gc
    generalize b.under = v at *; generalize c.under = w at *
    refine cmpS_STr_of _ v w rfl hv hw (fun h1 h2 => ?_)
    obtain ⟨gs, rfl⟩ := kind_eq_record hv (by simpa using h1)
    obtain ⟨hs, rfl⟩ := kind_eq_record hw (by simpa using h2)
    simp only [cmpS_record]
    refine STr.then (STr_compare_nat _ _ _) (fun e1 e2 => ?_)
    rw [Nat.compare_eq_eq] at e1 e2
    refine STr.then ?_ (fun _ _ => cmpFs_STr fs gs hs ga gv gw e1 e2)
    simp only [cmpFieldNames_eq]
    exact cmpNames_STr _ _ _ (by simp [Fields.names_length, e1]) (by simp [Fields.names_length, e2])
  | .array x, b, c, ga, gb, gc => by
    refine cmpTy_STr_of _ b c ga gb gc ?_
    simp only [Ty.under]
    have hv := Ty.under_not_named b; have hw := Ty.under_not_named c
    have gv := Ty.nnn_under b gb; have gw := Ty.nnn_under c gc
    generalize b.under = v at *; generalize c.under = w at *
    refine cmpS_STr_of _ v w rfl hv hw (fun h1 h2 => ?_)
    obtain ⟨y, rfl⟩ := kind_eq_array hv (by simpa using h1)
    obtain ⟨z, rfl⟩ := kind_eq_array hw (by simpa using h2)
    simp only [cmpS_array]; exact cmpTy_STr x y z ga gv gw
  | .set x, b, c, ga, gb, gc => by
    refine cmpTy_STr_of _ b c ga gb gc ?_
    simp only [Ty.under]
    have hv := Ty.under_not_named b; have hw := Ty.under_not_named c
    have gv := Ty.nnn_under b gb; have gw := Ty.nnn_under c gc
    generalize b.under = v at *; generalize c.under = w at *
    refine cmpS_STr_of _ v w rfl hv hw (fun h1 h2 => ?_)
    obtain ⟨y, rfl⟩ := kind_eq_set hv (by simpa using h1)
    obtain ⟨z, rfl⟩ := kind_eq_set hw (by simpa using h2)
    simp only [cmpS_set]; exact cmpTy_STr x y z ga gv gw
  | .error x, b, c, ga, gb, gc => by
    refine cmpTy_STr_of _ b c ga gb gc ?_
    simp only [Ty.under]
    have hv := Ty.under_not_named b; have hw := Ty.under_not_named c
    have gv := Ty.nnn_under b gb; have gw := Ty.nnn_under c gc
    generalize b.under = v at *; generalize c.under = w at *
    refine cmpS_STr_of _ v w rfl hv hw (fun h1 h2 => ?_)
    obtain ⟨y, rfl⟩ := kind_eq_error hv (by simpa using h1)
    obtain ⟨z, rfl⟩ := kind_eq_error hw (by simpa using h2)
    simp only [cmpS_error]; exact cmpTy_STr x y z ga gv gw
  | .map k x, b, c, ga, gb, gc => by
    refine cmpTy_STr_of _ b c ga gb gc ?_
    simp only [Ty.under]
    have hv := Ty.under_not_named b; have hw := Ty.under_not_named c
    have gv := Ty.nnn_under b gb; have gw := Ty.nnn_under c gc
    generalize b.under = v at *; generalize c.under = w at *
    refine cmpS_STr_of _ v w rfl hv hw (fun h1 h2 => ?_)
    obtain ⟨k', y, rfl⟩ := kind_eq_map hv (by simpa using h1)
    obtain ⟨k'', z, rfl⟩ := kind_eq_map hw (by simpa using h2)
    simp only [Ty.nnn, Bool.and_eq_true] at ga gv gw
    simp only [cmpS_map]
    exact STr.then (cmpTy_STr k k' k'' ga.1 gv.1 gw.1) (fun _ _ => cmpTy_STr x y z ga.2 gv.2 gw.2)
  | .union ts, b, c, ga, gb, gc => by
    refine cmpTy_STr_of _ b c ga gb gc ?_
    simp only [Ty.under]
    have hv := Ty.under_not_named b; have hw := Ty.under_not_named c
    have gv := Ty.nnn_under b gb; have gw := Ty.nnn_under c gc
    generalize b.under = v at *; generalize c.under = w at *
    refine cmpS_STr_of _ v w rfl hv hw (fun h1 h2 => ?_)
    obtain ⟨us, rfl⟩ := kind_eq_union hv (by simpa using h1)
    obtain ⟨ws, rfl⟩ := kind_eq_union hw (by simpa using h2)
    simp only [cmpS_union]
    refine STr.then (STr_compare_nat _ _ _) (fun e1 e2 => ?_)
    rw [Nat.compare_eq_eq] at e1 e2
    exact cmpTs_STr ts us ws ga gv gw e1 e2
  | .enum s, b, c, ga, gb, gc => by
    refine cmpTy_STr_of _ b c ga gb gc ?_
    simp only [Ty.under]
    have hv := Ty.under_not_named b; have hw := Ty.under_not_named c
    generalize b.under = v at *; generalize c.under = w at *
    refine cmpS_STr_of _ v w rfl hv hw (fun h1 h2 => ?_)
    obtain ⟨s', rfl⟩ := kind_eq_enum hv (by simpa using h1)
    obtain ⟨s'', rfl⟩ := kind_eq_enum hw (by simpa using h2)
    simp only [cmpS_enum]
    refine STr.then (STr_compare_nat _ _ _) (fun e1 e2 => ?_)
    rw [Nat.compare_eq_eq] at e1 e2
    exact cmpNames_STr _ _ _ e1 e2
theorem cmpFs_STr : (fs gs hs : Fields) → fs.nnn = true → gs.nnn = true → hs.nnn = true →
    fs.length = gs.length → gs.length = hs.length → STr (cmpFs fs gs) (cmpFs gs hs) (cmpFs fs hs)
  | .nil, .nil, .nil, _, _, _, _, _ => by simp [cmpFs, STr]
  | .nil, .nil, .cons _ _ _, _, _, _, _, h => by simp [Fields.length] at h
  | .nil, .cons _ _ _, _, _, _, _, h, _ => by simp [Fields.length] at h
  | .cons _ _ _, .nil, _, _, _, _, h, _ => by simp [Fields.length] at h
  | .cons _ _ _, .cons _ _ _, .nil, _, _, _, _, h => by simp [Fields.length] at h
  | .cons _ x r, .cons _ y s, .cons _ z t, ga, gb, gc, h1, h2 => by
    simp only [Fields.nnn, Bool.and_eq_true] at ga gb gc
    simp only [Fields.length, Nat.add_right_cancel_iff] at h1 h2
    simp only [cmpFs_cons]
    exact STr.then (cmpTy_STr x y z ga.1 gb.1 gc.1) (fun _ _ => cmpFs_STr r s t ga.2 gb.2 gc.2 h1 h2)
theorem cmpTs_STr : (ts us ws : Tys) → ts.nnn = true → us.nnn = true → ws.nnn = true →
    ts.length = us.length → us.length = ws.length → STr (cmpTs ts us) (cmpTs us ws) (cmpTs ts ws)
  | .nil, .nil, .nil, _, _, _, _, _ => by simp [cmpTs, STr]
  | .nil, .nil, .cons _ _, _, _, _, _, h => by simp [Tys.length] at h
  | .nil, .cons _ _, _, _, _, _, h, _ => by simp [Tys.length] at h
  | .cons _ _, .nil, _, _, _, _, h, _ => by simp [Tys.length] at h
  | .cons _ _, .cons _ _, .nil, _, _, _, _, h => by simp [Tys.length] at h
  | .cons x r, .cons y s, .cons z t, ga, gb, gc, h1, h2 => by
    simp only [Tys.nnn, Bool.and_eq_true] at ga gb gc
    simp only [Tys.length, Nat.add_right_cancel_iff] at h1 h2
    simp only [cmpTs_cons]
    exact STr.then (cmpTy_STr x y z ga.1 gb.1 gc.1) (fun _ _ => cmpTs_STr r s t ga.2 gb.2 gc.2 h1 h2)
end

end Zed
