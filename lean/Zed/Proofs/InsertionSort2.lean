import Zed.Model.TyContext
/-! `insertionSort` (the model of `sort.SliceStable` for ≤ 20 elements) without assuming that
    `less` is transitive: it leaves a list alone in which no element is less than its
    predecessor, and its output is such a list when `less` is asymmetric. -/
namespace Zed
open List Ctx

section
variable {α : Type} (less : α → α → Bool)

theorem adjSorted_cons_cons (x y : α) (rest : List α) :
    adjSorted less (x :: y :: rest) = (!less y x && adjSorted less (y :: rest)) := rfl

theorem adjSorted_tail {x : α} {l : List α} (h : adjSorted less (x :: l) = true) : adjSorted less l = true := by
  cases l with
  | nil => rfl
  | cons y r => simp only [adjSorted_cons_cons, Bool.and_eq_true] at h; exact h.2

theorem adjSorted_append_pair : (zs : List α) → (y x : α) → (rest : List α) →
    adjSorted less (zs ++ y :: x :: rest) = true → less x y = false
  | [], y, x, rest, h => by
    simp only [nil_append, adjSorted_cons_cons, Bool.and_eq_true, Bool.not_eq_true'] at h; exact h.1
  | _ :: zs, y, x, rest, h => adjSorted_append_pair zs y x rest (adjSorted_tail less h)

/-- `acc` is the reversed sorted prefix, `l` the rest of an adj-sorted list -/
theorem foldl_insRev_of_adjSorted : (l acc : List α) → adjSorted less (acc.reverse ++ l) = true →
    l.foldl (fun acc x => insRev less x acc) acc = l.reverse ++ acc
  | [], acc, _ => by simp
  | x :: xs, acc, h => by
    simp only [foldl_cons]
    have hins : insRev less x acc = x :: acc := by
      cases acc with
      | nil => rfl
      | cons y ys =>
        simp only [insRev]
        have : less x y = false :=
          adjSorted_append_pair less ys.reverse y x xs (by simpa [reverse_cons, append_assoc] using h)
        simp [this]
    rw [hins]
    have := foldl_insRev_of_adjSorted xs (x :: acc) (by simpa [reverse_cons, append_assoc] using h)
    rw [this]; simp [reverse_cons, append_assoc]

theorem insertionSort_of_adjSorted (l : List α) (h : adjSorted less l = true) : insertionSort less l = l := by
  unfold insertionSort
  rw [foldl_insRev_of_adjSorted less l [] (by simpa using h)]
  simp

/-- reversed form: in `acc` no element is less than its *successor* -/
def adjRev : List α → Bool
  | [] => true
  | [_] => true
  | x :: y :: rest => !less x y && adjRev (y :: rest)

theorem adjRev_cons_cons (x y : α) (rest : List α) :
    adjRev less (x :: y :: rest) = (!less x y && adjRev less (y :: rest)) := rfl

theorem adjRev_insRev (hasym : ∀ a b, less a b = true → less b a = false) (x : α) :
    (acc : List α) → adjRev less acc = true → adjRev less (insRev less x acc) = true
  | [], _ => rfl
  | [y], _ => by
    simp only [insRev]
    split
    · rename_i h; simp [adjRev, hasym x y h]
    · rename_i h; simp only [adjRev, Bool.and_true, Bool.not_eq_true']; simpa using h
  | y :: z :: rest, h => by
    rw [adjRev_cons_cons, Bool.and_eq_true, Bool.not_eq_true'] at h
    have ih := adjRev_insRev hasym x (z :: rest) h.2
    rw [insRev]
    split
    · rename_i hxy
      rw [insRev] at ih ⊢
      split
      · rename_i hxz
        rw [if_pos hxz] at ih
        rw [adjRev_cons_cons, Bool.and_eq_true, Bool.not_eq_true']
        exact ⟨h.1, ih⟩
      · rename_i hxz
        rw [if_neg hxz] at ih
        rw [adjRev_cons_cons, Bool.and_eq_true, Bool.not_eq_true']
        exact ⟨hasym x y hxy, ih⟩
    · rename_i hxy
      rw [adjRev_cons_cons, adjRev_cons_cons, Bool.and_eq_true, Bool.and_eq_true, Bool.not_eq_true', Bool.not_eq_true']
      exact ⟨by simpa using hxy, h.1, h.2⟩

theorem adjSorted_append_singleton : (l : List α) → (a : α) →
    adjSorted less (l ++ [a]) = (adjSorted less l && match l.getLast? with | none => true | some z => !less a z)
  | [], a => rfl
  | [x], a => by simp [adjSorted]
  | x :: y :: rest, a => by
    have ih := adjSorted_append_singleton (y :: rest) a
    simp only [cons_append] at ih ⊢
    rw [adjSorted_cons_cons, ih, adjSorted_cons_cons]
    simp [Bool.and_assoc, getLast?_cons_cons]

theorem adjSorted_reverse : (acc : List α) → adjSorted less acc.reverse = adjRev less acc
  | [] => rfl
  | [x] => rfl
  | x :: y :: rest => by
    rw [reverse_cons, adjSorted_append_singleton, adjSorted_reverse (y :: rest)]
    simp only [adjRev, reverse_cons, getLast?_append, getLast?_singleton, Option.some_or]
    rw [Bool.and_comm]

theorem adjSorted_insertionSort (hasym : ∀ a b, less a b = true → less b a = false) (l : List α) :
    adjSorted less (insertionSort less l) = true := by
  unfold insertionSort
  rw [adjSorted_reverse]
  have : ∀ (l acc : List α), adjRev less acc = true →
      adjRev less (l.foldl (fun acc x => insRev less x acc) acc) = true := by
    intro l
    induction l with
    | nil => intro acc h; exact h
    | cons x xs ih => intro acc h; exact ih _ (adjRev_insRev less hasym x acc h)
  exact this l [] rfl

end
end Zed
