/-
  Helper lemmas for C12 / C17: journal tables (Layer 2a).
  Every entry n+1 of journal j was created by an operation whose constraint held under exactly the
  table replayed from entries 1..n; client caches are exact or marked stale by their position.
-/
import Zed.Proofs.StoreJournal
namespace Zed.Store

theorem Table.get_cons (k v : Nat) (t : Table) (k' : Nat) :
    Table.get ((k, v) :: t) k' = if k' = k then some v else Table.get t k' := by
  simp only [Table.get, List.lookup]
  by_cases h : k' = k
  · subst h; simp
  · have : (k' == k) = false := by simp [h]
    simp [this, h]

theorem Table.get_erase (t : Table) (k k' : Nat) :
    Table.get (Table.erase t k) k' = if k' = k then none else Table.get t k' := by
  induction t with
  | nil => simp [Table.erase, Table.get]
  | cons e t ih =>
    obtain ⟨a, b⟩ := e
    simp only [Table.erase, List.filter] at ih ⊢
    by_cases ha : a = k
    · subst ha
      simp only [bne_self_eq_false]
      rw [ih]
      by_cases h : k' = a
      · simp [h]
      · simp [h, Table.get_cons]
    · have : (a != k) = true := by simp [ha]
      simp only [this]
      rw [Table.get_cons, Table.get_cons]
      by_cases h : k' = a
      · subst h; simp [ha]
      · simp only [h, if_false]; exact ih

theorem Table.get_set (t : Table) (k v k' : Nat) :
    Table.get (Table.set t k v) k' = if k' = k then some v else Table.get t k' := by
  simp only [Table.set, Table.get_cons, Table.get_erase]
  by_cases h : k' = k <;> simp [h]

theorem Table.erase_erase (t : Table) (k : Nat) : Table.erase (Table.erase t k) k = Table.erase t k := by
  simp [Table.erase, List.filter_filter]

theorem Table.erase_comm (t : Table) (k k' : Nat) :
    Table.erase (Table.erase t k) k' = Table.erase (Table.erase t k') k := by
  simp [Table.erase, List.filter_filter, Bool.and_comm]

theorem Table.erase_cons_same (t : Table) (k v : Nat) : Table.erase ((k, v) :: t) k = Table.erase t k := by
  simp [Table.erase, List.filter]

theorem Table.erase_cons_other (t : Table) (k v k' : Nat) (h : k ≠ k') :
    Table.erase ((k, v) :: t) k' = (k, v) :: Table.erase t k' := by
  have : (k != k') = true := by simp [h]
  simp [Table.erase, List.filter, this]

theorem Table.set_set (t : Table) (k v : Nat) : Table.set (Table.set t k v) k v = Table.set t k v := by
  simp [Table.set, Table.erase_cons_same, Table.erase_erase]

/-- An operation whose constraint holds applies cleanly. -/
theorem check_apply (op : JOp) (t : Table) (h : op.check t = none) : ∃ t1, applyActs t op.acts = some t1 := by
  cases op with
  | insert k v => exact ⟨_, rfl⟩
  | move old new v => exact ⟨_, rfl⟩
  | delete k v => exact ⟨_, rfl⟩
  | update k old new =>
    simp only [JOp.check] at h
    split at h
    · cases h
    · rename_i x hx
      simp [JOp.acts, applyActs, applyAct, hx]

/-- Re-applying the entry of a constrained operation to its own result changes nothing (the
    journal reader re-reads the entry at the snapshot position). -/
theorem apply_idem (op : JOp) (t t1 : Table) (h : op.check t = none) (h1 : applyActs t op.acts = some t1) :
    applyActs t1 op.acts = some t1 := by
  cases op with
  | insert k v =>
    simp [JOp.acts, applyActs, applyAct] at h1 ⊢
    subst h1; exact Table.set_set t k v
  | delete k v =>
    simp [JOp.acts, applyActs, applyAct] at h1 ⊢
    subst h1; exact Table.erase_erase t k
  | update k old new =>
    simp only [JOp.check] at h
    split at h
    · cases h
    · rename_i x hx
      simp [JOp.acts, applyActs, applyAct, hx] at h1
      subst h1
      simp [JOp.acts, applyActs, applyAct, Table.get_set, Table.set_set]
  | move old new v =>
    simp only [JOp.check] at h
    split at h
    · cases h
    · split at h
      · cases h
      · rename_i hold hnew
        have hne : old ≠ new := by
          intro hh; subst hh
          simp at hold hnew
          cases hx : Table.get t old <;> simp_all
        simp [JOp.acts, applyActs, applyAct] at h1 ⊢
        subst h1
        simp only [Table.set]
        rw [Table.erase_cons_other _ _ _ _ (Ne.symm hne), Table.erase_cons_same]
        congr 1
        rw [Table.erase_comm (Table.erase (Table.erase t old) new) old new, Table.erase_erase,
          Table.erase_comm (Table.erase t old) new old, Table.erase_erase, Table.erase_comm]


/-! ### Replay -/

/-- Apply entries n, n+1, …, n+k-1 of journal j to table t. -/
def replayFrom (s : Store) (j : Nat) (t : Table) (n : Nat) : Nat → Option Table
  | 0 => some t
  | k + 1 => match s (.ent j n) with
    | some (.entry acts) => match applyActs t acts with
      | some t' => replayFrom s j t' (n + 1) k
      | none => none
    | _ => none

theorem tableAt_none_add (s : Store) (j n k : Nat) (h : tableAt s j n = none) : tableAt s j (n + k) = none := by
  induction k with
  | zero => exact h
  | succ k ih => rw [← Nat.add_assoc]; simp [tableAt, ih]

theorem tableAt_replay (s : Store) (j : Nat) (k : Nat) : ∀ (n : Nat) (t : Table), tableAt s j n = some t →
    tableAt s j (n + k) = replayFrom s j t (n + 1) k := by
  induction k with
  | zero => intro n t h; simpa [replayFrom] using h
  | succ k ih =>
    intro n t h
    have e1 : n + (k + 1) = (n + 1) + k := by omega
    rw [e1]
    simp only [replayFrom]
    cases hx : s (.ent j (n + 1)) with
    | none => simp; exact tableAt_none_add s j (n + 1) k (by simp [tableAt, h, hx])
    | some v =>
      cases v with
      | entry acts =>
        simp only []
        cases ha : applyActs t acts with
        | none => simp; exact tableAt_none_add s j (n + 1) k (by simp [tableAt, h, hx, ha])
        | some t' => simp; exact ih (n + 1) t' (by simp [tableAt, h, hx, ha])
      | _ => simp; exact tableAt_none_add s j (n + 1) k (by simp [tableAt, h, hx])

theorem tableAt_congr (s s' : Store) (j : Nat) (n : Nat)
    (h : ∀ m, 1 ≤ m → m ≤ n → s' (.ent j m) = s (.ent j m)) : tableAt s' j n = tableAt s j n := by
  induction n with
  | zero => rfl
  | succ k ih =>
    simp only [tableAt, ih (fun m h1 h2 => h m h1 (by omega)), h (k + 1) (by omega) (Nat.le_refl _)]

theorem replayFrom_congr (s s' : Store) (j : Nat) (k : Nat) : ∀ (t : Table) (n : Nat),
    (∀ m, n ≤ m → m < n + k → s' (.ent j m) = s (.ent j m)) → replayFrom s' j t n k = replayFrom s j t n k := by
  induction k with
  | zero => intro t n _; rfl
  | succ k ih =>
    intro t n h
    simp only [replayFrom, h n (Nat.le_refl _) (by omega)]
    cases s (.ent j n) with
    | none => rfl
    | some v =>
      cases v with
      | entry acts =>
        simp only []
        cases applyActs t acts with
        | none => rfl
        | some t' => simp only []; exact ih t' (n + 1) (fun m h1 h2 => h m (by omega) (by omega))
      | _ => rfl

/-- Entry n+1 was written by an operation whose constraint held under exactly the table at n. -/
def WF (s : Store) (j e : Nat) : Prop :=
  ∀ n, n < e → ∃ (op : JOp) (t : Table), tableAt s j n = some t ∧ op.check t = none ∧ s (.ent j (n + 1)) = some (.entry op.acts)

def SnapOK (s : Store) (j : Nat) : Prop :=
  ∀ v, s (.snap j) = some v → ∃ a t, v = .jsnap a t ∧ 1 ≤ a ∧ a ≤ headOf s j ∧ tableAt s j a = some t

/-- A cache is exact, or its position is strictly behind HEAD (so it can neither be reused by the
    `head == at` shortcut nor commit: entry pos+1 exists). -/
def CacheOK (s : Store) (j : Nat) (jc : JCache) : Prop :=
  tableAt s j jc.pos = some jc.table ∨
    (jc.pos < headOf s j ∧ ∃ m, m ≤ headOf s j ∧ tableAt s j m = some jc.table)

/-- Every cached table is the table of some position at or below HEAD. -/
theorem CacheOK.hist {s j jc} (h : CacheOK s j jc) (hp : jc.pos ≤ headOf s j) :
    ∃ m, m ≤ headOf s j ∧ tableAt s j m = some jc.table := by
  rcases h with h | h
  · exact ⟨jc.pos, hp, h⟩
  · exact h.2

def PcOK (s : Store) (j : Nat) (jc : JCache) (k : JKind) : JPc → Prop
  | .rdHead => True
  | .rdSnap h => 1 ≤ h
  | .rdTail h => 1 ≤ h
  | .rdEnt h n t _ => 1 ≤ n ∧ n ≤ h ∧ replayFrom s j t n (h + 1 - n) = tableAt s j h ∧ (tableAt s j h).isSome
  | .putSnap h t => 1 ≤ h ∧ tableAt s j h = some t
  | .putx pos => jc.pos = pos ∧ ∃ op a, k = .commit op a ∧
      ((tableAt s j pos = some jc.table ∧ op.check jc.table = none) ∨ pos < headOf s j)
  | .putHead n => ∃ op a, k = .commit op a ∧ s (.ent j n) = some (.entry op.acts)

theorem WF.tableAt_some {s j e} (h : WF s j e) : ∀ n, n ≤ e → ∃ t, tableAt s j n = some t := by
  intro n
  induction n with
  | zero => intro _; exact ⟨[], rfl⟩
  | succ k ih =>
    intro hk
    obtain ⟨op, t, ht, hc, hent⟩ := h k (by omega)
    obtain ⟨t1, h1⟩ := check_apply op t hc
    exact ⟨t1, by simp [tableAt, ht, hent, h1]⟩

/-- Facts about positions ≤ e survive any store change that keeps entries 1..e and does not
    move HEAD backwards. -/
structure Ext (s s' : Store) (j e : Nat) : Prop where
  ents : ∀ m, 1 ≤ m → m ≤ e → s' (.ent j m) = s (.ent j m)
  head : headOf s j ≤ headOf s' j

theorem Ext.tableAt {s s' j e} (x : Ext s s' j e) (n : Nat) (hn : n ≤ e) : tableAt s' j n = tableAt s j n :=
  tableAt_congr s s' j n (fun m h1 h2 => x.ents m h1 (by omega))

theorem Ext.cacheOK {s s' j e} (x : Ext s s' j e) (jc : JCache) (hp : jc.pos ≤ e) (he : headOf s j ≤ e)
    (h : CacheOK s j jc) : CacheOK s' j jc := by
  rcases h with h | ⟨h, m, hm, ht⟩
  · left; rw [x.tableAt _ hp]; exact h
  · right; have := x.head
    exact ⟨by omega, m, by omega, by rw [x.tableAt m (by omega)]; exact ht⟩

theorem Ext.wf {s s' j e} (x : Ext s s' j e) (h : WF s j e) : WF s' j e := by
  intro n hn
  obtain ⟨op, t, ht, hc, hent⟩ := h n hn
  exact ⟨op, t, by rw [x.tableAt n (by omega)]; exact ht, hc, by rw [x.ents (n + 1) (by omega) (by omega)]; exact hent⟩

theorem Ext.pcOK {s s' j e} (x : Ext s s' j e) (jc : JCache) (k : JKind) (pc : JPc)
    (hknown : ∀ p ∈ pc.known, p ≤ e) (hph : ∀ n, pc = .putHead n → 1 ≤ n ∧ n ≤ e)
    (h : PcOK s j jc k pc) : PcOK s' j jc k pc := by
  cases pc with
  | rdHead => trivial
  | rdSnap h' => exact h
  | rdTail h' => exact h
  | rdEnt h' n t a =>
    obtain ⟨h1, h2, h3, h4⟩ := h
    have hh : h' ≤ e := hknown h' (by simp [JPc.known])
    refine ⟨h1, h2, ?_, ?_⟩
    · rw [x.tableAt h' hh, ← h3]
      exact replayFrom_congr s s' j _ t n (fun m hm1 hm2 => x.ents m (by omega) (by omega))
    · rw [x.tableAt h' hh]; exact h4
  | putSnap h' t =>
    have hh : h' ≤ e := hknown h' (by simp [JPc.known])
    exact ⟨h.1, by rw [x.tableAt h' hh]; exact h.2⟩
  | putx pos =>
    have hh : pos ≤ e := hknown pos (by simp [JPc.known])
    obtain ⟨h1, op, a, hk, h2⟩ := h
    refine ⟨h1, op, a, hk, ?_⟩
    rcases h2 with h2 | h2
    · left; rw [x.tableAt pos hh]; exact h2
    · right; have := x.head; omega
  | putHead n =>
    obtain ⟨op, a, hk, hent⟩ := h
    obtain ⟨h1, h2⟩ := hph n rfl
    exact ⟨op, a, hk, by rw [x.ents n h1 h2]; exact hent⟩



structure JPre (s : Store) (j e : Nat) (jc : JCache) (k : JKind) (pc : JPc) : Prop where
  range : EntRange s j e
  he : headOf s j ≤ e
  eh : e ≤ headOf s j + 1
  known : ∀ p ∈ pc.known, p ≤ headOf s j
  cpos : jc.pos ≤ headOf s j
  ph : ∀ n, pc = .putHead n → n = e ∧ headOf s j + 1 = e
  wf : WF s j e
  tail : s (.tail j) = some (.tailv 1 0)
  snap : SnapOK s j
  cache : CacheOK s j jc
  pcok : PcOK s j jc k pc

structure JPost (s : Store) (j e : Nat) (out : JOut) : Prop where
  wf : ∃ e', EntRange out.store j e' ∧ WF out.store j e' ∧ e ≤ e'
  ext : Ext s out.store j e
  tail : out.store (.tail j) = some (.tailv 1 0)
  snap : SnapOK out.store j
  cache : CacheOK out.store j out.cache
  pcok : ∀ st jc' k' pc' ev, out = .cont st jc' k' pc' ev → PcOK st j jc' k' pc'

theorem Ext.refl (s : Store) (j e : Nat) : Ext s s j e := ⟨fun _ _ _ => rfl, Nat.le_refl _⟩

/-- Post-condition when the step did not write. -/
theorem JPost.same {s j e jc k pc} (p : JPre s j e jc k pc) (out : JOut) (hst : out.store = s)
    (hc : CacheOK s j out.cache)
    (hp : ∀ st jc' k' pc' ev, out = .cont st jc' k' pc' ev → PcOK s j jc' k' pc') : JPost s j e out := by
  refine ⟨⟨e, by rw [hst]; exact p.range, by rw [hst]; exact p.wf, Nat.le_refl _⟩, by rw [hst]; exact Ext.refl _ _ _,
    by rw [hst]; exact p.tail, by rw [hst]; exact p.snap, by rw [hst]; exact hc, ?_⟩
  intro st jc' k' pc' ev h
  have : st = s := by rw [h] at hst; exact hst
  subst this
  exact hp _ _ _ _ _ h

/-- `afterLoad` with an acceptable cache: either done, or on to `putx cache.pos` with PcOK. -/
theorem afterLoad_post {s j e jc k pc} (p : JPre s j e jc k pc) (c' : JCache) (ev : Ev)
    (hc : CacheOK s j c') : JPost s j e (afterLoad s c' k ev) := by
  apply JPost.same p _ (by simp) (by simpa using hc)
  intro st jc' k' pc' ev' h
  unfold afterLoad at h
  split at h
  · cases h
  · rename_i op a
    split at h
    · cases h
    · rename_i hchk
      cases h
      refine ⟨rfl, op, a, rfl, ?_⟩
      rcases hc with hc | hc
      · exact Or.inl ⟨hc, hchk⟩
      · exact Or.inr hc.1



theorem headOf_eq_of {s : Store} {j h : Nat} (hx : s (.head j) = some (.num h)) : headOf s j = h := by
  simp [headOf, hx]

theorem jstep_tables_rdHead {s j e jc k} (p : JPre s j e jc k .rdHead) :
    JPost s j e (jstep s j jc k .rdHead) := by
  simp only [jstep]
  split
  · rename_i h hx
    have hH := headOf_eq_of hx
    split
    · rename_i hpos
      -- shortcut: the cache is reused; its position equals HEAD, so it is exact
      apply afterLoad_post p jc _
      rcases p.cache with hc | hc
      · exact Or.inl hc
      · have := hc.1; omega
    · split
      · exact JPost.same p _ rfl p.cache (by intro _ _ _ _ _ h; cases h)
      · refine JPost.same p _ rfl (by simpa using p.cache) ?_
        intro st jc' k' pc' ev h; cases h
        simp only [PcOK]; omega
  · exact JPost.same p _ rfl p.cache (by intro _ _ _ _ _ h; cases h)

theorem jstep_tables_rdSnap {s j e jc k h} (p : JPre s j e jc k (.rdSnap h)) :
    JPost s j e (jstep s j jc k (.rdSnap h)) := by
  have hh : h ≤ headOf s j := p.known h (by simp [JPc.known])
  have h1 : 1 ≤ h := p.pcok
  simp only [jstep]
  split
  · rename_i a t hx
    obtain ⟨a', t', hv, ha1, haH, hta⟩ := p.snap _ hx
    cases hv
    split
    · rename_i hah
      refine JPost.same p _ rfl (by simpa using p.cache) ?_
      intro st jc' k' pc' ev hc; cases hc
      obtain ⟨th, hth⟩ := p.wf.tableAt_some h (by have := p.he; omega)
      refine ⟨ha1, hah, ?_, by simp [hth]⟩
      -- re-reading entry a on top of the snapshot table is the identity, then replay a+1..h
      obtain ⟨op, t0, ht0, hchk, hent⟩ := p.wf (a - 1) (by have := p.he; omega)
      have ea : a - 1 + 1 = a := by omega
      rw [ea] at hent
      have hta' : applyActs t0 op.acts = some t := by
        have : tableAt s j (a - 1 + 1) = some t := by rw [ea]; exact hta
        simpa [tableAt, ht0, ea, hent] using this
      have hidem := apply_idem op t0 t hchk hta'
      have hk : h + 1 - a = (h - a) + 1 := by omega
      rw [hk]
      simp only [replayFrom, hent, hidem]
      have := tableAt_replay s j (h - a) a t hta
      have e2 : a + (h - a) = h := by omega
      rw [e2] at this
      exact this.symm
    · rename_i hah
      apply afterLoad_post p ⟨h, t⟩ _
      right; exact ⟨by show h < headOf s j; omega, a, haH, hta⟩
  · refine JPost.same p _ rfl (by simpa using p.cache) ?_
    intro st jc' k' pc' ev hc; cases hc; exact h1
  · exact JPost.same p _ rfl p.cache (by intro _ _ _ _ _ h; cases h)

theorem jstep_tables_rdTail {s j e jc k h} (p : JPre s j e jc k (.rdTail h)) :
    JPost s j e (jstep s j jc k (.rdTail h)) := by
  have hh : h ≤ headOf s j := p.known h (by simp [JPc.known])
  have h1 : 1 ≤ h := p.pcok
  simp only [jstep, p.tail]
  refine JPost.same p _ rfl (by simpa using p.cache) ?_
  intro st jc' k' pc' ev hc; cases hc
  obtain ⟨th, hth⟩ := p.wf.tableAt_some h (by have := p.he; omega)
  refine ⟨Nat.le_refl _, h1, ?_, by simp [hth]⟩
  have := tableAt_replay s j h 0 [] rfl
  simp only [Nat.zero_add] at this
  simpa using this.symm



theorem jstep_tables_rdEnt {s j e jc k h n t a} (p : JPre s j e jc k (.rdEnt h n t a)) :
    JPost s j e (jstep s j jc k (.rdEnt h n t a)) := by
  have hh : h ≤ headOf s j := p.known h (by simp [JPc.known])
  obtain ⟨hn1, hnh, hrep, hsome⟩ := p.pcok
  simp only [jstep]
  split
  · rename_i acts hx
    split
    · exact JPost.same p _ rfl p.cache (by intro _ _ _ _ _ h; cases h)
    · rename_i t' hap
      have hk : h + 1 - n = (h - n) + 1 := by omega
      rw [hk] at hrep
      simp only [replayFrom, hx, hap] at hrep
      split
      · rename_i hlt
        refine JPost.same p _ rfl (by simpa using p.cache) ?_
        intro st jc' k' pc' ev hc; cases hc
        refine ⟨by omega, by omega, ?_, hsome⟩
        have : h + 1 - (n + 1) = h - n := by omega
        rw [this]; exact hrep
      · rename_i hge
        have hnh' : n = h := by omega
        subst hnh'
        have hexact : tableAt s j n = some t' := by
          simp only [Nat.sub_self, replayFrom] at hrep; exact hrep.symm
        split
        · refine JPost.same p _ rfl (show CacheOK s j ⟨n, t'⟩ from Or.inl hexact) ?_
          intro st jc' k' pc' ev hc; cases hc
          exact ⟨by omega, hexact⟩
        · exact afterLoad_post p ⟨n, t'⟩ _ (Or.inl hexact)
  · exact JPost.same p _ rfl p.cache (by intro _ _ _ _ _ h; cases h)

theorem jstep_tables_putSnap {s j e jc k h t} (p : JPre s j e jc k (.putSnap h t)) :
    JPost s j e (jstep s j jc k (.putSnap h t)) := by
  have hh : h ≤ headOf s j := p.known h (by simp [JPc.known])
  obtain ⟨h1, hth⟩ := p.pcok
  simp only [jstep]
  have hext : Ext s (s.put (.snap j) (.jsnap h t)) j e :=
    ⟨fun m _ _ => Store.put_other _ _ _ _ (by simp), by rw [headOf_put_other _ _ _ _ (by simp)]; exact Nat.le_refl _⟩
  have hH : headOf (s.put (.snap j) (.jsnap h t)) j = headOf s j := headOf_put_other _ _ _ _ (by simp)
  have hcache : CacheOK (s.put (.snap j) (.jsnap h t)) j jc := hext.cacheOK jc (by have := p.cpos; have := p.he; omega) p.he p.cache
  refine ⟨⟨e, ?_, by simpa using hext.wf p.wf, Nat.le_refl _⟩, by simpa using hext, ?_, ?_, by simpa using hcache, ?_⟩
  · intro m; simp only [afterLoad_store]; rw [Store.put_other _ _ _ _ (by simp)]; exact p.range m
  · simp only [afterLoad_store]; rw [Store.put_other _ _ _ _ (by simp)]; exact p.tail
  · simp only [afterLoad_store]
    intro v hv
    simp at hv
    subst hv
    exact ⟨h, t, rfl, h1, by rw [hH]; exact hh, by rw [hext.tableAt h (by have := p.he; omega)]; exact hth⟩
  · intro st jc' k' pc' ev hc
    unfold afterLoad at hc
    split at hc
    · cases hc
    · rename_i op a
      split at hc
      · cases hc
      · rename_i hchk
        cases hc
        refine ⟨rfl, op, a, rfl, ?_⟩
        rcases hcache with hc | hc
        · exact Or.inl ⟨hc, hchk⟩
        · exact Or.inr hc.1



theorem jstep_tables_putx {s j e jc k pos} (p : JPre s j e jc k (.putx pos)) :
    JPost s j e (jstep s j jc k (.putx pos)) := by
  have hposH : pos ≤ headOf s j := p.known pos (by simp [JPc.known])
  obtain ⟨hjp, op, a, hk, hor⟩ := p.pcok
  subst hk
  simp only [jstep]
  split
  · -- the entry exists: retry or give up
    split
    · refine JPost.same p _ rfl (by simpa using p.cache) ?_
      intro st jc' k' pc' ev hc; cases hc; trivial
    · exact JPost.same p _ rfl p.cache (by intro _ _ _ _ _ h; cases h)
  · rename_i hnone
    -- the entry is created: pos is the journal end and equals HEAD, so the cache was exact
    have hpose : pos = e := by
      have h1 := p.range (pos + 1)
      rw [hnone] at h1; simp at h1
      have := p.he
      omega
    have hHe : headOf s j = e := by have := p.he; omega
    obtain ⟨hexact, hchk⟩ : tableAt s j pos = some jc.table ∧ op.check jc.table = none := by
      rcases hor with h | h
      · exact h
      · omega
    have hext : Ext s (s.put (.ent j (pos + 1)) (.entry op.acts)) j e :=
      ⟨fun m _ hm => Store.put_other _ _ _ _ (by simp; omega),
       by rw [headOf_put_other _ _ _ _ (by simp)]; exact Nat.le_refl _⟩
    have hH : headOf (s.put (.ent j (pos + 1)) (.entry op.acts)) j = headOf s j := headOf_put_other _ _ _ _ (by simp)
    refine ⟨⟨e + 1, ?_, ?_, by omega⟩, by simpa using hext, ?_, ?_, ?_, ?_⟩
    · intro m
      simp only [JOut.store_cont]
      by_cases hm : m = pos + 1
      · subst hm; simp; omega
      · rw [Store.put_other _ _ _ _ (by simp [hm])]; rw [p.range m]; omega
    · intro n hn
      simp only [JOut.store_cont]
      by_cases hne : n = e
      · subst hne
        refine ⟨op, jc.table, ?_, hchk, ?_⟩
        · rw [hext.tableAt n (Nat.le_refl _)]; rw [← hpose]; exact hexact
        · rw [← hpose]; simp
      · exact hext.wf p.wf n (by omega)
    · simp only [JOut.store_cont]; rw [Store.put_other _ _ _ _ (by simp)]; exact p.tail
    · simp only [JOut.store_cont]
      intro v hv
      rw [Store.put_other _ _ _ _ (by simp)] at hv
      obtain ⟨a', t', hv', h1, h2, h3⟩ := p.snap v hv
      exact ⟨a', t', hv', h1, by rw [hH]; exact h2, by rw [hext.tableAt a' (by omega)]; exact h3⟩
    · simpa using hext.cacheOK jc (by have := p.cpos; omega) p.he p.cache
    · intro st jc' k' pc' ev hc; cases hc
      exact ⟨op, a, rfl, by simp⟩

theorem jstep_tables_putHead {s j e jc k n} (p : JPre s j e jc k (.putHead n)) :
    JPost s j e (jstep s j jc k (.putHead n)) := by
  obtain ⟨hne, hHe⟩ := p.ph n rfl
  simp only [jstep]
  have hext : Ext s (s.put (.head j) (.num n)) j e :=
    ⟨fun m _ _ => Store.put_other _ _ _ _ (by simp), by rw [headOf_put_head]; omega⟩
  have hH : headOf (s.put (.head j) (.num n)) j = n := headOf_put_head _ _ _
  refine ⟨⟨e, ?_, by simpa using hext.wf p.wf, Nat.le_refl _⟩, by simpa using hext, ?_, ?_, ?_, ?_⟩
  · intro m; simp only [JOut.store_done]; rw [Store.put_other _ _ _ _ (by simp)]; exact p.range m
  · simp only [JOut.store_done]; rw [Store.put_other _ _ _ _ (by simp)]; exact p.tail
  · simp only [JOut.store_done]
    intro v hv
    rw [Store.put_other _ _ _ _ (by simp)] at hv
    obtain ⟨a', t', hv', h1, h2, h3⟩ := p.snap v hv
    exact ⟨a', t', hv', h1, by rw [hH]; omega, by rw [hext.tableAt a' (by omega)]; exact h3⟩
  · simp only [JOut.store_done, JOut.cache_done]
    obtain ⟨m, hm, htm⟩ := p.cache.hist p.cpos
    right
    refine ⟨by show 0 < headOf (s.put (.head j) (.num n)) j; rw [hH]; omega, m, by rw [hH]; omega, ?_⟩
    rw [hext.tableAt m (by have := p.he; omega)]; exact htm
  · intro st jc' k' pc' ev hc; cases hc

theorem jstep_tables {s j e jc k pc} (p : JPre s j e jc k pc) : JPost s j e (jstep s j jc k pc) := by
  cases pc with
  | rdHead => exact jstep_tables_rdHead p
  | rdSnap h => exact jstep_tables_rdSnap p
  | rdTail h => exact jstep_tables_rdTail p
  | rdEnt h n t a => exact jstep_tables_rdEnt p
  | putSnap h t => exact jstep_tables_putSnap p
  | putx pos => exact jstep_tables_putx p
  | putHead n => exact jstep_tables_putHead p


theorem EntRange.unique {s : Store} {j e e' : Nat} (h : EntRange s j e) (h' : EntRange s j e') : e = e' := by
  have a := h (e + 1); have a' := h' (e + 1)
  have b := h (e' + 1); have b' := h' (e' + 1)
  by_cases hlt : e < e'
  · have : (s (.ent j (e + 1))).isSome := a'.mpr (by omega)
    have := a.mp this; omega
  · by_cases hgt : e' < e
    · have : (s (.ent j (e' + 1))).isSome := b.mpr (by omega)
      have := b'.mp this; omega
    · omega

structure Inv2 (j : Nat) (s : Sys) (e : Nat) : Prop where
  wf : WF s.store j e
  tail : s.store (.tail j) = some (.tailv 1 0)
  snap : SnapOK s.store j
  cache : ∀ c slot, CacheOK s.store j ((s.cl c).cache j slot)
  pcs : ∀ c slot k pc, (s.cl c).onJ j = some (slot, pc) → (s.cl c).kindOn j = some k →
      PcOK s.store j ((s.cl c).cache j slot) k pc

theorem cacheOK_empty (s : Store) (j : Nat) : CacheOK s j JCache.empty := Or.inl rfl

theorem inv2_exec {j : Nat} {s : Sys} {e e' : Nat} (l : Label) (h1 : Inv1 j s e) (h2 : Inv2 j s e)
    (hl : l.resets j = false) (h1' : Inv1 j (s.exec l) e') : Inv2 j (s.exec l) e' := by
  cases l with
  | truncSnap j' =>
    simp only [Sys.exec] at h1' ⊢
    have hent : ∀ n, (s.store.del (.snap j')) (.ent j n) = s.store (.ent j n) := by intro n; simp [Store.del]
    have hhd : (s.store.del (.snap j')) (.head j) = s.store (.head j) := by simp [Store.del]
    have hee : e = e' := EntRange.unique h1.range (by intro n; rw [← hent n]; exact h1'.range n)
    subst hee
    have hH : headOf (s.store.del (.snap j')) j = headOf s.store j := headOf_congr _ _ _ hhd
    have hx : Ext s.store (s.store.del (.snap j')) j e := ⟨fun m _ _ => hent m, by rw [hH]; exact Nat.le_refl _⟩
    refine ⟨hx.wf h2.wf, by simpa [Store.del] using h2.tail, ?_, ?_, ?_⟩
    · intro v hv
      by_cases hj : j' = j
      · subst hj; simp [Store.del] at hv
      · have hv' : s.store (.snap j) = some v := by
          have : (s.store.del (.snap j')) (.snap j) = s.store (.snap j) :=
            Store.del_other _ _ _ (by simp; exact fun h => hj h.symm)
          rw [← this]; exact hv
        obtain ⟨a, t, b1, b2, b3, b4⟩ := h2.snap v hv'
        exact ⟨a, t, b1, b2, by rw [hH]; exact b3, by rw [hx.tableAt a (by have := h1.he; omega)]; exact b4⟩
    · intro c slot
      have hp1 := h1.cache c slot
      have hp2 := h1.he
      show CacheOK (s.store.del (.snap j')) j ((s.cl c).cache j slot)
      exact hx.cacheOK _ (by omega) h1.he (h2.cache c slot)
    · intro c slot k pc hon hk
      have hpcOn := pcOn_of_onJ hon
      show PcOK (s.store.del (.snap j')) j ((s.cl c).cache j slot) k pc
      exact hx.pcOK _ k pc (fun p hp => by have := h1.known c pc p hpcOn hp; have := h1.he; omega)
        (fun n hn => by subst hn; have := h1.ph c n hpcOn; omega) (h2.pcs _ _ _ _ hon hk)
  | start c st =>
    have hsum := start_summary s c st j (by simpa [Label.resets] using hl) h1.alloc
    simp only [Sys.exec] at h1' ⊢
    obtain ⟨hst, _, hoth, hc⟩ := hsum
    have hee : e = e' := EntRange.unique h1.range (by have := h1'.range; rw [hst] at this; exact this)
    subst hee
    refine ⟨by rw [hst]; exact h2.wf, by rw [hst]; exact h2.tail, by rw [hst]; exact h2.snap, ?_, ?_⟩
    · intro c' slot
      rw [hst]
      by_cases hcc : c' = c
      · subst hcc
        rcases hc with hc | ⟨_, _, hca, _⟩
        · rw [hc]; exact h2.cache _ _
        · rcases hca slot with hca | hca
          · rw [hca]; exact h2.cache _ _
          · rw [hca]; exact cacheOK_empty _ _
      · rw [hoth c' hcc]; exact h2.cache _ _
    · intro c' slot k pc hon hk
      rw [hst]
      by_cases hcc : c' = c
      · subst hcc
        rcases hc with hc | ⟨_, hpc, _, _⟩
        · rw [hc] at hon hk ⊢; exact h2.pcs _ _ _ _ hon hk
        · have hpc' := pcOn_of_onJ hon
          rcases hpc with hpc | hpc
          · rw [hpc] at hpc'; cases hpc'
          · rw [hpc] at hpc'; cases hpc'; trivial
      · rw [hoth c' hcc] at hon hk ⊢; exact h2.pcs _ _ _ _ hon hk
  | step c =>
    simp only [Sys.exec] at h1' ⊢
    have hoth := step_others s c
    cases step_summary s c j with
    | reset p hp hr => rw [h1.noreset c p hp] at hr; cases hr
    | frame hhead hent hold hnew hcache hsnap htail =>
      have hee : e = e' := EntRange.unique h1.range (by intro n; rw [← hent n]; exact h1'.range n)
      subst hee
      have hext : Ext s.store ((s.step c).1).store j e :=
        ⟨fun m _ _ => hent m, by rw [headOf_congr _ _ _ hhead]; exact Nat.le_refl _⟩
      have hH : headOf ((s.step c).1).store j = headOf s.store j := headOf_congr _ _ _ hhead
      refine ⟨hext.wf h2.wf, by rw [htail]; exact h2.tail, ?_, ?_, ?_⟩
      · intro v hv
        rw [hsnap] at hv
        obtain ⟨a, t, h3, h4, h5, h6⟩ := h2.snap v hv
        exact ⟨a, t, h3, h4, by rw [hH]; exact h5, by rw [hext.tableAt a (by have := h1.he; omega)]; exact h6⟩
      · intro c' slot
        have hpos : ((s.cl c').cache j slot).pos ≤ e := by have := h1.cache c' slot; have := h1.he; omega
        by_cases hcc : c' = c
        · subst hcc; rw [hcache]; exact hext.cacheOK _ hpos h1.he (h2.cache _ _)
        · rw [hoth c' hcc]; exact hext.cacheOK _ hpos h1.he (h2.cache _ _)
      · intro c' slot k pc hon hk
        by_cases hcc : c' = c
        · subst hcc
          have hpc' := pcOn_of_onJ hon
          rcases hnew with hn | hn
          · rw [hn] at hpc'; cases hpc'
          · rw [hn] at hpc'; cases hpc'; trivial
        · rw [hoth c' hcc] at hon hk ⊢
          have hpcOn := pcOn_of_onJ hon
          exact hext.pcOK _ k pc (fun p hp => by have := h1.known c' pc p hpcOn hp; have := h1.he; omega)
            (fun n hn => by subst hn; have := h1.ph c' n hpcOn; omega) (h2.pcs _ _ _ _ hon hk)
    | jrun slot k pc hold hst hpc hcache hkind hkind' =>
      have hpcOn := pcOn_of_onJ hold
      have pre : JPre s.store j e ((s.cl c).cache j slot) k pc :=
        ⟨h1.range, h1.he, h1.eh, fun p hp => h1.known c pc p hpcOn hp, h1.cache c slot,
         fun n hn => by subst hn; exact h1.ph c n hpcOn, h2.wf, h2.tail, h2.snap, h2.cache c slot,
         h2.pcs c slot k pc hold hkind⟩
      have post := jstep_tables pre
      obtain ⟨e'', hr'', hwf'', _⟩ := post.wf
      have hee : e'' = e' := EntRange.unique hr'' (by rw [← hst]; exact h1'.range)
      subst hee
      have hext : Ext s.store ((s.step c).1).store j e := by rw [hst]; exact post.ext
      refine ⟨by rw [hst]; exact hwf'', by rw [hst]; exact post.tail, by rw [hst]; exact post.snap, ?_, ?_⟩
      · intro c' sl
        by_cases hcc : c' = c
        · subst hcc
          rw [hcache]
          split
          · rw [hst]; exact post.cache
          · exact hext.cacheOK _ (by have := h1.cache c' sl; have := h1.he; omega) h1.he (h2.cache _ _)
        · rw [hoth c' hcc]
          exact hext.cacheOK _ (by have := h1.cache c' sl; have := h1.he; omega) h1.he (h2.cache _ _)
      · intro c' sl k' pc' hon hk
        by_cases hcc : c' = c
        · subst hcc
          -- the stepping client: its new state comes from the `cont` outcome
          cases hout : jstep s.store j ((s.cl c').cache j slot) k pc with
          | done st jc r ev =>
            have := pcOn_of_onJ hon
            rw [hpc, hout] at this; cases this
          | cont st jc k'' pc'' ev =>
            obtain ⟨hk2, hon2⟩ := hkind' st jc k'' pc'' ev hout
            rw [hon2] at hon; cases hon
            rw [hk2] at hk; cases hk
            have hp := post.pcok st jc k' pc' ev hout
            rw [hcache, if_pos rfl, hst, hout]
            simpa using hp
        · rw [hoth c' hcc] at hon hk ⊢
          have hpcOn' := pcOn_of_onJ hon
          exact hext.pcOK _ k' pc' (fun p hp => by have := h1.known c' pc' p hpcOn' hp; have := h1.he; omega)
            (fun n hn => by subst hn; have := h1.ph c' n hpcOn'; omega) (h2.pcs _ _ _ _ hon hk)


theorem inv12_run {j : Nat} (ls : List Label) : ∀ {s : Sys} {e : Nat}, Inv1 j s e → Inv2 j s e → NoReset j ls →
    ∃ e', Inv1 j (s.run ls) e' ∧ Inv2 j (s.run ls) e' := by
  induction ls with
  | nil => intro s e h1 h2 _; exact ⟨e, h1, h2⟩
  | cons l ls ih =>
    intro s e h1 h2 hn
    obtain ⟨e1, h1', _⟩ := inv1_exec l h1 (hn l (by simp))
    have h2' := inv2_exec l h1 h2 (hn l (by simp)) h1'
    exact ih h1' h2' (fun l' hl' => hn l' (by simp [hl']))

theorem JFresh.inv2 {j s} (h : JFresh j s) : Inv2 j s 0 := by
  refine ⟨fun n hn => by omega, h.tail, ?_, ?_, ?_⟩
  · intro v hv; rw [h.nosnap] at hv; cases hv
  · intro c slot; rw [h.cache c slot]; exact cacheOK_empty _ _
  · intro c slot k pc hon; have := pcOn_of_onJ hon; rw [h.idle c] at this; cases this

theorem Reach.inv12 {j s} (h : Reach j s) : ∃ e, Inv1 j s e ∧ Inv2 j s e := by
  obtain ⟨s0, l0, hf, hn0, rfl⟩ := h
  exact inv12_run l0 hf.inv1 hf.inv2 hn0

/-- `CommitAt(HEAD)` at the journal end, run alone, succeeds in two storage operations. -/
theorem commit_at_end_succeeds {j : Nat} {s : Sys} (h : Reach j s) (c slot pos : Nat) (op : JOp) (a : Nat)
    (hon : (s.cl c).onJ j = some (slot, .putx pos)) (hk : (s.cl c).kindOn j = some (.commit op a))
    (hend : s.store (.ent j (pos + 1)) = none) :
    let s2 := ((s.step c).1.step c).1
    headOf s2.store j = pos + 1 ∧ s2.store (.ent j (pos + 1)) = some (.entry op.acts) ∧ (s2.cl c).pcOn j = none := by
  obtain ⟨e, h1⟩ := h.inv1
  intro s2
  -- first step: the entry is created
  have hstep1 : jstep s.store j ((s.cl c).cache j slot) (.commit op a) (.putx pos) =
      .cont (s.store.put (.ent j (pos + 1)) (.entry op.acts)) ((s.cl c).cache j slot) (.commit op a)
        (.putHead (pos + 1)) ⟨.putx, .ent j (pos + 1), .ok, some (.entry op.acts)⟩ := by
    simp [jstep, hend]
  cases step_summary s c j with
  | reset p hp hr => rw [h1.noreset c p hp] at hr; cases hr
  | frame _ _ hold _ _ _ _ => rw [hold] at hon; cases hon
  | jrun slot' k' pc' hold hst hpc hcache hkind hkind' =>
    rw [hon] at hold; cases hold
    rw [hk] at hkind; cases hkind
    obtain ⟨hk1, hon1⟩ := hkind' _ _ _ _ _ hstep1
    have hst1 : ((s.step c).1).store = s.store.put (.ent j (pos + 1)) (.entry op.acts) := by
      rw [hst, hstep1]; rfl
    -- second step: HEAD is written
    obtain ⟨e1, h1', _⟩ := inv1_exec (.step c) h1 rfl
    simp only [Sys.exec] at h1'
    cases step_summary (s.step c).1 c j with
    | reset p hp hr => rw [h1'.noreset c p hp] at hr; cases hr
    | frame _ _ hold2 _ _ _ _ => rw [hold2] at hon1; cases hon1
    | jrun slot2 k2 pc2 hold2 hst2 hpc2 hcache2 hkind2 _ =>
      rw [hon1] at hold2; cases hold2
      have hstep2 : ∀ jc k, (jstep ((s.step c).1).store j jc k (.putHead (pos + 1))).store =
          ((s.step c).1).store.put (.head j) (.num (pos + 1)) := by intro jc k; simp [jstep]
      have hpc2' : ∀ jc k, (jstep ((s.step c).1).store j jc k (.putHead (pos + 1))).pc? = none := by
        intro jc k; simp [jstep]
      refine ⟨?_, ?_, ?_⟩
      · show headOf (((s.step c).1.step c).1).store j = pos + 1
        rw [hst2, hstep2]; exact headOf_put_head _ _ _
      · show (((s.step c).1.step c).1).store (.ent j (pos + 1)) = _
        rw [hst2, hstep2, Store.put_other _ _ _ _ (by simp), hst1]; simp
      · show ((((s.step c).1.step c).1).cl c).pcOn j = none
        rw [hpc2, hpc2']


theorem afterLoad_done (s c k ev st jc r ev') (h : afterLoad s c k ev = .done st jc r ev') : st = s := by
  have := afterLoad_store s c k ev
  rw [h] at this; exact this

/-- A journal procedure that ends in failure has written neither an entry nor HEAD in that step
    (and it can only fail from a state in which it has not created an entry: after a successful
    PutIfNotExists the only continuation is the HEAD write, which ends with `ok`). -/
theorem jstep_fail_quiet (s : Store) (j : Nat) (jc k pc st jc' r ev)
    (h : jstep s j jc k pc = .done st jc' r ev) (hr : r ≠ .ok) :
    (∀ n, st (.ent j n) = s (.ent j n)) ∧ st (.head j) = s (.head j) := by
  cases pc <;> simp only [jstep] at h
  all_goals (repeat' split at h)
  all_goals (first
    | (cases h; exact ⟨fun _ => rfl, rfl⟩)
    | (have := afterLoad_done _ _ _ _ _ _ _ _ h; subst this; first | exact ⟨fun _ => rfl, rfl⟩ | exact ⟨fun n => by simp [Store.put], by simp [Store.put]⟩)
    | (cases h; exact absurd rfl hr)
    | cases h)


def KeysNodup (t : Table) : Prop := (t.map (·.1)).Nodup

theorem erase_keys {t : Table} {k : Nat} (h : KeysNodup t) : KeysNodup (Table.erase t k) ∧ k ∉ (Table.erase t k).map (·.1) := by
  constructor
  · unfold KeysNodup Table.erase at *
    exact (List.Nodup.sublist (List.Sublist.map _ List.filter_sublist) h)
  · simp [Table.erase]

theorem set_keys {t : Table} {k v : Nat} (h : KeysNodup t) : KeysNodup (Table.set t k v) := by
  obtain ⟨h1, h2⟩ := erase_keys (k := k) h
  unfold KeysNodup Table.set
  simp only [List.map_cons, List.nodup_cons]
  exact ⟨h2, h1⟩

theorem applyAct_keys {t t' : Table} {a : JAct} (h : KeysNodup t) (ha : applyAct t a = some t') : KeysNodup t' := by
  cases a with
  | add k v => simp [applyAct] at ha; subst ha; exact set_keys h
  | update k v =>
    simp only [applyAct] at ha; split at ha
    · simp at ha; subst ha; exact set_keys h
    · cases ha
  | delete k => simp [applyAct] at ha; subst ha; exact (erase_keys h).1

theorem applyActs_keys {acts : List JAct} : ∀ {t t' : Table}, KeysNodup t → applyActs t acts = some t' → KeysNodup t' := by
  induction acts with
  | nil => intro t t' h ha; simp [applyActs] at ha; subst ha; exact h
  | cons a as ih =>
    intro t t' h ha
    simp only [applyActs] at ha
    split at ha
    · rename_i t1 h1; exact ih (applyAct_keys h h1) ha
    · cases ha

/-- A replayed journal table never holds a key twice. -/
theorem tableAt_keys (s : Store) (j : Nat) : ∀ (n : Nat) (t : Table), tableAt s j n = some t → KeysNodup t := by
  intro n
  induction n with
  | zero => intro t h; simp [tableAt] at h; subst h; simp [KeysNodup]
  | succ m ih =>
    intro t h
    simp only [tableAt] at h
    split at h
    · rename_i t0 h0
      split at h
      · exact applyActs_keys (ih t0 h0) h
      · cases h
    · cases h


end Zed.Store
