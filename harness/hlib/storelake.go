package hlib

// Shared machinery of the C12 / C17 harnesses: scenarios (per-client API operation lists +
// an explicit schedule of storage operations), running them on real lake handles over one
// StoreEngine, rendering the observed storage trace / results / final visible state in the
// canonical form the Lean model (Zed/Model/StoreApi.lean) prints, and comparing the two.

import (
	"bytes"
	"context"
	"errors"
	"fmt"
	"io/fs"
	"regexp"
	"sort"
	"strconv"
	"strings"
	"sync"

	zed "github.com/brimdata/super"
	"github.com/brimdata/super/compiler"
	"github.com/brimdata/super/compiler/ast"
	"github.com/brimdata/super/lake"
	"github.com/brimdata/super/lake/branches"
	"github.com/brimdata/super/lake/commits"
	"github.com/brimdata/super/lake/journal"
	"github.com/brimdata/super/lake/pools"
	"github.com/brimdata/super/order"
	"github.com/brimdata/super/runtime"
	"github.com/brimdata/super/runtime/exec"
	"github.com/brimdata/super/zio/zngio"
	"github.com/brimdata/super/zio/zsonio"
	"github.com/brimdata/super/zson"
	"github.com/segmentio/ksuid"
	"go.uber.org/zap"
)

// StoreOp is one API operation of a scenario.  Pools and commits are referred to by the
// label of the operation that creates them; data objects by a scenario-wide name.
type StoreOp struct {
	Kind   string `json:"kind"`             // createPool renamePool removePool createBranch removeBranch load delete | compact revert merge deleteWhere addVectors
	Lbl    int    `json:"lbl,omitempty"`    // label of the pool / commit this op creates
	Pool   int    `json:"pool,omitempty"`   // label of the pool operated on
	Name   int    `json:"name,omitempty"`   // pool name "q<n>" / branch name (0 = "main", n = "b<n>")
	Branch int    `json:"branch,omitempty"` // branch operated on
	Obj    int    `json:"obj,omitempty"`    // load: name of the object added
	Objs   []int  `json:"objs,omitempty"`   // delete: names of the objects deleted
	Parent int    `json:"parent,omitempty"` // createBranch: commit label (0 = Nil)
}

func (o StoreOp) Sexp() string {
	switch o.Kind {
	case "createPool":
		return fmt.Sprintf("(createPool %d %d)", o.Lbl, o.Name)
	case "renamePool":
		return fmt.Sprintf("(renamePool %d %d)", o.Pool, o.Name)
	case "removePool":
		return fmt.Sprintf("(removePool %d)", o.Pool)
	case "createBranch":
		return fmt.Sprintf("(createBranch %d %d %d)", o.Pool, o.Name, o.Parent)
	case "removeBranch":
		return fmt.Sprintf("(removeBranch %d %d)", o.Pool, o.Name)
	case "load":
		return fmt.Sprintf("(load %d %d %d %d)", o.Pool, o.Branch, o.Obj, o.Lbl)
	case "delete":
		s := fmt.Sprintf("(delete %d %d %d", o.Pool, o.Branch, o.Lbl)
		for _, x := range o.Objs {
			s += fmt.Sprintf(" %d", x)
		}
		return s + ")"
	case "compact":
		s := fmt.Sprintf("(compact %d %d %d %d", o.Pool, o.Branch, o.Lbl, o.Obj)
		for _, x := range o.Objs {
			s += fmt.Sprintf(" %d", x)
		}
		return s + ")"
	case "revert":
		return fmt.Sprintf("(revert %d %d %d %d)", o.Pool, o.Branch, o.Lbl, o.Parent)
	case "merge":
		return fmt.Sprintf("(merge %d %d %d %d)", o.Pool, o.Branch, o.Name, o.Lbl)
	case "deleteWhere":
		return fmt.Sprintf("(deleteWhere %d %d %d %d)", o.Pool, o.Branch, o.Lbl, o.Obj)
	case "addVectors":
		s := fmt.Sprintf("(addVectors %d %d %d", o.Pool, o.Branch, o.Lbl)
		for _, x := range o.Objs {
			s += fmt.Sprintf(" %d", x)
		}
		return s + ")"
	}
	panic("bad op kind " + o.Kind)
}

// Modelled: the Lean model (StoreApi.lean) has a program for this operation.
func (o StoreOp) Modelled() bool {
	switch o.Kind {
	case "revert", "merge", "deleteWhere", "addVectors":
		return false
	}
	return true
}

// StoreOpsModelled reports whether every operation of the scenario is modelled.
func StoreOpsModelled(clients [][]StoreOp) bool {
	for _, ops := range clients {
		for _, o := range ops {
			if !o.Modelled() {
				return false
			}
		}
	}
	return true
}

func (o StoreOp) String() string { return o.Sexp() }

type StoreScenario struct {
	Clients [][]StoreOp `json:"clients"`
	Sched   []int       `json:"sched"`
}

func (sc *StoreScenario) ModelRequest(prop string) string {
	var b strings.Builder
	fmt.Fprintf(&b, "(%s run (clients", prop)
	for c, ops := range sc.Clients {
		fmt.Fprintf(&b, " (%d", c)
		for _, o := range ops {
			b.WriteString(" " + o.Sexp())
		}
		b.WriteString(")")
	}
	b.WriteString(") (sched")
	for _, c := range sc.Sched {
		fmt.Fprintf(&b, " %d", c)
	}
	b.WriteString("))")
	return b.String()
}

// StoreOpenLake is lake.Open, retried when it fails or panics for a reason other than the
// lake not existing.  lake.Root.readLakeMagic reads its first value after the next Read of the
// same zngio reader, i.e. from a buffer already returned to zngio's pool; with several harness
// workers in one process another goroutine may have reused that buffer.  (Recorded in
// /verif/pending/applied, fixed in /repo by 6cd9150ae; the retry is kept as a harmless guard.)  A garbled read can only fail or panic — the magic
// string must match — so retrying is sound.
func StoreOpenLake(e *StoreEngine, client int) (root *lake.Root, err error) {
	for try := 0; try < 6; try++ {
		err, _ = Protect(func() error {
			var err error
			root, err = lake.Open(context.Background(), e.Client(client), zap.NewNop(), e.Root)
			return err
		})
		if err == nil || errors.Is(err, lake.ErrNotExist) || errors.Is(err, ErrStoreCrashed) {
			return root, err
		}
	}
	return root, err
}

func StoreBranchName(k int) string {
	if k == 0 {
		return "main"
	}
	return fmt.Sprintf("b%d", k)
}

func StorePoolName(k int) string { return fmt.Sprintf("q%d", k) }

func storeKeyOfName(s string) string {
	if s == "main" {
		return "k0"
	}
	if len(s) > 1 && (s[0] == 'b' || s[0] == 'q') {
		if _, err := strconv.Atoi(s[1:]); err == nil {
			return "k" + s[1:]
		}
	}
	return "k?" + s
}

// OpRecord is the history entry of one API operation on the real code.
type OpRecord struct {
	Client int     `json:"client"`
	Idx    int     `json:"idx"`
	Op     StoreOp `json:"op"`
	Start  int     `json:"start"` // grant index at which it was invoked
	End    int     `json:"end"`   // grant index at which it returned (-1: never returned)
	Res    string  `json:"res"`   // ok | error class | "" (unfinished)
	Err    string  `json:"err,omitempty"`
	Commit string  `json:"commit,omitempty"`
}

// StoreRun drives real lake handles (one per client) over one StoreEngine.
type StoreRun struct {
	E        *StoreEngine
	Ops      [][]StoreOp
	Roots    []*lake.Root
	next     []int
	cur      []*OpRecord
	outcome  map[*OpRecord]*opOutcome
	Pools    map[int]ksuid.KSUID
	Commits  map[int]ksuid.KSUID
	Objs     map[int]ksuid.KSUID
	ObjName  map[string]int
	History  []*OpRecord
	Grants   int
	Sched    []int // the grants actually performed (non-void)
	seen     int   // trace events already scanned for data objects
	Err      error
	Panicked []string
	AfterOp  func(r *StoreRun, rec *OpRecord) // called when an operation returns
}

// NewStoreRun creates a lake (lake.Create through client 1000, untraced) and opens one handle
// per client.
func NewStoreRun(e *StoreEngine, ops [][]StoreOp) (*StoreRun, error) {
	ctx := context.Background()
	if _, ok := e.File("lake.zng"); !ok {
		if _, err := lake.Create(ctx, e.Client(1000), zap.NewNop(), e.Root); err != nil {
			return nil, err
		}
	}
	r := &StoreRun{E: e, Ops: ops, Pools: map[int]ksuid.KSUID{}, Commits: map[int]ksuid.KSUID{}, Objs: map[int]ksuid.KSUID{}, ObjName: map[string]int{}}
	for c := range ops {
		root, err := StoreOpenLake(e, c)
		if err != nil {
			return nil, err
		}
		r.Roots = append(r.Roots, root)
	}
	r.next = make([]int, len(ops))
	r.cur = make([]*OpRecord, len(ops))
	e.mu.Lock()
	e.Trace = nil
	e.mu.Unlock()
	return r, nil
}

// AddClient opens one more handle (cold caches) with the given operations.
func (r *StoreRun) AddClient(ops []StoreOp) (int, error) {
	c := len(r.Ops)
	n := r.E.TraceLen()
	root, err := StoreOpenLake(r.E, c)
	r.E.mu.Lock()
	r.E.Trace = r.E.Trace[:n]
	r.E.mu.Unlock()
	if err != nil {
		return c, err
	}
	r.Ops = append(r.Ops, ops)
	r.Roots = append(r.Roots, root)
	r.next = append(r.next, 0)
	r.cur = append(r.cur, nil)
	return c, nil
}

func StoreClassifyErr(err error) string {
	if err == nil {
		return "ok"
	}
	s := err.Error()
	switch {
	case errors.Is(err, ErrStoreCrashed) || strings.Contains(s, ErrStoreCrashed.Error()):
		return "crash"
	case errors.Is(err, pools.ErrExists), errors.Is(err, branches.ErrExists):
		return "exists"
	case errors.Is(err, pools.ErrNotFound), errors.Is(err, branches.ErrNotFound):
		return "notfound"
	case errors.Is(err, journal.ErrRetriesExceeded):
		return "retries"
	case errors.Is(err, lake.ErrCommitFailed):
		return "commitfailed"
	case errors.Is(err, journal.ErrKeyExists):
		return "keyexists"
	case errors.Is(err, journal.ErrNoSuchKey):
		return "nosuchkey"
	case errors.Is(err, journal.ErrConstraint), strings.Contains(s, "operated on during removal"), strings.Contains(s, "renamed during removal"):
		return "constraint"
	case strings.Contains(s, "commit not found:"), strings.Contains(s, "pool not found"), strings.Contains(s, "branch not found"):
		return "notfound"
	case strings.Contains(s, "revert commit is empty"), errors.Is(err, commits.ErrEmptyTransaction):
		return "empty"
	case strings.Contains(s, "vector exists"):
		return "exists"
	case errors.Is(err, commits.ErrNotFound), errors.Is(err, commits.ErrWriteConflict), strings.Contains(s, "non-existent object"):
		return "builderr"
	case strings.Contains(s, "common ancestor"), strings.Contains(s, "error merging"), strings.Contains(s, "no path for nil commit ID"), strings.Contains(s, "cannot merge branch into itself"):
		return "conflict"
	case strings.Contains(s, "no such journal"), errors.Is(err, fs.ErrNotExist):
		return "io"
	}
	return "other:" + s
}

// exec runs one API operation on client c's handle (called in the client's goroutine).
func (r *StoreRun) exec(c int, op StoreOp, pool ksuid.KSUID, parent ksuid.KSUID, objs []ksuid.KSUID) (commit ksuid.KSUID, created ksuid.KSUID, err error) {
	ctx := context.Background()
	root := r.Roots[c]
	// The calls below are the bodies of lake/api/local.go's methods (lakeapi.FromRoot is
	// avoided only because it builds a compiler with an S3 client per handle).
	lookupBranch := func() (*lake.Branch, error) {
		p, err := root.OpenPool(ctx, pool)
		if err != nil {
			return nil, err
		}
		return p.OpenBranchByName(ctx, StoreBranchName(op.Branch))
	}
	switch op.Kind {
	case "createPool":
		sk, _ := order.ParseSortKeys("k:asc")
		var p *lake.Pool
		p, err = root.CreatePool(ctx, StorePoolName(op.Name), sk, 0, 0)
		if err == nil {
			created = p.ID
		}
	case "renamePool":
		err = root.RenamePool(ctx, pool, StorePoolName(op.Name))
	case "removePool":
		err = root.RemovePool(ctx, pool)
	case "createBranch":
		_, err = root.CreateBranch(ctx, pool, StoreBranchName(op.Name), parent)
	case "removeBranch":
		err = root.RemoveBranch(ctx, pool, StoreBranchName(op.Name))
	case "load":
		var b *lake.Branch
		if b, err = lookupBranch(); err == nil {
			zctx := zed.NewContext()
			rd := zsonio.NewReader(zctx, strings.NewReader(fmt.Sprintf("{k:%d}{k:%d}", op.Obj, 100000+op.Obj)))
			commit, err = b.Load(ctx, zctx, rd, "verif", "load", "")
		}
	case "delete":
		var b *lake.Branch
		if b, err = lookupBranch(); err == nil {
			commit, err = b.Delete(ctx, objs, "verif", "delete")
		}
	case "compact": // lake/api/local.go Compact
		var p *lake.Pool
		if p, err = root.OpenPool(ctx, pool); err == nil {
			commit, err = exec.Compact(ctx, root, p, StoreBranchName(op.Branch), objs, false, "verif", "compact", "")
		}
	case "revert":
		commit, err = root.Revert(ctx, pool, StoreBranchName(op.Branch), parent, "verif", "revert")
	case "merge": // child op.Branch into parent op.Name
		commit, err = root.MergeBranch(ctx, pool, StoreBranchName(op.Branch), StoreBranchName(op.Name), "verif", "merge")
	case "deleteWhere": // lake/api/local.go DeleteWhere
		comp := compiler.NewLakeCompiler(root)
		var prog ast.Seq
		if prog, _, err = comp.Parse(fmt.Sprintf("k==%d", op.Obj)); err == nil {
			var b *lake.Branch
			if b, err = lookupBranch(); err == nil {
				commit, err = b.DeleteWhere(ctx, comp, prog, "verif", "delete where", "")
			}
		}
	case "addVectors":
		var b *lake.Branch
		if b, err = lookupBranch(); err == nil {
			commit, err = b.AddVectors(ctx, objs, "verif", "vectors")
		}
	default:
		err = fmt.Errorf("bad op %s", op.Kind)
	}
	return
}

// scanObjects learns the ksuid of every data object from the trace (the writer of
// <pool>/data/<id>.zng is the load operation currently running on that client).
func (r *StoreRun) scanObjects() {
	evs := r.E.TraceFrom(r.seen)
	r.seen += len(evs)
	for _, ev := range evs {
		parts := strings.Split(ev.Path, "/")
		if len(parts) == 3 && parts[1] == "data" && strings.HasSuffix(parts[2], ".zng") && !strings.HasSuffix(parts[2], "-seek.zng") && (ev.Op == "put" || ev.Op == "create") {
			id := strings.TrimSuffix(parts[2], ".zng")
			if ev.Client < len(r.cur) && r.cur[ev.Client] != nil && (r.cur[ev.Client].Op.Kind == "load" || r.cur[ev.Client].Op.Kind == "compact") {
				if _, ok := r.ObjName[id]; !ok {
					r.ObjName[id] = r.cur[ev.Client].Op.Obj
					if k, err := ksuid.Parse(id); err == nil {
						r.Objs[r.cur[ev.Client].Op.Obj] = k
					}
				}
			}
		}
	}
}

type opOutcome struct {
	commit, created ksuid.KSUID
	err             error
	panicked        bool
}

func (r *StoreRun) finish(c int, out *opOutcome) {
	rec := r.cur[c]
	r.scanObjects()
	rec.End = r.Grants
	rec.Res = StoreClassifyErr(out.err)
	if out.err != nil {
		rec.Err = out.err.Error()
	}
	if out.panicked {
		rec.Res = "panic"
		r.Panicked = append(r.Panicked, fmt.Sprintf("client %d op %s: %v", c, rec.Op, out.err))
	}
	if out.err == nil {
		switch rec.Op.Kind {
		case "createPool":
			r.Pools[rec.Op.Lbl] = out.created
		case "load", "delete", "compact", "revert", "merge", "deleteWhere", "addVectors":
			r.Commits[rec.Op.Lbl] = out.commit
			rec.Commit = out.commit.String()
		}
	}
	r.cur[c] = nil
	if r.AfterOp != nil {
		r.AfterOp(r, rec)
	}
}

// begin starts client c's next operation; returns false when its references do not resolve
// (the operation is recorded as "unresolved" without touching storage).
func (r *StoreRun) begin(c int, coop bool) (*opOutcome, bool) {
	op := r.Ops[c][r.next[c]]
	rec := &OpRecord{Client: c, Idx: r.next[c], Op: op, Start: r.Grants, End: -1}
	r.next[c]++
	r.History = append(r.History, rec)
	var pool, parent ksuid.KSUID
	var objs []ksuid.KSUID
	ok := true
	if op.Kind != "createPool" {
		pool, ok = r.Pools[op.Pool]
	}
	if ok && (op.Kind == "createBranch" || op.Kind == "revert") && op.Parent != 0 {
		parent, ok = r.Commits[op.Parent]
	}
	if !ok {
		rec.Res, rec.End = "unresolved", r.Grants
		return nil, false
	}
	for _, o := range op.Objs {
		id, ok := r.Objs[o]
		if !ok {
			// an object that was never written: a fresh id that is in no snapshot
			id = ksuid.New()
		}
		objs = append(objs, id)
	}
	r.cur[c] = rec
	out := &opOutcome{}
	fn := func() {
		e, p := Protect(func() error {
			var err error
			out.commit, out.created, err = r.exec(c, op, pool, parent, objs)
			return err
		})
		out.err, out.panicked = e, p
	}
	if coop {
		if err := r.E.StartOp(c, fn); err != nil {
			r.Err = err
		}
	} else {
		fn()
	}
	return out, true
}

// Grant gives client c one storage operation (see `grant` in StoreApi.lean for the rule).
// It returns false when the grant was void (the client had nothing left to do).
func (r *StoreRun) Grant(c int) bool {
	stepped := false
	for r.Err == nil {
		if rec := r.cur[c]; rec != nil {
			if !r.E.Running(c) {
				// returned without (another) scheduled storage call
				r.finish(c, r.outcome[rec])
				continue
			}
			if stepped {
				return true
			}
			if err := r.E.Step(c); err != nil {
				r.Err = err
				return stepped
			}
			stepped = true
			r.Grants++
			r.Sched = append(r.Sched, c)
			r.scanObjects()
			continue
		}
		if stepped || r.next[c] >= len(r.Ops[c]) {
			return stepped
		}
		out, ok := r.begin(c, true)
		if ok {
			if r.outcome == nil {
				r.outcome = map[*OpRecord]*opOutcome{}
			}
			r.outcome[r.cur[c]] = out
		}
	}
	return stepped
}

// Finished reports whether client c has no operation left and none in flight.
func (r *StoreRun) Finished(c int) bool {
	return r.cur[c] == nil && r.next[c] >= len(r.Ops[c])
}

// Enabled: a grant to c would perform a storage operation or start an operation.
func (r *StoreRun) Enabled(c int) bool { return !r.Finished(c) }

// Append adds operations to client c's list.
func (r *StoreRun) Append(c int, ops ...StoreOp) { r.Ops[c] = append(r.Ops[c], ops...) }

// RunSequential runs all remaining operations of client c to completion without the
// scheduler (plain calls; used by C17 and for setup).  Stops at the first operation that
// hits the armed crash point.
func (r *StoreRun) RunSequential(c int) {
	for r.next[c] < len(r.Ops[c]) && !r.E.Crashed(c) {
		out, ok := r.begin(c, false)
		if !ok {
			continue
		}
		r.Grants++
		crashed := r.E.Crashed(c)
		if crashed {
			rec := r.cur[c]
			r.scanObjects()
			rec.Res, rec.End = "", -1
			if out.err != nil {
				rec.Err = out.err.Error()
			}
			r.cur[c] = nil
			return
		}
		r.finish(c, out)
	}
}

// ---- canonical rendering of the real side --------------------------------------------

func storeRelClass(rel string) (cls string, journalOf string) {
	parts := strings.Split(rel, "/")
	jfile := func(j, f string) string {
		switch {
		case f == "HEAD" || f == "TAIL":
			return "j:" + j + "/" + f
		case f == "snap.zng":
			return "j:" + j + "/snap"
		case strings.HasSuffix(f, ".zng"):
			return "j:" + j + "/E" + strings.TrimSuffix(f, ".zng")
		}
		return "j:" + j + "/?" + f
	}
	switch {
	case len(parts) == 1 && rel == "lake.zng":
		return "magic", ""
	case len(parts) == 1:
		return "p#" + rel, ""
	case parts[0] == "pools" && len(parts) == 2:
		return jfile("pools", parts[1]), "pools"
	case len(parts) == 3 && parts[1] == "branches":
		return jfile("p#"+parts[0], parts[2]), parts[0]
	case len(parts) == 3 && parts[1] == "commits":
		return "p#" + parts[0] + "/c#" + strings.TrimSuffix(parts[2], ".zng"), ""
	}
	return "?" + rel, ""
}

var storeDecodeCache = map[string]string{}
var storeCacheMu sync.Mutex

// DecodeJournalEntry renders the actions of one serialized journal entry.
func DecodeJournalEntry(b []byte, poolsJournal bool) string {
	k := fmt.Sprintf("%v|%s", poolsJournal, b)
	storeCacheMu.Lock()
	v, ok := storeDecodeCache[k]
	storeCacheMu.Unlock()
	if ok {
		return v
	}
	v = decodeJournalEntry(b, poolsJournal)
	storeCacheMu.Lock()
	if len(storeDecodeCache) > 100000 {
		storeDecodeCache = map[string]string{}
	}
	storeDecodeCache[k] = v
	storeCacheMu.Unlock()
	return v
}

func decodeJournalEntry(b []byte, poolsJournal bool) string {
	u := zson.NewZNGUnmarshaler()
	if poolsJournal {
		u.Bind(journal.Add{}, journal.Delete{}, journal.Update{}, pools.Config{})
	} else {
		u.Bind(journal.Add{}, journal.Delete{}, journal.Update{}, branches.Config{})
	}
	zr := zngio.NewReaderWithOpts(zed.NewContext(), bytes.NewReader(b), zngio.ReaderOpts{Size: 4096, Threads: 1})
	defer zr.Close()
	var acts []string
	kv := func(e journal.Entry) string {
		switch e := e.(type) {
		case *pools.Config:
			return storeKeyOfName(e.Name) + "=p#" + e.ID.String()
		case *branches.Config:
			return storeKeyOfName(e.Name) + "=c#" + e.Commit.String()
		}
		return fmt.Sprintf("?%T", e)
	}
	for {
		val, err := zr.Read()
		if err != nil {
			return "undecodable:" + err.Error()
		}
		if val == nil {
			break
		}
		var e journal.Entry
		if err := u.Unmarshal(*val, &e); err != nil {
			return "undecodable:" + err.Error()
		}
		switch e := e.(type) {
		case *journal.Add:
			acts = append(acts, "A:"+kv(e.Entry))
		case *journal.Update:
			acts = append(acts, "U:"+kv(e.Entry))
		case *journal.Delete:
			acts = append(acts, "D:"+storeKeyOfName(e.EntryKey))
		default:
			acts = append(acts, fmt.Sprintf("?%T", e))
		}
	}
	if len(acts) == 0 {
		return "-"
	}
	return strings.Join(acts, "+")
}

// DecodeCommitObject returns parent, added and deleted data-object ids.
type storeCommitDec struct {
	parent     string
	adds, dels []string
	err        error
}

var storeCommitCache = map[string]*storeCommitDec{}

func DecodeCommitObject(b []byte) (parent string, adds, dels []string, err error) {
	storeCacheMu.Lock()
	d, ok := storeCommitCache[string(b)]
	storeCacheMu.Unlock()
	if ok {
		return d.parent, d.adds, d.dels, d.err
	}
	parent, adds, dels, err = decodeCommitObject(b)
	storeCacheMu.Lock()
	if len(storeCommitCache) > 100000 {
		storeCommitCache = map[string]*storeCommitDec{}
	}
	storeCommitCache[string(b)] = &storeCommitDec{parent, adds, dels, err}
	storeCacheMu.Unlock()
	return
}

func decodeCommitObject(b []byte) (parent string, adds, dels []string, err error) {
	o, err := commits.DecodeObject(bytes.NewReader(b))
	if err != nil {
		return "", nil, nil, err
	}
	for _, a := range o.Actions {
		switch a := a.(type) {
		case *commits.Add:
			adds = append(adds, a.Object.ID.String())
		case *commits.Delete:
			dels = append(dels, a.ID.String())
		}
	}
	return o.Parent.String(), adds, dels, nil
}

func (r *StoreRun) objNames(ids []string) string {
	var known []int
	var out []string
	for _, id := range ids {
		if n, ok := r.ObjName[id]; ok {
			known = append(known, n)
		} else {
			out = append(out, "o?"+id)
		}
	}
	// the order of the actions inside a commit object follows map iteration: compare as sets
	sort.Ints(known)
	sort.Strings(out)
	var res []string
	for _, n := range known {
		res = append(res, fmt.Sprintf("o%d", n))
	}
	return strings.Join(append(res, out...), ",")
}

func decodeJournalSnap(b []byte, poolsJournal bool) string {
	u := zson.NewZNGUnmarshaler()
	if poolsJournal {
		u.Bind(journal.Add{}, journal.Delete{}, journal.Update{}, pools.Config{})
	} else {
		u.Bind(journal.Add{}, journal.Delete{}, journal.Update{}, branches.Config{})
	}
	zr := zngio.NewReaderWithOpts(zed.NewContext(), bytes.NewReader(b), zngio.ReaderOpts{Size: 4096, Threads: 1})
	defer zr.Close()
	val, err := zr.Read()
	if err != nil || val == nil {
		return "undecodable-snap"
	}
	at := val.Uint()
	var kvs []string
	for {
		val, err := zr.Read()
		if err != nil {
			return "undecodable-snap"
		}
		if val == nil {
			break
		}
		var e journal.Entry
		if err := u.Unmarshal(*val, &e); err != nil {
			return "undecodable-snap"
		}
		switch e := e.(type) {
		case *pools.Config:
			kvs = append(kvs, storeKeyOfName(e.Name)+"=p#"+e.ID.String())
		case *branches.Config:
			kvs = append(kvs, storeKeyOfName(e.Name)+"=c#"+e.Commit.String())
		}
	}
	sort.Slice(kvs, func(i, j int) bool { return storeKeyNum(kvs[i]) < storeKeyNum(kvs[j]) })
	return fmt.Sprintf("s%d:%s", at, strings.Join(kvs, ","))
}

func storeKeyNum(kv string) int {
	s := strings.TrimPrefix(kv, "k")
	if i := strings.IndexByte(s, '='); i >= 0 {
		s = s[:i]
	}
	n, _ := strconv.Atoi(s)
	return n
}

// RenderEvent gives the canonical line of one model-visible storage event ("" = not
// model-visible).
func (r *StoreRun) RenderEvent(ev StoreEvent) string {
	if !DefaultStoreSched(ev.Op, ev.Path) || strings.HasPrefix(ev.Res, "crash") || ev.Client >= 900 {
		return ""
	}
	cls, jof := storeRelClass(ev.Path)
	val := "-"
	if ev.Op == "get" && ev.Res == "ok" && len(ev.Data) == 0 {
		// a file that has been created / truncated and not yet filled
		return fmt.Sprintf("e %d get %s ok empty", ev.Client, cls)
	}
	if ev.Op == "create" || ev.Op == "createx" {
		return fmt.Sprintf("e %d %s %s %s -", ev.Client, ev.Op, cls, ev.Res)
	}
	if ev.Data != nil || ev.Res == "ok" {
		switch {
		case strings.HasSuffix(cls, "/HEAD"):
			if ev.Res == "ok" {
				val = "n" + string(ev.Data)
			}
		case strings.HasSuffix(cls, "/TAIL"):
			if ev.Res == "ok" {
				val = "t" + strings.ReplaceAll(string(ev.Data), " ", ",")
			}
		case strings.HasSuffix(cls, "/snap"):
			if ev.Res == "ok" {
				val = decodeJournalSnap(ev.Data, jof == "pools")
			}
		case strings.Contains(cls, "/E"):
			if ev.Res == "ok" || ev.Op == "putx" {
				val = DecodeJournalEntry(ev.Data, jof == "pools")
			}
		case strings.Contains(cls, "/c#"):
			if ev.Op == "put" || ev.Op == "write" {
				par, adds, dels, err := DecodeCommitObject(ev.Data)
				if err != nil {
					val = "undecodable-commit"
				} else {
					val = fmt.Sprintf("par=c#%s;adds=%s;dels=%s", par, r.objNames(adds), r.objNames(dels))
				}
			}
		}
	}
	if ev.Op == "del" || ev.Op == "delp" {
		val = "-"
	}
	return fmt.Sprintf("e %d %s %s %s %s", ev.Client, ev.Op, cls, ev.Res, val)
}

func (r *StoreRun) RenderTrace() []string {
	var out []string
	for _, ev := range r.E.TraceFrom(0) {
		if s := r.RenderEvent(ev); s != "" {
			out = append(out, s)
		}
	}
	return out
}

// SchedFromTrace is the schedule the observed trace corresponds to (one entry per
// model-visible storage event).
func (r *StoreRun) SchedFromTrace() []int {
	var out []int
	for _, ev := range r.E.TraceFrom(0) {
		if r.RenderEvent(ev) != "" {
			out = append(out, ev.Client)
		}
	}
	return out
}

func (r *StoreRun) RenderResults() []string {
	var out []string
	for _, h := range r.History {
		if h.Res == "" || h.Res == "unresolved" {
			continue // unfinished; or never issued (no storage operation, so no schedule entry)
		}
		out = append(out, fmt.Sprintf("r %d %d %s", h.Client, h.Idx, h.Res))
	}
	sort.Strings(out)
	return out
}

// StoreBranchState is the visible state of one branch seen by a cold handle.
type StoreBranchState struct {
	Key      int
	Name     string
	Tip      string
	Chain    []string
	Objs     []int    // names of the data objects in the snapshot (sorted)
	Unknown  []string // object ids in the snapshot that no load of the scenario wrote
	Readable bool
	Err      string
}

type StorePoolState struct {
	Key      int
	Name     string
	ID       string
	Branches []StoreBranchState
	Readable bool
	Err      string
}

const storeObserver = 999

// Observe opens a cold handle (untraced, unscheduled) and reads the visible state.
func (r *StoreRun) Observe() (ps []StorePoolState, err error) {
	e := r.E
	n := e.TraceLen()
	defer func() {
		e.mu.Lock()
		e.Trace = e.Trace[:n]
		e.mu.Unlock()
	}()
	e.ResetOps(storeObserver)
	e.SetReadOnly(storeObserver, true)
	ctx := context.Background()
	perr, _ := Protect(func() error {
		root, err := StoreOpenLake(e, storeObserver)
		if err != nil {
			return err
		}
		list, err := root.ListPools(ctx)
		if err != nil {
			return err
		}
		for _, pc := range list {
			p := StorePoolState{Name: pc.Name, ID: pc.ID.String(), Key: storeKeyNum(storeKeyOfName(pc.Name)), Readable: true}
			pool, err := root.OpenPool(ctx, pc.ID)
			var bl []branches.Config
			if err == nil {
				bl, err = pool.ListBranches(ctx)
			}
			if err != nil {
				p.Readable, p.Err = false, err.Error()
				ps = append(ps, p)
				continue
			}
			for _, bc := range bl {
				b := StoreBranchState{Name: bc.Name, Key: storeKeyNum(storeKeyOfName(bc.Name)), Tip: bc.Commit.String(), Readable: true}
				// chain: follow parent pointers in the commit object files
				at := bc.Commit
				for at != ksuid.Nil && len(b.Chain) < 10000 {
					b.Chain = append(b.Chain, at.String())
					data, ok := e.File(pc.ID.String() + "/commits/" + at.String() + ".zng")
					if !ok {
						break
					}
					par, _, _, err := DecodeCommitObject(data)
					if err != nil {
						break
					}
					at, _ = ksuid.Parse(par)
				}
				snap, err := pool.Snapshot(ctx, bc.Commit)
				if err != nil {
					b.Readable, b.Err = false, err.Error()
				} else {
					for _, o := range snap.SelectAll() {
						if n, ok := r.ObjName[o.ID.String()]; ok {
							b.Objs = append(b.Objs, n)
						} else {
							b.Unknown = append(b.Unknown, o.ID.String())
						}
					}
					sort.Ints(b.Objs)
					sort.Strings(b.Unknown)
				}
				p.Branches = append(p.Branches, b)
			}
			sort.Slice(p.Branches, func(i, j int) bool { return p.Branches[i].Key < p.Branches[j].Key })
			ps = append(ps, p)
		}
		return nil
	})
	sort.Slice(ps, func(i, j int) bool { return ps[i].Key < ps[j].Key })
	return ps, perr
}

func RenderStoreState(ps []StorePoolState, err error) []string {
	if err != nil {
		return []string{"pools unreadable"}
	}
	var out []string
	for _, p := range ps {
		if !p.Readable {
			out = append(out, fmt.Sprintf("pool k%d p#%s unreadable", p.Key, p.ID))
			continue
		}
		out = append(out, fmt.Sprintf("pool k%d p#%s", p.Key, p.ID))
		for _, b := range p.Branches {
			var ch []string
			for _, c := range b.Chain {
				ch = append(ch, "c#"+c)
			}
			if !b.Readable {
				out = append(out, fmt.Sprintf("branch p#%s k%d c#%s chain=%s unreadable", p.ID, b.Key, b.Tip, strings.Join(ch, ",")))
				continue
			}
			var os []string
			for _, o := range b.Objs {
				os = append(os, fmt.Sprintf("o%d", o))
			}
			for _, o := range b.Unknown {
				os = append(os, "o?"+o)
			}
			out = append(out, fmt.Sprintf("branch p#%s k%d c#%s chain=%s objs=%s", p.ID, b.Key, b.Tip, strings.Join(ch, ","), strings.Join(os, ",")))
		}
	}
	return out
}

// ---- the model side ---------------------------------------------------------------------

type StoreModelOut struct {
	Trace, Results, Final, Left []string
	Raw                         string
}

// parseSexp parses one s-expression into nested []any / string.
func parseSexp(s string) (any, error) {
	var stack [][]any
	var cur []any
	tok := strings.Builder{}
	flush := func() {
		if tok.Len() > 0 {
			cur = append(cur, tok.String())
			tok.Reset()
		}
	}
	for _, ch := range s {
		switch ch {
		case '(':
			flush()
			stack = append(stack, cur)
			cur = nil
		case ')':
			flush()
			if len(stack) == 0 {
				return nil, fmt.Errorf("unbalanced )")
			}
			done := cur
			if done == nil {
				done = []any{}
			}
			cur = append(stack[len(stack)-1], done)
			stack = stack[:len(stack)-1]
		case ' ', '\t', '\n':
			flush()
		default:
			tok.WriteRune(ch)
		}
	}
	flush()
	if len(stack) != 0 || len(cur) != 1 {
		return nil, fmt.Errorf("bad s-expression")
	}
	return cur[0], nil
}

func flat(x any) string {
	switch x := x.(type) {
	case string:
		return x
	case []any:
		var parts []string
		for _, y := range x {
			parts = append(parts, flat(y))
		}
		return strings.Join(parts, " ")
	}
	return "?"
}

func ParseStoreModelOut(ans string) (*StoreModelOut, error) {
	x, err := parseSexp(ans)
	if err != nil {
		return nil, fmt.Errorf("%v: %.200s", err, ans)
	}
	l, ok := x.([]any)
	if !ok || len(l) != 5 || flat(l[0]) != "ok" {
		return nil, fmt.Errorf("model answer: %.200s", ans)
	}
	out := &StoreModelOut{Raw: ans}
	sect := func(x any, name string) ([]string, error) {
		l, ok := x.([]any)
		if !ok || len(l) == 0 || flat(l[0]) != name {
			return nil, fmt.Errorf("model answer: section %s missing", name)
		}
		var res []string
		for _, y := range l[1:] {
			res = append(res, flat(y))
		}
		return res, nil
	}
	if out.Trace, err = sect(l[1], "trace"); err != nil {
		return nil, err
	}
	if out.Results, err = sect(l[2], "results"); err != nil {
		return nil, err
	}
	if out.Final, err = sect(l[3], "final"); err != nil {
		return nil, err
	}
	if out.Left, err = sect(l[4], "left"); err != nil {
		return nil, err
	}
	sort.Strings(out.Results)
	return out, nil
}

var storeIDRe = regexp.MustCompile(`([pc])#([0-9A-Za-z]+)`)

// NormalizeStoreIDs renames pool and commit ids in first-seen order (p#… → P1…, c#… → C1…;
// the Nil commit → nil) across the given sections, in order.
func NormalizeStoreIDs(sections ...[]string) [][]string {
	seen := map[string]string{}
	cnt := map[string]int{}
	out := make([][]string, len(sections))
	for i, sec := range sections {
		for _, line := range sec {
			out[i] = append(out[i], storeIDRe.ReplaceAllStringFunc(line, func(m string) string {
				sub := storeIDRe.FindStringSubmatch(m)
				if sub[1] == "c" && (sub[2] == "0" || sub[2] == ksuid.Nil.String()) {
					return "nil"
				}
				if v, ok := seen[m]; ok {
					return v
				}
				cnt[sub[1]]++
				v := fmt.Sprintf("%s%d", strings.ToUpper(sub[1]), cnt[sub[1]])
				seen[m] = v
				return v
			}))
		}
	}
	return out
}

// DiffStoreSections returns a description of the first difference ("" = equal).
func DiffStoreSections(names []string, real, model [][]string) string {
	for i := range names {
		a, b := real[i], model[i]
		n := len(a)
		if len(b) < n {
			n = len(b)
		}
		for k := 0; k < n; k++ {
			if a[k] != b[k] {
				return fmt.Sprintf("%s[%d]: code %q, model %q", names[i], k, a[k], b[k])
			}
		}
		if len(a) != len(b) {
			var extra string
			if len(a) > len(b) {
				extra = "code has extra " + a[n]
			} else {
				extra = "model has extra " + b[n]
			}
			return fmt.Sprintf("%s: code %d lines, model %d lines; %s", names[i], len(a), len(b), extra)
		}
	}
	return ""
}

// CompareWithModel feeds the scenario with the schedule actually performed to the model and
// diffs trace, results and final visible state.
func (r *StoreRun) CompareWithModel(m *Model, prop string) (diff string, req string) {
	return r.CompareWithModelMode(m, prop, "run")
}

// CompareWithModelMode: mode "run" = atomic puts, "runfill" = create-then-fill puts.
func (r *StoreRun) CompareWithModelMode(m *Model, prop, mode string) (diff string, req string) {
	sc := &StoreScenario{Clients: r.Ops, Sched: r.SchedFromTrace()}
	req = strings.Replace(sc.ModelRequest(prop), "("+prop+" run ", "("+prop+" "+mode+" ", 1)
	ans := m.Call(req)
	mo, err := ParseStoreModelOut(ans)
	if err != nil {
		return "model: " + err.Error(), req
	}
	names := []string{"trace", "results", "final"}
	real := NormalizeStoreIDs(r.RenderTrace(), r.RenderResults(), RenderStoreState(r.Observe()))
	model := NormalizeStoreIDs(mo.Trace, mo.Results, mo.Final)
	return DiffStoreSections(names, real, model), req
}

// NextIdx is the index of client c's next operation to start; InFlight reports whether an
// operation of c has started and not yet returned.
func (r *StoreRun) NextIdx(c int) int   { return r.next[c] }
func (r *StoreRun) InFlight(c int) bool { return r.cur[c] != nil }

// StoreOpCommutes: reads of immutable journal files (entries, TAIL) commute with every other
// operation, so delaying them is not a distinct interleaving.
func StoreOpCommutes(op, rel string) bool {
	if op != "get" {
		return false
	}
	parts := strings.Split(rel, "/")
	last := parts[len(parts)-1]
	if last == "HEAD" || last == "snap.zng" || last == "lake.zng" {
		return false
	}
	return true
}

// NextCommutes reports whether client c is blocked at an operation that commutes with all
// others (see StoreOpCommutes).
func (r *StoreRun) NextCommutes(c int) bool {
	op, path, blocked := r.E.Pending(c)
	return blocked && StoreOpCommutes(op, path)
}

func ParseKSUID(s string) (ksuid.KSUID, error) { return ksuid.Parse(s) }

// TraceCounts classifies the model-visible trace for the evidence statistics: journal snapshot
// reads/writes, put-if-absent conflicts, commit-object removals, prefix deletes.
func (r *StoreRun) TraceCounts() map[string]int {
	out := map[string]int{}
	for _, ev := range r.E.TraceFrom(0) {
		if ev.Client >= 900 {
			continue
		}
		switch {
		case strings.HasSuffix(ev.Path, "/snap.zng") && ev.Op == "get" && ev.Res == "ok":
			out["journal-snapshot-read"]++
		case strings.HasSuffix(ev.Path, "/snap.zng") && ev.Op == "put":
			out["journal-snapshot-written"]++
		case ev.Op == "putx" && ev.Res == "exists":
			out["put-if-absent-lost"]++
		case ev.Op == "del" && strings.Contains(ev.Path, "/commits/"):
			out["commit-object-removed"]++
		case ev.Op == "delp":
			out["pool-directory-deleted"]++
		}
	}
	return out
}

// ---- the visible state through a warm (long-lived) handle ------------------------------

// HandleView reads the visible state through client c's own long-lived handle (its journal
// store caches, pool cache, commit caches are used as they are): pool list, name → id and
// id → name resolution, branch list and tips per pool, snapshot of every tip.  problems lists
// inconsistencies of the handle with itself (duplicate names, a listed name that does not
// resolve to its id, a listed id that does not resolve to its name).
func (r *StoreRun) HandleView(c int) (ps []StorePoolState, problems []string, err error) {
	ctx := context.Background()
	root := r.Roots[c]
	perr, _ := Protect(func() error {
		list, err := root.ListPools(ctx)
		if err != nil {
			return err
		}
		seenName := map[string]string{}
		seenID := map[string]string{}
		for _, pc := range list {
			id := pc.ID.String()
			if other, dup := seenName[pc.Name]; dup {
				problems = append(problems, fmt.Sprintf("pool name %s listed twice (ids %s, %s)", pc.Name, other, id))
			}
			seenName[pc.Name] = id
			if other, dup := seenID[id]; dup {
				problems = append(problems, fmt.Sprintf("pool id %s listed twice (names %s, %s)", id, other, pc.Name))
			}
			seenID[id] = pc.Name
			if got, err := root.PoolID(ctx, pc.Name); err != nil {
				problems = append(problems, fmt.Sprintf("listed pool name %s does not resolve: %v", pc.Name, err))
			} else if got != pc.ID {
				problems = append(problems, fmt.Sprintf("pool name %s resolves to %s, listed with id %s", pc.Name, got, id))
			}
			p := StorePoolState{Name: pc.Name, ID: id, Key: storeKeyNum(storeKeyOfName(pc.Name)), Readable: true}
			pool, err := root.OpenPool(ctx, pc.ID)
			var bl []branches.Config
			if err == nil {
				if pool.Name != pc.Name {
					problems = append(problems, fmt.Sprintf("pool id %s opens as %s, listed as %s", id, pool.Name, pc.Name))
				}
				bl, err = pool.ListBranches(ctx)
			}
			if err != nil {
				p.Readable, p.Err = false, err.Error()
				ps = append(ps, p)
				continue
			}
			seenBranch := map[string]bool{}
			for _, bc := range bl {
				if seenBranch[bc.Name] {
					problems = append(problems, fmt.Sprintf("branch name %s/%s listed twice", pc.Name, bc.Name))
				}
				seenBranch[bc.Name] = true
				b := StoreBranchState{Name: bc.Name, Key: storeKeyNum(storeKeyOfName(bc.Name)), Tip: bc.Commit.String(), Readable: true}
				if got, err := pool.LookupBranchByName(ctx, bc.Name); err != nil || got.Commit != bc.Commit {
					problems = append(problems, fmt.Sprintf("branch %s/%s does not resolve to its listed tip", pc.Name, bc.Name))
				}
				snap, err := pool.Snapshot(ctx, bc.Commit)
				if err != nil {
					b.Readable, b.Err = false, err.Error()
				} else {
					for _, o := range snap.SelectAll() {
						if n, ok := r.ObjName[o.ID.String()]; ok {
							b.Objs = append(b.Objs, n)
						} else {
							b.Unknown = append(b.Unknown, o.ID.String())
						}
					}
					sort.Ints(b.Objs)
					sort.Strings(b.Unknown)
				}
				p.Branches = append(p.Branches, b)
			}
			sort.Slice(p.Branches, func(i, j int) bool { return p.Branches[i].Key < p.Branches[j].Key })
			ps = append(ps, p)
		}
		return nil
	})
	sort.SliceStable(ps, func(i, j int) bool { return ps[i].Key < ps[j].Key })
	return ps, problems, perr
}

// RenderStoreStateNoChain renders pools, branches, tips and object sets (no parent chains: a
// handle view has none).
func RenderStoreStateNoChain(ps []StorePoolState) []string {
	var out []string
	for _, p := range ps {
		if !p.Readable {
			out = append(out, fmt.Sprintf("pool %s %s unreadable: %s", p.Name, p.ID, p.Err))
			continue
		}
		out = append(out, fmt.Sprintf("pool %s %s", p.Name, p.ID))
		for _, b := range p.Branches {
			if !b.Readable {
				out = append(out, fmt.Sprintf("branch %s/%s tip %s unreadable: %s", p.Name, b.Name, b.Tip, b.Err))
				continue
			}
			out = append(out, fmt.Sprintf("branch %s/%s tip %s objs %v unknown %v", p.Name, b.Name, b.Tip, b.Objs, b.Unknown))
		}
	}
	return out
}

// CompareHandleWithCold compares the state seen through client c's warm handle with the state
// seen by a cold handle; "" when they agree and the warm handle is consistent with itself.
func (r *StoreRun) CompareHandleWithCold(c int) string {
	n := r.E.TraceLen()
	defer func() {
		r.E.mu.Lock()
		r.E.Trace = r.E.Trace[:n]
		r.E.mu.Unlock()
	}()
	warm, problems, err := r.HandleView(c)
	if err != nil {
		return fmt.Sprintf("warm handle of client %d cannot list the lake: %v", c, err)
	}
	if len(problems) > 0 {
		return fmt.Sprintf("warm handle of client %d is inconsistent with itself: %s", c, strings.Join(problems, "; "))
	}
	cold, err := r.Observe()
	if err != nil {
		return fmt.Sprintf("cold handle cannot list the lake: %v", err)
	}
	a, b := RenderStoreStateNoChain(warm), RenderStoreStateNoChain(cold)
	if d := DiffStoreSections([]string{"state"}, [][]string{a}, [][]string{b}); d != "" {
		return fmt.Sprintf("warm handle of client %d and a cold handle see different lakes: %s (first = warm, second = cold)", c, d)
	}
	return ""
}

// RunOne runs client c's next operation to completion without the scheduler.
func (r *StoreRun) RunOne(c int) *OpRecord {
	if r.next[c] >= len(r.Ops[c]) {
		return nil
	}
	n := len(r.History)
	out, ok := r.begin(c, false)
	if !ok {
		return r.History[n]
	}
	r.Grants++
	rec := r.cur[c]
	r.finish(c, out)
	return rec
}


// ContentView is the user-level content of the lake seen by a cold handle: for every pool and
// branch the sorted values of `k` (independent of object ids, so it can be compared across runs).
func (r *StoreRun) ContentView() (out []string, err error) {
	e := r.E
	n := e.TraceLen()
	defer func() {
		e.mu.Lock()
		e.Trace = e.Trace[:n]
		e.mu.Unlock()
	}()
	e.ResetOps(storeObserver)
	e.SetReadOnly(storeObserver, true)
	perr, _ := Protect(func() error {
		root, err := StoreOpenLake(e, storeObserver)
		if err != nil {
			return err
		}
		ctx := context.Background()
		list, err := root.ListPools(ctx)
		if err != nil {
			return err
		}
		sort.Slice(list, func(i, j int) bool { return list[i].Name < list[j].Name })
		for _, pc := range list {
			pool, err := root.OpenPool(ctx, pc.ID)
			if err != nil {
				return fmt.Errorf("pool %s: %w", pc.Name, err)
			}
			bl, err := pool.ListBranches(ctx)
			if err != nil {
				return fmt.Errorf("pool %s: %w", pc.Name, err)
			}
			sort.Slice(bl, func(i, j int) bool { return bl[i].Name < bl[j].Name })
			for _, bc := range bl {
				prog, _, err := compiler.Parse(fmt.Sprintf("from %s@%s | sort k | yield k", pc.Name, bc.Name))
				if err != nil {
					return err
				}
				rctx := runtime.NewContext(ctx, zed.NewContext())
				q, err := compiler.NewLakeCompiler(root).NewLakeQuery(rctx, prog, 1, nil)
				if err != nil {
					rctx.Cancel()
					return fmt.Errorf("%s@%s: %w", pc.Name, bc.Name, err)
				}
				vals, err := PullAll(q)
				q.Pull(true)
				rctx.Cancel()
				if err != nil {
					return fmt.Errorf("%s@%s: %w", pc.Name, bc.Name, err)
				}
				snap, err := pool.Snapshot(ctx, bc.Commit)
				if err != nil {
					return fmt.Errorf("%s@%s: %w", pc.Name, bc.Name, err)
				}
				nv := 0
				for _, o := range snap.SelectAll() {
					if snap.HasVector(o.ID) {
						nv++
					}
				}
				out = append(out, fmt.Sprintf("%s@%s: %s vectors=%d", pc.Name, bc.Name, strings.Join(vals, ","), nv))
			}
		}
		return nil
	})
	return out, perr
}
