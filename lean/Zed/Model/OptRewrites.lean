/-
  The optimizer's rewrites as functions on the model DAG (C07).
  Anchors: compiler/optimizer/optimizer.go (mergeFilters, removePassOps, walk, walkEntries,
  Optimize, optimizeSourcePaths, propagateSortKey(Op), sortKeysOfSource, Parallelize,
  matchSource, matchFilter), op.go (analyzeSortKeys, sortKeysOfSort, sortKeyOfExpr,
  isKeyOfSummarize, orderPreservingCall, analyzeCuts, FieldsOf), parallelize.go
  (parallelizeSeqScan, optimizeParallels, liftIntoParPaths, parallelPaths, concurrentPath),
  demand.go / demand/demand.go (insertDemand).

  Every dispatch on the operator kind goes through the classification tables of
  `Zed.Generated.C07`, which the extractor rewrites from the Go source on each check: the
  model implements one function per *rule tag* and looks the tag up by `Op.kind`.
-/
import Zed.Generated.C07
import Zed.Model.OptDag
namespace Zed.Opt
open Zed.Generated.C07

def lookupTag (k : String) (tbl : List (String × String)) (dflt : String) : String :=
  match tbl.find? (fun p => p.1 == k) with
  | some p => p.2
  | none => dflt

/-! ## walk / walkEntries -/

mutual
/-- children of one op rewritten by `walk` (post-order). -/
def walkOp (over : Bool) (post : Seq → Seq) : Op → Op
  | .over h hb body =>
    if walkDescends.contains "Over" && over && hb then .over h hb (post (walkKids over post body))
    else .over h hb body
  | .fork ps => if walkDescends.contains "Fork" then .fork (walkPaths over post ps) else .fork ps
  | .scatter ps => if walkDescends.contains "Scatter" then .scatter (walkPaths over post ps) else .scatter ps
  | .mirror m mi =>
    if walkDescends.contains "Mirror" then .mirror (post (walkKids over post m)) (post (walkKids over post mi))
    else .mirror m mi
  | .scope h b => if walkDescends.contains "Scope" then .scope h (post (walkKids over post b)) else .scope h b
  | o => o
def walkKids (over : Bool) (post : Seq → Seq) : Seq → Seq
  | .nil => .nil
  | .cons o r => .cons (walkOp over post o) (walkKids over post r)
def walkPaths (over : Bool) (post : Seq → Seq) : Seqs → Seqs
  | .nil => .nil
  | .cons s r => .cons (post (walkKids over post s)) (walkPaths over post r)
end

/-- `walk(seq, over, post)`. -/
def walk (over : Bool) (post : Seq → Seq) (s : Seq) : Seq := post (walkKids over post s)

/-! ## mergeFilters, removePassOps -/

/-- the loop of `mergeFilters` on one sequence: from the back, an adjacent pair of filters
    becomes one filter `first <combiner> second`. -/
def mergeFiltersSeq : Seq → Seq
  | .nil => .nil
  | .cons o r =>
    match o, mergeFiltersSeq r with
    | .filter a, .cons (.filter b) r' => .cons (.filter (.bin mergeFiltersCombiner a b)) r'
    | o, r' => .cons o r'

def mergeFilters (s : Seq) : Seq := walk true mergeFiltersSeq s

def dropPass : Seq → Seq
  | .nil => .nil
  | .cons .pass r => dropPass r
  | .cons o r => .cons o (dropPass r)

def removePassSeq (s : Seq) : Seq :=
  match dropPass s with
  | .nil => if removePassEmptySeq == "pass" then .cons .pass .nil else .nil
  | s' => s'

def removePassOps (s : Seq) : Seq := walk true removePassSeq s

/-! ## sort keys -/

def pathEq (a b : Path) : Bool := a == b

def sortKeysEq (a b : SortKeys) : Bool := a == b

/-- `sortKeyOfExpr`. -/
def sortKeyOfExpr (e : Expr) (d : Desc) : Option SortKey :=
  let key := fieldOf e
  if key.isEmpty then none else some ⟨d, key⟩

/-- `sortKeysOfSort` (single-key sorts only; `-r` flips the order). -/
def sortKeysOfSort (args : List SortArg) (reverse : Bool) : SortKeys :=
  match args with
  | [a] =>
    match sortKeyOfExpr a.key a.desc with
    | none => []
    | some k => [⟨if reverse then !k.desc else k.desc, k.key⟩]
  | _ => []

/-- `orderPreservingCall` over the regenerated function list. -/
def orderPreservingCall (e : Expr) (key : Path) : Bool :=
  match e with
  | .call name args =>
    match lookupTag name orderPreservingCalls "no" with
    | "arg0-is-key" =>
      match args with
      | .cons a _ => pathEq (fieldOf a) key
      | .nil => false
    | "always" => true
    | _ => false
  | _ => false

/-- the loop shared by `isKeyOfSummarize` and the Summarize case of `propagateSortKeyOp`: only
    the *first* group-by key counts (the group-by operator streams on its first key only). -/
def summarizeKeyMatches (keys : List Assign) (key : Path) : Bool :=
  (keys.take 1).any fun k =>
    let groupByKey := fieldOf k.lhs
    pathEq groupByKey key && (pathEq (fieldOf k.rhs) key || orderPreservingCall k.rhs groupByKey)

def isKeyOfSummarize (keys : List Assign) (inp : SortKeys) : Bool :=
  match inp with
  | [] => false
  | k :: _ => summarizeKeyMatches keys k.key

/-- `FieldsOf` over the regenerated expression classification. -/
def fieldsOf : Expr → Option (List Path)
  | .none => Option.none
  | e =>
    match lookupTag e.kind fieldsOfExprs fieldsOfExprsDefault, e with
    | "none", _ => some []
    | "path", .this p => some [p]
    | "operand", .un _ a => fieldsOf a
    | "both", .bin _ a b =>
      match fieldsOf a, fieldsOf b with
      | some x, some y => some (x ++ y)
      | _, _ => Option.none
    | "inner", .rmatch _ a => fieldsOf a
    | _, _ => Option.none

/-- the scoreboard of `analyzeCuts`: an association list keyed by the field path (Go: a map
    keyed by the path joined with NUL; distinct paths have distinct keys as long as no field
    name contains NUL). -/
def sbHas (sb : List Path) (p : Path) : Bool := sb.contains p
def sbDel (sb : List Path) (p : Path) : List Path := sb.filter (fun q => !(q == p))
def sbSet (sb : List Path) (p : Path) : List Path := if sb.contains p then sb else sb ++ [p]

def analyzeCutsLoop : List Assign → List Path → Option (List Path)
  | [], sb => some sb
  | a :: rest, sb =>
    let lhs := fieldOf a.lhs
    let rhs := fieldOf a.rhs
    if lhs.isEmpty then Option.none
    else if rhs.isEmpty then
      match fieldsOf a.rhs with
      | Option.none => Option.none
      | some deps =>
        if deps.any (sbHas sb) then Option.none
        else analyzeCutsLoop rest (sbDel sb lhs)
    else if sbHas sb rhs then analyzeCutsLoop rest (sbSet sb lhs)
    else analyzeCutsLoop rest (sbDel sb lhs)

/-- `analyzeCuts`. -/
def analyzeCuts (args : List Assign) (inp : SortKeys) : SortKeys :=
  match inp with
  | [] => []
  | k :: _ =>
    match analyzeCutsLoop args [k.key] with
    | some [f] => [⟨k.desc, f⟩]
    | _ => []

inductive AErr where
  | lister | pool | joinParents | source
  deriving Repr, DecidableEq

/-- pool id ↦ declared sort keys (the lake, as far as the optimizer asks it). -/
abbrev Pools := List (String × SortKeys)

def poolKeys (pools : Pools) (id : String) : Except AErr SortKeys :=
  match pools.find? (fun p => p.1 == id) with
  | some p => .ok p.2
  | none => .error .pool

/-- `analyzeSortKeys(op, in)`. -/
def analyzeSortKeys (pools : Pools) (op : Op) (inp : SortKeys) : Except AErr SortKeys :=
  match lookupTag op.kind analyzeInputIndependentOps analyzeInputIndependentOpsDefault, op with
  | "pool", .poolScan id _ => poolKeys pools id
  | "sort", .sort args _ rev => .ok (sortKeysOfSort args rev)
  | _, _ =>
    match inp with
    | [] => .ok []
    | key :: _ =>
      match lookupTag op.kind analyzeOps analyzeOpsDefault, op with
      | "error", _ => .error .lister
      | "keep", _ => .ok inp
      | "cuts", .cut args => .ok (analyzeCuts args inp)
      | "drop-key", .drop args =>
        .ok (if args.any (fun f => pathEq (fieldOf f) key.key) then [] else inp)
      | "rename-key", .rename args =>
        .ok (args.foldl (fun out a =>
          if pathEq (fieldOf a.rhs) key.key then [⟨key.desc, fieldOf a.lhs⟩] else out) inp)
      | "summarize-key", .summarize _ keys _ _ _ _ =>
        .ok (if isKeyOfSummarize keys inp then inp else [])
      | "put-key", .put args =>
        .ok (if args.any (fun a => pathEq (fieldOf a.lhs) key.key) then [] else inp)
      | _, _ => .ok []

/-- `sortKeysOfSource`. -/
def sortKeysOfSource (pools : Pools) (op : Op) : Except AErr SortKeys :=
  match lookupTag op.kind sourceKeyOps sourceKeyOpsDefault, op with
  | "declared", .defaultScan _ sk => .ok sk
  | "declared", .fileScan _ _ sk => .ok sk
  | "pool", .poolScan id _ => poolKeys pools id
  | "pool", .lister p _ => poolKeys pools p
  | "pool", .seqScan p _ _ _ => poolKeys pools p
  | _, _ => .error .source

/-- condense the parents' orders into one (all equal, else unknown). -/
def condense : List SortKeys → SortKeys
  | [] => []
  | p :: rest => if rest.all (fun q => sortKeysEq p q) then p else []

def orderAsDirection (d : Desc) : Int := if d then -1 else 1

/-- direction of a sort key as `order.Direction` (+1 asc, −1 desc). -/
def directionOf (d : Desc) : Int := if d then -1 else 1

mutual
/-- `propagateSortKeyOp`: returns the op with `InputSortDir` / `LeftDir` / `RightDir` filled
    in, and the orders at its egress; `none` = the Go function returned an error (the
    mutations made before the error persist). -/
def propOp (pools : Pools) : Op → List SortKeys → Op × Option (List SortKeys)
  | .join style lk ld rk rd args, parents =>
    match parents with
    | [p0, p1] =>
      let ld' := match p0 with
        | k :: _ => if pathEq (fieldOf lk) k.key then directionOf k.desc else ld
        | [] => ld
      let rd' := match p1 with
        | k :: _ => if pathEq (fieldOf rk) k.key then directionOf k.desc else rd
        | [] => rd
      (.join style lk ld' rk rd' args, some [[]])
    | _ => (.join style lk ld rk rd args, Option.none)
  | .summarize lim keys aggs dir pin pout, parents =>
    if lookupTag "Summarize" propagateOps propagateOpsDefault == "summarize" then
      match condense parents with
      | [] => (.summarize lim keys aggs dir pin pout, some [[]])
      | k :: rest =>
        if summarizeKeyMatches keys k.key then
          (.summarize lim keys aggs (orderAsDirection k.desc) pin pout, some [k :: rest])
        else (.summarize lim keys aggs dir pin pout, some [[]])
    else propLeaf pools (.summarize lim keys aggs dir pin pout) parents
  | .fork ps, parents =>
    if lookupTag "Fork" propagateOps propagateOpsDefault == "paths" then
      let r := propPaths pools ps (condense parents)
      (.fork r.1, r.2)
    else propLeaf pools (.fork ps) parents
  | .scatter ps, parents =>
    if lookupTag "Scatter" propagateOps propagateOpsDefault == "paths" then
      let r := propPaths pools ps (condense parents)
      (.scatter r.1, r.2)
    else propLeaf pools (.scatter ps) parents
  | .mirror m mi, parents =>
    if lookupTag "Mirror" propagateOps propagateOpsDefault == "mirror" then
      let parent := condense parents
      let r1 := propSeq pools m [parent]
      match r1.2 with
      | Option.none => (.mirror r1.1 mi, Option.none)
      | some k1 =>
        let r2 := propSeq pools mi [parent]
        match r2.2 with
        | Option.none => (.mirror r1.1 r2.1, Option.none)
        | some k2 => (.mirror r1.1 r2.1, some (k1 ++ k2))
    else propLeaf pools (.mirror m mi) parents
  | .scope h b, parents =>
    if lookupTag "Scope" propagateOps propagateOpsDefault == "scope" then
      let r := propSeq pools b parents
      (.scope h r.1, r.2)
    else propLeaf pools (.scope h b) parents
  | op, parents => propLeaf pools op parents
/-- the non-recursive cases of `propagateSortKeyOp`. -/
def propLeaf (pools : Pools) (op : Op) (parents : List SortKeys) : Op × Option (List SortKeys) :=
  let parent := condense parents
  match lookupTag op.kind propagateOps propagateOpsDefault, op with
  | "merge", .merge e d =>
    let sk : SortKeys := match e with
      | .this p => [⟨d, p⟩]
      | _ => []
    (op, some [if sortKeysEq sk parent then sk else []])
  | "source", _ =>
    match sortKeysOfSource pools op with
    | .ok k => (op, some [k])
    | .error _ => (op, Option.none)
  | "analyze", _ =>
    match analyzeSortKeys pools op parent with
    | .ok k => (op, some [k])
    | .error _ => (op, Option.none)
  | _, _ =>
    -- a structured kind whose table entry moved: fall back to the analysis
    match analyzeSortKeys pools op parent with
    | .ok k => (op, some [k])
    | .error _ => (op, Option.none)
/-- `propagateSortKey`. -/
def propSeq (pools : Pools) : Seq → List SortKeys → Seq × Option (List SortKeys)
  | .nil, parents => (.nil, some parents)
  | .cons o r, parents =>
    let ro := propOp pools o parents
    match ro.2 with
    | Option.none => (.cons ro.1 r, Option.none)
    | some ks =>
      let rr := propSeq pools r ks
      (.cons ro.1 rr.1, rr.2)
def propPaths (pools : Pools) : Seqs → SortKeys → Seqs × Option (List SortKeys)
  | .nil, _ => (.nil, some [])
  | .cons s r, parent =>
    let rs := propSeq pools s [parent]
    match rs.2 with
    | Option.none => (.cons rs.1 r, Option.none)
    | some k1 =>
      let rr := propPaths pools r parent
      match rr.2 with
      | Option.none => (.cons rs.1 rr.1, Option.none)
      | some k2 => (.cons rs.1 rr.1, some (k1 ++ k2))
end

/-- `propagateSortKey(seq, parents)` with the Go quirk that an empty `seq` returns `parents`
    and an error yields `[nil]`. -/
def propagateSortKey (pools : Pools) (s : Seq) (parents : List SortKeys) : Seq × Option (List SortKeys) :=
  propSeq pools s parents

/-! ## concurrentPath -/

structure CPath where
  n : Nat
  keys : SortKeys
  orderRequired : Bool
  needMerge : Bool

/-- `concurrentPath(ops, sortKeys)`; `none` = error. -/
def concurrentPath (pools : Pools) : List Op → Nat → SortKeys → Option CPath
  | [], k, sk => some ⟨k, sk, true, true⟩
  | op :: rest, k, sk =>
    match lookupTag op.kind concurrentOps concurrentOpsDefault, op with
    | "summarize", .summarize _ keys _ _ _ _ =>
      if isKeyOfSummarize keys sk then some ⟨k, sk, true, true⟩ else some ⟨k, [], false, false⟩
    | "sort", .sort args _ rev =>
      let nk := sortKeysOfSort args rev
      if nk.isEmpty then some ⟨0, [], false, false⟩ else some ⟨k, nk, false, true⟩
    | "stop-unordered", _ => some ⟨k, [], false, false⟩
    | "stop-ordered", _ => some ⟨k, sk, true, true⟩
    | _, _ =>
      match analyzeSortKeys pools op sk with
      | .error _ => Option.none
      | .ok next =>
        if !sk.isEmpty && next.isEmpty then some ⟨k, sk, true, true⟩
        else concurrentPath pools rest (k + 1) next

/-! ## liftIntoParPaths / optimizeParallels -/

def parallelPaths : Op → Option Seqs
  | .scatter ps => if parallelOps.contains "Scatter" then some ps else Option.none
  | .fork ps => if parallelOps.contains "Fork" then some ps else Option.none
  | _ => Option.none

def withPaths : Op → Seqs → Op
  | .scatter _, ps => .scatter ps
  | .fork _, ps => .fork ps
  | o, _ => o

/-- Result of examining `par [fanin] op`: the new parallel op, the new fan-in (if any) and
    what stands at the place of `op` (`ops[egress]`), plus, for the "sort below combine" case,
    what stands at `ops[1]`/`ops[2]`. -/
structure Lifted where
  par : Op
  fanin : Option Op
  op : Op

/-- the body of `liftIntoParPaths` for a given parallel op, optional merge/combine and the op
    at `ops[egress]`.  `none` = nothing changes. -/
def liftCase (pools : Pools) (par : Op) (paths : Seqs) (fanin : Option Op) (op : Op) : Option Lifted :=
  let merge : Option (Expr × Desc) := match fanin with
    | some (.merge e d) => some (e, d)
    | _ => Option.none
  match lookupTag op.kind liftOps liftOpsDefault, op with
  | "partials", .summarize lim keys aggs dir pin pout =>
    if pin || pout then Option.none
    else
      some ⟨withPaths par (paths.appendEach (.summarize lim keys aggs dir pin true)), fanin,
        .summarize lim (keys.map fun k => ⟨k.lhs, k.lhs⟩) aggs dir true pout⟩
  | "sort", .sort args nf rev =>
    match args with
    | [a] =>
      -- only a plain ascending sort has the order of the merge that replaces it
      if rev || nf || a.desc then Option.none else
      match merge with
      | some (me, md) =>
        match sortKeyOfExpr me md with
        | Option.none => Option.none
        | some mk =>
          if sortKeysEq (sortKeysOfSort args rev) [mk] then
            some ⟨withPaths par (paths.appendEach (.sort args nf rev)), fanin, .pass⟩
          else Option.none
      | Option.none =>
        let m := Op.merge a.key a.desc
        match fanin with
        | some _ => some ⟨withPaths par (paths.appendEach (.sort args nf rev)), some m, .pass⟩
        | Option.none => some ⟨withPaths par (paths.appendEach (.sort args nf rev)), Option.none, m⟩
    | _ => Option.none
  | "copy-keep", _ => some ⟨withPaths par (paths.appendEach op), fanin, op⟩
  | "lift-if-key-kept", _ =>
    match fanin with
    | some (.merge e d) =>
      match (propOp pools (.merge e d) [[]]).2 with
      | some [mk] =>
        if mk.isEmpty then Option.none
        else
          match (propOp pools op [mk]).2 with
          | some [k] =>
            if sortKeysEq k mk then some ⟨withPaths par (paths.appendEach op), fanin, .pass⟩
            else Option.none
          | _ => Option.none
      | _ => Option.none
    | _ => some ⟨withPaths par (paths.appendEach op), fanin, .pass⟩
  | _, _ => Option.none

/-- `liftIntoParPaths(ops)` on the suffix starting at a parallel op. -/
def liftIntoParPaths (pools : Pools) : Seq → Seq
  | .cons par rest =>
    match parallelPaths par with
    | Option.none => .cons par rest
    | some paths =>
      match rest with
      | .cons f (.cons op tl) =>
        match lookupTag f.kind liftFanInOps liftFanInOpsDefault with
        | "merge" | "combine" =>
          match liftCase pools par paths (some f) op with
          | some l =>
            match l.fanin with
            | some f' => .cons l.par (.cons f' (.cons l.op tl))
            | Option.none => .cons l.par (.cons f (.cons l.op tl))
          | Option.none => .cons par rest
        | _ =>
          match liftCase pools par paths Option.none f with
          | some l => .cons l.par (.cons l.op (.cons op tl))
          | Option.none => .cons par rest
      | .cons f .nil =>
        match lookupTag f.kind liftFanInOps liftFanInOpsDefault with
        | "merge" | "combine" => .cons par rest       -- egress ≥ len(ops)
        | _ =>
          match liftCase pools par paths Option.none f with
          | some l => .cons l.par (.cons l.op .nil)
          | Option.none => .cons par rest
      | .nil => .cons par rest
  | .nil => .nil

/-- the loop `for ops := seq; len(ops) >= 2; ops = ops[1:] { liftIntoParPaths(ops) }`
    (`liftIntoParPaths` keeps the length, so the fuel `seq.length` suffices). -/
def liftLoopFuel (pools : Pools) : Nat → Seq → Seq
  | 0, s => s
  | _ + 1, .nil => .nil
  | n + 1, .cons o r =>
    match liftIntoParPaths pools (.cons o r) with
    | .cons o' r' => .cons o' (liftLoopFuel pools n r')
    | .nil => .nil

def liftLoop (pools : Pools) (s : Seq) : Seq := liftLoopFuel pools s.length s

/-- `optimizeParallels`: `walk(seq, false, …)`. -/
def optimizeParallels (pools : Pools) (s : Seq) : Seq := walk false (liftLoop pools) s

/-! ## walkEntries, optimizeSourcePaths -/

mutual
def entriesOp (post : Seq → Option Seq) : Op → Option Op
  | .fork ps =>
    if walkEntriesDescends.contains "Fork" then (entriesPaths post ps).map .fork else some (.fork ps)
  | .scatter ps =>
    if walkEntriesDescends.contains "Scatter" then (entriesPaths post ps).map .scatter else some (.scatter ps)
  | .mirror m mi =>
    if walkEntriesDescends.contains "Mirror" then
      match (entriesKids post m).bind post, (entriesKids post mi).bind post with
      | some a, some b => some (.mirror a b)
      | _, _ => Option.none
    else some (.mirror m mi)
  | .scope h b =>
    if walkEntriesDescends.contains "Scope" then ((entriesKids post b).bind post).map (.scope h) else some (.scope h b)
  | o => some o
def entriesKids (post : Seq → Option Seq) : Seq → Option Seq
  | .nil => some .nil
  | .cons o r =>
    match entriesOp post o, entriesKids post r with
    | some o', some r' => some (.cons o' r')
    | _, _ => Option.none
def entriesPaths (post : Seq → Option Seq) : Seqs → Option Seqs
  | .nil => some .nil
  | .cons s r =>
    match (entriesKids post s).bind post, entriesPaths post r with
    | some s', some r' => some (.cons s' r')
    | _, _ => Option.none
end

/-- `walkEntries(seq, post)`; `none` = an error was returned. -/
def walkEntries (post : Seq → Option Seq) (s : Seq) : Option Seq := (entriesKids post s).bind post

mutual
/-- number of sequences `walkEntries` visits (= the number of `o.nent++`). -/
def countEntriesOp : Op → Nat
  | .fork ps => if walkEntriesDescends.contains "Fork" then countEntriesPaths ps else 0
  | .scatter ps => if walkEntriesDescends.contains "Scatter" then countEntriesPaths ps else 0
  | .mirror m mi => if walkEntriesDescends.contains "Mirror" then countEntriesSeq m + 1 + countEntriesSeq mi + 1 else 0
  | .scope _ b => if walkEntriesDescends.contains "Scope" then countEntriesSeq b + 1 else 0
  | _ => 0
def countEntriesSeq : Seq → Nat
  | .nil => 0
  | .cons o r => countEntriesOp o + countEntriesSeq r
def countEntriesPaths : Seqs → Nat
  | .nil => 0
  | .cons s r => countEntriesSeq s + 1 + countEntriesPaths r
end

def matchFilter : Seq → Expr × Seq
  | .cons (.filter e) r => (e, r)
  | s => (.none, s)

/-- the `post` of `optimizeSourcePaths`. -/
def sourcePathPost (pools : Pools) : Seq → Option Seq
  | .nil => Option.none                 -- "optimizer encountered empty sequential operator"
  | .cons src .nil => some (.cons src .nil)
  | .cons src chain0 =>
    match (propagateSortKey pools (.cons src chain0) [[]]).1 with
    | .nil => Option.none
    | .cons src chain1 =>
      let fc := matchFilter chain1
      match lookupTag src.kind sourceOps sourceOpsDefault, src with
      | "pool", .poolScan id commit =>
        match sortKeysOfSource pools src with
        | .error _ => Option.none
        | .ok sk =>
          match concurrentPath pools fc.2.toList 0 sk with
          | Option.none => Option.none
          | some cp =>
            let scan := Seq.cons (.seqScan id commit [] fc.1) fc.2
            some (.cons (.lister id commit) (if cp.orderRequired then .cons .slicer scan else scan))
      | "set-filter", .defaultScan _ sk => some (.cons (.defaultScan fc.1 sk) fc.2)
      | "set-filter", .fileScan h _ sk => some (.cons (.fileScan h fc.1 sk) fc.2)
      | _, _ => some (.cons src chain1)

def optimizeSourcePaths (pools : Pools) (s : Seq) : Option Seq := walkEntries (sourcePathPost pools) s

/-! ## Optimize -/

inductive OptResult where
  | ok (s : Seq)
  | error                       -- Optimize returned an error

/-- `Optimizer.Optimize`.  (`insertDemand` only fills `SeqScan.Fields`, which the sequence
    runtime does not read; it is compared separately.) -/
def optimize (pools : Pools) (s : Seq) : OptResult :=
  let s := mergeFilters s
  let s := removePassOps s
  let s := optimizeParallels pools s
  let s := mergeFilters s
  match optimizeSourcePaths pools s with
  | Option.none => .error
  | some s => .ok (removePassOps s)

/-- value of `o.nent` after `Optimize` (before `Parallelize`). -/
def nentOf (pools : Pools) (s : Seq) : Nat :=
  let s := mergeFilters s
  let s := removePassOps s
  let s := optimizeParallels pools s
  let s := mergeFilters s
  countEntriesSeq s + 1

/-! ## Parallelize -/

def replicate (n : Nat) (s : Seq) : Seqs :=
  match n with
  | 0 => .nil
  | n + 1 => .cons s (replicate n s)

/-- `parallelizeSeqScan`; `none` = leave the path alone; the outer option is the error. -/
def parallelizeSeqScan (pools : Pools) (scan : Op) (ops : List Op) (replicas : Nat) : Option (Option Seq) :=
  match scan with
  | .seqScan pool _ _ filter =>
    if ops.length == 1 && (match filter with | .none => true | _ => false) then some Option.none
    else
      match poolKeys pools pool with
      | .error _ => Option.none
      | .ok src =>
        if src.length > 1 then some Option.none
        else
          match concurrentPath pools (ops.drop 1) 0 src with
          | Option.none => Option.none
          | some cp =>
            if cp.keys.length > 1 then some Option.none
            else
              let head := ops.take (cp.n + 1)
              let tail := ops.drop (cp.n + 1)
              let scatter := Op.scatter (replicate replicas (Seq.ofList head))
              if cp.needMerge then
                match cp.keys with
                | k :: _ => some (some (Seq.ofList (scatter :: .merge (.this k.key) k.desc :: tail)))
                | [] => Option.none       -- Go: index out of range in outputKeys.Primary()
              else some (some (Seq.ofList (scatter :: .combine :: tail)))
  | _ => Option.none

def parallelizePost (pools : Pools) (concurrency : Nat) : Seq → Option Seq
  | .nil => some .nil
  | .cons (.lister p c) rest =>
    let (front, tail) : List Op × Seq := match rest with
      | .cons .slicer r => ([.lister p c, .slicer], r)
      | r => ([.lister p c], r)
    match tail with
    | .cons (.seqScan sp sc sf sfl) r =>
      match parallelizeSeqScan pools (.seqScan sp sc sf sfl) (Seq.cons (.seqScan sp sc sf sfl) r).toList concurrency with
      | Option.none => Option.none
      | some Option.none => some (.cons (.lister p c) rest)
      | some (some par) => some ((Seq.ofList front).append par)
    | _ => Option.none               -- Go: panic("parseSource: no SeqScan")
  | .cons (.defaultScan f sk) rest =>
    match rest with
    | .nil => some (.cons (.defaultScan f sk) .nil)
    | _ => Option.none               -- "parallelization of non-pool queries is not yet supported"
  | s => some s

/-- `Optimizer.Parallelize(seq, n)` followed by nothing (Vectorize is C09's). -/
def parallelize (pools : Pools) (nent n : Nat) (s : Seq) : Option Seq :=
  if nent == 0 then some s
  else
    let concurrency := if n / nent < 2 then 2 else n / nent
    match walkEntries (parallelizePost pools concurrency) s with
    | Option.none => Option.none
    | some s => some (removePassOps (optimizeParallels pools s))

end Zed.Opt
