/-
  Model of the merge join (C10).
  Anchor: runtime/sam/op/join/join.go  Op.Pull / getJoinSet / readJoinSet.

  Both inputs arrive sorted by the join key under `cmp` (join.New inserts a sort on a side that
  is not declared sorted; `le` is `o.compare` = NewValueCompareFn(o, nullsMax=true) as a
  Boolean ≤).  Rows whose key is missing never reach this model (Pull and getJoinSet skip
  them; they are outside the property).  `A`/`B` are the left/right rows, already carrying
  their key; the output pairs a left row with a right row (splice/cut are not modelled) or is
  a bare left row (left / anti join).  A right join is the left join with the sides swapped
  (compiler/kernel/op.go), so it is not a separate case.
-/
import Zed.Model.AggOrder
namespace Zed.Join

variable {K A B : Type}

inductive Kind where
  | inner | left | anti
  deriving DecidableEq, Repr, Inhabited

def Kind.ofStr : String → Option Kind
  | "inner" => some .inner | "left" => some .left | "anti" => some .anti | _ => none

inductive Out (A B : Type) where
  | pair (a : A) (b : B)
  | bare (a : A)
  deriving DecidableEq, Repr

def eqv (le : K → K → Bool) (a b : K) : Bool := le a b && le b a
def lt (le : K → K → Bool) (a b : K) : Bool := le a b && !le b a

/-- state of the right-hand peeker plus the cached join set -/
structure JState (K B : Type) where
  right : List (K × B)
  joinKey : Option K := none
  joinSet : List (K × B) := []

/-- the loop of getJoinSet: discard right rows below the left key; on a match read the whole
    run of matching rows (readJoinSet).  Returns (found?, new state). -/
def seek (le : K → K → Bool) (k : K) : List (K × B) → Option (List (K × B)) × List (K × B)
  | [] => (none, [])
  | r :: rest =>
    if eqv le k r.1 then
      (some ((r :: rest).takeWhile fun x => eqv le x.1 k), (r :: rest).dropWhile fun x => eqv le x.1 k)
    else if lt le k r.1 then (none, r :: rest)
    else seek le k rest

def getJoinSet (le : K → K → Bool) (st : JState K B) (k : K) : Option (List (K × B)) × JState K B :=
  match st.joinKey with
  | some jk =>
    if eqv le k jk then (some st.joinSet, st)
    else
      match seek le k st.right with
      | (some js, r) => (some js, { right := r, joinKey := some k, joinSet := js })
      | (none, r) => (none, { st with right := r })
  | none =>
    match seek le k st.right with
    | (some js, r) => (some js, { right := r, joinKey := some k, joinSet := js })
    | (none, r) => (none, { st with right := r })

def emit (kind : Kind) (a : K × A) : Option (List (K × B)) → List (Out (K × A) (K × B))
  | none => if kind = .inner then [] else [.bare a]
  | some js => if kind = .anti then [] else js.map fun b => .pair a b

def mergeJoinAux (le : K → K → Bool) (kind : Kind) :
    JState K B → List (K × A) → List (Out (K × A) (K × B))
  | _, [] => []
  | st, a :: rest =>
    let (js, st') := getJoinSet le st a.1
    emit kind a js ++ mergeJoinAux le kind st' rest

/-- Op.Pull, drained. -/
def mergeJoin (le : K → K → Bool) (kind : Kind) (l : List (K × A)) (r : List (K × B)) :
    List (Out (K × A) (K × B)) :=
  mergeJoinAux le kind { right := r } l

/-- nested-loop join with the same match relation -/
def nestedLoop (le : K → K → Bool) (kind : Kind) (l : List (K × A)) (r : List (K × B)) :
    List (Out (K × A) (K × B)) :=
  l.flatMap fun a =>
    let ms := r.filter fun b => eqv le a.1 b.1
    if ms.isEmpty then (if kind = .inner then [] else [.bare a])
    else (if kind = .anti then [] else ms.map fun b => .pair a b)

end Zed.Join
