/-
  Glue for the C14 refinement theorem: which branch pointer an operation moves, contents of
  a commit (`State.contents`: the values of the snapshot's objects, an error if a file is
  missing) and their stability, and `refinement` / `contents_correct`.
-/
import Zed.Proofs.LakeDelWhere
import Zed.Proofs.LakeTips
namespace Zed.Lake
variable {K V : Type}

/-! ### contents -/

theorem payloads_of_present (files : List (Nat × List V)) (objs : List (Obj K))
    (h : ∀ o ∈ objs, (fileOf files o.id).isSome = true) :
    payloads files objs = .ok (objs.map (pay files)) := by
  induction objs with
  | nil => rfl
  | cons o os ih =>
    unfold payloads
    have ho := h o (by simp)
    cases hf : fileOf files o.id with
    | none => simp [hf] at ho
    | some p =>
      simp only [ih (fun o' ho' => h o' (by simp [ho'])), List.map_cons]
      simp [pay, hf]

theorem payloads_present (files : List (Nat × List V)) (objs : List (Obj K)) (ls : List (List V))
    (h : payloads files objs = .ok ls) : ∀ o ∈ objs, (fileOf files o.id).isSome = true := by
  induction objs generalizing ls with
  | nil => simp
  | cons o os ih =>
    unfold payloads at h
    cases hf : fileOf files o.id with
    | none => simp [hf] at h
    | some p =>
      simp only [hf] at h
      cases hr : payloads files os with
      | error e => simp [hr] at h
      | ok r =>
        intro o' ho'
        simp only [List.mem_cons] at ho'
        rcases ho' with h1 | h1
        · subst h1; simp [hf]
        · exact ih r hr o' h1

theorem contents_of_present (s : State K V) (c : Nat) (snap : Snap K) (hs : snapAt s.commits c = .ok snap)
    (h : ∀ o ∈ snap.objs, (fileOf s.files o.id).isSome = true) :
    s.contents c = .ok (snap.objs.flatMap (pay s.files)) := by
  unfold State.contents
  simp only [hs, payloads_of_present s.files snap.objs h]
  simp [List.flatMap]

theorem contents_ok (s : State K V) (c : Nat) (cs : List V) (h : s.contents c = .ok cs) :
    ∃ snap, snapAt s.commits c = .ok snap ∧ cs = snap.objs.flatMap (pay s.files) ∧
      ∀ o ∈ snap.objs, (fileOf s.files o.id).isSome = true := by
  unfold State.contents at h
  cases hs : snapAt s.commits c with
  | error e => simp [hs] at h
  | ok snap =>
    simp only [hs] at h
    cases hp : payloads s.files snap.objs with
    | error e => simp [hp] at h
    | ok ls =>
      simp only [hp, Except.ok.injEq] at h
      refine ⟨snap, rfl, ?_, payloads_present _ _ _ hp⟩
      rw [← h, payloads_ok _ _ _ hp]
      simp [List.flatMap]

theorem snapAt_le (cs : List (Commit K)) (t : Nat) (snap : Snap K) (h : snapAt cs t = .ok snap) :
    t ≤ cs.length := by
  unfold snapAt parentSnap at h
  by_cases h0 : t = 0
  · omega
  · simp only [h0, if_false] at h
    cases hg : (snapsOf cs)[t - 1]? with
    | none => simp [hg] at h
    | some r =>
      have := (List.getElem?_eq_some_iff.mp hg).1
      rw [snapsOf_length] at this
      omega

/-- contents of an existing commit are unchanged by any extension of the stores -/
theorem contents_extends (s s' : State K V) (he : Extends s s') (c : Nat) (cs : List V)
    (h : s.contents c = .ok cs) : s'.contents c = .ok cs := by
  obtain ⟨snap, hs, hcs, hpres⟩ := contents_ok s c cs h
  have hle := snapAt_le _ _ _ hs
  obtain ⟨hc, ext, hf⟩ := he
  have hs' : snapAt s'.commits c = .ok snap := by
    rcases hc with h1 | ⟨x, h1⟩
    · rw [h1]; exact hs
    · rw [h1, snapAt_append _ _ _ hle]; exact hs
  have hfile : ∀ o ∈ snap.objs, fileOf s'.files o.id = fileOf s.files o.id := by
    intro o ho
    have := hpres o ho
    cases hfo : fileOf s.files o.id with
    | none => simp [hfo] at this
    | some p => rw [hf]; exact fileOf_append _ _ _ _ hfo
  rw [contents_of_present s' c snap hs' (fun o ho => by rw [hfile o ho]; exact hpres o ho), hcs]
  congr 1
  apply flatMap_congr''
  intro o ho
  unfold pay
  rw [hfile o ho]

/-! ### which branch pointer an operation moves -/

/-- `s'` is `s` (up to new data objects) with one commit made on branch `b` -/
def CommitsOn (s s' : State K V) (b : Nat) : Prop :=
  ∃ (s1 : State K V) (t : Nat) (acts : List (Action K)), s1.branches = s.branches ∧ s1.commits = s.commits ∧
    s.tip b = some t ∧ s' = s1.commit b t acts

theorem commitsOn_self (s : State K V) (b t : Nat) (acts : List (Action K)) (ht : s.tip b = some t) :
    CommitsOn s (s.commit b t acts) b := ⟨s, t, acts, rfl, rfl, ht, rfl⟩

theorem commitsOn_w (cfg : Cfg K V) (s s2 : State K V) (os : List (Obj K)) (parts : List (List V)) (b t : Nat)
    (acts : List (Action K)) (h : writeObjs cfg s parts = (s2, os)) (ht : s.tip b = some t) :
    CommitsOn s (s2.commit b t acts) b := by
  have : s2 = (writeObjs cfg s parts).1 := by rw [h]
  subst this
  exact ⟨_, t, acts, writeObjs_branches cfg s parts, writeObjs_commits cfg s parts, ht, rfl⟩

theorem CommitsOn.tip (s s' : State K V) (b : Nat) (h : CommitsOn s s' b) :
    s'.tip b = some (s.commits.length + 1) ∧ ∀ b', b' ≠ b → s'.tip b' = s.tip b' := by
  obtain ⟨s1, t, acts, hb, hc, ht, rfl⟩ := h
  have hs1 : ∀ x, s1.tip x = s.tip x := by intro x; rw [tip_eq, tip_eq, hb]
  refine ⟨?_, ?_⟩
  · rw [commit_tip s1 b t acts (by rw [hs1, ht]; rfl), hc]
  · intro b' hne
    rw [commit_tip_other s1 b b' t acts hne, hs1]

variable [DecidableEq V]

theorem load_on (cfg : Cfg K V) (s s' : State K V) (b : Nat) (vals : List V) (parts : List (List V))
    (h : load cfg s b vals parts = .ok s') : CommitsOn s s' b := by
  unfold load at h
  opsplit h
  all_goals first | exact commitsOn_self _ _ _ _ ‹_› | exact commitsOn_w _ _ _ _ _ _ _ _ ‹_› ‹_›

omit [DecidableEq V] in
theorem delete_on (s s' : State K V) (b : Nat) (ids : List Nat)
    (h : delete s b ids = .ok s') : CommitsOn s s' b := by
  unfold delete at h
  opsplit h
  all_goals first | exact commitsOn_self _ _ _ _ ‹_› | exact commitsOn_w _ _ _ _ _ _ _ _ ‹_› ‹_›

theorem deleteWhere_on (cfg : Cfg K V) (s s' : State K V) (b : Nat) (keep : V → Bool) (parts : List (List V))
    (h : deleteWhere cfg s b keep parts = .ok s') : CommitsOn s s' b := by
  unfold deleteWhere at h
  opsplit h
  all_goals first | exact commitsOn_self _ _ _ _ ‹_› | exact commitsOn_w _ _ _ _ _ _ _ _ ‹_› ‹_›

theorem compact_on (cfg : Cfg K V) (s s' : State K V) (b : Nat) (ids : List Nat) (vec : Bool) (parts : List (List V))
    (h : compact cfg s b ids vec parts = .ok s') : CommitsOn s s' b := by
  unfold compact at h
  opsplit h
  all_goals first | exact commitsOn_self _ _ _ _ ‹_› | exact commitsOn_w _ _ _ _ _ _ _ _ ‹_› ‹_›

omit [DecidableEq V] in
theorem addVectors_on (s s' : State K V) (b : Nat) (ids : List Nat)
    (h : addVectors s b ids = .ok s') : CommitsOn s s' b := by
  unfold addVectors addVectorsOf at h
  opsplit h
  all_goals exact commitsOn_self _ _ _ _ ‹_›

omit [DecidableEq V] in
theorem deleteVectors_on (s s' : State K V) (b : Nat) (ids : List Nat)
    (h : deleteVectors s b ids = .ok s') : CommitsOn s s' b := by
  unfold deleteVectors deleteVectorsOf at h
  opsplit h
  all_goals exact commitsOn_self _ _ _ _ ‹_›


/-! ### vector operations do not touch the object set -/

omit [DecidableEq V] in
theorem play_addVec_objs (snap snap' : Snap K) (ids : List Nat) (h : play snap (ids.map .addVec) = .ok snap') :
    snap'.objs = snap.objs := by
  induction ids generalizing snap with
  | nil => simp only [List.map_nil, play, Except.ok.injEq] at h; subst h; rfl
  | cons i is ih =>
    simp only [List.map_cons, play] at h
    cases hp : playAction snap (.addVec i) with
    | error e => simp [hp] at h
    | ok s1 =>
      simp only [hp] at h
      have : s1.objs = snap.objs := by
        simp only [playAction, Snap.addVec] at hp
        split at hp <;> first | (cases hp; rfl) | cases hp
      rw [ih s1 h, this]

omit [DecidableEq V] in
theorem play_delVec_objs (snap snap' : Snap K) (ids : List Nat) (h : play snap (ids.map .delVec) = .ok snap') :
    snap'.objs = snap.objs := by
  induction ids generalizing snap with
  | nil => simp only [List.map_nil, play, Except.ok.injEq] at h; subst h; rfl
  | cons i is ih =>
    simp only [List.map_cons, play] at h
    cases hp : playAction snap (.delVec i) with
    | error e => simp [hp] at h
    | ok s1 =>
      simp only [hp] at h
      have : s1.objs = snap.objs := by
        simp only [playAction, Snap.delVec] at hp
        split at hp <;> first | (cases hp; rfl) | cases hp
      rw [ih s1 h, this]

omit [DecidableEq V] in
theorem play_addVecs_ok (snap : Snap K) (ids : List Nat) (hn : ids.Nodup) (hout : ∀ i ∈ ids, snap.hasVec i = false) :
    ∃ snap', play snap (ids.map .addVec) = .ok snap' := ⟨_, play_addVecs snap ids hn hout⟩

omit [DecidableEq V] in
theorem play_delVecs_ok (snap : Snap K) (ids : List Nat) (hn : ids.Nodup) (hin : ∀ i ∈ ids, snap.hasVec i = true) :
    ∃ snap', play snap (ids.map .delVec) = .ok snap' := by
  induction ids generalizing snap with
  | nil => exact ⟨snap, rfl⟩
  | cons i is ih =>
    have hi := hin i (by simp)
    have hn' := List.nodup_cons.mp hn
    simp only [List.map_cons, play, playAction, Snap.delVec, hi, if_true]
    apply ih _ hn'.2
    intro j hj
    have := hin j (by simp [hj])
    have hne : j ≠ i := fun h => hn'.1 (h ▸ hj)
    simp only [Snap.hasVec, List.contains_eq_mem, decide_eq_true_eq] at this ⊢
    exact List.mem_filter.mpr ⟨this, by simpa using hne⟩

/-! ### load -/

omit [DecidableEq V] in
theorem flatMap_congr3 {α β : Type} (l : List α) (f g : α → List β) (h : ∀ a ∈ l, f a = g a) :
    l.flatMap f = l.flatMap g := by
  induction l with
  | nil => rfl
  | cons a as ih =>
    simp only [List.flatMap_cons]
    rw [h a (by simp), ih (fun x hx => h x (by simp [hx]))]

omit [DecidableEq V] in
theorem hasObj_false_of_lt (snap : Snap K) (n id : Nat) (h : ∀ o ∈ snap.objs, o.id < n) (hid : n ≤ id) :
    snap.hasObj id = false := by
  cases hc : snap.hasObj id with
  | false => rfl
  | true =>
    obtain ⟨o, ho, hoid⟩ := List.any_eq_true.mp hc
    have := h o ho
    have : o.id = id := by simpa using hoid
    omega

/-- **refinement, load** (`abs (step s (load vals)) = abs s ⊎ vals`).  A successful load makes
    the branch tip readable and its contents — the values held by the objects of its snapshot —
    the previous contents plus exactly the loaded values, for every threshold (any partition of
    the input into buffers), every comparator and every earlier history.  Freshness of object
    ids (`KSUID` uniqueness) appears as the two hypotheses on `nextObj`. -/
theorem load_refines (cfg : Cfg K V) (s s' : State K V) (b : Nat) (vals : List V) (parts : List (List V))
    (h : load cfg s b vals parts = .ok s')
    (hfiles : ∀ f ∈ s.files, f.1 < s.nextObj) :
    ∃ t, s.tip b = some t ∧ ∀ snap, snapAt s.commits t = .ok snap → (∀ o ∈ snap.objs, o.id < s.nextObj) →
      ∃ snap', snapAt s'.commits (s.commits.length + 1) = .ok snap' ∧ snap'.vecs = snap.vecs ∧
        (snap'.objs.flatMap (pay s'.files)).Perm (snap.objs.flatMap (pay s.files) ++ vals) ∧
        ∀ o ∈ snap'.objs, o ∈ snap.objs ∨ (fileOf s'.files o.id).isSome = true := by
  unfold load at h
  split at h
  · cases h
  · rename_i t ht
    refine ⟨t, ht, ?_⟩
    intro snap hs hfresh
    split at h
    · cases h
    · split at h
      · cases h
      · rename_i hperm
        simp only [] at h
        have w := writeObjs_spec cfg s parts hfiles
        cases hw : writeObjs cfg s parts with
        | mk s1 objs =>
          rw [hw] at h w
          simp only [] at h w
          cases h
          have hc1 : s1.commits = s.commits := by
            have := writeObjs_commits cfg s parts; rw [hw] at this; exact this
          have hs1 : snapAt s1.commits t = .ok snap := by rw [hc1]; exact hs
          have hplay := play_adds snap objs w.nodup (by
            intro o ho
            exact hasObj_false_of_lt snap s.nextObj o.id hfresh (w.ids o ho).1)
          have hlen : s.commits.length = s1.commits.length := by rw [hc1]
          refine ⟨{ snap with objs := snap.objs ++ objs }, by rw [hlen, commit_snap_ s1 b t _ snap hs1, hplay], rfl, ?_, ?_⟩
          rotate_left
          · intro o ho
            simp only [List.mem_append] at ho
            rcases ho with h1 | h1
            · exact Or.inl h1
            · exact Or.inr (by rw [commit_files]; exact w.present o h1)
          simp only [commit_files, List.flatMap_append]
          obtain ⟨e, he, hee⟩ := w.ext
          have hold : snap.objs.flatMap (pay s1.files) = snap.objs.flatMap (pay s.files) := by
            apply flatMap_congr3
            intro o ho
            unfold pay
            rw [he, fileOf_append_none]
            intro f hf
            have := (hee f hf).1
            have := hfresh o ho
            omega
          rw [hold, w.payload]
          apply List.Perm.append_left
          have hp : parts.Perm ((chunk cfg vals).map (sortVals cfg)) := by
            have : parts.isPerm ((chunk cfg vals).map (sortVals cfg)) = true := by simpa using hperm
            exact List.isPerm_iff.mp this
          exact (hp.flatten).trans ((flatten_map_sort_perm cfg _).trans (by rw [chunk_flatten]))


/-! ### delete by id and the vector operations, snapshot level -/

theorem delete_exact_ (s s' : State K V) (b : Nat) (ids : List Nat) (h : delete s b ids = .ok s') :
    ∃ t snap snap', s.tip b = some t ∧ snapAt s.commits t = .ok snap ∧
      snapAt s'.commits (s.commits.length + 1) = .ok snap' ∧ snap'.vecs = snap.vecs ∧
      ∀ id, snap'.hasObj id = (snap.hasObj id && !ids.contains id) := by
  unfold delete at h
  simp only [] at h
  split at h
  · cases h
  · rename_i t ht
    split at h
    · cases h
    · rename_i snap hs
      split at h
      · rename_i hall
        cases h
        obtain ⟨snap', h1, h2, h3⟩ := play_dels snap (uniqueIds ids) (nodup_uniqueIds ids) (by
          intro id hid
          exact (List.all_eq_true.mp hall) id hid)
        refine ⟨t, snap, snap', ht, hs, by rw [commit_snap_ s b t _ snap hs, h1], h2, ?_⟩
        intro id
        rw [h3 id, contains_uniqueIds]
      · cases h

theorem delete_refines_ (s s' : State K V) (b : Nat) (ids : List Nat) (t : Nat) (snap snap' : Snap K)
    (h : delete s b ids = .ok s') (ht : s.tip b = some t) (hs : snapAt s.commits t = .ok snap)
    (hs' : snapAt s'.commits (s.commits.length + 1) = .ok snap') :
    snap'.objs = snap.objs.filter (fun o => !ids.contains o.id) ∧ s'.files = s.files ∧
      (snap.objs.flatMap (pay s.files)).Perm
        (snap'.objs.flatMap (pay s'.files) ++ (snap.objs.filter (fun o => ids.contains o.id)).flatMap (pay s.files)) := by
  have hf : s'.files = s.files := by
    unfold delete at h
    simp only [] at h
    rw [ht] at h
    simp only [hs] at h
    split at h
    · cases h; rfl
    · cases h
  have hplay : play snap ((uniqueIds ids).map .del) = .ok snap' := by
    unfold delete at h
    simp only [] at h
    rw [ht] at h
    simp only [hs] at h
    split at h
    · cases h
      rw [commit_snap_ s b t _ snap hs] at hs'
      exact hs'
    · cases h
  obtain ⟨hobjs, _⟩ := play_dels_objs snap snap' (uniqueIds ids) hplay
  have hobjs : snap'.objs = snap.objs.filter (fun o => !ids.contains o.id) := by
    rw [hobjs]; congr 1; funext o; rw [contains_uniqueIds]
  refine ⟨hobjs, hf, ?_⟩
  rw [hf, hobjs, ← List.flatMap_append]
  exact ((List.filter_append_perm (fun o => !ids.contains o.id) snap.objs).symm.trans
    (by
      have : (snap.objs.filter fun o => !!ids.contains o.id) = snap.objs.filter (fun o => ids.contains o.id) := by
        congr 1; funext o; cases ids.contains o.id <;> rfl
      rw [this])).flatMap_right _

theorem addVectorsOf_snap (s s' : State K V) (b : Nat) (ids : List Nat) (t : Nat) (snap : Snap K)
    (hn : ids.Nodup) (h : addVectorsOf s b ids = .ok s') (ht : s.tip b = some t)
    (hs : snapAt s.commits t = .ok snap) :
    ∃ snap', snapAt s'.commits (s.commits.length + 1) = .ok snap' ∧ snap'.objs = snap.objs ∧
      s'.files = s.files := by
  unfold addVectorsOf at h
  rw [ht] at h
  simp only [] at h
  split at h
  · cases h
  · simp only [hs] at h
    split at h
    · cases h
    · rename_i hchk
      cases h
      have hout : ∀ i ∈ ids, snap.hasVec i = false := by
        intro i hi
        have := checkIds_none _ ids hchk i hi
        cases hv : snap.hasVec i with
        | false => rfl
        | true =>
          cases ho : snap.hasObj i <;> simp [ho, hv] at this
      have hp := play_addVecs snap ids hn hout
      exact ⟨{ snap with vecs := snap.vecs ++ ids }, by rw [commit_snap_ s b t _ snap hs, hp], rfl, rfl⟩

theorem addVectors_snap (s s' : State K V) (b : Nat) (ids : List Nat) (t : Nat) (snap : Snap K)
    (h : addVectors s b ids = .ok s') (ht : s.tip b = some t) (hs : snapAt s.commits t = .ok snap) :
    ∃ snap', snapAt s'.commits (s.commits.length + 1) = .ok snap' ∧ snap'.objs = snap.objs ∧
      s'.files = s.files :=
  addVectorsOf_snap s s' b (uniqueIds ids) t snap (nodup_uniqueIds ids) h ht hs

theorem deleteVectorsOf_snap (s s' : State K V) (b : Nat) (ids : List Nat) (t : Nat) (snap : Snap K)
    (hn : ids.Nodup) (h : deleteVectorsOf s b ids = .ok s') (ht : s.tip b = some t)
    (hs : snapAt s.commits t = .ok snap) :
    ∃ snap', snapAt s'.commits (s.commits.length + 1) = .ok snap' ∧ snap'.objs = snap.objs ∧
      s'.files = s.files := by
  unfold deleteVectorsOf at h
  rw [ht] at h
  simp only [hs] at h
  split at h
  · cases h
  · rename_i hchk
    cases h
    have hin : ∀ i ∈ ids, snap.hasVec i = true := by
      intro i hi
      have := checkIds_none _ ids hchk i hi
      cases hv : snap.hasVec i with
      | true => rfl
      | false =>
        cases ho : snap.hasObj i <;> simp [ho, hv] at this
    obtain ⟨snap', hp⟩ := play_delVecs_ok snap ids hn hin
    exact ⟨snap', by rw [commit_snap_ s b t _ snap hs, hp], play_delVec_objs snap snap' ids hp, rfl⟩

theorem deleteVectors_snap (s s' : State K V) (b : Nat) (ids : List Nat) (t : Nat) (snap : Snap K)
    (h : deleteVectors s b ids = .ok s') (ht : s.tip b = some t) (hs : snapAt s.commits t = .ok snap) :
    ∃ snap', snapAt s'.commits (s.commits.length + 1) = .ok snap' ∧ snap'.objs = snap.objs ∧
      s'.files = s.files :=
  deleteVectorsOf_snap s s' b (uniqueIds ids) t snap (nodup_uniqueIds ids) h ht hs

/-! ### the reference (what the "simple model" of C14 predicts) and the refinement theorem -/

/-- operations of C14 (everything but merge / revert, which are C15's) -/
def Op.isC14 : Op V → Bool
  | .merge .. | .revert .. => false
  | _ => true

/-- side conditions under which the reference speaks about branch `b` with tip `t`:
    a vacuum is of `b`'s own tip (vacuuming another commit may remove objects `b` still uses:
    "until its objects are explicitly vacuumed") -/
def Op.okFor (t : Nat) : Op V → Prop
  | .vacuum c => c = t
  | _ => True

/-- **reference step**: how the contents `cs` of branch `b` (tip `t` in `s`) change under a
    successful operation: a load adds exactly the loaded values, a delete removes exactly the
    values of the listed objects, a delete-where keeps exactly the values `keep` holds of,
    everything else — compaction, vector operations, vacuum, branch creation, any operation on
    another branch — changes nothing. -/
def SpecStep (s : State K V) (op : Op V) (b t : Nat) (cs cs' : List V) : Prop :=
  match op with
  | .load b' vals _ => if b' = b then cs'.Perm (cs ++ vals) else cs' = cs
  | .delete b' ids => if b' = b then
      ∃ snap, snapAt s.commits t = .ok snap ∧
        cs.Perm (cs' ++ (snap.objs.filter (fun o => ids.contains o.id)).flatMap (pay s.files))
    else cs' = cs
  | .deleteWhere b' keep _ => if b' = b then cs'.Perm (cs.filter keep) else cs' = cs
  | .compact b' _ _ _ => if b' = b then cs'.Perm cs else cs' = cs
  | .addVectors .. => cs' = cs
  | .deleteVectors .. => cs' = cs
  | .vacuum _ => cs' = cs
  | .createBranch .. => cs' = cs
  | .merge .. => True
  | .revert .. => True

omit [DecidableEq V] in
/-- contents of a new commit whose objects are old objects of a readable snapshot or new
    objects with files -/
theorem contents_new (s s' : State K V) (he : Extends s s') (snap snap' : Snap K) (c' : Nat)
    (hpres : ∀ o ∈ snap.objs, (fileOf s.files o.id).isSome = true)
    (hs' : snapAt s'.commits c' = .ok snap')
    (hsub : ∀ o ∈ snap'.objs, o ∈ snap.objs ∨ (fileOf s'.files o.id).isSome = true) :
    s'.contents c' = .ok (snap'.objs.flatMap (pay s'.files)) := by
  apply contents_of_present s' c' snap' hs'
  intro o ho
  rcases hsub o ho with h1 | h1
  · have := hpres o h1
    obtain ⟨_, ext, hf⟩ := he
    cases hfo : fileOf s.files o.id with
    | none => simp [hfo] at this
    | some p => rw [hf, fileOf_append _ _ _ _ hfo]; rfl
  · exact h1

/-- for an operation that commits on `b'`, what another branch `b` sees does not change -/
theorem other_branch (s s' : State K V) (b b' t : Nat) (cs : List V) (hon : CommitsOn s s' b')
    (he : Extends s s') (hne : b' ≠ b) (ht : s.tip b = some t) (hc : s.contents t = .ok cs) :
    s'.tip b = some t ∧ s'.contents t = .ok cs :=
  ⟨by rw [(hon.tip).2 b (fun h => hne h.symm), ht], contents_extends s s' he t cs hc⟩

/-- **refinement** (`abs (step s op) = specStep (abs s) op`), every operation of C14.
    If branch `b` is readable with contents `cs`, then after any successful C14 operation it is
    readable again and its contents are what the reference predicts. -/
theorem refinement (cfg : Cfg K V) (s s' : State K V) (op : Op V) (b t : Nat) (cs : List V)
    (g : Good s) (ha : apply cfg s op = .ok s') (h14 : op.isC14 = true) (hok : op.okFor t)
    (ht : s.tip b = some t) (hc : s.contents t = .ok cs) :
    ∃ t' cs', s'.tip b = some t' ∧ s'.contents t' = .ok cs' ∧ SpecStep s op b t cs cs' := by
  obtain ⟨snap, hs, hcs, hpres⟩ := contents_ok s t cs hc
  cases op with
  | load b' vals parts =>
    have he := load_extends cfg s s' b' vals parts ha
    have hon := load_on cfg s s' b' vals parts ha
    by_cases hb : b' = b
    · subst hb
      obtain ⟨t0, ht0, hr⟩ := load_refines cfg s s' b' vals parts ha g.files
      rw [ht] at ht0; cases ht0
      obtain ⟨snap', h1, _, h2, h3⟩ := hr snap hs (Good.snap_lt s g t snap hs).1
      refine ⟨_, _, (hon.tip).1, contents_new s s' he snap snap' _ hpres h1 h3, ?_⟩
      simp only [SpecStep, if_true]; rw [hcs]; exact h2
    · obtain ⟨h1, h2⟩ := other_branch s s' b b' t cs hon he hb ht hc
      exact ⟨t, cs, h1, h2, by simp [SpecStep, hb]⟩
  | delete b' ids =>
    have he := delete_extends s s' b' ids ha
    have hon := delete_on s s' b' ids ha
    by_cases hb : b' = b
    · subst hb
      obtain ⟨t0, snap0, snap', ht0, hs0, hs', _, hm⟩ := delete_exact_ s s' b' ids ha
      rw [ht] at ht0; cases ht0
      rw [hs] at hs0; cases hs0
      obtain ⟨hobjs, hfiles, hperm⟩ := delete_refines_ s s' b' ids t snap snap' ha ht hs hs'
      refine ⟨_, _, (hon.tip).1, contents_new s s' he snap snap' _ hpres hs'
        (fun o ho => Or.inl (by rw [hobjs] at ho; exact (List.mem_filter.mp ho).1)), ?_⟩
      simp only [SpecStep, if_true]
      exact ⟨snap, hs, by rw [hcs]; exact hperm⟩
    · obtain ⟨h1, h2⟩ := other_branch s s' b b' t cs hon he hb ht hc
      exact ⟨t, cs, h1, h2, by simp [SpecStep, hb]⟩
  | deleteWhere b' keep parts =>
    have he := deleteWhere_extends cfg s s' b' keep parts ha
    have hon := deleteWhere_on cfg s s' b' keep parts ha
    by_cases hb : b' = b
    · subst hb
      obtain ⟨t0, ht0, hr⟩ := deleteWhere_refines cfg s s' b' keep parts g ha
      rw [ht] at ht0; cases ht0
      obtain ⟨snap', h1, _, h2, h3⟩ := hr snap hs
      refine ⟨_, _, (hon.tip).1, contents_new s s' he snap snap' _ hpres h1 h3, ?_⟩
      simp only [SpecStep, if_true]; rw [hcs]; exact h2
    · obtain ⟨h1, h2⟩ := other_branch s s' b b' t cs hon he hb ht hc
      exact ⟨t, cs, h1, h2, by simp [SpecStep, hb]⟩
  | compact b' ids vec parts =>
    have he := compact_extends cfg s s' b' ids vec parts ha
    have hon := compact_on cfg s s' b' ids vec parts ha
    by_cases hb : b' = b
    · subst hb
      obtain ⟨t0, ht0, hr⟩ := compact_refines cfg s s' b' ids vec parts ha g.files
      rw [ht] at ht0; cases ht0
      have hlt := Good.snap_lt s g t snap hs
      obtain ⟨snap', h1, h2, h3⟩ := hr snap hs hlt.1 hlt.2 (snapAt_nodup s.commits t snap hs)
      refine ⟨_, _, (hon.tip).1, contents_new s s' he snap snap' _ hpres h1 h3, ?_⟩
      simp only [SpecStep, if_true]; rw [hcs]; exact h2
    · obtain ⟨h1, h2⟩ := other_branch s s' b b' t cs hon he hb ht hc
      exact ⟨t, cs, h1, h2, by simp [SpecStep, hb]⟩
  | addVectors b' ids =>
    have he := addVectors_extends s s' b' ids ha
    have hon := addVectors_on s s' b' ids ha
    by_cases hb : b' = b
    · subst hb
      obtain ⟨snap', hs', hobjs, hf⟩ := addVectors_snap s s' b' ids t snap ha ht hs
      refine ⟨_, _, (hon.tip).1, ?_, rfl⟩
      have := contents_new s s' he snap snap' _ hpres hs' (fun o ho => Or.inl (by rw [hobjs] at ho; exact ho))
      rw [this, hobjs, hf, hcs]
    · obtain ⟨h1, h2⟩ := other_branch s s' b b' t cs hon he hb ht hc
      exact ⟨t, cs, h1, h2, rfl⟩
  | deleteVectors b' ids =>
    have he := deleteVectors_extends s s' b' ids ha
    have hon := deleteVectors_on s s' b' ids ha
    by_cases hb : b' = b
    · subst hb
      obtain ⟨snap', hs', hobjs, hf⟩ := deleteVectors_snap s s' b' ids t snap ha ht hs
      refine ⟨_, _, (hon.tip).1, ?_, rfl⟩
      have := contents_new s s' he snap snap' _ hpres hs' (fun o ho => Or.inl (by rw [hobjs] at ho; exact ho))
      rw [this, hobjs, hf, hcs]
    · obtain ⟨h1, h2⟩ := other_branch s s' b b' t cs hon he hb ht hc
      exact ⟨t, cs, h1, h2, rfl⟩
  | vacuum c =>
    have hct : c = t := hok
    subst hct
    have ha' : vacuum s c = .ok s' := ha
    obtain ⟨hcm, ids, hv, hf⟩ := vacuum_spec s s' c ha'
    have hbr : s'.branches = s.branches := by
      unfold vacuum at ha'
      split at ha' <;> first | (cases ha'; rfl) | cases ha' 
    refine ⟨c, cs, by rw [tip_eq, hbr, ← tip_eq]; exact ht, ?_, rfl⟩
    have hs' : snapAt s'.commits c = .ok snap := by rw [hcm]; exact hs
    have hfile : ∀ o ∈ snap.objs, fileOf s'.files o.id = fileOf s.files o.id := by
      intro o ho
      rw [hf, fileOf_filter_id s.files (fun i => !ids.contains i)]
      have : ids.contains o.id = false := by
        unfold vacuumable at hv
        rw [hs] at hv
        simp only [Except.ok.injEq] at hv
        subst hv
        cases hcn : (List.filter (fun i => !snap.hasObj i) (addedIds (pathActions s.commits (List.drop 1 (pathAt s.commits c))))).contains o.id with
        | false => rfl
        | true =>
          have hm := List.contains_iff_mem.mp hcn
          have := (List.mem_filter.mp hm).2
          rw [hasObj_of_mem snap o ho] at this; cases this
      simp only [this, Bool.not_false, if_true]
    rw [contents_of_present s' c snap hs' (fun o ho => by rw [hfile o ho]; exact hpres o ho), hcs]
    congr 1
    apply flatMap_congr''
    intro o ho
    unfold pay; rw [hfile o ho]
  | createBranch n p =>
    have he := createBranch_extends s s' n p ha
    have ha : createBranch s n p = .ok s' := ha
    unfold createBranch at ha
    split at ha
    · cases ha
    · rename_i hnone
      split at ha
      · cases ha
      · cases ha
        have hne : n ≠ b := by
          intro h; subst h; rw [ht] at hnone; simp at hnone
        refine ⟨t, cs, ?_, contents_extends s _ he t cs hc, rfl⟩
        rw [tip_eq] at ht ⊢
        show tipIn (s.branches ++ [(n, p)]) b = some t
        have : ∀ l : List (Nat × Nat), tipIn l b = some t → tipIn (l ++ [(n, p)]) b = some t := by
          intro l
          induction l with
          | nil => intro h; simp [tipIn] at h
          | cons x xs ih =>
            obtain ⟨m, v⟩ := x
            intro h
            simp only [List.cons_append, tipIn] at h ⊢
            split
            · rename_i hm; simpa [hm] using h
            · rename_i hm; simp only [hm] at h; exact ih h
        exact this _ ht
  | merge c p => simp [Op.isC14] at h14
  | revert b' c => simp [Op.isC14] at h14


/-! ### histories -/

/-- the reference along a history: failed operations change nothing, successful ones act as
    `SpecStep` says -/
def SpecRun (cfg : Cfg K V) : State K V → List (Op V) → Nat → List V → List V → Prop
  | _, [], _, cs, cs' => cs' = cs
  | s, op :: ops, b, cs, cs' =>
    ∃ mid, (match apply cfg s op, s.tip b with
            | .ok _, some t => SpecStep s op b t cs mid
            | _, _ => mid = cs) ∧
      SpecRun cfg (step cfg s op) ops b mid cs'

/-- side conditions along a history (see `Op.okFor`) -/
def OkRun (cfg : Cfg K V) : State K V → List (Op V) → Nat → Prop
  | _, [], _ => True
  | s, op :: ops, b =>
    op.isC14 = true ∧ (∀ t, s.tip b = some t → op.okFor t) ∧ OkRun cfg (step cfg s op) ops b

/-- **contents_correct**: for every history of C14 operations, of any length, successful or
    failed, on any branches, the branch stays readable and its contents are exactly what the
    reference predicts (everything loaded minus everything deleted; a predicate delete removes
    exactly the values its complement filter rejects) — by induction from `refinement`. -/
theorem contents_correct (cfg : Cfg K V) (ops : List (Op V)) (s : State K V) (b t : Nat) (cs : List V)
    (g : Good s) (ht : s.tip b = some t) (hc : s.contents t = .ok cs) (hok : OkRun cfg s ops b) :
    ∃ t' cs', (run cfg s ops).tip b = some t' ∧ (run cfg s ops).contents t' = .ok cs' ∧
      SpecRun cfg s ops b cs cs' := by
  induction ops generalizing s t cs with
  | nil => exact ⟨t, cs, ht, hc, rfl⟩
  | cons op ops ih =>
    obtain ⟨h14, hokt, hrest⟩ := hok
    simp only [run, List.foldl_cons]
    cases ha : apply cfg s op with
    | error e =>
      have hstep : step cfg s op = s := by unfold step; rw [ha]
      rw [hstep] at hrest ⊢
      obtain ⟨t', cs', h1, h2, h3⟩ := ih s t cs g ht hc hrest
      refine ⟨t', cs', h1, h2, cs, ?_, ?_⟩
      · simp only [ha]
      · rw [hstep]; exact h3
    | ok s' =>
      have hstep : step cfg s op = s' := by unfold step; rw [ha]
      rw [hstep] at hrest ⊢
      obtain ⟨t1, mid, h1, h2, h3⟩ := refinement cfg s s' op b t cs g ha h14 (hokt t ht) ht hc
      have g' : Good s' := by have := step_good cfg s op g; rw [hstep] at this; exact this
      obtain ⟨t', cs', k1, k2, k3⟩ := ih s' t1 mid g' h1 h2 hrest
      refine ⟨t', cs', k1, k2, mid, ?_, ?_⟩
      · simp only [ha, ht]; exact h3
      · rw [hstep]; exact k3

end Zed.Lake
