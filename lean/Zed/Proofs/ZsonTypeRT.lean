import Zed.Model.ZsonGuard
/-!
  C02 — type-level lemmas for the plain fragment: the formatter's type printers produce
  `tyAst t` without touching their typedef tables, and the analyzer reads `tyAst t` back as
  `t` without touching its name table.
-/
namespace Zed.Zson
open Generated

mutual
def tyAst : Ty → ATy
  | .prim id => .prim (primName id)
  | .record fs => .record (fieldsAst fs)
  | .array t => .array (tyAst t)
  | .set t => .set (tyAst t)
  | .map k v => .map (tyAst k) (tyAst v)
  | .union ts => .union (tysAst ts)
  | .enum syms => .enum syms
  | .error t => .error (tyAst t)
  | .named n t => .def_ n (tyAst t)
def fieldsAst : Fields → AFields
  | .nil => .nil
  | .cons n t r => .cons n (tyAst t) (fieldsAst r)
def tysAst : Tys → ATys
  | .nil => .nil
  | .cons t r => .cons (tyAst t) (tysAst r)
end

mutual
theorem canonType_plain (d : List (Name × Ty)) : (t : Ty) → plainTy t = true → canonType d t = (d, tyAst t)
  | .prim id, _ => by simp [canonType, tyAst]
  | .record fs, h => by
    simp only [plainTy] at h
    simp [canonType, tyAst, canonFields_plain d fs h]
  | .array t, h => by
    simp only [plainTy] at h
    simp [canonType, tyAst, canonType_plain d t h]
  | .set t, h => by
    simp only [plainTy] at h
    simp [canonType, tyAst, canonType_plain d t h]
  | .map k v, h => by
    simp only [plainTy, Bool.and_eq_true] at h
    simp [canonType, tyAst, canonType_plain d k h.1, canonType_plain d v h.2]
  | .union ts, h => by
    simp only [plainTy] at h
    simp [canonType, tyAst, canonTys_plain d ts h]
  | .enum syms, _ => by simp [canonType, tyAst]
  | .error t, h => by
    simp only [plainTy] at h
    simp [canonType, tyAst, canonType_plain d t h]
  | .named n t, h => by simp [plainTy] at h
theorem canonFields_plain (d : List (Name × Ty)) : (fs : Fields) → plainFields fs = true → canonFields d fs = (d, fieldsAst fs)
  | .nil, _ => by simp [canonFields, fieldsAst]
  | .cons n t r, h => by
    simp only [plainFields, Bool.and_eq_true] at h
    simp [canonFields, fieldsAst, canonType_plain d t h.1.1, canonFields_plain d r h.2]
theorem canonTys_plain (d : List (Name × Ty)) : (ts : Tys) → plainTys ts = true → canonTys d ts = (d, tysAst ts)
  | .nil, _ => by simp [canonTys, tysAst]
  | .cons t r, h => by
    simp only [plainTys, Bool.and_eq_true] at h
    simp [canonTys, tysAst, canonType_plain d t h.1, canonTys_plain d r h.2]
end

mutual
theorem fmtType_plain (st : FState) : (t : Ty) → plainTy t = true → fmtType st t = (st, tyAst t)
  | .prim id, _ => by simp [fmtType, tyAst]
  | .record fs, h => by
    simp only [plainTy] at h
    simp [fmtType, tyAst, fmtTypeFields_plain st fs h]
  | .array t, h => by
    simp only [plainTy] at h
    simp [fmtType, tyAst, fmtType_plain st t h]
  | .set t, h => by
    simp only [plainTy] at h
    simp [fmtType, tyAst, fmtType_plain st t h]
  | .map k v, h => by
    simp only [plainTy, Bool.and_eq_true] at h
    simp [fmtType, tyAst, fmtType_plain st k h.1, fmtType_plain st v h.2]
  | .union ts, h => by
    simp only [plainTy] at h
    simp [fmtType, tyAst, fmtTypeTys_plain st ts h]
  | .enum syms, _ => by simp [fmtType, tyAst]
  | .error t, h => by
    simp only [plainTy] at h
    simp [fmtType, tyAst, canonType_plain [] t h]
  | .named n t, h => by simp [plainTy] at h
theorem fmtTypeFields_plain (st : FState) : (fs : Fields) → plainFields fs = true → fmtTypeFields st fs = (st, fieldsAst fs)
  | .nil, _ => by simp [fmtTypeFields, fieldsAst]
  | .cons n t r, h => by
    simp only [plainFields, Bool.and_eq_true] at h
    simp [fmtTypeFields, fieldsAst, fmtType_plain st t h.1.1, fmtTypeFields_plain st r h.2]
theorem fmtTypeTys_plain (st : FState) : (ts : Tys) → plainTys ts = true → fmtTypeTys st ts = (st, tysAst ts)
  | .nil, _ => by simp [fmtTypeTys, tysAst]
  | .cons t r, h => by
    simp only [plainTys, Bool.and_eq_true] at h
    simp [fmtTypeTys, tysAst, fmtType_plain st t h.1, fmtTypeTys_plain st r h.2]
end


theorem lookup_primName (id : Nat) (h : validPrim id = true) : lookupPrimitive (primName id) = some id := by
  have key : ∀ p ∈ C02.primitiveName, lookupPrimitive (ascii p.2) = some p.1 ∧
      (C02.primitiveName.find? (fun q => q.1 == p.1)) = some p := by decide
  simp only [validPrim, List.any_eq_true] at h
  obtain ⟨p, hp, hid⟩ := h
  have hid' : p.1 = id := by simpa using hid
  subst hid'
  obtain ⟨k1, k2⟩ := key p hp
  simp [primName, k2, k1]

theorem insertDup_chainFrom (x : Ty) : (r : List Ty) → chainFrom x r = true → insertDup x r = x :: r
  | [], _ => rfl
  | y :: r, h => by
    simp only [chainFrom, Bool.and_eq_true, beq_iff_eq] at h
    simp [insertDup, h.1.1.1]

theorem foldr_insertDup_chain : (l : List Ty) → chain l = true → l.foldr insertDup [] = l
  | [], _ => rfl
  | x :: r, h => by
    simp only [chain, Bool.and_eq_true] at h
    simp [List.foldr, foldr_insertDup_chain r h.2, insertDup_chainFrom x r h.1]

theorem lookupUnion_chain (ts : Tys) (h : chain ts.toList = true) : lookupUnion ts.toList = .union ts := by
  simp [lookupUnion, foldr_insertDup_chain _ h, Tys.ofList_toList]

mutual
theorem convertType_plain (a : AState) : (t : Ty) → plainTy t = true → wfTy t = true →
    convertType a (tyAst t) = .ok (a, t)
  | .prim id, _, w => by
    simp only [wfTy] at w
    simp [convertType, tyAst, lookup_primName id w]
  | .record fs, h, w => by
    simp only [plainTy] at h
    simp only [wfTy, Bool.and_eq_true, Bool.not_eq_true'] at w
    simp [convertType, tyAst, convertTypeFields_plain a fs h w.1, w.2, bind, Except.bind, pure, Except.pure]
  | .array t, h, w => by
    simp only [plainTy] at h
    simp only [wfTy] at w
    simp [convertType, tyAst, convertType_plain a t h w, bind, Except.bind, pure, Except.pure]
  | .set t, h, w => by
    simp only [plainTy] at h
    simp only [wfTy] at w
    simp [convertType, tyAst, convertType_plain a t h w, bind, Except.bind, pure, Except.pure]
  | .map k v, h, w => by
    simp only [plainTy, Bool.and_eq_true] at h
    simp only [wfTy, Bool.and_eq_true] at w
    simp [convertType, tyAst, convertType_plain a k h.1 w.1, convertType_plain a v h.2 w.2, bind, Except.bind, pure, Except.pure]
  | .union ts, h, w => by
    simp only [plainTy] at h
    simp only [wfTy, Bool.and_eq_true] at w
    simp [convertType, tyAst, convertTypeTys_plain a ts h w.1.1, lookupUnion_chain ts w.2, bind, Except.bind, pure, Except.pure]
  | .enum syms, _, w => by
    simp only [wfTy, Bool.and_eq_true, Bool.not_eq_true'] at w
    simp [convertType, tyAst, w.1]
  | .error t, h, w => by
    simp only [plainTy] at h
    simp only [wfTy] at w
    simp [convertType, tyAst, convertType_plain a t h w, bind, Except.bind, pure, Except.pure]
  | .named n t, h, _ => by simp [plainTy] at h
theorem convertTypeFields_plain (a : AState) : (fs : Fields) → plainFields fs = true → wfFields fs = true →
    convertTypeFields a (fieldsAst fs) = .ok (a, fs)
  | .nil, _, _ => by simp [convertTypeFields, fieldsAst]
  | .cons n t r, h, w => by
    simp only [plainFields, Bool.and_eq_true] at h
    simp only [wfFields, Bool.and_eq_true] at w
    simp [convertTypeFields, fieldsAst, convertType_plain a t h.1.1 w.1, convertTypeFields_plain a r h.2 w.2, bind, Except.bind, pure, Except.pure]
theorem convertTypeTys_plain (a : AState) : (ts : Tys) → plainTys ts = true → wfTys ts = true →
    convertTypeTys a (tysAst ts) = .ok (a, ts.toList)
  | .nil, _, _ => by simp [convertTypeTys, tysAst, Tys.toList]
  | .cons t r, h, w => by
    simp only [plainTys, Bool.and_eq_true] at h
    simp only [wfTys, Bool.and_eq_true] at w
    simp [convertTypeTys, tysAst, Tys.toList, convertType_plain a t h.1 w.1, convertTypeTys_plain a r h.2 w.2, bind, Except.bind, pure, Except.pure]
end
end Zed.Zson
