package main

// Running the real fuse operator and fuse() aggregate on value trees.

import (
	"context"
	"fmt"
	"strings"
	"time"

	zed "github.com/brimdata/super"
	"github.com/brimdata/super/compiler"
	"github.com/brimdata/super/runtime"
	"github.com/brimdata/super/zcode"
	"github.com/brimdata/super/zio"

	. "verifharness/hlib"
)

// In is one input value: a type tree and a value tree (trees are canonical: they were read
// back from the real type / bytes after building, see canonIn).
type In struct {
	T *T  `json:"t"`
	V *V  `json:"v"`
	N int `json:"nbytes"` // len(val.Bytes()) of the real value
}

type Case struct {
	Name string `json:"name"`
	Ins  []In   `json:"ins"`
}

type outVal struct {
	T      *T
	V      *V
	ErrMsg string // non-empty: the output is an error(string) value that is not an input
	ZSON   string
}

type realRes struct {
	Outs  []outVal
	Err   string
	Panic string
}

type sliceReader struct {
	vals []zed.Value
	i    int
}

func (r *sliceReader) Read() (*zed.Value, error) {
	if r.i >= len(r.vals) {
		return nil, nil
	}
	v := &r.vals[r.i]
	r.i++
	return v, nil
}

// buildInputs enters the case into a fresh context and returns the real values.
func buildInputs(zctx *zed.Context, ins []In) ([]zed.Value, error) {
	var vals []zed.Value
	for _, in := range ins {
		typ, err := in.T.Build(zctx)
		if err != nil {
			return nil, err
		}
		var b zcode.Builder
		if err := in.V.Encode(typ, &b); err != nil {
			return nil, err
		}
		body := b.Bytes().Body()
		if in.V.Null {
			body = nil
		}
		vals = append(vals, zed.NewValue(typ, body))
	}
	return vals, nil
}

// canonIn rebuilds an input through the real context so that union members are in the
// context's canonical order and set/map bodies are normalized; returns ok=false when the
// tree is not a valid type/value.
func canonIn(t *T, v *V) (In, error) {
	zctx := zed.NewContext()
	typ, err := t.Build(zctx)
	if err != nil {
		return In{}, err
	}
	var b zcode.Builder
	if err := v.Encode(typ, &b); err != nil {
		return In{}, err
	}
	var body zcode.Bytes
	if !v.Null {
		body = b.Bytes().Body()
	}
	if in := v; in.K == "x" && len(body) == 0 {
		body = zcode.Bytes{} // a non-null error value with an empty inner body
	}
	cv, err := OfValue(typ, body)
	if err != nil {
		return In{}, err
	}
	return In{T: OfType(typ), V: cv, N: len(body)}, nil
}

func runQuery(q string, ins []In) (res realRes) {
	err, panicked := Protect(func() error {
		zctx := zed.NewContext()
		vals, err := buildInputs(zctx, ins)
		if err != nil {
			return fmt.Errorf("harness: cannot build inputs: %w", err)
		}
		ast, sset, err := compiler.Parse(q)
		if err != nil {
			return err
		}
		ctx, cancel := context.WithTimeout(context.Background(), 300*time.Second)
		defer cancel()
		query, err := runtime.CompileQuery(ctx, zctx, compiler.NewCompiler(), ast, sset, []zio.Reader{&sliceReader{vals: vals}})
		if err != nil {
			return err
		}
		defer query.Pull(true)
		for {
			b, err := query.Pull(false)
			if err != nil {
				return err
			}
			if b == nil {
				return nil
			}
			for _, v := range b.Values() {
				o := outVal{T: OfType(v.Type())}
				tv, err := OfValue(v.Type(), v.Bytes())
				if err != nil {
					return fmt.Errorf("output value does not decode against its own type: %w", err)
				}
				o.V = tv
				if et, ok := v.Type().(*zed.TypeError); ok && et.Type == zed.TypeString && !v.IsNull() {
					o.ErrMsg = string(v.Bytes())
				}
				res.Outs = append(res.Outs, o)
			}
			b.Unref()
		}
	})
	if err != nil {
		if panicked {
			res.Panic = err.Error()
		} else {
			res.Err = err.Error()
		}
	}
	return res
}

// runAgg returns the type the fuse() aggregate reports.
func runAgg(ins []In) (t *T, errs string) {
	err, _ := Protect(func() error {
		zctx := zed.NewContext()
		vals, err := buildInputs(zctx, ins)
		if err != nil {
			return err
		}
		ast, sset, err := compiler.Parse("fuse(this)")
		if err != nil {
			return err
		}
		ctx, cancel := context.WithTimeout(context.Background(), 300*time.Second)
		defer cancel()
		query, err := runtime.CompileQuery(ctx, zctx, compiler.NewCompiler(), ast, sset, []zio.Reader{&sliceReader{vals: vals}})
		if err != nil {
			return err
		}
		defer query.Pull(true)
		n := 0
		for {
			b, err := query.Pull(false)
			if err != nil {
				return err
			}
			if b == nil {
				break
			}
			for _, v := range b.Values() {
				n++
				if v.Type() != zed.TypeType {
					return fmt.Errorf("fuse() returned a %s, not a type value", OfType(v.Type()).Sexp())
				}
				typ, err := zctx.LookupByValue(v.Bytes())
				if err != nil {
					return err
				}
				t = OfType(typ)
			}
			b.Unref()
		}
		if n != 1 {
			return fmt.Errorf("fuse() returned %d values", n)
		}
		return nil
	})
	if err != nil {
		return nil, err.Error()
	}
	return t, ""
}

func firstLine(s string) string {
	if i := strings.IndexByte(s, '\n'); i >= 0 {
		return s[:i]
	}
	return s
}
