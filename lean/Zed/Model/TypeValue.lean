import Zed.Model.Ty
/-!
  L1 — the serialized type value: `zed.AppendTypeValue` / `appendTypeValue` (type.go).
  The encoder threads the `typedefs` map (name ↦ inner type last written): a named type whose
  name is currently bound to the same inner type is written as a NameRef, otherwise as a
  NameDef followed by the inner type, and the binding is made *after* the inner type has been
  written (DFS order).  Go compares `previous == t.Type` by pointer; inside one context pointer
  equality is structural equality (C05 `context_canonical`).
-/
namespace Zed
open Zcode Generated.C05

/-- name ↦ inner type, newest binding first -/
abbrev EncDefs := List (Name × Ty)

def byteOf (n : Nat) : UInt8 := UInt8.ofNat n

def encNames : List Name → Bytes
  | [] => []
  | n :: r => encodeName n ++ encNames r

mutual
def encTy : Ty → EncDefs → Bytes × EncDefs
  | .prim id, d => ([byteOf id], d)
  | .named n t, d =>
    if d.lookup n = some t then (byteOf tvNameRef :: encodeName n, d)
    else
      let r := encTy t d
      (byteOf tvNameDef :: (encodeName n ++ r.1), (n, t) :: r.2)
  | .record fs, d =>
    let r := encFields fs d
    (byteOf tvRecord :: (uvarint fs.length ++ r.1), r.2)
  | .union ts, d =>
    let r := encTys ts d
    (byteOf tvUnion :: (uvarint ts.length ++ r.1), r.2)
  | .set t, d => let r := encTy t d; (byteOf tvSet :: r.1, r.2)
  | .array t, d => let r := encTy t d; (byteOf tvArray :: r.1, r.2)
  | .enum syms, d => (byteOf tvEnum :: (uvarint syms.length ++ encNames syms), d)
  | .map k v, d =>
    let r1 := encTy k d
    let r2 := encTy v r1.2
    (byteOf tvMap :: (r1.1 ++ r2.1), r2.2)
  | .error t, d => let r := encTy t d; (byteOf tvError :: r.1, r.2)
def encFields : Fields → EncDefs → Bytes × EncDefs
  | .nil, d => ([], d)
  | .cons n t rest, d =>
    let r1 := encTy t d
    let r2 := encFields rest r1.2
    (encodeName n ++ r1.1 ++ r2.1, r2.2)
def encTys : Tys → EncDefs → Bytes × EncDefs
  | .nil, d => ([], d)
  | .cons t rest, d =>
    let r1 := encTy t d
    let r2 := encTys rest r1.2
    (r1.1 ++ r2.1, r2.2)
end

/-- `zed.EncodeTypeValue` -/
def encodeTV (t : Ty) : Bytes := (encTy t []).1

end Zed
