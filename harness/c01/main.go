package main

// C01 — ZNG binary stream round trip is the identity.
//
// Sub-checks (all seeded; a case is fully described by its caseSpec, which is the replay):
//   unit    (T2) model uvarint / zcode / frame headers vs encoding/binary, zcode and the real
//                writer's headers on boundary sizes
//   r2m     (T2, crossed) real writer (compress on/off, thresh grid, EOS positions, control
//                frames, concatenated independent streams) → harness strips LZ4 → MODEL reader
//                must return the input
//   m2r     (T2, crossed) MODEL writer → harness LZ4-compresses some frames → real reader under
//                threads × readsize × chunking × validate × {Read, Scanner} must return the input
//   oracle  (S)  real writer → real reader under the same grid: read(write(x)) = x
//   sched   (S/T2) many tiny frames after a huge one, many thread counts, repeated; with the
//                optional worker gate hook every completion permutation of ≤5 frames is forced
//                and the scanner model is run on the same schedule

import (
	"bytes"
	"context"
	"encoding/binary"
	"encoding/json"
	"fmt"
	"io"
	"math/rand"
	"sort"
	"strings"
	"sync"
	"time"
	. "verifharness/hlib"

	zed "github.com/brimdata/super"
	"github.com/brimdata/super/zbuf"
	"github.com/brimdata/super/zcode"
	"github.com/brimdata/super/zio/zngio"
)

func main() { Main("C01", run) }

type caseSpec struct {
	Sub   string `json:"sub"`
	Seed  int64  `json:"seed"`
	NVals int    `json:"nvals"`
	Depth int    `json:"depth"`
	NCtx  int    `json:"nctx"`
	Big   int    `json:"big,omitempty"`
	// Keep, when non-nil, selects the generated values that are kept (after shrinking).
	Keep []int `json:"keep,omitempty"`
	// writer
	Compress bool  `json:"compress"`
	Thresh   int   `json:"thresh"`
	EOSAt    []int `json:"eos_at,omitempty"` // EndStream before value i (len = after last)
	CtlAt    []int `json:"ctl_at,omitempty"` // WriteControl before value i
	CutAt    []int `json:"cut_at,omitempty"` // close the writer and start a new one before value i
	MComp    int64 `json:"mcomp,omitempty"`  // m2r: seed choosing which model frames get LZ4
	// reader
	Threads  int  `json:"threads"`
	Size     int  `json:"size"`
	Validate bool `json:"validate"`
	Scan     bool `json:"scan"`
	Chunk    int  `json:"chunk"`
	EOFWD    bool `json:"eofwd,omitempty"`
}

type wval struct {
	v   zed.Value
	cid int
	z   ZVal
}

func genVals(cs *caseSpec) []wval {
	g := NewZGen(rand.New(rand.NewSource(cs.Seed)), cs.NCtx, cs.Depth)
	g.BigBody = cs.Big
	out := make([]wval, 0, cs.NVals)
	for i := 0; i < cs.NVals; i++ {
		v, ci := g.Value()
		out = append(out, wval{v, ci, ZValOf(v)})
	}
	if cs.Keep != nil {
		var kept []wval
		for _, i := range cs.Keep {
			if i < len(out) {
				kept = append(kept, out[i])
			}
		}
		return kept
	}
	return out
}

func has(xs []int, i int) int {
	n := 0
	for _, x := range xs {
		if x == i {
			n++
		}
	}
	return n
}

type nopCloser struct{ *bytes.Buffer }

func (nopCloser) Close() error { return nil }

// realWrite runs the real writer(s); a panic is returned as an error.
func realWrite(cs *caseSpec, vals []wval) (out []byte, err error) {
	var buf bytes.Buffer
	perr, _ := Protect(func() error {
		opts := zngio.WriterOpts{Compress: cs.Compress, FrameThresh: cs.Thresh}
		w := zngio.NewWriterWithOpts(nopCloser{&buf}, opts)
		for i := 0; i <= len(vals); i++ {
			if i > 0 && has(cs.CutAt, i) > 0 && i < len(vals) {
				if err := w.Close(); err != nil {
					return err
				}
				w = zngio.NewWriterWithOpts(nopCloser{&buf}, opts)
			}
			for k := has(cs.CtlAt, i); k > 0; k-- {
				if err := w.WriteControl([]byte(fmt.Sprintf("ctl%d", i)), zngio.ControlFormatString); err != nil {
					return err
				}
			}
			for k := has(cs.EOSAt, i); k > 0; k-- {
				if err := w.EndStream(); err != nil {
					return err
				}
			}
			if i < len(vals) {
				if err := w.Write(vals[i].v); err != nil {
					return err
				}
			}
		}
		return w.Close()
	})
	return buf.Bytes(), perr
}

// modelOps renders the operation lists (one per independently written stream).
func modelOps(cs *caseSpec, vals []wval) []string {
	var segs []string
	var sb strings.Builder
	for i := 0; i <= len(vals); i++ {
		if i > 0 && has(cs.CutAt, i) > 0 && i < len(vals) {
			segs = append(segs, sb.String())
			sb.Reset()
		}
		for k := has(cs.CtlAt, i); k > 0; k-- {
			fmt.Fprintf(&sb, "(ctl %d %s) ", zngio.ControlFormatString, HexAtom([]byte(fmt.Sprintf("ctl%d", i))))
		}
		for k := has(cs.EOSAt, i); k > 0; k-- {
			sb.WriteString("(eos) ")
		}
		if i < len(vals) {
			fmt.Fprintf(&sb, "(w %d %s %s) ", vals[i].cid, vals[i].z.Ty, vals[i].z.BodyAtom())
		}
	}
	segs = append(segs, sb.String())
	return segs
}

func modelWrite(c *Ctx, cs *caseSpec, vals []wval) ([]byte, error) {
	var out []byte
	for _, seg := range modelOps(cs, vals) {
		ans := c.ModelBigStack().Call(fmt.Sprintf("(C01 write %d (%s))", cs.Thresh, seg))
		f := strings.Fields(strings.Trim(ans, "()"))
		if len(f) != 3 {
			return nil, fmt.Errorf("model write answered %q", ans)
		}
		if f[1] != "1" {
			return nil, fmt.Errorf("model write: size guard not satisfied")
		}
		b, err := UnhexAtom(f[0])
		if err != nil {
			return nil, err
		}
		out = append(out, b...)
	}
	return out, nil
}

func expected(vals []wval) []ZVal {
	out := make([]ZVal, len(vals))
	for i, v := range vals {
		out[i] = v.z
	}
	return out
}

func readerOpts(cs *caseSpec) ZReadOpts {
	return ZReadOpts{Opts: zngio.ReaderOpts{Validate: cs.Validate, Size: cs.Size, Threads: cs.Threads},
		Scan: cs.Scan, Chunk: cs.Chunk, EOFWD: cs.EOFWD}
}

// realRead runs the real reader with a watchdog.
func realRead(cs *caseSpec, data []byte) (vals []ZVal, err error, timedOut bool) {
	type res struct {
		vals []ZVal
		err  error
	}
	ch := make(chan res, 1)
	go func() {
		var r res
		perr, _ := Protect(func() error {
			var e error
			r.vals, e = ZngReadAll(zed.NewContext(), data, readerOpts(cs))
			return e
		})
		r.err = perr
		ch <- r
	}()
	select {
	case r := <-ch:
		return r.vals, r.err, false
	case <-time.After(120 * time.Second):
		return nil, fmt.Errorf("timeout"), true
	}
}

func describe(want, got []ZVal, err error) string {
	if err != nil {
		return "reader failed: " + strings.SplitN(err.Error(), "\n", 2)[0]
	}
	i, ok := SameZVals(want, got)
	if ok {
		return ""
	}
	if i >= len(want) {
		return fmt.Sprintf("%d extra values delivered (want %d)", len(got)-len(want), len(want))
	}
	if i >= len(got) {
		return fmt.Sprintf("only %d of %d values delivered", len(got), len(want))
	}
	// is it a reordering?
	a, b := make([]string, len(want)), make([]string, len(got))
	for k := range want {
		a[k] = want[k].String()
	}
	for k := range got {
		b[k] = got[k].String()
	}
	sa, sb := append([]string{}, a...), append([]string{}, b...)
	sort.Strings(sa)
	sort.Strings(sb)
	if strings.Join(sa, "\n") == strings.Join(sb, "\n") {
		return fmt.Sprintf("values delivered out of order (first difference at %d)", i)
	}
	w, g := want[i], got[i]
	switch {
	case w.Ty != g.Ty:
		return fmt.Sprintf("value %d: type differs: want %s got %s", i, trunc(w.Ty), trunc(g.Ty))
	case w.Null != g.Null:
		return fmt.Sprintf("value %d: null/empty confusion: want null=%v got null=%v", i, w.Null, g.Null)
	default:
		return fmt.Sprintf("value %d: body bytes differ: want %s got %s", i, trunc(HexAtom(w.Body)), trunc(HexAtom(g.Body)))
	}
}

func trunc(s string) string {
	if len(s) > 160 {
		return s[:160] + "…"
	}
	return s
}

func failClass(what string) string {
	switch {
	case strings.Contains(what, "out of order"):
		return "order"
	case strings.Contains(what, "type differs"):
		return "type"
	case strings.Contains(what, "null/empty"):
		return "null"
	case strings.Contains(what, "body bytes"):
		return "bytes"
	case strings.Contains(what, "extra values"), strings.Contains(what, "only "):
		return "count"
	case strings.Contains(what, "timeout"):
		return "timeout"
	case strings.Contains(what, "panic"):
		return "panic"
	default:
		return "error"
	}
}

// ---- one case ---------------------------------------------------------------------------

// evalCase runs the sub-check cs.Sub on the case and returns "" or what failed.
func evalCase(c *Ctx, cs *caseSpec, stats bool) (what string, kind string) {
	vals := genVals(cs)
	want := expected(vals)
	switch cs.Sub {
	case "r2m":
		data, err := realWrite(cs, vals)
		if err != nil {
			return "real writer failed: " + err.Error(), "oracle"
		}
		plain, ncomp, err := ZngStripLZ4(data)
		if err != nil {
			return "frame walker cannot parse the real writer's output: " + err.Error(), "correspondence"
		}
		ans := c.ModelBigStack().Call(fmt.Sprintf("(C01 read %d %d %s)", zngio.MaxSize, b2i(cs.Validate), HexAtom(plain)))
		c.Res.ModelCases++
		m, err := ParseModelRead(ans)
		if err != nil {
			return err.Error(), "correspondence"
		}
		if stats {
			c.StatN("r2m:compressed-frames", ncomp)
			if !cs.Compress {
				if mb, err := modelWrite(c, cs, vals); err == nil && bytes.Equal(mb, data) {
					c.Stat("stat:writer-bytes-equal")
				} else {
					c.Stat("stat:writer-bytes-differ")
				}
			}
		}
		if m.Outcome != "eof" {
			return "model reader ended with " + m.Outcome + " on the real writer's output", "correspondence"
		}
		if d := describe(want, m.Vals, nil); d != "" {
			return "model reader on real writer output: " + d, "correspondence"
		}
	case "m2r":
		data, err := modelWrite(c, cs, vals)
		c.Res.ModelCases++
		if err != nil {
			return err.Error(), "correspondence"
		}
		if cs.MComp != 0 {
			frames, err := ZngFrames(data)
			if err != nil {
				return "frame walker cannot parse the model writer's output: " + err.Error(), "correspondence"
			}
			r := rand.New(rand.NewSource(cs.MComp))
			data = ZngAssemble(frames, func(int) bool { return r.Intn(2) == 0 })
		}
		got, err, _ := realRead(cs, data)
		if d := describe(want, got, err); d != "" {
			return "real reader on model writer output: " + d, "correspondence"
		}
	case "oracle":
		data, err := realWrite(cs, vals)
		if err != nil {
			return "real writer failed: " + err.Error(), "oracle"
		}
		got, err, _ := realRead(cs, data)
		if d := describe(want, got, err); d != "" {
			return "read(write(x)) ≠ x: " + d, "oracle"
		}
	default:
		panic("unknown sub " + cs.Sub)
	}
	return "", ""
}

func b2i(b bool) int {
	if b {
		return 1
	}
	return 0
}

// shrink: drop values while the failure stays.
func shrink(c *Ctx, cs caseSpec) caseSpec {
	n := len(genVals(&cs))
	keep := cs.Keep
	if keep == nil {
		keep = make([]int, n)
		for i := range keep {
			keep[i] = i
		}
	}
	fails := func(k []int) bool {
		t := cs
		t.Keep = k
		if len(k) == 0 {
			t.Keep = []int{}
		}
		w, _ := evalCase(c, &t, false)
		return w != ""
	}
	budget := 60
	for chunk := len(keep) / 2; chunk >= 1 && budget > 0; {
		progress := false
		for i := 0; i+chunk <= len(keep) && budget > 0; {
			cand := append(append([]int{}, keep[:i]...), keep[i+chunk:]...)
			budget--
			if fails(cand) {
				keep = cand
				progress = true
			} else {
				i += chunk
			}
		}
		if !progress || chunk > len(keep) {
			chunk /= 2
		}
	}
	cs.Keep = keep
	// positions refer to indices in the kept list; clamp them
	return cs
}

var threshGrid = []int{1, 2, 3, 7, 16, 33, 64, 100, 256, 1000, 4096, 65536, 1 << 20, zngio.DefaultFrameThresh}
var threadGrid = []int{1, 2, 3, 8, 16}
var sizeGrid = []int{0, 1, 7, 512, 0}
var chunkGrid = []int{0, 0, 1, 5, 4096}

func randCase(r *rand.Rand, sub string, thorough bool) caseSpec {
	cs := caseSpec{Sub: sub, Seed: r.Int63(), Depth: 1 + r.Intn(4), NCtx: 1 + r.Intn(3)}
	switch r.Intn(6) {
	case 0:
		cs.NVals = r.Intn(3)
	case 1:
		cs.NVals = 50 + r.Intn(150)
	default:
		cs.NVals = 1 + r.Intn(30)
	}
	if thorough && r.Intn(20) == 0 {
		cs.NVals = 500 + r.Intn(1500)
	}
	if r.Intn(8) == 0 {
		cs.Big = []int{600, 70000, 600000}[r.Intn(3)]
		if cs.Big > 70000 {
			cs.NVals = 1 + r.Intn(8)
		}
	}
	cs.Compress = r.Intn(2) == 0
	cs.Thresh = threshGrid[r.Intn(len(threshGrid))]
	for i := 0; i <= cs.NVals; i++ {
		if r.Intn(7) == 0 {
			cs.EOSAt = append(cs.EOSAt, i)
			if r.Intn(4) == 0 {
				cs.EOSAt = append(cs.EOSAt, i)
			}
		}
		if r.Intn(25) == 0 {
			cs.CtlAt = append(cs.CtlAt, i)
		}
		if i > 0 && i < cs.NVals && r.Intn(15) == 0 {
			cs.CutAt = append(cs.CutAt, i)
		}
	}
	if r.Intn(2) == 0 {
		cs.MComp = 1 + r.Int63n(1<<40)
	}
	cs.Threads = threadGrid[r.Intn(len(threadGrid))]
	cs.Size = sizeGrid[r.Intn(len(sizeGrid))]
	cs.Chunk = chunkGrid[r.Intn(len(chunkGrid))]
	cs.EOFWD = r.Intn(4) == 0
	cs.Validate = r.Intn(2) == 0
	cs.Scan = r.Intn(2) == 0
	return cs
}

func distinctKey(cs *caseSpec) string {
	return fmt.Sprintf("%s/%d/c%v/t%d/e%d/x%d/k%d/T%d/s%d/ch%d/v%v/sc%v", cs.Sub, cs.Seed, cs.Compress, cs.Thresh,
		len(cs.EOSAt), len(cs.CutAt), len(cs.CtlAt), cs.Threads, cs.Size, cs.Chunk, cs.Validate, cs.Scan)
}

func runCase(c *Ctx, cs caseSpec, fromCorpus bool) {
	what, kind := evalCase(c, &cs, true)
	if cs.NVals == 0 {
		c.Eval("")
	} else {
		c.Eval(distinctKey(&cs))
	}
	c.Stat("sub:" + cs.Sub)
	c.Stat(fmt.Sprintf("thresh:%d", cs.Thresh))
	c.Stat(fmt.Sprintf("threads:%d", cs.Threads))
	c.Stat(fmt.Sprintf("compress:%v", cs.Compress))
	c.Stat(fmt.Sprintf("readsize:%d", cs.Size))
	c.Stat(fmt.Sprintf("validate:%v scan:%v", cs.Validate, cs.Scan))
	if len(cs.EOSAt) > 0 {
		c.Stat("with-eos")
	}
	if len(cs.CutAt) > 0 {
		c.Stat("with-concat")
	}
	if len(cs.CtlAt) > 0 {
		c.Stat("with-control")
	}
	if what == "" {
		return
	}
	if c.Replay == nil && !fromCorpus {
		cs = shrink(c, cs)
		if w2, k2 := evalCase(c, &cs, false); w2 != "" {
			what, kind = w2, k2
		}
	}
	key := fmt.Sprintf("C01:%s:%s", cs.Sub, failClass(what))
	c.Fail(kind, key, what, cs)
}

// ---- unit: small codecs -------------------------------------------------------------------

func runUnit(c *Ctx) {
	m := c.ModelBigStack()
	r := c.Rng
	// uvarint
	nums := []uint64{0, 1, 127, 128, 129, 255, 256, 16383, 16384, 1<<21 - 1, 1 << 21, 1<<28 - 1, 1 << 28, 1<<35 - 1, 1 << 35, 1 << 42, 1 << 49, 1<<56 - 1, 1 << 56, 1<<63 - 1, 1 << 63, 1<<64 - 1}
	for i := 0; i < c.N(200, 5000); i++ {
		nums = append(nums, r.Uint64()>>uint(r.Intn(64)))
	}
	var lines []string
	for _, n := range nums {
		lines = append(lines, fmt.Sprintf("(C01 uvarint %d)", n))
	}
	for i, a := range m.Batch(lines) {
		c.Eval(fmt.Sprintf("uvarint/%d", nums[i]))
		c.Res.ModelCases++
		if want := HexAtom(binary.AppendUvarint(nil, nums[i])); a != want {
			c.Fail("correspondence", "C01:unit:uvarint", fmt.Sprintf("uvarint(%d): model %s real %s", nums[i], a, want), map[string]any{"sub": "unit", "n": nums[i]})
		}
	}
	// zcode append / iter, crossed
	for i := 0; i < c.N(300, 5000); i++ {
		n := r.Intn(6)
		var items [][]byte
		var atoms []string
		var realEnc zcode.Bytes
		for k := 0; k < n; k++ {
			var b []byte
			switch r.Intn(5) {
			case 0:
				b = nil
			case 1:
				b = []byte{}
			default:
				b = make([]byte, []int{1, 2, 126, 127, 128, 129, 300, 16383, 16384}[r.Intn(9)])
				r.Read(b)
			}
			items = append(items, b)
			if b == nil {
				atoms = append(atoms, "null")
			} else {
				atoms = append(atoms, HexAtom(b))
			}
			realEnc = zcode.Append(realEnc, b)
		}
		c.Eval(fmt.Sprintf("zcode/%d/%d", i, n))
		c.Res.ModelCases += 2
		menc := m.Call("(C01 zcode (" + strings.Join(atoms, " ") + "))")
		// model-encode → real-decode
		mb, err := UnhexAtom(menc)
		if err != nil {
			c.Fail("correspondence", "C01:unit:zcode", "model zcode answered "+menc, map[string]any{"sub": "unit"})
			continue
		}
		var got []string
		perr, _ := Protect(func() error {
			for it := zcode.Bytes(mb).Iter(); !it.Done(); {
				b := it.Next()
				if b == nil {
					got = append(got, "null")
				} else {
					got = append(got, HexAtom(b))
				}
			}
			return nil
		})
		if perr != nil || strings.Join(got, " ") != strings.Join(atoms, " ") {
			c.Fail("correspondence", "C01:unit:zcode", fmt.Sprintf("model-encode→real-iter: want %v got %v err %v", atoms, got, perr), map[string]any{"sub": "unit", "items": atoms})
		}
		// real-encode → model-decode
		ans := m.Call("(C01 ziter " + HexAtom(realEnc) + ")")
		want := "(ok"
		for _, a := range atoms {
			want += " " + a
		}
		want += ")"
		if ans != want {
			c.Fail("correspondence", "C01:unit:zcode", fmt.Sprintf("real-encode→model-iter: want %s got %s", trunc(want), trunc(ans)), map[string]any{"sub": "unit", "items": atoms})
		}
		if bytes.Equal(mb, realEnc) {
			c.Stat("stat:zcode-bytes-equal")
		}
	}
	// frame headers: the real writer's control frame header for payload sizes around the
	// nibble / varint boundaries vs the model's frameHeader
	for _, size := range []int{1, 2, 15, 16, 17, 31, 32, 255, 256, 2047, 2048, 2049, 4095, 4096, 65535, 65536, 1<<20 - 1, 1 << 20, 1<<20 + 1} {
		var buf bytes.Buffer
		w := zngio.NewWriterWithOpts(nopCloser{&buf}, zngio.WriterOpts{})
		w.WriteControl(make([]byte, size-1), 0)
		data := buf.Bytes()
		hdr := data[:len(data)-size]
		c.Eval(fmt.Sprintf("header/%d", size))
		c.Res.ModelCases++
		if ans := m.Call(fmt.Sprintf("(C01 header 2 %d)", size)); ans != HexAtom(hdr) {
			c.Fail("correspondence", "C01:unit:header", fmt.Sprintf("header(control,%d): model %s real %s", size, ans, HexAtom(hdr)), map[string]any{"sub": "unit", "size": size})
		}
		// compressed: zeros compress well
		buf.Reset()
		w = zngio.NewWriterWithOpts(nopCloser{&buf}, zngio.WriterOpts{Compress: true})
		w.WriteControl(make([]byte, size-1), 0)
		data = buf.Bytes()
		frames, err := ZngFrames(data)
		if err != nil || len(frames) != 1 {
			c.Fail("correspondence", "C01:unit:header", fmt.Sprintf("walker on compressed control frame of %d: %v", size, err), map[string]any{"sub": "unit", "size": size})
			continue
		}
		if frames[0].Compressed {
			zlen := len(data) - frames[0].HdrLen
			c.Stat("unit:compressed-header")
			if ans := m.Call(fmt.Sprintf("(C01 cheader 2 %d %d)", size, zlen)); ans != HexAtom(data[:frames[0].HdrLen]) {
				c.Fail("correspondence", "C01:unit:cheader", fmt.Sprintf("cheader(control,%d,%d): model %s real %s", size, zlen, ans, HexAtom(data[:frames[0].HdrLen])), map[string]any{"sub": "unit", "size": size})
			}
		}
	}
}

// ---- sched: delivery order under worker scheduling ---------------------------------------------

const gateKey = "zngio.verif.gate" // see /verif/pending/C01-zngio-worker-gate.diff

// seqStream: frame 0 is huge (slow to validate), the rest are one tiny value each, all in
// separate frames; some streams have EOS between frames so that several local contexts are
// in flight together.
func seqStream(r *rand.Rand, n int, big int, withEOS bool) ([]byte, []ZVal) {
	zctx := zed.NewContext()
	rec := func(i int, pad int) zed.Value {
		// a fresh record type per stream segment so that typedefs are in flight too
		t := zctx.MustLookupTypeRecord([]zed.Field{zed.NewField("seq", zed.TypeInt64), zed.NewField(fmt.Sprintf("f%d", i%3), zed.TypeString)})
		var b zcode.Builder
		b.Append(zed.EncodeInt(int64(i)))
		b.Append([]byte(strings.Repeat("p", pad)))
		return zed.NewValue(t, b.Bytes())
	}
	var buf bytes.Buffer
	w := zngio.NewWriterWithOpts(nopCloser{&buf}, zngio.WriterOpts{Compress: r.Intn(2) == 0, FrameThresh: 1})
	var want []ZVal
	for i := 0; i < n; i++ {
		pad := 1
		if i == 0 {
			pad = big
		}
		v := rec(i, pad)
		want = append(want, ZValOf(v))
		w.Write(v)
		if withEOS && r.Intn(3) == 0 {
			w.EndStream()
		}
	}
	w.Close()
	return buf.Bytes(), want
}

func runSched(c *Ctx) {
	r := c.Rng
	// 1. free-running: many runs, every thread count
	for i := 0; i < c.N(60, 600); i++ {
		n := 2 + r.Intn(40)
		data, want := seqStream(r, n, []int{1, 200000, 3000000}[r.Intn(3)], r.Intn(2) == 0)
		cs := caseSpec{Sub: "sched", Threads: []int{2, 3, 4, 8, 16}[r.Intn(5)], Validate: r.Intn(2) == 0, Scan: r.Intn(2) == 0, Size: sizeGrid[r.Intn(len(sizeGrid))]}
		got, err, _ := realRead(&cs, data)
		c.Eval(fmt.Sprintf("sched/free/%d/%d/%d", i, n, cs.Threads))
		c.Stat(fmt.Sprintf("sched:free threads=%d", cs.Threads))
		if d := describe(want, got, err); d != "" {
			c.Fail("oracle", "C01:sched:"+failClass(d), "threaded scanner: "+d, map[string]any{"sub": "sched", "note": "free-running schedule; stream = one huge frame followed by tiny frames", "frames": n, "threads": cs.Threads})
		}
	}
	// 2. forced permutations through the optional gate hook
	probe := false
	{
		data, _ := seqStream(r, 3, 1, false)
		ctx := context.WithValue(context.Background(), gateKey, func(zbuf.Batch) { probe = true })
		ZngReadAll(zed.NewContext(), data, ZReadOpts{Opts: zngio.ReaderOpts{Threads: 2}, Scan: true, Ctx: ctx})
	}
	if !probe {
		c.Note("sched: worker gate hook not present in /repo (pending/C01-zngio-worker-gate.diff); completion orders are exercised by free-running schedules only")
		c.Stat("sched:hook-absent")
		return
	}
	c.Stat("sched:hook-present")
	for n := 2; n <= 5; n++ {
		perms := permutations(n)
		for _, perm := range perms {
			data, want := seqStream(r, n, 1, r.Intn(2) == 0)
			var mu sync.Mutex
			cond := sync.NewCond(&mu)
			arrived := 0
			turn := 0 // index into perm of the frame allowed to finish next
			gate := func(b zbuf.Batch) {
				seq := -1
				if b != nil && len(b.Values()) > 0 {
					it := b.Values()[0].Bytes().Iter()
					seq = int(zed.DecodeInt(it.Next()))
				}
				mu.Lock()
				arrived++
				cond.Broadcast()
				deadline := time.Now().Add(3 * time.Second)
				for !(arrived >= n && turn < len(perm) && perm[turn] == seq) && time.Now().Before(deadline) {
					// wake up periodically so a lost race cannot hang the harness
					go func() { time.Sleep(20 * time.Millisecond); cond.Broadcast() }()
					cond.Wait()
				}
				turn++
				cond.Broadcast()
				mu.Unlock()
			}
			ctx := context.WithValue(context.Background(), gateKey, gate)
			got, err := ZngReadAll(zed.NewContext(), data, ZReadOpts{Opts: zngio.ReaderOpts{Threads: n}, Scan: true, Ctx: ctx})
			c.Eval(fmt.Sprintf("sched/perm/%v", perm))
			c.Stat(fmt.Sprintf("sched:forced n=%d", n))
			if d := describe(want, got, err); d != "" {
				c.Fail("oracle", "C01:sched:"+failClass(d), fmt.Sprintf("threaded scanner, forced completion order %v: %s", perm, d), map[string]any{"sub": "sched", "perm": perm})
			}
			// the scanner model on the same schedule
			var acts []string
			for range perm {
				acts = append(acts, "d")
			}
			for _, k := range perm {
				acts = append(acts, fmt.Sprintf("(f %d)", k))
			}
			for range perm {
				acts = append(acts, "p")
			}
			flags := strings.TrimSpace(strings.Repeat("1 ", n))
			ans := c.ModelBigStack().Call(fmt.Sprintf("(C01 sched %d %d (%s) (%s))", n, n, flags, strings.Join(acts, " ")))
			c.Res.ModelCases++
			wantOrder := "("
			for k := 0; k < n; k++ {
				if k > 0 {
					wantOrder += " "
				}
				wantOrder += fmt.Sprint(k)
			}
			wantOrder += ")"
			if ans != wantOrder {
				c.Fail("correspondence", "C01:sched:model", fmt.Sprintf("scanner model delivered %s for completion order %v", ans, perm), map[string]any{"sub": "sched", "perm": perm})
			}
		}
	}
}

func permutations(n int) [][]int {
	var out [][]int
	var rec func(cur []int, used []bool)
	rec = func(cur []int, used []bool) {
		if len(cur) == n {
			out = append(out, append([]int{}, cur...))
			return
		}
		for i := 0; i < n; i++ {
			if !used[i] {
				used[i] = true
				rec(append(cur, i), used)
				used[i] = false
			}
		}
	}
	rec(nil, make([]bool, n))
	return out
}

// ---- main -----------------------------------------------------------------------------------

func run(c *Ctx) {
	c.Rule("a case = seeded value sequence over the whole type system (1–3 zed.Contexts, names rebound to different types, " +
		"unions/enums/errors/maps/sets/type values, nulls of every type, empty containers, boundary primitives, occasional 70 kB–600 kB bodies) " +
		"× writer options (compress, FrameThresh ∈ {1,2,3,7,16,33,64,100,256,1000,4096,65536,2^20,default}, EndStream positions incl. doubled and leading, " +
		"control frames, concatenation of independently written streams) × reader options (Threads ∈ {1,2,3,8,16}, Size ∈ {default,1,7,512}, source chunking, " +
		"Validate, Read vs Scanner); distinct = distinct (sub-check, seed, option tuple); trivial = empty sequence")
	if c.Replay != nil {
		var cs caseSpec
		if err := json.Unmarshal(c.Replay, &cs); err != nil || cs.Sub == "" || cs.Sub == "unit" || cs.Sub == "sched" {
			// unit/sched replays carry no case: re-run the whole sub-check
			var probe struct {
				Sub string `json:"sub"`
			}
			json.Unmarshal(c.Replay, &probe)
			if probe.Sub == "sched" {
				runSched(c)
			} else {
				runUnit(c)
			}
			return
		}
		runCase(c, cs, false)
		return
	}
	for _, raw := range c.CorpusCases() {
		var cs caseSpec
		if json.Unmarshal(raw, &cs) == nil && cs.Sub != "" && cs.Sub != "unit" && cs.Sub != "sched" {
			runCase(c, cs, true)
			c.Stat("corpus")
		}
	}
	if c.Want("unit") {
		runUnit(c)
	}
	r := c.Rng
	for _, sub := range []string{"r2m", "m2r", "oracle"} {
		if !c.Want(sub) {
			continue
		}
		n := map[string]int{"r2m": c.N(220, 3000), "m2r": c.N(220, 3000), "oracle": c.N(300, 5000)}[sub]
		for i := 0; i < n; i++ {
			runCase(c, randCase(r, sub, c.Thorough()), false)
		}
	}
	if c.Want("sched") {
		runSched(c)
	}
	if len(c.Res.Samples) == 0 {
		cs := randCase(rand.New(rand.NewSource(c.Seed)), "oracle", false)
		cs.NVals = 3
		vals := genVals(&cs)
		var ss []string
		for _, v := range vals {
			ss = append(ss, trunc(v.z.String()))
		}
		c.Sample(map[string]any{"case": cs, "values": ss})
	}
	_ = io.EOF
}
