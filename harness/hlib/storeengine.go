package hlib

// StoreEngine: an in-memory storage.Engine for the C12 / C17 checks (DESIGN.md §4 L5).
//
//   - several *client views* (one per lake handle) share one map path -> bytes;
//   - cooperative scheduler: in coop mode every engine call of a client on a *scheduled*
//     path class (journal files, lake magic, commit-object writes, prefix deletes) blocks
//     until the harness grants it, so exactly one client runs at any time and a run under
//     an explicit schedule is deterministic (no wall-clock dependence);
//   - fail-stop: client c's k-th storage operation (and everything after it) returns
//     ErrStoreCrashed without touching the store; with the create-then-fill put discipline
//     (Atomic=false) every create and every write chunk is an operation of its own and a
//     chunk can also be cut in the middle;
//   - a trace of (client, op, path, result, bytes).

import (
	"bytes"
	"context"
	"errors"
	"fmt"
	"io"
	"io/fs"
	"sort"
	"strings"
	"sync"
	"syscall"
	"time"

	"github.com/brimdata/super/pkg/storage"
)

var ErrStoreCrashed = errors.New("verif: storage client crashed (fail-stop)")

type StoreEvent struct {
	Client int
	Op     string // get put putx del delp exists size list | create write (non-atomic)
	Path   string // relative to the engine root
	Res    string // ok notfound exists crash
	Data   []byte // bytes written / read (kept for small files only)
	Sched  bool   // was a scheduling point
}

type storeReq struct {
	op, path string
	grant    chan struct{}
}

type storeClient struct {
	id      int
	yield   chan struct{}
	pending *storeReq
	running bool
	ops     int // storage operations issued so far (crash counter)
	crashAt int // 0 = never; k = the k-th operation fails
	// partialNum/partialDen: when the crashing operation is a write chunk, this fraction
	// of the chunk is still written (create-then-fill discipline only).
	partialNum, partialDen int
	crashed                bool
	// readOnly: writes succeed but are discarded (the observer handle must not leave derived
	// files such as journal / commit snapshots behind).
	readOnly bool
}

type StoreEngine struct {
	mu      sync.Mutex
	Root    *storage.URI
	files   map[string][]byte
	Trace   []StoreEvent
	Atomic  bool
	Coop    bool
	IsSched func(op, rel string) bool
	clients map[int]*storeClient
	Problem string // set when the harness-side protocol is broken (concurrent scheduled calls)
	NoTrace bool
	// open counts, per path, the create-then-fill puts that have created / truncated the file
	// and not yet closed it (Atomic=false only): the file may be read half-written.
	open map[string]int
}

func NewStoreEngine() *StoreEngine {
	return &StoreEngine{
		Root:    storage.MustParseURI("file:///vlake"),
		files:   map[string][]byte{},
		Atomic:  true,
		IsSched: DefaultStoreSched,
		clients: map[int]*storeClient{},
		open:    map[string]int{},
	}
}

// HalfWritten lists the paths that are being filled right now (create-then-fill discipline).
func (e *StoreEngine) HalfWritten() []string {
	e.mu.Lock()
	defer e.mu.Unlock()
	var out []string
	for p, n := range e.open {
		if n > 0 {
			out = append(out, p)
		}
	}
	sort.Strings(out)
	return out
}

// DefaultStoreSched: journal files, lake magic, commit object puts/deletes and prefix
// deletes are scheduling points; data objects, commit-object reads and commit snapshot
// files are not (they are immutable or private to their writer).
func DefaultStoreSched(op, rel string) bool {
	parts := strings.Split(rel, "/")
	if op == "delp" {
		// removal of a pool directory; prefix deletes below it (data.Writer.Abort) are private
		return len(parts) == 1
	}
	last := parts[len(parts)-1]
	if len(parts) == 1 {
		return true // lake.zng
	}
	if parts[0] == "pools" {
		return true
	}
	if len(parts) >= 3 && parts[1] == "branches" {
		return true
	}
	if len(parts) >= 3 && parts[1] == "commits" {
		if strings.HasSuffix(last, ".snap.zng") {
			return false
		}
		return op == "put" || op == "del" || op == "putx" || op == "create" || op == "write"
	}
	return false
}

func (e *StoreEngine) client(id int) *storeClient {
	c := e.clients[id]
	if c == nil {
		c = &storeClient{id: id, yield: make(chan struct{}, 4)}
		e.clients[id] = c
	}
	return c
}

// Client returns the storage.Engine view of client id.
func (e *StoreEngine) Client(id int) storage.Engine {
	e.mu.Lock()
	defer e.mu.Unlock()
	return &storeView{e: e, c: e.client(id)}
}

// SetReadOnly makes every write of client id a successful no-op.
func (e *StoreEngine) SetReadOnly(id int, ro bool) {
	e.mu.Lock()
	defer e.mu.Unlock()
	e.client(id).readOnly = ro
}

// CrashAt arms fail-stop for client id at its k-th operation counted from now.
func (e *StoreEngine) CrashAt(id, k, partialNum, partialDen int) {
	e.mu.Lock()
	defer e.mu.Unlock()
	c := e.client(id)
	c.ops = 0
	c.crashAt = k
	c.partialNum, c.partialDen = partialNum, partialDen
	c.crashed = false
}

func (e *StoreEngine) Crashed(id int) bool {
	e.mu.Lock()
	defer e.mu.Unlock()
	return e.client(id).crashed
}

// Ops returns the number of storage operations client id issued since the last CrashAt / ResetOps.
func (e *StoreEngine) Ops(id int) int {
	e.mu.Lock()
	defer e.mu.Unlock()
	return e.client(id).ops
}

func (e *StoreEngine) ResetOps(id int) {
	e.mu.Lock()
	defer e.mu.Unlock()
	c := e.client(id)
	c.ops, c.crashAt, c.crashed = 0, 0, false
}

// Snapshot / Restore copy the whole store (used to fork a history at a crash point).
func (e *StoreEngine) Snapshot() map[string][]byte {
	e.mu.Lock()
	defer e.mu.Unlock()
	m := make(map[string][]byte, len(e.files))
	for k, v := range e.files {
		m[k] = v
	}
	return m
}

func (e *StoreEngine) Restore(m map[string][]byte) {
	e.mu.Lock()
	defer e.mu.Unlock()
	e.files = make(map[string][]byte, len(m))
	for k, v := range m {
		e.files[k] = v
	}
}

func (e *StoreEngine) Paths() []string {
	e.mu.Lock()
	defer e.mu.Unlock()
	var out []string
	for k := range e.files {
		out = append(out, k)
	}
	sort.Strings(out)
	return out
}

func (e *StoreEngine) File(rel string) ([]byte, bool) {
	e.mu.Lock()
	defer e.mu.Unlock()
	b, ok := e.files[rel]
	return b, ok
}

func (e *StoreEngine) SetFile(rel string, b []byte) {
	e.mu.Lock()
	defer e.mu.Unlock()
	e.files[rel] = b
}

func (e *StoreEngine) TraceLen() int {
	e.mu.Lock()
	defer e.mu.Unlock()
	return len(e.Trace)
}

func (e *StoreEngine) TraceFrom(n int) []StoreEvent {
	e.mu.Lock()
	defer e.mu.Unlock()
	return append([]StoreEvent(nil), e.Trace[n:]...)
}

// ---- cooperative scheduler (harness side) ---------------------------------------------

const storeStuckTimeout = 60 * time.Second

// StartOp runs fn as client id's current API operation in its own goroutine and returns
// when the client is blocked at its first scheduled storage call or has finished.
func (e *StoreEngine) StartOp(id int, fn func()) error {
	e.mu.Lock()
	c := e.client(id)
	if c.running {
		e.mu.Unlock()
		return fmt.Errorf("client %d already running", id)
	}
	c.running = true
	e.mu.Unlock()
	go func() {
		defer func() {
			e.mu.Lock()
			c.running = false
			e.mu.Unlock()
			c.yield <- struct{}{}
		}()
		fn()
	}()
	return e.waitYield(c)
}

func (e *StoreEngine) waitYield(c *storeClient) error {
	select {
	case <-c.yield:
		return nil
	case <-time.After(storeStuckTimeout):
		return fmt.Errorf("client %d neither reached a storage call nor finished within %s", c.id, storeStuckTimeout)
	}
}

// Pending reports the scheduled call client id is blocked at ("" when it is not blocked).
func (e *StoreEngine) Pending(id int) (op, path string, blocked bool) {
	e.mu.Lock()
	defer e.mu.Unlock()
	c := e.client(id)
	if c.pending == nil {
		return "", "", false
	}
	return c.pending.op, c.pending.path, true
}

func (e *StoreEngine) Running(id int) bool {
	e.mu.Lock()
	defer e.mu.Unlock()
	return e.client(id).running
}

// Step grants client id's pending call and returns when the client is blocked again or
// has finished its operation.
func (e *StoreEngine) Step(id int) error {
	e.mu.Lock()
	c := e.client(id)
	p := c.pending
	c.pending = nil
	e.mu.Unlock()
	if p == nil {
		return fmt.Errorf("client %d has no pending storage call", id)
	}
	close(p.grant)
	return e.waitYield(c)
}

// ---- the engine view -------------------------------------------------------------------

type storeView struct {
	e *StoreEngine
	c *storeClient
}

var _ storage.Engine = (*storeView)(nil)

func (v *storeView) rel(u *storage.URI) string {
	return strings.TrimPrefix(strings.TrimPrefix(u.Path, v.e.Root.Path), "/")
}

// gate is called at the start of every storage operation.  It blocks at scheduling
// points, counts the operation and decides whether the client crashes here.
func (v *storeView) gate(op, rel string) (sched bool, crash bool) {
	e, c := v.e, v.c
	e.mu.Lock()
	if c.crashed {
		e.mu.Unlock()
		return false, true
	}
	coop := e.Coop && c.running && e.IsSched(op, rel)
	if coop {
		if c.pending != nil {
			e.Problem = fmt.Sprintf("client %d issued scheduled call %s %s while %s %s is pending", c.id, op, rel, c.pending.op, c.pending.path)
			e.mu.Unlock()
			return false, false
		}
		req := &storeReq{op: op, path: rel, grant: make(chan struct{})}
		c.pending = req
		e.mu.Unlock()
		c.yield <- struct{}{}
		<-req.grant
		e.mu.Lock()
	}
	c.ops++
	if c.crashAt > 0 && c.ops >= c.crashAt {
		c.crashed = true
		e.mu.Unlock()
		return coop, true
	}
	e.mu.Unlock()
	return coop, false
}

func (v *storeView) record(op, rel, res string, data []byte, sched bool) {
	if v.e.NoTrace {
		return
	}
	if len(data) > 4096 {
		data = nil
	}
	v.e.Trace = append(v.e.Trace, StoreEvent{Client: v.c.id, Op: op, Path: rel, Res: res, Data: data, Sched: sched})
}

func notFound(u *storage.URI) error { return fmt.Errorf("%s: %w", u, fs.ErrNotExist) }

type memReader struct {
	*bytes.Reader
	n int64
}

func (m *memReader) Close() error         { return nil }
func (m *memReader) Size() (int64, error) { return m.n, nil }

func (v *storeView) Get(ctx context.Context, u *storage.URI) (storage.Reader, error) {
	rel := v.rel(u)
	sched, crash := v.gate("get", rel)
	v.e.mu.Lock()
	defer v.e.mu.Unlock()
	if crash {
		v.record("get", rel, "crash", nil, sched)
		return nil, ErrStoreCrashed
	}
	b, ok := v.e.files[rel]
	if !ok {
		v.record("get", rel, "notfound", nil, sched)
		return nil, notFound(u)
	}
	v.record("get", rel, "ok", b, sched)
	return &memReader{bytes.NewReader(b), int64(len(b))}, nil
}

type memWriter struct {
	v      *storeView
	u      *storage.URI
	rel    string
	buf    bytes.Buffer
	closed bool
	dead   bool
	opened bool // counted in StoreEngine.open
}

func (w *memWriter) Write(p []byte) (int, error) {
	v := w.v
	if w.dead {
		return 0, ErrStoreCrashed
	}
	if v.e.Atomic {
		// nothing reaches the store before Close
		v.e.mu.Lock()
		dead := v.c.crashed
		v.e.mu.Unlock()
		if dead {
			w.dead = true
			return 0, ErrStoreCrashed
		}
		return w.buf.Write(p)
	}
	sched, crash := v.gate("write", w.rel)
	v.e.mu.Lock()
	defer v.e.mu.Unlock()
	if crash {
		w.dead = true
		n := 0
		if v.c.partialDen > 0 && v.c.ops == v.c.crashAt {
			n = len(p) * v.c.partialNum / v.c.partialDen
			v.e.files[w.rel] = append(append([]byte(nil), v.e.files[w.rel]...), p[:n]...)
		}
		v.record("write", w.rel, fmt.Sprintf("crash:%d/%d", n, len(p)), nil, sched)
		return n, ErrStoreCrashed
	}
	if !v.c.readOnly {
		v.e.files[w.rel] = append(append([]byte(nil), v.e.files[w.rel]...), p...)
	}
	v.record("write", w.rel, "ok", p, sched)
	return len(p), nil
}

func (w *memWriter) Close() error {
	if w.closed {
		return nil
	}
	w.closed = true
	v := w.v
	v.e.mu.Lock()
	if w.opened {
		v.e.open[w.rel]--
		w.opened = false
	}
	v.e.mu.Unlock()
	if w.dead {
		return ErrStoreCrashed
	}
	if !v.e.Atomic {
		return nil
	}
	sched, crash := v.gate("put", w.rel)
	v.e.mu.Lock()
	defer v.e.mu.Unlock()
	if crash {
		v.record("put", w.rel, "crash", nil, sched)
		return ErrStoreCrashed
	}
	b := append([]byte(nil), w.buf.Bytes()...)
	if !v.c.readOnly {
		v.e.files[w.rel] = b
	}
	v.record("put", w.rel, "ok", b, sched)
	return nil
}

func (v *storeView) Put(ctx context.Context, u *storage.URI) (io.WriteCloser, error) {
	rel := v.rel(u)
	w := &memWriter{v: v, u: u, rel: rel}
	if v.e.Atomic {
		v.e.mu.Lock()
		dead := v.c.crashed
		v.e.mu.Unlock()
		if dead {
			return nil, ErrStoreCrashed
		}
		return w, nil
	}
	sched, crash := v.gate("create", rel)
	v.e.mu.Lock()
	defer v.e.mu.Unlock()
	if crash {
		v.record("create", rel, "crash", nil, sched)
		return nil, ErrStoreCrashed
	}
	if !v.c.readOnly {
		v.e.files[rel] = nil // O_CREATE|O_TRUNC
		v.e.open[rel]++
		w.opened = true
	}
	v.record("create", rel, "ok", nil, sched)
	return w, nil
}

func existsErr(rel string) error {
	return &fs.PathError{Op: "open", Path: rel, Err: syscall.EEXIST}
}

func (v *storeView) PutIfNotExists(ctx context.Context, u *storage.URI, b []byte) error {
	rel := v.rel(u)
	if v.e.Atomic {
		sched, crash := v.gate("putx", rel)
		v.e.mu.Lock()
		defer v.e.mu.Unlock()
		if crash {
			v.record("putx", rel, "crash", b, sched)
			return ErrStoreCrashed
		}
		if _, ok := v.e.files[rel]; ok {
			v.record("putx", rel, "exists", b, sched)
			return existsErr(rel)
		}
		if !v.c.readOnly {
			v.e.files[rel] = append([]byte(nil), b...)
		}
		v.record("putx", rel, "ok", b, sched)
		return nil
	}
	// file engine discipline: O_EXCL create, then one write
	sched, crash := v.gate("createx", rel)
	v.e.mu.Lock()
	if crash {
		v.record("createx", rel, "crash", nil, sched)
		v.e.mu.Unlock()
		return ErrStoreCrashed
	}
	if _, ok := v.e.files[rel]; ok {
		v.record("createx", rel, "exists", nil, sched)
		v.e.mu.Unlock()
		return existsErr(rel)
	}
	w := &memWriter{v: v, u: u, rel: rel}
	if !v.c.readOnly {
		v.e.files[rel] = nil
		v.e.open[rel]++
		w.opened = true
	}
	v.record("createx", rel, "ok", nil, sched)
	v.e.mu.Unlock()
	_, err := w.Write(b)
	w.Close()
	return err
}

func (v *storeView) Delete(ctx context.Context, u *storage.URI) error {
	rel := v.rel(u)
	sched, crash := v.gate("del", rel)
	v.e.mu.Lock()
	defer v.e.mu.Unlock()
	if crash {
		v.record("del", rel, "crash", nil, sched)
		return ErrStoreCrashed
	}
	if _, ok := v.e.files[rel]; !ok {
		v.record("del", rel, "notfound", nil, sched)
		return notFound(u)
	}
	if !v.c.readOnly {
		delete(v.e.files, rel)
	}
	v.record("del", rel, "ok", nil, sched)
	return nil
}

func (v *storeView) DeleteByPrefix(ctx context.Context, u *storage.URI) error {
	rel := v.rel(u)
	sched, crash := v.gate("delp", rel)
	v.e.mu.Lock()
	defer v.e.mu.Unlock()
	if crash {
		v.record("delp", rel, "crash", nil, sched)
		return ErrStoreCrashed
	}
	for k := range v.e.files {
		if !v.c.readOnly && (k == rel || strings.HasPrefix(k, rel+"/")) {
			delete(v.e.files, k)
		}
	}
	v.record("delp", rel, "ok", nil, sched)
	return nil
}

func (v *storeView) Exists(ctx context.Context, u *storage.URI) (bool, error) {
	rel := v.rel(u)
	sched, crash := v.gate("exists", rel)
	v.e.mu.Lock()
	defer v.e.mu.Unlock()
	if crash {
		v.record("exists", rel, "crash", nil, sched)
		return false, ErrStoreCrashed
	}
	_, ok := v.e.files[rel]
	if !ok {
		for k := range v.e.files {
			if strings.HasPrefix(k, rel+"/") {
				ok = true
				break
			}
		}
	}
	v.record("exists", rel, fmt.Sprint(ok), nil, sched)
	return ok, nil
}

func (v *storeView) Size(ctx context.Context, u *storage.URI) (int64, error) {
	rel := v.rel(u)
	sched, crash := v.gate("size", rel)
	v.e.mu.Lock()
	defer v.e.mu.Unlock()
	if crash {
		v.record("size", rel, "crash", nil, sched)
		return 0, ErrStoreCrashed
	}
	b, ok := v.e.files[rel]
	if !ok {
		v.record("size", rel, "notfound", nil, sched)
		return 0, notFound(u)
	}
	v.record("size", rel, "ok", nil, sched)
	return int64(len(b)), nil
}

func (v *storeView) List(ctx context.Context, u *storage.URI) ([]storage.Info, error) {
	rel := v.rel(u)
	sched, crash := v.gate("list", rel)
	v.e.mu.Lock()
	defer v.e.mu.Unlock()
	if crash {
		v.record("list", rel, "crash", nil, sched)
		return nil, ErrStoreCrashed
	}
	seen := map[string]int64{}
	found := false
	for k, b := range v.e.files {
		if !strings.HasPrefix(k, rel+"/") {
			continue
		}
		found = true
		rest := strings.TrimPrefix(k, rel+"/")
		if i := strings.IndexByte(rest, '/'); i >= 0 {
			seen[rest[:i]] = 0
		} else {
			seen[rest] = int64(len(b))
		}
	}
	if !found {
		v.record("list", rel, "notfound", nil, sched)
		return nil, notFound(u)
	}
	var names []string
	for n := range seen {
		names = append(names, n)
	}
	sort.Strings(names)
	out := make([]storage.Info, len(names))
	for i, n := range names {
		out[i] = storage.Info{Name: n, Size: seen[n]}
	}
	v.record("list", rel, "ok", nil, sched)
	return out, nil
}
