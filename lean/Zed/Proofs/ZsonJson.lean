import Zed.Model.ZsonJson
/-!
  C02 — JSON ⊂ ZSON: `normalizeElems` never fails, objects without repeated keys are read
  alike by both readers, nothing the JSON reader builds has a named type.
-/
namespace Zed.Zson.Json
open Zed.Zson Zed.Generated

theorem mem_insertUniq (x : Ty) : (l : List Ty) → x ∈ insertUniq x l ∧ ∀ y ∈ l, y ∈ insertUniq x l
  | [] => by simp [insertUniq]
  | z :: r => by
    unfold insertUniq
    by_cases h1 : x = z
    · subst h1; simp
    · by_cases h2 : tyCmp x z = .lt
      · simp only [h1, h2, if_false, if_true]
        exact ⟨List.mem_cons_self .., fun y hy => List.mem_cons_of_mem _ hy⟩
      · have ih := mem_insertUniq x r
        simp only [h1, h2, if_false]
        refine ⟨List.mem_cons_of_mem _ ih.1, fun y hy => ?_⟩
        rcases List.mem_cons.mp hy with rfl | h
        · exact List.mem_cons_self ..
        · exact List.mem_cons_of_mem _ (ih.2 y h)

theorem mem_foldl_insertUniq : (L : List Ty) → (acc : List Ty) →
    (∀ y ∈ acc, y ∈ L.foldl (fun a t => insertUniq t a) acc) ∧
    (∀ x ∈ L, x ∈ L.foldl (fun a t => insertUniq t a) acc)
  | [], acc => by simp
  | x :: r, acc => by
    simp only [List.foldl]
    have ih := mem_foldl_insertUniq r (insertUniq x acc)
    have hx := mem_insertUniq x acc
    refine ⟨fun y hy => ih.1 y (hx.2 y hy), fun z hz => ?_⟩
    rcases List.mem_cons.mp hz with rfl | h
    · exact ih.1 _ hx.1
    · exact ih.2 z h

theorem mem_insertDup (x : Ty) : (l : List Ty) → x ∈ insertDup x l ∧ ∀ y ∈ l, y ∈ insertDup x l
  | [] => by simp [insertDup]
  | z :: r => by
    unfold insertDup
    by_cases h2 : tyCmp x z = .lt
    · simp only [h2, if_true]
      exact ⟨List.mem_cons_self .., fun y hy => List.mem_cons_of_mem _ hy⟩
    · have ih := mem_insertDup x r
      simp only [h2, if_false]
      refine ⟨List.mem_cons_of_mem _ ih.1, fun y hy => ?_⟩
      rcases List.mem_cons.mp hy with rfl | h
      · exact List.mem_cons_self ..
      · exact List.mem_cons_of_mem _ (ih.2 y h)

theorem mem_foldr_insertDup : (L : List Ty) → ∀ x ∈ L, x ∈ L.foldr insertDup []
  | [], x, h => by simp at h
  | z :: r, x, h => by
    simp only [List.foldr]
    rcases List.mem_cons.mp h with rfl | h2
    · exact (mem_insertDup _ _).1
    · exact (mem_insertDup _ _).2 x (mem_foldr_insertDup r x h2)

theorem indexOf_of_mem : (ts : Tys) → (m : Ty) → m ∈ ts.toList → ∃ k, ts.indexOf m = some k
  | .nil, m, h => by simp [Tys.toList] at h
  | .cons t r, m, h => by
    unfold Tys.indexOf
    by_cases ht : t = m
    · exact ⟨0, by simp [ht]⟩
    · have hm : m ∈ r.toList := by
        rcases List.mem_cons.mp (by simpa [Tys.toList] using h) with h1 | h1
        · exact absurd h1.symm ht
        · exact h1
      obtain ⟨k, hk⟩ := indexOf_of_mem r m hm
      exact ⟨k + 1, by simp [ht, hk]⟩

theorem mapM_ok_of_forall {α β} (f : α → Except Err β) : (l : List α) → (∀ x ∈ l, ∃ y, f x = .ok y) →
    ∃ ys, l.mapM f = .ok ys
  | [], _ => ⟨[], rfl⟩
  | x :: r, h => by
    obtain ⟨y, hy⟩ := h x (by simp)
    obtain ⟨ys, hys⟩ := mapM_ok_of_forall f r (fun z hz => h z (by simp [hz]))
    exact ⟨y :: ys, by simp [List.mapM_cons, hy, hys, bind, Except.bind, pure, Except.pure]⟩

/-- `normalizeElems` cannot fail: every non-null element type is a member of the union it
    builds. -/
theorem normalizeElems_ok (tvs : List TV) : ∃ r, normalizeElems tvs = .ok r := by
  unfold normalizeElems
  generalize hu : uniqueTypes (tvs.map (·.1)) = us
  match us, hu with
  | [], _ => exact ⟨_, rfl⟩
  | [t], _ => exact ⟨_, rfl⟩
  | a :: b :: rest, hu =>
    simp only [lookupUnion]
    generalize hM : Tys.ofList (List.foldr insertDup [] (a :: b :: rest)) = M
    have hmem : ∀ tv ∈ tvs, tv.1 = tyNull ∨ tv.1 ∈ M.toList := by
      intro tv htv
      by_cases hn : tv.1 = tyNull
      · exact Or.inl hn
      · right
        rw [← hM, Tys.toList_ofList]
        apply mem_foldr_insertDup
        rw [← hu]
        unfold uniqueTypes
        apply (mem_foldl_insertUniq _ []).2
        apply List.mem_filter.mpr
        exact ⟨List.mem_map.mpr ⟨tv, htv, rfl⟩, by simpa using hn⟩
    obtain ⟨vs, hvs⟩ := mapM_ok_of_forall
      (fun tv => (convertUnion tv M (.union M)).map (·.2)) tvs (by
        intro tv htv
        rcases hmem tv htv with h | h
        · exact ⟨Val.null, by simp [convertUnion, h, Except.map]⟩
        · by_cases hn : tv.1 = tyNull
          · exact ⟨Val.null, by simp [convertUnion, hn, Except.map]⟩
          · obtain ⟨k, hk⟩ := indexOf_of_mem _ _ h
            exact ⟨Val.union k tv.2, by simp [convertUnion, hn, hk, Except.map]⟩)
    exact ⟨(vs, .union M), by simp only [hvs, bind, Except.bind, pure, Except.pure]⟩


theorem lookup_tables :
    lookupPrimitive (ascii "null") = some C02.idNull ∧ lookupPrimitive (ascii "bool") = some idBool ∧
    lookupPrimitive (ascii "int64") = some idInt64 ∧ lookupPrimitive (ascii "float64") = some idFloat64 ∧
    lookupPrimitive (ascii "string") = some idString ∧ idBool ≠ C02.idNull ∧ idInt64 ≠ C02.idNull ∧
    idFloat64 ≠ C02.idNull ∧ idString ≠ C02.idNull := by decide

theorem lastOf_none (n : Name) : (l : List (Name × TV)) → n ∉ l.map (·.1) → lastOf n l = none
  | [], _ => rfl
  | (m, x) :: r, h => by
    simp only [List.map_cons, List.mem_cons, not_or] at h
    have hmn : m ≠ n := fun e => h.1 e.symm
    simp [lastOf, lastOf_none n r h.2, hmn]

theorem keys_build : (fs : JFields) → (jsonBuildFields fs).map (·.1) = fs.keys
  | .nil => rfl
  | .cons n x r => by simp [jsonBuildFields, JFields.keys, keys_build r]

theorem dedupLast_nodup : (fs : JFields) → (seen : List Name) → fs.keys.Nodup → (∀ k ∈ fs.keys, k ∉ seen) →
    dedupLast (jsonBuildFields fs) seen = jsonBuildFields fs
  | .nil, _, _, _ => rfl
  | .cons n x r, seen, hn, hs => by
    simp only [JFields.keys, List.nodup_cons] at hn
    have h1 : n ∉ seen := hs n (by simp [JFields.keys])
    have h2 : lastOf n (jsonBuildFields r) = none := lastOf_none n _ (by rw [keys_build]; exact hn.1)
    have ih := dedupLast_nodup r (n :: seen) hn.2 (by
      intro k hk
      simp only [List.mem_cons, not_or]
      exact ⟨fun e => hn.1 (e ▸ hk), hs k (by simp [JFields.keys, hk])⟩)
    simp [jsonBuildFields, dedupLast, h1, h2, ih]

theorem mkFields_names : (ns : List Name) → (ts : List Ty) → ns.length = ts.length → (mkFields ns ts).names = ns
  | [], [], _ => rfl
  | n :: ns, t :: ts, h => by
    simp only [List.length_cons, Nat.add_right_cancel_iff] at h
    simp [mkFields, Fields.names, mkFields_names ns ts h]
  | [], _ :: _, h => by simp at h
  | _ :: _, [], h => by simp at h

theorem mkFields_hasDup : (ns : List Name) → (ts : List Ty) → ns.length = ts.length → ns.Nodup →
    (mkFields ns ts).hasDup = false
  | [], [], _, _ => rfl
  | n :: ns, t :: ts, h, hn => by
    simp only [List.length_cons, Nat.add_right_cancel_iff] at h
    simp only [List.nodup_cons] at hn
    simp [mkFields, Fields.hasDup, mkFields_names ns ts h, hn.1, mkFields_hasDup ns ts h hn.2]
  | [], _ :: _, h, _ => by simp at h
  | _ :: _, [], h, _ => by simp at h

theorem build_length : (fs : JFields) → (jsonBuildFields fs).length = fs.keys.length
  | .nil => rfl
  | .cons _ _ r => by simp [jsonBuildFields, JFields.keys, build_length r]

mutual
theorem json_core : (j : J) → jsonGuard j = true → ∀ st, convertValue st (toAst j) none = .ok (st, jsonBuild j)
  | .null, _, st => by
    simp [toAst, convertValue, viaUnion, convertAny, lookup_tables.1, jsonBuild, tyNull]
  | .bool b, _, st => by
    simp [toAst, convertValue, viaUnion, convertAny, lookup_tables.2.1, jsonBuild, lookup_tables.2.2.2.2.2.1]
  | .num src ci cf, h, st => by
    simp only [jsonGuard, bne_iff_ne, ne_eq] at h
    cases hc : numClass src with
    | uint64 => exact absurd hc h
    | int64 =>
      simp [toAst, numAst, hc, convertValue, viaUnion, convertAny, lookup_tables.2.2.1, jsonBuild,
        lookup_tables.2.2.2.2.2.2.1]
    | float =>
      simp [toAst, numAst, hc, convertValue, viaUnion, convertAny, lookup_tables.2.2.2.1, jsonBuild,
        lookup_tables.2.2.2.2.2.2.2.1]
  | .str s, _, st => by
    simp [toAst, convertValue, viaUnion, convertAny, lookup_tables.2.2.2.2.1, jsonBuild,
      lookup_tables.2.2.2.2.2.2.2.2]
  | .arr xs, h, st => by
    simp only [jsonGuard] at h
    have hl := json_list xs h st
    simp only [toAst, convertValue, viaUnion, convertAny, hl, bind, Except.bind, pure, Except.pure, jsonBuild]
    obtain ⟨⟨vals, inner⟩, hn⟩ := normalizeElems_ok (jsonBuildList xs)
    by_cases he : (jsonBuildList xs).isEmpty = true
    · have : jsonBuildList xs = [] := by simpa using he
      simp [this, normalizeElems, uniqueTypes, Vals.ofList]
    · simp [he, hn]
  | .obj fs, h, st => by
    simp only [jsonGuard, Bool.and_eq_true, decide_eq_true_eq] at h
    obtain ⟨hf, hnames⟩ := json_fields fs h.1 st [] h.2 (by simp)
    have hd := dedupLast_nodup fs [] h.2 (by simp)
    have hdup : (mkFields fs.keys ((jsonBuildFields fs).map (·.2.1))).hasDup = false :=
      mkFields_hasDup _ _ (by simp [build_length]) h.2
    simp only [toAst, convertValue, viaUnion, convertAny, hf, hnames, bind, Except.bind, pure, Except.pure,
      jsonBuild, hd, keys_build, List.map_map, Function.comp_def, hdup]
    simp
theorem json_list : (xs : JList) → jsonGuardList xs = true → ∀ st,
    convertElems st (toAstList xs) none = .ok (st, jsonBuildList xs)
  | .nil, _, st => by simp [toAstList, convertElems, jsonBuildList]
  | .cons x r, h, st => by
    simp only [jsonGuardList, Bool.and_eq_true] at h
    simp [toAstList, convertElems, json_core x h.1 st, json_list r h.2 st, jsonBuildList, bind, Except.bind,
      pure, Except.pure]
theorem json_fields : (fs : JFields) → jsonGuardFields fs = true → ∀ st (seen : List Name),
    fs.keys.Nodup → (∀ k ∈ fs.keys, k ∉ seen) →
    convertFields st (toAstFields fs seen) none = .ok (st, (jsonBuildFields fs).map (·.2)) ∧
    (toAstFields fs seen).names = fs.keys
  | .nil, _, st, _, _, _ => by simp [toAstFields, convertFields, jsonBuildFields, AVFields.names, JFields.keys]
  | .cons n x r, h, st, seen, hn, hs => by
    simp only [jsonGuardFields, Bool.and_eq_true] at h
    simp only [JFields.keys, List.nodup_cons] at hn
    have h1 : n ∉ seen := hs n (by simp [JFields.keys])
    have ih := json_fields r h.2 st (n :: seen) hn.2 (by
      intro k hk
      simp only [List.mem_cons, not_or]
      exact ⟨fun e => hn.1 (e ▸ hk), hs k (by simp [JFields.keys, hk])⟩)
    simp [toAstFields, h1, convertFields, json_core x h.1 st, ih.1, ih.2, jsonBuildFields, AVFields.names,
      JFields.keys, bind, Except.bind, pure, Except.pure]
end


/-! ### no named types in what the JSON reader builds, hence nothing to re-wrap -/

mutual
def noNamedTy : Ty → Bool
  | .prim _ => true
  | .record fs => noNamedFields fs
  | .array t => noNamedTy t
  | .set t => noNamedTy t
  | .map k v => noNamedTy k && noNamedTy v
  | .union ts => noNamedTys ts
  | .enum _ => true
  | .error t => noNamedTy t
  | .named _ _ => false
def noNamedFields : Fields → Bool
  | .nil => true
  | .cons _ t r => noNamedTy t && noNamedFields r
def noNamedTys : Tys → Bool
  | .nil => true
  | .cons t r => noNamedTy t && noNamedTys r
end

theorem mapV_id (f : Val → Val) (h : ∀ v, f v = v) : (vs : Vals) → vs.mapV f = vs
  | .nil => rfl
  | .cons v r => by simp [Vals.mapV, h v, mapV_id f h r]

theorem mapKV_id (f g : Val → Val) (hf : ∀ v, f v = v) (hg : ∀ v, g v = v) : (es : Entries) → es.mapKV f g = es
  | .nil => rfl
  | .cons k v r => by simp [Entries.mapKV, hf k, hg v, mapKV_id f g hf hg r]

mutual
theorem wrapAll_noNamed : (t : Ty) → noNamedTy t = true → ∀ v, wrapAll t v = v
  | .prim _, _, v => by cases v <;> simp [wrapAll]
  | .enum _, _, v => by cases v <;> simp [wrapAll]
  | .named _ _, h, _ => by simp [noNamedTy] at h
  | .record fs, h, v => by
    simp only [noNamedTy] at h
    cases v <;> simp [wrapAll, wrapFields_noNamed fs h]
  | .array t, h, v => by
    simp only [noNamedTy] at h
    cases v <;> simp [wrapAll, mapV_id _ (wrapAll_noNamed t h)]
  | .set t, h, v => by
    simp only [noNamedTy] at h
    cases v <;> simp [wrapAll, mapV_id _ (wrapAll_noNamed t h)]
  | .map k x, h, v => by
    simp only [noNamedTy, Bool.and_eq_true] at h
    cases v <;> simp [wrapAll, mapKV_id _ _ (wrapAll_noNamed k h.1) (wrapAll_noNamed x h.2)]
  | .union ts, h, v => by
    simp only [noNamedTy] at h
    cases v <;> simp [wrapAll, wrapMember_noNamed ts h]
  | .error t, h, v => by
    simp only [noNamedTy] at h
    cases v <;> simp [wrapAll, wrapAll_noNamed t h]
theorem wrapFields_noNamed : (fs : Fields) → noNamedFields fs = true → ∀ vs, wrapFields fs vs = vs
  | .nil, _, vs => by cases vs <;> simp [wrapFields]
  | .cons _ t r, h, vs => by
    simp only [noNamedFields, Bool.and_eq_true] at h
    cases vs <;> simp [wrapFields, wrapAll_noNamed t h.1, wrapFields_noNamed r h.2]
theorem wrapMember_noNamed : (ts : Tys) → noNamedTys ts = true → ∀ n v, wrapMember ts n v = v
  | .nil, _, _, _ => by simp [wrapMember]
  | .cons t r, h, n, v => by
    simp only [noNamedTys, Bool.and_eq_true] at h
    cases n <;> simp [wrapMember, wrapAll_noNamed t h.1, wrapMember_noNamed r h.2]
end

theorem mem_insertUniq_rev (x : Ty) : (l : List Ty) → ∀ y ∈ insertUniq x l, y = x ∨ y ∈ l
  | [], y, h => by simp [insertUniq] at h; exact Or.inl h
  | z :: r, y, h => by
    unfold insertUniq at h
    by_cases h1 : x = z
    · simp only [h1, if_true] at h; exact Or.inr h
    · by_cases h2 : tyCmp x z = .lt
      · simp only [h1, h2, if_false, if_true] at h
        rcases List.mem_cons.mp h with e | e
        · exact Or.inl e
        · exact Or.inr e
      · simp only [h1, h2, if_false] at h
        rcases List.mem_cons.mp h with e | e
        · exact Or.inr (e ▸ List.mem_cons_self ..)
        · rcases mem_insertUniq_rev x r y e with e2 | e2
          · exact Or.inl e2
          · exact Or.inr (List.mem_cons_of_mem _ e2)

theorem mem_foldl_insertUniq_rev : (L acc : List Ty) → ∀ y ∈ L.foldl (fun a t => insertUniq t a) acc, y ∈ acc ∨ y ∈ L
  | [], acc, y, h => Or.inl h
  | x :: r, acc, y, h => by
    simp only [List.foldl] at h
    rcases mem_foldl_insertUniq_rev r _ y h with e | e
    · rcases mem_insertUniq_rev x acc y e with e2 | e2
      · exact Or.inr (e2 ▸ List.mem_cons_self ..)
      · exact Or.inl e2
    · exact Or.inr (List.mem_cons_of_mem _ e)

theorem mem_insertDup_rev (x : Ty) : (l : List Ty) → ∀ y ∈ insertDup x l, y = x ∨ y ∈ l
  | [], y, h => by simp [insertDup] at h; exact Or.inl h
  | z :: r, y, h => by
    unfold insertDup at h
    by_cases h2 : tyCmp x z = .lt
    · simp only [h2, if_true] at h
      rcases List.mem_cons.mp h with e | e
      · exact Or.inl e
      · exact Or.inr e
    · simp only [h2, if_false] at h
      rcases List.mem_cons.mp h with e | e
      · exact Or.inr (e ▸ List.mem_cons_self ..)
      · rcases mem_insertDup_rev x r y e with e2 | e2
        · exact Or.inl e2
        · exact Or.inr (List.mem_cons_of_mem _ e2)

theorem mem_foldr_insertDup_rev : (L : List Ty) → ∀ y ∈ L.foldr insertDup [], y ∈ L
  | [], y, h => by simp at h
  | z :: r, y, h => by
    simp only [List.foldr] at h
    rcases mem_insertDup_rev z _ y h with e | e
    · exact e ▸ List.mem_cons_self ..
    · exact List.mem_cons_of_mem _ (mem_foldr_insertDup_rev r y e)

theorem noNamedTys_of_mem : (l : List Ty) → (∀ t ∈ l, noNamedTy t = true) → noNamedTys (Tys.ofList l) = true
  | [], _ => rfl
  | t :: r, h => by
    simp [Tys.ofList, noNamedTys, h t (by simp), noNamedTys_of_mem r (fun x hx => h x (by simp [hx]))]

/-- the element type `normalizeElems` computes has no named type if no element type has. -/
theorem normalizeElems_noNamed (tvs : List TV) (h : ∀ tv ∈ tvs, noNamedTy tv.1 = true)
    (vals : List Val) (inner : Ty) (hn : normalizeElems tvs = .ok (vals, inner)) : noNamedTy inner = true := by
  unfold normalizeElems at hn
  have hu : ∀ t ∈ uniqueTypes (tvs.map (·.1)), noNamedTy t = true := by
    intro t ht
    unfold uniqueTypes at ht
    rcases mem_foldl_insertUniq_rev _ [] t ht with e | e
    · simp at e
    · obtain ⟨tv, htv, rfl⟩ := List.mem_map.mp (List.mem_filter.mp e).1
      exact h tv htv
  generalize uniqueTypes (tvs.map (·.1)) = us at hn hu
  match us, hu with
  | [], _ => simp at hn; rw [← hn.2]; rfl
  | [t], hu => simp at hn; rw [← hn.2]; exact hu t (by simp)
  | a :: b :: rest, hu =>
    simp only [lookupUnion] at hn
    generalize hM : Tys.ofList (List.foldr insertDup [] (a :: b :: rest)) = M at hn
    cases hmm : tvs.mapM (fun tv => (convertUnion tv M (.union M)).map (·.2)) with
    | error e => simp [hmm, bind, Except.bind] at hn
    | ok vs =>
      simp [hmm, bind, Except.bind, pure, Except.pure] at hn
      rw [← hn.2, ← hM]
      simp only [noNamedTy]
      exact noNamedTys_of_mem _ (fun t ht => hu t (mem_foldr_insertDup_rev _ t ht))

theorem noNamed_mkFields : (ns : List Name) → (ts : List Ty) → (∀ t ∈ ts, noNamedTy t = true) →
    noNamedFields (mkFields ns ts) = true
  | [], _, _ => by simp [mkFields, noNamedFields]
  | _ :: _, [], _ => by simp [mkFields, noNamedFields]
  | n :: ns, t :: ts, h => by
    simp [mkFields, noNamedFields, h t (by simp), noNamed_mkFields ns ts (fun x hx => h x (by simp [hx]))]

theorem mem_dedupLast : (l : List (Name × TV)) → (seen : List Name) → ∀ p ∈ dedupLast l seen, ∃ q ∈ l, p.2 = q.2
  | [], _, p, h => by simp [dedupLast] at h
  | (n, x) :: r, seen, p, h => by
    unfold dedupLast at h
    by_cases hs : seen.contains n = true
    · simp only [hs, if_true] at h
      obtain ⟨q, hq, e⟩ := mem_dedupLast r seen p h
      exact ⟨q, List.mem_cons_of_mem _ hq, e⟩
    · simp only [hs] at h
      rcases List.mem_cons.mp h with e | e
      · subst e
        cases hl : lastOf n r with
        | none => exact ⟨(n, x), by simp, by simp [hl]⟩
        | some y =>
          have : ∃ q ∈ r, q.2 = y := by
            clear h hs
            induction r with
            | nil => simp [lastOf] at hl
            | cons a r ih =>
              obtain ⟨m, z⟩ := a
              simp only [lastOf] at hl
              cases hl2 : lastOf n r with
              | some w =>
                simp [hl2] at hl; subst hl
                obtain ⟨q, hq, e⟩ := ih hl2
                exact ⟨q, List.mem_cons_of_mem _ hq, e⟩
              | none =>
                simp [hl2] at hl
                exact ⟨(m, z), by simp, hl.2⟩
          obtain ⟨q, hq, e⟩ := this
          exact ⟨q, List.mem_cons_of_mem _ hq, by simp [e]⟩
      · obtain ⟨q, hq, e2⟩ := mem_dedupLast r (n :: seen) p e
        exact ⟨q, List.mem_cons_of_mem _ hq, e2⟩

mutual
theorem jsonBuild_noNamed : (j : J) → noNamedTy (jsonBuild j).1 = true
  | .null => rfl
  | .bool _ => rfl
  | .num src _ _ => by simp only [jsonBuild]; cases numClass src <;> rfl
  | .str _ => rfl
  | .arr xs => by
    simp only [jsonBuild]
    cases hn : normalizeElems (jsonBuildList xs) with
    | error e => rfl
    | ok r =>
      obtain ⟨vals, inner⟩ := r
      simp only [noNamedTy]
      exact normalizeElems_noNamed _ (jsonBuildList_noNamed xs) vals inner hn
  | .obj fs => by
    simp only [jsonBuild, noNamedTy]
    apply noNamed_mkFields
    intro t ht
    obtain ⟨p, hp, rfl⟩ := List.mem_map.mp ht
    obtain ⟨q, hq, e⟩ := mem_dedupLast _ _ p hp
    rw [e]
    exact jsonBuildFields_noNamed fs q hq
theorem jsonBuildList_noNamed : (xs : JList) → ∀ tv ∈ jsonBuildList xs, noNamedTy tv.1 = true
  | .nil, tv, h => by simp [jsonBuildList] at h
  | .cons x r, tv, h => by
    simp only [jsonBuildList, List.mem_cons] at h
    rcases h with rfl | h
    · exact jsonBuild_noNamed x
    · exact jsonBuildList_noNamed r tv h
theorem jsonBuildFields_noNamed : (fs : JFields) → ∀ q ∈ jsonBuildFields fs, noNamedTy q.2.1 = true
  | .nil, q, h => by simp [jsonBuildFields] at h
  | .cons n x r, q, h => by
    simp only [jsonBuildFields, List.mem_cons] at h
    rcases h with rfl | h
    · exact jsonBuild_noNamed x
    · exact jsonBuildFields_noNamed r q h
end

/-- JSON ⊂ ZSON on the model: the ZSON analysis of the syntax the ZSON parser builds for a JSON
    document is the value the JSON reader builds. -/
theorem json_subset_core (j : J) (h : jsonGuard j = true) (st : AState) :
    analyzeTop st (toAst j) = .ok (st, jsonBuild j) := by
  simp only [analyzeTop, json_core j h st, Except.map]
  rw [wrapAll_noNamed _ (jsonBuild_noNamed j)]

end Zed.Zson.Json
