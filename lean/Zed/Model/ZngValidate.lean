import Zed.Model.ZngZcode
import Zed.Model.ZngTypes
/-!
  `zed.Value.Validate` = `Walk` with the set/enum visitor (`value.go`, `walk.go`), as a total
  function.  Go's `zcode.Iter.Next` panics on a malformed body; `Validate` recovers the
  panic and returns it as an error, so here every panic site is an error value too.

  `WellFormed` is the *declarative* statement of "the body is structurally consistent with
  the type" that `validate_sound` is about.
-/
namespace Zed.Zng

inductive VErr where
  | iterPanic (e : ZErr)   -- recovered panic of zcode.Iter
  | missingField
  | unionEmpty | unionTag | unionExtra
  | setOrder | setDup
  | enumRange
  deriving DecidableEq, Repr

/-- `zcode.DecodeCountedUvarint` (little endian, truncated to 64 bits). -/
def decodeCountedUvarint : Bytes → Nat
  | [] => 0
  | b :: bs => (b.toNat + 256 * decodeCountedUvarint bs) % two64

/-- `zcode.DecodeCountedVarint`. -/
def decodeCountedVarint (b : Bytes) : Int :=
  let u := decodeCountedUvarint b
  if u % 2 = 1 then
    (if u / 2 = 0 then - Int.ofNat two63 else - Int.ofNat (u / 2))
  else Int.ofNat (u / 2)

/-- `Iter.NextTagAndBody`: the next value with its tag. -/
def znextTagged (bs : Bytes) : Except ZErr (Bytes × Bytes) :=
  match znext bs with
  | .error e => .error e
  | .ok (_, rest) => .ok (bs.take (bs.length - rest.length), rest)

/-- `checkSet`: tagged elements strictly increasing in `bytes.Compare` order. -/
def checkSetFrom (prev : Option Bytes) (bs : Bytes) : Except VErr Unit :=
  if bs.isEmpty then .ok ()
  else
    match h : znext bs with
    | .error e => .error (.iterPanic e)
    | .ok (_, rest) =>
      have : rest.length < bs.length := znext_progress bs _ rest h
      let cur := bs.take (bs.length - rest.length)
      match prev with
      | some p =>
        let c := cmpBytes p cur
        if c = 0 then .error .setDup
        else if c = 1 then .error .setOrder
        else checkSetFrom (some cur) rest
      | none => checkSetFrom (some cur) rest
termination_by bs.length

/-- `for !it.Done() { Walk(inner, it.Next()) }` over already split items -/
def walkItems (w : Option Bytes → Except VErr Unit) : List (Option Bytes) → Except VErr Unit
  | [] => .ok ()
  | a :: r => match w a with
    | .error e => .error e
    | .ok () => walkItems w r

/-- `walkMap`: keys and values alternate; an odd item count makes `Next` panic. -/
def walkPairs (wk wv : Option Bytes → Except VErr Unit) : List (Option Bytes) → Except VErr Unit
  | [] => .ok ()
  | [k] => match wk k with
    | .error e => .error e
    | .ok () => .error (.iterPanic .badUvarint)
  | k :: v :: r =>
    match wk k with
    | .error e => .error e
    | .ok () => match wv v with
      | .error e => .error e
      | .ok () => walkPairs wk wv r

mutual
/-- `Walk(typ, body, validateVisitor)`.  `Walk` on a named type only descends, and the
    visitor ignores named types, so `walkSet`/`walkMap`'s `TypeUnder` is not visible. -/
def walk : ZTy → Option Bytes → Except VErr Unit
  | .prim _, _ => .ok ()
  | .named _ t, b => walk t b
  | .error t, b => walk t b
  | .enum syms, b =>
    match b with
    | none => .ok ()
    | some body =>
      if asInt (decodeCountedUvarint body) ≥ Int.ofNat syms.length then .error .enumRange else .ok ()
  | .set _, b =>
    -- the visitor returns SkipContainer after checkSet: elements are not walked
    match b with
    | none => .ok ()
    | some body => checkSetFrom none body
  | .record fs, b =>
    match b with
    | none => .ok ()
    | some body => walkFields fs body
  | .array e, b =>
    match b with
    | none => .ok ()
    | some body =>
      match ziterAll body with
      | .error er => .error (.iterPanic er)
      | .ok items => walkItems (walk e) items
  | .map k v, b =>
    match b with
    | none => .ok ()
    | some body =>
      match ziterAll body with
      | .error er => .error (.iterPanic er)
      | .ok items => walkPairs (walk k) (walk v) items
  | .union ts, b =>
    match b with
    | none => .ok ()
    | some body =>
      if body.isEmpty then .error .unionEmpty
      else match znext body with
        | .error er => .error (.iterPanic er)
        | .ok (tagBytes, r1) =>
          let tag := decodeCountedVarint (tagBytes.getD [])
          match znext r1 with
          | .error er => if tag < 0 ∨ tag ≥ Int.ofNat ts.toList.length then .error .unionTag else .error (.iterPanic er)
          | .ok (inner, r2) =>
            if tag < 0 ∨ tag ≥ Int.ofNat ts.toList.length then .error .unionTag
            else if !r2.isEmpty then .error .unionExtra
            else walkNth ts tag.toNat inner
/-- `walkRecord`: one item per field, in order; trailing items are not looked at. -/
def walkFields : ZFields → Bytes → Except VErr Unit
  | .nil, _ => .ok ()
  | .cons _ t r, body =>
    if body.isEmpty then .error .missingField
    else match znext body with
      | .error er => .error (.iterPanic er)
      | .ok (item, rest) =>
        match walk t item with
        | .error e => .error e
        | .ok () => walkFields r rest
def walkNth : ZTys → Nat → Option Bytes → Except VErr Unit
  | .nil, _, _ => .error .unionTag
  | .cons t _, 0, b => walk t b
  | .cons _ r, n + 1, b => walkNth r n b
end

/-- `Value.Validate`. -/
def validate (t : ZTy) (b : Option Bytes) : Bool :=
  match walk t b with
  | .ok () => true
  | .error _ => false

end Zed.Zng
