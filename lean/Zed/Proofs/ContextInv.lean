import Zed.Proofs.TypeValueInj
namespace Zed
open Zcode List Generated.C05

namespace Ctx

/-- `t` is a type of context `c`: well-formed, and either entered or primitive -/
def has (c : Ctx) (t : Ty) : Prop := t.wf = true ∧ (t ∈ c.byID ∨ t.isComplex = false)

/-- the invariant of `context_canonical` -/
structure Inv (c : Ctx) : Prop where
  nodup : c.byID.Nodup
  wf : ∀ t ∈ c.byID, t.wf = true ∧ t.isComplex = true
  total : ∀ t ∈ c.byID, c.toType.lookup (encodeTV t) = some t
  sound : ∀ t t', t'.wf = true → c.toType.lookup (encodeTV t') = some t → t = t'
  range : ∀ k t, c.toType.lookup k = some t → c.has t
  defs : ∀ n t, c.typedefs.lookup n = some t → t ∈ c.byID ∧ ∃ x, t = .named n x
  /-- the stored serialized value of a type is its canonical serialization -/
  tvcanon : ∀ t b, c.toValue.lookup t = some b → b = encodeTV t
  /-- every type `toType` knows has a stored value (so `LookupTypeValue` answers from `toValue`) -/
  tvtotal : ∀ k t, c.toType.lookup k = some t → (c.toValue.lookup t).isSome = true

theorem inv_empty : Ctx.empty.Inv where
  nodup := by simp [Ctx.empty]
  wf := by simp [Ctx.empty]
  total := by simp [Ctx.empty]
  sound := by simp [Ctx.empty, List.lookup]
  range := by simp [Ctx.empty, List.lookup]
  defs := by simp [Ctx.empty, List.lookup]
  tvcanon := by simp [Ctx.empty, List.lookup]
  tvtotal := by simp [Ctx.empty, List.lookup]

theorem lookup_cons_bytes (k k' : Bytes) (v : Ty) (l : List (Bytes × Ty)) :
    List.lookup k ((k', v) :: l) = if k = k' then some v else List.lookup k l := by
  simp only [List.lookup]
  by_cases h : k = k'
  · subst h; simp
  · have : (k == k') = false := by simpa using h
    simp [this, h]

theorem lookup_cons_ty (k k' : Ty) (v : Bytes) (l : List (Ty × Bytes)) :
    List.lookup k ((k', v) :: l) = if k = k' then some v else List.lookup k l := by
  simp only [List.lookup]
  by_cases h : k = k'
  · subst h; simp
  · have : (k == k') = false := by simpa using h
    simp [this, h]

/-- entering a fresh well-formed complex type keeps the invariant -/
theorem enter_inv (c : Ctx) (hc : c.Inv) (t : Ty) (wt : t.wf = true) (ct : t.isComplex = true)
    (hmiss : c.toType.lookup (encodeTV t) = none) : (c.enter (encodeTV t) t).Inv := by
  have hnot : t ∉ c.byID := fun hm => by rw [hc.total t hm] at hmiss; simp at hmiss
  refine ⟨?_, ?_, ?_, ?_, ?_, ?_, ?_, ?_⟩
  · simp only [enter]
    exact List.nodup_append.mpr ⟨hc.nodup, by simp, by
      intro a ha b hb; simp only [mem_singleton] at hb; subst hb; intro e; subst e; exact hnot ha⟩
  · intro u hu
    simp only [enter, mem_append, mem_singleton] at hu
    rcases hu with hu | rfl
    · exact hc.wf u hu
    · exact ⟨wt, ct⟩
  · intro u hu
    simp only [enter, mem_append, mem_singleton] at hu
    simp only [enter, lookup_cons_bytes]
    rcases hu with hu | rfl
    · by_cases e : encodeTV u = encodeTV t
      · have := encodeTV_injective u t (hc.wf u hu).1 wt e
        subst this; exact absurd hu hnot
      · rw [if_neg e]; exact hc.total u hu
    · simp
  · intro u u' wu' hl
    simp only [enter, lookup_cons_bytes] at hl
    by_cases e : encodeTV u' = encodeTV t
    · rw [if_pos e] at hl
      have := encodeTV_injective u' t wu' wt e
      rw [this]; exact (Option.some.inj hl).symm
    · rw [if_neg e] at hl; exact hc.sound u u' wu' hl
  · intro k u hl
    simp only [enter, lookup_cons_bytes] at hl
    by_cases e : k = encodeTV t
    · rw [if_pos e] at hl
      have := Option.some.inj hl; subst this
      exact ⟨wt, Or.inl (by simp [enter])⟩
    · rw [if_neg e] at hl
      obtain ⟨w, h⟩ := hc.range k u hl
      exact ⟨w, h.imp (fun h => by simp [enter, h]) id⟩
  · intro n u hl
    simp only [enter] at hl
    obtain ⟨hm, hx⟩ := hc.defs n u hl
    exact ⟨by simp [enter, hm], hx⟩
  · intro u b hl
    simp only [enter, lookup_cons_ty] at hl
    by_cases e : u = t
    · rw [if_pos e] at hl; rw [e]; exact (Option.some.inj hl).symm
    · rw [if_neg e] at hl; exact hc.tvcanon u b hl
  · intro k u hl
    simp only [enter, lookup_cons_bytes] at hl
    simp only [enter, lookup_cons_ty]
    by_cases e : k = encodeTV t
    · rw [if_pos e] at hl; cases hl; simp
    · rw [if_neg e] at hl
      by_cases e2 : u = t
      · simp [e2]
      · rw [if_neg e2]; exact hc.tvtotal k u hl

theorem has_enter (c : Ctx) (tv : Bytes) (t u : Ty) (h : c.has u) : (c.enter tv t).has u :=
  ⟨h.1, h.2.imp (fun h => by simp [enter, h]) id⟩

theorem lookupOrEnter_hit (c : Ctx) (t t' : Ty) (h : c.toType.lookup (encodeTV t) = some t') :
    c.lookupOrEnter t = (t', c) := by
  simp only [lookupOrEnter, h]

theorem lookupOrEnter_miss (c : Ctx) (t : Ty) (h : c.toType.lookup (encodeTV t) = none) :
    c.lookupOrEnter t = (t, c.enter (encodeTV t) t) := by
  simp only [lookupOrEnter, h]

/-- `lookupOrEnter` of a well-formed complex type returns that type and keeps the invariant -/
theorem lookupOrEnter_spec (c : Ctx) (hc : c.Inv) (t : Ty) (wt : t.wf = true) (ct : t.isComplex = true) :
    (c.lookupOrEnter t).1 = t ∧ (c.lookupOrEnter t).2.Inv ∧
    (c.lookupOrEnter t).2.typedefs = c.typedefs ∧
    (∀ u, c.has u → (c.lookupOrEnter t).2.has u) ∧ (c.lookupOrEnter t).2.has t := by
  cases hl : c.toType.lookup (encodeTV t) with
  | some t' =>
    have e := hc.sound t' t wt hl
    subst e
    rw [lookupOrEnter_hit c _ _ hl]
    exact ⟨rfl, hc, rfl, fun u h => h, hc.range _ _ hl⟩
  | none =>
    rw [lookupOrEnter_miss c t hl]
    exact ⟨rfl, enter_inv c hc t wt ct hl, rfl, fun u h => has_enter c _ t u h, ⟨wt, Or.inl (by simp [enter])⟩⟩

end Ctx
end Zed
