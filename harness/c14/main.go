package main

// C14 — pool contents always equal the loaded values minus the deleted ones, in pool-key
// order.
//
// Sub-checks (all through lakeh.RunPlan):
//   oracle (S)           after every step of a generated history on a real lake: branch
//                        contents == trivial reference (loaded − deleted; delete-where removes
//                        exactly the values the plain runtime's `where P` selects), scan in
//                        pool-key order (asc/desc, null/missing largest), every object's count /
//                        min / max equal those of the values its file holds, files never change,
//                        repeated scans identical (ties ordered deterministically), vacuum never
//                        removes an object of the vacuumed commit's snapshot, failed operations
//                        leave everything untouched.
//   correspondence (T2)  the same history through the Lean model (Zed.Model.Lake*): result
//                        class, branch tips, object sets with metadata, vectors and exact file
//                        contents, scan sequence (equal-key runs canonicalised), per step.

import (
	"verifharness/hlib"
	"verifharness/lakeh"
)

func main() { hlib.Main("C14", run) }

func run(c *hlib.Ctx) {
	c.Rule("history = pool config (key k | a.b | this, asc/desc, threshold 1 byte..default, seek stride 1..default) + value alphabet " +
		"(duplicate keys, int/string/null/missing keys, equal-bytes/different-type pairs) + 2..12 operations drawn step by step from " +
		"{load, delete(ids), delete with duplicate / dead / unknown ids, delete-where(pred), compact(ids, vectors?), vector add/del, vacuum} " +
		"against the currently observed objects; distinct = distinct (config, operation sequence); every step compares real lake vs trivial reference (oracle) and vs the Lean model")
	base := map[string]int{"load": 30, "delete": 10, "badid": 4, "delwhere": 14, "compact": 14, "addvec": 5, "delvec": 3, "vacuum": 6, "manage": 8}
	guarded := lakeh.Profile{Name: "c14-guarded", W: base, MaxOps: 12, Guarded: true}
	w2 := map[string]int{}
	for k, v := range base {
		w2[k] = v
	}
	w2["dupdelete"] = 4
	w2["dupvec"] = 3
	open := lakeh.Profile{Name: "c14-open", W: w2, MaxOps: 10}
	if c.Want("witness") {
		lakeh.RunWitnesses(c, "C14", lakeh.Options{Prop: "C14", Determinism: 2, StopOnFail: true})
	}
	if c.Want("exhaustive") {
		lakeh.RunExhaustive(c, lakeh.Options{Prop: "C14", StopOnFail: true}, nil,
			[]string{"La", "Lb", "D1", "Da", "W", "C", "V"}, c.N(2, 3))
	}
	// delete-where on one deleter thread (compiler.Parallelism = 1): the survivors of all touched
	// objects reach the rewriting writer one whole object after another, i.e. NOT in key order
	// when the objects overlap; multi-value overlapping objects (threshold >= 40 bytes),
	// predicates on the non-key field v.
	if c.Want("delwhere1") {
		lakeh.RunExhaustiveCfg(c, lakeh.Options{Prop: "C14", StopOnFail: true}, nil,
			[]string{"La", "Ld", "Lb", "Wv", "W", "C"}, c.N(3, 3), 40, 1)
		dw := map[string]int{"load": 40, "delwhere": 40, "delete": 6, "compact": 8, "vacuum": 2}
		lakeh.RunPlan(c, lakeh.Plan{
			Opt:      lakeh.Options{Prop: "C14", StopOnFail: true},
			Profiles: []lakeh.Profile{{Name: "c14-delwhere-par1", W: dw, MaxOps: 9, Guarded: true, MinThresh: 40}},
			Quick:    40, Thorough: 600,
			Parallelism: 1,
		})
	}
	if !c.Want("histories") {
		return
	}
	lakeh.RunPlan(c, lakeh.Plan{
		Opt:      lakeh.Options{Prop: "C14", Determinism: 2, Reopen: true, StopOnFail: true},
		Profiles: []lakeh.Profile{guarded, guarded, open},
		Quick:    60, Thorough: 1300,
	})
}
