import Zed.Model.Sexp
import Zed.Model.ZngWriter
import Zed.Model.ZngReader
import Zed.Model.ZngScanner
/-! S-expression glue shared by the C01 and C11 drivers (not used in any theorem). -/
namespace Zed.Drv.Zng
open Zed Zed.Zng

/-- hex atom → bytes, iteratively (inputs can be megabytes long) -/
def bytesOfHexFast (s : String) : Option Bytes :=
  if s == "-" then some [] else
  let b := s.toUTF8
  if b.size % 2 ≠ 0 then none else
  let hv (c : UInt8) : Option Nat :=
    if 48 ≤ c ∧ c ≤ 57 then some (c.toNat - 48)
    else if 97 ≤ c ∧ c ≤ 102 then some (c.toNat - 87)
    else if 65 ≤ c ∧ c ≤ 70 then some (c.toNat - 55)
    else none
  Id.run do
    let mut acc : Bytes := []
    let mut i := b.size
    let mut ok := true
    while i ≥ 2 do
      match hv b[i-2]!, hv b[i-1]! with
      | some x, some y => acc := UInt8.ofNat (x * 16 + y) :: acc
      | _, _ => ok := false
      i := i - 2
    return if ok then some acc else none

def hexOfBytesFast (bs : Bytes) : String :=
  if bs.isEmpty then "-" else
  let hd (n : Nat) : UInt8 := if n < 10 then UInt8.ofNat (48 + n) else UInt8.ofNat (87 + n)
  let arr := bs.foldl (fun (a : ByteArray) b => (a.push (hd (b.toNat / 16))).push (hd (b.toNat % 16))) (ByteArray.emptyWithCapacity 64)
  String.fromUTF8! arr

partial def tyOf : Sexp → Option ZTy
  | .list [.atom "p", .atom n] => do pure (.prim (← n.toNat?))
  | .list (.atom "rec" :: fs) => do
    let fs ← fs.mapM fun
      | .list [.atom n, t] => do pure ((← bytesOfHexFast n), (← tyOf t))
      | _ => none
    pure (.record (ZFields.ofList fs))
  | .list [.atom "arr", t] => do pure (.array (← tyOf t))
  | .list [.atom "set", t] => do pure (.set (← tyOf t))
  | .list [.atom "map", k, v] => do pure (.map (← tyOf k) (← tyOf v))
  | .list (.atom "uni" :: ts) => do pure (.union (ZTys.ofList (← ts.mapM tyOf)))
  | .list (.atom "enum" :: ss) => do
    let ss ← ss.mapM fun
      | .atom h => bytesOfHexFast h
      | _ => none
    pure (.enum ss)
  | .list [.atom "err", t] => do pure (.error (← tyOf t))
  | .list [.atom "nam", .atom n, t] => do pure (.named (← bytesOfHexFast n) (← tyOf t))
  | _ => none

partial def sexpOfTy : ZTy → Sexp
  | .prim n => .list [.atom "p", .atom (toString n)]
  | .record fs => .list (.atom "rec" :: fs.toList.map fun (n, t) => .list [.atom (hexOfBytesFast n), sexpOfTy t])
  | .array t => .list [.atom "arr", sexpOfTy t]
  | .set t => .list [.atom "set", sexpOfTy t]
  | .map k v => .list [.atom "map", sexpOfTy k, sexpOfTy v]
  | .union ts => .list (.atom "uni" :: ts.toList.map sexpOfTy)
  | .enum ss => .list (.atom "enum" :: ss.map fun s => .atom (hexOfBytesFast s))
  | .error t => .list [.atom "err", sexpOfTy t]
  | .named n t => .list [.atom "nam", .atom (hexOfBytesFast n), sexpOfTy t]

def bodyOf : Sexp → Option (Option Bytes)
  | .atom "null" => some none
  | .atom h => (bytesOfHexFast h).map some
  | _ => none

def sexpOfBody : Option Bytes → Sexp
  | none => .atom "null"
  | some b => .atom (hexOfBytesFast b)

def opOf : Sexp → Option WOp
  | .list [.atom "w", .atom cid, t, b] => do
    pure (.write ⟨← cid.toNat?, ← tyOf t, ← bodyOf b⟩)
  | .list [.atom "eos"] => some .endStream
  | .list [.atom "ctl", .atom f, .atom h] => do pure (.control (← f.toNat?) (← bytesOfHexFast h))
  | _ => none

def outcomeStr : Outcome → String
  | .eof => "eof"
  | .err => "err"
  | .panic s => "panic:" ++ s

def sexpOfRRes (r : RRes) (withVals : Bool) : Sexp :=
  .list [.atom (outcomeStr r.out),
         .list (.atom "allocs" :: r.allocs.map fun a => .atom (toString a)),
         .list (.atom "vals" :: (if withVals then r.vals.map fun v => .list [sexpOfTy v.ty, sexpOfBody v.body]
                                 else [.atom (toString r.vals.length)]))]

/-- LZ4 oracle table supplied by the harness: (compressed bytes, size) ↦ result -/
def decompOf (tbl : List (Bytes × Nat × Option Bytes)) (z : Bytes) (size : Nat) : Option Bytes :=
  match tbl.find? (fun e => e.1 == z && e.2.1 == size) with
  | some e => e.2.2
  | none => none

def tblOf : List Sexp → Option (List (Bytes × Nat × Option Bytes))
  | [] => some []
  | .list [.atom z, .atom n, .atom u] :: rest => do
    let z ← bytesOfHexFast z
    let n ← n.toNat?
    let u ← if u == "fail" then pure none else (bytesOfHexFast u).map some
    let r ← tblOf rest
    pure ((z, n, u) :: r)
  | _ => none

end Zed.Drv.Zng
