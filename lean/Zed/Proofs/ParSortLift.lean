/-
  Sort lifted into the scatter legs (C08): when the optimizer pushes a `sort` into every leg of a
  scatter and fans in with `merge` under the same comparator, the merged output is sorted and is a
  permutation of the legs' contents — for every tie-breaking of the merge.  The comparator of the
  legs' sort has to be the comparator of the merge: a counterexample is given otherwise.
-/
import Zed.Model.ParScatter
import Zed.Proofs.ParScatter
namespace Zed.Proofs.ParSortLift
open Zed.Par Zed.Agg
variable {ρ : Type}

/-- a merge is in particular an interleaving -/
theorem kmerge_interleave (le : ρ → ρ → Bool) {legs : List (List ρ)} {out : List ρ}
    (h : KMerge le legs out) : Interleave legs out := by
  induction h with
  | done hall => exact Interleave.done hall
  | step hget _ _ ih => exact Interleave.step hget ih

/-- a merge neither adds, drops nor duplicates: its output is a permutation of the legs' contents -/
theorem kmerge_perm (le : ρ → ρ → Bool) {legs : List (List ρ)} {out : List ρ}
    (h : KMerge le legs out) : out.Perm legs.flatten :=
  Zed.Proofs.ParScatter.interleave_perm_flatten (kmerge_interleave le h)

/-- in a sorted list the head is below every element -/
theorem head_le_of_mem_sorted (le : ρ → ρ → Bool) (hle : TotalPreorder le) {l : List ρ}
    (hs : l.Pairwise (fun x y => le x y = true)) {z y : ρ}
    (hz : l.head? = some z) (hy : y ∈ l) : le z y = true := by
  cases l with
  | nil => simp at hz
  | cons a t =>
    simp only [List.head?_cons, Option.some.injEq] at hz
    subst hz
    rcases List.mem_cons.1 hy with h | h
    · subst h; exact hle.refl _
    · exact (List.pairwise_cons.1 hs).1 y h

/-- sort lifted into the legs: if every leg is sorted under the MERGE's comparator (a total preorder),
    every merge of the legs — any tie-breaking — is sorted -/
theorem kmerge_sorted (le : ρ → ρ → Bool) (hle : TotalPreorder le) {legs : List (List ρ)} {out : List ρ}
    (hs : ∀ l ∈ legs, l.Pairwise (fun x y => le x y = true))
    (h : KMerge le legs out) : out.Pairwise (fun x y => le x y = true) := by
  induction h with
  | done _ => exact List.Pairwise.nil
  | step hget hmin hrest ih =>
    rename_i legs i x t out
    have hxt : (x :: t) ∈ legs := List.mem_of_getElem? hget
    have hsx := List.pairwise_cons.1 (hs _ hxt)
    have hs' : ∀ l ∈ legs.set i t, l.Pairwise (fun x y => le x y = true) := by
      intro l hl
      rcases List.mem_or_eq_of_mem_set hl with h | h
      · exact hs l h
      · subst h; exact hsx.2
    refine List.pairwise_cons.2 ⟨?_, ih hs'⟩
    intro y hy
    have hy' := (kmerge_perm le hrest).mem_iff.1 hy
    obtain ⟨l, hl, hyl⟩ := List.mem_flatten.1 hy'
    rcases List.mem_or_eq_of_mem_set hl with h | h
    · cases l with
      | nil => simp at hyl
      | cons z tl =>
        exact hle.trans _ _ _ (hmin _ h z rfl)
          (head_le_of_mem_sorted le hle (hs _ h) rfl hyl)
    · subst h; exact hsx.1 y hyl

/-- the hypothesis is needed: a leg sorted under ANOTHER comparator yields an unsorted merge.
    Instance: legs [[2, 1], [3]] (the first leg is sorted descending); every merge must emit the
    minimal head at each step: 2 (heads 2, 3), then 1 (heads 1, 3), then 3. -/
theorem not_kmerge_sorted_foreign_order :
    ∃ (legs : List (List Int)) (out : List Int),
      KMerge (fun a b => decide (a ≤ b)) legs out ∧ ¬ out.Pairwise (fun x y => decide (x ≤ y) = true) := by
  refine ⟨[[2, 1], [3]], [2, 1, 3], ?_, by decide⟩
  refine KMerge.step (i := 0) (t := [1]) rfl (by decide) ?_
  refine KMerge.step (i := 0) (t := []) rfl (by decide) ?_
  refine KMerge.step (i := 1) (t := []) rfl (by decide) ?_
  exact KMerge.done (by decide)

/-! ### non-vacuity: sorted legs with ties across legs -/

private def exLe : Int → Int → Bool := fun a b => decide (a ≤ b)
private def exLegs : List (List Int) := [[1, 3, 3, 7], [2, 3, 5], [], [3, 7, 7]]

example : ∀ l ∈ exLegs, l.Pairwise (fun x y => exLe x y = true) := by decide

example : kmergeFn exLe 10 exLegs = [1, 2, 3, 3, 3, 3, 5, 7, 7, 7] := by decide

/-- all hypotheses of `kmerge_sorted` / `kmerge_perm` hold on the instance -/
example : (kmergeFn exLe 10 exLegs).Pairwise (fun x y => exLe x y = true) ∧
    (kmergeFn exLe 10 exLegs).Perm exLegs.flatten :=
  have hm := Zed.Proofs.ParScatter.kmergeFn_isKMerge exLe intLe_totalPreorder 10 exLegs (by decide)
  ⟨kmerge_sorted exLe intLe_totalPreorder (by decide) hm, kmerge_perm exLe hm⟩

/-- another legal merge of the same legs, with the ties broken differently (last leg first) -/
example : KMerge exLe [[1, 3], [3]] [1, 3, 3] ∧
    [1, 3, 3].Pairwise (fun x y => exLe x y = true) := by
  have hm : KMerge exLe [[1, 3], [3]] [1, 3, 3] := by
    refine KMerge.step (i := 0) (t := [3]) rfl (by decide) ?_
    refine KMerge.step (i := 1) (t := []) rfl (by decide) ?_
    refine KMerge.step (i := 0) (t := []) rfl (by decide) ?_
    exact KMerge.done (by decide)
  exact ⟨hm, kmerge_sorted exLe intLe_totalPreorder (by decide) hm⟩

end Zed.Proofs.ParSortLift
