import Zed.Proofs.ZsonRoundtrip2
import Zed.Proofs.ZsonWrap
/-!
  C02 — value round trip, plain fragment, part 3: the whole-value entry point.
-/
namespace Zed.Zson
open Generated

theorem beq_null_false (v : Val) (h : v ≠ .null) : (v == Val.null) = false := by
  simpa [beq_eq_false_iff_ne] using h

/-- the whole-value entry point differs from the nested one only in the `null` flag it hands
    to `decorate` — which matters exactly for empty containers. -/
theorem fmtTop_eq (fst : FState) (t : Ty) (v : Val) (hp : plainTy t = true) (hv : wfVal t v = true)
    (hb : bareEmpty v = false) :
    fmtTop fst t v =
      ((fmtValue fst t v false (implied t) true false).1,
       mkVal (fmtValue fst t v false (implied t) true false).2.1 (fmtValue fst t v false (implied t) true false).2.2) := by
  unfold fmtTop
  simp only [hasName_plain fst t hp]
  cases v with
  | null =>
    cases himp : implied t <;> simp [fmtValue, Ty.under, decorateM_plain fst t true hp, Val.isNull]
  | prim text =>
    cases t <;> simp_all [wfVal, fmtValue, finish, Val.isNull]
  | typeval ty =>
    cases t <;> simp_all [wfVal, fmtValue, finish, Val.isNull]
  | enum sel =>
    cases t <;> simp_all [wfVal, fmtValue, finish, Val.isNull]
  | record vs =>
    cases t <;> simp_all [wfVal, fmtValue, finish, Val.isNull]
  | array vs =>
    cases t <;> simp_all [wfVal]
    cases vs <;> simp_all [bareEmpty, fmtValue, finish, Val.isNull]
  | set vs =>
    cases t <;> simp_all [wfVal]
    cases vs <;> simp_all [bareEmpty, fmtValue, finish, Val.isNull]
  | map es =>
    cases t <;> simp_all [wfVal]
    cases es <;> simp_all [bareEmpty, fmtValue, finish, Val.isNull]
  | union tag inner =>
    cases t <;> simp_all [wfVal, fmtValue, finish, Val.isNull]
  | error v' => cases t <;> simp_all [wfVal, plainTy, fmtValue, finish, Val.isNull]
  | named v' => cases t <;> simp_all [wfVal, plainTy]

theorem roundtrip_plain (fst : FState) (a0 : AState) (t : Ty) (v : Val)
    (hp : plainTy t = true) (hw : wfTy t = true) (hv : wfVal t v = true) (hb : bareEmpty v = false)
    (he : errOK v = true) :
    (fmtTop fst t v).1 = fst ∧ analyzeTop a0 (fmtTop fst t v).2 = .ok (a0, (t, v)) := by
  obtain ⟨any, ds, hf, _, hA, _⟩ := goodV_all v t false hp hw hv he (implied t) fst a0
  rw [fmtTop_eq fst t v hp hv hb, hf]
  refine ⟨rfl, ?_⟩
  simp only [analyzeTop, hA, Except.map, expA, Bool.false_and, if_false, Bool.false_eq_true]
  rw [wrapAll_strip v t hv]


theorem implied_notUnion (t : Ty) (h : implied t = true) : t.isUnion = false := by
  cases t <;> simp_all [implied, Ty.isUnion]

/-- no decorator follows a non-null, non-empty value of an implied type. -/
theorem implied_ds (fst : FState) (t : Ty) (v : Val) (pi e : Bool) (hi : implied t = true)
    (hp : plainTy t = true) (hv : wfVal t v = true) (hn : v.isNull = false) (hb : bareEmpty v = false) :
    (fmtValue fst t v false pi true e).2.2 = [] := by
  have hd : decoP t false = [] := by simp [decoP, hi]
  cases v with
  | null => simp [Val.isNull] at hn
  | prim text =>
    cases t with
    | prim id => simp [fmtValue, finish, decorateM_plain fst _ false hp, hd]
    | _ => simp [wfVal] at hv
  | typeval ty =>
    cases t with
    | prim id => simp [fmtValue, finish, decorateM_plain fst _ false hp, hd]
    | _ => simp [wfVal] at hv
  | enum sel =>
    cases t with
    | enum syms => simp [implied] at hi
    | _ => simp [wfVal] at hv
  | record vs =>
    cases t with
    | record fs => simp [fmtValue, finish, decorateM_plain _ _ false hp, hd]
    | _ => simp [wfVal] at hv
  | array vs =>
    cases t with
    | array et =>
      have hie : implied et = true := by simpa [implied] using hi
      have hpe : plainTy et = true := by simpa [plainTy] using hp
      cases vs with
      | nil => simp [bareEmpty] at hb
      | cons x r =>
        simp [fmtValue, finish, decorateM_plain _ _ false hp, hd,
          needsDecoration_notUnion et _ hpe (implied_notUnion et hie)]
    | _ => simp [wfVal] at hv
  | set vs =>
    cases t with
    | set et =>
      have hie : implied et = true := by simpa [implied] using hi
      have hpe : plainTy et = true := by simpa [plainTy] using hp
      cases vs with
      | nil => simp [bareEmpty] at hb
      | cons x r =>
        simp [fmtValue, finish, decorateM_plain _ _ false hp, hd,
          needsDecoration_notUnion et _ hpe (implied_notUnion et hie)]
    | _ => simp [wfVal] at hv
  | map es =>
    cases t with
    | map kt vt =>
      have hie : implied kt = true ∧ implied vt = true := by simpa [implied] using hi
      have hpe : plainTy kt = true ∧ plainTy vt = true := by simpa [plainTy] using hp
      cases es with
      | nil => simp [bareEmpty] at hb
      | cons k x r =>
        simp [fmtValue, finish, decorateM_plain _ _ false hp, hd,
          needsDecoration_notUnion kt _ hpe.1 (implied_notUnion kt hie.1),
          needsDecoration_notUnion vt _ hpe.2 (implied_notUnion vt hie.2)]
    | _ => simp [wfVal] at hv
  | union tag inner =>
    cases t with
    | union ts => simp [implied] at hi
    | _ => simp [wfVal] at hv
  | error v' =>
    cases t with
    | error u => simp [fmtValue, finish, decorateM_plain _ _ false hp, hd]
    | _ => simp [wfVal] at hv
  | named v' =>
    cases t with
    | named n u => simp [plainTy] at hp
    | _ => simp [wfVal] at hv

/-- in the plain fragment the syntax written does not depend on the typedef state. -/
theorem fmtTop_state_irrelevant (fst1 fst2 : FState) (a0 : AState) (t : Ty) (v : Val)
    (hp : plainTy t = true) (hw : wfTy t = true) (hv : wfVal t v = true) (hb : bareEmpty v = false)
    (he : errOK v = true) :
    analyzeTop a0 (fmtTop fst1 t v).2 = analyzeTop a0 (fmtTop fst2 t v).2 := by
  rw [(roundtrip_plain fst1 a0 t v hp hw hv hb he).2, (roundtrip_plain fst2 a0 t v hp hw hv hb he).2]

end Zed.Zson
