package main

import (
	"fmt"
	"go/ast"
	"go/token"
	"os"
	"path/filepath"
	"sort"
	"strings"
)

// C19 fact set:
//
//   controlFormats     response formats whose writer (the case of `switch format` in
//                      queryio.NewWriter) is built by a constructor of package api/queryio whose
//                      result type declares `WriteControl(v interface{}) error` — the only
//                      writers that satisfy the `controlWriter` interface; any other package
//                      under zio/ declaring such a method makes the extractor refuse
//   writeControlGuards the two conditions under which Writer.WriteControl does nothing
//                      (`!w.ctrl` → return nil; type assertion to controlWriter)
//   writeErrorDropsResult  Writer.WriteError discards the result of WriteControl
//   mediaTypeToFormat / formatToMediaType   the two switch tables of api/mime.go

func init() { register("C19", genC19) }

func genC19(repo string) (string, error) {
	var b strings.Builder
	wf, err := parseFile(repo, "api/queryio/writer.go")
	if err != nil {
		return "", err
	}
	// --- which types of api/queryio declare WriteControl(interface{}) ---------------------
	ctrlTypes := map[string]bool{}
	ctors := map[string]string{} // constructor name -> result type name
	ents, err := os.ReadDir(filepath.Join(repo, "api/queryio"))
	if err != nil {
		return "", err
	}
	for _, e := range ents {
		if !strings.HasSuffix(e.Name(), ".go") || strings.HasSuffix(e.Name(), "_test.go") {
			continue
		}
		f, err := parseFile(repo, "api/queryio/"+e.Name())
		if err != nil {
			return "", err
		}
		for _, d := range f.f.Decls {
			fd, ok := d.(*ast.FuncDecl)
			if !ok {
				continue
			}
			if fd.Recv == nil {
				if strings.HasPrefix(fd.Name.Name, "New") && fd.Type.Results != nil && len(fd.Type.Results.List) >= 1 {
					t := fd.Type.Results.List[0].Type
					if s, ok := t.(*ast.StarExpr); ok {
						t = s.X
					}
					if id, ok := t.(*ast.Ident); ok {
						ctors[fd.Name.Name] = id.Name
					}
				}
				continue
			}
			if fd.Name.Name != "WriteControl" || !isControlSig(fd) {
				continue
			}
			t := fd.Recv.List[0].Type
			if s, ok := t.(*ast.StarExpr); ok {
				t = s.X
			}
			id, ok := t.(*ast.Ident)
			if !ok {
				return "", fmt.Errorf("%s: WriteControl receiver not recognised", f.pos(fd))
			}
			if id.Name != "Writer" { // Writer.WriteControl is the dispatcher itself
				ctrlTypes[id.Name] = true
			}
		}
	}
	// no writer under zio/ may satisfy controlWriter behind our back
	var foreign []string
	filepath.Walk(filepath.Join(repo, "zio"), func(p string, info os.FileInfo, err error) error {
		if err != nil || info.IsDir() || !strings.HasSuffix(p, ".go") || strings.HasSuffix(p, "_test.go") {
			return nil
		}
		rel, _ := filepath.Rel(repo, p)
		f, err := parseFile(repo, rel)
		if err != nil {
			return nil
		}
		for _, d := range f.f.Decls {
			if fd, ok := d.(*ast.FuncDecl); ok && fd.Recv != nil && fd.Name.Name == "WriteControl" && isControlSig(fd) {
				foreign = append(foreign, f.pos(fd))
			}
		}
		return nil
	})
	if len(foreign) > 0 {
		return "", fmt.Errorf("a writer under zio/ declares WriteControl(interface{}) error: %v", foreign)
	}
	// --- NewWriter: switch format -----------------------------------------------------------
	fd, err := wf.funcDecl("", "NewWriter")
	if err != nil {
		return "", err
	}
	sw := firstSwitch(fd.Body, "format")
	if sw == nil {
		return "", fmt.Errorf("%s: NewWriter: no `switch format`", wf.pos(fd))
	}
	var control, plain []string
	for _, s := range sw.Body.List {
		cc := s.(*ast.CaseClause)
		if len(cc.Body) != 1 {
			return "", fmt.Errorf("%s: NewWriter: case body is not a single assignment", wf.pos(cc))
		}
		as, ok := cc.Body[0].(*ast.AssignStmt)
		if !ok || len(as.Rhs) != 1 {
			return "", fmt.Errorf("%s: NewWriter: case body is not an assignment", wf.pos(cc))
		}
		lhs, ok := selName(as.Lhs[0])
		if !ok || lhs != "d.writer" {
			return "", fmt.Errorf("%s: NewWriter: assignment target is not d.writer", wf.pos(as))
		}
		call, ok := as.Rhs[0].(*ast.CallExpr)
		if !ok {
			return "", fmt.Errorf("%s: NewWriter: right-hand side is not a call", wf.pos(as))
		}
		fn, ok := selName(call.Fun)
		if !ok {
			return "", fmt.Errorf("%s: NewWriter: constructor not recognised", wf.pos(call))
		}
		isCtrl := false
		if !strings.Contains(fn, ".") {
			rt, ok := ctors[fn]
			if !ok {
				return "", fmt.Errorf("%s: NewWriter: constructor %s not found in api/queryio", wf.pos(call), fn)
			}
			isCtrl = ctrlTypes[rt]
		}
		if cc.List == nil {
			if isCtrl {
				return "", fmt.Errorf("%s: NewWriter: the default writer has a control channel", wf.pos(cc))
			}
			continue
		}
		for _, c := range cc.List {
			lit, ok := strLit(c)
			if !ok {
				return "", fmt.Errorf("%s: NewWriter: non-literal case", wf.pos(c))
			}
			if isCtrl {
				control = append(control, lit)
			} else {
				plain = append(plain, lit)
			}
		}
	}
	sort.Strings(control)
	sort.Strings(plain)
	fmt.Fprintf(&b, "def controlFormats : List String := %s\n", leanStrList(control))
	fmt.Fprintf(&b, "def plainCaseFormats : List String := %s\n", leanStrList(plain))
	// --- Writer.WriteControl: the guards ----------------------------------------------------
	fd, err = wf.funcDecl("Writer", "WriteControl")
	if err != nil {
		return "", err
	}
	var guards []string
	ast.Inspect(fd.Body, func(n ast.Node) bool {
		ifs, ok := n.(*ast.IfStmt)
		if !ok {
			return true
		}
		if ifs.Init == nil {
			cond := renderExpr(wf, ifs.Cond)
			if ret, ok := singleReturn(ifs.Body.List); ok {
				if id, ok := identName(ret); ok && id == "nil" {
					guards = append(guards, cond+" => return nil")
				}
			}
		} else if as, ok := ifs.Init.(*ast.AssignStmt); ok && len(as.Rhs) == 1 {
			if ta, ok := as.Rhs[0].(*ast.TypeAssertExpr); ok {
				guards = append(guards, "only if "+renderExpr(wf, ta.X)+" is "+renderExpr(wf, ta.Type))
			}
		}
		return true
	})
	if len(guards) != 2 {
		return "", fmt.Errorf("%s: Writer.WriteControl: expected the `!w.ctrl` guard and the controlWriter assertion, found %v", wf.pos(fd), guards)
	}
	fmt.Fprintf(&b, "def writeControlGuards : List String := %s\n", leanStrList(guards))
	// --- Writer.WriteError: a single expression statement calling WriteControl --------------
	fd, err = wf.funcDecl("Writer", "WriteError")
	if err != nil {
		return "", err
	}
	drops := false
	if len(fd.Body.List) == 1 {
		if es, ok := fd.Body.List[0].(*ast.ExprStmt); ok {
			if _, ok := callTo(es.X, "w.WriteControl"); ok {
				drops = true
			}
		}
	}
	if !drops && fd.Type.Results == nil {
		// still returns nothing: whatever it does, the caller cannot see a failure
		drops = true
	}
	fmt.Fprintf(&b, "def writeErrorReturnsNothing : Bool := %v\n", drops)
	// --- api/mime.go -------------------------------------------------------------------------
	mf, err := parseFile(repo, "api/mime.go")
	if err != nil {
		return "", err
	}
	consts := map[string]string{}
	for _, d := range mf.f.Decls {
		gd, ok := d.(*ast.GenDecl)
		if !ok || gd.Tok != token.CONST {
			continue
		}
		for _, sp := range gd.Specs {
			vs := sp.(*ast.ValueSpec)
			for i, n := range vs.Names {
				if i < len(vs.Values) {
					if s, ok := strLit(vs.Values[i]); ok {
						consts[n.Name] = s
					}
				}
			}
		}
	}
	fd, err = mf.funcDecl("", "MediaTypeToFormat")
	if err != nil {
		return "", err
	}
	sw = firstSwitch(fd.Body, "typ")
	if sw == nil {
		return "", fmt.Errorf("%s: MediaTypeToFormat: no `switch typ`", mf.pos(fd))
	}
	var m2f []string
	for _, s := range sw.Body.List {
		cc := s.(*ast.CaseClause)
		if cc.List == nil {
			return "", fmt.Errorf("%s: MediaTypeToFormat: default clause not recognised", mf.pos(cc))
		}
		if len(cc.Body) != 1 {
			return "", fmt.Errorf("%s: MediaTypeToFormat: case body is not a single return", mf.pos(cc))
		}
		ret, ok := cc.Body[0].(*ast.ReturnStmt)
		if !ok || len(ret.Results) != 2 {
			return "", fmt.Errorf("%s: MediaTypeToFormat: case body is not `return x, nil`", mf.pos(cc))
		}
		out, isLit := strLit(ret.Results[0])
		if !isLit {
			if id, ok := identName(ret.Results[0]); ok && id == "dflt" {
				continue // MediaTypeAny / "": the default format
			}
			return "", fmt.Errorf("%s: MediaTypeToFormat: unrecognised return", mf.pos(ret))
		}
		for _, c := range cc.List {
			id, ok := identName(c)
			if !ok {
				return "", fmt.Errorf("%s: MediaTypeToFormat: non-constant case", mf.pos(c))
			}
			v, ok := consts[id]
			if !ok {
				return "", fmt.Errorf("%s: MediaTypeToFormat: unknown constant %s", mf.pos(c), id)
			}
			m2f = append(m2f, fmt.Sprintf("(%s, %s)", leanStr(v), leanStr(out)))
		}
	}
	fmt.Fprintf(&b, "def mediaTypeToFormat : List (String × String) :=\n  [%s]\n", strings.Join(m2f, ",\n   "))
	fd, err = mf.funcDecl("", "FormatToMediaType")
	if err != nil {
		return "", err
	}
	sw = firstSwitch(fd.Body, "format")
	if sw == nil {
		return "", fmt.Errorf("%s: FormatToMediaType: no `switch format`", mf.pos(fd))
	}
	var f2m []string
	for _, s := range sw.Body.List {
		cc := s.(*ast.CaseClause)
		if cc.List == nil {
			continue // default: error
		}
		if len(cc.Body) != 1 {
			return "", fmt.Errorf("%s: FormatToMediaType: case body is not a single return", mf.pos(cc))
		}
		ret, ok := cc.Body[0].(*ast.ReturnStmt)
		if !ok || len(ret.Results) != 2 {
			return "", fmt.Errorf("%s: FormatToMediaType: case body is not `return X, nil`", mf.pos(cc))
		}
		id, ok := identName(ret.Results[0])
		if !ok {
			return "", fmt.Errorf("%s: FormatToMediaType: unrecognised return", mf.pos(ret))
		}
		v, ok := consts[id]
		if !ok {
			return "", fmt.Errorf("%s: FormatToMediaType: unknown constant %s", mf.pos(ret), id)
		}
		for _, c := range cc.List {
			lit, ok := strLit(c)
			if !ok {
				return "", fmt.Errorf("%s: FormatToMediaType: non-literal case", mf.pos(c))
			}
			f2m = append(f2m, fmt.Sprintf("(%s, %s)", leanStr(lit), leanStr(v)))
		}
	}
	fmt.Fprintf(&b, "def formatToMediaType : List (String × String) :=\n  [%s]\n", strings.Join(f2m, ",\n   "))
	if err := genC19Dispatch(repo, &b); err != nil {
		return "", err
	}
	return b.String(), nil
}

// ---- dispatch: which lake operation each Interface method reaches, directly and through its
// service handler --------------------------------------------------------------------------

var c19Methods = []struct{ method, handler string }{
	{"CreatePool", "handlePoolPost"},
	{"RemovePool", "handlePoolDelete"},
	{"RenamePool", "handlePoolPut"},
	{"CreateBranch", "handleBranchPost"},
	{"MergeBranch", "handleBranchMerge"},
	{"Revert", "handleRevertPost"},
	{"Load", "handleBranchLoad"},
	{"Delete", "handleDelete"},
	{"DeleteWhere", "handleDelete"},
	{"Compact", "handleCompact"},
	{"AddVectors", "handleVectorPost"},
	{"DeleteVectors", "handleVectorDelete"},
	{"Vacuum", "handleVacuum"},
}

// coreCalls lists, in source order, the calls in fd whose method name is one of the lake
// operations, rendered as "<receiver kind>.<Method>/<number of arguments>".
func coreCalls(f *file, fd *ast.FuncDecl) []string {
	ops := map[string]bool{"CreatePool": true, "RemovePool": true, "RenamePool": true, "CreateBranch": true,
		"RemoveBranch": true, "MergeBranch": true, "Revert": true, "Load": true, "Delete": true, "DeleteWhere": true,
		"Compact": true, "AddVectors": true, "DeleteVectors": true, "Vacuum": true}
	var out []string
	ast.Inspect(fd.Body, func(n ast.Node) bool {
		call, ok := n.(*ast.CallExpr)
		if !ok {
			return true
		}
		sel, ok := call.Fun.(*ast.SelectorExpr)
		if !ok || !ops[sel.Sel.Name] {
			return true
		}
		recv, ok := selName(sel.X)
		if !ok {
			return true
		}
		kind := recv
		switch recv {
		case "l.root", "c.root":
			kind = "root"
		case "lk":
			kind = "local" // a lakeapi local handle: the very implementation of direct access
		case "p", "pool":
			kind = "pool"
		}
		out = append(out, fmt.Sprintf("%s.%s/%d", kind, sel.Sel.Name, len(call.Args)))
		return true
	})
	return out
}

func comparesToEmptyString(fd *ast.FuncDecl) bool {
	found := false
	ast.Inspect(fd.Body, func(n ast.Node) bool {
		be, ok := n.(*ast.BinaryExpr)
		if !ok || be.Op != token.EQL {
			return true
		}
		if s, ok := strLit(be.Y); ok && s == "" {
			if x, ok := selName(be.X); ok && (x == "name" || x == "req.Name") {
				found = true
			}
		}
		return true
	})
	return found
}

func genC19Dispatch(repo string, b *strings.Builder) error {
	lf, err := parseFile(repo, "lake/api/local.go")
	if err != nil {
		return err
	}
	hf, err := parseFile(repo, "service/handlers.go")
	if err != nil {
		return err
	}
	var rows []string
	var viaLocal []string
	for _, m := range c19Methods {
		lfd, err := lf.funcDecl("local", m.method)
		if err != nil {
			return err
		}
		hfd, err := hf.funcDecl("", m.handler)
		if err != nil {
			return err
		}
		pick := func(calls []string) string {
			for _, c := range calls {
				if strings.Contains(c, "."+m.method+"/") {
					return c
				}
			}
			return ""
		}
		lc, hc := pick(coreCalls(lf, lfd)), pick(coreCalls(hf, hfd))
		if lc == "" || hc == "" {
			return fmt.Errorf("dispatch: no call of %s found in local.%s (%q) or %s (%q)", m.method, m.method, lc, m.handler, hc)
		}
		rows = append(rows, fmt.Sprintf("(%s, %s, %s)", leanStr(m.method), leanStr(lc), leanStr(hc)))
		if strings.HasPrefix(hc, "local."+m.method+"/") {
			viaLocal = append(viaLocal, m.method)
		}
	}
	fmt.Fprintf(b, "def dispatch : List (String × String × String) :=\n  [%s]\n", strings.Join(rows, ",\n   "))
	fmt.Fprintf(b, "def viaLocalHandle : List String := %s\n", leanStrList(viaLocal))
	// the pool-name guard
	lcp, err := lf.funcDecl("local", "CreatePool")
	if err != nil {
		return err
	}
	hcp, err := hf.funcDecl("", "handlePoolPost")
	if err != nil {
		return err
	}
	fmt.Fprintf(b, "def localChecksEmptyPoolName : Bool := %v\n", comparesToEmptyString(lcp))
	fmt.Fprintf(b, "def handlerChecksEmptyPoolName : Bool := %v\n", comparesToEmptyString(hcp))
	// the reader handed to Branch.Load by the handler, and what warningsReader.Read does with an error
	hl, err := hf.funcDecl("", "handleBranchLoad")
	if err != nil {
		return err
	}
	wrapped := false
	ast.Inspect(hl.Body, func(n ast.Node) bool {
		if cl, ok := n.(*ast.CompositeLit); ok {
			if id, ok := cl.Type.(*ast.Ident); ok && id.Name == "warningsReader" {
				wrapped = true
			}
		}
		return true
	})
	swallows := false
	if wr, err := hf.funcDecl("warningsReader", "Read"); err == nil {
		ast.Inspect(wr.Body, func(n ast.Node) bool {
			ifs, ok := n.(*ast.IfStmt)
			if !ok {
				return true
			}
			if renderExpr(hf, ifs.Cond) != "err != nil" {
				return true
			}
			for _, st := range ifs.Body.List {
				if ret, ok := st.(*ast.ReturnStmt); ok && len(ret.Results) == 2 {
					if id, ok := identName(ret.Results[1]); ok && id == "nil" {
						swallows = true
					}
				}
			}
			return true
		})
	} else if wrapped {
		return fmt.Errorf("dispatch: handleBranchLoad uses warningsReader but its Read method was not found")
	}
	if err := genC19Record(repo, b); err != nil {
		return err
	}
	fmt.Fprintf(b, "def loadReaderWrapped : Bool := %v\n", wrapped)
	fmt.Fprintf(b, "def loadReaderSwallowsErrors : Bool := %v\n", wrapped && swallows)
	return nil
}

// isControlSig: func (…) WriteControl(v interface{}) error  (or `any`)
func isControlSig(fd *ast.FuncDecl) bool {
	if fd.Type.Params == nil || len(fd.Type.Params.List) != 1 {
		return false
	}
	switch t := fd.Type.Params.List[0].Type.(type) {
	case *ast.InterfaceType:
		return t.Methods == nil || len(t.Methods.List) == 0
	case *ast.Ident:
		return t.Name == "any"
	}
	return false
}

// ---- api/client/request.go: the replay recorder around every request body -----------------

func evalIntProduct(e ast.Expr) (int64, bool) {
	switch e := e.(type) {
	case *ast.BasicLit:
		return intLit(e)
	case *ast.ParenExpr:
		return evalIntProduct(e.X)
	case *ast.BinaryExpr:
		x, ok1 := evalIntProduct(e.X)
		y, ok2 := evalIntProduct(e.Y)
		if !ok1 || !ok2 {
			return 0, false
		}
		switch e.Op {
		case token.MUL:
			return x * y, true
		case token.ADD:
			return x + y, true
		case token.SHL:
			return x << uint(y), true
		}
	}
	return 0, false
}

func genC19Record(repo string, b *strings.Builder) error {
	f, err := parseFile(repo, "api/client/request.go")
	if err != nil {
		return err
	}
	// limit: the `limit:` field of the recordReader literal
	limit := int64(-1)
	ast.Inspect(f.f, func(n ast.Node) bool {
		cl, ok := n.(*ast.CompositeLit)
		if !ok {
			return true
		}
		if id, ok := cl.Type.(*ast.Ident); !ok || id.Name != "recordReader" {
			return true
		}
		for _, el := range cl.Elts {
			if kv, ok := el.(*ast.KeyValueExpr); ok {
				if k, ok := identName(kv.Key); ok && k == "limit" {
					if v, ok := evalIntProduct(kv.Value); ok {
						limit = v
					}
				}
			}
		}
		return true
	})
	if limit < 0 {
		return fmt.Errorf("api/client/request.go: the limit of recordReader not recognised")
	}
	fd, err := f.funcDecl("recordReader", "Read")
	if err != nil {
		return err
	}
	// `n, err := r.Reader.Read(b)` first; `return n, err` last; n never assigned in between
	if len(fd.Body.List) < 2 {
		return fmt.Errorf("%s: recordReader.Read: body not recognised", f.pos(fd))
	}
	first, ok := fd.Body.List[0].(*ast.AssignStmt)
	if !ok || first.Tok != token.DEFINE || len(first.Lhs) != 2 || len(first.Rhs) != 1 {
		return fmt.Errorf("%s: recordReader.Read: first statement is not `n, err := …Read(b)`", f.pos(fd))
	}
	nvar, ok1 := identName(first.Lhs[0])
	if _, ok2 := callTo(first.Rhs[0], "r.Reader.Read"); !ok1 || !ok2 {
		return fmt.Errorf("%s: recordReader.Read: first statement is not a Read of the wrapped reader", f.pos(fd))
	}
	last, ok := fd.Body.List[len(fd.Body.List)-1].(*ast.ReturnStmt)
	if !ok || len(last.Results) != 2 {
		return fmt.Errorf("%s: recordReader.Read: last statement is not a two-value return", f.pos(fd))
	}
	ret, _ := identName(last.Results[0])
	reassigned := false
	for _, st := range fd.Body.List[1:] {
		ast.Inspect(st, func(n ast.Node) bool {
			switch x := n.(type) {
			case *ast.AssignStmt:
				for _, l := range x.Lhs {
					if id, ok := identName(l); ok && id == nvar {
						reassigned = true
					}
				}
			case *ast.IncDecStmt:
				if id, ok := identName(x.X); ok && id == nvar {
					reassigned = true
				}
			}
			return true
		})
	}
	// what is recorded: r.buf.Write(b[:X])
	recorded := ""
	ast.Inspect(fd.Body, func(n ast.Node) bool {
		if args, ok := callTo2(n, "r.buf.Write"); ok && len(args) == 1 {
			recorded = renderExpr(f, args[0])
		}
		return true
	})
	fmt.Fprintf(b, "def recordLimit : Nat := %d\n", limit)
	fmt.Fprintf(b, "def recordReaderReturnsReadCount : Bool := %v\n", ret == nvar && !reassigned)
	fmt.Fprintf(b, "def recordReaderRecords : String := %s\n", leanStr(recorded))
	return nil
}

func callTo2(n ast.Node, name string) ([]ast.Expr, bool) {
	e, ok := n.(ast.Expr)
	if !ok {
		return nil, false
	}
	return callTo(e, name)
}
