/-
  Invariants of every snapshot of every commit store (`snapAt_all'`: induction along the
  fold `Store.Snapshot` computes): distinct object ids, ids below the id counter; the
  freshness invariant `Good` of the pool state and its preservation by the operations of C14.
-/
import Zed.Proofs.LakeCompact
namespace Zed.Lake
variable {K : Type}

theorem playAction_nodup (s s' : Snap K) (a : Action K) (h : playAction s a = .ok s')
    (hn : (s.objs.map (·.id)).Nodup) : (s'.objs.map (·.id)).Nodup := by
  cases a with
  | add o =>
    obtain ⟨h1, h2⟩ := addObj_ok s s' o h
    rw [h2]; exact nodup_ids_append s o hn h1
  | del x =>
    rw [(delObj_ok s s' x h).2]; exact nodup_ids_filter s x hn
  | addVec v =>
    simp only [playAction, Snap.addVec] at h
    split at h <;> first | (cases h; exact hn) | cases h
  | delVec v =>
    simp only [playAction, Snap.delVec] at h
    split at h <;> first | (cases h; exact hn) | cases h

theorem play_nodup (s s' : Snap K) (as : List (Action K)) (h : play s as = .ok s')
    (hn : (s.objs.map (·.id)).Nodup) : (s'.objs.map (·.id)).Nodup := by
  induction as generalizing s with
  | nil => simp only [play, Except.ok.injEq] at h; subst h; exact hn
  | cons a as ih =>
    simp only [play] at h
    cases ha : playAction s a with
    | error e => simp [ha] at h
    | ok s1 => simp only [ha] at h; exact ih s1 h (playAction_nodup s s1 a ha hn)

/-- a property of snapshots that holds of the empty snapshot and is preserved by `play` holds
    of every snapshot of every commit store -/
theorem snapsOf_all (P : Snap K → Prop) (h0 : P Snap.empty)
    (hplay : ∀ s s' as, play s as = .ok s' → P s → P s')
    (cs : List (Commit K)) : ∀ r ∈ snapsOf cs, ∀ snap, r = .ok snap → P snap := by
  unfold snapsOf
  suffices H : ∀ acc : List (Except Err (Snap K)), (∀ r ∈ acc, ∀ snap, r = .ok snap → P snap) →
      ∀ r ∈ cs.foldl stepSnaps acc, ∀ snap, r = .ok snap → P snap from H [] (by simp)
  induction cs with
  | nil => intro acc h; simpa using h
  | cons c cs ih =>
    intro acc hacc
    simp only [List.foldl_cons]
    apply ih
    intro r hr snap hsnap
    simp only [stepSnaps, List.mem_append, List.mem_singleton] at hr
    rcases hr with hr | hr
    · exact hacc r hr snap hsnap
    · subst hr
      unfold commitSnap at hsnap
      cases hp : parentSnap acc c.parent with
      | error e => simp [hp] at hsnap
      | ok ps =>
        simp only [hp] at hsnap
        have hps : P ps := by
          unfold parentSnap at hp
          split at hp
          · cases hp; exact h0
          · split at hp
            · rename_i r' hg
              exact hacc r' (List.mem_of_getElem? hg) ps hp
            · cases hp
        exact hplay ps snap c.acts hsnap hps

theorem snapAt_all (P : Snap K → Prop) (h0 : P Snap.empty)
    (hplay : ∀ s s' as, play s as = .ok s' → P s → P s')
    (cs : List (Commit K)) (c : Nat) (snap : Snap K) (h : snapAt cs c = .ok snap) : P snap := by
  unfold snapAt parentSnap at h
  split at h
  · cases h; exact h0
  · split at h
    · rename_i r hg
      exact snapsOf_all P h0 hplay cs r (List.mem_of_getElem? hg) snap h
    · cases h

/-- object ids are distinct in every snapshot (the discipline of `Snapshot.AddDataObject`) -/
theorem snapAt_nodup (cs : List (Commit K)) (c : Nat) (snap : Snap K) (h : snapAt cs c = .ok snap) :
    (snap.objs.map (·.id)).Nodup :=
  snapAt_all (fun s => (s.objs.map (·.id)).Nodup) (by simp [Snap.empty])
    (fun s s' as hp hn => play_nodup s s' as hp hn) cs c snap h
end Zed.Lake

namespace Zed.Lake
variable {K V : Type}

/-- a property of snapshots that holds of the empty snapshot and is preserved by playing the
    actions of any commit of the store holds of every snapshot of the store -/
theorem snapsOf_all' (P : Snap K → Prop) (h0 : P Snap.empty) (cs : List (Commit K))
    (hplay : ∀ c ∈ cs, ∀ s s', play s c.acts = .ok s' → P s → P s') :
    ∀ r ∈ snapsOf cs, ∀ snap, r = .ok snap → P snap := by
  unfold snapsOf
  suffices H : ∀ (l : List (Commit K)) (acc : List (Except Err (Snap K))),
      (∀ c ∈ l, ∀ s s', play s c.acts = .ok s' → P s → P s') →
      (∀ r ∈ acc, ∀ snap, r = .ok snap → P snap) →
      ∀ r ∈ l.foldl stepSnaps acc, ∀ snap, r = .ok snap → P snap from H cs [] hplay (by simp)
  intro l
  induction l with
  | nil => intro acc _ h; simpa using h
  | cons c cs ih =>
    intro acc hpl hacc
    simp only [List.foldl_cons]
    apply ih _ (fun c' hc' => hpl c' (by simp [hc']))
    intro r hr snap hsnap
    simp only [stepSnaps, List.mem_append, List.mem_singleton] at hr
    rcases hr with hr | hr
    · exact hacc r hr snap hsnap
    · subst hr
      unfold commitSnap at hsnap
      cases hp : parentSnap acc c.parent with
      | error e => simp [hp] at hsnap
      | ok ps =>
        simp only [hp] at hsnap
        have hps : P ps := by
          unfold parentSnap at hp
          split at hp
          · cases hp; exact h0
          · split at hp
            · rename_i r' hg
              exact hacc r' (List.mem_of_getElem? hg) ps hp
            · cases hp
        exact hpl c (by simp) ps snap hsnap hps

theorem snapAt_all' (P : Snap K → Prop) (h0 : P Snap.empty) (cs : List (Commit K))
    (hplay : ∀ c ∈ cs, ∀ s s', play s c.acts = .ok s' → P s → P s')
    (c : Nat) (snap : Snap K) (h : snapAt cs c = .ok snap) : P snap := by
  unfold snapAt parentSnap at h
  split at h
  · cases h; exact h0
  · split at h
    · rename_i r hg
      exact snapsOf_all' P h0 cs hplay r (List.mem_of_getElem? hg) snap h
    · cases h

/-- what the invariant says about a data object mentioned in a commit: its id is below the id
    counter, and its `count` is the number of values of its file (if the file still exists) -/
def ObjOk (n : Nat) (files : List (Nat × List V)) (o : Obj K) : Prop :=
  o.id < n ∧ ∀ p, fileOf files o.id = some p → o.count = p.length

def actOk (n : Nat) (files : List (Nat × List V)) : Action K → Prop
  | .add o => ObjOk n files o
  | .addVec v => v < n
  | _ => True

def ActsOk (n : Nat) (files : List (Nat × List V)) (acts : List (Action K)) : Prop :=
  ∀ a ∈ acts, actOk n files a

def SnapOk (n : Nat) (files : List (Nat × List V)) (s : Snap K) : Prop :=
  (∀ o ∈ s.objs, ObjOk n files o) ∧ (∀ v ∈ s.vecs, v < n)

theorem playAction_ok (n : Nat) (files : List (Nat × List V)) (s s' : Snap K) (a : Action K)
    (h : playAction s a = .ok s') (hb : SnapOk n files s) (ha : actOk n files a) : SnapOk n files s' := by
  cases a with
  | add o =>
    rw [(addObj_ok s s' o h).2]
    refine ⟨?_, hb.2⟩
    intro o' ho'
    simp only [List.mem_append, List.mem_singleton] at ho'
    rcases ho' with h1 | h1
    · exact hb.1 o' h1
    · subst h1; exact ha
  | del x =>
    rw [(delObj_ok s s' x h).2]
    exact ⟨fun o ho => hb.1 o (List.mem_filter.mp ho).1, hb.2⟩
  | addVec v =>
    simp only [playAction, Snap.addVec] at h
    split at h
    · cases h
    · cases h
      refine ⟨hb.1, ?_⟩
      intro v' hv'
      simp only [List.mem_append, List.mem_singleton] at hv'
      rcases hv' with h1 | h1
      · exact hb.2 v' h1
      · subst h1; exact ha
  | delVec v =>
    simp only [playAction, Snap.delVec] at h
    split at h
    · cases h
      exact ⟨hb.1, fun v' hv' => hb.2 v' (List.mem_filter.mp hv').1⟩
    · cases h

theorem play_ok (n : Nat) (files : List (Nat × List V)) (s s' : Snap K) (as : List (Action K))
    (h : play s as = .ok s') (hb : SnapOk n files s) (ha : ActsOk n files as) : SnapOk n files s' := by
  induction as generalizing s with
  | nil => simp only [play, Except.ok.injEq] at h; subst h; exact hb
  | cons a as ih =>
    simp only [play] at h
    cases hpa : playAction s a with
    | error e => simp [hpa] at h
    | ok s1 =>
      simp only [hpa] at h
      exact ih s1 h (playAction_ok n files s s1 a hpa hb (ha a (by simp))) (fun a' ha' => ha a' (by simp [ha']))

/-- **invariant of the pool state**: every data object file is below the id counter (KSUIDs are
    never reused) and every `Add` / `AddVector` action of every commit mentions an id below the
    counter and an object whose `count` is the length of its file -/
structure Good (s : State K V) : Prop where
  files : ∀ f ∈ s.files, f.1 < s.nextObj
  acts : ∀ c ∈ s.commits, ActsOk s.nextObj s.files c.acts

theorem Good.init : Good ({} : State K V) := ⟨by simp, by simp⟩

theorem Good.snap (s : State K V) (g : Good s) (c : Nat) (snap : Snap K) (h : snapAt s.commits c = .ok snap) :
    SnapOk s.nextObj s.files snap :=
  snapAt_all' (SnapOk s.nextObj s.files) ⟨by simp [Snap.empty], by simp [Snap.empty]⟩ s.commits
    (fun c hc st st' hp hb => play_ok _ _ st st' c.acts hp hb (g.acts c hc)) c snap h

theorem Good.snap_lt (s : State K V) (g : Good s) (c : Nat) (snap : Snap K) (h : snapAt s.commits c = .ok snap) :
    (∀ o ∈ snap.objs, o.id < s.nextObj) ∧ (∀ v ∈ snap.vecs, v < s.nextObj) :=
  ⟨fun o ho => ((Good.snap s g c snap h).1 o ho).1, (Good.snap s g c snap h).2⟩

/-- the file store grew by entries with fresh ids (or shrank: `sub`) -/
structure FilesExt (n : Nat) (files files' : List (Nat × List V)) : Prop where
  keep : ∀ id, id < n → ∀ p, fileOf files' id = some p → fileOf files id = some p

theorem FilesExt.refl (n : Nat) (files : List (Nat × List V)) : FilesExt n files files := ⟨fun _ _ _ h => h⟩

theorem FilesExt.append (n : Nat) (files e : List (Nat × List V)) (he : ∀ f ∈ e, n ≤ f.1) :
    FilesExt n files (files ++ e) := by
  refine ⟨?_⟩
  intro id hid p hp
  rw [fileOf_append_none] at hp
  · exact hp
  · intro f hf; have := he f hf; omega

theorem objOk_ext (n n' : Nat) (files files' : List (Nat × List V)) (hn : n ≤ n')
    (hx : FilesExt n files files') (o : Obj K) (h : ObjOk n files o) : ObjOk n' files' o :=
  ⟨by have := h.1; omega, fun p hp => h.2 p (hx.keep o.id h.1 p hp)⟩

theorem actsOk_ext (n n' : Nat) (files files' : List (Nat × List V)) (hn : n ≤ n')
    (hx : FilesExt n files files') (acts : List (Action K)) (h : ActsOk n files acts) : ActsOk n' files' acts := by
  intro a ha
  have := h a ha
  cases a with
  | add o => exact objOk_ext n n' files files' hn hx o this
  | addVec v => simp only [actOk] at *; omega
  | del x => trivial
  | delVec x => trivial

/-- committing on a state whose stores extend `s` -/
theorem Good.commit (s s1 : State K V) (g : Good s) (b t : Nat) (acts : List (Action K))
    (hc : s1.commits = s.commits) (hn : s.nextObj ≤ s1.nextObj) (hf : ∀ f ∈ s1.files, f.1 < s1.nextObj)
    (hx : FilesExt s.nextObj s.files s1.files)
    (ha : ActsOk s1.nextObj s1.files acts) : Good (s1.commit b t acts) := by
  refine ⟨by rw [commit_files, commit_nextObj]; exact hf, ?_⟩
  intro c hcm
  rw [commit_commits, hc] at hcm
  rw [commit_nextObj, commit_files]
  simp only [List.mem_append, List.mem_singleton] at hcm
  rcases hcm with h | h
  · exact actsOk_ext _ _ _ _ hn hx _ (g.acts c h)
  · subst h; exact ha

theorem Good.commit_self (s : State K V) (g : Good s) (b t : Nat) (acts : List (Action K))
    (ha : ActsOk s.nextObj s.files acts) : Good (s.commit b t acts) :=
  Good.commit s s g b t acts rfl (Nat.le_refl _) g.files (FilesExt.refl _ _) ha

variable [DecidableEq V]

omit [DecidableEq V] in
theorem written_files (cfg : Cfg K V) (s s1 : State K V) (objs : List (Obj K)) (parts : List (List V))
    (g : Good s) (w : Written cfg s s1 objs parts) :
    (∀ f ∈ s1.files, f.1 < s1.nextObj) ∧ FilesExt s.nextObj s.files s1.files := by
  obtain ⟨e, he, hee⟩ := w.ext
  refine ⟨?_, by rw [he]; exact FilesExt.append _ _ _ (fun f hf => (hee f hf).1)⟩
  intro f hf
  rw [he] at hf
  simp only [List.mem_append] at hf
  rcases hf with h | h
  · have := g.files f h; have := w.next; omega
  · exact (hee f h).2

omit [DecidableEq V] in
theorem written_objOk (cfg : Cfg K V) (s s1 : State K V) (objs : List (Obj K)) (parts : List (List V))
    (w : Written cfg s s1 objs parts) : ∀ o ∈ objs, ObjOk s1.nextObj s1.files o :=
  fun o ho => ⟨(w.ids o ho).2, w.counts o ho⟩

theorem load_good (cfg : Cfg K V) (s s' : State K V) (b : Nat) (vals : List V) (parts : List (List V))
    (g : Good s) (h : load cfg s b vals parts = .ok s') : Good s' := by
  unfold load at h
  split at h
  · cases h
  · split at h
    · cases h
    · split at h
      · cases h
      · have w := writeObjs_spec cfg s parts g.files
        cases hw : writeObjs cfg s parts with
        | mk s1 objs =>
          rw [hw] at h w
          simp only [] at h w
          cases h
          have hc1 : s1.commits = s.commits := by
            have := writeObjs_commits cfg s parts; rw [hw] at this; exact this
          obtain ⟨hf, hx⟩ := written_files cfg s s1 objs parts g w
          apply Good.commit s s1 g _ _ _ hc1 w.next hf hx
          intro a ha
          obtain ⟨o, ho, hoa⟩ := List.mem_map.mp ha
          subst hoa
          exact written_objOk cfg s s1 objs parts w o ho

omit [DecidableEq V] in
theorem delete_good (s s' : State K V) (b : Nat) (ids : List Nat) (g : Good s)
    (h : delete s b ids = .ok s') : Good s' := by
  unfold delete at h
  opsplit h
  apply Good.commit_self s g
  intro a ha
  obtain ⟨i, _, hia⟩ := List.mem_map.mp ha
  subst hia; trivial

theorem compact_good (cfg : Cfg K V) (s s' : State K V) (b : Nat) (ids : List Nat) (vec : Bool)
    (parts : List (List V)) (g : Good s) (h : compact cfg s b ids vec parts = .ok s') : Good s' := by
  unfold compact at h
  split at h
  · cases h
  · split at h
    · cases h
    · rename_i t ht
      cases hs : snapAt s.commits t with
      | error e => simp [hs] at h
      | ok snap =>
      simp only [hs] at h
      split at h
      · cases h
      · split at h
        · cases h
        · split at h
          · cases h
          · have w := writeObjs_spec cfg s parts g.files
            cases hw : writeObjs cfg s parts with
            | mk s1 objs =>
              rw [hw] at h w
              simp only [] at h w
              split at h
              · cases h
              · rename_i p1 hp1
                split at h
                · cases h
                · rename_i p2 hp2
                  split at h
                  · cases h
                  · rename_i p3 hp3
                    cases h
                    have e1 := addAll_spec _ _ _ hp1
                    have e2 := addVecAll_spec _ _ _ hp2
                    have hb := (Good.snap_lt s g _ snap hs)
                    have e3 := delAll_spec p2 p3 _ (by
                      intro id hid
                      rw [e2, e1]
                      simp only [Patch.new, Snap.hasObj, List.nil_append]
                      rw [List.any_eq_false]
                      intro o ho hc
                      have h1 := (w.ids o ho).1
                      obtain ⟨o', ho', hoid'⟩ := List.mem_map.mp hid
                      have h2 := hb.1 o' (List.mem_filter.mp ho').1
                      have : o.id = id := by simpa using hc
                      omega) hp3
                    have hc1 : s1.commits = s.commits := by
                      have := writeObjs_commits cfg s parts; rw [hw] at this; exact this
                    obtain ⟨hf, hx⟩ := written_files cfg s s1 objs parts g w
                    apply Good.commit s s1 g _ _ _ hc1 w.next hf hx
                    rw [e3, e2, e1]
                    intro a ha
                    simp only [Patch.commitActions, Patch.new, List.nil_append, List.map_nil, List.append_nil,
                      List.mem_append, List.mem_map] at ha
                    rcases ha with ((⟨i, _, h⟩ | ⟨o, ho, h⟩) | ⟨v, hv, h⟩)
                    · subst h; trivial
                    · subst h; exact written_objOk cfg s s1 objs parts w o ho
                    · subst h
                      split at hv
                      · obtain ⟨o, ho, hov⟩ := List.mem_map.mp hv
                        rw [← hov]; exact (w.ids o ho).2
                      · simp at hv

omit [DecidableEq V] in
theorem checkIds_none (f : Nat → Option Err) (ids : List Nat) (h : checkIds f ids = none) :
    ∀ i ∈ ids, f i = none := by
  induction ids with
  | nil => simp
  | cons x xs ih =>
    simp only [checkIds] at h
    cases hx : f x with
    | some e => simp [hx] at h
    | none =>
      simp only [hx] at h
      intro i hi
      simp only [List.mem_cons] at hi
      rcases hi with h1 | h1
      · subst h1; exact hx
      · exact ih h i h1

omit [DecidableEq V] in
theorem addVectors_good (s s' : State K V) (b : Nat) (ids : List Nat) (g : Good s)
    (h : addVectors s b ids = .ok s') : Good s' := by
  unfold addVectors addVectorsOf at h
  split at h
  · cases h
  · split at h
    · cases h
    · split at h
      · cases h
      · rename_i t _ _ snap hs
        split at h
        · cases h
        · rename_i hchk
          cases h
          apply Good.commit_self s g
          intro a ha
          obtain ⟨i, hi, hia⟩ := List.mem_map.mp ha
          subst hia
          have hb := Good.snap_lt s g _ snap hs
          have : snap.hasObj i = true := by
            have := checkIds_none _ _ hchk i hi
            cases hh : snap.hasObj i with
            | true => rfl
            | false => simp [hh] at this
          exact hasObj_lt snap _ _ hb.1 this

omit [DecidableEq V] in
theorem deleteVectors_good (s s' : State K V) (b : Nat) (ids : List Nat) (g : Good s)
    (h : deleteVectors s b ids = .ok s') : Good s' := by
  unfold deleteVectors deleteVectorsOf at h
  opsplit h
  apply Good.commit_self s g
  intro a ha
  obtain ⟨i, _, hia⟩ := List.mem_map.mp ha
  subst hia; trivial

omit [DecidableEq V] in
theorem fileOf_filter_id (files : List (Nat × List V)) (q : Nat → Bool) (id : Nat) :
    fileOf (files.filter (fun f => q f.1)) id = if q id then fileOf files id else none := by
  unfold fileOf
  rw [List.find?_filter]
  cases hq : q id
  · have : (fun (a : Nat × List V) => decide (q a.1 = true ∧ (a.1 == id) = true)) = (fun _ => false) := by
      funext a
      by_cases ha : a.1 = id
      · rw [ha, hq]; simp
      · have : (a.1 == id) = false := by simpa using ha
        simp [this]
    rw [this]
    have : files.find? (fun _ => false) = none := by
      rw [List.find?_eq_none]; intro x _; simp
    rw [this]; simp
  · have : (fun (a : Nat × List V) => decide (q a.1 = true ∧ (a.1 == id) = true)) = (fun a => a.1 == id) := by
      funext a
      by_cases ha : a.1 = id
      · rw [ha, hq]; simp
      · have : (a.1 == id) = false := by simpa using ha
        simp [this]
    rw [this]
    simp

omit [DecidableEq V] in
theorem vacuum_good (s s' : State K V) (c : Nat) (g : Good s) (h : vacuum s c = .ok s') : Good s' := by
  obtain ⟨hc, ids, _, hf⟩ := vacuum_spec s s' c h
  have hn : s'.nextObj = s.nextObj := by
    unfold vacuum at h
    split at h <;> first | (cases h; rfl) | cases h
  have hx : FilesExt s.nextObj s.files s'.files := by
    refine ⟨?_⟩
    intro id _ p hp
    rw [hf, fileOf_filter_id s.files (fun i => !ids.contains i)] at hp
    split at hp
    · exact hp
    · cases hp
  refine ⟨?_, ?_⟩
  · intro f hfm
    rw [hf] at hfm
    rw [hn]; exact g.files f (List.mem_filter.mp hfm).1
  · intro c' hc'
    rw [hc] at hc'
    rw [hn]
    exact actsOk_ext _ _ _ _ (Nat.le_refl _) hx _ (g.acts c' hc')

omit [DecidableEq V] in
theorem createBranch_good (s s' : State K V) (n p : Nat) (g : Good s) (h : createBranch s n p = .ok s') : Good s' := by
  unfold createBranch at h
  opsplit h
  exact ⟨g.files, g.acts⟩

theorem deleteWhere_good (cfg : Cfg K V) (s s' : State K V) (b : Nat) (keep : V → Bool) (parts : List (List V))
    (g : Good s) (h : deleteWhere cfg s b keep parts = .ok s') : Good s' := by
  unfold deleteWhere at h
  split at h
  · cases h
  · rename_i t ht
    cases hs : snapAt s.commits t with
    | error e => simp [hs] at h
    | ok snap =>
    simp only [hs] at h
    split at h
    · cases h
    · split at h
      · cases h
      · split at h
        · cases h
        · have w := writeObjs_spec cfg s parts g.files
          cases hw : writeObjs cfg s parts with
          | mk s1 objs =>
            rw [hw] at h w
            simp only [] at h w
            split at h
            · cases h
            · rename_i p1 hp1
              split at h
              · cases h
              · rename_i p2 hp2
                cases h
                have e1 := delAll_spec _ p1 _ (by intro id _; simp [Patch.new, Snap.hasObj]) hp1
                have e2 := addAll_spec _ _ _ hp2
                have hc1 : s1.commits = s.commits := by
                  have := writeObjs_commits cfg s parts; rw [hw] at this; exact this
                obtain ⟨hf, hx⟩ := written_files cfg s s1 objs parts g w
                apply Good.commit s s1 g _ _ _ hc1 w.next hf hx
                rw [e2, e1]
                intro a ha
                simp only [Patch.commitActions, Patch.new, List.nil_append, List.map_nil, List.append_nil,
                  List.mem_append, List.mem_map] at ha
                rcases ha with (⟨i, _, h⟩ | ⟨o, ho, h⟩)
                · subst h; trivial
                · subst h; exact written_objOk cfg s s1 objs parts w o ho


/-! ### patches only carry objects that come from commit actions or the base snapshot -/

section patches
variable {K : Type}

theorem patch_playAction_ok (Q : Obj K → Prop) (p p' : Patch K) (a : Action K)
    (h : p.playAction a = .ok p') (hd : ∀ o ∈ p.diff.objs, Q o)
    (ha : ∀ o, a = .add o → Q o) : (∀ o ∈ p'.diff.objs, Q o) ∧ p'.base = p.base := by
  cases a with
  | add o =>
    have := (addObj_diff p p' o h).2.2
    subst this
    refine ⟨?_, rfl⟩
    intro o' ho'
    simp only [List.mem_append, List.mem_singleton] at ho'
    rcases ho' with h1 | h1
    · exact hd o' h1
    · subst h1; exact ha _ rfl
  | del x =>
    simp only [Patch.playAction, Patch.delObj] at h
    split at h
    · cases hdl : p.diff.delObj x with
      | error e => simp [hdl] at h
      | ok d =>
        simp only [hdl, Except.ok.injEq] at h
        subst h
        rw [(delObj_ok _ _ _ hdl).2]
        exact ⟨fun o ho => hd o (List.mem_filter.mp ho).1, rfl⟩
    · split at h
      · cases h
      · cases h; exact ⟨hd, rfl⟩
  | addVec v =>
    simp only [Patch.playAction, Patch.addVec] at h
    split at h
    · cases h
    · cases hdl : p.diff.addVec v with
      | error e => simp [hdl] at h
      | ok d =>
        simp only [hdl, Except.ok.injEq] at h
        subst h
        have : d.objs = p.diff.objs := by
          simp only [Snap.addVec] at hdl
          split at hdl <;> first | (cases hdl; rfl) | cases hdl
        exact ⟨by simpa [this] using hd, rfl⟩
  | delVec v =>
    simp only [Patch.playAction, Patch.delVec] at h
    split at h
    · cases hdl : p.diff.delVec v with
      | error e => simp [hdl] at h
      | ok d =>
        simp only [hdl, Except.ok.injEq] at h
        subst h
        have : d.objs = p.diff.objs := by
          simp only [Snap.delVec] at hdl
          split at hdl <;> first | (cases hdl; rfl) | cases hdl
        exact ⟨by simpa [this] using hd, rfl⟩
    · split at h
      · cases h
      · cases h; exact ⟨hd, rfl⟩

theorem patch_play_ok (Q : Obj K → Prop) (p p' : Patch K) (as : List (Action K))
    (h : p.play as = .ok p') (hd : ∀ o ∈ p.diff.objs, Q o)
    (ha : ∀ o, Action.add o ∈ as → Q o) : (∀ o ∈ p'.diff.objs, Q o) ∧ p'.base = p.base := by
  induction as generalizing p with
  | nil => simp only [Patch.play, Except.ok.injEq] at h; subst h; exact ⟨hd, rfl⟩
  | cons a as ih =>
    simp only [Patch.play] at h
    cases hpa : p.playAction a with
    | error e => simp [hpa] at h
    | ok p1 =>
      simp only [hpa] at h
      obtain ⟨h1, h2⟩ := patch_playAction_ok Q p p1 a hpa hd (fun o ho => ha o (by simp [ho]))
      obtain ⟨h3, h4⟩ := ih p1 h h1 (fun o ho => ha o (by simp [ho]))
      exact ⟨h3, h4.trans h2⟩

theorem diffAdds_sub (pp pc p p' : Patch K) (dirty d' : Bool) (os : List (Obj K))
    (h : diffAdds pp pc p dirty os = .ok (p', d')) :
    (∀ o ∈ p'.diff.objs, o ∈ p.diff.objs ∨ o ∈ os) ∧ p'.diff.vecs = p.diff.vecs ∧ p'.delVecs = p.delVecs := by
  induction os generalizing p dirty with
  | nil =>
    simp only [diffAdds, Except.ok.injEq, Prod.mk.injEq] at h
    obtain ⟨h1, _⟩ := h
    subst h1
    exact ⟨fun o ho => Or.inl ho, rfl, rfl⟩
  | cons o os ih =>
    unfold diffAdds at h
    split at h
    · split at h
      · cases h
      · cases ha : p.addObj o with
        | error e => simp [ha] at h
        | ok p1 =>
          simp only [ha] at h
          have hp1 := (addObj_diff p p1 o ha).2.2
          obtain ⟨h1, h2, h3⟩ := ih p1 true h
          subst hp1
          refine ⟨?_, h2, h3⟩
          intro o' ho'
          rcases h1 o' ho' with h4 | h4
          · simp only [List.mem_append, List.mem_singleton] at h4
            rcases h4 with h5 | h5
            · exact Or.inl h5
            · exact Or.inr (by simp [h5])
          · exact Or.inr (by simp [h4])
    · obtain ⟨h1, h2, h3⟩ := ih p dirty h
      exact ⟨fun o' ho' => (h1 o' ho').elim Or.inl (fun h4 => Or.inr (by simp [h4])), h2, h3⟩

theorem delObj_sub (p p' : Patch K) (x : Nat) (h : p.delObj x = .ok p') :
    (∀ o ∈ p'.diff.objs, o ∈ p.diff.objs) ∧ p'.diff.vecs = p.diff.vecs ∧ p'.delVecs = p.delVecs := by
  simp only [Patch.delObj] at h
  split at h
  · cases hdl : p.diff.delObj x with
    | error e => simp [hdl] at h
    | ok d =>
      simp only [hdl, Except.ok.injEq] at h
      subst h
      rw [(delObj_ok _ _ _ hdl).2]
      exact ⟨fun o ho => (List.mem_filter.mp ho).1, rfl, rfl⟩
  · split at h
    · cases h
    · cases h; exact ⟨fun o ho => ho, rfl, rfl⟩

theorem diffDels_sub (pp p p' : Patch K) (dirty d' : Bool) (ids : List Nat)
    (h : diffDels pp p dirty ids = .ok (p', d')) :
    (∀ o ∈ p'.diff.objs, o ∈ p.diff.objs) ∧ p'.diff.vecs = p.diff.vecs ∧ p'.delVecs = p.delVecs := by
  induction ids generalizing p dirty with
  | nil =>
    simp only [diffDels, Except.ok.injEq, Prod.mk.injEq] at h
    obtain ⟨h1, _⟩ := h
    subst h1
    exact ⟨fun o ho => ho, rfl, rfl⟩
  | cons x xs ih =>
    unfold diffDels at h
    split at h
    · cases ha : p.delObj x with
      | error e => simp [ha] at h
      | ok p1 =>
        simp only [ha] at h
        obtain ⟨a1, a2, a3⟩ := delObj_sub p p1 x ha
        obtain ⟨h1, h2, h3⟩ := ih p1 true h
        exact ⟨fun o ho => a1 o (h1 o ho), h2.trans a2, h3.trans a3⟩
    · cases h

/-- everything `Diff(parent, child)` adds is an object of the child patch (its base or its diff);
    it carries no vector actions -/
theorem diff_sub (pp pc d : Patch K) (h : diff pp pc = .ok d) :
    (∀ o ∈ d.diff.objs, o ∈ pc.selectAll) ∧ d.diff.vecs = [] ∧ d.delVecs = [] := by
  unfold diff at h
  cases h1 : diffAdds pp pc (Patch.new pp.toView) false pc.selectAll with
  | error e => simp [h1] at h
  | ok r =>
    obtain ⟨p1, d1⟩ := r
    simp only [h1] at h
    cases h2 : diffDels pp p1 d1 pc.delObjs with
    | error e => simp [h2] at h
    | ok r2 =>
      obtain ⟨p2, d2⟩ := r2
      simp only [h2] at h
      split at h
      · cases h
        obtain ⟨a1, a2, a3⟩ := diffAdds_sub _ _ _ _ _ _ _ h1
        obtain ⟨b1, b2, b3⟩ := diffDels_sub _ _ _ _ _ _ h2
        refine ⟨?_, by rw [b2, a2]; rfl, by rw [b3, a3]; rfl⟩
        intro o ho
        rcases a1 o (b1 o ho) with h4 | h4
        · simp [Patch.new] at h4
        · exact h4
      · cases h

theorem find_mem (s : Snap K) (id : Nat) (o : Obj K) (h : s.find id = some o) : o ∈ s.objs :=
  List.mem_of_find?_eq_some h

theorem revertAdds_mem (B : Snap K) (p : Patch K) (hb : p.base = .snap B) (tip : Snap K)
    (ids : List Nat) (acts : List (Action K)) (h : p.revertAdds tip ids = .ok acts) :
    ∀ a ∈ acts, ∃ o, a = .add o ∧ o ∈ B.objs := by
  induction ids generalizing acts with
  | nil =>
    simp only [Patch.revertAdds, Except.ok.injEq] at h
    subst h; intro a ha; cases ha
  | cons x xs ih =>
    unfold Patch.revertAdds at h
    rw [hb] at h
    cases hl : (View.snap B).lookup x with
    | none => simp [hl] at h
    | some o =>
      simp only [hl] at h
      have hmem : o ∈ B.objs := find_mem B x o (by simpa [View.lookup] using hl)
      cases hr : p.revertAdds tip xs with
      | error e => simp [hr] at h
      | ok r =>
        simp only [hr, Except.ok.injEq] at h
        have := ih r hr
        subst h
        intro a ha
        split at ha
        · exact this a ha
        · simp only [List.mem_cons] at ha
          rcases ha with h1 | h1
          · exact ⟨o, h1, hmem⟩
          · exact this a h1

theorem getCommit_mem (cs : List (Commit K)) (c : Nat) (co : Commit K) (h : getCommit cs c = some co) : co ∈ cs := by
  unfold getCommit at h
  split at h
  · cases h
  · exact List.mem_of_getElem? h

theorem pathActions_mem (cs : List (Commit K)) (ids : List Nat) (a : Action K) (h : a ∈ pathActions cs ids) :
    ∃ co ∈ cs, a ∈ co.acts := by
  unfold pathActions at h
  obtain ⟨c, _, hc⟩ := List.mem_flatMap.mp h
  cases hg : getCommit cs c with
  | none => simp [hg] at hc
  | some co => simp only [hg] at hc; exact ⟨co, getCommit_mem cs c co hg, hc⟩

end patches

omit [DecidableEq V] in
theorem patchOfPath_ok (s : State K V) (g : Good s) (base : Snap K) (hbase : SnapOk s.nextObj s.files base)
    (baseID commit : Nat) (p : Patch K) (h : patchOfPath s.commits base baseID commit = .ok p) :
    (∀ o ∈ p.diff.objs, ObjOk s.nextObj s.files o) ∧ p.base = .snap base := by
  unfold patchOfPath at h
  simp only [] at h
  have := patch_play_ok (ObjOk s.nextObj s.files) _ p _ h (by simp [Patch.new]) (by
    intro o ho
    obtain ⟨co, hco, hmem⟩ := pathActions_mem _ _ _ ho
    exact g.acts co hco _ hmem)
  exact ⟨this.1, this.2⟩

omit [DecidableEq V] in
theorem merge_good (s s' : State K V) (c p : Nat) (g : Good s) (h : merge s c p = .ok s') : Good s' := by
  unfold merge at h
  split at h
  · rename_i ctip ptip _ _
    cases hm : mergeActions s.commits ctip ptip with
    | error e => simp [hm] at h
    | ok acts =>
      simp only [hm, Except.ok.injEq] at h
      subst h
      apply Good.commit_self s g
      unfold mergeActions at hm
      split at hm
      · cases hm
      · simp only [] at hm
        split at hm
        · cases hm
        · cases hb : snapAt s.commits (commonAncestor (pathAt s.commits ptip) (pathAt s.commits ctip)) with
          | error e => simp [hb] at hm
          | ok base =>
            simp only [hb] at hm
            have hbase := Good.snap s g _ base hb
            cases hc : patchOfPath s.commits base (commonAncestor (pathAt s.commits ptip) (pathAt s.commits ctip)) ctip with
            | error e => simp [hc] at hm
            | ok pc =>
              simp only [hc] at hm
              cases hp : patchOfPath s.commits base (commonAncestor (pathAt s.commits ptip) (pathAt s.commits ctip)) ptip with
              | error e => simp [hp] at hm
              | ok pp =>
                simp only [hp] at hm
                cases hd : diff pp pc with
                | error e => simp [hd] at hm
                | ok d =>
                  simp only [hd, Except.ok.injEq] at hm
                  subst hm
                  obtain ⟨c1, c2⟩ := patchOfPath_ok s g base hbase _ _ pc hc
                  obtain ⟨d1, d2, d3⟩ := diff_sub pp pc d hd
                  intro a ha
                  simp only [Patch.commitActions, d2, d3, List.map_nil, List.append_nil, List.mem_append,
                    List.mem_map] at ha
                  rcases ha with (⟨i, _, h1⟩ | ⟨o, ho, h1⟩)
                  · subst h1; trivial
                  · subst h1
                    have := d1 o ho
                    simp only [Patch.selectAll, Patch.toView, View.selectAll, c2, List.mem_append] at this
                    rcases this with h2 | h2
                    · exact hbase.1 o h2
                    · exact c1 o h2
  · cases h

omit [DecidableEq V] in
theorem revert_good (s s' : State K V) (b c : Nat) (g : Good s) (h : revert s b c = .ok s') : Good s' := by
  unfold revert at h
  split at h
  · cases h
  · rename_i t _
    cases hp : patchOfCommit s.commits c with
    | error e => simp [hp] at h
    | ok patch =>
      simp only [hp] at h
      cases hs : snapAt s.commits t with
      | error e => simp [hs] at h
      | ok tipSnap =>
        simp only [hs] at h
        cases hr : patch.revert tipSnap with
        | error e => simp [hr] at h
        | ok acts =>
          simp only [hr, Except.ok.injEq] at h
          subst h
          apply Good.commit_self s g
          -- the patch of commit `c` sits over the snapshot of its parent
          unfold patchOfCommit at hp
          cases hg : getCommit s.commits c with
          | none => simp [hg] at hp
          | some co =>
            simp only [hg] at hp
            cases hb : snapAt s.commits co.parent with
            | error e => simp [hb] at hp
            | ok base =>
              simp only [hb] at hp
              have hbase := Good.snap s g _ base hb
              have hpb := (patch_play_ok (fun _ => True) _ patch _ hp (by simp) (by simp)).2
              unfold Patch.revert at hr
              simp only [] at hr
              cases hra : patch.revertAdds tipSnap patch.delObjs with
              | error e => simp [hra] at hr
              | ok adds =>
                simp only [hra] at hr
                split at hr
                · cases hr
                · cases hr
                  intro a ha
                  simp only [List.mem_append, List.mem_map] at ha
                  rcases ha with (⟨o, _, h1⟩ | h1)
                  · subst h1; trivial
                  · obtain ⟨o, ho, hmem⟩ := revertAdds_mem base patch hpb tipSnap _ adds hra a h1
                    subst ho
                    exact hbase.1 o hmem

/-- **the invariant is preserved by every operation** -/
theorem step_good (cfg : Cfg K V) (s : State K V) (op : Op V) (g : Good s) : Good (step cfg s op) := by
  unfold step
  split
  · rename_i s' ha
    cases op with
    | load b vals parts => exact load_good cfg s s' b vals parts g ha
    | delete b ids => exact delete_good s s' b ids g ha
    | deleteWhere b k parts => exact deleteWhere_good cfg s s' b k parts g ha
    | compact b ids vec parts => exact compact_good cfg s s' b ids vec parts g ha
    | addVectors b ids => exact addVectors_good s s' b ids g ha
    | deleteVectors b ids => exact deleteVectors_good s s' b ids g ha
    | vacuum c => exact vacuum_good s s' c g ha
    | createBranch n p => exact createBranch_good s s' n p g ha
    | merge c p => exact merge_good s s' c p g ha
    | revert b c => exact revert_good s s' b c g ha
  · exact g

/-- for every history, of any operations and any length, the invariant holds -/
theorem run_good (cfg : Cfg K V) (s : State K V) (ops : List (Op V)) (g : Good s) : Good (run cfg s ops) := by
  induction ops generalizing s with
  | nil => exact g
  | cons op ops ih =>
    simp only [run, List.foldl_cons]
    exact ih (step cfg s op) (step_good cfg s op g)

end Zed.Lake
