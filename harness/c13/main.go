package main

// C13 — a commit is an immutable snapshot; readers are isolated from writers.
//
// Sub-checks:
//   histories (S + T2)   histories over every operation (loads, deletes, delete-where, compaction,
//                        vectors, vacuum, branches, merges, reverts); after EVERY step every
//                        earlier commit is re-queried (`from pool@<commit id>`): status and result
//                        must be what they were when the commit was created, unless one of the
//                        commit's objects was explicitly vacuumed; data object files never change;
//                        a new commit shows what its branch shows; the same through the Lean model.
//   writers (S)          two handles load to the same branch under every schedule "A runs k scheduled
//                        storage calls, B runs its whole load, A finishes" (cooperative scheduling
//                        storage engine of hlib): both acknowledged loads must be visible to every
//                        later query (both warm handles, a fresh one) and on main's parent chain.
//   reader (S)           a query is started (commit resolved at compile time) and pulled batch by
//                        batch while another handle commits loads / deletes / compactions /
//                        delete-wheres / reverts to the same branch; the reader must return exactly
//                        the pre-state; a query started after each acknowledgement sees the commit
//                        (same handle and a fresh handle).

import (
	"verifharness/hlib"
	"verifharness/lakeh"
)

func main() { hlib.Main("C13", run) }

func run(c *hlib.Ctx) {
	c.Rule("history = pool config + value alphabet + 2..12 operations from {load, delete, delete-where, compact(±vectors), vector add/del, " +
		"vacuum of any commit, branch, merge, revert} (guarded against the known C14/C15 defects, which have their own checks); after every " +
		"step every earlier commit is re-queried; reader cases = a started query pulled batch by batch while 1..4 writer operations commit")
	w := map[string]int{"load": 26, "delete": 10, "delwhere": 8, "compact": 12, "addvec": 3, "delvec": 2, "vacuum": 7, "branch": 6, "merge": 10, "revert": 12, "badid": 2, "manage": 4}
	guarded := lakeh.Profile{Name: "c13", W: w, MaxOps: 12, Guarded: true, Plain: true, NoEmptyBranch: true}
	if c.Want("histories") {
		lakeh.RunPlan(c, lakeh.Plan{
			Opt:      lakeh.Options{Prop: "C13", Commits: true, StopOnFail: true, ColdProbe: true, PruneSnaps: true},
			Profiles: []lakeh.Profile{guarded},
			Quick:    50, Thorough: 800,
		})
	}
	if c.Want("writers") && c.Replay == nil {
		lakeh.RunWriters(c, 60)
	}
	if c.Want("reader") && c.Replay == nil {
		lakeh.RunReaders(c, c.N(30, 400))
	}
}
