import Zed.Model.FuseTy
/-!
  C20 model, layer 2 — `agg.merge`, `mergeAllRecords`, `Schema.Mixin` and the `fuse()`
  aggregate (`runtime/sam/expr/agg/schema.go`, `fuse.go`).

  `merge` is not structurally recursive in Go (`mergeAllRecords` merges an accumulated
  record with later union members), so the model takes fuel; every theorem is stated for any
  fuel at which a result exists, and the driver passes a fuel far above any reachable depth.
-/
namespace Zed.Fuse

/-- `appendIfAbsent` -/
def appendIfAbsent (ts : List Ty) (t : Ty) : List Ty := if t ∈ ts then ts else ts ++ [t]

/-- One iteration of the field loop of `merge` on records: `name` is looked up in the
    accumulated fields; absent → appended; present with a different type → types merged. -/
def mergeFieldInto (m : Ty → Ty → Option Ty) (name : Name) (t : Ty) : Fields → Option Fields
  | .nil => some (.cons name t .nil)
  | .cons n u rest =>
    if n = name then
      if u = t then some (.cons n u rest)
      else (m u t).map fun w => .cons n w rest
    else (mergeFieldInto m name t rest).map fun r => .cons n u r

def mergeFields (m : Ty → Ty → Option Ty) (acc : Fields) : Fields → Option Fields
  | .nil => some acc
  | .cons n t rest => (mergeFieldInto m n t acc).bind fun acc' => mergeFields m acc' rest

def setAt (xs : List Ty) (i : Nat) (x : Ty) : List Ty := xs.set i x

/-- `mergeAllRecords`: the first record member absorbs every later record member. -/
def mergeAllRecords (m : Ty → Ty → Option Ty) : List Ty → List Ty → Option Nat → Option (List Ty)
  | [], out, _ => some out
  | t :: rest, out, recIdx =>
    if t.isRecord then
      match recIdx with
      | none => mergeAllRecords m rest (out ++ [t]) (some out.length)
      | some i =>
        match out[i]? with
        | none => none
        | some r => (m r t).bind fun w => mergeAllRecords m rest (setAt out i w) (some i)
    else mergeAllRecords m rest (out ++ [t]) recIdx

/-- The union branch of `merge` once the candidate member list is known. -/
def finishUnion (m : Ty → Ty → Option Ty) (types : List Ty) : Option Ty :=
  (mergeAllRecords m types [] none).map fun ts =>
    match ts with
    | [t] => t
    | ts => lookupUnion ts

/-- The tail of `merge` (neither side null, kinds do not pair up): `a` a union → its members
    plus `b`'s (or `b`), records among them merged; `b` a union → `merge(b, a)`; otherwise the
    two-member union. -/
def mergeUnion (m : Ty → Ty → Option Ty) (a b : Ty) : Option Ty :=
  match a.under with
  | .union as =>
    finishUnion m
      (match b.under with
       | .union bs => bs.toList.foldl appendIfAbsent as.toList
       | _ => appendIfAbsent as.toList b)
  | _ => if b.isUnion then m b a else some (lookupUnion [a, b])

/-- `agg.merge` -/
def merge : Nat → Ty → Ty → Option Ty
  | 0, _, _ => none
  | n + 1, a, b =>
    if a.under = tyNull then some b
    else if b.under = tyNull then some a
    else
      match a.under, b.under with
      | .record fa, .record fb => (mergeFields (merge n) fa fb).map .record
      | .array x, .array y => (merge n x y).map .array
      | .array x, .set y => (merge n x y).map .array
      | .set x, .array y => (merge n x y).map .array
      | .set x, .set y => (merge n x y).map .set
      | .map k v, .map k' v' => (merge n k k').bind fun kk => (merge n v v').map fun vv => .map kk vv
      | _, _ => mergeUnion (merge n) a b

/-- Fuel the driver uses; far above anything reachable (depth of the types bounds the need). -/
def bigFuel : Nat := 100000

/-- `Schema.Mixin` folded over a list of types (`none` = nothing mixed in yet). -/
def mixin (fuel : Nat) (s : Option Ty) (t : Ty) : Option (Option Ty) :=
  match s with
  | none => some (some t)
  | some u => (merge fuel u t).map some

def mixinAll (fuel : Nat) : Option Ty → List Ty → Option (Option Ty)
  | s, [] => some s
  | s, t :: ts => (mixin fuel s t).bind fun s' => mixinAll fuel s' ts

/-- Distinct types in first-seen order (`fuse.shapes` indexes, `Fuser.types` set). -/
def firstSeen : List Ty → List Ty → List Ty
  | _, [] => []
  | seen, t :: ts => if t ∈ seen then firstSeen seen ts else t :: firstSeen (t :: seen) ts

/-- The type the `fuse()` aggregate reports for a sequence of input types (no partials):
    `none` inside = null result for empty input. -/
def aggType (fuel : Nat) (ts : List Ty) : Option (Option Ty) := mixinAll fuel none (firstSeen [] ts)

/-! ### Leaves of types (for the embedding lemmas) -/

inductive TEl where
  | fld (n : Name)
  | elem
  | key
  | mval
  deriving DecidableEq, Repr

abbrev TLeaf := List TEl × Nat

def tpre (e : TEl) (ls : List TLeaf) : List TLeaf := ls.map fun l => (e :: l.1, l.2)

mutual
/-- Leaf paths of a type with their primitive ids; null-typed leaves carry no information and
    are left out; unions and named types are transparent. -/
def tleaves : Ty → List TLeaf
  | .prim id => if id = idNull then [] else [([], id)]
  | .record fs => tleavesF fs
  | .array t => tpre .elem (tleaves t)
  | .set t => tpre .elem (tleaves t)
  | .map k v => tpre .key (tleaves k) ++ tpre .mval (tleaves v)
  | .union ts => tleavesU ts
  | .named _ t => tleaves t
  | .enum _ => [([], idEnum)]
  | .error _ => [([], idError)]
def tleavesF : Fields → List TLeaf
  | .nil => []
  | .cons n t r => tpre (.fld n) (tleaves t) ++ tleavesF r
def tleavesU : Tys → List TLeaf
  | .nil => []
  | .cons t r => tleaves t ++ tleavesU r
end

end Zed.Fuse
