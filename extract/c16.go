package main

import (
	"fmt"
	"go/ast"
	"strings"
)

func init() { register("C16", genC16) }

func genC16(repo string) (string, error) {
	f, err := parseFile(repo, "compiler/optimizer/optimizer.go")
	if err != nil {
		return "", err
	}
	var b strings.Builder

	// reverseComparator: switch op { case lits...: return op | return "lit" }
	fd, err := f.funcDecl("", "reverseComparator")
	if err != nil {
		return "", err
	}
	sw := firstSwitch(fd.Body, "op")
	if sw == nil {
		return "", fmt.Errorf("%s: reverseComparator: no `switch op`", f.pos(fd))
	}
	var pairs []string
	for _, s := range sw.Body.List {
		cc := s.(*ast.CaseClause)
		if cc.List == nil {
			return "", fmt.Errorf("%s: reverseComparator: default clause not recognised", f.pos(cc))
		}
		ret, ok := singleReturn(cc.Body)
		if !ok {
			return "", fmt.Errorf("%s: reverseComparator: case body is not a single return", f.pos(cc))
		}
		for _, c := range cc.List {
			in, ok := strLit(c)
			if !ok {
				return "", fmt.Errorf("%s: reverseComparator: non-literal case", f.pos(c))
			}
			if out, ok := strLit(ret); ok {
				pairs = append(pairs, fmt.Sprintf("(%s, %s)", leanStr(in), leanStr(out)))
			} else if id, ok := identName(ret); ok && id == "op" {
				pairs = append(pairs, fmt.Sprintf("(%s, %s)", leanStr(in), leanStr(in)))
			} else {
				return "", fmt.Errorf("%s: reverseComparator: unrecognised return", f.pos(ret))
			}
		}
	}
	fmt.Fprintf(&b, "def reverseComparatorTable : List (String × String) :=\n  [%s]\n", strings.Join(pairs, ", "))

	// buildRangePruner: switch e.Op
	fd, err = f.funcDecl("", "buildRangePruner")
	if err != nil {
		return "", err
	}
	sw = firstSwitch(fd.Body, "e.Op")
	if sw == nil {
		return "", fmt.Errorf("%s: buildRangePruner: no `switch e.Op`", f.pos(fd))
	}
	var prunable []string
	andComb, orComb := "", ""
	for _, s := range sw.Body.List {
		cc := s.(*ast.CaseClause)
		if cc.List == nil {
			// default: must be `return nil`
			ret, ok := singleReturn(cc.Body)
			if id, ok2 := identName(ret); !ok || !ok2 || id != "nil" {
				return "", fmt.Errorf("%s: buildRangePruner: default is not `return nil`", f.pos(cc))
			}
			continue
		}
		var lits []string
		for _, c := range cc.List {
			l, ok := strLit(c)
			if !ok {
				return "", fmt.Errorf("%s: buildRangePruner: non-literal case", f.pos(c))
			}
			lits = append(lits, l)
		}
		usesLiteralComparison := false
		var combiners []string
		ast.Inspect(cc, func(n ast.Node) bool {
			if c, ok := n.(*ast.CallExpr); ok {
				if name, ok := selName(c.Fun); ok {
					switch name {
					case "literalComparison":
						usesLiteralComparison = true
					case "dag.NewBinaryExpr":
						if len(c.Args) == 3 {
							if l, ok := strLit(c.Args[0]); ok {
								combiners = append(combiners, l)
							}
						}
					}
				}
			}
			return true
		})
		switch {
		case usesLiteralComparison:
			prunable = append(prunable, lits...)
		case len(lits) == 1 && lits[0] == "and" && len(combiners) == 1:
			if err := checkAndShape(f, cc); err != nil {
				return "", err
			}
			andComb = combiners[0]
		case len(lits) == 1 && lits[0] == "or" && len(combiners) == 1:
			if err := checkOrShape(f, cc); err != nil {
				return "", err
			}
			orComb = combiners[0]
		default:
			return "", fmt.Errorf("%s: buildRangePruner: unrecognised case %v", f.pos(cc), lits)
		}
	}
	if andComb == "" || orComb == "" {
		return "", fmt.Errorf("buildRangePruner: and/or cases not found")
	}
	fmt.Fprintf(&b, "def prunableOps : List String := %s\n", leanStrList(prunable))

	// rangePrunerPred
	fd, err = f.funcDecl("", "rangePrunerPred")
	if err != nil {
		return "", err
	}
	sw = firstSwitch(fd.Body, "op")
	if sw == nil {
		return "", fmt.Errorf("%s: rangePrunerPred: no `switch op`", f.pos(fd))
	}
	var rows []string
	for _, s := range sw.Body.List {
		cc := s.(*ast.CaseClause)
		if len(cc.List) != 1 {
			return "", fmt.Errorf("%s: rangePrunerPred: expected one literal per case", f.pos(cc))
		}
		op, ok := strLit(cc.List[0])
		if !ok {
			return "", fmt.Errorf("%s: rangePrunerPred: non-literal case", f.pos(cc))
		}
		ret, ok := singleReturn(cc.Body)
		if !ok {
			return "", fmt.Errorf("%s: rangePrunerPred: case body is not a single return", f.pos(cc))
		}
		if a, ok := compareAtom(ret); ok {
			rows = append(rows, fmt.Sprintf("(%s, \"\", [%s])", leanStr(op), a))
			continue
		}
		args, ok := callTo(ret, "dag.NewBinaryExpr")
		if !ok || len(args) != 3 {
			return "", fmt.Errorf("%s: rangePrunerPred: unrecognised return", f.pos(ret))
		}
		comb, ok1 := strLit(args[0])
		a1, ok2 := compareAtom(args[1])
		a2, ok3 := compareAtom(args[2])
		if !ok1 || !ok2 || !ok3 {
			return "", fmt.Errorf("%s: rangePrunerPred: unrecognised NewBinaryExpr args", f.pos(ret))
		}
		rows = append(rows, fmt.Sprintf("(%s, %s, [%s, %s])", leanStr(op), leanStr(comb), a1, a2))
	}
	fmt.Fprintf(&b, "def rangePrunerPredTable : List (String × String × List (String × String × String)) :=\n  [%s]\n", strings.Join(rows, ",\n   "))
	fmt.Fprintf(&b, "def andCombiner : String := %s\n", leanStr(andComb))
	fmt.Fprintf(&b, "def orCombiner : String := %s\n", leanStr(orComb))

	// compare(): Call "compare" with args lhs, rhs, nullsMax literal; `op` against literal "0".
	fd, err = f.funcDecl("", "compare")
	if err != nil {
		return "", err
	}
	var nullsMax, zero, callName string
	ast.Inspect(fd.Body, func(n ast.Node) bool {
		cl, ok := n.(*ast.CompositeLit)
		if !ok {
			return true
		}
		tn, _ := selName(cl.Type)
		kv := map[string]ast.Expr{}
		for _, e := range cl.Elts {
			if p, ok := e.(*ast.KeyValueExpr); ok {
				if k, ok := identName(p.Key); ok {
					kv[k] = p.Value
				}
			}
		}
		switch tn {
		case "dag.Literal":
			if v, ok := strLit(kv["Value"]); ok {
				if v == "true" || v == "false" {
					nullsMax = v
				} else {
					zero = v
				}
			}
		case "dag.Call":
			if v, ok := strLit(kv["Name"]); ok {
				callName = v
			}
			if args, ok := kv["Args"].(*ast.CompositeLit); ok && len(args.Elts) == 3 {
				a0, _ := identName(args.Elts[0])
				a1, _ := identName(args.Elts[1])
				callName += "(" + a0 + "," + a1 + ",·)"
			}
		}
		return true
	})
	fmt.Fprintf(&b, "def compareCall : String := %s\n", leanStr(callName))
	fmt.Fprintf(&b, "def compareNullsMax : String := %s\n", leanStr(nullsMax))
	fmt.Fprintf(&b, "def compareAgainst : String := %s\n", leanStr(zero))

	// literalComparison: This on the left keeps the op, Literal on the left reverses it.
	fd, err = f.funcDecl("", "literalComparison")
	if err != nil {
		return "", err
	}
	lc, err := literalComparisonShape(f, fd)
	if err != nil {
		return "", err
	}
	fmt.Fprintf(&b, "def literalComparisonShape : List (String × String × String) := %s\n", lc)

	// lake/data/writer.go: how an object's (and a seek entry's) Min/Max are taken.
	wf, err := parseFile(repo, "lake/data/writer.go")
	if err != nil {
		return "", err
	}
	minGuard, maxGuard, err := c16BoundGuards(wf)
	if err != nil {
		return "", err
	}
	fmt.Fprintf(&b, "def objectMinGuard : String := %s\n", leanStr(minGuard))
	fmt.Fprintf(&b, "def objectMaxGuard : String := %s\n", leanStr(maxGuard))
	for _, fn := range []string{"Close", "flushSeekIndex"} {
		sw, err := c16DescSwap(wf, fn)
		if err != nil {
			return "", err
		}
		fmt.Fprintf(&b, "def descSwap%s : String := %s\n", fn, leanStr(sw))
	}
	return b.String(), nil
}

// c16BoundGuards reports the innermost conditions under which w.object.Min / w.object.Max
// are assigned from the current key ("" = unconditionally) in writeIndex / WriteWithKey.
func c16BoundGuards(f *file) (string, string, error) {
	guard := func(fn, target string) (string, error) {
		fd, err := f.funcDecl("Writer", fn)
		if err != nil {
			return "", err
		}
		found, cond := false, ""
		var walk func(n ast.Node, conds []string)
		walk = func(n ast.Node, conds []string) {
			switch n := n.(type) {
			case *ast.BlockStmt:
				for _, s := range n.List {
					walk(s, conds)
				}
			case *ast.IfStmt:
				walk(n.Body, append(append([]string{}, conds...), renderExpr(f, n.Cond)))
				if n.Else != nil {
					walk(n.Else, append(append([]string{}, conds...), "!("+renderExpr(f, n.Cond)+")"))
				}
			case *ast.ExprStmt:
				if renderExpr(f, n.X) == target {
					found = true
					cond = strings.Join(conds, " && ")
				}
			}
		}
		walk(fd.Body, nil)
		if !found {
			return "", fmt.Errorf("%s: %s not found in Writer.%s", f.path, target, fn)
		}
		return cond, nil
	}
	minG, err := guard("writeIndex", "w.object.Min.CopyFrom(key)")
	if err != nil {
		return "", "", err
	}
	maxG, err := guard("WriteWithKey", "w.object.Max.CopyFrom(key)")
	if err != nil {
		return "", "", err
	}
	return minG, maxG, nil
}

// c16DescSwap renders `if <cond> { a, b = b, a }` found in Writer.fn as "<cond> => a,b=b,a".
func c16DescSwap(f *file, fn string) (string, error) {
	fd, err := f.funcDecl("Writer", fn)
	if err != nil {
		return "", err
	}
	out := ""
	ast.Inspect(fd.Body, func(n ast.Node) bool {
		ifs, ok := n.(*ast.IfStmt)
		if !ok || len(ifs.Body.List) != 1 {
			return true
		}
		as, ok := ifs.Body.List[0].(*ast.AssignStmt)
		if !ok || len(as.Lhs) != 2 || len(as.Rhs) != 2 {
			return true
		}
		if renderExpr(f, as.Lhs[0]) == renderExpr(f, as.Rhs[1]) && renderExpr(f, as.Lhs[1]) == renderExpr(f, as.Rhs[0]) {
			out = renderExpr(f, ifs.Cond) + " => swap(" + renderExpr(f, as.Lhs[0]) + "," + renderExpr(f, as.Lhs[1]) + ")"
		}
		return true
	})
	if out == "" {
		return "", fmt.Errorf("%s: no min/max swap found in Writer.%s", f.path, fn)
	}
	return out, nil
}

// compareAtom recognises compare("op", x, y) with x,y in {literal,min,max}.
func compareAtom(e ast.Expr) (string, bool) {
	args, ok := callTo(e, "compare")
	if !ok || len(args) != 3 {
		return "", false
	}
	op, ok := strLit(args[0])
	if !ok {
		return "", false
	}
	x, ok1 := identName(args[1])
	y, ok2 := identName(args[2])
	if !ok1 || !ok2 {
		return "", false
	}
	for _, n := range []string{x, y} {
		if n != "literal" && n != "min" && n != "max" {
			return "", false
		}
	}
	return fmt.Sprintf("(%s, %s, %s)", leanStr(op), leanStr(x), leanStr(y)), true
}

// checkAndShape verifies the `and` clause: lhs/rhs := build(e.LHS/e.RHS); if lhs == nil
// return rhs; if rhs == nil return lhs; return NewBinaryExpr(c, lhs, rhs).
func checkAndShape(f *file, cc *ast.CaseClause) error {
	got := renderStmts(f, cc.Body)
	want := []string{
		"lhs := buildRangePruner(e.LHS, fld, min, max)",
		"rhs := buildRangePruner(e.RHS, fld, min, max)",
		"if lhs == nil { return rhs }",
		"if rhs == nil { return lhs }",
		"return dag.NewBinaryExpr(_, lhs, rhs)",
	}
	return sameShape(f, cc, "and", got, want)
}

func checkOrShape(f *file, cc *ast.CaseClause) error {
	got := renderStmts(f, cc.Body)
	want := []string{
		"lhs := buildRangePruner(e.LHS, fld, min, max)",
		"rhs := buildRangePruner(e.RHS, fld, min, max)",
		"if lhs == nil || rhs == nil { return nil }",
		"return dag.NewBinaryExpr(_, lhs, rhs)",
	}
	return sameShape(f, cc, "or", got, want)
}

func sameShape(f *file, cc *ast.CaseClause, name string, got, want []string) error {
	if len(got) != len(want) {
		return fmt.Errorf("%s: buildRangePruner %q clause has %d statements, expected %d", f.pos(cc), name, len(got), len(want))
	}
	for i := range got {
		if got[i] != want[i] {
			return fmt.Errorf("%s: buildRangePruner %q clause statement %d is `%s`, expected `%s`", f.pos(cc), name, i+1, got[i], want[i])
		}
	}
	return nil
}

// literalComparisonShape checks the two recognised orientations and reports them.
func literalComparisonShape(f *file, fd *ast.FuncDecl) (string, error) {
	var ts *ast.TypeSwitchStmt
	ast.Inspect(fd.Body, func(n ast.Node) bool {
		if t, ok := n.(*ast.TypeSwitchStmt); ok && ts == nil {
			ts = t
		}
		return true
	})
	if ts == nil {
		return "", fmt.Errorf("%s: literalComparison: no type switch", f.pos(fd))
	}
	var rows []string
	for _, s := range ts.Body.List {
		cc := s.(*ast.CaseClause)
		if len(cc.List) != 1 {
			return "", fmt.Errorf("%s: literalComparison: unrecognised case", f.pos(cc))
		}
		lhsT := renderExpr(f, cc.List[0])
		if len(cc.Body) != 1 {
			return "", fmt.Errorf("%s: literalComparison: case body not a single if", f.pos(cc))
		}
		ifs, ok := cc.Body[0].(*ast.IfStmt)
		if !ok || ifs.Init == nil {
			return "", fmt.Errorf("%s: literalComparison: case body not `if rhs, ok := ...`", f.pos(cc))
		}
		init := renderStmt(f, ifs.Init)
		ret, ok := singleReturnN(ifs.Body.List, 3)
		if !ok {
			return "", fmt.Errorf("%s: literalComparison: unrecognised return", f.pos(ifs))
		}
		var rhsT string
		switch init {
		case "rhs, ok := e.RHS.(*dag.Literal)":
			rhsT = "*dag.Literal"
		case "rhs, ok := e.RHS.(*dag.This)":
			rhsT = "*dag.This"
		default:
			return "", fmt.Errorf("%s: literalComparison: unrecognised assertion `%s`", f.pos(ifs), init)
		}
		r := renderExpr(f, ret[0]) + "," + renderExpr(f, ret[1]) + "," + renderExpr(f, ret[2])
		rows = append(rows, fmt.Sprintf("(%s, %s, %s)", leanStr(lhsT), leanStr(rhsT), leanStr(r)))
	}
	return "[" + strings.Join(rows, ", ") + "]", nil
}

func singleReturnN(stmts []ast.Stmt, n int) ([]ast.Expr, bool) {
	if len(stmts) != 1 {
		return nil, false
	}
	r, ok := stmts[0].(*ast.ReturnStmt)
	if !ok || len(r.Results) != n {
		return nil, false
	}
	return r.Results, true
}
