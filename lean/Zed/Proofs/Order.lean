/-!
  Helper lemmas on three-way comparisons (`Ordering`), used by the C05 and C06 proofs.

  `STr xy yz xz` is the sign-composition law for one ordered triple: the result `xz` of
  comparing x with z is what the results `xy`, `yz` force it to be (≤∘≤ → ≤, <∘≤ → <, ≤∘< → <,
  and dually).  It is a finite predicate on three `Ordering`s, so lexicographic and classified
  combinations are discharged by case analysis.
-/
namespace Zed.Ord

def STr (xy yz xz : Ordering) : Prop :=
  match xy, yz with
  | .lt, .gt => True
  | .gt, .lt => True
  | .eq, o => xz = o
  | o, .eq => xz = o
  | .lt, .lt => xz = .lt
  | .gt, .gt => xz = .gt

instance (a b c : Ordering) : Decidable (STr a b c) := by
  unfold STr; cases a <;> cases b <;> simp <;> infer_instance

theorem STr.le {a b c : Ordering} (h : STr a b c) : a ≠ .gt → b ≠ .gt → c ≠ .gt := by
  revert h; cases a <;> cases b <;> cases c <;> simp [STr]
theorem STr.lt_le {a b c : Ordering} (h : STr a b c) : a = .lt → b ≠ .gt → c = .lt := by
  revert h; cases a <;> cases b <;> cases c <;> simp [STr]
theorem STr.le_lt {a b c : Ordering} (h : STr a b c) : a ≠ .gt → b = .lt → c = .lt := by
  revert h; cases a <;> cases b <;> cases c <;> simp [STr]
theorem STr.ge {a b c : Ordering} (h : STr a b c) : a ≠ .lt → b ≠ .lt → c ≠ .lt := by
  revert h; cases a <;> cases b <;> cases c <;> simp [STr]
theorem STr.eq_eq {a b c : Ordering} (h : STr a b c) : a = .eq → b = .eq → c = .eq := by
  revert h; cases a <;> cases b <;> cases c <;> simp [STr]
theorem STr.eq_left {a b c : Ordering} (h : STr a b c) : a = .eq → c = b := by
  revert h; cases a <;> cases b <;> cases c <;> simp [STr]
theorem STr.eq_right {a b c : Ordering} (h : STr a b c) : b = .eq → c = a := by
  revert h; cases a <;> cases b <;> cases c <;> simp [STr]

/-- lexicographic combination -/
theorem STr.then {a b c a' b' c' : Ordering} (h : STr a b c)
    (h' : a = .eq → b = .eq → STr a' b' c') : STr (a.then a') (b.then b') (c.then c') := by
  revert h h'
  cases a <;> cases b <;> cases c <;> cases a' <;> cases b' <;> cases c' <;> simp [STr, Ordering.then]

theorem STr.swap {a b c : Ordering} (h : STr a b c) : STr b.swap a.swap c.swap := by
  revert h; cases a <;> cases b <;> cases c <;> simp [STr, Ordering.swap]

/-- the laws for `compare` on a linear order given as facts about one triple -/
theorem STr_compare_nat (x y z : Nat) : STr (compare x y) (compare y z) (compare x z) := by
  rcases Nat.lt_trichotomy x y with h | h | h <;> rcases Nat.lt_trichotomy y z with h' | h' | h' <;>
    rcases Nat.lt_trichotomy x z with h'' | h'' | h'' <;>
    simp [STr, Nat.compare_eq_lt.mpr, Nat.compare_eq_gt.mpr, Nat.compare_eq_eq.mpr, *] <;> omega

theorem STr_compare_int (x y z : Int) : STr (compare x y) (compare y z) (compare x z) := by
  rcases Int.lt_trichotomy x y with h | h | h <;> rcases Int.lt_trichotomy y z with h' | h' | h' <;>
    rcases Int.lt_trichotomy x z with h'' | h'' | h'' <;>
    simp [STr, Int.compare_eq_lt.mpr, Int.compare_eq_gt.mpr, Int.compare_eq_eq.mpr, *] <;> omega

theorem compare_nat_swap (x y : Nat) : compare y x = (compare x y).swap := by
  rcases Nat.lt_trichotomy x y with h | h | h <;>
    simp [Nat.compare_eq_lt.mpr, Nat.compare_eq_gt.mpr, Nat.compare_eq_eq.mpr, Ordering.swap, *]

theorem compare_int_swap (x y : Int) : compare y x = (compare x y).swap := by
  rcases Int.lt_trichotomy x y with h | h | h <;>
    simp [Int.compare_eq_lt.mpr, Int.compare_eq_gt.mpr, Int.compare_eq_eq.mpr, Ordering.swap, *]

/-- A comparison that first compares classes with a total order `cmpK` and, inside a class,
    with `w`: the laws for one triple. -/
theorem STr.classified {κ : Type} [DecidableEq κ] (cmpK : κ → κ → Ordering)
    (ka kb kc : κ) (wab wbc wac : Ordering)
    (hKeq : ∀ k k', k ∈ [ka, kb, kc] → k' ∈ [ka, kb, kc] → (cmpK k k' = .eq ↔ k = k'))
    (hKswap : ∀ k k', k ∈ [ka, kb, kc] → k' ∈ [ka, kb, kc] → cmpK k' k = (cmpK k k').swap)
    (hK : STr (cmpK ka kb) (cmpK kb kc) (cmpK ka kc))
    (hW : ka = kb → kb = kc → STr wab wbc wac) :
    STr (if ka = kb then wab else cmpK ka kb) (if kb = kc then wbc else cmpK kb kc)
        (if ka = kc then wac else cmpK ka kc) := by
  by_cases h1 : ka = kb
  · subst h1
    by_cases h2 : ka = kc
    · subst h2; simpa using hW rfl rfl
    · have hne : cmpK ka kc ≠ .eq := fun h => h2 ((hKeq ka kc (by simp) (by simp)).mp h)
      simp only [if_true, h2, if_false]
      revert hne
      cases wab <;> cases (cmpK ka kc) <;> simp [STr]
  · by_cases h2 : kb = kc
    · subst h2
      have hne : cmpK ka kb ≠ .eq := fun h => h1 ((hKeq ka kb (by simp) (by simp)).mp h)
      simp only [h1, if_false, if_true]
      revert hne
      cases wbc <;> cases (cmpK ka kb) <;> simp [STr]
    · by_cases h3 : ka = kc
      · subst h3
        have hsw := hKswap ka kb (by simp) (by simp)
        have hne : cmpK ka kb ≠ .eq := fun h => h1 ((hKeq ka kb (by simp) (by simp)).mp h)
        simp only [h1, h2, if_false, if_true]
        rw [hsw]
        revert hne
        cases wac <;> cases (cmpK ka kb) <;> simp [STr, Ordering.swap]
      · simp only [h1, h2, h3, if_false]; exact hK

end Zed.Ord
