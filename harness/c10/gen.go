package main

// Value classes and the harness' own (code-independent) view of a value: type text, value
// text, numeric class and exact value, tie class under the Zed value order.

import (
	"fmt"
	"math"
	"math/rand"
	"sort"
	"strings"

	zed "github.com/brimdata/super"
	"github.com/brimdata/super/zson"
)

type gval struct {
	Z       string // ZSON literal as written into the input row; "" = field absent
	Typ     string // zson type text; missing: error(string)
	Val     string // zson value text (FormatValue)
	Null    bool
	Missing bool
	Kind    byte  // n | u | i | f  (accumulator class of the type; n = not numeric)
	Num8    int64 // numeric value × 8 (exact; generator only draws dyadic k/8)
	IsBool  bool
	B       bool
}

var gvalCache = map[string]gval{}
var gvalZctx = zed.NewContext()

// mk parses a literal once (with the real ZSON parser, used here only as a notation reader:
// the classes below are fixed literals whose meaning is unambiguous).
func mk(z string) gval {
	if z == "" {
		return gval{Missing: true, Typ: "error(string)", Val: `error("missing")`, Kind: 'n'}
	}
	if g, ok := gvalCache[z]; ok {
		return g
	}
	v, err := zson.ParseValue(gvalZctx, z)
	if err != nil {
		panic(fmt.Sprintf("bad literal %q: %v", z, err))
	}
	g := gval{Z: z, Typ: zson.String(v.Type()), Val: zson.FormatValue(v), Null: v.IsNull(), Kind: 'n'}
	id := zed.TypeUnder(v.Type()).ID()
	switch {
	case zed.IsUnsigned(id):
		g.Kind = 'u'
		if !g.Null {
			g.Num8 = int64(v.Uint()) * 8
		}
	case id == zed.IDInt8 || id == zed.IDInt16 || id == zed.IDInt32 || id == zed.IDInt64:
		g.Kind = 'i'
		if !g.Null {
			g.Num8 = v.Int() * 8
		}
	case zed.IsFloat(id):
		g.Kind = 'f'
		if !g.Null {
			f := v.Float() * 8
			if f != math.Trunc(f) || math.Abs(f) > 1e12 {
				panic("float literal outside the exactly-summable class: " + z)
			}
			g.Num8 = int64(f)
		}
	case id == zed.IDBool:
		g.IsBool = true
		if !g.Null {
			g.B = v.Bool()
		}
	}
	gvalCache[z] = g
	return g
}

// tie class under compareValues(nullsMax, missing-as-null): numbers by value whatever the
// type; null of any type and missing together; anything else only with itself.
func (g gval) tie() string {
	switch {
	case g.Null || g.Missing:
		return "Z"
	case g.Kind != 'n':
		return fmt.Sprintf("N:%d", g.Num8)
	}
	return "T:" + g.Typ + ":" + g.Val
}

func (g gval) ident() string { return g.Typ + "|" + g.Val }

// tieLess orders tie classes: numbers by value, then the rest by text, null/missing last.
func tieLess(a, b string) bool {
	ca, cb := a[0], b[0]
	if ca != cb {
		ord := map[byte]int{'N': 0, 'T': 1, 'Z': 2}
		return ord[ca] < ord[cb]
	}
	if ca == 'N' {
		var x, y int64
		fmt.Sscanf(a[2:], "%d", &x)
		fmt.Sscanf(b[2:], "%d", &y)
		return x < y
	}
	return a < b
}

// ranks assigns to each tie class of the given values its rank.
func ranksOf(vals []gval) map[string]int {
	set := map[string]bool{}
	for _, v := range vals {
		set[v.tie()] = true
	}
	var ts []string
	for t := range set {
		ts = append(ts, t)
	}
	sort.Slice(ts, func(i, j int) bool { return tieLess(ts[i], ts[j]) })
	out := map[string]int{}
	for i, t := range ts {
		out[t] = i
	}
	return out
}

// ---- classes -----------------------------------------------------------------------------

var (
	clsInt     = []string{"0", "1", "2", "3", "4", "5", "6", "7", "-1", "-2", "10", "100"}
	clsNumix   = []string{"1", "1(uint64)", "1.", "1(int8)", "2", "2(uint64)", "2.", "2(float32)", "3", "0", "0.", "0(uint8)", "-1", "-1."}
	clsFloat   = []string{"0.5", "1.5", "-0.25", "2.125", "1.", "3.", "0.125"}
	clsStr     = []string{`"a"`, `"b"`, `"c"`, `"ab"`, `""`, `"z"`, `"A"`}
	clsNulls   = []string{"null(int64)", "null(string)", "null", "null(float64)", "null(uint64)", "null(bool)"}
	clsBool    = []string{"true", "false"}
	clsOther   = []string{"1.1.1.1", "{x:1}", "{x:2}", "[1,2]", "[1]", `{x:"a"}`, "|[1,2]|"}
	clsNumType = []string{"1(int32)", "2(uint8)", "3(uint16)", "1(float32)", "4(int16)", "5(uint32)"}
)

func pick(r *rand.Rand, xs []string) string { return xs[r.Intn(len(xs))] }

// keyClass returns a generator of key literals ("" = missing).
func keyClass(r *rand.Rand) (string, func() string) {
	switch r.Intn(8) {
	case 0:
		n := 1 + r.Intn(8)
		return "int", func() string { return clsInt[r.Intn(n)] }
	case 1:
		return "numix", func() string { return pick(r, clsNumix) }
	case 2:
		return "str", func() string { return pick(r, clsStr) }
	case 3:
		return "nullmix", func() string {
			switch r.Intn(4) {
			case 0:
				return pick(r, clsNulls)
			case 1:
				return ""
			}
			return clsInt[r.Intn(4)]
		}
	case 4:
		return "mixed", func() string {
			switch r.Intn(7) {
			case 0:
				return pick(r, clsStr)
			case 1:
				return pick(r, clsFloat)
			case 2:
				return pick(r, clsBool)
			case 3:
				return pick(r, clsNulls)
			case 4:
				return pick(r, clsNumix)
			case 5:
				return ""
			}
			return pick(r, clsInt)
		}
	case 5:
		return "other", func() string {
			if r.Intn(3) == 0 {
				return pick(r, clsInt)
			}
			return pick(r, clsOther)
		}
	case 6:
		return "numtypes", func() string {
			if r.Intn(2) == 0 {
				return pick(r, clsNumType)
			}
			return pick(r, clsNumix)
		}
	}
	n := 2 + r.Intn(30)
	return "manyint", func() string { return fmt.Sprint(r.Intn(n)) }
}

// sortableClass: key classes whose value order the harness knows without asking the code
// (numbers by value, strings bytewise, null/missing last): only these are used as the
// declared sort key of an input.
var sortableClass = map[string]bool{"int": true, "numix": true, "str": true, "nullmix": true, "numtypes": true, "manyint": true}

func keyClassSortable(r *rand.Rand) (string, func() string) {
	for {
		cl, g := keyClass(r)
		if sortableClass[cl] {
			return cl, g
		}
	}
}

// valClass returns a generator for the aggregate argument v.
func valClass(r *rand.Rand) (string, func() string) {
	switch r.Intn(7) {
	case 0:
		return "int", func() string { return pick(r, clsInt) }
	case 1:
		return "float", func() string { return pick(r, clsFloat) }
	case 2:
		return "nummix", func() string {
			switch r.Intn(4) {
			case 0:
				return pick(r, clsFloat)
			case 1:
				return pick(r, clsNumType)
			case 2:
				return pick(r, clsNumix)
			}
			return pick(r, clsInt)
		}
	case 3:
		return "uintint", func() string {
			if r.Intn(2) == 0 {
				return fmt.Sprintf("%d(uint64)", r.Intn(9))
			}
			return pick(r, clsInt)
		}
	case 4:
		return "withnull", func() string {
			switch r.Intn(5) {
			case 0:
				return pick(r, clsNulls)
			case 1:
				return ""
			}
			return pick(r, clsInt)
		}
	case 5:
		return "anything", func() string {
			switch r.Intn(8) {
			case 0:
				return pick(r, clsStr)
			case 1:
				return pick(r, clsBool)
			case 2:
				return pick(r, clsNulls)
			case 3:
				return pick(r, clsFloat)
			case 4:
				return pick(r, clsOther)
			case 5:
				return ""
			case 6:
				return pick(r, clsNumType)
			}
			return pick(r, clsInt)
		}
	}
	return "uint", func() string { return fmt.Sprintf("%d(uint64)", r.Intn(20)) }
}

// ---- rows --------------------------------------------------------------------------------

// grow is one input record: named fields (absent = missing) plus its unique id.
type grow struct {
	ID int
	F  map[string]gval
}

var fieldOrder = []string{"id", "k1", "k2", "k3", "a", "v", "b", "s", "w"}

func (g grow) zson() string {
	var parts []string
	parts = append(parts, fmt.Sprintf("id:%d", g.ID))
	for _, n := range fieldOrder[1:] {
		if v, ok := g.F[n]; ok && !v.Missing {
			parts = append(parts, n+":"+v.Z)
		}
	}
	return "{" + strings.Join(parts, ",") + "}"
}

func (g grow) get(n string) gval {
	if v, ok := g.F[n]; ok {
		return v
	}
	return mk("")
}

func rowsZSON(rows []grow) []string {
	out := make([]string, len(rows))
	for i, r := range rows {
		out[i] = r.zson()
	}
	return out
}

// growFromZSON re-reads a replayed row (field values are literals separated at top level).
func splitTop(s string) []string {
	var out []string
	depth, start, inStr := 0, 0, false
	for i := 0; i < len(s); i++ {
		c := s[i]
		switch {
		case inStr:
			if c == '\\' {
				i++
			} else if c == '"' {
				inStr = false
			}
		case c == '"':
			inStr = true
		case c == '{' || c == '[' || c == '(':
			depth++
		case c == '}' || c == ']' || c == ')':
			depth--
		case c == ',' && depth == 0:
			out = append(out, s[start:i])
			start = i + 1
		}
	}
	if start < len(s) {
		out = append(out, s[start:])
	}
	return out
}

func growFromZSON(z string) grow {
	g := grow{F: map[string]gval{}}
	body := strings.TrimSuffix(strings.TrimPrefix(z, "{"), "}")
	for _, kv := range splitTop(body) {
		i := strings.Index(kv, ":")
		name, lit := kv[:i], kv[i+1:]
		if name == "id" {
			fmt.Sscanf(lit, "%d", &g.ID)
			continue
		}
		g.F[name] = mk(lit)
	}
	return g
}

func perm(r *rand.Rand, rows []grow) []grow {
	out := append([]grow(nil), rows...)
	r.Shuffle(len(out), func(i, j int) { out[i], out[j] = out[j], out[i] })
	return out
}

// chunking splits n items into 1..k consecutive chunks (some possibly empty).
func chunking(r *rand.Rand, n, k int) []int {
	if k < 1 {
		k = 1
	}
	cuts := make([]int, k-1)
	for i := range cuts {
		cuts[i] = r.Intn(n + 1)
	}
	sort.Ints(cuts)
	var sizes []int
	prev := 0
	for _, c := range cuts {
		sizes = append(sizes, c-prev)
		prev = c
	}
	return append(sizes, n-prev)
}
