import Zed.Proofs.ZsonKnown
/-!
  C02 — streams: the coupling invariant "analyzer name table = formatter typedefs" carried over
  a sequence of values, for per-value and per-stream typedef scope and any `persist` predicate.
-/
namespace Zed.Zson
open Generated

/-- the formatter binds `n` to `t` (in the typedefs of the current scope, or permanently). -/
def Bound (fst : FState) (n : Name) (t : Ty) : Prop :=
  assoc n fst.typedefs = some t ∨ ∃ p, fst.permanent = some p ∧ assoc n p = some t

/-- the coupling invariant: whatever the formatter has bound, the analyzer's table binds to
    the same type (and it is one of the stream's named types, under its own name). -/
def Coupled (items : List (Ty × Val)) (fst : FState) (a : AState) : Prop :=
  ∀ n t, Bound fst n t → (∃ u v, t = .named n u ∧ (t, v) ∈ items) ∧ alookup n a.names = some t

theorem coupled_reset (items : List (Ty × Val)) (fst : FState) (a : AState) (h : Coupled items fst a) :
    Coupled items fst.resetTypedefs a := by
  intro n t hb
  apply h n t
  rcases hb with hb | hb
  · simp [FState.resetTypedefs, assoc] at hb
  · exact Or.inr hb

theorem assoc_cons_ne (n m : Name) (t : Ty) (l : List (Name × Ty)) (h : m ≠ n) :
    assoc n ((m, t) :: l) = assoc n l := by simp [assoc, h]

theorem alookup_cons_ne (n m : Name) (t : Ty) (l : List (Name × Ty)) (h : m ≠ n) :
    alookup n ((m, t) :: l) = alookup n l := by simp [alookup, h]

theorem consistent_named (items : List (Ty × Val)) (hc : namesConsistent items = true)
    (n : Name) (u w : Ty) (v1 v2 : Val) (h1 : (Ty.named n u, v1) ∈ items) (h2 : (Ty.named n w, v2) ∈ items) :
    u = w := by
  simp only [namesConsistent, List.all_eq_true] at hc
  have := hc _ h1 _ h2
  simpa using this

theorem hasName_iff_bound (fst : FState) (n : Name) (u : Ty) :
    fst.hasName (.named n u) = true ↔ ∃ t, Bound fst n t := by
  simp only [FState.hasName, Bool.or_eq_true, Option.isSome_iff_exists, Bound]
  constructor
  · rintro (⟨t, h⟩ | h)
    · exact ⟨t, Or.inl h⟩
    · cases hp : fst.permanent with
      | none => simp [hp] at h
      | some p =>
        simp only [hp, Option.isSome_iff_exists] at h
        obtain ⟨t, ht⟩ := h
        exact ⟨t, Or.inr ⟨p, rfl, ht⟩⟩
  · rintro ⟨t, h | ⟨p, hp, h⟩⟩
    · exact Or.inl ⟨t, h⟩
    · right; simp [hp, h]

/-- **the stream theorem**: every value of a stream of plain values and values of named types
    (one name, one type) is read back as itself, whatever the typedef scope (per value / per
    stream) and the `persist` predicate; the invariant is that the analyzer's name table agrees
    with the formatter's typedefs on everything the formatter has bound. -/
theorem stream_roundtrip (reset : Bool) (all : List (Ty × Val)) (hcons : namesConsistent all = true) :
    (items : List (Ty × Val)) → (∀ x ∈ items, x ∈ all) → (∀ x ∈ items, itemOK x = true) →
    ∀ (fst : FState) (a : AState), Coupled all fst a →
      analyzeStream a (fmtStream reset fst items) = .ok items
  | [], _, _, _, _, _ => rfl
  | (t, v) :: rest, hsub, hok, fst, a, hinv => by
    have hitem := hok (t, v) (by simp)
    have hmem := hsub (t, v) (by simp)
    -- the formatter state this value is written with
    let fst0 := if reset then fst.resetTypedefs else fst
    have hinv0 : Coupled all fst0 a := by
      cases reset
      · exact hinv
      · exact coupled_reset all fst a hinv
    simp only [itemOK, Bool.or_eq_true, Bool.and_eq_true, Bool.not_eq_true'] at hitem
    have step : ∃ fst1 a1, (fmtTop fst0 t v).1 = fst1 ∧
        analyzeTop a (fmtTop fst0 t v).2 = .ok (a1, (t, v)) ∧ Coupled all fst1 a1 := by
      rcases hitem with ⟨⟨⟨⟨hp, hw⟩, hv⟩, hb⟩, he⟩ | ⟨hg, hk⟩
      · -- a plain value: both tables unchanged
        obtain ⟨h1, h2⟩ := roundtrip_plain fst0 a t v hp hw hv hb he
        exact ⟨fst0, a, h1, h2, hinv0⟩
      · -- a value of a named type
        cases t with
        | named n u =>
          cases v with
          | named v' =>
            simp only [namedTopGuard, Bool.and_eq_true, Bool.not_eq_true', Option.isNone_iff_eq_none] at hg
            obtain ⟨⟨⟨⟨⟨⟨⟨⟨hok', hp⟩, hw⟩, hv⟩, hnn⟩, hb⟩, hod⟩, hen⟩, herr⟩ := hg
            have hku : noUnionElems u = true := by simpa [noUnionElems] using hk
            by_cases hh : fst0.hasName (.named n u) = true
            · -- later occurrence: the name is bound, by consistency to this very type
              obtain ⟨t', hb'⟩ := (hasName_iff_bound fst0 n u).mp hh
              have hbind : ∀ t'', Bound fst0 n t'' → t'' = .named n u := by
                intro t'' hb''
                obtain ⟨⟨u'', v'', ht'', hm''⟩, _⟩ := hinv0 n t'' hb''
                subst ht''
                rw [consistent_named all hcons n u'' u v'' (.named v') hm'' hmem]
              have hnne : n ≠ [] := by
                simp only [nameOK, Bool.and_eq_true, bne_iff_ne, ne_eq] at hok'
                exact hok'.1.1
              have hname : fst0.nameOf (.named n u) = some n := by
                cases htd : assoc n fst0.typedefs with
                | some t1 =>
                  have := hbind t1 (Or.inl htd)
                  subst this
                  simp [FState.nameOf, hnne, htd]
                | none =>
                  rcases hb' with h | ⟨p, hp', h⟩
                  · rw [htd] at h; cases h
                  · have := hbind t' (Or.inr ⟨p, hp', h⟩)
                    subst this
                    simp [FState.nameOf, hnne, htd, hp', h]
              have ha : alookup n a.names = some (.named n u) := by
                have := (hinv0 n t' hb').2
                rwa [hbind t' hb'] at this
              obtain ⟨h1, h2⟩ := named_later fst0 a n u v' hp hw hku hen hv hnn herr hname hh ha
              exact ⟨fst0, a, h1, h2, hinv0⟩
            · -- first occurrence in this scope
              have hh' : fst0.hasName (.named n u) = false := by simpa using hh
              obtain ⟨h1, h2⟩ := named_top fst0 a n u v' hok' hp hw hv hnn hb hod hen herr hh'
              refine ⟨fst0.saveType n (.named n u), aPush a n (.named n u), h1, h2, ?_⟩
              intro m t'' hb''
              by_cases hmn : n = m
              · subst hmn
                -- the only binding of n now is the new one
                have : t'' = .named n u := by
                  rcases hb'' with h | ⟨p, hp', h⟩
                  · simpa [FState.saveType, assoc] using h.symm
                  · have hno : ¬ ∃ t, Bound fst0 n t := fun hx => hh ((hasName_iff_bound fst0 n u).mpr hx)
                    simp only [FState.saveType] at hp'
                    cases hperm : fst0.permanent with
                    | none => simp [hperm] at hp'
                    | some p0 =>
                      simp only [hperm] at hp'
                      by_cases hps : fst0.persist n = true
                      · simp only [hps, if_true, Option.some.injEq] at hp'
                        subst hp'
                        simpa [assoc] using h.symm
                      · have hps' : fst0.persist n = false := by simpa using hps
                        simp only [hps', Bool.false_eq_true, if_false, Option.some.injEq] at hp'
                        subst hp'
                        exact absurd ⟨t'', Or.inr ⟨p0, hperm, h⟩⟩ hno
                subst this
                exact ⟨⟨u, .named v', rfl, hmem⟩, by simp [aPush, alookup]⟩
              · -- other names: bound before, and untouched in both tables
                have hbold : Bound fst0 m t'' := by
                  rcases hb'' with h | ⟨p, hp', h⟩
                  · left; simpa [FState.saveType, assoc, hmn] using h
                  · right
                    simp only [FState.saveType] at hp'
                    cases hperm : fst0.permanent with
                    | none => simp [hperm] at hp'
                    | some p0 =>
                      simp only [hperm] at hp'
                      by_cases hps : fst0.persist n = true
                      · simp only [hps, if_true, Option.some.injEq] at hp'
                        subst hp'
                        exact ⟨p0, rfl, by simpa [assoc, hmn] using h⟩
                      · have hps' : fst0.persist n = false := by simpa using hps
                        simp only [hps', Bool.false_eq_true, if_false, Option.some.injEq] at hp'
                        subst hp'
                        exact ⟨p0, rfl, h⟩
                obtain ⟨hx, hy⟩ := hinv0 m t'' hbold
                exact ⟨hx, by simp [aPush, alookup, hmn, hy]⟩
          | _ => simp [namedTopGuard] at hg
        | _ => simp [namedTopGuard] at hg
    obtain ⟨fst1, a1, hf1, han, hinv1⟩ := step
    have ih := stream_roundtrip reset all hcons rest (fun x hx => hsub x (by simp [hx]))
      (fun x hx => hok x (by simp [hx])) fst1 a1 hinv1
    simp only [fmtStream]
    show analyzeStream a ((fmtTop fst0 t v).2 :: fmtStream reset (fmtTop fst0 t v).1 rest) = _
    rw [hf1]
    simp only [analyzeStream, han, ih]


theorem coupled_init (items : List (Ty × Val)) (persist : Name → Bool) (perm : Bool) (a : AState) :
    Coupled items { typedefs := [], permanent := if perm then some [] else none, persist := persist } a := by
  intro n t hb
  rcases hb with h | ⟨p, hp, h⟩
  · simp [assoc] at h
  · cases perm <;> simp at hp
    subst hp; simp [assoc] at h

end Zed.Zson
