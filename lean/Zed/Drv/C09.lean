import Zed.Model.VngSexp
import Zed.Model.VecOps
/-!
  Driver glue for C09.
  fcol = `(col <type> <value>…)` | `(missing n)`;  an object = `(obj fcol…)` (its top-level
  types in first-seen order).
  `(C09 countby obj…)`                    → `ok ((type value) count)…` | `panic <message>`
  `(C09 sum (vals (hex int)…) obj…)`      → `ok <int64>` | `panic <message>`
  `(C09 kinds obj…)`                      → the vector each column is loaded as
  `(C09 facts)`                           → what the vector compiler accepts (generated tables)
-/
namespace Zed.Drv.C09
open Zed Zed.Vng Zed.Vec

def fcolOf : Sexp → Option FCol
  | .list [.atom "missing", .atom n] => do pure (.missing (← n.toNat?))
  | .list (.atom "col" :: t :: vs) => do pure (.col (← tyOfSexp t) (← vs.mapM valOfSexp))
  | _ => none

def objOf : Sexp → Option (List FCol)
  | .list (.atom "obj" :: cs) => cs.mapM fcolOf
  | _ => none

def clean (s : String) : String := s.map fun c => if c == '(' || c == ')' || c == '\n' then '_' else c

def rowSexp (r : Row) : Sexp :=
  .list [.list [tySexp r.1.1, valSexp r.1.2], .atom (toString r.2)]

def fvecStr : FVec → String
  | .flat k _ => "flat:" ++ k
  | .dict k _ _ => "dict:" ++ k
  | .const id _ _ => "const:" ++ toString id
  | .constNull _ => "constnull"
  | .other k _ => "other:" ++ k
  | .loadFails _ => "loadfails"

def valsOf (xs : List Sexp) : Option (List (Bytes × Int)) :=
  xs.mapM fun
    | .list [.atom h, .atom i] => do pure ((← Sexp.bytesOfHex h), (← i.toInt?))
    | _ => none

def lookupVal (tbl : List (Bytes × Int)) (b : Bytes) : Int :=
  match tbl.find? (·.1 == b) with
  | some (_, i) => i
  | none => 0

open Zed.Generated.C09 in
def facts : String :=
  let l (name : String) (xs : List String) := "(" ++ name ++ " " ++ " ".intercalate xs ++ ")"
  " ".intercalate [l "leaf" vamLeafOps, l "nonleaf" vamNonLeafOps, l "expr" vamExprKinds,
    l "binop" vamBinaryOps, l "unop" vamUnaryOps]

def handle : List Sexp → String
  | .atom "countby" :: objs =>
    match objs.mapM objOf with
    | none => "bad-op"
    | some os =>
      match cbRun os with
      | .error e => "panic " ++ clean e
      | .ok s => "ok " ++ " ".intercalate ((cbRows s).map fun r => toString (rowSexp r))
  | .atom "sum" :: .list (.atom "vals" :: vs) :: objs =>
    match valsOf vs, objs.mapM objOf with
    | some tbl, some os =>
      match sumRun (lookupVal tbl) os with
      | .error e => "panic " ++ clean e
      | .ok s => "ok " ++ toString (wrap64 s)
    | _, _ => "bad-op"
  | .atom "kinds" :: objs =>
    match objs.mapM objOf with
    | none => "bad-op"
    | some os => " ".intercalate ((os.flatten.map fieldVec).map fvecStr)
  | [.atom "facts"] => facts
  | _ => "bad-op"

end Zed.Drv.C09
