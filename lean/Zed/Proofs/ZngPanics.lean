import Zed.Model.ZngReader
/-! The modelled ZNG reader never panics (since repo commit 0b09f99cc added the sign checks). -/
namespace Zed.Zng
open Zed.Generated.C01

theorem rdInt_no_panic {bs : Bytes} {s : String} : rdInt bs ≠ .error (.panic s) := by
  unfold rdInt; split <;> simp

theorem rdCounted_no_panic {bs : Bytes} {s : String} : rdCounted bs ≠ .error (.panic s) := by
  intro h
  unfold rdCounted at h
  split at h
  · rename_i e he; cases h; exact absurd he rdInt_no_panic
  · split at h
    · cases h
    · split at h <;> cases h

theorem rdType_no_panic {ctx : Ctx} {bs : Bytes} {s : String} : rdType ctx bs ≠ .error (.panic s) := by
  unfold rdType
  split
  · rename_i e he; intro h; cases h; exact absurd he rdInt_no_panic
  · split <;> simp

theorem rdFields_no_panic {ctx : Ctx} : ∀ {n : Nat} {bs : Bytes} {s : String},
    rdFields ctx n bs ≠ .error (.panic s) := by
  intro n
  induction n with
  | zero => intro bs s h; simp [rdFields] at h
  | succ n ih =>
    intro bs s h
    simp only [rdFields] at h
    split at h
    · rename_i e he; cases h; exact absurd he rdCounted_no_panic
    · split at h
      · rename_i e he; cases h; exact absurd he rdType_no_panic
      · split at h
        · rename_i e he; cases h; exact absurd he ih
        · cases h

theorem rdTypes_no_panic {ctx : Ctx} : ∀ {n : Nat} {bs : Bytes} {s : String},
    rdTypes ctx n bs ≠ .error (.panic s) := by
  intro n
  induction n with
  | zero => intro bs s h; simp [rdTypes] at h
  | succ n ih =>
    intro bs s h
    simp only [rdTypes] at h
    split at h
    · rename_i e he; cases h; exact absurd he rdType_no_panic
    · split at h
      · rename_i e he; cases h; exact absurd he ih
      · cases h

theorem rdSyms_no_panic : ∀ {n : Nat} {bs : Bytes} {s : String},
    rdSyms n bs ≠ .error (.panic s) := by
  intro n
  induction n with
  | zero => intro bs s h; simp [rdSyms] at h
  | succ n ih =>
    intro bs s h
    simp only [rdSyms] at h
    split at h
    · rename_i e he; cases h; exact absurd he rdCounted_no_panic
    · split at h
      · rename_i e he; cases h; exact absurd he ih
      · cases h

theorem rdTypedef_no_panic {ctx : Ctx} {code : Nat} {bs : Bytes} {s : String} :
    rdTypedef ctx code bs ≠ .error (.panic s) := by
  intro h
  unfold rdTypedef at h
  split at h
  · split at h
    · rename_i e he; cases h; exact absurd he rdInt_no_panic
    · split at h
      · rename_i e he; cases h; exact absurd he rdFields_no_panic
      · split at h <;> cases h
  split at h
  · split at h
    · rename_i e he; cases h; exact absurd he rdType_no_panic
    · cases h
  split at h
  · split at h
    · rename_i e he; cases h; exact absurd he rdType_no_panic
    · cases h
  split at h
  · split at h
    · rename_i e he; cases h; exact absurd he rdType_no_panic
    · split at h
      · rename_i e he; cases h; exact absurd he rdType_no_panic
      · cases h
  split at h
  · split at h
    · rename_i e he; cases h; exact absurd he rdInt_no_panic
    · split at h
      · cases h
      · split at h
        · rename_i e he; cases h; exact absurd he rdTypes_no_panic
        · cases h
  split at h
  · split at h
    · rename_i e he; cases h; exact absurd he rdInt_no_panic
    · split at h
      · rename_i e he; cases h; exact absurd he rdSyms_no_panic
      · cases h
  split at h
  · split at h
    · rename_i e he; cases h; exact absurd he rdCounted_no_panic
    · split at h
      · rename_i e he; cases h; exact absurd he rdType_no_panic
      · split at h <;> cases h
  split at h
  · split at h
    · rename_i e he; cases h; exact absurd he rdType_no_panic
    · cases h
  · cases h

theorem decTypedef_no_panic {ctx : Ctx} {code : Nat} {bs : Bytes} {s : String} :
    decTypedef ctx code bs ≠ .error (.panic s) := by
  intro h
  unfold decTypedef at h
  split at h
  · rename_i e he; cases h; exact absurd he rdTypedef_no_panic
  · split at h
    · rename_i e he
      cases h
      unfold enterLocal at he
      split at he <;> cases he
    · cases h

theorem decTypedefs_no_panic : ∀ (n : Nat) (ctx : Ctx) (bs : Bytes) (s : String), bs.length ≤ n →
    decTypedefs ctx bs ≠ .error (.panic s) := by
  intro n
  induction n with
  | zero =>
    intro ctx bs s hl h
    have : bs = [] := List.eq_nil_of_length_eq_zero (by omega)
    subst this; rw [decTypedefs] at h; cases h
  | succ n ih =>
    intro ctx bs s hl h
    cases bs with
    | nil => rw [decTypedefs] at h; cases h
    | cons c tl =>
      rw [decTypedefs] at h
      split at h
      · rename_i e he; cases h; exact absurd he decTypedef_no_panic
      · rename_i ctx' r he
        have := decTypedef_progress he
        exact ih ctx' r s (by simp at hl; omega) h

theorem decodeVal_no_panic {o : ROpts} {ctx : Ctx} {bs : Bytes} {s : String} :
    decodeVal o ctx bs ≠ .panic s := by
  intro hd
  unfold decodeVal at hd
  split at hd
  · cases hd
  · split at hd
    · cases hd
    · split at hd
      · cases hd
      · split at hd
        · cases hd
        · split at hd
          · cases hd
          · split at hd <;> cases hd

theorem decodeVals_no_panic (o : ROpts) (ctx : Ctx) : ∀ (n : Nat) (bs : Bytes) (s : String), bs.length ≤ n →
    decodeVals o ctx bs ≠ .error (.panic s) := by
  intro n
  induction n with
  | zero =>
    intro bs s hl h
    have : bs = [] := List.eq_nil_of_length_eq_zero (by omega)
    subst this; rw [decodeVals] at h; simp at h
  | succ n ih =>
    intro bs s hl h
    rw [decodeVals] at h
    split at h
    · cases h
    · split at h
      · cases h
      · rename_i s' hd; exact absurd hd decodeVal_no_panic
      · rename_i v r hd
        have := decodeVal_progress hd
        split at h
        · cases h
        · rename_i e he; cases h
          exact ih r s (by omega) he

theorem readFrame_no_panic {o : ROpts} {decomp : Bytes → Nat → Option Bytes} {code : Nat} {bs : Bytes} {s : String} {al : List Nat} :
    readFrame o decomp code bs ≠ .stop (.panic s) al := by
  intro h
  unfold readFrame at h
  split at h
  · unfold readCompFrame at h
    split at h
    · rename_i e he
      cases h
      unfold readCompHeader at he
      split at he
      · rename_i e' hl
        cases he
        unfold frameLen at hl
        split at hl <;> cases hl
      · split at he
        · cases he
        · split at he
          · cases he
          · cases he
          · simp only at he
            split at he
            · cases he
            · split at he <;> cases he
    · split at h
      · cases h
      · split at h
        · cases h
        · split at h <;> cases h
  · unfold readPlainFrame at h
    split at h
    · rename_i e hl
      cases h
      unfold frameLen at hl
      split at hl <;> cases hl
    · split at h
      · cases h
      · split at h <;> cases h

theorem step_no_panic {o : ROpts} {decomp : Bytes → Nat → Option Bytes} {ctx : Ctx} {code : UInt8} {bs : Bytes} {s : String} {al : List Nat} :
    step o decomp ctx code bs ≠ .done (.panic s) al := by
  intro h
  unfold step at h
  simp only at h
  split at h
  · cases h
  · split at h
    · cases h
    · split at h
      · split at h
        · rename_i e al' hf; cases h; exact absurd hf readFrame_no_panic
        · split at h
          · cases h
          · cases h
          · rename_i s' hd; cases h
            exact absurd hd (decTypedefs_no_panic _ _ _ _ (Nat.le_refl _))
      · split at h
        · split at h
          · rename_i e al' hf; cases h; exact absurd hf readFrame_no_panic
          · split at h
            · cases h
            · rename_i e hd; cases h
              exact absurd hd (decodeVals_no_panic o ctx _ _ _ (Nat.le_refl _))
        · split at h
          · split at h
            · rename_i e al' hf; cases h; exact absurd hf readFrame_no_panic
            · split at h <;> cases h
          · cases h

theorem readStream_no_panic (o : ROpts) (decomp : Bytes → Nat → Option Bytes) :
    ∀ (n : Nat) (ctx : Ctx) (bs : Bytes) (s : String), bs.length ≤ n →
      (readStream o decomp ctx bs).out ≠ .panic s := by
  intro n
  induction n with
  | zero =>
    intro ctx bs s hl h
    have : bs = [] := List.eq_nil_of_length_eq_zero (by omega)
    subst this; rw [readStream] at h; cases h
  | succ n ih =>
    intro ctx bs s hl h
    cases bs with
    | nil => rw [readStream] at h; cases h
    | cons code tl =>
      rw [readStream] at h
      split at h
      · rename_i e al hs
        simp only at h
        subst h
        exact absurd hs step_no_panic
      · rename_i ctx' vs al rest hs
        have := step_progress hs
        exact ih ctx' rest s (by simp at hl; omega) h

end Zed.Zng
