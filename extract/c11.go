package main

// T1 fact set "C11": the VNG header constants, the conditions vng.Header.Deserialize tests (which
// field against which limit, in order) and the conditions guarding the buffer allocations of the
// VNG primitive/dictionary readers.

import (
	"fmt"
	"go/ast"
	"strings"
)

func init() { register("C11", genC11) }

func genC11(repo string) (string, error) {
	var b strings.Builder
	hf, err := parseFile(repo, "vng/header.go")
	if err != nil {
		return "", err
	}
	env := c01Env{}
	if err := c01ConstBlocks(hf, env); err != nil {
		return "", err
	}
	for _, n := range []string{"Version", "HeaderSize", "MaxMetaSize", "MaxDataSize"} {
		v, ok := env[n]
		if !ok {
			return "", fmt.Errorf("vng/header.go: constant %s not found", n)
		}
		fmt.Fprintf(&b, "def vng%s : Nat := %d\n", n, v)
	}
	fd, err := hf.funcDecl("Header", "Deserialize")
	if err != nil {
		return "", err
	}
	var conds, assigns []string
	for _, st := range fd.Body.List {
		switch st := st.(type) {
		case *ast.IfStmt:
			if st.Init != nil || st.Else != nil {
				return "", fmt.Errorf("%s: Deserialize: unexpected if shape", hf.pos(st))
			}
			conds = append(conds, renderNode(hf, st.Cond))
		case *ast.AssignStmt:
			assigns = append(assigns, renderNode(hf, st))
		case *ast.ReturnStmt:
		default:
			return "", fmt.Errorf("%s: Deserialize: unexpected statement %s", hf.pos(st), renderNode(hf, st))
		}
	}
	fmt.Fprintf(&b, "def vngHeaderChecks : List String := %s\n", leanStrList(conds))
	fmt.Fprintf(&b, "def vngHeaderFields : List String := %s\n", leanStrList(assigns))
	// allocation sites of the primitive and dictionary readers and the conditions that precede them
	pf, err := parseFile(repo, "vng/primitive.go")
	if err != nil {
		return "", err
	}
	for _, recv := range []string{"PrimitiveBuilder", "DictBuilder"} {
		fd, err := pf.funcDecl(recv, "ReadBytes")
		if err != nil {
			return "", err
		}
		var makes, guards []string
		ast.Inspect(fd.Body, func(n ast.Node) bool {
			switch n := n.(type) {
			case *ast.CallExpr:
				if id, ok := n.Fun.(*ast.Ident); ok && id.Name == "make" {
					makes = append(makes, renderNode(pf, n))
				}
			case *ast.IfStmt:
				c := renderNode(pf, n.Cond)
				if strings.Contains(c, "MemLength") || strings.Contains(c, "Length") {
					guards = append(guards, c)
				}
			}
			return true
		})
		fmt.Fprintf(&b, "def vng%sMakes : List String := %s\n", recv, leanStrList(makes))
		fmt.Fprintf(&b, "def vng%sLengthGuards : List String := %s\n", recv, leanStrList(guards))
	}
	return b.String(), nil
}
