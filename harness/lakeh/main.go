package lakeh

import (
	"encoding/json"
	"fmt"
	"math/rand"
	"os"
	"strconv"

	"github.com/brimdata/super/compiler"

	"verifharness/hlib"
)

// Plan is one property's selection of profiles and options.
type Plan struct {
	Opt      Options
	Profiles []Profile
	Quick    int
	Thorough int
	Workers  int
	// Parallelism: value of compiler.Parallelism while this plan runs (0 = leave the default,
	// GOMAXPROCS).  With 1 the delete-where deleter handles all objects on one thread, one
	// whole object after another.
	Parallelism int
}

// WithParallelism runs fn with compiler.Parallelism set to n (0 = unchanged) and restores it.
func WithParallelism(n int, fn func()) {
	if n <= 0 {
		fn()
		return
	}
	old := compiler.Parallelism
	compiler.Parallelism = n
	defer func() { compiler.Parallelism = old }()
	fn()
}

// RunPlan runs corpus cases, the replay (if any) or freshly generated histories, and the
// model comparison.
func RunPlan(c *hlib.Ctx, pl Plan) {
	WithParallelism(pl.Parallelism, func() { runPlan(c, pl) })
}

func runPlan(c *hlib.Ctx, pl Plan) {
	opt := pl.Opt
	if n, err := strconv.Atoi(os.Getenv("VERIF_DET")); err == nil {
		opt.Determinism = n
	}
	var outs []*Outcome
	runOne := func(h *History) *Outcome { return RunHistory(h, nil, nil, opt) }
	if c.Replay != nil {
		var h History
		if err := json.Unmarshal(c.Replay, &h); err != nil {
			c.Fail("correspondence", opt.Prop+":bad-replay", err.Error(), nil)
			return
		}
		outs = append(outs, runOne(&h))
	} else {
		for _, raw := range c.CorpusCases() {
			var h History
			if json.Unmarshal(raw, &h) == nil && len(h.Ops) > 0 {
				c.Stat("corpus")
				outs = append(outs, runOne(&h))
			}
		}
		n := c.N(pl.Quick, pl.Thorough)
		seeds := make([]int64, n)
		for i := range seeds {
			seeds[i] = c.Rng.Int63()
		}
		gen := make([]*Outcome, n)
		w := pl.Workers
		if w == 0 {
			w = 8
		}
		hlib.ParallelDo(n, w, func(i int) {
			rng := rand.New(rand.NewSource(seeds[i]))
			prof := pl.Profiles[i%len(pl.Profiles)]
			cfg := GenCfg(rng)
			if prof.Plain && cfg.Key == "this" {
				cfg.Key = "k"
			}
			if prof.MinThresh > 0 && cfg.Thresh != 0 && cfg.Thresh < prof.MinThresh {
				cfg.Thresh = prof.MinThresh
			}
			texts, keys := GenAlphabet(rng, cfg, prof.Plain)
			h := &History{Cfg: cfg, Vals: texts, Keys: keys, Profile: prof.Name}
			gen[i] = RunHistory(h, &prof, rng, opt)
		})
		outs = append(outs, gen...)
	}
	var lines []string
	var idx []int
	for i, o := range outs {
		if o.H.Profile != "" {
			c.Stat("profile:" + o.H.Profile)
		}
		if pl.Parallelism > 0 {
			c.Stat(fmt.Sprintf("parallelism:%d", pl.Parallelism))
		}
		if line := Report(c, o, opt); line != "" {
			lines = append(lines, line)
			idx = append(idx, i)
		}
	}
	if len(lines) == 0 {
		return
	}
	ans := c.Model().Batch(lines)
	if os.Getenv("VERIF_DUMP") != "" {
		for k, a := range ans {
			o := outs[idx[k]]
			fmt.Println("HISTORY", o.H.Summary())
			for i, ob := range o.Obs {
				b, _ := json.Marshal(ob)
				fmt.Printf("REAL %d %s\n", i, b)
			}
			if mo, err := ParseModelAnswer(a); err == nil {
				for i, ob := range mo {
					b, _ := json.Marshal(ob)
					fmt.Printf("MODEL %d %s\n", i, b)
				}
			} else {
				fmt.Println("MODEL", a)
			}
			for i, v := range o.T.Vals {
				fmt.Printf("VAL %d %s key=%s\n", i, v.Text, v.Key)
			}
		}
	}
	for k, a := range ans {
		CompareModel(c, outs[idx[k]], opt, a)
	}
}
