/-
  C11 — untrusted bytes never crash or hang the process; with validation on, values handed out
  are structurally consistent.
  Property theorems only.  The binary decoders are the TOTAL functions of Zed/Model/Zng*.lean
  (`List UInt8 → …`, every bound check of the Go code, panic sites as values); the theorems say
  that every loop consumes input (so termination is a theorem, not fuel), that the allocation
  requests are bounded by the configured read limit, which panics the current code has (negations,
  on concrete witnesses that the harness replays on the real code), and what `Validate` guarantees.
  The text readers and the query compiler have no model: fuzzing only (evidence: search).
-/
import Zed.Proofs.ZngAlloc
import Zed.Proofs.ZngValidate
import Zed.Proofs.ZngTypes
import Zed.Proofs.ZngPanics
namespace Zed.Props.C11
open Zed.Zng Zed.Generated.C01

/-! ## progress: every decoder loop consumes at least one byte per iteration -/

/-- varint: a successful read consumes 1 … 10 bytes and yields a 64-bit value -/
theorem progress_uvarint (bs : Bytes) (v : Nat) (r : Bytes) (h : readUvarint bs = .ok (v, r)) :
    r.length < bs.length ∧ (∃ p, bs = p ++ r ∧ p.length ≤ 10) ∧ v < two64 :=
  ⟨readUvarint_progress bs v r h, readUvarintAux_suffix 10 true bs v r h, readUvarint_lt bs v r h⟩

/-- zcode iterator (`Iter.Next`, used by Walk/Validate) -/
theorem progress_zcode (bs : Bytes) (v : Option Bytes) (r : Bytes) (h : znext bs = .ok (v, r)) :
    r.length < bs.length := znext_progress bs v r h

/-- typedef decoder: one typedef consumes its code byte and never grows the input; the counted
    loops (`for k < n`) consume at least one byte (two for record fields) per trip, so a count
    taken from the input cannot make them spin -/
theorem progress_typedef {ctx ctx' : Ctx} {code : Nat} {bs r : Bytes}
    (h : decTypedef ctx code bs = .ok (ctx', r)) : r.length ≤ bs.length := decTypedef_progress h

theorem progress_typedef_loops {ctx : Ctx} {n : Nat} {bs r : Bytes} :
    (∀ fs, rdFields ctx n bs = .ok (fs, r) → r.length + 2 * n ≤ bs.length) ∧
    (∀ ts, rdTypes ctx n bs = .ok (ts, r) → r.length + n ≤ bs.length) ∧
    (∀ ss, rdSyms n bs = .ok (ss, r) → r.length + n ≤ bs.length) :=
  ⟨fun _ h => (rdFields_progress h).1, fun _ h => (rdTypes_progress h).1, fun _ h => (rdSyms_progress h).1⟩

/-- value decoder (`decodeVal`, the loop of `scanBatch`) -/
theorem progress_value {o : ROpts} {ctx : Ctx} {bs r : Bytes} {v : RVal}
    (h : decodeVal o ctx bs = .ok v r) : r.length < bs.length := decodeVal_progress h

/-- frame parser (`parser.read`): a frame that is not the end of the stream leaves strictly less
    input (its code byte is consumed before `step`) -/
theorem progress_frame {o : ROpts} {decomp : Bytes → Nat → Option Bytes} {ctx ctx' : Ctx} {code : UInt8}
    {bs rest : Bytes} {vs : List RVal} {al : List Nat}
    (h : step o decomp ctx code bs = .cont ctx' vs al rest) : rest.length < (code :: bs).length := by
  have := step_progress h; simp; omega

/-! ## allocation -/

/-- **alloc_bounded.**  For every input, every LZ4 behaviour and every starting context, each
    buffer the ZNG parser asks for (peeker growth, pooled frame buffers for compressed and
    uncompressed payloads) is at most `ReaderOpts.Max`. -/
theorem alloc_bounded (o : ROpts) (decomp : Bytes → Nat → Option Bytes) (ctx : Ctx) (bs : Bytes) :
    ∀ a ∈ (readStream o decomp ctx bs).allocs, a ≤ o.maxSize :=
  readStream_allocs o decomp bs.length ctx bs (Nat.le_refl _)

/-! ## panics of the current code (negations of "no panic escapes", with witnesses) -/

def witnessNegId : Bytes := [0x1b, 0x00, 0x80, 0x80, 0x80, 0x80, 0x80, 0x80, 0x80, 0x80, 0x80, 0x01, 0x01]
def witnessNegSize : Bytes := [0x5b, 0x00, 0x00, 0x80, 0x80, 0x80, 0x80, 0x80, 0x80, 0x80, 0x80, 0x80, 0x01]
def witnessNegStr : Bytes := [0x0b, 0x00, 0x07, 0x80, 0x80, 0x80, 0x80, 0x80, 0x80, 0x80, 0x80, 0x80, 0x01]

/-- The full statement "for all bytes the reader ends with values or an error" is FALSE of the
    current code: a value whose type id is 2^63 reaches `MapperLookupCache.Lookup` with a
    negative index. -/
theorem not_reader_panic_free_type_id (decomp : Bytes → Nat → Option Bytes) :
    (readAll ⟨1073741824, false⟩ decomp witnessNegId).out = .panic "mapper-lookup-negative-id" := by
  have hd : decodeVal ⟨1073741824, false⟩ [] [0x80, 0x80, 0x80, 0x80, 0x80, 0x80, 0x80, 0x80, 0x80, 0x01, 0x01]
      = .panic "mapper-lookup-negative-id" := by decide
  have hv : decodeVals ⟨1073741824, false⟩ [] [0x80, 0x80, 0x80, 0x80, 0x80, 0x80, 0x80, 0x80, 0x80, 0x01, 0x01]
      = .error (.panic "mapper-lookup-negative-id") := by
    rw [decodeVals]
    simp only [List.isEmpty_cons, Bool.false_eq_true, if_false]
    split
    · rename_i h; rw [hd] at h; cases h
    · rename_i h; rw [hd] at h; cases h; rfl
    · rename_i h; rw [hd] at h; cases h
  have hs : step ⟨1073741824, false⟩ decomp [] 0x1b [0x00, 0x80, 0x80, 0x80, 0x80, 0x80, 0x80, 0x80, 0x80, 0x80, 0x01, 0x01]
      = .done (.panic "mapper-lookup-negative-id") [11, 11] := by
    simp only [step, readFrame, readPlainFrame]
    simp (config := { decide := true }) [eos, versionMask, frameTypeOf, typesFrame, valuesFrame, compressedMask, frameLen, readUvarint, readUvarintAux, decodeLengthExpr, asInt, two63, two64, peekRead, hasLen]
    rw [hv]
  unfold readAll witnessNegId
  rw [readStream]
  split
  · rename_i e al h; rw [hs] at h; cases h; rfl
  · rename_i h; rw [hs] at h; cases h

/-- … a compressed frame declaring an uncompressed size of 2^63 reaches `newBuffer` with a
    negative length (the `size > maxSize` test is on a signed int) … -/
theorem not_reader_panic_free_comp_size (decomp : Bytes → Nat → Option Bytes) :
    (readAll ⟨1073741824, false⟩ decomp witnessNegSize).out = .panic "newbuffer-negative-length" := by
  have hx : sizeOfUvarint 9223372036854775808 = 10 := by
    simp [sizeOfUvarint]
  have hs : step ⟨1073741824, false⟩ decomp [] 0x5b [0x00, 0x00, 0x80, 0x80, 0x80, 0x80, 0x80, 0x80, 0x80, 0x80, 0x80, 0x01]
      = .done (.panic "newbuffer-negative-length") [0] := by
    simp only [step, readFrame, readCompFrame, readCompHeader]
    simp (config := { decide := true }) [eos, versionMask, frameTypeOf, typesFrame, valuesFrame, compressedMask, frameLen, readUvarint, readUvarintAux, decodeLengthExpr, asInt, two63, two64, peekRead, hasLen, readCompExtra, hx, wrapInt, asU64]
  unfold readAll witnessNegSize
  rw [readStream]
  split
  · rename_i e al h; rw [hs] at h; cases h; rfl
  · rename_i h; rw [hs] at h; cases h

/-- … and a typedef whose name length is 2^63 makes `buffer.read` slice backwards. -/
theorem not_reader_panic_free_string_length (decomp : Bytes → Nat → Option Bytes) :
    (readAll ⟨1073741824, false⟩ decomp witnessNegStr).out = .panic "buffer-read-negative-length" := by
  have hd : decTypedef [] 7 [0x80, 0x80, 0x80, 0x80, 0x80, 0x80, 0x80, 0x80, 0x80, 0x01]
      = .error (.panic "buffer-read-negative-length") := by
    simp (config := { decide := true }) [decTypedef, rdTypedef, typeDefRecord, typeDefArray, typeDefSet, typeDefMap, typeDefUnion, typeDefEnum, typeDefName,
      rdCounted, rdInt, readUvarintAsInt, readUvarint, readUvarintAux, asInt, two63, two64]
  have hv : decTypedefs [] [0x07, 0x80, 0x80, 0x80, 0x80, 0x80, 0x80, 0x80, 0x80, 0x80, 0x01]
      = .error (.panic "buffer-read-negative-length") := by
    rw [decTypedefs]
    split
    · rename_i e h
      have : (7 : UInt8).toNat = 7 := by decide
      rw [this, hd] at h; cases h; rfl
    · rename_i h
      have : (7 : UInt8).toNat = 7 := by decide
      rw [this, hd] at h; cases h
  have hs : step ⟨1073741824, false⟩ decomp [] 0x0b [0x00, 0x07, 0x80, 0x80, 0x80, 0x80, 0x80, 0x80, 0x80, 0x80, 0x80, 0x01]
      = .done (.panic "buffer-read-negative-length") [11] := by
    simp only [step, readFrame, readPlainFrame]
    simp (config := { decide := true }) [eos, versionMask, frameTypeOf, typesFrame, valuesFrame, compressedMask, frameLen, readUvarint, readUvarintAux, decodeLengthExpr, asInt, two63, two64, peekRead, hasLen]
    rw [hv]
  unfold readAll witnessNegStr
  rw [readStream]
  split
  · rename_i e al h; rw [hs] at h; cases h; rfl
  · rename_i h; rw [hs] at h; cases h

/-- **reader_panics_only_at_known_sites** (the partial form of "no panic escapes").  FULL statement
    — false, see the three negations above —: the outcome is never a panic.  Proved: for every
    input, every option setting, every LZ4 behaviour and every starting context, if the modelled
    reader panics then it is at one of exactly these three places, all of them an `int` taken from a
    64-bit varint and used as a length or index without a sign check. -/
theorem reader_panics_only_at_known_sites (o : ROpts) (decomp : Bytes → Nat → Option Bytes) (ctx : Ctx)
    (bs : Bytes) (s : String) (h : (readStream o decomp ctx bs).out = .panic s) :
    s ∈ ["mapper-lookup-negative-id", "newbuffer-negative-length", "buffer-read-negative-length"] :=
  readStream_panic o decomp bs.length ctx bs s (Nat.le_refl _) h

/-! ## Validate -/

/-- **validate_sound_partial.**  FULL statement (false of the current code, see the two negations
    below): `validate t b = true → WellFormed t b` for every type.  Proved: for every type without
    set and enum components (guard `ZTy.plain`, decidable), every body the model of
    `Value.Validate` accepts is structurally consistent with the type: containers split into
    items, one well-formed item per record field in order, well-formed array elements, alternating
    well-formed map keys and values, union bodies of exactly a tag in range and a well-formed
    member value. -/
theorem validate_sound_partial (t : ZTy) (b : Option Bytes) (hg : t.plain = true)
    (h : validate t b = true) : WellFormed t b := by
  unfold validate at h
  split at h
  · rename_i hw; exact walk_sound t b hg hw
  · cases h

/-- **wellformed_walk_total.**  Conversely, on a structurally consistent value of such a type
    `Walk` reaches none of the panic sites of `zcode.Iter` (and reports no error): for these types
    `Validate` accepts exactly the well-formed values. -/
theorem wellformed_walk_total (t : ZTy) (b : Option Bytes) (hg : t.plain = true) (h : WellFormed t b) :
    walk t b = .ok () := walk_complete t b hg h

theorem validate_iff_wellformed (t : ZTy) (b : Option Bytes) (hg : t.plain = true) :
    validate t b = true ↔ WellFormed t b := by
  constructor
  · exact validate_sound_partial t b hg
  · intro h; simp [validate, walk_complete t b hg h]

/-- non-vacuity of the guard and of the hypothesis -/
example : (ZTy.record (.cons [97] (.array (.prim 9)) (.cons [98] (.union (.cons (.prim 9) (.cons (.prim 25) .nil))) .nil))).plain = true := by
  decide

/-- The full statement is false: `Validate` never looks inside the elements of a set. -/
theorem not_validate_sound_set :
    let t : ZTy := .set (.record (.cons [97] (.prim 9) .nil))
    validate t (some [2, 5]) = true ∧ ¬ WellFormed t (some [2, 5]) := by
  have hn : znext [2, 5] = .ok (some [5], []) := by rfl
  have hn5 : znext [5] = .error .outOfRange := by rfl
  have hit : ziterAll [2, 5] = .ok [some [5]] := by
    rw [ziterAll]; simp only [List.isEmpty_cons, Bool.false_eq_true, if_false]
    split
    · rename_i h; rw [hn] at h; cases h
    · rename_i h; rw [hn] at h; cases h; rw [ziterAll]; rfl
  have hcs : checkSetFrom none [2, 5] = .ok () := by
    rw [checkSetFrom]
    simp only [List.isEmpty_cons, Bool.false_eq_true, if_false]
    split
    · rename_i h; rw [hn] at h; cases h
    · rename_i h; rw [hn] at h; cases h
      rw [checkSetFrom]; rfl
  refine ⟨?_, ?_⟩
  · simp only [validate, walk, hcs]
  · intro hw
    cases hw with
    | set hi hall _ =>
      rw [hit] at hi; cases hi
      have := hall (some [5]) (by simp)
      cases this with
      | record hf =>
        cases hf with
        | cons hz _ _ => rw [hn5] at hz; cases hz

/-- … and an enum selector ≥ 2^63 is accepted because the range test is on a signed int. -/
theorem not_validate_sound_enum :
    let t : ZTy := .enum [[97], [98]]
    let body : Bytes := [0, 0, 0, 0, 0, 0, 0, 128]
    validate t (some body) = true ∧ ¬ WellFormed t (some body) := by
  refine ⟨by decide, ?_⟩
  intro hw
  cases hw with
  | enum _ _ h => revert h; decide

end Zed.Props.C11
