import Zed.Model.Sexp
import Zed.Model.StoreApi
/-! Driver glue for C17: `(C17 run (clients …) (sched …))` → trace, results, final visible state
    of the L5 model under that schedule (see `Zed.Store.handleRun`). -/
namespace Zed.Drv.C17
open Zed

def handle (args : List Sexp) : String := Zed.Store.handleRun args

end Zed.Drv.C17
