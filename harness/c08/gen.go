package main

// Pool and program generators for C08.

import (
	"fmt"
	"math/rand"
	"sort"
	"strconv"
	"strings"
)

// ---- records -------------------------------------------------------------------------

// rec is the bookkeeping of one generated record; the ZSON text is rendered from it.
type rec struct {
	Pos int    `json:"pos"`         // position of the key in the pool's ordered key domain
	K   string `json:"k"`           // ZSON text of the key; "" = key field missing, "-" = whole parent record missing (nested keys)
	ID  int    `json:"id"`          // unique
	G   string `json:"g,omitempty"` // ZSON text; "" = missing
	V   string `json:"v,omitempty"` // ZSON text; "" = missing
	VN  int    `json:"vn"`          // numerator of v (v = VN or VN/8); meaningful when V is a number
	B   string `json:"b"`
	S   string `json:"s"`
}

type poolSpec struct {
	Key    string  `json:"key"` // "k" or "a.k"
	Desc   bool    `json:"desc"`
	Class  string  `json:"class"`
	Shape  string  `json:"shape"`
	VFloat bool    `json:"vfloat"`
	GKind  string  `json:"gkind"` // str | int | mixed
	Recs   [][]rec `json:"recs"`  // one inner list per load (= one data object)
}

func (r rec) text(key string) string {
	var b strings.Builder
	b.WriteByte('{')
	first := true
	add := func(s string) {
		if !first {
			b.WriteByte(',')
		}
		first = false
		b.WriteString(s)
	}
	if key == "k" {
		if r.K != "" && r.K != "-" {
			add("k:" + r.K)
		}
	} else {
		switch r.K {
		case "-":
		case "":
			add(fmt.Sprintf("a:{x:%d}", r.ID%3))
		default:
			add(fmt.Sprintf("a:{k:%s,x:%d}", r.K, r.ID%3))
		}
	}
	add("id:" + strconv.Itoa(r.ID))
	if r.G != "" {
		add("g:" + r.G)
	}
	if r.V != "" {
		add("v:" + r.V)
	}
	add("b:" + r.B)
	add(`s:"` + r.S + `"`)
	b.WriteByte('}')
	return b.String()
}

func (p *poolSpec) loadTexts() [][]string {
	out := make([][]string, len(p.Recs))
	for i, l := range p.Recs {
		for _, r := range l {
			out[i] = append(out[i], r.text(p.Key))
		}
	}
	return out
}

func (p *poolSpec) nrecs() int {
	n := 0
	for _, l := range p.Recs {
		n += len(l)
	}
	return n
}

func (p *poolSpec) idPos() map[int64]int {
	m := map[int64]int{}
	for _, l := range p.Recs {
		for _, r := range l {
			m[int64(r.ID)] = r.Pos
		}
	}
	return m
}

// tieFree: no two records of the pool have order-equal keys.
func (p *poolSpec) tieFree() bool {
	seen := map[int]bool{}
	for _, l := range p.Recs {
		for _, r := range l {
			if seen[r.Pos] {
				return false
			}
			seen[r.Pos] = true
		}
	}
	return true
}

// ---- key classes -----------------------------------------------------------------------

var keyClasses = []string{"int", "int", "int", "int", "float", "intfloat", "string", "intnull", "intnull", "mixed", "mixed", "mixed"}

func floatText(f float64) string {
	s := strconv.FormatFloat(f, 'f', -1, 64)
	if !strings.Contains(s, ".") {
		s += "."
	}
	return s
}

func strKey(pos int) string {
	return fmt.Sprintf("\"%c%c%c\"", 'a'+pos/676%26, 'a'+pos/26%26, 'a'+pos%26)
}

func numKey(r *rand.Rand, pos, off int, reprs bool) string {
	// value = (pos-off)/4
	n := pos - off
	if n%4 != 0 {
		return floatText(float64(n) / 4)
	}
	if !reprs {
		return floatText(float64(n / 4))
	}
	switch x := r.Intn(10); {
	case x < 5:
		return strconv.Itoa(n / 4)
	case x < 9 || n < 0:
		return floatText(float64(n / 4))
	default:
		return strconv.Itoa(n/4) + "(uint64)"
	}
}

// keyText maps a domain position to a key value of the class; positions are in key order
// (numbers by value < strings < null/missing), equal positions are order-equal keys.
func keyText(r *rand.Rand, class string, pos, D int, nested bool) string {
	nullish := func() string {
		switch x := r.Intn(4); {
		case x < 2:
			return "null"
		case x == 2 && nested:
			return "-"
		default:
			return ""
		}
	}
	switch class {
	case "int":
		return strconv.Itoa(pos - D/3)
	case "float":
		return numKey(r, pos, D/3, false)
	case "intfloat":
		return numKey(r, pos, D/3, true)
	case "string":
		return strKey(pos)
	case "intnull":
		if pos >= D-1 {
			return nullish()
		}
		return strconv.Itoa(pos - D/3)
	case "mixed":
		switch {
		case pos >= D-1:
			return nullish()
		case pos >= D*6/10:
			return strKey(pos)
		default:
			return numKey(r, pos, D/4, true)
		}
	}
	panic(class)
}

// ---- object range shapes ------------------------------------------------------------------

type span struct{ lo, hi int }

var shapes = []string{"disjoint", "touching", "nested", "chain", "identical", "single", "random", "mix", "mix", "mix"}

// genSpans makes m object key ranges inside [lo,hi] with the given overlap shape.
func genSpans(r *rand.Rand, shape string, lo, hi, m int) []span {
	if hi < lo {
		hi = lo
	}
	w := hi - lo + 1
	var out []span
	switch shape {
	case "disjoint", "touching":
		// m consecutive blocks
		if m > w {
			m = w
		}
		cuts := map[int]bool{}
		for len(cuts) < m-1 {
			cuts[lo+1+r.Intn(w-1)] = true
		}
		var cs []int
		for c := range cuts {
			cs = append(cs, c)
		}
		sort.Ints(cs)
		cs = append(cs, hi+1)
		a := lo
		for _, c := range cs {
			b := c - 1
			if shape == "touching" && c <= hi {
				b = c // max == next min
			}
			if shape == "disjoint" && b > a && r.Intn(3) == 0 {
				b-- // leave a gap
			}
			out = append(out, span{a, b})
			a = c
		}
	case "nested":
		a, b := lo, hi
		for i := 0; i < m; i++ {
			out = append(out, span{a, b})
			if b-a >= 2 && r.Intn(4) != 0 {
				a += r.Intn(2)
				b -= r.Intn(2)
				if r.Intn(3) == 0 && b-a >= 4 {
					a++
					b--
				}
			} else if r.Intn(2) == 0 && b > a {
				// a sibling nested inside the outermost
				x := lo + r.Intn(w)
				y := x + r.Intn(hi-x+1)
				a, b = x, y
			}
		}
	case "chain":
		step := w / (m + 1)
		if step < 1 {
			step = 1
		}
		a := lo
		for i := 0; i < m && a <= hi; i++ {
			b := a + step + r.Intn(step+1)
			if b > hi {
				b = hi
			}
			out = append(out, span{a, b})
			na := b - r.Intn(step/2+1) // overlaps (or touches) the previous one
			if na <= a {
				na = a + 1
			}
			a = na
		}
	case "identical":
		for len(out) < m {
			x := lo + r.Intn(w)
			y := x + r.Intn(hi-x+1)
			for n := 1 + r.Intn(4); n > 0 && len(out) < m; n-- {
				out = append(out, span{x, y})
			}
		}
	case "single":
		for i := 0; i < m; i++ {
			x := lo + r.Intn(w)
			if i > 0 && r.Intn(4) == 0 {
				x = out[r.Intn(len(out))].lo
			}
			out = append(out, span{x, x})
		}
	case "random":
		for i := 0; i < m; i++ {
			x := lo + r.Intn(w)
			y := x + r.Intn(min(hi-x+1, 1+w/3))
			out = append(out, span{x, y})
		}
	default:
		panic(shape)
	}
	return out
}

var gStr = []string{`"a"`, `"b"`, `"c"`, `"d"`}
var gInt = []string{"0", "1", "2", "3"}

// genPool generates a pool; intOnly forces int64 keys without nulls and integer, non-null v
// (used by the model comparisons of scatter/merge and partial sums).
func genPool(r *rand.Rand, intOnly bool) *poolSpec {
	p := &poolSpec{Key: "k", Class: keyClasses[r.Intn(len(keyClasses))], Shape: shapes[r.Intn(len(shapes))]}
	if intOnly {
		p.Class = "int"
	}
	if r.Intn(4) == 0 {
		p.Key = "a.k"
	}
	p.Desc = r.Intn(2) == 0
	p.VFloat = r.Intn(3) == 0 && !intOnly
	p.GKind = []string{"str", "str", "int", "mixed"}[r.Intn(4)]
	nested := p.Key != "k"
	var L int
	switch x := r.Intn(10); {
	case x < 4:
		L = 3 + r.Intn(8)
	case x < 8:
		L = 8 + r.Intn(14)
	default:
		L = 20 + r.Intn(21)
	}
	D := 20 + r.Intn(100)
	var spans []span
	if p.Shape == "mix" {
		nc := 2 + r.Intn(4)
		if nc > L {
			nc = L
		}
		a := 0
		for i := 0; i < nc; i++ {
			w := D / nc
			b := a + w - 1
			m := L / nc
			if i == nc-1 {
				m = L - len(spans)
				b = D - 1
			}
			if m < 1 {
				m = 1
			}
			sh := shapes[r.Intn(7)]
			spans = append(spans, genSpans(r, sh, a, b, m)...)
			if r.Intn(2) == 0 {
				a = b // next cluster touches this one
			} else {
				a = b + 1
			}
		}
	} else {
		spans = genSpans(r, p.Shape, 0, D-1, L)
	}
	if p.Class == "intnull" || p.Class == "mixed" {
		// make sure some objects reach the null/missing end of the domain
		for i := 0; i < 1+r.Intn(3); i++ {
			j := r.Intn(len(spans))
			if r.Intn(2) == 0 {
				spans[j].hi = D - 1
			} else {
				spans[j] = span{D - 1, D - 1}
			}
		}
	}
	r.Shuffle(len(spans), func(i, j int) { spans[i], spans[j] = spans[j], spans[i] })
	gdom := gStr
	switch p.GKind {
	case "int":
		gdom = gInt
	case "mixed":
		gdom = []string{`"a"`, `"b"`, "0", "1"}
	}
	ng := 1 + r.Intn(len(gdom))
	gNull := r.Intn(3) == 0
	gMissing := r.Intn(6) == 0
	vNull := r.Intn(4) == 0 && !intOnly
	vMax := []int{3, 6, 12, 40}[r.Intn(4)]
	id := 0
	for _, sp := range spans {
		n := 1 + r.Intn(4)
		if sp.hi > sp.lo {
			n = 2 + r.Intn(24)
			if r.Intn(2) == 0 {
				n = 2 + r.Intn(6)
			}
		}
		var l []rec
		for i := 0; i < n; i++ {
			pos := sp.lo + r.Intn(sp.hi-sp.lo+1)
			if i == 0 {
				pos = sp.lo
			} else if i == 1 {
				pos = sp.hi
			}
			x := rec{Pos: pos, K: keyText(r, p.Class, pos, D, nested), ID: id}
			id++
			x.G = gdom[r.Intn(ng)]
			if gNull && r.Intn(5) == 0 {
				x.G = "null"
			} else if gMissing && r.Intn(8) == 0 {
				x.G = ""
			}
			x.VN = r.Intn(vMax+3) - 2
			if p.VFloat {
				x.V = floatText(float64(x.VN) / 8)
			} else {
				x.V = strconv.Itoa(x.VN)
			}
			if vNull && r.Intn(8) == 0 {
				x.V = "null"
			}
			x.B = []string{"true", "false"}[r.Intn(2)]
			if r.Intn(12) == 0 {
				x.B = "null"
			}
			x.S = string(rune('p'+r.Intn(4))) + string(rune('a'+r.Intn(3)))
			l = append(l, x)
		}
		p.Recs = append(p.Recs, l)
	}
	return p
}

// ---- programs ---------------------------------------------------------------------------

type prog struct {
	Class   string   `json:"class"`
	Body    string   `json:"body"` // operators after `from <pool> | `; "" = bare scan
	Mode    string   `json:"mode"` // seq | ms | set | sub
	Tie     []string `json:"tie,omitempty"`
	HT      string   `json:"ht,omitempty"` // trailing head/tail
	N       int      `json:"n,omitempty"`
	Base    string   `json:"base"` // Body without the trailing head/tail
	Collect bool     `json:"collect,omitempty"`
}

func (q prog) query(pool, body string) string {
	if body == "" {
		return "from " + pool
	}
	return "from " + pool + " | " + body
}

func join(ops ...string) string {
	var xs []string
	for _, o := range ops {
		if o != "" {
			xs = append(xs, o)
		}
	}
	return strings.Join(xs, " | ")
}

type progGen struct {
	r    *rand.Rand
	p    *poolSpec
	K    string
	lits []string // key literals occurring in the pool (non-null)
	gl   []string
}

func newProgGen(r *rand.Rand, p *poolSpec) *progGen {
	g := &progGen{r: r, p: p, K: p.Key}
	seen := map[string]bool{}
	gs := map[string]bool{}
	for _, l := range p.Recs {
		for _, x := range l {
			if x.K != "" && x.K != "-" && x.K != "null" && !seen[x.K] {
				seen[x.K] = true
				g.lits = append(g.lits, x.K)
			}
			if x.G != "" && x.G != "null" && !gs[x.G] {
				gs[x.G] = true
				g.gl = append(g.gl, x.G)
			}
		}
	}
	sort.Strings(g.lits)
	sort.Strings(g.gl)
	if len(g.lits) == 0 {
		g.lits = []string{"0"}
	}
	if len(g.gl) == 0 {
		g.gl = []string{`"a"`}
	}
	return g
}

func (g *progGen) lit() string {
	l := g.lits[g.r.Intn(len(g.lits))]
	if strings.HasSuffix(l, "(uint64)") {
		return "uint64(" + strings.TrimSuffix(l, "(uint64)") + ")"
	}
	return l
}
func (g *progGen) glit() string { return g.gl[g.r.Intn(len(g.gl))] }
func (g *progGen) pick(xs ...string) string {
	return xs[g.r.Intn(len(xs))]
}

func (g *progGen) filterV() string {
	return "where " + g.pick("v > 3", "v <= 2", "v == 1", "v >= 0", "v < 1 or v > 4", "b", "!b", "s >= \"q\"")
}
func (g *progGen) filterK() string {
	K := g.K
	a, b := g.lit(), g.lit()
	switch g.r.Intn(9) {
	case 0:
		return fmt.Sprintf("where %s >= %s", K, a)
	case 1:
		return fmt.Sprintf("where %s < %s", K, a)
	case 2:
		return fmt.Sprintf("where %s == %s", K, a)
	case 3:
		return fmt.Sprintf("where %s > %s and %s <= %s", K, a, K, b)
	case 4:
		return fmt.Sprintf("where %s <= %s or %s > %s", K, a, K, b)
	case 5:
		return fmt.Sprintf("where %s > %s", K, a)
	case 6:
		return fmt.Sprintf("where %s <= %s", K, a)
	case 7:
		return fmt.Sprintf("where %s >= %s and v > 1", K, a)
	default:
		return fmt.Sprintf("where %s >= %s | where %s < %s", K, a, K, b)
	}
}
func (g *progGen) filterG() string {
	return "where " + g.pick("g == "+g.glit(), "g != "+g.glit(), "g == "+g.glit()+" or v > 2")
}
func (g *progGen) filterAny() string {
	switch g.r.Intn(5) {
	case 0:
		return g.filterV()
	case 1, 2:
		return g.filterK()
	case 3:
		return g.filterG()
	default:
		return "where id >= 0"
	}
}
func (g *progGen) maybeFilter() string {
	if g.r.Intn(2) == 0 {
		return ""
	}
	return g.filterAny()
}
func (g *progGen) n() int {
	if g.r.Intn(20) == 0 {
		return 0 // rejected by the compiler at every parallelism
	}
	return []int{1, 1, 2, 2, 3, 5, 9, 50, g.p.nrecs() + 7}[g.r.Intn(9)]
}

func (g *progGen) seq(class, body string, tie ...string) prog {
	return prog{Class: class, Body: body, Base: body, Mode: "seq", Tie: tie}
}
func (g *progGen) ms(class, body string) prog {
	return prog{Class: class, Body: body, Base: body, Mode: "ms"}
}
func (g *progGen) ht(q prog, class string) prog {
	q.Class = class
	q.HT = g.pick("head", "tail")
	if strings.HasSuffix(class, "head") {
		q.HT = "head"
	} else if strings.HasSuffix(class, "tail") {
		q.HT = "tail"
	}
	q.N = g.n()
	q.Base = q.Body
	q.Body = join(q.Body, fmt.Sprintf("%s %d", q.HT, q.N))
	if q.Mode == "ms" {
		q.Mode = "sub"
	}
	return q
}

var progClasses = []string{
	"filter-v", "filter-key", "filter-key", "filter-g",
	"cut-keeps-key", "drop-keeps-key", "put-keeps-key", "rename-keeps-key",
	"cut-destroys-key", "drop-destroys-key", "rename-key", "put-destroys-key", "cut-renames-key", "cut-destroys-key-head", "drop-destroys-key-head", "put-destroys-key-head",
	"head", "head", "tail", "tail", "filter-head", "filter-tail", "cut-head", "cut-tail",
	"sort", "sort", "sort-key", "sort2", "sort-head", "sort-head", "sort-tail", "sort-key-head",
	"uniq", "cut-destroys-key-uniq", "fuse", "yield-key", "yield-key-head",
	"count", "summarize-nokey", "summarize-nokey", "summarize-by-g", "summarize-by-g", "summarize-by-g", "summarize-collect", "summarize-fuse-agg",
	"summarize-by-key", "summarize-by-key", "summarize-by-key-head", "summarize-by-key-head", "summarize-by-key-sort", "summarize-by-key-g", "summarize-by-g-key",
	"summarize-by-g-sort", "summarize-by-g-sort", "summarize-where", "two-stage", "summarize-sort", "summarize-by-g-head",
	"summarize-by-floor-key", "filter-summarize-by-key",
}

func (g *progGen) aggsByG() string {
	return g.pick("count()", "sum(v), count()", "avg(v), min(v), max(v)", "union(v)", "and(b), or(b)",
		"dcount(v)", "s:=sum(v), n:=count(), u:=union(s)", "min(id), max(id)", "avg(v)", "max(v), union(b)")
}

func (g *progGen) gen(class string) prog {
	K := g.K
	r := g.r
	switch class {
	case "filter-v":
		return g.seq(class, g.filterV(), K)
	case "filter-key":
		return g.seq(class, g.filterK(), K)
	case "filter-g":
		return g.seq(class, g.filterG(), K)
	case "cut-keeps-key":
		return g.seq(class, join(g.maybeFilter(), "cut "+g.pick(K+", v, id", K+", g", "id, "+K, K)), K)
	case "drop-keeps-key":
		return g.seq(class, join(g.maybeFilter(), "drop "+g.pick("s, b", "v", "g, s")), K)
	case "put-keeps-key":
		return g.seq(class, join(g.maybeFilter(), "put "+g.pick("w:=v+1", "w:=id, v:=0", "g:=s")), K)
	case "rename-keeps-key":
		return g.seq(class, join(g.maybeFilter(), "rename "+g.pick("vv:=v", "gg:=g, ss:=s")), K)
	case "cut-destroys-key":
		if g.r.Intn(4) == 0 {
			return g.ms(class, join(g.maybeFilter(), "cut "+g.pick("v", "g, v")))
		}
		// the key is gone but every record keeps its id: still pool-key order
		return g.seq(class, join(g.maybeFilter(), "cut "+g.pick("v, id", "id", "s, id", "id, g")), "@id")
	case "drop-destroys-key":
		return g.seq(class, join(g.maybeFilter(), "drop "+K), "@id")
	case "put-destroys-key":
		return g.seq(class, join(g.maybeFilter(), "put "+K+":="+g.pick("v", "id", "0")), "@id")
	case "cut-destroys-key-head":
		return g.ht(g.seq(class, join(g.maybeFilter(), "cut "+g.pick("id, v", "id")), "@id"), class)
	case "drop-destroys-key-head":
		return g.ht(g.seq(class, join(g.maybeFilter(), "drop "+K), "@id"), class)
	case "put-destroys-key-head":
		return g.ht(g.seq(class, join(g.maybeFilter(), "put "+K+":="+g.pick("v", "0")), "@id"), class)
	case "rename-key":
		if K == "k" {
			return g.seq(class, join(g.maybeFilter(), "rename kk:=k"), "kk")
		}
		return g.seq(class, join(g.maybeFilter(), "rename a.kk:=a.k"), "a.kk")
	case "cut-renames-key":
		return g.seq(class, join(g.maybeFilter(), "cut kk:="+K+", v, id"), "kk")
	case "head", "tail":
		return g.ht(g.seq(class, "", K), class)
	case "filter-head", "filter-tail":
		return g.ht(g.seq(class, g.filterAny(), K), class)
	case "cut-head", "cut-tail":
		return g.ht(g.seq(class, join(g.maybeFilter(), "cut "+K+", id, v"), K), class)
	case "sort":
		f := g.pick("v", "v", "g", "id", "s")
		return g.seq(class, join(g.maybeFilter(), "sort "+g.pick("", "-r ")+f), f)
	case "sort-key":
		return g.seq(class, join(g.maybeFilter(), "sort "+g.pick("", "-r ")+K), K)
	case "sort2":
		return g.seq(class, join(g.maybeFilter(), "sort "+g.pick("g, v", "v, g", "g, "+K, "b, v")), "g", "v", K, "b")
	case "sort-head", "sort-tail":
		f := g.pick("v", "v", "g", "id")
		return g.ht(g.seq(class, join(g.maybeFilter(), "sort "+g.pick("", "-r ")+f), f), class)
	case "sort-key-head":
		return g.ht(g.seq(class, join(g.maybeFilter(), "sort "+g.pick("", "-r ")+K), K), class)
	case "uniq":
		q := g.ms(class, join(g.maybeFilter(), "cut "+K, "uniq"))
		q.Mode = "set"
		return q
	case "cut-destroys-key-uniq":
		q := g.ms(class, join(g.maybeFilter(), "cut "+g.pick("g", "b", "g, b"), "uniq"))
		q.Mode = "set"
		return q
	case "fuse":
		return g.seq(class, join(g.maybeFilter(), "fuse"), K)
	case "yield-key":
		return g.seq(class, join(g.maybeFilter(), "yield "+K), "")
	case "yield-key-head":
		return g.ht(g.seq(class, join(g.filterAny(), "yield "+K), ""), class)
	case "count":
		return g.ms(class, join(g.maybeFilter(), "count()"))
	case "summarize-nokey":
		return g.ms(class, join(g.maybeFilter(), "summarize "+g.pick("union(g)", "dcount(v)", "sum(v), count()", "and(b), or(b)", "avg(v), min(v), max(v)", "union(v), min(id)", "s:=sum(v), c:=count()")))
	case "summarize-by-g":
		return g.ms(class, join(g.maybeFilter(), "summarize "+g.aggsByG()+" by g"))
	case "summarize-fuse-agg":
		return g.ms(class, join(g.maybeFilter(), "summarize "+g.pick("fuse(v)", "fuse(g), count()", "fuse(v), fuse(this)")+g.pick(" by g", "", " by b")))
	case "summarize-collect":
		q := g.ms(class, join(g.maybeFilter(), "summarize "+g.pick("collect(v)", "collect(v), count()", "collect(id)")+g.pick(" by g", "", " by b")))
		q.Collect = true
		return q
	case "summarize-by-key":
		return g.seq(class, "summarize "+g.pick("count()", "sum(v), count()", "avg(v)", "union(g)", "min(v), max(id)")+" by "+K, K)
	case "filter-summarize-by-key":
		return g.seq(class, join(g.filterAny(), "summarize "+g.pick("count()", "sum(v)", "union(v)")+" by "+K), K)
	case "summarize-by-key-head":
		return g.ht(g.seq(class, "summarize "+g.pick("sum(v)", "count()")+" by "+K, K), class)
	case "summarize-by-key-sort":
		return g.seq(class, "summarize "+g.pick("count()", "sum(v)")+" by "+K+" | sort "+g.pick("", "-r ")+K, K)
	case "summarize-by-key-g":
		return g.seq(class, join(g.maybeFilter(), "summarize "+g.pick("count()", "sum(v)")+" by "+K+", g"), K)
	case "summarize-by-g-key":
		return g.ms(class, join(g.maybeFilter(), "summarize "+g.pick("count()", "sum(v)")+" by g, "+K))
	case "summarize-by-g-sort":
		return g.seq(class, join(g.maybeFilter(), "summarize "+g.aggsByG()+" by g", "sort "+g.pick("", "-r ")+"g"), "g")
	case "summarize-sort":
		return g.seq(class, join(g.maybeFilter(), "summarize n:=count(), t:=sum(v) by g", "sort "+g.pick("n", "t", "-r n")), g.pick("n"))
	case "summarize-where":
		return g.ms(class, "summarize "+g.pick("count() where v>3", "sum(v) where b", "n:=count() where g=="+g.glit()+", m:=count()", "max(v) where v<3")+g.pick(" by g", " by g", ""))
	case "two-stage":
		return g.ms(class, g.pick("count() by g | count()", "count() by "+K+" | count()", "t:=sum(v) by g | sum(t)", "n:=count() by g | max(n), min(n)", "n:=count() by "+K+" | count() by n"))
	case "summarize-by-g-head":
		return g.ht(g.ms(class, "summarize "+g.pick("count()", "sum(v)")+" by g"), class)
	case "summarize-by-floor-key":
		if K != "k" || g.p.Class == "string" || g.p.Class == "mixed" {
			return g.gen("summarize-by-key")
		}
		return g.seq(class, "summarize count() by k:=floor(k)", "k")
	}
	_ = r
	panic(class)
}

func (g *progGen) programs(n int) []prog {
	var out []prog
	perm := g.r.Perm(len(progClasses))
	for i := 0; i < n; i++ {
		q := g.gen(progClasses[perm[i%len(perm)]])
		// summarize-sort picks its tie field from the sort expression
		if q.Class == "summarize-sort" {
			f := strings.Fields(q.Body)
			q.Tie = []string{f[len(f)-1]}
		}
		if q.Class == "sort2" {
			f := strings.Split(q.Body[strings.LastIndex(q.Body, "sort ")+5:], ", ")
			q.Tie = f
		}
		out = append(out, q)
	}
	return out
}
