/-!
  L0 — byte-level primitives shared by the type-value codec (C05) and the value model (C06):
  `encoding/binary` uvarints (with Go's 10-byte / overflow rule), zcode tags
  (tag = length+1, 0 = null), the zcode iterator and the counted varints of `zcode/counted.go`.
  Core Lean only.  Byte strings are `List UInt8`.
-/
namespace Zed

abbrev Bytes := List UInt8
abbrev Name := List UInt8

namespace Zcode

/-- `binary.AppendUvarint` on fuel (10 bytes suffice for every `uint64`; the model gives 20 so
    that the encoder is total on every `Nat < 2^140`). -/
def uvarintF : Nat → Nat → Bytes
  | 0, _ => []
  | f+1, n => if n < 128 then [UInt8.ofNat n] else UInt8.ofNat (n % 128 + 128) :: uvarintF f (n / 128)

def uvarint (n : Nat) : Bytes := uvarintF 20 n

/-- `binary.Uvarint`: `i` = index of the next byte, `acc` = value so far, `sh` = shift.
    Returns the value and the rest; `none` covers both "buffer too small" (n = 0) and
    "overflow" (n < 0) of the Go function. -/
def readUvarintAux : Nat → Nat → Nat → Bytes → Option (Nat × Bytes)
  | _, _, _, [] => none
  | i, acc, sh, b :: rest =>
    if i = 10 then none
    else if b.toNat < 128 then
      if i = 9 ∧ b.toNat > 1 then none else some (acc + b.toNat * 2 ^ sh, rest)
    else readUvarintAux (i+1) (acc + (b.toNat % 128) * 2 ^ sh) (sh + 7) rest

def readUvarint (bs : Bytes) : Option (Nat × Bytes) := readUvarintAux 0 0 0 bs

/-- `zed.DecodeLength`: a uvarint converted to `int`; values ≥ 2^63 are negative in Go and make
    the callers index out of range — the model rejects them. -/
def decodeLength (bs : Bytes) : Option (Nat × Bytes) :=
  match readUvarint bs with
  | some (n, rest) => if n < 2 ^ 63 then some (n, rest) else none
  | none => none

/-- `zed.DecodeName` -/
def decodeName (bs : Bytes) : Option (Name × Bytes) :=
  match decodeLength bs with
  | some (n, rest) => if n ≤ rest.length then some (rest.take n, rest.drop n) else none
  | none => none

def encodeName (n : Name) : Bytes := uvarint n.length ++ n

/-- `zcode.Append`: `none` is the null value. -/
def append (dst : Bytes) (val : Option Bytes) : Bytes :=
  match val with
  | none => dst ++ uvarint 0
  | some v => dst ++ uvarint (v.length + 1) ++ v

/-- `zcode.Iter.Next` repeated until `Done`: the bodies of a container (`none` = null).
    `none` overall where the Go iterator panics (bad uvarint / short body). -/
def elems : Nat → Bytes → Option (List (Option Bytes))
  | _, [] => some []
  | 0, _ => none
  | f+1, bs =>
    match readUvarint bs with
    | none => none
    | some (tag, rest) =>
      if tag = 0 then (elems f rest).map (none :: ·)
      else if tag - 1 ≤ rest.length then (elems f (rest.drop (tag - 1))).map (some (rest.take (tag - 1)) :: ·)
      else none

/-- `zcode.DecodeCountedUvarint` (little endian). -/
def countedUvarint : Bytes → Nat
  | [] => 0
  | b :: rest => b.toNat + 256 * countedUvarint rest

/-- `zcode.DecodeCountedVarint` (sign in the low bit; "-0" is MinInt64). -/
def countedVarint (bs : Bytes) : Int :=
  let u := countedUvarint bs
  if u % 2 = 1 then
    if u / 2 = 0 then -(2 ^ 63 : Int) else -((u / 2 : Nat) : Int)
  else ((u / 2 : Nat) : Int)

def leNat : Bytes → Nat := countedUvarint

end Zcode
end Zed
