import Zed.Model.ZngUvarint
import Zed.Generated.C01
/-!
  ZNG typedefs (`zio/zngio/types.go`): structural types, the per-stream local type context
  (`zed.Context` as used by `zngio.Encoder` / `zngio.Decoder.local`: complex types numbered
  from `IDTypeComplex` in the order they are first entered, looked up structurally), the
  typedef encoder and the typedef decoder.

  Not to be confused with the `Ty` model of C05: this file is self-contained.
-/
namespace Zed.Zng
open Zed.Generated.C01

mutual
inductive ZTy where
  | prim (id : Nat)
  | record (fs : ZFields)
  | array (t : ZTy)
  | set (t : ZTy)
  | map (k v : ZTy)
  | union (ts : ZTys)
  | enum (syms : List Bytes)
  | error (t : ZTy)
  | named (name : Bytes) (t : ZTy)
  deriving DecidableEq, Repr
inductive ZFields where
  | nil
  | cons (name : Bytes) (t : ZTy) (rest : ZFields)
  deriving DecidableEq, Repr
inductive ZTys where
  | nil
  | cons (t : ZTy) (rest : ZTys)
  deriving DecidableEq, Repr
end

instance : Inhabited ZTy := ⟨.prim 0⟩

def ZFields.toList : ZFields → List (Bytes × ZTy)
  | .nil => []
  | .cons n t r => (n, t) :: r.toList
def ZFields.ofList : List (Bytes × ZTy) → ZFields
  | [] => .nil
  | (n, t) :: r => .cons n t (ZFields.ofList r)
def ZTys.toList : ZTys → List ZTy
  | .nil => []
  | .cons t r => t :: r.toList
def ZTys.ofList : List ZTy → ZTys
  | [] => .nil
  | t :: r => .cons t (ZTys.ofList r)

theorem ZFields.ofList_toList : ∀ fs : ZFields, ZFields.ofList fs.toList = fs
  | .nil => rfl
  | .cons n t r => by simp [ZFields.toList, ZFields.ofList, ZFields.ofList_toList r]
theorem ZTys.ofList_toList : ∀ ts : ZTys, ZTys.ofList ts.toList = ts
  | .nil => rfl
  | .cons t r => by simp [ZTys.toList, ZTys.ofList, ZTys.ofList_toList r]

mutual
def ZTy.size : ZTy → Nat
  | .prim _ => 1
  | .record fs => 1 + fs.size
  | .array t => 1 + t.size
  | .set t => 1 + t.size
  | .map k v => 1 + k.size + v.size
  | .union ts => 1 + ts.size
  | .enum _ => 1
  | .error t => 1 + t.size
  | .named _ t => 1 + t.size
def ZFields.size : ZFields → Nat
  | .nil => 0
  | .cons _ t r => 1 + t.size + r.size
def ZTys.size : ZTys → Nat
  | .nil => 0
  | .cons t r => 1 + t.size + r.size
end

/-! ### The local type context -/

/-- Complex types in the order they were entered; the type at index `i` has id `30 + i`. -/
abbrev Ctx := List ZTy

def Ctx.find : Ctx → ZTy → Option Nat
  | [], _ => none
  | x :: xs, t => if x = t then some 0 else (Ctx.find xs t).map (· + 1)

/-- `Context.LookupType*`: the existing type if there is one, else a new id. -/
def Ctx.enter (ctx : Ctx) (t : ZTy) : Ctx × Nat :=
  match ctx.find t with
  | some i => (ctx, idTypeComplex + i)
  | none => (ctx ++ [t], idTypeComplex + ctx.length)

/-- `zed.TypeID` of (the internal copy of) `t` in `ctx`. -/
def Ctx.idOf (ctx : Ctx) : ZTy → Nat
  | .prim id => id
  | t => match ctx.find t with
    | some i => idTypeComplex + i
    | none => 0

/-- `Context.LookupType(id)` (`LookupPrimitiveByID` below `IDTypeComplex`). -/
def Ctx.typeOfId (ctx : Ctx) (id : Int) : Option ZTy :=
  if id < 0 then none
  else if id.toNat < idTypeComplex then
    (if primitiveIDs.contains id.toNat then some (.prim id.toNat) else none)
  else ctx[id.toNat - idTypeComplex]?

/-! ### `CompareTypes` and the union member order -/

def ZTy.under : ZTy → ZTy
  | .named _ t => t.under
  | t => t

def ZTy.kind : ZTy → Nat
  | .prim _ => primitiveKind
  | .record _ => recordKind
  | .array _ => arrayKind
  | .set _ => setKind
  | .map _ _ => mapKind
  | .union _ => unionKind
  | .enum _ => enumKind
  | .error _ => errorKind
  | .named _ t => t.kind

def cmpNat (a b : Nat) : Int := if a < b then -1 else if a > b then 1 else 0

/-- `strings.Compare` on byte strings. -/
def cmpBytes : Bytes → Bytes → Int
  | [], [] => 0
  | [], _ :: _ => -1
  | _ :: _, [] => 1
  | a :: as, b :: bs => if a < b then -1 else if a > b then 1 else cmpBytes as bs

/-- `zed.CompareTypes` on structural types of one context (`a.ID() == b.ID()` iff the
    types under the names are the same type).  Fuel: `a.size` always suffices. -/
def compareTypesF : Nat → ZTy → ZTy → Int
  | 0, _, _ => 0
  | fuel + 1, a, b =>
    if a.under = b.under then
      match a, b with
      | .named na ta, .named nb tb =>
        -- ordered by name, then by the types they name (repo commit 2f4e3fba9)
        let c := cmpBytes na nb
        if c ≠ 0 then c else compareTypesF fuel ta tb
      | .named _ _, _ => 1
      | _, .named _ _ => -1
      | _, _ => 0
    else if a.kind ≠ b.kind then cmpNat a.kind b.kind
    else
      let firstNZ (l : List Int) : Int := (l.find? (· ≠ 0)).getD 0
      match a.under, b.under with
      | .prim x, .prim y => cmpNat x y
      | .record fa, .record fb =>
        let la := fa.toList
        let lb := fb.toList
        if la.length ≠ lb.length then cmpNat la.length lb.length
        else
          let names := firstNZ ((la.zip lb).map fun (x, y) => cmpBytes x.1 y.1)
          if names ≠ 0 then names
          else firstNZ ((la.zip lb).map fun (x, y) => compareTypesF fuel x.2 y.2)
      | .array x, .array y => compareTypesF fuel x y
      | .set x, .set y => compareTypesF fuel x y
      | .map ka va, .map kb vb =>
        let c := compareTypesF fuel ka kb
        if c ≠ 0 then c else compareTypesF fuel va vb
      | .union ta, .union tb =>
        let la := ta.toList
        let lb := tb.toList
        if la.length ≠ lb.length then cmpNat la.length lb.length
        else firstNZ ((la.zip lb).map fun (x, y) => compareTypesF fuel x y)
      | .enum sa, .enum sb =>
        if sa.length ≠ sb.length then cmpNat sa.length sb.length
        else firstNZ ((sa.zip sb).map fun (x, y) => cmpBytes x y)
      | .error x, .error y => compareTypesF fuel x y
      | _, _ => 0

def compareTypes (a b : ZTy) : Int := compareTypesF (a.size + 1) a b

/-- Stable insertion: `x` goes before the first element that is not less than it …
    i.e. after every element `y` with `¬ (x < y)`; `x` originally precedes all of `l`. -/
def insertTy (x : ZTy) : List ZTy → List ZTy
  | [] => [x]
  | y :: ys => if compareTypes y x < 0 then y :: insertTy x ys else x :: y :: ys

/-- `sort.SliceStable(types, CompareTypes(i,j) < 0)` (`LookupTypeUnion`). -/
def sortTys : List ZTy → List ZTy
  | [] => []
  | x :: xs => insertTy x (sortTys xs)

/-- Adjacent members are in order (what `LookupTypeUnion` leaves behind). -/
def sortedTys : List ZTy → Bool
  | [] => true
  | [_] => true
  | x :: y :: r => !(decide (compareTypes y x < 0)) && sortedTys (y :: r)

/-! ### UTF-8 validity (`utf8.ValidString`) and primitive type names -/

def validUtf8 : Bytes → Bool
  | [] => true
  | b0 :: rest =>
    let cont (b : UInt8) : Bool := 0x80 ≤ b && b ≤ 0xBF
    if b0 < 0x80 then validUtf8 rest
    else if 0xC2 ≤ b0 && b0 ≤ 0xDF then
      match rest with
      | b1 :: r => cont b1 && validUtf8 r
      | _ => false
    else if 0xE0 ≤ b0 && b0 ≤ 0xEF then
      match rest with
      | b1 :: b2 :: r =>
        let lo : UInt8 := if b0 = 0xE0 then 0xA0 else 0x80
        let hi : UInt8 := if b0 = 0xED then 0x9F else 0xBF
        (lo ≤ b1 && b1 ≤ hi) && cont b2 && validUtf8 r
      | _ => false
    else if 0xF0 ≤ b0 && b0 ≤ 0xF4 then
      match rest with
      | b1 :: b2 :: b3 :: r =>
        let lo : UInt8 := if b0 = 0xF0 then 0x90 else 0x80
        let hi : UInt8 := if b0 = 0xF4 then 0x8F else 0xBF
        (lo ≤ b1 && b1 ≤ hi) && cont b2 && cont b3 && validUtf8 r
      | _ => false
    else false

/-- `Context.LookupTypeNamed` accepts the name. -/
def validTypeName (n : Bytes) : Bool := validUtf8 n && !(primitiveNameBytes.contains n)

def hasDup : List Bytes → Bool
  | [] => false
  | x :: xs => xs.contains x || hasDup xs

/-! ### Typedef encoder (`zngio.Encoder`) -/

structure EncSt where
  ctx : Ctx := []
  /-- `Encoder.encoded`: external type (context tag, structure) already encoded. -/
  cache : List (Nat × ZTy) := []
  /-- `Encoder.bytes`: typedefs not yet flushed. -/
  bytes : Bytes := []
  /-- every integer written so far fits in a Go `int` -/
  small : Bool := true
  deriving Repr

def EncSt.put (s : EncSt) (b : Bytes) : EncSt := { s with bytes := s.bytes ++ b }
def EncSt.putUv (s : EncSt) (n : Nat) : EncSt :=
  { s with bytes := s.bytes ++ uvarint n, small := s.small && decide (n < two63) }
def EncSt.putCounted (s : EncSt) (b : Bytes) : EncSt := (s.putUv b.length).put b

def putFields : List (Bytes × Nat) → EncSt → EncSt
  | [], s => s
  | (n, id) :: r, s => putFields r ((s.putCounted n).putUv id)
def putIds : List Nat → EncSt → EncSt
  | [], s => s
  | id :: r, s => putIds r (s.putUv id)
def putSyms : List Bytes → EncSt → EncSt
  | [], s => s
  | b :: r, s => putSyms r (s.putCounted b)

/-- finish one typedef: enter the type, remember the external type, return its id -/
def EncSt.finish (s : EncSt) (cid : Nat) (t : ZTy) : EncSt × Nat :=
  let (ctx', id) := s.ctx.enter t
  ({ s with ctx := ctx', cache := (cid, t) :: s.cache }, id)

mutual
/-- `Encoder.Encode`: returns the id of the internal type; emits typedefs for every
    external type not yet in `encoded` (children first). -/
def encTy (cid : Nat) : ZTy → EncSt → EncSt × Nat
  | .prim id, s => (s, id)
  | .record fs, s =>
    if s.cache.contains (cid, .record fs) then (s, s.ctx.idOf (.record fs)) else
    let (s1, ids) := encFields cid fs s
    let s2 := putFields ids ((s1.put [UInt8.ofNat typeDefRecord]).putUv ids.length)
    s2.finish cid (.record fs)
  | .array e, s =>
    if s.cache.contains (cid, .array e) then (s, s.ctx.idOf (.array e)) else
    let (s1, eid) := encTy cid e s
    ((s1.put [UInt8.ofNat typeDefArray]).putUv eid).finish cid (.array e)
  | .set e, s =>
    if s.cache.contains (cid, .set e) then (s, s.ctx.idOf (.set e)) else
    let (s1, eid) := encTy cid e s
    ((s1.put [UInt8.ofNat typeDefSet]).putUv eid).finish cid (.set e)
  | .map k v, s =>
    if s.cache.contains (cid, .map k v) then (s, s.ctx.idOf (.map k v)) else
    let (s1, kid) := encTy cid k s
    let (s2, vid) := encTy cid v s1
    (((s2.put [UInt8.ofNat typeDefMap]).putUv kid).putUv vid).finish cid (.map k v)
  | .union ts, s =>
    if s.cache.contains (cid, .union ts) then (s, s.ctx.idOf (.union ts)) else
    let (s1, ids) := encTys cid ts s
    (putIds ids ((s1.put [UInt8.ofNat typeDefUnion]).putUv ids.length)).finish cid (.union ts)
  | .enum syms, s =>
    if s.cache.contains (cid, .enum syms) then (s, s.ctx.idOf (.enum syms)) else
    (putSyms syms ((s.put [UInt8.ofNat typeDefEnum]).putUv syms.length)).finish cid (.enum syms)
  | .error e, s =>
    if s.cache.contains (cid, .error e) then (s, s.ctx.idOf (.error e)) else
    let (s1, eid) := encTy cid e s
    ((s1.put [UInt8.ofNat typeDefError]).putUv eid).finish cid (.error e)
  | .named n e, s =>
    if s.cache.contains (cid, .named n e) then (s, s.ctx.idOf (.named n e)) else
    let (s1, eid) := encTy cid e s
    (((s1.put [UInt8.ofNat typeDefName]).putCounted n).putUv eid).finish cid (.named n e)
def encFields (cid : Nat) : ZFields → EncSt → EncSt × List (Bytes × Nat)
  | .nil, s => (s, [])
  | .cons n t r, s =>
    let (s1, id) := encTy cid t s
    let (s2, rest) := encFields cid r s1
    (s2, (n, id) :: rest)
def encTys (cid : Nat) : ZTys → EncSt → EncSt × List Nat
  | .nil, s => (s, [])
  | .cons t r, s =>
    let (s1, id) := encTy cid t s
    let (s2, rest) := encTys cid r s1
    (s2, id :: rest)
end

/-! ### Typedef decoder (`zngio.Decoder`) -/

inductive DErr where
  | bad                    -- an ordinary error return
  | panic (site : String)  -- the Go code panics here
  deriving DecidableEq, Repr

/-- `readUvarintAsInt(b)`; any failure is `errBadFormat`. -/
def rdInt (bs : Bytes) : Except DErr (Int × Bytes) :=
  match readUvarintAsInt bs with
  | .ok x => .ok x
  | .error _ => .error .bad

theorem rdInt_progress {bs : Bytes} {v : Int} {r : Bytes} (h : rdInt bs = .ok (v, r)) :
    r.length < bs.length := by
  unfold rdInt at h
  split at h
  · rename_i x heq; cases h; exact readUvarintAsInt_progress bs _ _ heq
  · cases h

/-- `Decoder.readCountedString`: a negative count is refused before `buffer.read(n)` (which
    slices `data[off:off+n]`) is reached. -/
def rdCounted (bs : Bytes) : Except DErr (Bytes × Bytes) :=
  match rdInt bs with
  | .error e => .error e
  | .ok (n, r) =>
    -- `err != nil || n < 0` → errBadFormat (the sign test: repo commit 0b09f99cc)
    if n < 0 then .error .bad
    else if !hasLen r n.toNat then .error .bad
    else .ok (r.take n.toNat, r.drop n.toNat)

theorem rdCounted_progress {bs s r : Bytes} (h : rdCounted bs = .ok (s, r)) :
    r.length < bs.length := by
  unfold rdCounted at h
  split at h
  · cases h
  · rename_i n r' heq
    have := rdInt_progress heq
    split at h
    · cases h
    · split at h
      · cases h
      · cases h; simp; omega

/-- a type id followed by `LookupType` -/
def rdType (ctx : Ctx) (bs : Bytes) : Except DErr (ZTy × Bytes) :=
  match rdInt bs with
  | .error e => .error e
  | .ok (id, r) =>
    match ctx.typeOfId id with
    | some t => .ok (t, r)
    | none => .error .bad

theorem rdType_progress {ctx : Ctx} {bs r : Bytes} {t : ZTy} (h : rdType ctx bs = .ok (t, r)) :
    r.length < bs.length := by
  unfold rdType at h
  split at h
  · cases h
  · rename_i id r' heq
    have := rdInt_progress heq
    split at h
    · cases h; exact this
    · cases h

/-- `for k := 0; k < n; k++ { readField }` -/
def rdFields (ctx : Ctx) : Nat → Bytes → Except DErr (List (Bytes × ZTy) × Bytes)
  | 0, bs => .ok ([], bs)
  | n + 1, bs =>
    match rdCounted bs with
    | .error e => .error e
    | .ok (name, r) =>
      match rdType ctx r with
      | .error e => .error e
      | .ok (t, r2) =>
        match rdFields ctx n r2 with
        | .error e => .error e
        | .ok (fs, r3) => .ok ((name, t) :: fs, r3)

def rdTypes (ctx : Ctx) : Nat → Bytes → Except DErr (List ZTy × Bytes)
  | 0, bs => .ok ([], bs)
  | n + 1, bs =>
    match rdType ctx bs with
    | .error e => .error e
    | .ok (t, r) =>
      match rdTypes ctx n r with
      | .error e => .error e
      | .ok (ts, r2) => .ok (t :: ts, r2)

def rdSyms : Nat → Bytes → Except DErr (List Bytes × Bytes)
  | 0, bs => .ok ([], bs)
  | n + 1, bs =>
    match rdCounted bs with
    | .error e => .error e
    | .ok (s, r) =>
      match rdSyms n r with
      | .error e => .error e
      | .ok (ss, r2) => .ok (s :: ss, r2)

/-- The loops consume input in proportion to their trip count: they cannot spin. -/
theorem rdFields_progress {ctx : Ctx} : ∀ {n : Nat} {bs r : Bytes} {fs : List (Bytes × ZTy)},
    rdFields ctx n bs = .ok (fs, r) → r.length + 2 * n ≤ bs.length ∧ fs.length = n := by
  intro n
  induction n with
  | zero => intro bs r fs h; simp [rdFields] at h; obtain ⟨rfl, rfl⟩ := h; simp
  | succ n ih =>
    intro bs r fs h
    simp only [rdFields] at h
    split at h
    · cases h
    · rename_i name r1 h1
      split at h
      · cases h
      · rename_i t r2 h2
        split at h
        · cases h
        · rename_i fs' r3 h3
          cases h
          have := rdCounted_progress h1
          have := rdType_progress h2
          have := ih h3
          simp; omega

theorem rdTypes_progress {ctx : Ctx} : ∀ {n : Nat} {bs r : Bytes} {ts : List ZTy},
    rdTypes ctx n bs = .ok (ts, r) → r.length + n ≤ bs.length ∧ ts.length = n := by
  intro n
  induction n with
  | zero => intro bs r ts h; simp [rdTypes] at h; obtain ⟨rfl, rfl⟩ := h; simp
  | succ n ih =>
    intro bs r ts h
    simp only [rdTypes] at h
    split at h
    · cases h
    · rename_i t r1 h1
      split at h
      · cases h
      · rename_i ts' r2 h2
        cases h
        have := rdType_progress h1
        have := ih h2
        simp; omega

theorem rdSyms_progress : ∀ {n : Nat} {bs r : Bytes} {ss : List Bytes},
    rdSyms n bs = .ok (ss, r) → r.length + n ≤ bs.length ∧ ss.length = n := by
  intro n
  induction n with
  | zero => intro bs r ss h; simp [rdSyms] at h; obtain ⟨rfl, rfl⟩ := h; simp
  | succ n ih =>
    intro bs r ss h
    simp only [rdSyms] at h
    split at h
    · cases h
    · rename_i s r1 h1
      split at h
      · cases h
      · rename_i ss' r2 h2
        cases h
        have := rdCounted_progress h1
        have := ih h2
        simp; omega

/-- `Mapper.Enter` → `Context.TranslateType` → `DecodeTypeValue` refuses over-long
    records, unions and enums (`Max*`); everything else translates (C05). -/
def translatable : ZTy → Bool
  | .record fs => decide (fs.toList.length ≤ maxRecordFields)
  | .union ts => decide (ts.toList.length ≤ maxUnionTypes)
  | .enum syms => decide (syms.length ≤ maxEnumSymbols)
  | _ => true

/-- enter into the local context, then into the mapper -/
def enterLocal (ctx : Ctx) (t : ZTy) : Except DErr Ctx :=
  let ctx' := (ctx.enter t).1
  if translatable t then .ok ctx' else .error .bad

/-- The type one typedef denotes (after its code byte) and the unread rest. -/
def rdTypedef (ctx : Ctx) (code : Nat) (bs : Bytes) : Except DErr (ZTy × Bytes) :=
  if code = typeDefRecord then
    match rdInt bs with
    | .error e => .error e
    | .ok (n, r) =>
      match rdFields ctx n.toNat r with
      | .error e => .error e
      | .ok (fs, r2) =>
        if hasDup (fs.map (·.1)) then .error .bad else .ok (.record (ZFields.ofList fs), r2)
  else if code = typeDefArray then
    match rdType ctx bs with
    | .error e => .error e
    | .ok (t, r) => .ok (.array t, r)
  else if code = typeDefSet then
    match rdType ctx bs with
    | .error e => .error e
    | .ok (t, r) => .ok (.set t, r)
  else if code = typeDefMap then
    match rdType ctx bs with
    | .error e => .error e
    | .ok (k, r) =>
      match rdType ctx r with
      | .error e => .error e
      | .ok (v, r2) => .ok (.map k v, r2)
  else if code = typeDefUnion then
    match rdInt bs with
    | .error e => .error e
    | .ok (n, r) =>
      if n = 0 then .error .bad
      else match rdTypes ctx n.toNat r with
        | .error e => .error e
        | .ok (ts, r2) => .ok (.union (ZTys.ofList (sortTys ts)), r2)
  else if code = typeDefEnum then
    match rdInt bs with
    | .error e => .error e
    | .ok (n, r) =>
      match rdSyms n.toNat r with
      | .error e => .error e
      | .ok (ss, r2) => .ok (.enum ss, r2)
  else if code = typeDefName then
    match rdCounted bs with
    | .error e => .error e
    | .ok (name, r) =>
      match rdType ctx r with
      | .error e => .error e
      | .ok (t, r2) => if !validTypeName name then .error .bad else .ok (.named name t, r2)
  else if code = typeDefError then
    match rdType ctx bs with
    | .error e => .error e
    | .ok (t, r) => .ok (.error t, r)
  else .error .bad

theorem rdTypedef_progress {ctx : Ctx} {code : Nat} {bs r : Bytes} {t : ZTy}
    (h : rdTypedef ctx code bs = .ok (t, r)) : r.length ≤ bs.length := by
  unfold rdTypedef at h
  split at h
  · split at h
    · cases h
    · rename_i n r1 h1
      split at h
      · cases h
      · rename_i fs r2 h2
        split at h
        · cases h
        · cases h; have := rdInt_progress h1; have := (rdFields_progress h2).1; omega
  split at h
  · split at h
    · cases h
    · rename_i h1; cases h; exact Nat.le_of_lt (rdType_progress h1)
  split at h
  · split at h
    · cases h
    · rename_i h1; cases h; exact Nat.le_of_lt (rdType_progress h1)
  split at h
  · split at h
    · cases h
    · rename_i h1
      split at h
      · cases h
      · rename_i h2; cases h; have := rdType_progress h1; have := rdType_progress h2; omega
  split at h
  · split at h
    · cases h
    · rename_i n r1 h1
      split at h
      · cases h
      · split at h
        · cases h
        · rename_i h2; cases h; have := rdInt_progress h1; have := (rdTypes_progress h2).1; omega
  split at h
  · split at h
    · cases h
    · rename_i n r1 h1
      split at h
      · cases h
      · rename_i h2; cases h; have := rdInt_progress h1; have := (rdSyms_progress h2).1; omega
  split at h
  · split at h
    · cases h
    · rename_i h1
      split at h
      · cases h
      · rename_i h2
        split at h
        · cases h
        · cases h; have := rdCounted_progress h1; have := rdType_progress h2; omega
  split at h
  · split at h
    · cases h
    · rename_i h1; cases h; exact Nat.le_of_lt (rdType_progress h1)
  · cases h

/-- One typedef, after its code byte: the new context and the unread rest. -/
def decTypedef (ctx : Ctx) (code : Nat) (bs : Bytes) : Except DErr (Ctx × Bytes) :=
  match rdTypedef ctx code bs with
  | .error e => .error e
  | .ok (t, r) =>
    match enterLocal ctx t with
    | .error e => .error e
    | .ok c => .ok (c, r)

theorem decTypedef_progress {ctx ctx' : Ctx} {code : Nat} {bs r : Bytes}
    (h : decTypedef ctx code bs = .ok (ctx', r)) : r.length ≤ bs.length := by
  unfold decTypedef at h
  split at h
  · cases h
  · rename_i t r1 h1
    split at h
    · cases h
    · cases h; exact rdTypedef_progress h1

/-- `Decoder.decode`: typedefs until the buffer is empty.  Terminates because every
    iteration consumes the code byte. -/
def decTypedefs (ctx : Ctx) (bs : Bytes) : Except DErr Ctx :=
  match bs with
  | [] => .ok ctx
  | code :: rest =>
    match h : decTypedef ctx code.toNat rest with
    | .error e => .error e
    | .ok (ctx', r) =>
      have : r.length < (code :: rest).length := by
        have := decTypedef_progress h; simp; omega
      decTypedefs ctx' r
termination_by bs.length

end Zed.Zng
