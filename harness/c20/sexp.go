package main

// Minimal s-expression reader for the answers of the Lean driver.

import (
	"encoding/hex"
	"fmt"
	"strconv"
	"strings"
)

type sx struct {
	atom string
	list []*sx
	isL  bool
}

func parseSx(s string) (*sx, error) {
	toks := tokenize(s)
	e, rest, err := parseToks(toks)
	if err != nil {
		return nil, err
	}
	if len(rest) != 0 {
		return nil, fmt.Errorf("trailing tokens")
	}
	return e, nil
}

func tokenize(s string) []string {
	var out []string
	var cur strings.Builder
	flush := func() {
		if cur.Len() > 0 {
			out = append(out, cur.String())
			cur.Reset()
		}
	}
	for _, c := range s {
		switch c {
		case '(', ')':
			flush()
			out = append(out, string(c))
		case ' ', '\t', '\n', '\r':
			flush()
		default:
			cur.WriteRune(c)
		}
	}
	flush()
	return out
}

func parseToks(ts []string) (*sx, []string, error) {
	if len(ts) == 0 {
		return nil, nil, fmt.Errorf("unexpected end")
	}
	if ts[0] == ")" {
		return nil, nil, fmt.Errorf("unexpected )")
	}
	if ts[0] != "(" {
		return &sx{atom: ts[0]}, ts[1:], nil
	}
	ts = ts[1:]
	l := &sx{isL: true}
	for {
		if len(ts) == 0 {
			return nil, nil, fmt.Errorf("missing )")
		}
		if ts[0] == ")" {
			return l, ts[1:], nil
		}
		e, rest, err := parseToks(ts)
		if err != nil {
			return nil, nil, err
		}
		l.list = append(l.list, e)
		ts = rest
	}
}

func unhex(s string) (string, error) {
	if s == "-" {
		return "", nil
	}
	b, err := hex.DecodeString(s)
	return string(b), err
}

func typeOfSx(e *sx) (*T, error) {
	if !e.isL || len(e.list) == 0 || e.list[0].isL {
		return nil, fmt.Errorf("bad type sexp")
	}
	k := e.list[0].atom
	args := e.list[1:]
	switch k {
	case "p":
		if len(args) != 1 {
			return nil, fmt.Errorf("bad prim")
		}
		id, err := strconv.Atoi(args[0].atom)
		if err != nil {
			return nil, err
		}
		return &T{K: "p", ID: id}, nil
	case "r":
		t := &T{K: "r"}
		for _, a := range args {
			if !a.isL || len(a.list) != 2 {
				return nil, fmt.Errorf("bad field")
			}
			n, err := unhex(a.list[0].atom)
			if err != nil {
				return nil, err
			}
			ft, err := typeOfSx(a.list[1])
			if err != nil {
				return nil, err
			}
			t.Fields = append(t.Fields, F{n, ft})
		}
		return t, nil
	case "n":
		if len(args) != 2 {
			return nil, fmt.Errorf("bad named")
		}
		n, err := unhex(args[0].atom)
		if err != nil {
			return nil, err
		}
		in, err := typeOfSx(args[1])
		if err != nil {
			return nil, err
		}
		return &T{K: "n", Name: n, Elems: []*T{in}}, nil
	case "en":
		t := &T{K: "en"}
		for _, a := range args {
			sym, err := unhex(a.atom)
			if err != nil {
				return nil, err
			}
			t.Syms = append(t.Syms, sym)
		}
		return t, nil
	case "a", "s", "m", "u", "e":
		t := &T{K: k}
		for _, a := range args {
			x, err := typeOfSx(a)
			if err != nil {
				return nil, err
			}
			t.Elems = append(t.Elems, x)
		}
		return t, nil
	}
	return nil, fmt.Errorf("bad type kind %q", k)
}

func valueOfSx(e *sx) (*V, error) {
	if !e.isL {
		if e.atom == "n" {
			return &V{Null: true}, nil
		}
		return nil, fmt.Errorf("bad value atom %q", e.atom)
	}
	if len(e.list) == 0 || e.list[0].isL {
		return nil, fmt.Errorf("bad value sexp")
	}
	k := e.list[0].atom
	args := e.list[1:]
	switch k {
	case "p":
		if len(args) != 2 {
			return nil, fmt.Errorf("bad prim value")
		}
		id, err := strconv.Atoi(args[0].atom)
		if err != nil {
			return nil, err
		}
		b := args[1].atom
		if b == "-" {
			b = ""
		}
		return &V{K: "p", ID: id, Bytes: b}, nil
	case "u":
		if len(args) != 2 {
			return nil, fmt.Errorf("bad union value")
		}
		tag, err := strconv.Atoi(args[0].atom)
		if err != nil {
			return nil, err
		}
		in, err := valueOfSx(args[1])
		if err != nil {
			return nil, err
		}
		return &V{K: "u", Tag: tag, Elems: []*V{in}}, nil
	case "r", "l", "m":
		v := &V{K: k}
		for _, a := range args {
			x, err := valueOfSx(a)
			if err != nil {
				return nil, err
			}
			v.Elems = append(v.Elems, x)
		}
		return v, nil
	}
	return nil, fmt.Errorf("bad value kind %q", k)
}
