package main

// C16 — pool-key pruning never changes a query's result.
//
// Sub-checks:
//   struct  (T2, correspondence)  real optimizer's KeyPruner expression == model `build`
//   ranges  (S, oracle)           one object per key range [lo,hi] over a small ordered
//                                 domain incl. null/missing/cross-type keys; pruned lake
//                                 query vs full scan + the same filter outside the lake
//   seek    (S, oracle)           big objects, seek stride of a few key bytes, duplicate
//                                 boundary keys; same comparison
//   delwhere(S, oracle)           delete-where leaves exactly the values the predicate is
//                                 not true of

import (
	"context"
	"encoding/hex"
	"encoding/json"
	"fmt"
	"strings"
	. "verifharness/hlib"

	zed "github.com/brimdata/super"
	"github.com/brimdata/super/compiler"
	"github.com/brimdata/super/compiler/ast/dag"
	"github.com/brimdata/super/compiler/data"
	"github.com/brimdata/super/lakeparse"
	"github.com/brimdata/super/pkg/storage"
	"github.com/brimdata/super/runtime"
)

func main() { Main("C16", runC16) }

// ---- predicate trees ----------------------------------------------------------------

type c16Pred struct {
	Kind    string   `json:"kind"` // cmp | and | or | not | nonkey
	Op      string   `json:"op,omitempty"`
	KeyLeft bool     `json:"key_left,omitempty"`
	Lit     string   `json:"lit,omitempty"`
	A       *c16Pred `json:"a,omitempty"`
	B       *c16Pred `json:"b,omitempty"`
}

var c16Ops = []string{"==", "!=", "<", "<=", ">", ">="}

func (p *c16Pred) Text(key string) string {
	switch p.Kind {
	case "cmp":
		if p.KeyLeft {
			return fmt.Sprintf("%s %s %s", key, p.Op, p.Lit)
		}
		return fmt.Sprintf("%s %s %s", p.Lit, p.Op, key)
	case "nonkey":
		if p.KeyLeft {
			return fmt.Sprintf("id %s %s", p.Op, p.Lit)
		}
		return fmt.Sprintf("%s %s id", p.Lit, p.Op)
	case "and":
		return "(" + p.A.Text(key) + ") and (" + p.B.Text(key) + ")"
	case "or":
		return "(" + p.A.Text(key) + ") or (" + p.B.Text(key) + ")"
	case "not":
		return "!(" + p.A.Text(key) + ")"
	}
	panic(p.Kind)
}

// shape: the narrow classification used as a known-finding key.
func (p *c16Pred) Shape() string {
	switch p.Kind {
	case "cmp":
		if p.KeyLeft {
			return "key" + p.Op + "lit"
		}
		return "lit" + p.Op + "key"
	case "nonkey":
		return "nonkey"
	case "not":
		return "not(" + p.A.Shape() + ")"
	default:
		return p.Kind + "(" + p.A.Shape() + "," + p.B.Shape() + ")"
	}
}

func (p *c16Pred) children() []*c16Pred {
	var out []*c16Pred
	if p.A != nil {
		out = append(out, p.A)
	}
	if p.B != nil {
		out = append(out, p.B)
	}
	return out
}

func c16GenPred(c *Ctx, depth int, lits []string) *c16Pred {
	r := c.Rng
	if depth == 0 || r.Intn(3) == 0 {
		if r.Intn(6) == 0 {
			return &c16Pred{Kind: "nonkey", Op: c16Ops[r.Intn(len(c16Ops))], KeyLeft: r.Intn(2) == 0, Lit: fmt.Sprint(r.Intn(40))}
		}
		return &c16Pred{Kind: "cmp", Op: c16Ops[r.Intn(len(c16Ops))], KeyLeft: r.Intn(2) == 0, Lit: lits[r.Intn(len(lits))]}
	}
	switch r.Intn(5) {
	case 0:
		return &c16Pred{Kind: "not", A: c16GenPred(c, depth-1, lits)}
	case 1, 2:
		return &c16Pred{Kind: "and", A: c16GenPred(c, depth-1, lits), B: c16GenPred(c, depth-1, lits)}
	default:
		return &c16Pred{Kind: "or", A: c16GenPred(c, depth-1, lits), B: c16GenPred(c, depth-1, lits)}
	}
}

// ---- struct: real KeyPruner vs model build --------------------------------------------

func hexAtom(s string) string {
	if s == "" {
		return "-"
	}
	return hex.EncodeToString([]byte(s))
}

// dagPredToModel reads the analyzed filter expression the way the pruner looks at it.
func dagPredToModel(e dag.Expr, key []string, others *int) string {
	switch e := e.(type) {
	case *dag.BinaryExpr:
		switch e.Op {
		case "and", "or":
			return fmt.Sprintf("(%s %s %s)", e.Op, dagPredToModel(e.LHS, key, others), dagPredToModel(e.RHS, key, others))
		case "==", "!=", "<", "<=", ">", ">=":
			if t, ok := e.LHS.(*dag.This); ok && pathEq(t.Path, key) {
				if l, ok := e.RHS.(*dag.Literal); ok {
					return fmt.Sprintf("(cmp %s 1 %s)", e.Op, hexAtom(l.Value))
				}
			}
			if l, ok := e.LHS.(*dag.Literal); ok {
				if t, ok := e.RHS.(*dag.This); ok && pathEq(t.Path, key) {
					return fmt.Sprintf("(cmp %s 0 %s)", e.Op, hexAtom(l.Value))
				}
			}
		}
	case *dag.UnaryExpr:
		if e.Op == "!" {
			return fmt.Sprintf("(not %s)", dagPredToModel(e.Operand, key, others))
		}
	}
	*others++
	return fmt.Sprintf("(other %d)", *others)
}

func pathEq(a, b []string) bool {
	if len(a) != len(b) {
		return false
	}
	for i := range a {
		if a[i] != b[i] {
			return false
		}
	}
	return true
}

// dagPrunerToModel renders the real KeyPruner expression in the model's output syntax.
func dagPrunerToModel(e dag.Expr) string {
	if e == nil {
		return "none"
	}
	b, ok := e.(*dag.BinaryExpr)
	if !ok {
		return fmt.Sprintf("(unrecognised %T)", e)
	}
	switch b.Op {
	case "and", "or":
		return fmt.Sprintf("(%s %s %s)", b.Op, dagPrunerToModel(b.LHS), dagPrunerToModel(b.RHS))
	}
	call, ok := b.LHS.(*dag.Call)
	zero, ok2 := b.RHS.(*dag.Literal)
	if !ok || !ok2 || call.Name != "compare" || len(call.Args) != 3 || zero.Value != "0" {
		return "(unrecognised-compare)"
	}
	if nm, ok := call.Args[2].(*dag.Literal); !ok || nm.Value != "true" {
		return "(unrecognised-nullsmax)"
	}
	arg := func(e dag.Expr) string {
		switch e := e.(type) {
		case *dag.Literal:
			return "(lit " + hexAtom(e.Value) + ")"
		case *dag.This:
			if len(e.Path) == 1 && (e.Path[0] == "min" || e.Path[0] == "max") {
				return e.Path[0]
			}
		}
		return "(unrecognised-arg)"
	}
	return fmt.Sprintf("(cmp %s %s %s)", b.Op, arg(call.Args[0]), arg(call.Args[1]))
}

// c16Compile compiles `from pool | where pred` against the lake and returns the analyzed
// filter expression and the optimizer's key pruner.
func c16Compile(l *TLake, pool, predText string) (filter dag.Expr, pruner dag.Expr, err error) {
	e, _ := Protect(func() error {
		seq, _, err := compiler.Parse(fmt.Sprintf("from %s | where %s", pool, predText))
		if err != nil {
			return err
		}
		rctx := runtime.NewContext(context.Background(), zed.NewContext())
		defer rctx.Cancel()
		src := data.NewSource(storage.NewRemoteEngine(), l.Root)
		job, err := compiler.NewJob(rctx, seq, src, &lakeparse.Commitish{})
		if err != nil {
			return err
		}
		for _, op := range job.Entry() {
			if f, ok := op.(*dag.Filter); ok {
				filter = f.Expr
			}
		}
		if err := job.Optimize(); err != nil {
			return err
		}
		pruner = findKeyPruner(job.Entry())
		return nil
	})
	return filter, pruner, e
}

func findKeyPruner(seq dag.Seq) dag.Expr {
	for _, op := range seq {
		switch op := op.(type) {
		case *dag.Lister:
			if op.KeyPruner != nil {
				return op.KeyPruner
			}
		case *dag.SeqScan:
			if op.KeyPruner != nil {
				return op.KeyPruner
			}
		case *dag.Deleter:
			if op.KeyPruner != nil {
				return op.KeyPruner
			}
		}
	}
	return nil
}

func c16Struct(c *Ctx, l *TLake, pool string, preds []*c16Pred) {
	var reqs []string
	var real []string
	var kept []*c16Pred
	for _, p := range preds {
		text := p.Text("k")
		filter, pruner, err := c16Compile(l, pool, text)
		if err != nil || filter == nil {
			c.Stat("struct:compile-error")
			continue
		}
		n := 0
		reqs = append(reqs, "(C16 build "+dagPredToModel(filter, []string{"k"}, &n)+")")
		real = append(real, dagPrunerToModel(pruner))
		kept = append(kept, p)
	}
	if len(reqs) == 0 {
		return
	}
	ans := c.Model().Batch(reqs)
	for i := range reqs {
		c.Res.ModelCases++
		c.Eval("struct:" + kept[i].Text("k"))
		if real[i] == "none" {
			c.Stat("struct:no-pruner")
		} else {
			c.Stat("struct:pruner")
		}
		if ans[i] != real[i] {
			c.Fail("correspondence", "C16:struct:"+kept[i].Shape(),
				fmt.Sprintf("optimizer KeyPruner differs from model build for `%s`: real=%s model=%s", kept[i].Text("k"), real[i], ans[i]),
				map[string]any{"check": "struct", "pred": kept[i], "real": real[i], "model": ans[i]})
		}
	}
}

// ---- oracle: pruned vs unpruned ---------------------------------------------------------

// c16Domain is ordered by compare(·,·,nullsMax): numbers < strings < null; "missing" is a
// record with no key field.
var c16Domain = []string{"-3", "0", "2", "5", "5.", "5.5", "5(uint64)", "9", `""`, `"a"`, `"b"`, "null", "null(int64)", "null(string)", "MISSING"}
var c16Lits = []string{"-3", "0", "2", "5", "5.", "5.5", "5(uint64)", "7", "9", `""`, `"a"`, `"b"`, "null"}

func c16Rec(key string, id int) string {
	if key == "MISSING" {
		return fmt.Sprintf("{id:%d}", id)
	}
	return fmt.Sprintf("{k:%s,id:%d}", key, id)
}

// c16RangePool loads one object per pair lo<=hi of domain (index order), each in its own load.
func c16RangePool(c *Ctx, l *TLake, name string, desc bool, domain []string) error {
	pool, err := l.CreatePool(name, "k", desc, 0, 0)
	if err != nil {
		return err
	}
	id := 0
	for i := range domain {
		for j := i; j < len(domain); j++ {
			text := c16Rec(domain[i], id)
			id++
			if j > i {
				text += " " + c16Rec(domain[j], id)
				id++
				if j > i+1 && c.Rng.Intn(2) == 0 {
					text += " " + c16Rec(domain[i+1+c.Rng.Intn(j-i-1)], id)
					id++
				}
			}
			if _, err := l.LoadZSON(pool, "main", text); err != nil {
				return fmt.Errorf("load %s: %w", text, err)
			}
		}
	}
	return nil
}

// c16Compare runs pred pruned (in the lake) and unpruned (full scan, then the same filter in
// a plain query) and returns a description of the difference, or "".
func c16Compare(l *TLake, pool string, full []string, predText string) (string, bool) {
	pruned, err1 := l.Query(fmt.Sprintf("from %s | where %s", pool, predText))
	ref, err2 := QueryZSON("where "+predText, strings.Join(full, "\n"))
	if err1 != nil || err2 != nil {
		if (err1 != nil) != (err2 != nil) {
			return fmt.Sprintf("error mismatch: lake=%v plain=%v", err1, err2), true
		}
		return "", false
	}
	if SameMultiset(pruned, ref) {
		return "", false
	}
	return fmt.Sprintf("pruned query returned %d values, full scan + filter %d; missing=%v extra=%v",
		len(pruned), len(ref), MsDiff(ref, pruned, 3), MsDiff(pruned, ref, 3)), true
}

// c16Shrink finds a smallest failing sub-predicate.
func c16Shrink(p *c16Pred, fails func(*c16Pred) bool) *c16Pred {
	for _, ch := range p.children() {
		if fails(ch) {
			return c16Shrink(ch, fails)
		}
	}
	return p
}

func c16Oracle(c *Ctx, check string, l *TLake, pool string, desc bool, preds []*c16Pred) {
	full, err := l.Query("from " + pool)
	if err != nil {
		c.Fail("oracle", "C16:"+check+":scan-error", err.Error(), map[string]any{"check": check})
		return
	}
	type res struct {
		diff string
		bad  bool
	}
	results := make([]res, len(preds))
	ParallelDo(len(preds), 12, func(i int) {
		d, b := c16Compare(l, pool, full, preds[i].Text("k"))
		results[i] = res{d, b}
	})
	for i, p := range preds {
		text := p.Text("k")
		diff, bad := results[i].diff, results[i].bad
		c.Eval(check + ":" + fmt.Sprint(desc) + ":" + text)
		c.Stat(check + ":preds")
		if !bad {
			continue
		}
		min := c16Shrink(p, func(q *c16Pred) bool {
			_, b := c16Compare(l, pool, full, q.Text("k"))
			return b
		})
		d2, _ := c16Compare(l, pool, full, min.Text("k"))
		if d2 == "" {
			d2 = diff
		}
		c.Fail("oracle", "C16:prune:"+min.Shape(),
			fmt.Sprintf("`from %s | where %s` (pool order desc=%v): %s", pool, min.Text("k"), desc, d2),
			map[string]any{"check": check, "desc": desc, "pred": min, "original": p, "pool_values": full})
	}
}

func c16DelWhere(c *Ctx, l *TLake, n int, lits []string) {
	for i := 0; i < n; i++ {
		desc := c.Rng.Intn(2) == 0
		name := fmt.Sprintf("dw%d", i)
		stride := 0
		if c.Rng.Intn(2) == 0 {
			stride = 1 + c.Rng.Intn(16)
		}
		pool, err := l.CreatePool(name, "k", desc, stride, 0)
		if err != nil {
			c.Fail("oracle", "C16:delwhere:setup", err.Error(), nil)
			return
		}
		id := 0
		var loads []string
		for o := 0; o < 1+c.Rng.Intn(4); o++ {
			var vals []string
			for v := 0; v < 1+c.Rng.Intn(12); v++ {
				vals = append(vals, c16Rec(c16Domain[c.Rng.Intn(len(c16Domain))], id))
				id++
			}
			text := strings.Join(vals, " ")
			loads = append(loads, text)
			if _, err := l.LoadZSON(pool, "main", text); err != nil {
				c.Fail("oracle", "C16:delwhere:setup", err.Error(), nil)
				return
			}
		}
		p := c16GenPred(c, 2, lits)
		text := p.Text("k")
		before, _ := l.Query("from " + name)
		matched, err := QueryZSON("where "+text, strings.Join(before, "\n"))
		if err != nil {
			c.Stat("delwhere:pred-error")
			continue
		}
		_, derr := l.DeleteWhere(pool, "main", text)
		c.Eval("delwhere:" + text + fmt.Sprint(loads))
		c.Stat("delwhere:cases")
		after, qerr := l.Query("from " + name)
		if qerr != nil {
			c.Fail("oracle", "C16:delwhere:unreadable", fmt.Sprintf("pool unreadable after delete where %s: %v", text, qerr),
				map[string]any{"check": "delwhere", "desc": desc, "stride": stride, "loads": loads, "pred": p})
			continue
		}
		want := MsDiffAll(before, matched)
		if derr != nil {
			// an empty match is reported as an error by the lake ("empty transaction");
			// the pool must then be unchanged.
			want = before
			c.Stat("delwhere:error")
		}
		if !SameMultiset(after, want) {
			c.Fail("oracle", "C16:delwhere:"+p.Shape(),
				fmt.Sprintf("delete where %s (desc=%v stride=%d, err=%v) left %d values, expected %d; missing=%v extra=%v", text, desc, stride, derr, len(after), len(want), MsDiff(want, after, 3), MsDiff(after, want, 3)),
				map[string]any{"check": "delwhere", "desc": desc, "stride": stride, "loads": loads, "pred": p})
		}
	}
}

func c16SeekPool(c *Ctx, l *TLake, name string, desc bool, stride, n int) error {
	pool, err := l.CreatePool(name, "k", desc, stride, 0)
	if err != nil {
		return err
	}
	id := 0
	for o := 0; o < 3; o++ {
		var vals []string
		for v := 0; v < n; v++ {
			// many duplicates so that equal keys straddle seek-index entries
			vals = append(vals, c16Rec(c16Domain[c.Rng.Intn(len(c16Domain))], id))
			id++
		}
		if _, err := l.LoadZSON(pool, "main", strings.Join(vals, " ")); err != nil {
			return err
		}
	}
	return nil
}

// c16OrPairs: disjunctions (and a conjunction around them) that keep NON-adjacent key
// ranges of one object — the shape under which a seek-index scan must not stop at the
// first excluded entry.
func c16OrPairs(lits []string) []*c16Pred {
	var out []*c16Pred
	cmp := func(op string, kl bool, lit string) *c16Pred {
		return &c16Pred{Kind: "cmp", Op: op, KeyLeft: kl, Lit: lit}
	}
	for i := range lits {
		for j := i + 1; j < len(lits); j++ {
			a, b := lits[i], lits[j]
			out = append(out,
				&c16Pred{Kind: "or", A: cmp("<=", true, a), B: cmp(">=", true, b)},
				&c16Pred{Kind: "or", A: cmp("==", true, a), B: cmp("==", false, b)},
				&c16Pred{Kind: "and", A: &c16Pred{Kind: "or", A: cmp("<", true, a), B: cmp("<", false, b)},
					B: &c16Pred{Kind: "nonkey", Op: ">=", KeyLeft: true, Lit: "0"}})
		}
	}
	return out
}

// c16IntSeekPool: one big object per load with many distinct integer keys (and a tail of
// nulls), so that the seek index has many entries.
func c16IntSeekPool(c *Ctx, l *TLake, name string, desc bool, stride, n int) error {
	pool, err := l.CreatePool(name, "k", desc, stride, 0)
	if err != nil {
		return err
	}
	id := 0
	for o := 0; o < 2; o++ {
		var vals []string
		for v := 0; v < n; v++ {
			key := fmt.Sprint(c.Rng.Intn(50))
			if c.Rng.Intn(15) == 0 {
				key = "null"
			}
			vals = append(vals, c16Rec(key, id))
			id++
		}
		if _, err := l.LoadZSON(pool, "main", strings.Join(vals, " ")); err != nil {
			return err
		}
	}
	return nil
}

var c16IntLits = []string{"0", "3", "7", "12", "20", "25", "31", "38", "44", "49"}

func c16AllAtoms(c *Ctx, lits []string) []*c16Pred {
	var out []*c16Pred
	for _, op := range c16Ops {
		for _, kl := range []bool{true, false} {
			for _, lit := range lits {
				out = append(out, &c16Pred{Kind: "cmp", Op: op, KeyLeft: kl, Lit: lit})
			}
		}
	}
	return out
}

func runC16(c *Ctx) {
	c.Rule("struct: generated predicate trees (depth<=3) compiled by the real optimizer, KeyPruner compared with the Lean model's build; " +
		"ranges/seek/delwhere: pruned lake execution vs full scan + same filter; a case is distinct by (sub-check, pool order, predicate text)")
	l, err := NewTLake()
	if err != nil {
		panic(err)
	}
	defer l.Close()

	if c.Replay != nil {
		c16Replay(c, l)
		return
	}

	domain := c16Domain
	if !c.Thorough() {
		// quick tier: the boundary-relevant core plus two seed-chosen others (78 objects per pool)
		core := []string{"-3", "0", "5", "5.", "5(uint64)", `"a"`, `"b"`, "null", "null(int64)", "MISSING"}
		rest := []string{"2", "5.5", "9", `""`, "null(string)"}
		c.Rng.Shuffle(len(rest), func(i, j int) { rest[i], rest[j] = rest[j], rest[i] })
		pick := map[string]bool{rest[0]: true, rest[1]: true}
		for _, x := range core {
			pick[x] = true
		}
		domain = nil
		for _, x := range c16Domain { // keep compare order
			if pick[x] {
				domain = append(domain, x)
			}
		}
	}
	atoms := c16AllAtoms(c, c16Lits)
	var trees []*c16Pred
	for i := 0; i < c.N(150, 3000); i++ {
		trees = append(trees, c16GenPred(c, 1+c.Rng.Intn(3), c16Lits))
	}
	for _, p := range trees[:3] {
		c.Sample(map[string]any{"pred": p.Text("k")})
	}

	if c.Want("struct") {
		if _, err := l.CreatePool("sp", "k", false, 0, 0); err != nil {
			panic(err)
		}
		c16Struct(c, l, "sp", append(append([]*c16Pred{}, atoms...), trees...))
	}
	if c.Want("ranges") {
		for _, desc := range []bool{false, true} {
			name := fmt.Sprintf("rp%v", desc)
			if err := c16RangePool(c, l, name, desc, domain); err != nil {
				c.Fail("oracle", "C16:ranges:setup", err.Error(), nil)
				continue
			}
			preds := append([]*c16Pred{}, atoms...)
			preds = append(preds, trees[:c.N(60, len(trees))]...)
			c16Oracle(c, "ranges", l, name, desc, preds)
		}
	}
	if c.Want("seek") {
		for i, desc := range []bool{false, true} {
			name := fmt.Sprintf("kp%d", i)
			stride := 1 + c.Rng.Intn(12)
			if err := c16SeekPool(c, l, name, desc, stride, c.N(60, 300)); err != nil {
				c.Fail("oracle", "C16:seek:setup", err.Error(), nil)
				continue
			}
			preds := append([]*c16Pred{}, atoms...)
			preds = append(preds, trees[:c.N(40, len(trees)/2)]...)
			preds = append(preds, c16OrPairs(c16Lits)...)
			c16Oracle(c, "seek", l, name, desc, preds)
			// many distinct integer keys, many seek entries
			iname := fmt.Sprintf("ki%d", i)
			if err := c16IntSeekPool(c, l, iname, desc, 1+c.Rng.Intn(24), c.N(150, 600)); err != nil {
				c.Fail("oracle", "C16:seek:setup", err.Error(), nil)
				continue
			}
			ipreds := append(c16AllAtoms(c, c16IntLits), c16OrPairs(c16IntLits)...)
			for j := 0; j < c.N(40, 400); j++ {
				ipreds = append(ipreds, c16GenPred(c, 1+c.Rng.Intn(3), c16IntLits))
			}
			c16Oracle(c, "seek", l, iname, desc, ipreds)
		}
	}
	if c.Want("delwhere") {
		c16DelWhere(c, l, c.N(40, 600), c16Lits)
	}
}

// c16Replay re-runs a recorded failing case.
func c16Replay(c *Ctx, l *TLake) {
	var r struct {
		Check      string   `json:"check"`
		Desc       bool     `json:"desc"`
		Stride     int      `json:"stride"`
		Pred       *c16Pred `json:"pred"`
		PoolValues []string `json:"pool_values"`
		Loads      []string `json:"loads"`
	}
	if err := json.Unmarshal(c.Replay, &r); err != nil || r.Pred == nil {
		c.Note("replay not understood: %v", err)
		return
	}
	switch r.Check {
	case "struct":
		l.CreatePool("sp", "k", false, 0, 0)
		c16Struct(c, l, "sp", []*c16Pred{r.Pred})
	case "delwhere":
		pool, _ := l.CreatePool("dw", "k", r.Desc, r.Stride, 0)
		for _, t := range r.Loads {
			l.LoadZSON(pool, "main", t)
		}
		before, _ := l.Query("from dw")
		matched, _ := QueryZSON("where "+r.Pred.Text("k"), strings.Join(before, "\n"))
		_, derr := l.DeleteWhere(pool, "main", r.Pred.Text("k"))
		after, _ := l.Query("from dw")
		want := MsDiffAll(before, matched)
		if derr != nil {
			want = before
		}
		c.Eval("replay")
		if !SameMultiset(after, want) {
			c.Fail("oracle", "C16:delwhere:"+r.Pred.Shape(), "replayed", r)
		}
	default:
		// rebuild a pool holding the recorded values, one object per recorded value pair
		pool, _ := l.CreatePool("rp", "k", r.Desc, r.Stride, 0)
		for i := 0; i < len(r.PoolValues); i += 2 {
			j := i + 2
			if j > len(r.PoolValues) {
				j = len(r.PoolValues)
			}
			l.LoadZSON(pool, "main", strings.Join(r.PoolValues[i:j], " "))
		}
		c16Oracle(c, "ranges", l, "rp", r.Desc, []*c16Pred{r.Pred})
	}
}
