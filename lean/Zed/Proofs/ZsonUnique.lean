import Zed.Model.ZsonGuard
import Mathlib.Data.List.Perm.Subperm
/-!
  C02 — `UniqueTypes` / `normalizeElems` on a fully populated union container: sorting and
  de-duplicating the member types that occur gives back the canonical member list.
-/
namespace Zed.Zson

theorem chainFrom_mem (x : Ty) : (r : List Ty) → chainFrom x r = true → ∀ z ∈ r, tyCmp x z = .lt ∧ tyCmp z x = .gt ∧ x ≠ z
  | [], _, z, hz => by simp at hz
  | y :: r, h, z, hz => by
    simp only [chainFrom, Bool.and_eq_true, beq_iff_eq, bne_iff_ne, ne_eq] at h
    rcases List.mem_cons.mp hz with rfl | hz
    · exact ⟨h.1.1.1, h.1.1.2, h.1.2⟩
    · exact chainFrom_mem x r h.2 z hz

theorem insertUniq_lt_all (x : Ty) : (l : List Ty) → (∀ z ∈ l, tyCmp x z = .lt ∧ x ≠ z) → insertUniq x l = x :: l
  | [], _ => rfl
  | y :: r, h => by
    have := h y (by simp)
    simp [insertUniq, this.1, this.2]

theorem filter_congr_mem {α} (l : List α) (p q : α → Bool) (h : ∀ z ∈ l, p z = q z) : l.filter p = l.filter q := by
  apply List.filter_congr; exact h

/-- inserting a member of a chain into a sub-chain (given as a filter) gives the sub-chain
    with that member added. -/
theorem insertUniq_filter (x : Ty) : (M : List Ty) → chain M = true → x ∈ M → (P : Ty → Bool) →
    insertUniq x (M.filter P) = M.filter (fun y => P y || y == x)
  | [], _, hx, _ => by simp at hx
  | y :: r, hc, hx, P => by
    simp only [chain, Bool.and_eq_true] at hc
    have hyr := chainFrom_mem y r hc.1
    by_cases hxy : x = y
    · subst hxy
      have hrest : r.filter (fun z => P z || z == x) = r.filter P := by
        apply List.filter_congr
        intro z hz
        have := (hyr z hz).2.2
        have : (z == x) = false := by simp [beq_eq_false_iff_ne]; exact fun h => this h.symm
        simp [this]
      by_cases hp : P x = true
      · simp [List.filter, hp, insertUniq, hrest]
      · have hp' : P x = false := by simpa using hp
        have hl : ∀ z ∈ r.filter P, tyCmp x z = .lt ∧ x ≠ z := by
          intro z hz
          have hz' := (List.mem_filter.mp hz).1
          exact ⟨(hyr z hz').1, (hyr z hz').2.2⟩
        simp [List.filter, hp', insertUniq_lt_all x _ hl, hrest]
    · have hxr : x ∈ r := by
        rcases List.mem_cons.mp hx with h | h
        · exact absurd h hxy
        · exact h
      have ih := insertUniq_filter x r hc.2 hxr P
      have hyx : (y == x) = false := by simp [beq_eq_false_iff_ne]; exact fun h => hxy h.symm
      have hcmp := hyr x hxr
      by_cases hp : P y = true
      · have hnlt : ¬ tyCmp x y = .lt := by rw [hcmp.2.1]; decide
        simp [List.filter, hp, insertUniq, hxy, hnlt, ih]
      · have hp' : P y = false := by simpa using hp
        simp [List.filter, hp', hyx, ih]

theorem foldl_insertUniq_filter (M : List Ty) (hc : chain M = true) : (L : List Ty) → (∀ x ∈ L, x ∈ M) → (P : Ty → Bool) →
    L.foldl (fun acc t => insertUniq t acc) (M.filter P) = M.filter (fun y => P y || L.contains y)
  | [], _, P => by simp
  | x :: r, h, P => by
    have hx := h x (by simp)
    simp only [List.foldl]
    rw [insertUniq_filter x M hc hx P]
    rw [foldl_insertUniq_filter M hc r (fun z hz => h z (by simp [hz]))]
    apply List.filter_congr
    intro z _
    have : (z == x) = decide (z = x) := by by_cases h : z = x <;> simp [h]
    simp [List.contains_cons, Bool.or_assoc, this]

/-- `UniqueTypes` of a list that mentions exactly the members of a chain is that chain. -/
theorem foldl_insertUniq_eq (M : List Ty) (hc : chain M = true) (L : List Ty)
    (h1 : ∀ x ∈ L, x ∈ M) (h2 : ∀ m ∈ M, m ∈ L) :
    L.foldl (fun acc t => insertUniq t acc) [] = M := by
  have := foldl_insertUniq_filter M hc L h1 (fun _ => false)
  simp only [List.filter_false, Bool.false_or] at this
  rw [this]
  apply List.filter_eq_self.mpr
  intro m hm
  simpa using h2 m hm

/-- pigeonhole: a duplicate-free list of members at least as long as the member list contains
    every member. -/
theorem covers_of_length (seen M : List Ty) (hn : seen.Nodup) (hs : ∀ x ∈ seen, x ∈ M)
    (hl : M.length ≤ seen.length) : ∀ m ∈ M, m ∈ seen := by
  have sp : seen.Subperm M := List.subperm_of_subset hn hs
  have p : seen.Perm M := sp.perm_of_length_le hl
  intro m hm
  exact p.symm.subset hm

end Zed.Zson
