import Zed.Proofs.FuseFuser
import Zed.Model.FuseFits
/-!
  C20: `fits a T` implies that the shaper plans a good step from `a` into `T`
  (`fits_planOK`), hence lossless, uniform shaping of every input whose type fits the fused
  type (`evalGuard_of_fits`).
-/
namespace Zed.Fuse

theorem findIdx_spec (p : Ty → Bool) : (ms : Tys) → (i : Nat) → ms.findIdx p = some i →
    ∃ m, ms.get? i = some m ∧ p m = true
  | .nil, _, h => by simp [Tys.findIdx] at h
  | .cons t r, i, h => by
    simp only [Tys.findIdx] at h
    by_cases hp : p t = true
    · simp only [hp, if_true, Option.some.injEq] at h
      subst h; exact ⟨t, rfl, hp⟩
    · simp only [hp, Bool.false_eq_true, if_false, Option.map_eq_some_iff] at h
      obtain ⟨j, hj, rfl⟩ := h
      obtain ⟨m, h1, h2⟩ := findIdx_spec p r j hj
      exact ⟨m, by simpa [Tys.get?] using h1, h2⟩

theorem bestUnionTag_spec {a T : Ty} {tag : Nat} (h : bestUnionTag a T = some tag) :
    T.isUnion = true ∧ ∃ m, T.members.get? tag = some m ∧ m.under = a.under := by
  unfold bestUnionTag at h
  cases hu : T.under with
  | union ms =>
    simp only [hu] at h
    refine ⟨by simp [Ty.isUnion, hu], ?_⟩
    simp only [Ty.members, hu]
    cases h1 : ms.findIdx (· == a) with
    | some i =>
      simp only [h1, Option.some.injEq] at h; subst h
      obtain ⟨m, g1, g2⟩ := findIdx_spec _ ms i h1
      exact ⟨m, g1, by simp at g2; rw [g2]⟩
    | none =>
      simp only [h1] at h
      cases h2 : ms.findIdx (· == a.under) with
      | some i =>
        simp only [h2, Option.some.injEq] at h; subst h
        obtain ⟨m, g1, g2⟩ := findIdx_spec _ ms i h2
        exact ⟨m, g1, by simp at g2; rw [g2, under_idem]⟩
      | none =>
        simp only [h2] at h
        obtain ⟨m, g1, g2⟩ := findIdx_spec _ ms tag h
        exact ⟨m, g1, by simpa using g2⟩
  | prim _ => simp [hu] at h
  | record _ => simp [hu] at h
  | array _ => simp [hu] at h
  | set _ => simp [hu] at h
  | map _ _ => simp [hu] at h
  | named _ _ => simp [hu] at h
  | enum _ => simp [hu] at h
  | error _ => simp [hu] at h

theorem bestUnionTag_under (a T : Ty) : bestUnionTag a T.under = bestUnionTag a T := by
  unfold bestUnionTag; rw [under_idem]

/-- a step into a union member found by `bestUnionTag` is good -/
theorem toUnion_ok {orig T : Ty} (h : (bestUnionTag orig T).isSome = true) :
    ∃ s, toUnionOrFail orig T = .ok s ∧ s.toType = T ∧ goodStep orig s = true ∧ T.isUnion = true := by
  cases hb : bestUnionTag orig T with
  | none => simp [hb] at h
  | some tag =>
    obtain ⟨hu, m, h1, h2⟩ := bestUnionTag_spec hb
    exact ⟨.toUnion tag T, by simp [toUnionOrFail, hb], rfl, by simp [goodStep, h1, h2], hu⟩

/-- `shaperType` answers `T` and `newStep` a good step landing in `T` -/
def PlanOK (a T : Ty) : Prop :=
  shaperType a T = .ok T ∧ ∃ s, newStep a T = .ok s ∧ s.toType = T ∧ goodStep a s = true

def UOK (orig cur T : Ty) : Prop :=
  shaperTypeU orig cur T = .ok T ∧ ∃ s, newStepU orig cur T = .ok s ∧ s.toType = T ∧ goodStep orig s = true

theorem planOK_of_head {a T : Ty} {deep : Bool} (h : fitsHead a T deep = true)
    (hd : deep = true → UOK a a T) : PlanOK a T := by
  unfold fitsHead at h
  unfold PlanOK shaperType newStep shaperHead newStepHead
  by_cases hn : a.under = tyNull
  · simp [hn, goodStep, Step.toType]
  · by_cases hu : a.under = T.under
    · have hT : ¬ T.under = tyNull := by rw [← hu]; exact hn
      refine ⟨?_, .copy T, ?_, rfl, ?_⟩
      · simp [hu]
      · simp [hu, hT]
      · show goodStep a (.copy T) = true
        unfold goodStep
        simp [hu]
    · have h1 : (a.under == tyNull) = false := by simpa using hn
      have h2 : (a.under == T.under) = false := by simpa using hu
      simp only [h1, h2, Bool.false_or, Bool.and_eq_true, Bool.not_eq_true', Bool.and_eq_false_iff] at h
      obtain ⟨⟨hm, hp⟩, hdeep⟩ := h
      obtain ⟨u1, s, u2, u3, u4⟩ := hd hdeep
      have hpp : (a.isPrim && T.isPrim) = false := by
        rcases hp with hp | hp <;> simp [hp]
      refine ⟨?_, s, ?_, u3, u4⟩
      · simp [hu, hn, hm, hpp, u1]
      · simp [hu, hn, u2]

theorem lookup_some_get? : {fs : Fields} → {n : Name} → {t : Ty} → fs.lookup n = some t →
    ∃ i, fs.get? i = some (n, t) ∧ fs.indexOf n = some i
  | .nil, _, _, h => by simp [Fields.lookup] at h
  | .cons m u r, n, t, h => by
    simp only [Fields.lookup] at h
    by_cases hm : m = n
    · simp only [hm, if_true, Option.some.injEq] at h
      subst h; subst hm
      exact ⟨0, rfl, by simp [Fields.indexOf]⟩
    · simp only [hm, if_false] at h
      obtain ⟨i, h1, h2⟩ := lookup_some_get? h
      exact ⟨i + 1, by simpa [Fields.get?] using h1, by simp [Fields.indexOf, hm, h2]⟩

theorem get?_mem_names : {fs : Fields} → {i : Nat} → {n : Name} → {t : Ty} → fs.get? i = some (n, t) → n ∈ fs.names
  | .nil, _, _, _, h => by simp [Fields.get?] at h
  | .cons m u r, 0, n, t, h => by
    simp only [Fields.get?, Option.some.injEq, Prod.mk.injEq] at h
    simp [Fields.names, h.1]
  | .cons m u r, i + 1, n, t, h => by
    simp only [Fields.get?] at h
    simp [Fields.names, get?_mem_names h]

/-- with distinct names, a field found at position `i` is the one `lookup` / `indexOf` find -/
theorem nodup_get?_lookup : {fs : Fields} → fs.names.Nodup → {i : Nat} → {n : Name} → {t : Ty} →
    fs.get? i = some (n, t) → fs.lookup n = some t ∧ fs.indexOf n = some i
  | .nil, _, _, _, _, h => by simp [Fields.get?] at h
  | .cons m u r, hnd, 0, n, t, h => by
    simp only [Fields.get?, Option.some.injEq, Prod.mk.injEq] at h
    obtain ⟨rfl, rfl⟩ := h
    simp [Fields.lookup, Fields.indexOf]
  | .cons m u r, hnd, i + 1, n, t, h => by
    simp only [Fields.get?] at h
    simp only [Fields.names, List.nodup_cons] at hnd
    have hmn : m ≠ n := fun e => hnd.1 (e ▸ get?_mem_names h)
    obtain ⟨h1, h2⟩ := nodup_get?_lookup hnd.2 h
    simp [Fields.lookup, Fields.indexOf, hmn, h1, h2]

theorem lookup_none_of_indexOf_none : {fs : Fields} → {n : Name} → fs.indexOf n = none → fs.lookup n = none
  | .nil, _, _ => by simp [Fields.lookup]
  | .cons m u r, n, h => by
    simp only [Fields.indexOf] at h
    by_cases hm : m = n
    · simp [hm] at h
    · simp only [hm, if_false, Option.map_eq_none_iff] at h
      simp [Fields.lookup, hm, lookup_none_of_indexOf_none h]

theorem shaperTypeField_eq : (fa : Fields) → (n : Name) → (t : Ty) →
    shaperTypeField fa n t = (fa.lookup n).map fun ti => shaperType ti t
  | .nil, n, t => by simp [shaperTypeField, Fields.lookup]
  | .cons m u r, n, t => by
    simp only [shaperTypeField, Fields.lookup]
    by_cases hm : m = n
    · simp [hm, shaperType]
    · simp [hm, shaperTypeField_eq r n t]

theorem newStepField_eq : (fa : Fields) → (k : Nat) → (n : Name) → (t : Ty) →
    newStepField fa k n t =
      match fa.indexOf n, fa.lookup n with
      | some i, some ti => some ((newStep ti t).map fun s => (k + i, s))
      | _, _ => none
  | .nil, k, n, t => by simp [newStepField, Fields.indexOf, Fields.lookup]
  | .cons m u r, k, n, t => by
    simp only [newStepField, Fields.indexOf, Fields.lookup]
    by_cases hm : m = n
    · simp [hm, newStep]
    · simp only [hm, if_false, newStepField_eq r (k + 1) n t]
      cases r.indexOf n <;> cases r.lookup n <;> simp [Nat.add_assoc, Nat.add_comm 1]

/-- every input field is a target field and plans well into it -/
def FieldsOK (fa fo : Fields) : Prop :=
  ∀ i n ti, fa.get? i = some (n, ti) → ∃ u, fo.lookup n = some u ∧ PlanOK ti u

/-- `fo'` is a part of `fo` in which names resolve as in `fo` -/
def Resolves (fo fo' : Fields) : Prop := ∀ j n t, fo'.get? j = some (n, t) → fo.lookup n = some t

theorem resolves_tail {fo : Fields} {n : Name} {t : Ty} {r : Fields} (h : Resolves fo (.cons n t r)) :
    Resolves fo r := fun j n' t' hj => h (j + 1) n' t' (by simpa [Fields.get?] using hj)

theorem shapeOutFields_ok (fa fo : Fields) (H : FieldsOK fa fo) : (fo' : Fields) → Resolves fo fo' →
    shapeOutFields (fun n t => shaperTypeField fa n t) fo' = .ok fo'.toList
  | .nil, _ => by simp [shapeOutFields, Fields.toList]
  | .cons n t r, hp => by
    have ih := shapeOutFields_ok fa fo H r (resolves_tail hp)
    have h0 : fo.lookup n = some t := hp 0 n t rfl
    simp only [shapeOutFields, ih, Fields.toList]
    rw [shaperTypeField_eq fa n t]
    cases hl : fa.lookup n with
    | none => simp [Except.map]
    | some ti =>
      obtain ⟨i, hi, _⟩ := lookup_some_get? hl
      obtain ⟨u, hu, hpl, _⟩ := H i n ti hi
      rw [h0] at hu
      simp only [Option.some.injEq] at hu
      subst hu
      simp [hpl, Except.map]

theorem extra_nil (fo : Fields) : (fa' : Fields) →
    (∀ i n ti, fa'.get? i = some (n, ti) → (fo.lookup n).isSome = true) →
    (fa'.toList.filter fun f => (fo.lookup f.1).isNone) = []
  | .nil, _ => by simp [Fields.toList]
  | .cons n t r, h => by
    have h0 := h 0 n t rfl
    have ih := extra_nil fo r (fun i n' t' hi => h (i + 1) n' t' (by simpa [Fields.get?] using hi))
    simp only [Fields.toList, List.filter_cons, ih]
    cases hl : fo.lookup n with
    | none => simp [hl] at h0
    | some u => simp

theorem indexOf_some_lookup : {fs : Fields} → {n : Name} → {i : Nat} → fs.indexOf n = some i →
    ∃ t, fs.lookup n = some t
  | .nil, _, _, h => by simp [Fields.indexOf] at h
  | .cons m u r, n, i, h => by
    simp only [Fields.indexOf] at h
    by_cases hm : m = n
    · exact ⟨u, by simp [Fields.lookup, hm]⟩
    · simp only [hm, if_false, Option.map_eq_some_iff] at h
      obtain ⟨j, hj, _⟩ := h
      obtain ⟨t, ht⟩ := indexOf_some_lookup hj
      exact ⟨t, by simp [Fields.lookup, hm, ht]⟩

theorem recordChildren_ok (fa fo : Fields) (H : FieldsOK fa fo) : (fo' : Fields) → Resolves fo fo' →
    ∃ cs, recordChildren (fun n t => newStepField fa 0 n t) fo' = .ok cs ∧ goodFields fa fo' cs = true ∧
      ∀ i n, fa.indexOf n = some i → (∃ j t, fo'.get? j = some (n, t)) → i ∈ cs.indices
  | .nil, _ => ⟨.nil, by simp [recordChildren], by simp [goodFields], by
      intro i n _ ⟨j, t, hj⟩; simp [Fields.get?] at hj⟩
  | .cons n t r, hp => by
    obtain ⟨cs, ih1, ih2, ih3⟩ := recordChildren_ok fa fo H r (resolves_tail hp)
    have h0 : fo.lookup n = some t := hp 0 n t rfl
    simp only [recordChildren, ih1]
    rw [newStepField_eq fa 0 n t]
    cases hl : fa.lookup n with
    | none =>
      refine ⟨.cons none (.null t) cs, by cases fa.indexOf n <;> simp [Except.map],
        by simp [goodFields, Step.isNull, ih2], ?_⟩
      intro i n' hi ⟨j, t', hj⟩
      simp only [RSteps.indices]
      cases j with
      | zero =>
        simp only [Fields.get?, Option.some.injEq, Prod.mk.injEq] at hj
        obtain ⟨rfl, _⟩ := hj
        obtain ⟨u, hu⟩ := indexOf_some_lookup hi
        rw [hl] at hu; cases hu
      | succ j => exact ih3 i n' hi ⟨j, t', by simpa [Fields.get?] using hj⟩
    | some ti =>
      obtain ⟨i, hi, hidx⟩ := lookup_some_get? hl
      obtain ⟨u, hu, _, s, hs1, hs2, hs3⟩ := H i n ti hi
      rw [h0] at hu
      simp only [Option.some.injEq] at hu
      subst hu
      simp only [hidx, hs1, Except.map, Nat.zero_add]
      refine ⟨.cons (some i) s cs, rfl, by simp [goodFields, hi, hs3, hs2, ih2], ?_⟩
      intro i' n' hi' ⟨j, t', hj⟩
      simp only [RSteps.indices, List.mem_cons]
      cases j with
      | zero =>
        simp only [Fields.get?, Option.some.injEq, Prod.mk.injEq] at hj
        obtain ⟨rfl, _⟩ := hj
        rw [hidx] at hi'
        simp only [Option.some.injEq] at hi'
        exact Or.inl hi'.symm
      | succ j => exact Or.inr (ih3 i' n' hi' ⟨j, t', by simpa [Fields.get?] using hj⟩)

theorem get?_of_lt : {fs : Fields} → {i : Nat} → i < fs.length → ∃ p, fs.get? i = some p
  | .nil, _, h => by simp [Fields.length] at h
  | .cons n t r, 0, _ => ⟨(n, t), rfl⟩
  | .cons n t r, i + 1, h => by
    simp only [Fields.length] at h
    obtain ⟨p, hp⟩ := get?_of_lt (fs := r) (i := i) (by omega)
    exact ⟨p, by simpa [Fields.get?] using hp⟩

theorem resolves_self {fo : Fields} (h : fo.names.Nodup) : Resolves fo fo :=
  fun _ _ _ hj => (nodup_get?_lookup h hj).1

theorem lookup_get? {fo : Fields} {n : Name} {u : Ty} (h : fo.lookup n = some u) :
    ∃ j t, fo.get? j = some (n, t) := by
  obtain ⟨j, hj, _⟩ := lookup_some_get? h
  exact ⟨j, u, hj⟩

/-- the record case: all input fields found in the target, good children, full coverage -/
theorem record_ok (orig T : Ty) (fa fo : Fields) (ho : orig.under = .record fa) (hT : T.under = .record fo)
    (hna : fa.names.Nodup) (hno : fo.names.Nodup) (H : FieldsOK fa fo) (hb : bestUnionTag orig T = none) :
    UOK orig (.record fa) T := by
  have hres := resolves_self hno
  refine ⟨?_, ?_⟩
  · simp only [shaperTypeU, bestUnionTag_under, hb, Option.isSome_none, Bool.false_eq_true, if_false, hT,
      shapeOutFields_ok fa fo H fo hres]
    have hx : (fa.toList.filter fun f => (fo.lookup f.1).isNone) = [] :=
      extra_nil fo fa (fun i n ti hi => by
        obtain ⟨u, hu, _⟩ := H i n ti hi
        simp [hu])
    simp [hx, sortFieldsByName]
  · obtain ⟨cs, h1, h2, h3⟩ := recordChildren_ok fa fo H fo hres
    refine ⟨.record T cs, by simp [newStepU, hT, h1, Except.map], rfl, ?_⟩
    simp only [goodStep, Ty.isRecord, ho, hT, Ty.fields, h2, Bool.true_and, List.all_eq_true, List.mem_range]
    intro i hi
    obtain ⟨⟨n, ti⟩, hg⟩ := get?_of_lt hi
    obtain ⟨u, hu, _⟩ := H i n ti hg
    have := h3 i n (nodup_get?_lookup hna hg).2 (lookup_get? hu)
    simpa using this

/-- anything that goes into a union member found by `bestUnionTag` -/
theorem union_member_ok (orig cur T : Ty) (hb : (bestUnionTag orig T).isSome = true)
    (hs : shaperTypeU orig cur T = .ok T) (hn : newStepU orig cur T = toUnionOrFail orig T) : UOK orig cur T := by
  obtain ⟨s, h1, h2, h3, _⟩ := toUnion_ok hb
  exact ⟨hs, s, by rw [hn, h1], h2, h3⟩

theorem inner_ok (orig T i oi : Ty) (isSet : Bool) (ho : orig.inner? = some i) (hT : T.inner? = some oi)
    (hb : bestUnionTag orig T = none) (hp : PlanOK i oi) :
    shaperInner orig T (fun oi => shaperType i oi) = .ok T ∧
    ∃ s, newStepInner orig T (fun oi => newStep i oi) = .ok s ∧ s.toType = T ∧ goodStep orig s = true := by
  obtain ⟨p1, c, p2, p3, p4⟩ := hp
  refine ⟨by simp [shaperInner, bestUnionTag_under, hb, hT, p1], ?_⟩
  unfold newStepInner
  unfold Ty.inner? at hT
  cases hu : T.under with
  | array x =>
    simp only [hu, Option.some.injEq] at hT; subst hT
    have hTi : T.inner? = some x := by simp [Ty.inner?, hu]
    exact ⟨.array T c, by simp [p2, Except.map], rfl, by simp [goodStep, ho, hTi, p4, p3]⟩
  | set x =>
    simp only [hu, Option.some.injEq] at hT; subst hT
    have hTi : T.inner? = some x := by simp [Ty.inner?, hu]
    exact ⟨.set T c, by simp [p2, Except.map], rfl, by simp [goodStep, ho, hTi, p4, p3]⟩
  | prim _ => simp [hu] at hT
  | record _ => simp [hu] at hT
  | map _ _ => simp [hu] at hT
  | union _ => simp [hu] at hT
  | named _ _ => simp [hu] at hT
  | enum _ => simp [hu] at hT
  | error _ => simp [hu] at hT

theorem isUnion_cases {T : Ty} (h : T.isUnion = true) : ∃ ms, T.under = .union ms := by
  unfold Ty.isUnion at h
  cases hu : T.under <;> simp_all

mutual
theorem fitsU_ok : (cur orig T : Ty) → cur.under = orig.under → fitsU orig cur T = true → UOK orig cur T
  | .named n t, orig, T, hc, hf => by
    have := fitsU_ok t orig T (by simpa [Ty.under] using hc) (by simpa [fitsU] using hf)
    simpa [UOK, shaperTypeU, newStepU] using this
  | .prim id, orig, T, hc, hf => by
    simp only [fitsU] at hf
    obtain ⟨_, _, _, _, hu⟩ := toUnion_ok hf
    obtain ⟨ms, hms⟩ := isUnion_cases hu
    exact union_member_ok orig _ T hf (by simp [shaperTypeU, bestUnionTag_under, hf])
      (by simp [newStepU, Ty.isPrim, hms])
  | .map k v, orig, T, hc, hf => by
    simp only [fitsU] at hf
    exact union_member_ok orig _ T hf (by simp [shaperTypeU, bestUnionTag_under, hf]) (by simp [newStepU])
  | .enum ss, orig, T, hc, hf => by
    simp only [fitsU] at hf
    obtain ⟨_, _, _, _, hu⟩ := toUnion_ok hf
    obtain ⟨ms, hms⟩ := isUnion_cases hu
    exact union_member_ok orig _ T hf (by simp [shaperTypeU, bestUnionTag_under, hf])
      (by simp [newStepU, Ty.isPrim, hms])
  | .error e, orig, T, hc, hf => by
    simp only [fitsU] at hf
    obtain ⟨_, _, _, _, hu⟩ := toUnion_ok hf
    obtain ⟨ms, hms⟩ := isUnion_cases hu
    exact union_member_ok orig _ T hf (by simp [shaperTypeU, bestUnionTag_under, hf])
      (by simp [newStepU, Ty.isPrim, hms])
  | .record fa, orig, T, hc, hf => by
    simp only [fitsU, Bool.or_eq_true] at hf
    by_cases hb : (bestUnionTag orig T).isSome = true
    · obtain ⟨_, _, _, _, hu⟩ := toUnion_ok hb
      obtain ⟨ms, hms⟩ := isUnion_cases hu
      exact union_member_ok orig _ T hb (by simp [shaperTypeU, bestUnionTag_under, hb]) (by simp [newStepU, hms])
    · have hb' : bestUnionTag orig T = none := by simpa using hb
      rcases hf with hf | hf
      · exact absurd hf hb
      · cases hT : T.under with
        | record fo =>
          simp only [hT, Bool.and_eq_true, decide_eq_true_eq] at hf
          obtain ⟨⟨hna, hno⟩, hff⟩ := hf
          exact record_ok orig T fa fo (by simpa [Ty.under] using hc.symm) hT hna hno (fitsFields_ok fa fo hff) hb'
        | prim _ => simp [hT] at hf
        | array _ => simp [hT] at hf
        | set _ => simp [hT] at hf
        | map _ _ => simp [hT] at hf
        | union _ => simp [hT] at hf
        | named _ _ => simp [hT] at hf
        | enum _ => simp [hT] at hf
        | error _ => simp [hT] at hf
  | .array i, orig, T, hc, hf => by
    simp only [fitsU, Bool.or_eq_true] at hf
    by_cases hb : (bestUnionTag orig T).isSome = true
    · obtain ⟨_, _, _, _, hu⟩ := toUnion_ok hb
      obtain ⟨ms, hms⟩ := isUnion_cases hu
      exact union_member_ok orig _ T hb (by simp [shaperTypeU, shaperInner, bestUnionTag_under, hb])
        (by simp [newStepU, newStepInner, hms])
    · have hb' : bestUnionTag orig T = none := by simpa using hb
      rcases hf with hf | hf
      · exact absurd hf hb
      · cases hT : T.inner? with
        | none => simp [hT] at hf
        | some oi =>
          simp only [hT] at hf
          have hp : PlanOK i oi := planOK_of_head hf (fun hd => fitsU_ok i i oi rfl hd)
          have ho : orig.inner? = some i := by simp [Ty.inner?, ← hc, Ty.under]
          have := inner_ok orig T i oi false ho hT hb' hp
          simpa [UOK, shaperTypeU, newStepU, shaperType, newStep] using this
  | .set i, orig, T, hc, hf => by
    simp only [fitsU, Bool.or_eq_true] at hf
    by_cases hb : (bestUnionTag orig T).isSome = true
    · obtain ⟨_, _, _, _, hu⟩ := toUnion_ok hb
      obtain ⟨ms, hms⟩ := isUnion_cases hu
      exact union_member_ok orig _ T hb (by simp [shaperTypeU, shaperInner, bestUnionTag_under, hb])
        (by simp [newStepU, newStepInner, hms])
    · have hb' : bestUnionTag orig T = none := by simpa using hb
      rcases hf with hf | hf
      · exact absurd hf hb
      · cases hT : T.inner? with
        | none => simp [hT] at hf
        | some oi =>
          simp only [hT] at hf
          have hp : PlanOK i oi := planOK_of_head hf (fun hd => fitsU_ok i i oi rfl hd)
          have ho : orig.inner? = some i := by simp [Ty.inner?, ← hc, Ty.under]
          have := inner_ok orig T i oi true ho hT hb' hp
          simpa [UOK, shaperTypeU, newStepU, shaperType, newStep] using this
  | .union ms, orig, T, hc, hf => by
    simp only [fitsU] at hf
    obtain ⟨h1, ss, h2, h3⟩ := fitsMembers_ok ms T hf
    refine ⟨by simp [shaperTypeU, h1], .fromUnion T ss, by simp [newStepU, h2], rfl, ?_⟩
    simp [goodStep, Ty.isUnion, Ty.members, ← hc, Ty.under, h3]
theorem fitsFields_ok : (fa fo : Fields) → fitsFields fa fo = true → FieldsOK fa fo
  | .nil, fo, _ => by intro i n ti h; simp [Fields.get?] at h
  | .cons n t r, fo, hf => by
    simp only [fitsFields, Bool.and_eq_true] at hf
    intro i n' ti hi
    cases i with
    | zero =>
      simp only [Fields.get?, Option.some.injEq, Prod.mk.injEq] at hi
      obtain ⟨rfl, rfl⟩ := hi
      cases hl : fo.lookup n with
      | none => simp [hl] at hf
      | some u =>
        simp only [hl] at hf
        exact ⟨u, rfl, planOK_of_head hf.1 (fun hd => fitsU_ok t t u rfl hd)⟩
    | succ i => exact fitsFields_ok r fo hf.2 i n' ti (by simpa [Fields.get?] using hi)
theorem fitsMembers_ok : (ms : Tys) → (T : Ty) → fitsMembers ms T = true →
    shaperTypeMembers ms T = true ∧ ∃ ss, newStepMembers ms T = some ss ∧ goodMembers ms ss T = true
  | .nil, T, _ => ⟨by simp [shaperTypeMembers], .nil, by simp [newStepMembers], by simp [goodMembers]⟩
  | .cons m r, T, hf => by
    simp only [fitsMembers, Bool.and_eq_true] at hf
    obtain ⟨i1, ss, i2, i3⟩ := fitsMembers_ok r T hf.2
    obtain ⟨p1, s, p2, p3, p4⟩ : PlanOK m T := planOK_of_head hf.1 (fun hd => fitsU_ok m m T rfl hd)
    unfold shaperType at p1
    unfold newStep at p2
    exact ⟨by simp [shaperTypeMembers, p1, i1], .cons s ss, by simp [newStepMembers, p2, i2],
      by simp [goodMembers, p4, p3, i3]⟩
end

/-- **fits ⇒ good plan.** -/
theorem fits_planOK {a T : Ty} (h : fits a T = true) : PlanOK a T := by
  simp only [fits, fitsN, Bool.and_eq_true] at h
  exact planOK_of_head h.2 (fun hd => fitsU_ok a a T rfl hd)

theorem fits_error {a T : Ty} (h : fits a T = true) : a.isError = false ∨ a = T := by
  simp only [fits, Bool.and_eq_true, Bool.or_eq_true, Bool.not_eq_true', beq_iff_eq] at h
  exact h.1

theorem goodStep_congr {a a' : Ty} (h : a.under = a'.under) (s : Step) : goodStep a s = goodStep a' s := by
  cases s <;> simp [goodStep, Ty.isUnion, Ty.members, Ty.inner?, Ty.isRecord, Ty.fields, h]

/-- every cached shaper lands in `T` and is good for the types that share its key -/
def CacheOK (T : Ty) (c : Cache) : Prop :=
  ∀ k typ s, c.find k = some (typ, s) → s.toType = T ∧ ∃ a', a'.under = k ∧ goodStep a' s = true

theorem newShaper_of_fits {a T : Ty} (h : fits a T = true) :
    ∃ s, newShaper a T = .ok (T, s) ∧ s.toType = T ∧ goodStep a s = true := by
  obtain ⟨p1, s, p2, p3, p4⟩ := fits_planOK h
  exact ⟨s, by simp [newShaper, p1, p2], p3, p4⟩

theorem evalGuard_of_fits {T : Ty} {c : Cache} {a : Ty} (v : Val) (hc : CacheOK T c) (h : fits a T = true) :
    evalGuard T c a v = true ∧ CacheOK T (evalShaper T c a v).2 := by
  unfold evalGuard evalShaper
  by_cases he : a.isError = true
  · rcases fits_error h with h' | h'
    · rw [h'] at he; exact absurd he (by simp)
    · subst h'
      refine ⟨by simp [he], ?_⟩
      simp only [he, if_true]
      exact hc
  · simp only [he, Bool.false_eq_true, if_false]
    by_cases hv : v = .null
    · simp [hv, hc]
    · by_cases hu : a.under = T.under
      · simp [hv, hu, hc]
      · simp only [hv, hu, if_false]
        cases hf : c.find a.under with
        | some p =>
          obtain ⟨typ, s⟩ := p
          obtain ⟨h1, a', h2, h3⟩ := hc _ _ _ hf
          simp only [h1, beq_self_eq_true, Bool.true_and]
          exact ⟨by rw [goodStep_congr h2.symm] ; exact h3, hc⟩
        | none =>
          obtain ⟨s, h1, h2, h3⟩ := newShaper_of_fits h
          simp only [h1, h2, beq_self_eq_true, h3, Bool.and_self, true_and]
          intro k typ s' hk
          simp only [Cache.find] at hk
          by_cases hka : a.under = k
          · simp only [hka, if_true, Option.some.injEq, Prod.mk.injEq] at hk
            obtain ⟨_, rfl⟩ := hk
            exact ⟨h2, a, hka, h3⟩
          · simp only [hka, if_false] at hk
            exact hc _ _ _ hk

theorem guardsFrom_of_fits (T : Ty) : (xs : List Input) → (c : Cache) → CacheOK T c →
    (∀ x ∈ xs, fits x.ty T = true) → ∀ g ∈ guardsFrom T c xs, g = true
  | [], _, _, _ => by simp [guardsFrom]
  | x :: xs, c, hc, hf => by
    obtain ⟨g1, g2⟩ := evalGuard_of_fits x.val hc (hf x List.mem_cons_self)
    intro g hg
    simp only [guardsFrom, List.mem_cons] at hg
    rcases hg with rfl | hg
    · exact g1
    · exact guardsFrom_of_fits T xs _ g2 (fun y hy => hf y (List.mem_cons_of_mem _ hy)) g hg

theorem cacheOK_nil (T : Ty) : CacheOK T [] := by
  intro k typ s h; simp [Cache.find] at h

end Zed.Fuse
