import Zed.Model.Sexp
import Zed.Model.VngColumns
/-!
  S-expression syntax of the VNG model objects for the driver line protocol (not used in any
  theorem).

  type   (prim n) | (enum hex…) | (record (hexname type)…) | (array t) | (set t) | (map k v)
         | (union t…) | (named hexname t) | (error t)
  value  n | (p hex) | (c value…) | (u tag value)
  col    (prim type count (plain hex…)) | (prim type count (dict ((hex n)…) (sel…)))
         | (prim type count (const hex)) | (nulls (run…) count col) | (record len (hexname col)…)
         | (array len (len…) col) | (set len (len…) col) | (map len (len…) kcol vcol)
         | (union len (tag…) col…) | (named hexname col) | (error col)
  top    (single col) | (dynamic (tag…) len col…)
-/
namespace Zed.Vng
open Zed

def natsOf (xs : List Sexp) : Option (List Nat) :=
  xs.mapM fun | .atom a => a.toNat? | _ => none

def natsSexp (xs : List Nat) : Sexp := .list (xs.map fun n => .atom (toString n))

def hexSexp (b : Bytes) : Sexp := .atom (Sexp.hexOfBytes b)

mutual
partial def tyOfSexp : Sexp → Option Ty
  | .list [.atom "prim", .atom n] => do pure (.prim (← n.toNat?))
  | .list (.atom "enum" :: syms) => do
    pure (.enum (← syms.mapM fun | .atom h => Sexp.bytesOfHex h | _ => none))
  | .list (.atom "record" :: fs) => do pure (.record (← fieldsOfSexp fs))
  | .list [.atom "array", t] => do pure (.array (← tyOfSexp t))
  | .list [.atom "set", t] => do pure (.set (← tyOfSexp t))
  | .list [.atom "map", k, v] => do pure (.map (← tyOfSexp k) (← tyOfSexp v))
  | .list (.atom "union" :: ts) => do pure (.union (← tysOfSexp ts))
  | .list [.atom "named", .atom n, t] => do pure (.named (← Sexp.bytesOfHex n) (← tyOfSexp t))
  | .list [.atom "error", t] => do pure (.error (← tyOfSexp t))
  | _ => none
partial def fieldsOfSexp : List Sexp → Option Fields
  | [] => some .nil
  | .list [.atom n, t] :: r => do pure (.cons (← Sexp.bytesOfHex n) (← tyOfSexp t) (← fieldsOfSexp r))
  | _ => none
partial def tysOfSexp : List Sexp → Option Tys
  | [] => some .nil
  | t :: r => do pure (.cons (← tyOfSexp t) (← tysOfSexp r))
end

mutual
partial def tySexp : Ty → Sexp
  | .prim n => .list [.atom "prim", .atom (toString n)]
  | .enum syms => .list (.atom "enum" :: syms.map hexSexp)
  | .record fs => .list (.atom "record" :: fieldsSexp fs)
  | .array t => .list [.atom "array", tySexp t]
  | .set t => .list [.atom "set", tySexp t]
  | .map k v => .list [.atom "map", tySexp k, tySexp v]
  | .union ts => .list (.atom "union" :: tysSexp ts)
  | .named n t => .list [.atom "named", hexSexp n, tySexp t]
  | .error t => .list [.atom "error", tySexp t]
partial def fieldsSexp : Fields → List Sexp
  | .nil => []
  | .cons n t r => .list [hexSexp n, tySexp t] :: fieldsSexp r
partial def tysSexp : Tys → List Sexp
  | .nil => []
  | .cons t r => tySexp t :: tysSexp r
end

partial def valOfSexp : Sexp → Option Val
  | .atom "n" => some .null
  | .list [.atom "p", .atom h] => do pure (.prim (← Sexp.bytesOfHex h))
  | .list (.atom "c" :: xs) => do pure (.cont (Vals.ofList (← xs.mapM valOfSexp)))
  | .list [.atom "u", .atom t, v] => do pure (.union (← t.toNat?) (← valOfSexp v))
  | _ => none

partial def valSexp : Val → Sexp
  | .null => .atom "n"
  | .prim b => .list [.atom "p", hexSexp b]
  | .cont xs => .list (.atom "c" :: xs.toList.map valSexp)
  | .union t v => .list [.atom "u", .atom (toString t), valSexp v]

def pcolOfSexp (count : Nat) : Sexp → Option PCol
  | .list (.atom "plain" :: xs) => do
    pure (.plain (← xs.mapM fun | .atom h => Sexp.bytesOfHex h | _ => none) count)
  | .list [.atom "dict", .list es, .list sel] => do
    let es ← es.mapM fun
      | .list [.atom h, .atom n] => do pure ((← Sexp.bytesOfHex h), (← n.toNat?))
      | _ => none
    pure (.dict es (← natsOf sel) count)
  | .list [.atom "const", .atom h] => do pure (.const (← Sexp.bytesOfHex h) count)
  | _ => none

def pcolSexp : PCol → Sexp
  | .plain vals _ => .list (.atom "plain" :: vals.map hexSexp)
  | .dict es sel _ =>
    .list [.atom "dict", .list (es.map fun e => .list [hexSexp e.1, .atom (toString e.2)]), natsSexp sel]
  | .const v _ => .list [.atom "const", hexSexp v]

mutual
partial def colOfSexp : Sexp → Option Col
  | .list [.atom "prim", t, .atom count, p] => do
    pure (.prim (← tyOfSexp t) (← pcolOfSexp (← count.toNat?) p))
  | .list [.atom "nulls", .list runs, .atom count, c] => do
    pure (.nulls (← natsOf runs) (← count.toNat?) (← colOfSexp c))
  | .list (.atom "record" :: .atom len :: fs) => do pure (.record (← len.toNat?) (← fcolsOfSexp fs))
  | .list [.atom "array", .atom len, .list ls, c] => do
    pure (.array (← len.toNat?) (← natsOf ls) (← colOfSexp c))
  | .list [.atom "set", .atom len, .list ls, c] => do
    pure (.set (← len.toNat?) (← natsOf ls) (← colOfSexp c))
  | .list [.atom "map", .atom len, .list ls, k, v] => do
    pure (.map (← len.toNat?) (← natsOf ls) (← colOfSexp k) (← colOfSexp v))
  | .list (.atom "union" :: .atom len :: .list tags :: cs) => do
    pure (.union (← len.toNat?) (← natsOf tags) (← colsOfSexp cs))
  | .list [.atom "named", .atom n, c] => do pure (.named (← Sexp.bytesOfHex n) (← colOfSexp c))
  | .list [.atom "error", c] => do pure (.error (← colOfSexp c))
  | _ => none
partial def fcolsOfSexp : List Sexp → Option FCols
  | [] => some .nil
  | .list [.atom n, c] :: r => do pure (.cons (← Sexp.bytesOfHex n) (← colOfSexp c) (← fcolsOfSexp r))
  | _ => none
partial def colsOfSexp : List Sexp → Option Cols
  | [] => some .nil
  | c :: r => do pure (.cons (← colOfSexp c) (← colsOfSexp r))
end

mutual
partial def colSexp : Col → Sexp
  | .prim t p => .list [.atom "prim", tySexp t, .atom (toString p.len), pcolSexp p]
  | .nulls runs count c => .list [.atom "nulls", natsSexp runs, .atom (toString count), colSexp c]
  | .record len fs => .list (.atom "record" :: .atom (toString len) :: fcolsSexp fs)
  | .array len ls c => .list [.atom "array", .atom (toString len), natsSexp ls, colSexp c]
  | .set len ls c => .list [.atom "set", .atom (toString len), natsSexp ls, colSexp c]
  | .map len ls k v => .list [.atom "map", .atom (toString len), natsSexp ls, colSexp k, colSexp v]
  | .union len tags cs => .list (.atom "union" :: .atom (toString len) :: natsSexp tags :: colsSexp cs)
  | .named n c => .list [.atom "named", hexSexp n, colSexp c]
  | .error c => .list [.atom "error", colSexp c]
partial def fcolsSexp : FCols → List Sexp
  | .nil => []
  | .cons n c r => .list [hexSexp n, colSexp c] :: fcolsSexp r
partial def colsSexp : Cols → List Sexp
  | .nil => []
  | .cons c r => colSexp c :: colsSexp r
end

def topOfSexp : Sexp → Option Top
  | .list [.atom "single", c] => do pure (.single (← colOfSexp c))
  | .list (.atom "dynamic" :: .list tags :: .atom len :: cs) => do
    pure (.dynamic (← natsOf tags) (← cs.mapM colOfSexp) (← len.toNat?))
  | _ => none

def topSexp : Top → Sexp
  | .single c => .list [.atom "single", colSexp c]
  | .dynamic tags cs len => .list (.atom "dynamic" :: natsSexp tags :: .atom (toString len) :: cs.map colSexp)

/-- `(seq (k value)…)` against `(types t…)`. -/
def seqOfSexp (types : List Ty) (xs : List Sexp) : Option (List (Ty × Val)) :=
  xs.mapM fun
    | .list [.atom k, v] => do
      let k ← k.toNat?
      let t ← types[k]?
      pure (t, ← valOfSexp v)
    | _ => none

def rowsSexp (rows : List (Ty × Val)) : Sexp :=
  .list (rows.map fun (t, v) => .list [tySexp t, valSexp v])

end Zed.Vng
