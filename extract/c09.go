package main

// Fact set C09 — the vector runtime's dispatch tables.
//
//   * runtime/vam/op/agg.go: the vector kinds CountByString.update and Sum.update handle,
//     what their default does, the unchecked type assertion of the Dict case, the
//     assignment operator of count / countDict / countFixed, the type ids of countFixed;
//   * runtime/vcache + vector: the vector kinds the loader / projection / field access can
//     hand to an operator (every `vector.New…` constructor called there);
//   * compiler/optimizer/vam.go: the planner predicate (shape of Vectorize and of the
//     Is… tests);
//   * compiler/kernel/vop.go, vexpr.go: the dag operators, expression kinds, binary and
//     unary operators the vector compiler accepts;
//   * digests of the normalised source of the functions the model mirrors.

import (
	"fmt"
	"go/ast"
	"go/token"
	"os"
	"path/filepath"
	"sort"
	"strings"
)

func init() { register("C09", genC09) }

func genC09(repo string) (string, error) {
	var b strings.Builder
	af, err := parseFile(repo, "runtime/vam/op/agg.go")
	if err != nil {
		return "", err
	}

	// ---- CountByString.update / Sum.update: type switch on the evaluated field vector ----
	for _, w := range []struct{ recv, name string }{{"CountByString", "countByKinds"}, {"Sum", "sumKinds"}} {
		fd, err := af.funcDecl(w.recv, "update")
		if err != nil {
			return "", err
		}
		cls, err := vxTypeSwitch(af, fd.Body, "c.field.Eval")
		if err != nil {
			return "", err
		}
		var kinds []string
		deflt := "ignore"
		for _, c := range cls {
			if c.types == nil {
				deflt = vxFallthrough(strings.Join(vxRenderStmts(af, c.node.Body), " ; "))
				continue
			}
			for _, t := range c.types {
				kinds = append(kinds, vxShort(t))
			}
		}
		fmt.Fprintf(&b, "def %s : List String := %s\n", w.name, leanStrList(kinds))
		fmt.Fprintf(&b, "def %sDefault : String := %s\n", w.name, leanStr(deflt))
		// recursion into Dynamic values before the switch
		dyn := strings.Contains(renderNode(af, fd.Body), "(*vector.Dynamic); ok { for _, ")
		fmt.Fprintf(&b, "def %sRecursesIntoDynamic : Bool := %v\n", w.name, dyn)
		if w.recv == "CountByString" {
			// the Dict case: c.table.countDict(val.Any.(*vector.String), val.Counts)
			assert := ""
			for _, c := range cls {
				if len(c.types) == 1 && vxShort(c.types[0]) == "Dict" {
					body := strings.Join(vxRenderStmts(af, c.node.Body), " ; ")
					switch body {
					case "c.table.countDict(val.Any.(*vector.String), val.Counts)":
						assert = "unchecked-String"
					default:
						assert = "other: " + body
					}
				}
			}
			fmt.Fprintf(&b, "def countByDictAssertion : String := %s\n", leanStr(assert))
		} else {
			// nested switch in the Dict case of Sum
			var inner []string
			for _, c := range cls {
				if len(c.types) == 1 && vxShort(c.types[0]) == "Dict" {
					for _, s := range c.node.Body {
						if ts, ok := s.(*ast.TypeSwitchStmt); ok {
							for _, cl := range ts.Body.List {
								for _, t := range cl.(*ast.CaseClause).List {
									inner = append(inner, vxShort(renderExpr(af, t)))
								}
							}
						}
					}
				}
			}
			fmt.Fprintf(&b, "def sumDictKinds : List String := %s\n", leanStrList(inner))
		}
	}

	// ---- count / countDict / countFixed: how the table is updated ---------------------------
	upd := func(fn string) ([]string, error) {
		fd, err := af.funcDecl("countByString", fn)
		if err != nil {
			return nil, err
		}
		var ops []string
		ast.Inspect(fd.Body, func(n ast.Node) bool {
			switch n := n.(type) {
			case *ast.IncDecStmt:
				if strings.HasPrefix(renderExpr(af, n.X), "c.table[") {
					ops = append(ops, "table"+n.Tok.String())
				}
			case *ast.AssignStmt:
				if len(n.Lhs) == 1 {
					l := renderExpr(af, n.Lhs[0])
					if strings.HasPrefix(l, "c.table[") {
						ops = append(ops, "table"+n.Tok.String())
					} else if l == "c.nulls" {
						ops = append(ops, "nulls"+n.Tok.String())
					}
				}
			}
			return true
		})
		return ops, nil
	}
	for _, fn := range []string{"count", "countDict", "countFixed"} {
		ops, err := upd(fn)
		if err != nil {
			return "", err
		}
		if len(ops) == 0 {
			return "", fmt.Errorf("runtime/vam/op/agg.go: countByString.%s: no table update recognised", fn)
		}
		fmt.Fprintf(&b, "def %sUpdates : List String := %s\n", fn, leanStrList(ops))
	}
	// countFixed: switch val.Type().ID() { case zed.IDString: … case zed.IDNull: … }
	var consts constTable
	tf, err := parseFile(repo, "type.go")
	if err != nil {
		return "", err
	}
	readConsts(tf, &consts)
	fd, err := af.funcDecl("countByString", "countFixed")
	if err != nil {
		return "", err
	}
	sw := firstSwitchAny(fd.Body)
	if sw == nil || renderExpr(af, sw.Tag) != "val.Type().ID()" {
		return "", fmt.Errorf("runtime/vam/op/agg.go: countFixed: `switch val.Type().ID()` not recognised")
	}
	var fixed []string
	for _, s := range sw.Body.List {
		cc := s.(*ast.CaseClause)
		for _, e := range cc.List {
			n, ok := selName(e)
			if !ok {
				return "", fmt.Errorf("%s: countFixed: case not a constant", af.pos(e))
			}
			v, err := consts.get(n)
			if err != nil {
				return "", err
			}
			what := "other"
			body := strings.Join(vxRenderStmts(af, cc.Body), " ; ")
			switch {
			case strings.HasPrefix(body, "c.table["):
				what = "table"
			case strings.HasPrefix(body, "c.nulls"):
				what = "nulls"
			}
			fixed = append(fixed, fmt.Sprintf("(%d, %s)", v, leanStr(what)))
		}
	}
	fmt.Fprintf(&b, "def countFixedIDs : List (Nat × String) := [%s]\n", strings.Join(fixed, ", "))

	// ---- the vector kinds produced by the cache loader / projection / field access ----------
	kinds := map[string]bool{}
	for _, rel := range []string{"runtime/vcache/loader.go", "runtime/vcache/project.go", "runtime/vam/expr/dot.go"} {
		f, err := parseFile(repo, rel)
		if err != nil {
			return "", err
		}
		ast.Inspect(f.f, func(n ast.Node) bool {
			if c, ok := n.(*ast.CallExpr); ok {
				if name, ok := selName(c.Fun); ok && strings.HasPrefix(name, "vector.New") {
					k := strings.TrimPrefix(name, "vector.New")
					k = strings.TrimSuffix(k, "Empty")
					switch k {
					case "Missing", "StringError", "WrappedError", "VecWrappedError":
						k = "Error"
					}
					kinds[k] = true
				}
			}
			return true
		})
	}
	var ks []string
	for k := range kinds {
		ks = append(ks, k)
	}
	sort.Strings(ks)
	fmt.Fprintf(&b, "def loaderVectorKinds : List String := %s\n", leanStrList(ks))

	// every vector kind that exists (types in /vector implementing Serialize)
	var all []string
	ents, err := os.ReadDir(filepath.Join(repo, "vector"))
	if err != nil {
		return "", err
	}
	for _, e := range ents {
		if !strings.HasSuffix(e.Name(), ".go") || strings.HasSuffix(e.Name(), "_test.go") {
			continue
		}
		f, err := parseFile(repo, "vector/"+e.Name())
		if err != nil {
			return "", err
		}
		for _, d := range f.f.Decls {
			if fd, ok := d.(*ast.FuncDecl); ok && fd.Name.Name == "Serialize" && fd.Recv != nil && len(fd.Recv.List) == 1 {
				t := fd.Recv.List[0].Type
				if s, ok := t.(*ast.StarExpr); ok {
					t = s.X
				}
				if id, ok := t.(*ast.Ident); ok {
					all = append(all, id.Name)
				}
			}
		}
	}
	sort.Strings(all)
	fmt.Fprintf(&b, "def vectorKindsWithSerialize : List String := %s\n", leanStrList(all))

	// ---- planner predicate ----------------------------------------------------------------------
	of, err := parseFile(repo, "compiler/optimizer/vam.go")
	if err != nil {
		return "", err
	}
	fd, err = of.funcDecl("Optimizer", "Vectorize")
	if err != nil {
		return "", err
	}
	var preds []string
	minLen := ""
	ast.Inspect(fd.Body, func(n ast.Node) bool {
		ifs, ok := n.(*ast.IfStmt)
		if !ok {
			return true
		}
		if ifs.Init == nil {
			if be, ok := ifs.Cond.(*ast.BinaryExpr); ok && renderExpr(of, be.X) == "len(seq)" {
				minLen = be.Op.String() + " " + renderExpr(of, be.Y)
			}
			return true
		}
		init := renderStmt(of, ifs.Init)
		switch {
		case strings.Contains(init, "o.isScanWithVectors(seq[0])"):
			preds = append(preds, "isScanWithVectors(seq[0])")
		case strings.Contains(init, "IsCountByString(seq[1])"):
			preds = append(preds, "IsCountByString(seq[1]) -> "+strings.Join(vxRenderStmts(of, ifs.Body.List), ";"))
		case strings.Contains(init, "IsSum(seq[1])"):
			preds = append(preds, "IsSum(seq[1]) -> "+strings.Join(vxRenderStmts(of, ifs.Body.List), ";"))
		default:
			preds = append(preds, "other: "+init)
		}
		return true
	})
	fmt.Fprintf(&b, "def vectorizeSkipWhenLen : String := %s\n", leanStr(minLen))
	fmt.Fprintf(&b, "def vectorizeTests : List String := %s\n", leanStrList(preds))

	// ---- kernel: what the vector compiler accepts -------------------------------------------------
	kf, err := parseFile(repo, "compiler/kernel/vop.go")
	if err != nil {
		return "", err
	}
	for _, w := range []struct{ fn, name string }{{"compileVamLeaf", "vamLeafOps"}, {"compileVam", "vamNonLeafOps"}} {
		fd, err := kf.funcDecl("Builder", w.fn)
		if err != nil {
			return "", err
		}
		cls, err := vxTypeSwitch(kf, fd.Body, "o.(type)")
		if err != nil {
			return "", err
		}
		var ops []string
		for _, c := range cls {
			for _, t := range c.types {
				// a clause whose body is empty (only comments) falls through to the
				// "unsupported" error at the end of compileVam
				if w.fn == "compileVam" && len(c.node.Body) == 0 {
					continue
				}
				ops = append(ops, vxShort(t))
			}
		}
		fmt.Fprintf(&b, "def %s : List String := %s\n", w.name, leanStrList(ops))
	}
	xf, err := parseFile(repo, "compiler/kernel/vexpr.go")
	if err != nil {
		return "", err
	}
	fd, err = xf.funcDecl("Builder", "compileVamExpr")
	if err != nil {
		return "", err
	}
	cls, err := vxTypeSwitch(xf, fd.Body, "e.(type)")
	if err != nil {
		return "", err
	}
	var exprs []string
	for _, c := range cls {
		for _, t := range c.types {
			exprs = append(exprs, vxShort(t))
		}
	}
	fmt.Fprintf(&b, "def vamExprKinds : List String := %s\n", leanStrList(exprs))
	for _, w := range []struct{ fn, tag, name string }{{"compileVamBinary", "op", "vamBinaryOps"}, {"compileVamUnary", "unary.Op", "vamUnaryOps"}} {
		fd, err := xf.funcDecl("Builder", w.fn)
		if err != nil {
			return "", err
		}
		var sw *ast.SwitchStmt
		ast.Inspect(fd.Body, func(n ast.Node) bool {
			if s, ok := n.(*ast.SwitchStmt); ok && sw == nil {
				sw = s
			}
			return true
		})
		if sw == nil {
			return "", fmt.Errorf("compiler/kernel/vexpr.go: %s: no switch", w.fn)
		}
		var ops []string
		for _, s := range sw.Body.List {
			for _, e := range s.(*ast.CaseClause).List {
				if l, ok := strLit(e); ok {
					ops = append(ops, l)
				}
			}
		}
		fmt.Fprintf(&b, "def %s : List String := %s\n", w.name, leanStrList(ops))
	}

	// ---- the kinds the generated arithmetic / comparison functions exist for ---------------------
	for _, w := range []struct{ file, name string }{
		{"runtime/vam/expr/genarithfuncs.go", "arithFuncKinds"},
		{"runtime/vam/expr/gencomparefuncs.go", "compareFuncKinds"},
	} {
		gf, err := parseFile(repo, w.file)
		if err != nil {
			return "", err
		}
		fd, err := gf.funcDecl("", "main")
		if err != nil {
			return "", err
		}
		var kindsList []string
		ast.Inspect(fd.Body, func(n ast.Node) bool {
			rs, ok := n.(*ast.RangeStmt)
			if !ok {
				return true
			}
			if v, ok := identName(rs.Value); !ok || v != "typ" {
				return true
			}
			if cl, ok := rs.X.(*ast.CompositeLit); ok {
				for _, e := range cl.Elts {
					if l, ok := strLit(e); ok {
						kindsList = append(kindsList, l)
					}
				}
			}
			return true
		})
		if len(kindsList) == 0 {
			return "", fmt.Errorf("%s: `for _, typ := range []string{…}` not recognised", w.file)
		}
		fmt.Fprintf(&b, "def %s : List String := %s\n", w.name, leanStrList(kindsList))
	}
	// vector.FormOf: the kinds that have a Form at all
	vf, err := parseFile(repo, "vector/kind.go")
	if err != nil {
		return "", err
	}
	fd, err = vf.funcDecl("", "FormOf")
	if err != nil {
		return "", err
	}
	fcls, err := vxTypeSwitch(vf, fd.Body, "")
	if err != nil {
		return "", err
	}
	var flatKinds []string
	for _, c := range fcls {
		if strings.Contains(renderNode(vf, c.node), "FormFlat") {
			for _, t := range c.types {
				flatKinds = append(flatKinds, vxShort(t))
			}
		}
	}
	fmt.Fprintf(&b, "def formFlatKinds : List String := %s\n", leanStrList(flatKinds))
	// vcache.Cache: the order of lock operations in lock / unlock / Fetch
	cf, err := parseFile(repo, "runtime/vcache/cache.go")
	if err != nil {
		return "", err
	}
	for _, fn := range []string{"lock", "unlock", "Fetch"} {
		fd, err := cf.funcDecl("Cache", fn)
		if err != nil {
			return "", err
		}
		var seq []string
		ast.Inspect(fd.Body, func(n ast.Node) bool {
			var call *ast.CallExpr
			prefix := ""
			switch x := n.(type) {
			case *ast.DeferStmt:
				call, prefix = x.Call, "defer "
			case *ast.ExprStmt:
				call, _ = x.X.(*ast.CallExpr)
			case *ast.AssignStmt:
				if len(x.Rhs) == 1 {
					call, _ = x.Rhs[0].(*ast.CallExpr)
				}
			}
			if call == nil {
				return true
			}
			txt := renderNode(cf, call.Fun)
			switch {
			case strings.HasSuffix(txt, ".Lock"), strings.HasSuffix(txt, ".Unlock"), txt == "c.lock", txt == "c.unlock", txt == "NewObject":
				seq = append(seq, prefix+txt)
				return false
			}
			return true
		})
		fmt.Fprintf(&b, "def cache%sLockOps : List String := %s\n", strings.ToUpper(fn[:1])+fn[1:], leanStrList(seq))
	}

	// ---- pinned sources ------------------------------------------------------------------------------
	pins, err := vxPins(repo, []vxPin{
		{"runtime/vam/op/agg.go", "CountByString", "Pull"},
		{"runtime/vam/op/agg.go", "CountByString", "update"},
		{"runtime/vam/op/agg.go", "countByString", "count"},
		{"runtime/vam/op/agg.go", "countByString", "countDict"},
		{"runtime/vam/op/agg.go", "countByString", "countFixed"},
		{"runtime/vam/op/agg.go", "countByString", "materialize"},
		{"runtime/vam/op/agg.go", "Sum", "Pull"},
		{"runtime/vam/op/agg.go", "Sum", "update"},
		{"runtime/vam/op/agg.go", "Sum", "materialize"},
		{"runtime/vam/expr/dot.go", "DotExpr", "eval"},
		{"compiler/optimizer/vam.go", "Optimizer", "Vectorize"},
		{"compiler/optimizer/vam.go", "Optimizer", "isScanWithVectors"},
		{"compiler/optimizer/vam.go", "", "vectorize"},
		{"compiler/optimizer/vam.go", "", "IsCountByString"},
		{"compiler/optimizer/vam.go", "", "IsSum"},
		{"compiler/optimizer/vam.go", "", "isCount"},
		{"compiler/optimizer/vam.go", "", "isSum"},
		{"compiler/optimizer/vam.go", "", "isSingleField"},
		{"compiler/job.go", "Job", "Parallelize"},
		{"runtime/vam/op/scan.go", "Scanner", "run"},
		{"runtime/vcache/loader.go", "loader", "loadDict"},
		{"runtime/vcache/loader.go", "loader", "loadPrimitive"},
		// expressions and operators mirrored by Model/VecExpr.lean
		{"runtime/vam/expr/arith.go", "Arith", "eval"},
		{"runtime/vam/expr/compare.go", "Compare", "eval"},
		{"runtime/vam/expr/logic.go", "Not", "Eval"},
		{"runtime/vam/expr/logic.go", "And", "Eval"},
		{"runtime/vam/expr/logic.go", "Or", "Eval"},
		{"runtime/vam/expr/logic.go", "", "EvalBool"},
		{"runtime/vam/expr/coerce.go", "", "coerceVals"},
		{"runtime/vam/expr/literal.go", "Literal", "Eval"},
		{"runtime/vam/expr/genarithfuncs.go", "", "genFunc"},
		{"runtime/vam/expr/genarithfuncs.go", "", "genLoop"},
		{"runtime/vam/expr/genarithfuncs.go", "", "genExpr"},
		{"runtime/vam/expr/gencomparefuncs.go", "", "genFunc"},
		{"runtime/vam/expr/gencomparefuncs.go", "", "genExpr"},
		{"runtime/vam/op/filter.go", "Filter", "Pull"},
		{"runtime/vam/op/filter.go", "", "applyMask"},
		{"runtime/vam/op/head.go", "Head", "Pull"},
		{"runtime/vam/op/tail.go", "Tail", "tail"},
		{"runtime/vam/op/yield.go", "Yield", "Pull"},
		{"vector/kind.go", "", "FormOf"},
		{"vector/kind.go", "", "KindOf"},
		{"vector/bool.go", "", "BoolValue"},
		{"vector/view.go", "View", "Serialize"},
		{"runtime/sam/expr/eval.go", "Compare", "Eval"},
		{"runtime/sam/expr/eval.go", "Add", "Eval"},
		{"runtime/sam/expr/eval.go", "And", "Eval"},
		{"runtime/sam/expr/eval.go", "Or", "Eval"},
		{"runtime/sam/expr/eval.go", "Not", "Eval"},
		{"runtime/sam/expr/coerce/coerce.go", "", "Equal"},
		{"runtime/sam/expr/eval.go", "Equal", "Eval"},
		{"runtime/sam/expr/boolean.go", "", "Comparison"},
		{"runtime/sam/expr/boolean.go", "", "comparison"},
		{"runtime/sam/expr/boolean.go", "", "CompareBool"},
		{"runtime/sam/expr/boolean.go", "", "CompareInt64"},
		{"runtime/sam/expr/boolean.go", "", "CompareString"},
		{"runtime/sam/expr/filter.go", "filter", "Eval"},
		{"compiler/kernel/expr.go", "Builder", "compileConstCompare"},
		{"compiler/kernel/op.go", "Builder", "evalAtCompileTime"},
		{"runtime/vcache/cache.go", "Cache", "lock"},
		{"runtime/vcache/cache.go", "Cache", "unlock"},
		{"runtime/vcache/cache.go", "Cache", "Fetch"},
	})
	if err != nil {
		return "", err
	}
	fmt.Fprintf(&b, "def pinnedSources : List (String × String) :=\n  [%s]\n", strings.Join(pins, ",\n   "))
	_ = token.ADD
	return b.String(), nil
}

func firstSwitchAny(body *ast.BlockStmt) *ast.SwitchStmt {
	var out *ast.SwitchStmt
	ast.Inspect(body, func(n ast.Node) bool {
		if s, ok := n.(*ast.SwitchStmt); ok && out == nil && s.Tag != nil {
			out = s
		}
		return out == nil
	})
	return out
}
