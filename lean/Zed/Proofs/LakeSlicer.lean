/-
  The slicer separates key ranges: for a lister output ordered by range start, the partitions
  `meta.Slicer` forms are pairwise separated (every object of an earlier partition lies strictly
  before every object of a later one, in pool order), hence the concatenation of the
  per-partition merges is in pool-key order.  Helper lemmas for C14 (`scan_sorted`).
-/
import Zed.Proofs.LakeSorted
import Zed.Proofs.LakeRefine
namespace Zed.Lake
variable {K V : Type}

/-- laws of the key order used here: reflexive, transitive, total -/
structure KeyTotal (cfg : Cfg K V) : Prop extends KeyLaws cfg where
  total : ∀ a b, (cfg.kle a b || cfg.kle b a) = true

theorem klt_irrefl_le (cfg : Cfg K V) (a b : K) (h1 : klt cfg a b = true) (h2 : cfg.kle b a = true) : False := by
  unfold klt at h1
  simp only [Bool.and_eq_true, Bool.not_eq_true'] at h1
  rw [h2] at h1; exact absurd h1.2 (by simp)

theorem le_lt_le (cfg : Cfg K V) (L : KeyLaws cfg) (a b c d : K)
    (h1 : cfg.kle a b = true) (h2 : klt cfg b c = true) (h3 : cfg.kle c d = true) : klt cfg a d = true := by
  unfold klt at *
  simp only [Bool.and_eq_true, Bool.not_eq_true'] at *
  refine ⟨L.trans _ _ _ (L.trans _ _ _ h1 h2.1) h3, ?_⟩
  cases hda : cfg.kle d a with
  | false => rfl
  | true =>
    have : cfg.kle c b = true := L.trans _ _ _ (L.trans _ _ _ h3 hda) h1
    rw [this] at h2; exact absurd h2.2 (by simp)

/-- every key of `o` is strictly before every key of `o'` in pool order (given that keys lie in
    the objects' ranges) -/
def before (cfg : Cfg K V) (o o' : Obj K) : Prop :=
  if cfg.desc then klt cfg o'.max o.min = true else klt cfg o.max o'.min = true

/-- the lister's order: by range start (min ascending / max descending) -/
def fromLe (cfg : Cfg K V) (x y : Obj K) : Prop :=
  if cfg.desc then cfg.kle y.max x.max = true else cfg.kle x.min y.min = true

def Sep (cfg : Cfg K V) (P Q : List (Obj K)) : Prop := ∀ o ∈ P, ∀ o' ∈ Q, before cfg o o'

/-- invariant of the slicer fold -/
structure SlInv (cfg : Cfg K V) (st : SlicerSt K) (rest : List (Obj K)) : Prop where
  empty : st.group = [] → st.smin = none ∧ st.smax = none
  bounds : st.group ≠ [] → ∃ mn mx, st.smin = some mn ∧ st.smax = some mx ∧
    (∀ g ∈ st.group, cfg.kle mn g.min = true ∧ cfg.kle g.max mx = true) ∧
    (∃ g ∈ st.group, mn = g.min) ∧ (∃ g ∈ st.group, mx = g.max)
  outSep : st.out.Pairwise (Sep cfg)
  outLater : ∀ P ∈ st.out, Sep cfg P (st.group ++ rest)
  sorted : (st.group ++ rest).Pairwise (fromLe cfg)
  wf : ∀ o ∈ st.group ++ rest, cfg.kle o.min o.max = true

theorem slicerStep_inv (cfg : Cfg K V) (L : KeyTotal cfg) (st : SlicerSt K) (o : Obj K) (rest : List (Obj K))
    (inv : SlInv cfg st (o :: rest)) : SlInv cfg (slicerStep cfg st o) rest := by
  have hwfo : cfg.kle o.min o.max = true := inv.wf o (by simp)
  have hsorted_o : ∀ x ∈ rest, fromLe cfg o x := by
    intro x hx
    have := List.pairwise_append.mp inv.sorted
    exact List.rel_of_pairwise_cons this.2.1 hx
  have hgo : ∀ g ∈ st.group, fromLe cfg g o := by
    intro g hg
    exact (List.pairwise_append.mp inv.sorted).2.2 g hg o (by simp)
  have hgrest : ∀ g ∈ st.group, ∀ x ∈ rest, fromLe cfg g x := by
    intro g hg x hx
    exact (List.pairwise_append.mp inv.sorted).2.2 g hg x (by simp [hx])
  cases hgr : st.group with
  | nil =>
    -- empty group: o starts one
    obtain ⟨h1, h2⟩ := inv.empty hgr
    have hstep : slicerStep cfg st o = { group := [o], smin := some o.min, smax := some o.max, out := st.out } := by
      unfold slicerStep; simp [hgr, h1, h2]
    rw [hstep]
    exact {
      empty := by intro h; cases h
      bounds := by
        intro _
        exact ⟨o.min, o.max, rfl, rfl, by intro g hg; simp at hg; subst hg; exact ⟨L.refl _, L.refl _⟩,
          ⟨o, by simp, rfl⟩, ⟨o, by simp, rfl⟩⟩
      outSep := inv.outSep
      outLater := by intro P hP; have := inv.outLater P hP; rw [hgr] at this; simpa using this
      sorted := by have := inv.sorted; rw [hgr] at this; simpa using this
      wf := by have := inv.wf; rw [hgr] at this; simpa using this }
  | cons g0 gs =>
    have hne : st.group ≠ [] := by rw [hgr]; simp
    obtain ⟨mn, mx, hmn, hmx, hb, ⟨gmn, hgmn, hmneq⟩, ⟨gmx, hgmx, hmxeq⟩⟩ := inv.bounds hne
    by_cases hflush : (klt cfg o.max mn || klt cfg mx o.min) = true
    · -- flush: the group becomes a partition, o starts a new group
      have hstep : slicerStep cfg st o =
          { group := [o], smin := some o.min, smax := some o.max, out := st.out ++ [st.group] } := by
        unfold slicerStep; simp [hgr, hmn, hmx, hflush]
      rw [hstep]
      -- the old group is separated from o and everything after it
      have hsepLater : Sep cfg st.group (o :: rest) := by
        intro g hg x hx
        unfold before
        cases hd : cfg.desc
        · -- ascending: only `mx < o.min` can have fired
          simp only [Bool.false_eq_true, if_false]
          have hcase : klt cfg mx o.min = true := by
            cases h1 : klt cfg o.max mn with
            | false => simpa [h1] using hflush
            | true =>
              exfalso
              have hs := hgo gmn hgmn
              simp only [fromLe, hd, Bool.false_eq_true, if_false] at hs
              rw [hmneq] at h1
              exact klt_irrefl_le cfg _ _ h1 (L.trans _ _ _ hs hwfo)
          have hxo : cfg.kle o.min x.min = true := by
            simp only [List.mem_cons] at hx
            rcases hx with hx | hx
            · subst hx; exact L.refl _
            · have := hsorted_o x hx
              simpa [fromLe, hd] using this
          exact le_lt_le cfg L.toKeyLaws _ _ _ _ (hb g hg).2 hcase hxo
        · simp only [if_true]
          have hcase : klt cfg o.max mn = true := by
            cases h1 : klt cfg mx o.min with
            | false => simpa [h1] using hflush
            | true =>
              exfalso
              have hs := hgo gmx hgmx
              simp only [fromLe, hd, if_true] at hs
              rw [hmxeq] at h1
              exact klt_irrefl_le cfg _ _ h1 (L.trans _ _ _ hwfo hs)
          have hxo : cfg.kle x.max o.max = true := by
            simp only [List.mem_cons] at hx
            rcases hx with hx | hx
            · subst hx; exact L.refl _
            · have := hsorted_o x hx
              simpa [fromLe, hd] using this
          exact le_lt_le cfg L.toKeyLaws _ _ _ _ hxo hcase (hb g hg).1
      exact {
        empty := by intro h; cases h
        bounds := by
          intro _
          exact ⟨o.min, o.max, rfl, rfl, by intro g hg; simp at hg; subst hg; exact ⟨L.refl _, L.refl _⟩,
            ⟨o, by simp, rfl⟩, ⟨o, by simp, rfl⟩⟩
        outSep := by
          rw [List.pairwise_append]
          refine ⟨inv.outSep, by simp, ?_⟩
          intro P hP Q hQ
          simp only [List.mem_singleton] at hQ
          subst hQ
          intro a ha b hb'
          exact inv.outLater P hP a ha b (by simp [hb'])
        outLater := by
          intro P hP
          simp only [List.mem_append, List.mem_singleton] at hP
          rcases hP with hP | hP
          · intro a ha b hb'
            exact inv.outLater P hP a ha b (by
              simp only [List.singleton_append] at hb'
              simp only [List.mem_append]
              exact Or.inr hb')
          · subst hP
            simpa using hsepLater
        sorted := by
          have := (List.pairwise_append.mp inv.sorted).2.1
          simpa using this
        wf := by
          intro x hx
          exact inv.wf x (by simp only [List.mem_append]; exact Or.inr (by simpa using hx)) }
    · -- no flush: o joins the group
      have hflush' : (klt cfg o.max mn || klt cfg mx o.min) = false := by simpa using hflush
      have hstep : slicerStep cfg st o =
          { group := st.group ++ [o],
            smin := some (if klt cfg o.min mn then o.min else mn),
            smax := some (if klt cfg mx o.max then o.max else mx), out := st.out } := by
        unfold slicerStep; simp [hgr, hmn, hmx, hflush']
      rw [hstep]
      have hmin_le : ∀ a b : K, klt cfg a b = false → cfg.kle b a = true := by
        intro a b h
        unfold klt at h
        have ht := L.total a b
        cases hab : cfg.kle a b <;> cases hba : cfg.kle b a <;> simp_all
      exact {
        empty := by intro h; simp at h
        bounds := by
          intro _
          refine ⟨_, _, rfl, rfl, ?_, ?_, ?_⟩
          · intro g hg
            simp only [List.mem_append, List.mem_singleton] at hg
            constructor
            · split
              · rename_i hlt
                have hlt' : cfg.kle o.min mn = true := by
                  unfold klt at hlt; simp only [Bool.and_eq_true] at hlt; exact hlt.1
                rcases hg with hg | hg
                · exact L.trans _ _ _ hlt' (hb g hg).1
                · subst hg; exact L.refl _
              · rename_i hnlt
                rcases hg with hg | hg
                · exact (hb g hg).1
                · subst hg; exact hmin_le _ _ (by simpa using hnlt)
            · split
              · rename_i hlt
                have hlt' : cfg.kle mx o.max = true := by
                  unfold klt at hlt; simp only [Bool.and_eq_true] at hlt; exact hlt.1
                rcases hg with hg | hg
                · exact L.trans _ _ _ (hb g hg).2 hlt'
                · subst hg; exact L.refl _
              · rename_i hnlt
                rcases hg with hg | hg
                · exact (hb g hg).2
                · subst hg; exact hmin_le _ _ (by simpa using hnlt)
          · by_cases hlt : klt cfg o.min mn = true
            · exact ⟨o, by simp, by simp only [hlt, if_true]⟩
            · exact ⟨gmn, by simp [hgmn], by simp only [hlt, if_false]; exact hmneq⟩
          · by_cases hlt : klt cfg mx o.max = true
            · exact ⟨o, by simp, by simp only [hlt, if_true]⟩
            · exact ⟨gmx, by simp [hgmx], by simp only [hlt, if_false]; exact hmxeq⟩
        outSep := inv.outSep
        outLater := by intro P hP; have := inv.outLater P hP; simpa [List.append_assoc] using this
        sorted := by have := inv.sorted; simpa [List.append_assoc] using this
        wf := by have := inv.wf; simpa [List.append_assoc] using this }

theorem slicer_fold_inv (cfg : Cfg K V) (L : KeyTotal cfg) (os : List (Obj K)) (st : SlicerSt K)
    (inv : SlInv cfg st os) : SlInv cfg (os.foldl (slicerStep cfg) st) [] := by
  induction os generalizing st with
  | nil => exact inv
  | cons o os ih => simp only [List.foldl_cons]; exact ih _ (slicerStep_inv cfg L st o os inv)

/-- **the slicer separates**: for objects listed by range start, each with `min ≤ max`, the
    partitions are pairwise separated in pool order -/
theorem slicer_separated (cfg : Cfg K V) (L : KeyTotal cfg) (os : List (Obj K))
    (hs : os.Pairwise (fromLe cfg)) (hwf : ∀ o ∈ os, cfg.kle o.min o.max = true) :
    (slicer cfg os).Pairwise (Sep cfg) := by
  have inv0 : SlInv cfg ({} : SlicerSt K) os :=
    { empty := fun _ => ⟨rfl, rfl⟩, bounds := fun h => absurd rfl h, outSep := by simp,
      outLater := (by intro P hP; cases hP), sorted := (by simpa using hs), wf := (by simpa using hwf) }
  have inv := slicer_fold_inv cfg L os {} inv0
  unfold slicer
  simp only []
  split
  · exact inv.outSep
  · rw [List.pairwise_append]
    refine ⟨inv.outSep, by simp, ?_⟩
    intro P hP Q hQ
    simp only [List.mem_singleton] at hQ
    subst hQ
    have := inv.outLater P hP
    simpa using this


/-! ### the scan is in pool-key order -/

/-- an object whose file holds key-sorted values with keys inside `[min, max]`
    (`object_meta_correct`, `load_object_sorted`, …) -/
def ObjFine (cfg : Cfg K V) (files : List (Nat × List V)) (o : Obj K) : Prop :=
  SortedK cfg (pay files o) ∧ ∀ v ∈ pay files o, cfg.kle o.min (cfg.key v) = true ∧ cfg.kle (cfg.key v) o.max = true

theorem before_kvle (cfg : Cfg K V) (L : KeyLaws cfg) (files : List (Nat × List V)) (o o' : Obj K)
    (hb : before cfg o o') (ho : ObjFine cfg files o) (ho' : ObjFine cfg files o')
    (x y : V) (hx : x ∈ pay files o) (hy : y ∈ pay files o') : kvle cfg x y = true := by
  have bx := ho.2 x hx
  have bY := ho'.2 y hy
  unfold before at hb
  unfold kvle
  cases hd : cfg.desc
  · simp only [hd, Bool.false_eq_true, if_false] at hb ⊢
    have := le_lt_le cfg L _ _ _ _ bx.2 hb bY.1
    unfold klt at this; simp only [Bool.and_eq_true] at this; exact this.1
  · simp only [hd, if_true] at hb ⊢
    have := le_lt_le cfg L _ _ _ _ bY.2 hb bx.1
    unfold klt at this; simp only [Bool.and_eq_true] at this; exact this.1

theorem scanParts_sorted (cfg : Cfg K V) (L : OrderLaws cfg) (files : List (Nat × List V))
    (parts : List (List (Obj K))) (r : List V) (h : scanParts cfg files parts = .ok r)
    (hsep : parts.Pairwise (Sep cfg)) (hobj : ∀ P ∈ parts, ∀ o ∈ P, ObjFine cfg files o) :
    SortedK cfg r := by
  induction parts generalizing r with
  | nil => simp only [scanParts, Except.ok.injEq] at h; subst h; simp [SortedK]
  | cons P ps ih =>
    unfold scanParts at h
    cases hp : payloads files P with
    | error e => simp [hp] at h
    | ok ls =>
      simp only [hp] at h
      cases hr : scanParts cfg files ps with
      | error e => simp [hr] at h
      | ok r' =>
        simp only [hr, Except.ok.injEq] at h
        subst h
        have hls := payloads_ok files P ls hp
        have hps := List.pairwise_cons.mp hsep
        have hsr' := ih r' hr hps.2 (fun Q hQ => hobj Q (by simp [hQ]))
        have hsm : SortedK cfg (mergeK cfg ls) := by
          apply sortedK_mergeK cfg L
          intro l hl
          rw [hls] at hl
          obtain ⟨o, ho, hol⟩ := List.mem_map.mp hl
          rw [← hol]; exact (hobj P (by simp) o ho).1
        unfold SortedK at *
        rw [List.pairwise_append]
        refine ⟨hsm, hsr', ?_⟩
        intro x hx y hy
        -- x comes from an object of P, y from an object of a later partition
        have hx' : x ∈ ls.flatten := (mergeK_perm cfg ls).mem_iff.mp hx
        rw [hls] at hx'
        obtain ⟨l, hl, hxl⟩ := List.mem_flatten.mp hx'
        obtain ⟨o, ho, hol⟩ := List.mem_map.mp hl
        rw [← hol] at hxl
        have hy' := (scanParts_perm cfg files ps r' hr).mem_iff.mp hy
        obtain ⟨o', ho', hyo'⟩ := List.mem_flatMap.mp hy'
        obtain ⟨Q, hQ, ho'Q⟩ := List.mem_flatten.mp ho'
        exact before_kvle cfg L.toKeyLaws files o o' (hps.1 Q hQ o ho o' ho'Q)
          (hobj P (by simp) o ho) (hobj Q (by simp [hQ]) o' ho'Q) x y hxl hyo'

/-- **scan_sorted**: the unfiltered scan of a set of objects is in pool-key order (ascending or
    descending, null / missing keys largest), whatever the number of objects, their overlaps and
    the partitioning — provided the lister hands the objects over ordered by range start (what
    `sort.SliceStable` with `lessFunc` is for; checked on the real `:objects` order by the
    harness), and every object holds key-sorted values within its `[min, max]`. -/
theorem scanObjs_sorted (cfg : Cfg K V) (L : OrderLaws cfg) (T : KeyTotal cfg) (files : List (Nat × List V))
    (objs : List (Obj K)) (r : List V) (h : scanObjs cfg files objs = .ok r)
    (hl : (lister cfg objs).Pairwise (fromLe cfg))
    (hwf : ∀ o ∈ objs, cfg.kle o.min o.max = true) (hobj : ∀ o ∈ objs, ObjFine cfg files o) :
    SortedK cfg r := by
  unfold scanObjs at h
  have hperm := lister_perm cfg objs
  apply scanParts_sorted cfg L files _ r h
  · exact slicer_separated cfg T _ hl (fun o ho => hwf o (hperm.mem_iff.mp ho))
  · intro P hP o ho
    have : o ∈ (slicer cfg (lister cfg objs)).flatten := List.mem_flatten.mpr ⟨P, hP, ho⟩
    rw [slicer_flatten] at this
    exact hobj o (hperm.mem_iff.mp this)


/-! ### the lister order: `sortObjects` really sorts by range start -/

section lex
variable {A : Type} (lt : A → A → Bool)

def eqv (a b : A) : Bool := !lt a b && !lt b a
def lex (a b : A × A) : Bool := lt a.1 b.1 || (eqv lt a.1 b.1 && lt a.2 b.2)

theorem lex_negtrans (nt : ∀ a b c, lt a b = false → lt b c = false → lt a c = false)
    (a b c : A × A) (h1 : lex lt a b = false) (h2 : lex lt b c = false) : lex lt a c = false := by
  unfold lex at *
  simp only [Bool.or_eq_false_iff, Bool.and_eq_false_iff] at h1 h2 ⊢
  obtain ⟨h1a, h1b⟩ := h1
  obtain ⟨h2a, h2b⟩ := h2
  refine ⟨nt _ _ _ h1a h2a, ?_⟩
  cases he : eqv lt a.1 c.1 with
  | false => exact Or.inl rfl
  | true =>
    right
    unfold eqv at he h1b h2b
    simp only [Bool.and_eq_true, Bool.not_eq_true', Bool.and_eq_false_iff, Bool.not_eq_false'] at he h1b h2b
    have hba : lt b.1 a.1 = false := nt _ _ _ h2a he.2
    have hcb : lt c.1 b.1 = false := nt _ _ _ he.2 h1a
    have e1 : lt a.2 b.2 = false := by
      rcases h1b with (h | h) | h
      · rw [h1a] at h; cases h
      · rw [hba] at h; cases h
      · exact h
    have e2 : lt b.2 c.2 = false := by
      rcases h2b with (h | h) | h
      · rw [h2a] at h; cases h
      · rw [hcb] at h; cases h
      · exact h
    exact nt _ _ _ e1 e2

theorem lex_asymm (irr : ∀ a, lt a a = false) (tr : ∀ a b c, lt a b = true → lt b c = true → lt a c = true)
    (a b : A × A) (h1 : lex lt a b = true) : lex lt b a = false := by
  unfold lex at *
  simp only [Bool.or_eq_true, Bool.and_eq_true, Bool.or_eq_false_iff, Bool.and_eq_false_iff] at h1 ⊢
  unfold eqv at *
  rcases h1 with h | ⟨he, h⟩
  · refine ⟨?_, ?_⟩
    · cases hb : lt b.1 a.1 with
      | false => rfl
      | true => have := tr _ _ _ h hb; rw [irr] at this; cases this
    · left; simp [h]
  · simp only [Bool.and_eq_true, Bool.not_eq_true'] at he
    refine ⟨he.2, ?_⟩
    right
    cases hb : lt b.2 a.2 with
    | false => rfl
    | true => have := tr _ _ _ h hb; rw [irr] at this; cases this
end lex

/-- byte equality of keys coincides with equivalence in the key order (true for the int64 /
    string / null keys of the harness; not for numerically equal keys of different types) -/
def KeqLaw (cfg : Cfg K V) : Prop := ∀ a b, cfg.keq a b = (cfg.kle a b && cfg.kle b a)

/-- the strict order `lessFunc` compares range ends with -/
def dlt (cfg : Cfg K V) (x y : K) : Bool := if cfg.desc then klt cfg y x else klt cfg x y

theorem klt_irr (cfg : Cfg K V) (a : K) : klt cfg a a = false := by
  unfold klt; cases cfg.kle a a <;> rfl

theorem klt_trans (cfg : Cfg K V) (L : KeyLaws cfg) (a b c : K) (h1 : klt cfg a b = true) (h2 : klt cfg b c = true) :
    klt cfg a c = true := by
  have h1' : cfg.kle a b = true := by unfold klt at h1; simp only [Bool.and_eq_true] at h1; exact h1.1
  exact le_lt_le cfg L a b c c h1' h2 (L.refl c)

theorem klt_negtrans (cfg : Cfg K V) (T : KeyTotal cfg) (a b c : K) (h1 : klt cfg a b = false) (h2 : klt cfg b c = false) :
    klt cfg a c = false := by
  have tot := T.total
  have hle : ∀ x y, klt cfg x y = false → cfg.kle y x = true := by
    intro x y h
    unfold klt at h
    have := tot x y
    cases hxy : cfg.kle x y <;> cases hyx : cfg.kle y x <;> simp_all
  have hba := hle a b h1
  have hcb := hle b c h2
  have hca := T.trans _ _ _ hcb hba
  unfold klt
  rw [hca]; simp

theorem dlt_laws (cfg : Cfg K V) (T : KeyTotal cfg) :
    (∀ a, dlt cfg a a = false) ∧
    (∀ a b c, dlt cfg a b = true → dlt cfg b c = true → dlt cfg a c = true) ∧
    (∀ a b c, dlt cfg a b = false → dlt cfg b c = false → dlt cfg a c = false) := by
  unfold dlt
  cases cfg.desc
  · simp only [Bool.false_eq_true, if_false]
    exact ⟨klt_irr cfg, klt_trans cfg T.toKeyLaws, klt_negtrans cfg T⟩
  · simp only [if_true]
    exact ⟨klt_irr cfg, fun a b c h1 h2 => klt_trans cfg T.toKeyLaws c b a h2 h1,
      fun a b c h1 h2 => klt_negtrans cfg T c b a h2 h1⟩

def ends (cfg : Cfg K V) (o : Obj K) : K × K :=
  if cfg.desc then (o.max, o.min) else (o.min, o.max)

/-- `lessFunc` is the lexicographic order on (range start, range end) -/
theorem listerLess_lex (cfg : Cfg K V) (T : KeyTotal cfg) (hq : KeqLaw cfg) (a b : Obj K) :
    listerLess cfg a b = lex (dlt cfg) (ends cfg a) (ends cfg b) := by
  have keqv : ∀ x y, cfg.keq x y = eqv (dlt cfg) x y := by
    intro x y
    rw [hq]
    unfold eqv dlt klt
    have := T.total x y
    cases cfg.desc <;> cases hxy : cfg.kle x y <;> cases hyx : cfg.kle y x <;> simp_all
  have hform : listerLess cfg a b =
      (if dlt cfg (ends cfg a).1 (ends cfg b).1 then true
       else if !cfg.keq (ends cfg a).1 (ends cfg b).1 then false
       else if cfg.keq (ends cfg a).2 (ends cfg b).2 then false
       else dlt cfg (ends cfg a).2 (ends cfg b).2) := by
    unfold listerLess ends dlt
    cases cfg.desc <;> simp
  rw [hform, keqv, keqv]
  unfold lex
  have hfact : eqv (dlt cfg) (ends cfg a).2 (ends cfg b).2 = true → dlt cfg (ends cfg a).2 (ends cfg b).2 = false := by
    intro h
    unfold eqv at h
    simp only [Bool.and_eq_true, Bool.not_eq_true'] at h
    exact h.1
  generalize dlt cfg (ends cfg a).1 (ends cfg b).1 = L1 at *
  generalize eqv (dlt cfg) (ends cfg a).1 (ends cfg b).1 = E1 at *
  generalize eqv (dlt cfg) (ends cfg a).2 (ends cfg b).2 = E2 at *
  generalize dlt cfg (ends cfg a).2 (ends cfg b).2 = L2 at *
  cases L1 <;> cases E1 <;> cases E2 <;> cases L2 <;> simp_all

/-- **the lister hands the objects over ordered by range start** -/
theorem lister_fromSorted (cfg : Cfg K V) (T : KeyTotal cfg) (hq : KeqLaw cfg) (objs : List (Obj K)) :
    (lister cfg objs).Pairwise (fromLe cfg) := by
  obtain ⟨irr, tr, nt⟩ := dlt_laws cfg T
  have hle_trans : ∀ a b c : Obj K, (!listerLess cfg b a) = true → (!listerLess cfg c b) = true →
      (!listerLess cfg c a) = true := by
    intro a b c h1 h2
    simp only [Bool.not_eq_true', listerLess_lex cfg T hq] at *
    exact lex_negtrans (dlt cfg) nt _ _ _ h2 h1
  have hle_total : ∀ a b : Obj K, ((!listerLess cfg b a) || (!listerLess cfg a b)) = true := by
    intro a b
    cases h : listerLess cfg b a with
    | false => rfl
    | true =>
      rw [listerLess_lex cfg T hq] at h
      have := lex_asymm (dlt cfg) irr tr _ _ h
      rw [listerLess_lex cfg T hq, this]; rfl
  have hp := List.pairwise_mergeSort (le := fun a b => !listerLess cfg b a)
    (fun a b c => hle_trans a b c) (fun a b => hle_total a b) objs
  unfold lister
  refine hp.imp ?_
  intro x y hxy
  have hxy' : listerLess cfg y x = false := by simpa using hxy
  rw [listerLess_lex cfg T hq] at hxy'
  unfold lex at hxy'
  simp only [Bool.or_eq_false_iff] at hxy'
  have h1 := hxy'.1
  have tot := T.total
  unfold fromLe
  unfold ends dlt at h1
  cases hd : cfg.desc
  · simp only [hd, Bool.false_eq_true, if_false] at h1 ⊢
    unfold klt at h1
    have := tot x.min y.min
    cases hxy : cfg.kle x.min y.min <;> cases hyx : cfg.kle y.min x.min <;> simp_all
  · simp only [hd, if_true] at h1 ⊢
    unfold klt at h1
    have := tot x.max y.max
    cases hxy : cfg.kle x.max y.max <;> cases hyx : cfg.kle y.max x.max <;> simp_all

end Zed.Lake
