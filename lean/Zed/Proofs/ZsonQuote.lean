import Zed.Model.ZsonQuote
/-!
  Lemmas for `quote_roundtrip` (C02): the lexer's string scanner inverts `QuotedString`, and
  the identifier / type-name scanners invert `QuotedName` / `QuotedTypeName`.
  The character classes come from the regenerated tables (`unsafeAscii`, `shortEscapes`):
  `safe_facts` / `short_facts` are re-decided against them on every build.
-/
namespace Zed.Zson.Quote
open Zed.Generated

def shortOK (c : Nat) : Bool :=
  match shortEscape c with
  | some e => decide (e ≠ 117 ∧ (((e = 34 ∨ e = 92) ∧ c = e) ∨
        (e ≠ 34 ∧ e ≠ 92 ∧ e ≠ 47 ∧ e ≠ 39 ∧ simpleEscape e = some c)))
  | none => decide (c < 32 ∧ unhex4 48 48 (hexDigit (c / 16)) (hexDigit (c % 16)) = some c ∧
        hexDigit (c / 16) ≠ 34 ∧ hexDigit (c / 16) ≠ 92 ∧ hexDigit (c % 16) ≠ 34 ∧ hexDigit (c % 16) ≠ 92 ∧
        isSurrogate c = false)

theorem safe_facts : ∀ c : Nat, c < 128 → safeAscii c = true → (32 ≤ c ∧ c ≠ 34 ∧ c ≠ 92 ∧ c ≠ 10) := by decide
theorem short_facts : ∀ c : Nat, c < 128 → safeAscii c = false → shortOK c = true := by decide

/-- the four shapes of `escapeChar c`. -/
inductive EscShape (c : Nat) : List Nat → Prop where
  | plain : c ≠ 34 → c ≠ 92 → 32 ≤ c → (c < 128 → c ≠ 10) → EscShape c [c]
  | quoteLike : (c = 34 ∨ c = 92) → EscShape c [92, c]
  | simple (e : Nat) : e ≠ 117 → e ≠ 34 → e ≠ 92 → e ≠ 47 → e ≠ 39 → simpleEscape e = some c → EscShape c [92, e]
  | uni (h1 h2 : Nat) : unhex4 48 48 h1 h2 = some c → h1 ≠ 34 → h1 ≠ 92 → h2 ≠ 34 → h2 ≠ 92 →
      isSurrogate c = false → EscShape c [92, 117, 48, 48, h1, h2]

theorem escShape (c : Nat) : EscShape c (escapeChar c) := by
  unfold escapeChar
  by_cases h : c < 128
  · simp only [h, if_true]
    cases hs : safeAscii c
    · have := short_facts c h hs
      unfold shortOK at this
      simp only [Bool.false_eq_true, if_false]
      cases he : shortEscape c with
      | none =>
        rw [he] at this
        simp only [decide_eq_true_eq] at this
        obtain ⟨_, h2, h3, h4, h5, h6, h7⟩ := this
        exact .uni _ _ h2 h3 h4 h5 h6 h7
      | some e =>
        rw [he] at this
        simp only [decide_eq_true_eq] at this
        obtain ⟨h1, h3⟩ := this
        rcases h3 with ⟨h3, h4⟩ | ⟨a, b, c', d, e'⟩
        · subst h4; exact .quoteLike h3
        · exact .simple e h1 a b c' d e'
    · have := safe_facts c h hs
      simp only [if_true]
      exact .plain this.2.1 this.2.2.1 this.1 (fun _ => this.2.2.2)
  · simp only [h, if_false]
    have h' : 128 ≤ c := Nat.le_of_not_lt h
    exact .plain (by omega) (by omega) (by omega) (fun h'' => absurd h'' h)

theorem scanToClose_plain (c : Nat) (X : List Nat) (h1 : c ≠ 34) (h2 : c ≠ 92) :
    scanToClose (c :: X) = (scanToClose X).map fun (b, rest) => (c :: b, rest) := by
  rw [scanToClose.eq_def]
  simp [cQuote, cBackslash, h1, h2]

theorem scanToClose_esc (d : Nat) (X : List Nat) :
    scanToClose (92 :: d :: X) = (scanToClose X).map fun (b, rest) => (92 :: d :: b, rest) := by
  rw [scanToClose.eq_def]
  simp [cQuote, cBackslash]

theorem scanToClose_escape (s : List Nat) (rest : List Nat) :
    scanToClose (escape s ++ 34 :: rest) = some (escape s, 34 :: rest) := by
  induction s with
  | nil => rw [scanToClose.eq_def]; simp [escape, cQuote]
  | cons c r ih =>
    simp only [escape, List.append_assoc]
    have hs := escShape c
    generalize escapeChar c = ec at hs ⊢
    cases hs with
    | plain h1 h2 _ _ => simp [scanToClose_plain, h1, h2, ih]
    | quoteLike _ => simp [scanToClose_esc, ih]
    | simple e _ _ _ _ _ _ => simp [scanToClose_esc, ih]
    | uni h1 h2 _ a b c' d _ =>
      simp [scanToClose_esc, scanToClose_plain, a, b, c', d, ih]

theorem parseSlow_escape (whole : List Nat) (s : List Nat) (acc : List Nat) :
    parseSlow whole acc (escape s) = some (acc ++ s) := by
  induction s generalizing acc with
  | nil => simp [escape, parseSlow]
  | cons c r ih =>
    simp only [escape]
    have hs := escShape c
    generalize escapeChar c = ec at hs ⊢
    cases hs with
    | plain h1 h2 h3 _ =>
      have : ¬ c < 32 := by omega
      rw [parseSlow.eq_def]
      simp [cBackslash, cQuote, h1, h2, this, ih]
    | quoteLike h =>
      rcases h with h | h <;> subst h <;> (rw [parseSlow.eq_def]; simp [cBackslash, cQuote, cSlash, cApos, ih])
    | simple e h0 h1 h2 h3 h4 h5 =>
      rw [parseSlow.eq_def]
      simp [cBackslash, cQuote, cSlash, cApos, cU, h0, h1, h2, h3, h4, h5, ih]
    | uni h1 h2 hu a b c' d hs =>
      rw [parseSlow.eq_def]
      simp [cBackslash, cQuote, cSlash, cApos, cU, hu, hs, ih]


theorem scanString_escape (s : List Nat) (acc rest : List Nat) :
    scanString acc (escape s ++ 34 :: rest) = some (acc ++ s, rest) := by
  induction s generalizing acc with
  | nil => rw [scanString.eq_def]; simp [escape, cQuote]
  | cons c r ih =>
    by_cases hc : c ≥ 128
    · -- slow path from here on
      have e1 : escape (c :: r) = c :: escape r := by
        simp [escape, escapeChar, Nat.not_lt.mpr hc]
      have h34 : c ≠ 34 := by omega
      have hA := scanToClose_escape (c :: r) rest
      have hB := parseSlow_escape (c :: escape r) (c :: r) acc
      rw [e1] at hA hB ⊢
      simp only [List.cons_append] at hA ⊢
      rw [scanString.eq_def]
      simp [cQuote, h34, hc, hA, hB]
    · have hlt : c < 128 := Nat.lt_of_not_le hc
      have hs := escShape c
      have e0 : escape (c :: r) = escapeChar c ++ escape r := rfl
      generalize hec : escapeChar c = ec at hs
      cases hs with
      | plain h1 h2 h3 h4 =>
        have h10 := h4 hlt
        rw [e0, hec, scanString.eq_def]
        simp [cQuote, cBackslash, cNewline, h1, h2, hc, h10, ih]
      | quoteLike h =>
        rw [e0, hec]
        rcases h with h | h <;> subst h <;> (rw [scanString.eq_def]; simp [cQuote, cBackslash, cNewline, cU, cSlash, ih])
      | simple e h0 h1 h2 h3 h4 h5 =>
        rw [e0, hec, scanString.eq_def]
        simp [cQuote, cBackslash, cNewline, cU, cSlash, h0, h1, h2, h3, h5, ih]
      | uni h1 h2 hu a b c' d hs =>
        have hA := scanToClose_escape (c :: r) rest
        have hB := parseSlow_escape (escape (c :: r)) (c :: r) acc
        rw [e0, hec] at hA hB ⊢
        simp only [List.cons_append, List.nil_append, scanToClose_esc] at hA
        rw [scanString.eq_def]
        simp only [List.cons_append, List.nil_append] at hB ⊢
        simp [cQuote, cBackslash, cNewline, cU]
        cases hX : scanToClose (48 :: 48 :: h1 :: h2 :: (escape r ++ 34 :: rest)) with
        | none => simp [hX] at hA
        | some p =>
          simp [hX] at hA
          obtain ⟨p1, p2⟩ := p
          simp at hA
          obtain ⟨ha1, ha2⟩ := hA
          subst ha1 ha2
          simp [hB]

theorem unquote_quotedString (s rest : List Nat) :
    unquoteString (quotedString s ++ rest) = some (s, rest) := by
  simp [quotedString, unquoteString, cQuote, scanString_escape]


/-! ### names -/

theorem idChar_ne_quote (L : List Nat) (c : Nat) (h : idChar L c = true) : c ≠ 34 := by
  intro hc; subst hc
  simp [idChar, isLetter, asciiLetter] at h

theorem idChar_typeChar (L : List Nat) (c : Nat) (h : idChar L c = true) : typeChar L c = true := by
  simp [typeChar, h]

theorem spanType_append (L : List Nat) (s rest : List Nat) (hs : s.all (typeChar L) = true)
    (hr : ∀ c, rest.head? = some c → typeChar L c = false) :
    spanType L (s ++ rest) = (s, rest) := by
  induction s with
  | nil =>
    cases rest with
    | nil => simp [spanType]
    | cons c r => simp [spanType, hr c rfl]
  | cons c r ih =>
    simp only [List.all_cons, Bool.and_eq_true] at hs
    simp [spanType, hs.1, ih hs.2]

theorem isIdentifier_all (L : List Nat) (s : List Nat) (h : isIdentifier L s = true) :
    s.all (typeChar L) = true ∧ ∃ c r, s = c :: r ∧ idChar L c = true := by
  cases s with
  | nil => simp [isIdentifier] at h
  | cons c r =>
    simp only [isIdentifier, Bool.and_eq_true, List.all_eq_true] at h
    refine ⟨?_, c, r, rfl, h.1⟩
    simp only [List.all_cons, Bool.and_eq_true, List.all_eq_true]
    refine ⟨idChar_typeChar L c h.1, fun x hx => ?_⟩
    have := h.2 x hx
    simp only [Bool.or_eq_true] at this
    rcases this with h1 | h1
    · exact idChar_typeChar L x h1
    · simp [typeChar, h1]

theorem unquoteName_quotedName (L : List Nat) (s rest : List Nat)
    (hr : ∀ c, rest.head? = some c → typeChar L c = false) :
    unquoteName L (quotedName L s ++ rest) = some (s, rest) := by
  unfold quotedName
  by_cases hi : isIdentifier L s = true
  · obtain ⟨hall, c, r, rfl, hc⟩ := isIdentifier_all L s hi
    have hsp := spanType_append L (c :: r) rest hall hr
    have hq := idChar_ne_quote L c hc
    simp only [hi, if_true]
    simp only [List.cons_append] at hsp ⊢
    simp [unquoteName, cQuote, hq, hc, hsp, hi]
  · simp only [hi]
    simp [unquoteName, quotedString, cQuote, unquoteString, scanString_escape]

/-- what a *bare* type name must satisfy to be read back as a name. -/
def tnameGuard (s : List Nat) : Bool :=
  s != [] && s.head? != some 46 && s != ascii "error" && s != ascii "enum" && !isPrimitiveName s

theorem isTypeName_all (L : List Nat) (s : List Nat) (h : isTypeName L s = true) (hd : s.head? ≠ some 46)
    (hne : s ≠ []) : s.all (typeChar L) = true ∧ ∃ c r, s = c :: r ∧ idChar L c = true := by
  cases s with
  | nil => exact absurd rfl hne
  | cons c r =>
    simp only [isTypeName, Bool.and_eq_true, Bool.not_eq_true'] at h
    refine ⟨by simp [List.all_cons, h.1.1, h.2], c, r, rfl, ?_⟩
    have h1 := h.1.1
    have h2 := h.1.2
    simp only [typeChar, Bool.or_eq_true, h2, Bool.false_eq_true, or_false] at h1
    rcases h1 with h1 | h1
    · exact h1
    · simp at h1; subst h1; simp at hd

theorem unquoteTName_quotedTypeName (L : List Nat) (s rest : List Nat) (hg : tnameGuard s = true)
    (hr : ∀ c, rest.head? = some c → typeChar L c = false) :
    unquoteTName L (quotedTypeName L s ++ rest) = some (s, rest) := by
  simp only [tnameGuard, Bool.and_eq_true, bne_iff_ne, ne_eq, Bool.not_eq_true'] at hg
  obtain ⟨⟨⟨⟨hne, hdot⟩, herr⟩, henum⟩, hprim⟩ := hg
  unfold quotedTypeName
  by_cases hi : isTypeName L s = true
  · obtain ⟨hall, c, r, rfl, hc⟩ := isTypeName_all L s hi hdot hne
    have hsp := spanType_append L (c :: r) rest hall hr
    have hq := idChar_ne_quote L c hc
    simp only [hi, if_true]
    simp only [List.cons_append] at hsp ⊢
    simp [unquoteTName, cQuote, hq, hc, hsp, herr, henum, hprim]
  · simp only [hi]
    simp [unquoteTName, quotedString, cQuote, unquoteString, scanString_escape, herr, henum, hprim]

end Zed.Zson.Quote
