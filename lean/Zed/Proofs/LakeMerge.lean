/-
  What `commits.Diff(parent, child)` computes for two patches over the same base snapshot,
  and what playing the resulting commit object on the parent tip does.  Helper lemmas for C15.
-/
import Zed.Proofs.LakeSim
namespace Zed.Lake
variable {K : Type}

/-- a patch that so far only collected object adds / base deletes -/
structure Plain (p : Patch K) : Prop where
  delVecs : p.delVecs = []
  vecs : p.diff.vecs = []

theorem addObj_diff (p p' : Patch K) (o : Obj K) (h : p.addObj o = .ok p') :
    p.base.exists_ o.id = false ∧ p.diff.hasObj o.id = false ∧
    p' = { p with diff := { p.diff with objs := p.diff.objs ++ [o] } } := by
  unfold Patch.addObj at h
  split at h
  · cases h
  · rename_i hb
    cases hd : p.diff.addObj o with
    | error e => simp [hd] at h
    | ok d =>
      simp only [hd, Except.ok.injEq] at h
      obtain ⟨h1, h2⟩ := addObj_ok _ _ _ hd
      subst h; subst h2
      exact ⟨by simpa using hb, h1, rfl⟩

theorem addObj_of_patch (p : Patch K) (o : Obj K) (hb : p.base.exists_ o.id = false)
    (hd : p.diff.hasObj o.id = false) :
    p.addObj o = .ok { p with diff := { p.diff with objs := p.diff.objs ++ [o] } } := by
  unfold Patch.addObj
  simp [hb, addObj_of _ _ hd]

/-- first loop of `Diff`: every child object that does not "exist" in the parent patch is added -/
theorem diffAdds_spec (pp pc p : Patch K) (hb : p.base = pp.toView) (os : List (Obj K)) (dirty : Bool)
    (hn : ((os.filter (fun o => !pp.exists_ o.id)).map (·.id)).Nodup)
    (hdis : ∀ o ∈ os, pp.exists_ o.id = false → p.diff.hasObj o.id = false)
    (hdel : ∀ o ∈ os, pp.exists_ o.id = false → pc.delObjs.contains o.id = false) :
    ∃ dirty', diffAdds pp pc p dirty os =
      .ok ({ p with diff := { p.diff with objs := p.diff.objs ++ os.filter (fun o => !pp.exists_ o.id) } }, dirty') := by
  induction os generalizing p dirty with
  | nil => exact ⟨dirty, by simp [diffAdds]⟩
  | cons o os ih =>
    unfold diffAdds
    cases he : pp.exists_ o.id with
    | true =>
      simp only [he, Bool.not_true, Bool.false_eq_true, if_false]
      have hf : (o :: os).filter (fun o => !pp.exists_ o.id) = os.filter (fun o => !pp.exists_ o.id) := by
        simp [List.filter_cons, he]
      rw [hf] at hn ⊢
      exact ih p hb dirty hn (fun o' ho' => hdis o' (by simp [ho'])) (fun o' ho' => hdel o' (by simp [ho']))
    | false =>
      have hf : (o :: os).filter (fun o => !pp.exists_ o.id) = o :: os.filter (fun o => !pp.exists_ o.id) := by
        simp [List.filter_cons, he]
      rw [hf] at hn ⊢
      simp only [Bool.not_false, if_true, hdel o (by simp) he, Bool.false_eq_true, if_false]
      have hbe : p.base.exists_ o.id = false := by rw [hb]; exact he
      rw [addObj_of_patch p o hbe (hdis o (by simp) he)]
      simp only []
      have hn' := List.nodup_cons.mp (by simpa only [List.map_cons] using hn)
      obtain ⟨d', h⟩ := ih { p with diff := { p.diff with objs := p.diff.objs ++ [o] } } hb true
        hn'.2
        (by
          intro o' ho' he'
          show (({ p.diff with objs := p.diff.objs ++ [o] } : Snap K)).hasObj o'.id = false
          rw [hasObj_append, hdis o' (by simp [ho']) he']
          have : o.id ≠ o'.id := by
            intro h
            apply hn'.1
            rw [h]
            exact List.mem_map_of_mem (f := fun x : Obj K => x.id) (List.mem_filter.mpr ⟨ho', by simp [he']⟩)
          simpa using this)
        (fun o' ho' => hdel o' (by simp [ho']))
      exact ⟨d', by rw [h]; simp [List.append_assoc]⟩

/-- second loop of `Diff`: every delete of the child patch is re-emitted as long as the object
    "exists" in the parent patch — which, for an object of the common base, it always does -/
theorem diffDels_spec (pp p : Patch K) (hb : p.base = pp.toView) (ids : List Nat) (dirty : Bool)
    (hex : ∀ id ∈ ids, pp.exists_ id = true)
    (hnd : ∀ id ∈ ids, p.diff.hasObj id = false) :
    ∃ dirty', diffDels pp p dirty ids = .ok ({ p with delObjs := p.delObjs ++ ids }, dirty') := by
  induction ids generalizing p dirty with
  | nil => exact ⟨dirty, by simp [diffDels]⟩
  | cons x xs ih =>
    unfold diffDels
    have hx := hex x (by simp)
    have hdx := hnd x (by simp)
    have hbx : p.base.exists_ x = true := by rw [hb]; exact hx
    simp only [hx, if_true]
    have : p.delObj x = .ok { p with delObjs := p.delObjs ++ [x] } := by
      unfold Patch.delObj
      simp [hdx, hbx]
    rw [this]
    simp only []
    obtain ⟨d', h1⟩ := ih { p with delObjs := p.delObjs ++ [x] } hb true
      (fun id hid => hex id (by simp [hid])) (fun id hid => hnd id (by simp [hid]))
    exact ⟨d', by rw [h1]; simp [List.append_assoc]⟩

/-- `Diff(parent, child)` for two patches over the same base `B` -/
theorem diff_spec (B : Snap K) (pp pc d : Patch K) (Sp Sc : Snap K)
    (rp : Rel B pp Sp) (rc : Rel B pc Sc) (h : diff pp pc = .ok d) :
    d.delObjs = pc.delObjs ∧
    d.diff.objs = pc.diff.objs.filter (fun o => !pp.exists_ o.id) ∧
    d.delVecs = [] ∧ d.diff.vecs = [] := by
  unfold diff at h
  have hsel : pc.selectAll = B.objs ++ pc.diff.objs := by
    simp [Patch.selectAll, Patch.toView, View.selectAll, rc.base]
  have hBex : ∀ o ∈ B.objs, pp.exists_ o.id = true := by
    intro o ho
    rw [patch_exists pp B rp.base]
    have : B.hasObj o.id = true := by
      simp only [Snap.hasObj, List.any_eq_true]; exact ⟨o, ho, by simp⟩
    simp [this]
  have hfil : (B.objs ++ pc.diff.objs).filter (fun o => !pp.exists_ o.id)
      = pc.diff.objs.filter (fun o => !pp.exists_ o.id) := by
    rw [List.filter_append]
    have : B.objs.filter (fun o => !pp.exists_ o.id) = [] := by
      rw [List.filter_eq_nil_iff]; intro o ho; simp [hBex o ho]
    rw [this]; rfl
  obtain ⟨d1, h1⟩ := diffAdds_spec pp pc (Patch.new pp.toView) rfl (B.objs ++ pc.diff.objs) false
    (by
      rw [hfil]
      have : (pc.diff.objs.filter (fun o => !pp.exists_ o.id)).map (·.id)
          = (pc.diff.objs.map (·.id)).filter (fun i => !pp.exists_ i) := by
        rw [List.filter_map]; rfl
      rw [this]; exact rc.diffNodup.filter _)
    (by intro o _ _; simp [Patch.new, Snap.hasObj])
    (by
      intro o ho he
      cases hc : pc.delObjs.contains o.id with
      | false => rfl
      | true =>
        have := rc.delIn o.id hc
        rw [patch_exists pp B rp.base, this] at he
        simp at he)
  rw [hsel, h1] at h
  simp only [] at h
  rw [hfil] at h
  obtain ⟨d2, h2⟩ := diffDels_spec pp
    { Patch.new pp.toView with diff := { (Patch.new pp.toView).diff with objs := (Patch.new pp.toView).diff.objs ++ pc.diff.objs.filter (fun o => !pp.exists_ o.id) } }
    rfl pc.delObjs d1
    (by
      intro id hid
      rw [patch_exists pp B rp.base, rc.delIn id (by simpa using hid)]; simp)
    (by
      intro id hid
      show (({ (Patch.new pp.toView).diff with objs := (Patch.new pp.toView).diff.objs ++ pc.diff.objs.filter (fun o => !pp.exists_ o.id) } : Snap K)).hasObj id = false
      rw [hasObj_append]
      have hB := rc.delIn id (by simpa using hid)
      have h0 : (Patch.new pp.toView).diff.hasObj id = false := by simp [Patch.new, Snap.hasObj]
      rw [h0, Bool.false_or]
      cases ha : (pc.diff.objs.filter (fun o => !pp.exists_ o.id)).any (·.id == id) with
      | false => rfl
      | true =>
        obtain ⟨o, ho, hoid⟩ := List.any_eq_true.mp ha
        have hmem := (List.mem_filter.mp ho).1
        have : pc.diff.hasObj id = true := by
          simp only [Snap.hasObj, List.any_eq_true]; exact ⟨o, hmem, hoid⟩
        rw [rc.diffOut id this] at hB; cases hB)
  rw [h2] at h
  simp only [] at h
  split at h
  · cases h
    exact ⟨by simp [Patch.new], by simp [Patch.new], by simp [Patch.new], by simp [Patch.new]⟩
  · cases h

end Zed.Lake
