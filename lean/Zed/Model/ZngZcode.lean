import Zed.Model.ZngUvarint
import Zed.Generated.C01
/-!
  L0 — zcode: tag-length encoding of value bodies (`zcode/bytes.go`, `zcode/iter.go`,
  `zcode/builder.go`).  A body is `none` (Zed null, tag 0) or `some bytes` (tag = len+1),
  so null and the empty body are different encodings.  `toTag`/`tagLength`/`tagNull` are
  the regenerated (T1) expressions of `zcode/bytes.go`.

  `Iter.Next` panics in Go on malformed input; here it is a total function and the panic
  site is an error value.
-/
namespace Zed.Zng
open Zed.Generated.C01 (toTag tagLength tagNull)

/-- `zcode.Append(nil, val)`. -/
def zappend : Option Bytes → Bytes
  | none => uvarint tagNull
  | some b => uvarint (toTag b.length) ++ b

def zappendAll : List (Option Bytes) → Bytes
  | [] => []
  | v :: vs => zappend v ++ zappendAll vs

/-- Builder: a container body is the concatenation of its items; `EndContainer` prefixes
    the tag. -/
def zcontainer (items : List (Option Bytes)) : Bytes := zappendAll items

inductive ZErr where
  | badUvarint   -- Iter.Next: `panic("bad uvarint")`
  | outOfRange   -- Iter.Next: slice bounds out of range
  deriving DecidableEq, Repr

/-- `Iter.Next` on the bytes `bs` (whose `len` is `bs.length`): the body of the next value
    and the remaining iterator, or the panic it raises. -/
def znext (bs : Bytes) : Except ZErr (Option Bytes × Bytes) :=
  match readUvarint bs with
  | .error _ => .error .badUvarint
  | .ok (t, rest) =>
    if t = tagNull then .ok (none, rest)
    else
      let len := asInt (tagLength t)
      -- `end := n + tagLength(u64); val := (*i)[n:end]; *i = (*i)[end:]`
      if len < 0 then .error .outOfRange
      else if !hasLen rest len.toNat then .error .outOfRange
      else .ok (some (rest.take len.toNat), rest.drop len.toNat)

theorem znext_progress (bs : Bytes) (v : Option Bytes) (r : Bytes)
    (h : znext bs = .ok (v, r)) : r.length < bs.length := by
  unfold znext at h
  split at h
  · cases h
  · rename_i t rest heq
    have hp := readUvarint_progress bs t rest heq
    split at h
    · cases h; exact hp
    · simp only at h
      split at h
      · cases h
      · split at h
        · cases h
        · rename_i hl
          cases h
          simp only [Bool.not_eq_true, Bool.not_eq_false'] at hl
          simp; omega

/-- Iterate to the end (`for !it.Done() { it.Next() }`).  Terminates because every `Next`
    consumes at least the tag byte (`znext_progress`). -/
def ziterAll (bs : Bytes) : Except ZErr (List (Option Bytes)) :=
  if bs.isEmpty then .ok []
  else
    match h2 : znext bs with
    | .error e => .error e
    | .ok (v, r) =>
      have : r.length < bs.length := znext_progress bs v r h2
      match ziterAll r with
      | .ok vs => .ok (v :: vs)
      | .error e => .error e
termination_by bs.length

end Zed.Zng
