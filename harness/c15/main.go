package main

// C15 — merge and revert have exact, conflict-safe semantics.
//
// Sub-checks (through lakeh.RunPlan):
//   oracle (S)           branch topologies (main + up to 3 branches created at any commit, incl.
//                        from an empty main, nested), loads / deletes / delete-where / compactions
//                        on every side incl. both sides deleting or compacting the same objects,
//                        merges in both directions and repeated, reverts of any earlier commit
//                        (merge, compact, revert commits, commits of other branches, unknown ids).
//                        After every step on the real lake: a successful merge leaves
//                        parent' = parent ∪ childAdded \ childDeleted (object sets observed at the
//                        common ancestor / tips, ancestor from the harness's own commit graph), a
//                        failed merge / revert leaves every branch untouched, a revert leaves
//                        (tip \ added(c)) ∪ deleted(c), reverting the revert restores the prior
//                        object set, every branch stays readable, contents = values of the
//                        expected objects.
//   correspondence (T2)  the same history through the Lean model (Patch / Diff / Revert exactly
//                        as coded): result class, tips, object sets, contents per step.

import (
	"verifharness/hlib"
	"verifharness/lakeh"
)

func main() { hlib.Main("C15", run) }

func run(c *hlib.Ctx) {
	c.Rule("history = pool config + value alphabet + 2..16 operations drawn step by step from {load, delete, delete-where, compact, " +
		"branch create at any commit (incl. empty main), merge both ways / repeated / self, revert of any commit incl. the last revert, " +
		"dead or unknown ids} over up to 4 branches; guarded histories avoid merges predicted to hit the known common-delete defect so " +
		"that long merge/revert chains are explored, open histories do not; distinct = distinct (config, operation sequence)")
	w := map[string]int{"load": 20, "delete": 12, "delwhere": 5, "compact": 10, "branch": 9, "merge": 26, "revert": 16, "badid": 2}
	guarded := lakeh.Profile{Name: "c15-guarded", W: w, MaxOps: 16, Guarded: true, Plain: true}
	open := lakeh.Profile{Name: "c15-open", W: w, MaxOps: 12, Plain: true}
	if c.Want("witness") {
		lakeh.RunWitnesses(c, "C15", lakeh.Options{Prop: "C15", StopOnFail: true})
	}
	if c.Want("races") && c.Replay == nil {
		lakeh.RunRaces(c, 80)
	}
	if c.Want("exhaustive") {
		lakeh.RunExhaustive(c, lakeh.Options{Prop: "C15", StopOnFail: true}, []string{"La", "Lb", "B"},
			[]string{"Lc", "La", "D1", "Dc", "C", "M", "Mr", "R"}, c.N(2, 3))
	}
	if !c.Want("histories") {
		return
	}
	lakeh.RunPlan(c, lakeh.Plan{
		Opt:      lakeh.Options{Prop: "C15", StopOnFail: true, ColdOps: true, PruneSnaps: true},
		Profiles: []lakeh.Profile{guarded, open},
		Quick:    50, Thorough: 1500,
	})
}
