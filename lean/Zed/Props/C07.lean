/-
  C07 — the optimizer preserves program meaning.  Property theorems only.

  The rewrites are the functions of `Zed.Model.OptRewrites` (tied to the Go optimizer by the
  structural correspondence: model `optimize before` = real `after`, and by the regenerated
  classification tables `Zed.Generated.C07`); the meaning of a DAG is `semSeq` of
  `Zed.Model.OptSem`.  "Same sequence where the program defines an order, same multiset
  elsewhere" appears as: equality of `semSeq` for rewrites that do not touch a fan-in;
  `List.Perm` (+ sortedness of both sides) for what reaches the operator after a fan-in; and,
  for `head`/`tail` (whose result after a combine is a *choice*), refinement: every result of
  the optimized plan is a result of the original plan under some schedule.
-/
import Zed.Proofs.OptLemmas
import Zed.Proofs.OptLift
namespace Zed.Props.C07
open Zed.Opt Zed.Generated.C07

variable {V : Type}

/-! ## mergeFilters -/

/-- Full statement: `∀ I S s ins, semSeq I S (mergeFilters s) ins = semSeq I S s ins`.
    It is false of the current code (see `not_mergeFilters_sound`): when the first predicate
    evaluates to an error value the merged filter emits it while the sequence passes it through
    the second filter.  Proved under `Total I` (no predicate yields an emitted error value), for
    every DAG (filters are merged inside fork/scatter/mirror/scope/over bodies as well), every
    interpretation of atoms and operators, every scheduler.  The combiner is read from the
    regenerated table: with anything but "and" the proof does not go through. -/
theorem mergeFilters_sound_partial (I : Interp V) (S : Sched V) (hT : Total I) (s : Seq)
    (ins : List (List V)) : semSeq I S (mergeFilters s) ins = semSeq I S s ins :=
  walk_sound I S true mergeFiltersSeq (semSeq_mergeFiltersSeq I S hT (by decide)) s ins

/-- the pair law behind it: `where a | where b` = `where a <combiner> b`. -/
theorem mergeFilters_pair_sound_partial (I : Interp V) (hT : Total I) (a b : Expr) (xs : List V) :
    filterSem I (.bin mergeFiltersCombiner a b) xs = filterSem I b (filterSem I a xs) := by
  have : mergeFiltersCombiner = "and" := by decide
  rw [this]; exact filterSem_and I hT a b xs

/-- witness interpretation: the atom `A` evaluates to the error value 99 on 1, `B` is false on
    99, nothing is quiet. -/
def witI : Interp Nat where
  atom e v := match e with
    | .lit "A" => if v == 1 then .err 99 else .tt
    | .lit "B" => if v == 99 then .ff else .tt
    | _ => .tt
  quiet _ := false
  perValue _ v := [v]
  cmp _ _ a b := compare a b
  opq _ xs := xs
  source _ := [1]
  multi _ ls := ls.flatten
  over _ _ xs := xs

def witS : Sched Nat where
  comb ls := ls.flatten
  comb_single l := by simp
  comb_perm ls := List.Perm.refl _
  split _ xs := [xs]

theorem not_mergeFilters_sound :
    semSeq witI witS (mergeFilters (.cons (.filter (.lit "A")) (.cons (.filter (.lit "B")) .nil))) [[1]] ≠
    semSeq witI witS (.cons (.filter (.lit "A")) (.cons (.filter (.lit "B")) .nil)) [[1]] := by
  decide

/-- `Total` is satisfiable (non-vacuity of the `_partial` theorems). -/
def totI : Interp Nat := { witI with atom := fun _ v => if v % 2 == 0 then .tt else .ff }

example : Total totI := total_of_atom totI (by intro e v w; simp only [totI]; split <;> simp)

/-! ## removePassOps -/

/-- Full statement: `semSeq (removePassSeq s) = semSeq s` for every sequence.  It is false
    (`not_removePass_sound`): a `pass` has one output, so removing it in front of an operator that
    reads its parents *separately* (merge, join, a scope) or at the end of a fork branch changes
    the number of legs — the same effect that makes a join see too many parents after a lifted
    operator was replaced by `pass` (recorded defect C07:lift:join-parents).  Proved for sequences
    in which every `pass` is followed by an operator that reads the combine of its parents
    (`passOK`, decidable). -/
theorem removePass_sound_partial (I : Interp V) (S : Sched V) (s : Seq) (h : passOK s = true)
    (hne : dropPass s ≠ .nil) (ins : List (List V)) :
    semSeq I S (removePassSeq s) ins = semSeq I S s ins := by
  unfold removePassSeq
  split
  · rename_i heq; exact absurd heq hne
  · exact semSeq_dropPass I S s h ins

example : passOK (.cons .pass (.cons (.head 1) .nil)) = true ∧
    dropPass (.cons .pass (.cons (.head 1) .nil)) ≠ .nil := by simp [passOK, faninSensitive, dropPass]

/-- a sequence of passes only is replaced by one pass. -/
theorem removePass_allpass_sound (I : Interp V) (S : Sched V) (ins : List (List V)) :
    semSeq I S (removePassSeq (.cons .pass (.cons .pass .nil))) ins =
    semSeq I S (.cons .pass (.cons .pass .nil)) ins := by
  simp [removePassSeq, dropPass, semSeq, semOp, leafSem, S.comb_single,
    show removePassEmptySeq = "pass" by decide]

/-- witness: `fork (=> pass => pass) | pass | merge this` over [1,2]: with the pass the merge has one
    (unsorted) parent, without it two. -/
theorem not_removePass_sound :
    let s : Seq := .cons (.fork (.cons (.cons .pass .nil) (.cons (.cons .pass .nil) .nil)))
      (.cons .pass (.cons (.merge (.this []) false) .nil))
    semSeq witI witS (removePassSeq s) [[1, 2]] ≠ semSeq witI witS s [[1, 2]] := by
  simp [removePassSeq, dropPass, semSeq, semOp, semPaths, leafSem, mergeLegs, List.merge, witI, witS, leOf, mergeCmp]
  decide

/-! ## push-down of the leading filter into the scan -/

/-- Full statement: a scan with pushed-down filter `f` delivers what the scan followed by the
    filter operator delivers.  False of the current code (`not_pushdown_sound`, recorded defect
    C07:pushdown:filter-error-value): the scanner keeps a value only when `f` is Bool true, the
    operator also emits error values.  Proved under `Total I`. -/
theorem pushdown_sound_partial (I : Interp V) (S : Sched V) (hT : Total I) (f : Expr) (hf : f ≠ .none)
    (sk : SortKeys) (chain : Seq) (ins : List (List V)) :
    semSeq I S (.cons (.defaultScan f sk) chain) ins =
    semSeq I S (.cons (.defaultScan .none sk) (.cons (.filter f) chain)) ins := by
  simp only [semSeq, semOp, leafSem, S.comb_single]
  rw [filterSem_eq_keepTrue I hT]

/-- `sourcePathPost` produces exactly that shape for a default scan. -/
theorem sourcePathPost_defaultScan (pools : Pools) (sk : SortKeys) (f : Expr) (chain : Seq)
    (hprop : (propagateSortKey pools (.cons (.defaultScan .none sk) (.cons (.filter f) chain)) [[]]).1
      = .cons (.defaultScan .none sk) (.cons (.filter f) chain)) :
    sourcePathPost pools (.cons (.defaultScan .none sk) (.cons (.filter f) chain)) =
      some (.cons (.defaultScan f sk) chain) := by
  simp [sourcePathPost, hprop, matchFilter, lookupTag, sourceOps, Op.kind]

theorem not_pushdown_sound :
    semSeq witI witS (.cons (.defaultScan (.lit "A") []) .nil) [] ≠
    semSeq witI witS (.cons (.defaultScan .none []) (.cons (.filter (.lit "A")) .nil)) [] := by
  decide

/-! ## lifting into parallel legs (liftIntoParPaths)

    `legs` are the outputs of the parallel paths; `p` is what the fan-in of the original plan
    delivers (any rearrangement of the legs), `q` what the fan-in of the rewritten plan
    delivers. -/

/-- an operator appended to a path: `paths[k].Append(op)`. -/
theorem semSeq_append (I : Interp V) (S : Sched V) : ∀ (s t : Seq) (ins : List (List V)),
    semSeq I S (s.append t) ins = semSeq I S t (semSeq I S s ins)
  | .nil, _, _ => rfl
  | .cons o r, t, ins => by simp only [Seq.append, semSeq]; exact semSeq_append I S r t _

/-- cut / drop / put / rename / yield below a combine (no merge): same multiset.  The per-value
    function is arbitrary but must be a *function of the value*: an expression calling an
    aggregate function is not (recorded defect C07:lift:stateful-expr). -/
theorem lift_pervalue_sound (I : Interp V) (op : Op) (legs : List (List V)) (p q : List V)
    (hp : p.Perm legs.flatten) (hq : q.Perm (legs.map fun l => l.flatMap (I.perValue op)).flatten) :
    (p.flatMap (I.perValue op)).Perm q :=
  flatMap_legs_perm _ legs p q hp hq

/-- a filter below a combine: same multiset (also when it emits error values). -/
theorem lift_filter_sound (I : Interp V) (e : Expr) (legs : List (List V)) (p q : List V)
    (hp : p.Perm legs.flatten) (hq : q.Perm (legs.map (filterSem I e)).flatten) :
    (filterSem I e p).Perm q :=
  flatMap_legs_perm (filterOut I e) legs p q hp hq

/-- `head n` is copied into the legs *and kept*: every result of the rewritten plan is a result
    of the original plan for some rearrangement of the legs.  (Without the final head the sizes
    differ: `lift_head_needs_final_head`.) -/
theorem lift_head_sound (n : Nat) (legs : List (List V)) (q : List V)
    (hq : q.Perm (legs.map (List.take (limitOf n))).flatten) :
    ∃ p : List V, p.Perm legs.flatten ∧ p.take (limitOf n) = q.take (limitOf n) :=
  head_legs_refines (limitOf n) legs q hq

theorem lift_head_needs_final_head :
    ∃ (legs : List (List Nat)) (q : List Nat), q.Perm (legs.map (List.take 1)).flatten ∧
      ∀ p : List Nat, p.Perm legs.flatten → p.take 1 ≠ q :=
  ⟨[[1], [2]], [1, 2], by decide, by intro p hp h; have := congrArg List.length h; simp at this; omega⟩

theorem lift_tail_sound (n : Nat) (legs : List (List V)) (q : List V)
    (hq : q.Perm (legs.map (lastN (limitOf n))).flatten) :
    ∃ p : List V, p.Perm legs.flatten ∧ lastN (limitOf n) p = lastN (limitOf n) q :=
  tail_legs_refines (limitOf n) legs q hq

/-- the comparator of a single-key ascending `sort k` without flags is the merge comparator of
    `Merge{k, asc}`. -/
theorem sortCmp_eq_mergeCmp (I : Interp V) (a : SortArg) (h : a.desc = false) :
    sortCmp I [a] false false = mergeCmp I a.key a.desc := by
  funext x y
  simp [sortCmp, sortCmp.go, mergeCmp, h]
  cases I.cmp true a.key x y <;> rfl

/-- A plain (flag-free, ascending) single-key `sort` below a fan-in may be copied into the legs
    and replaced by `Merge{key, asc}`: both plans emit the same multiset in sort order.  This is
    the only sort `liftCase` lifts (`liftCase_sort_plain`, since 8f641a47c); for `-r`,
    `-nulls first` or a descending key the merge would compare differently from the sort
    (`lift_sort_reverse_would_be_unsound`). -/
theorem lift_sort_sound (I : Interp V) (a : SortArg) (hd : a.desc = false)
    (hc : LawfulCmp (mergeCmp I a.key a.desc)) (legs : List (List V)) (p : List V)
    (hp : p.Perm legs.flatten) :
    let orig := sortSem I [a] false false p
    let opt := mergeLegs (leOf (mergeCmp I a.key a.desc)) (legs.map (sortSem I [a] false false))
    orig.Perm opt ∧ SortedBy (sortCmp I [a] false false) orig ∧ SortedBy (sortCmp I [a] false false) opt := by
  have hs : sortSem I [a] false false = fun l => l.mergeSort (leOf (mergeCmp I a.key a.desc)) := by
    funext l; simp only [sortSem, sortCmp_eq_mergeCmp I a hd]
  simp only [hs, sortCmp_eq_mergeCmp I a hd]
  exact sort_legs_sound hc legs p hp

/-- the rewrite lifts a sort only when it is plain: the hypotheses of `lift_sort_sound` are what
    the code checks. -/
theorem liftCase_sort_plain (pools : Pools) (par : Op) (ps : Seqs) (f : Option Op) (a : SortArg)
    (nf rev : Bool) (l : Lifted) (h : liftCase pools par ps f (.sort [a] nf rev) = some l) :
    a.desc = false ∧ nf = false ∧ rev = false := by
  simp only [liftCase, lookupTag, liftOps, Op.kind] at h
  simp (config := {decide := true}) only [List.find?] at h
  cases hr : rev <;> cases hn : nf <;> cases hd : a.desc <;> simp_all

/-- `liftCase` rewrites exactly the shapes these lemmas speak about (over the regenerated
    `liftOps` table). -/
theorem liftCase_filter_shape (pools : Pools) (ps : Seqs) (e : Expr) :
    (liftCase pools (.fork ps) ps Option.none (.filter e)).map (fun l => (l.par, l.op)) =
      some (.fork (ps.appendEach (.filter e)), .pass) := by
  simp [liftCase, lookupTag, liftOps, Op.kind, withPaths]

theorem liftCase_head_shape (pools : Pools) (ps : Seqs) (n : Nat) (f : Option Op) :
    (liftCase pools (.fork ps) ps f (.head n)).map (fun l => (l.par, l.op)) =
      some (.fork (ps.appendEach (.head n)), .head n) := by
  simp [liftCase, lookupTag, liftOps, Op.kind, withPaths]

theorem liftCase_sort_shape (pools : Pools) (ps : Seqs) (a : SortArg) (hd : a.desc = false) :
    (liftCase pools (.fork ps) ps Option.none (.sort [a] false false)).map (fun l => (l.par, l.op)) =
      some (.fork (ps.appendEach (.sort [a] false false)), .merge a.key a.desc) := by
  simp [liftCase, lookupTag, liftOps, Op.kind, withPaths, hd]

/-- why: for `-r`, legs [3,1] and [2] are sorted descending; merged ascending they give 2,3,1. -/
theorem lift_sort_reverse_would_be_unsound :
    let a : SortArg := ⟨.this ["k"], false⟩
    ¬ SortedBy (sortCmp witI [a] false true)
      (mergeLegs (leOf (mergeCmp witI a.key a.desc)) [[3, 1], [2]]) := by
  simp [SortedBy, mergeLegs, List.merge, leOf, mergeCmp, witI, sortCmp, sortCmp.go]
  decide

/-! ## sort-key analysis over the regenerated tables -/

/-- the order a source declared sorted by `k` delivers, and the order `Merge{k}` produces. -/
def keyCmp (I : Interp V) (k : SortKey) : V → V → Ordering := mergeCmp I (.this k.key) k.desc

/-- What the optimizer assumes of the operators it does not look into. -/
structure FrameLaws (I : Interp V) : Prop where
  /-- `uniq` and `fuse` emit their input order (a sub-sequence resp. a reshaping that does not
      change how keys compare). -/
  keep : ∀ (op : Op), (op.kind = "Uniq" ∨ op.kind = "Fuse") → ∀ (c : V → V → Ordering) (xs : List V),
    SortedBy c xs → SortedBy c (I.opq op xs)
  /-- a per-value operator the analysis maps key `k` to key `k'` for compares outputs by `k'`
      as it compared inputs by `k`. -/
  frame : ∀ (pools : Pools) (op : Op) (k k' : SortKey) (r r' : SortKeys),
    (op.kind = "Cut" ∨ op.kind = "Drop" ∨ op.kind = "Put" ∨ op.kind = "Rename") →
    analyzeSortKeys pools op (k :: r) = .ok (k' :: r') →
    ∀ v w v' w', v' ∈ I.perValue op v → w' ∈ I.perValue op w → keyCmp I k' v' w' = keyCmp I k v w
  /-- a per-value operator emits at most one value per input. -/
  single : ∀ (op : Op) (v : V), (I.perValue op v).length ≤ 1

theorem sortedBy_sublist {c : V → V → Ordering} {xs ys : List V} (h : xs.Sublist ys)
    (hs : SortedBy c ys) : SortedBy c xs := List.Pairwise.sublist h hs

/-- every operator kind the regenerated table classifies as order-preserving ("keep")
    preserves any order — for a new kind added to that list in the Go source there is no case
    below, and the proof fails. -/
theorem sortkey_keep_sound (I : Interp V) (hT : Total I) (hL : FrameLaws I) (op : Op)
    (hX : ∀ k j, op ≠ .X k j) (hk : (op.kind, "keep") ∈ analyzeOps)
    (c : V → V → Ordering) (xs : List V) (hs : SortedBy c xs) : SortedBy c (leafSem I op xs) := by
  simp only [analyzeOps, List.mem_cons, Prod.mk.injEq, List.mem_nil_iff, or_false] at hk
  cases op
  all_goals simp [Op.kind] at hk
  case filter e =>
    simp only [leafSem]; rw [filterSem_eq_keepTrue I hT]
    exact sortedBy_sublist (keepTrue_sublist I e xs) hs
  case pass => simpa [leafSem] using hs
  case output n => simpa [leafSem] using hs
  case head n => exact sortedBy_sublist (List.take_sublist _ _) hs
  case tail n => exact sortedBy_sublist (List.drop_sublist _ _) hs
  case uniq c' => exact hL.keep (.uniq c') (Or.inl rfl) c xs hs
  case fuse => exact hL.keep .fuse (Or.inr rfl) c xs hs
  case X k j => exact absurd rfl (hX k j)

theorem pairwise_flatMap_frame {R R' : V → V → Prop} (f : V → List V) (xs : List V)
    (hs : xs.Pairwise R) (hsingle : ∀ v, (f v).length ≤ 1)
    (hframe : ∀ v w v' w', v' ∈ f v → w' ∈ f w → R v w → R' v' w') : (xs.flatMap f).Pairwise R' := by
  induction xs with
  | nil => simp
  | cons v xs ih =>
    rw [List.pairwise_cons] at hs
    simp only [List.flatMap_cons, List.pairwise_append]
    refine ⟨?_, ih hs.2, ?_⟩
    · have := hsingle v
      match hfv : f v with
      | [] => simp
      | [a] => simp
      | a :: b :: r => rw [hfv] at this; simp at this
    · intro a ha b hb
      rw [List.mem_flatMap] at hb
      obtain ⟨w, hw, hbw⟩ := hb
      exact hframe v w a b ha hbw (hs.1 w hw)

/-- cut / drop / put / rename: when the analysis maps key `k` to `k'`, an input sorted by `k`
    gives an output sorted by `k'` — under the frame assumption on the per-value operators
    (`FrameLaws.frame`), which is what the analysis presumes of them. -/
theorem sortkey_frame_sound (I : Interp V) (hL : FrameLaws I) (pools : Pools) (op : Op)
    (hop : op.kind = "Cut" ∨ op.kind = "Drop" ∨ op.kind = "Put" ∨ op.kind = "Rename")
    (k k' : SortKey) (r r' : SortKeys) (ha : analyzeSortKeys pools op (k :: r) = .ok (k' :: r'))
    (xs : List V) (hs : SortedBy (keyCmp I k) xs) :
    SortedBy (keyCmp I k') (xs.flatMap (I.perValue op)) := by
  apply pairwise_flatMap_frame (I.perValue op) xs hs (hL.single op)
  intro v w v' w' hv hw hR
  rw [hL.frame pools op k k' r r' hop ha v w v' w' hv hw]; exact hR

/-- the direction and null placement under which the output of `sort` is in the order the
    analysis reports for it (the order a `Merge` on that key produces). -/
def sortFlagsOK (a : SortArg) (nf rev : Bool) : Bool :=
  let d := if rev then !a.desc else a.desc
  (!d && !nf) || (d && nf)

/-- Full statement: the output of a single-key `sort` is in the order `sortKeysOfSort` reports
    (`analyzeSortKeys` for a Sort), i.e. the order of `Merge{key, order}` and of a source declared
    with that key.  False for a descending effective order without `-nulls first` and for an
    ascending one with it (`not_sortkey_sort_sound`): the sort operator places nulls last in both
    directions, the scan/merge order places them first when descending.  This was the root of the
    lift:sort-* defects (fixed by 8f641a47c: such a sort is no longer lifted into legs that a merge
    on the reported order joins); the analysis itself still reports that order.  Proved under
    `sortFlagsOK`. -/
theorem sortkey_sort_sound_partial (I : Interp V) (p : Path) (dsc nf rev : Bool)
    (hflags : sortFlagsOK ⟨.this p, dsc⟩ nf rev = true)
    (k : SortKey) (hk : sortKeysOfSort [⟨.this p, dsc⟩] rev = [k])
    (hc : LawfulCmp (keyCmp I k)) (xs : List V) :
    SortedBy (keyCmp I k) (sortSem I [⟨.this p, dsc⟩] nf rev xs) := by
  have hcmp : sortCmp I [⟨.this p, dsc⟩] nf rev = keyCmp I k := by
    funext x y
    simp only [sortKeysOfSort, sortKeyOfExpr, fieldOf] at hk
    split at hk
    · simp at hk
    · simp only [List.cons.injEq, and_true] at hk
      subst hk
      simp only [sortFlagsOK] at hflags
      cases rev <;> cases dsc <;> cases nf <;> simp_all [sortCmp, sortCmp.go, keyCmp, mergeCmp]
      all_goals
        rename_i heq
        obtain ⟨_, rfl⟩ := heq
        simp only [Bool.false_eq_true, if_false, if_true]
        split <;> simp_all
  unfold sortSem
  rw [hcmp]
  exact mergeSort_sorted hc xs

example : sortFlagsOK ⟨.this ["k"], false⟩ false false = true := by decide

/-- values are optional numbers; null is the greatest or the least value as `nullsMax` says. -/
def nullI : Interp (Option Nat) where
  atom _ _ := .tt
  quiet _ := false
  perValue _ v := [v]
  cmp nullsMax _ a b := match a, b with
    | none, none => .eq
    | none, some _ => if nullsMax then .gt else .lt
    | some _, none => if nullsMax then .lt else .gt
    | some x, some y => compare x y
  opq _ xs := xs
  source _ := []
  multi _ ls := ls.flatten
  over _ _ xs := xs

/-- witness: `sort k desc` over [1, null] emits 1, null; the order the analysis reports
    (`k desc` as a merge/scan order) wants null first. -/
theorem not_sortkey_sort_sound :
    sortKeysOfSort [⟨.this ["k"], true⟩] false = [⟨true, ["k"]⟩] ∧
    ¬ SortedBy (keyCmp nullI ⟨true, ["k"]⟩) (sortSem nullI [⟨.this ["k"], true⟩] false false [some 1, none]) := by
  refine ⟨by decide, ?_⟩
  have : sortSem nullI [⟨.this ["k"], true⟩] false false [some 1, none] = [some 1, none] := by
    unfold sortSem
    apply List.mergeSort_of_pairwise
    simp [leOf, sortCmp, sortCmp.go, nullI]
  rw [this]
  simp [SortedBy, keyCmp, mergeCmp, nullI]

/-- The sort-key analysis as a whole, over every operator kind of the regenerated tables that
    has a list semantics in the model: if `analyzeSortKeys op in = out` with known `in`/`out`, an
    input in the order `in` gives an output in the order `out`. -/
theorem sortkey_analysis_sound_partial (I : Interp V) (hT : Total I) (hL : FrameLaws I) (pools : Pools)
    (op : Op) (hX : ∀ k j, op ≠ .X k j)
    (hkind : (op.kind, "keep") ∈ analyzeOps ∨ op.kind = "Cut" ∨ op.kind = "Drop" ∨ op.kind = "Put" ∨ op.kind = "Rename")
    (k k' : SortKey) (r r' : SortKeys) (ha : analyzeSortKeys pools op (k :: r) = .ok (k' :: r'))
    (xs : List V) (hs : SortedBy (keyCmp I k) xs) : SortedBy (keyCmp I k') (leafSem I op xs) := by
  rcases hkind with hkeep | hframe
  · have hk : k' = k := by
      have hk2 := hkeep
      simp only [analyzeOps, List.mem_cons, Prod.mk.injEq, List.mem_nil_iff, or_false] at hk2
      cases op <;> simp [Op.kind] at hk2 <;>
        simp_all [analyzeSortKeys, lookupTag, analyzeOps, analyzeInputIndependentOps,
          analyzeInputIndependentOpsDefault, Op.kind]
    rw [hk]
    exact sortkey_keep_sound I hT hL op hX hkeep _ xs hs
  · have := sortkey_frame_sound I hL pools op hframe k k' r r' ha xs hs
    cases op <;> simp [Op.kind] at hframe
    case X kk j => exact absurd rfl (hX kk j)
    all_goals simpa [leafSem] using this

/-! ## sort-key propagation into joins (LeftDir / RightDir) -/

/-- a side the optimizer declares sorted (direction `d ≠ 0`) is sorted the way the join's own sort
    of that side would leave it. -/
def DeclaredSorted (I : Interp V) (key : Expr) (d : Int) (xs : List V) : Prop :=
  d ≠ 0 → SortedBy (joinSortCmp I key (decide (d < 0))) xs

theorem joinSide_sorted (I : Interp V) (key : Expr) (d : Int) (o : Desc) (xs : List V)
    (h : DeclaredSorted I key d xs) :
    joinSide I key d o xs = xs.mergeSort (leOf (joinSortCmp I key o)) := by
  unfold joinSide
  split
  · rename_i ho
    have hd : d ≠ 0 ∧ decide (d < 0) = o := by
      simp only [hasOrder, Bool.or_eq_true, Bool.and_eq_true, decide_eq_true_eq, Bool.not_eq_true'] at ho
      rcases ho with ⟨h1, h2⟩ | ⟨h1, h2⟩
      · exact ⟨by omega, by simp [h2]; omega⟩
      · exact ⟨by omega, by simp [h2, h1]⟩
    have hs := h hd.1
    rw [hd.2] at hs
    symm
    apply List.mergeSort_of_pairwise
    simpa [SortedBy, leOf] using hs
  · rfl

/-- Skipping the join's sort of a side that is declared sorted does not change what the merge
    join reads: for every style — including `right`, where the kernel swaps parents, keys *and*
    directions (each swap is read from the regenerated `case "right":` clause, so a missing swap
    makes this proof fail) — the join computes what it computes when it sorts both sides itself in
    the common order.  The hypotheses speak about the *DAG's* left and right inputs, which is what
    `propagateSortKeyOp` establishes (`LeftDir` from the left parent's order, `RightDir` from the
    right parent's).  For a descending declared *source* order with null keys the hypothesis is
    not what the source delivers (`not_sortkey_sort_sound`): recorded finding
    C07:join:declared-desc-nulls. -/
theorem join_skipped_sort_sound (I : Interp V) (J : Desc → List V → List V → List V) (style : String)
    (L R : List V) (lk rk : Expr) (ld rd : Int)
    (hL : DeclaredSorted I lk ld L) (hR : DeclaredSorted I rk rd R) :
    kernelJoin I J style L R lk rk ld rd =
      (let a := kernelJoinArgs style L R lk rk ld rd
       let o := joinOrder a.ldir a.rdir
       J o (a.left.mergeSort (leOf (joinSortCmp I a.lkey o))) (a.right.mergeSort (leOf (joinSortCmp I a.rkey o)))) := by
  unfold kernelJoin joinNew
  by_cases hs : (style == "right") = true
  · have e : kernelJoinArgs style L R lk rk ld rd =
        ({ left := R, right := L, lkey := rk, rkey := lk, ldir := rd, rdir := ld } : JoinArgs V) := by
      simp only [kernelJoinArgs, hs, if_true]
      simp (config := {decide := true}) only [if_true]
    simp only [e]
    rw [joinSide_sorted I rk rd _ R hR, joinSide_sorted I lk ld _ L hL]
  · have e : kernelJoinArgs style L R lk rk ld rd =
        ({ left := L, right := R, lkey := lk, rkey := rk, ldir := ld, rdir := rd } : JoinArgs V) := by
      simp only [kernelJoinArgs, hs]; rfl
    simp only [e]
    rw [joinSide_sorted I lk ld _ L hL, joinSide_sorted I rk rd _ R hR]

/-- non-vacuity: a sorted left side declared ascending, an undeclared right side. -/
example : DeclaredSorted witI (.this ["a"]) 1 [1, 2, 3] ∧ DeclaredSorted witI (.this ["b"]) 0 [3, 1] := by
  refine ⟨fun _ => ?_, fun h => absurd rfl h⟩
  simp [SortedBy, joinSortCmp, sortCmp, sortCmp.go, witI]
  decide

/-! ## non-vacuity of the hypotheses -/

/-- an interpretation in which all keys compare equal satisfies the frame laws. -/
def eqI : Interp Nat := { witI with cmp := fun _ _ _ _ => .eq, atom := fun _ _ => .tt }

example : FrameLaws eqI :=
  ⟨fun _ _ _ _ h => h, fun _ _ _ _ _ _ _ _ _ _ _ _ _ => by simp [keyCmp, mergeCmp, eqI],
   fun _ _ => by simp [eqI, witI]⟩

example : Total eqI := total_of_atom eqI (by intro e v w; simp [eqI])

theorem natCmp_lawful (d : Bool) : LawfulCmp (fun a b : Nat => if d then compare b a else compare a b) := by
  constructor
  · intro a b; cases d <;> simp [Nat.compare_swap]
  · intro a b c; cases d <;> simp [Nat.compare_eq_gt] <;> omega

example (k : SortKey) : LawfulCmp (keyCmp witI k) := by
  have h : keyCmp witI k = fun a b : Nat => if k.desc then compare b a else compare a b := by
    funext a b; simp [keyCmp, mergeCmp, witI]
  rw [h]; exact natCmp_lawful k.desc

end Zed.Props.C07
