/-
  Model of the VNG null run-length coding (C03).
  Anchors: vng/nulls.go  NullsEncoder.{Write,touchValue,touchNull,Encode,Metadata},
           NullsBuilder.Build;  runtime/vcache/nulls.go  nulls.fetch, convolve.

  A `NullsEncoder` wraps the encoder of every non-wrapper type.  It strips the nulls out of
  the stream of bodies written to it and records *alternating run lengths*, the first run
  being a run of VALUES (possibly of length 0 when the column starts with a null).  The runs
  vector and the `Nulls` metadata node are emitted only when at least one null was seen.
-/
namespace Zed.Vng

/-- State of `vng.NullsEncoder` (`runs` = the `runs.Write` calls so far, in order). -/
structure NullsEnc where
  runs : List Nat := []
  run : Nat := 0
  null : Bool := false
  count : Nat := 0
  deriving Repr, DecidableEq

namespace NullsEnc

/-- `touchValue`. -/
def touchValue (s : NullsEnc) : NullsEnc :=
  if s.null = false then { s with run := s.run + 1 }
  else { s with runs := s.runs ++ [s.run], run := 1, null := false }

/-- `touchNull` (`count++` first). -/
def touchNull (s : NullsEnc) : NullsEnc :=
  if s.null = true then { s with run := s.run + 1, count := s.count + 1 }
  else { s with runs := s.runs ++ [s.run], run := 1, null := true, count := s.count + 1 }

/-- `Write(body)`: `isNull` = (`body == nil`). -/
def write (s : NullsEnc) (isNull : Bool) : NullsEnc :=
  if isNull then s.touchNull else s.touchValue

/-- `Encode`: the pending run is flushed when it is > 0. -/
def finish (s : NullsEnc) : List Nat :=
  if s.run > 0 then s.runs ++ [s.run] else s.runs

end NullsEnc

/-- What `NullsEncoder` leaves behind: the runs vector, the null count and the values that
    were passed on to the wrapped encoder (in order). -/
structure NullsCol (α : Type) where
  runs : List Nat
  count : Nat
  values : List α
  deriving Repr, DecidableEq

def nullsState (bs : List Bool) : NullsEnc := bs.foldl NullsEnc.write {}

def nullsEncode {α : Type} (xs : List (Option α)) : NullsCol α :=
  let s := nullsState (xs.map Option.isNone)
  { runs := s.finish, count := s.count, values := xs.filterMap id }

/-- The `for run == 0 { null = !null; run = Runs.Next() }` loop of `NullsBuilder.Build`
    followed by `n.run = run - 1`.  `none`: `Runs.Next` hit the end of the runs vector. -/
def nullsAdvance : Bool → Nat → List Nat → Option (Bool × Nat × List Nat)
  | _, 0, [] => none
  | null, 0, r :: rs => nullsAdvance (!null) r rs
  | null, run + 1, rs => some (null, run, rs)

/-- `n` successive calls of `NullsBuilder.Build`, the wrapped builder yielding `vals`. -/
def nullsBuild {α : Type} : Nat → Bool → Nat → List Nat → List α → Option (List (Option α))
  | 0, _, _, _, _ => some []
  | n + 1, null, run, runs, vals =>
    match nullsAdvance null run runs with
    | none => none
    | some (null', run', runs') =>
      if null' then (nullsBuild n null' run' runs' vals).map (none :: ·)
      else match vals with
        | [] => none
        | v :: vs => (nullsBuild n null' run' runs' vs).map (some v :: ·)

/-- Reading the column back: without a `Nulls` node (count = 0) the values are read
    directly; otherwise `Nulls.Len() = Count + Values.Len()` calls of `Build`, the builder
    starting with `null = true` so that the first `Next` flips it to a value run. -/
def nullsDecode {α : Type} (c : NullsCol α) : Option (List (Option α)) :=
  if c.count = 0 then some (c.values.map some)
  else nullsBuild (c.count + c.values.length) true 0 c.runs c.values

/-! ### Vector path: `nulls.fetch` and `convolve` (runtime/vcache/nulls.go) -/

/-- `nulls.fetch`: rebuild the local bitmap (true = null) from the run lengths; the first
    run is a value run (`null` starts false and flips after every run). -/
def nullsFetch : Bool → List Nat → List Bool
  | _, [] => []
  | null, r :: rs => List.replicate r null ++ nullsFetch (!null) rs

/-- `convolve(parent, child)`: the child's bitmap has one slot per NON-null parent slot. -/
def convolve : List Bool → List Bool → List Bool
  | [], _ => []
  | true :: ps, cs => true :: convolve ps cs
  | false :: ps, [] => false :: convolve ps []      -- child.Value past its end: not reached
  | false :: ps, c :: cs => c :: convolve ps cs

end Zed.Vng
