package main

// C18 — a failed write to the output is always reported.
//
// Sub-checks:
//   oracle  (S)   every writer reachable through anyio.NewWriter (+ the lake data-object
//                 writer and bufwriter) over a sink that fails at call k (one-shot / sticky /
//                 short write), for every k: some Write or Close must return an error.
//                 No failure: the delivered bytes read back to the input (lossless formats)
//                 and equal the bytes of an independent second run.
//   trace   (T2)  per-API-call error flags and sink-call counts of the real writers vs the
//                 Lean models (zng buffer/threshold model, direct model, bufio model).

import (
	"bytes"
	"context"
	"encoding/json"
	"errors"
	"fmt"
	"io"
	"strings"

	zed "github.com/brimdata/super"
	"github.com/brimdata/super/lake/data"
	"github.com/brimdata/super/order"
	"github.com/brimdata/super/pkg/bufwriter"
	"github.com/brimdata/super/pkg/field"
	"github.com/brimdata/super/pkg/storage"
	"github.com/brimdata/super/zio"
	"github.com/brimdata/super/zio/anyio"
	"github.com/brimdata/super/zio/zngio"
	"github.com/brimdata/super/zio/zsonio"
	"github.com/brimdata/super/zson"

	. "verifharness/hlib"
)

func main() { Main("C18", run) }

// ---- failing sink ---------------------------------------------------------------------

var errSink = errors.New("verif: injected sink failure")

type sink struct {
	failAt int    // index of the first failing Write call (-1 = never)
	mode   string // oneshot | sticky | short
	calls  int
	sizes  []int
	buf    bytes.Buffer
	failed int // number of failed Write calls
}

func (s *sink) Write(p []byte) (int, error) {
	k := s.calls
	s.calls++
	s.sizes = append(s.sizes, len(p))
	fail := s.failAt >= 0 && (k == s.failAt || (s.mode == "sticky" && k > s.failAt))
	if !fail {
		s.buf.Write(p)
		return len(p), nil
	}
	s.failed++
	if s.mode == "short" && len(p) > 0 {
		n := len(p) / 2
		s.buf.Write(p[:n])
		return n, io.ErrShortWrite
	}
	return 0, errSink
}

func (s *sink) Close() error { return nil }

// ---- writers under test ----------------------------------------------------------------

type wcase struct {
	Name   string `json:"name"`
	Format string `json:"format"` // anyio format, or "dataobject", "bufwriter"
	Thresh int    `json:"thresh,omitempty"`
	Comp   bool   `json:"compress,omitempty"`
	Pretty int    `json:"pretty,omitempty"`
	Class  string `json:"class"` // model class: zng | direct | bufio | none
}

func writerCases() []wcase {
	return []wcase{
		{Name: "zng-t1", Format: "zng", Thresh: 1, Class: "zng"},
		{Name: "zng-t64", Format: "zng", Thresh: 64, Class: "zng"},
		{Name: "zng-t64-lz4", Format: "zng", Thresh: 64, Comp: true, Class: "zng"},
		{Name: "zng-t1000-lz4", Format: "zng", Thresh: 1000, Comp: true, Class: "zng"},
		{Name: "zng-default", Format: "zng", Thresh: 0, Class: "zng"},
		{Name: "zson", Format: "zson", Class: "direct"},
		{Name: "zson-pretty", Format: "zson", Pretty: 4, Class: "direct"},
		{Name: "zjson", Format: "zjson", Class: "direct"},
		{Name: "json", Format: "json", Class: "none"},
		{Name: "csv", Format: "csv", Class: "bufio"},
		{Name: "tsv", Format: "tsv", Class: "bufio"},
		{Name: "zeek", Format: "zeek", Class: "direct"},
		{Name: "table", Format: "table", Class: "none"},
		{Name: "text", Format: "text", Class: "direct"},
		{Name: "vng", Format: "vng", Class: "none"},
		{Name: "lake", Format: "lake", Class: "none"},
		{Name: "dataobject", Format: "dataobject", Class: "none"},
		{Name: "bufwriter", Format: "bufwriter", Class: "bufio"},
	}
}

// oneEngine is a storage.Engine whose Put hands out the given sinks in order.
type oneEngine struct {
	storage.Engine
	sinks []*sink
	n     int
}

func (e *oneEngine) Put(ctx context.Context, u *storage.URI) (io.WriteCloser, error) {
	s := e.sinks[e.n%len(e.sinks)]
	e.n++
	return s, nil
}

type apiWriter interface {
	Write(zed.Value) error
	Close() error
}

type rawBuf struct{ w *bufwriter.Writer }

func (r rawBuf) Write(v zed.Value) error {
	_, err := r.w.Write([]byte(zson.FormatValue(v) + "\n"))
	return err
}
func (r rawBuf) Close() error { return r.w.Close() }

type objWriter struct {
	w *data.Writer
}

func (o objWriter) Write(v zed.Value) error { return o.w.Write(v) }
func (o objWriter) Close() error            { return o.w.Close(context.Background()) }

func newWriter(wc wcase, s *sink) (apiWriter, error) {
	switch wc.Format {
	case "bufwriter":
		return rawBuf{bufwriter.New(s)}, nil
	case "dataobject":
		// sequence data goes to s; the seek index goes to a sink that never fails, so that
		// call numbers refer to the data stream.
		o := data.NewObject()
		eng := &oneEngine{sinks: []*sink{s, {failAt: -1}}}
		w, err := o.NewWriter(context.Background(), eng, storage.MustParseURI("mem://x"), order.NewSortKey(order.Asc, field.Path{"a"}), 16)
		if err != nil {
			return nil, err
		}
		return objWriter{w}, nil
	}
	opts := anyio.WriterOpts{Format: wc.Format}
	if wc.Format == "zng" && wc.Thresh > 0 {
		opts.ZNG = &zngio.WriterOpts{Compress: wc.Comp, FrameThresh: wc.Thresh}
	}
	opts.ZSON = zsonio.WriterOpts{Pretty: wc.Pretty}
	return anyio.NewWriter(s, opts)
}

// ---- inputs ----------------------------------------------------------------------------

type input struct {
	Name string   `json:"name"`
	ZSON []string `json:"zson"`
}

func genInputs(c *Ctx) []input {
	r := c.Rng
	var out []input
	out = append(out, input{"empty", nil})
	out = append(out, input{"one", []string{`{a:1,b:"x"}`}})
	// uniform records, enough text to overflow a 4 KiB bufio buffer several times
	var long []string
	for i := 0; i < c.N(160, 400); i++ {
		long = append(long, fmt.Sprintf(`{a:%d,b:"%s",c:%d.5}`, i, strings.Repeat("v", 20+r.Intn(40)), r.Intn(1000)))
	}
	out = append(out, input{"uniform-long", long})
	// type changes mid-stream (new zng typedefs, zeek/table headers), same field names
	var mixed []string
	for i := 0; i < 24; i++ {
		switch r.Intn(3) {
		case 0:
			mixed = append(mixed, fmt.Sprintf(`{a:%d,b:"s%d"}`, i, i))
		case 1:
			mixed = append(mixed, fmt.Sprintf(`{a:"%d",b:%d}`, i, i))
		default:
			mixed = append(mixed, fmt.Sprintf(`{a:%d.,b:null(string)}`, i))
		}
	}
	out = append(out, input{"same-names-type-changes", mixed})
	var shapes []string
	for i := 0; i < 16; i++ {
		switch r.Intn(3) {
		case 0:
			shapes = append(shapes, fmt.Sprintf(`{a:%d}`, i))
		case 1:
			shapes = append(shapes, fmt.Sprintf(`{a:%d,x:{y:"%d"}}`, i, i))
		default:
			shapes = append(shapes, fmt.Sprintf(`{a:%d,z:[1,2,%d]}`, i, i))
		}
	}
	out = append(out, input{"shape-changes", shapes})
	// columns in which nulls and values alternate, nullable nested records, null elements:
	// every vng column then has a nulls vector next to its values vector(s)
	var nulls []string
	for i := 0; i < 12; i++ {
		a, b, n := fmt.Sprint(i), fmt.Sprintf(`"s%d"`, i), fmt.Sprintf(`{x:%d,y:"%d"}`, i, i)
		if r.Intn(3) == 0 {
			a = "null(int64)"
		}
		if r.Intn(3) == 0 {
			b = "null(string)"
		}
		if r.Intn(3) == 0 {
			n = "null({x:int64,y:string})"
		}
		nulls = append(nulls, fmt.Sprintf(`{a:%s,b:%s,n:%s,l:[%d,null(int64)]}`, a, b, n, i))
	}
	nulls[1] = `{a:null(int64),b:"y",n:{x:1,y:null(string)},l:[null(int64)]}`
	out = append(out, input{"nulls-in-columns", nulls})
	for j := 0; j < c.N(3, 25); j++ {
		var rnd []string
		n := 1 + r.Intn(30)
		for i := 0; i < n; i++ {
			rnd = append(rnd, fmt.Sprintf(`{a:%d,b:"%s"}`, r.Intn(100), strings.Repeat("q", r.Intn(200))))
		}
		out = append(out, input{fmt.Sprintf("random-%d", j), rnd})
	}
	return out
}

func parseAll(zsons []string) (*zed.Context, []zed.Value, error) {
	zctx := zed.NewContext()
	var vals []zed.Value
	for _, s := range zsons {
		v, err := zson.ParseValue(zctx, s)
		if err != nil {
			return nil, nil, fmt.Errorf("%s: %w", s, err)
		}
		vals = append(vals, v)
	}
	return zctx, vals, nil
}

// ---- one run ---------------------------------------------------------------------------

type trace struct {
	OpErr   []bool `json:"op_err"`   // per API call (Write…, Close)
	OpCalls []int  `json:"op_calls"` // sink calls made during each API call
	Sizes   []int  `json:"sizes"`
	Failed  int    `json:"failed"` // failed sink writes
	Bytes   []byte `json:"-"`
	Panic   string `json:"panic,omitempty"`
	NewErr  string `json:"new_err,omitempty"`
	Refused bool   `json:"refused,omitempty"` // writer rejected the input for format reasons before any sink failure
}

func runOne(wc wcase, vals []zed.Value, failAt int, mode string) (t trace) {
	s := &sink{failAt: failAt, mode: mode}
	err, panicked := Protect(func() error {
		w, err := newWriter(wc, s)
		if err != nil {
			t.NewErr = err.Error()
			return nil
		}
		for _, v := range vals {
			before := s.calls
			failedBefore := s.failed
			e := w.Write(v)
			t.OpErr = append(t.OpErr, e != nil)
			t.OpCalls = append(t.OpCalls, s.calls-before)
			if e != nil && s.failed == failedBefore && s.failed == 0 {
				// format-level rejection (e.g. csv with changing columns)
				t.Refused = true
			}
		}
		before := s.calls
		e := w.Close()
		t.OpErr = append(t.OpErr, e != nil)
		t.OpCalls = append(t.OpCalls, s.calls-before)
		return nil
	})
	if panicked {
		t.Panic = err.Error()
	}
	t.Sizes = s.sizes
	t.Failed = s.failed
	t.Bytes = s.buf.Bytes()
	return t
}

func anyTrue(bs []bool) bool {
	for _, b := range bs {
		if b {
			return true
		}
	}
	return false
}

func readBack(format string, b []byte) ([]string, error) {
	zctx := zed.NewContext()
	r, err := anyio.NewReaderWithOpts(zctx, bytes.NewReader(b), nil, anyio.ReaderOpts{Format: format})
	if err != nil {
		return nil, err
	}
	defer r.Close()
	var out []string
	for {
		v, err := r.Read()
		if err != nil {
			return out, err
		}
		if v == nil {
			return out, nil
		}
		out = append(out, zson.FormatValue(*v))
	}
}

func ks(n int, c *Ctx) []int {
	// all k when few sink calls, otherwise first/last few plus a sample
	limit := c.N(24, 400)
	if n <= limit {
		out := make([]int, n)
		for i := range out {
			out[i] = i
		}
		return out
	}
	seen := map[int]bool{}
	var out []int
	add := func(k int) {
		if k >= 0 && k < n && !seen[k] {
			seen[k] = true
			out = append(out, k)
		}
	}
	for i := 0; i < 6; i++ {
		add(i)
		add(n - 1 - i)
	}
	for len(out) < limit {
		add(c.Rng.Intn(n))
	}
	return out
}

func run(c *Ctx) {
	c.Rule("for each writer configuration × generated value sequence: an unfailing reference run, then one run per (k, mode) with the k-th sink Write failing " +
		"(one-shot, sticky, short write); a case = (writer, input, k, mode), non-trivial when the failing call is actually reached")
	if c.Replay != nil {
		replay(c)
		return
	}
	for _, rc := range c.CorpusCases() {
		c.Replay = rc
		replay(c)
		c.Replay = nil
	}
	inputs := genInputs(c)
	for _, wc := range writerCases() {
		for _, in := range inputs {
			_, vals, err := parseAll(in.ZSON)
			if err != nil {
				panic(err)
			}
			ref := runOne(wc, vals, -1, "oneshot")
			if ref.Panic != "" {
				c.Fail("panic", "C18:panic:"+wc.Name, "writer panicked without any sink failure: "+firstLine(ref.Panic), map[string]any{"writer": wc, "input": in, "k": -1})
				continue
			}
			if ref.NewErr != "" {
				c.Stat("writer-unavailable:" + wc.Name)
				continue
			}
			c.Stat("ref-runs")
			c.StatN("ref-sink-calls:"+wc.Name, len(ref.Sizes))
			if ref.Refused || anyTrue(ref.OpErr) {
				// the format rejects this input (e.g. csv/table with changing columns, zeek with
				// non-records); outside the claim
				c.Stat("input-rejected:" + wc.Name)
				continue
			}
			if c.Want("complete") {
				checkComplete(c, wc, in, vals, ref)
			}
			if !c.Want("oracle") && !c.Want("trace") {
				continue
			}
			var modelReqs []string
			var modelCases []modelCase
			for _, k := range ks(len(ref.Sizes), c) {
				for _, mode := range []string{"oneshot", "sticky", "short"} {
					t := runOne(wc, vals, k, mode)
					c.Eval(fmt.Sprintf("%s|%s|%d|%s", wc.Name, in.Name, k, mode))
					c.Stat("mode:" + mode)
					if t.Panic != "" {
						c.Fail("panic", "C18:panic:"+wc.Name, fmt.Sprintf("writer %s panicked when sink call %d failed (%s): %s", wc.Name, k, mode, firstLine(t.Panic)),
							map[string]any{"writer": wc, "input": in, "k": k, "mode": mode})
						continue
					}
					if t.Failed == 0 {
						c.Stat("failure-not-reached")
						continue
					}
					if !anyTrue(t.OpErr) {
						c.Fail("oracle", "C18:unreported:"+wc.Format+":"+whereOf(t, k),
							fmt.Sprintf("writer %s, input %s (%d values): sink write call %d failed (%s) but every Write and Close returned nil", wc.Name, in.Name, len(vals), k, mode),
							map[string]any{"writer": wc, "input": in, "k": k, "mode": mode, "trace": t})
					}
					if wc.Class != "none" && c.Want("trace") {
						modelReqs = append(modelReqs, modelRequest(wc, in, ref, vals, k, mode))
						modelCases = append(modelCases, modelCase{wc, in, k, mode, t})
					}
				}
			}
			compareModel(c, modelReqs, modelCases)
		}
	}
}

// whereOf classifies the API call during which the failing sink write happened.
func whereOf(t trace, k int) string {
	n := 0
	for i, c := range t.OpCalls {
		n += c
		if k < n {
			if i == len(t.OpCalls)-1 {
				return "during-close"
			}
			return "during-write"
		}
	}
	return "unknown"
}

func firstLine(s string) string {
	if i := strings.IndexByte(s, '\n'); i >= 0 {
		return s[:i]
	}
	return s
}

func checkComplete(c *Ctx, wc wcase, in input, vals []zed.Value, ref trace) {
	// deterministic: a second run delivers the same bytes
	again := runOne(wc, vals, -1, "oneshot")
	c.Eval("complete|" + wc.Name + "|" + in.Name)
	if !bytes.Equal(again.Bytes, ref.Bytes) && wc.Format != "dataobject" && wc.Format != "lake" {
		c.Fail("oracle", "C18:complete:nondeterministic:"+wc.Format, fmt.Sprintf("writer %s delivers different bytes on two unfailing runs of input %s", wc.Name, in.Name),
			map[string]any{"writer": wc, "input": in, "k": -1})
	}
	var format string
	switch wc.Format {
	case "zng", "zson", "zjson", "vng":
		format = wc.Format
	case "dataobject":
		format = "zng"
	default:
		return
	}
	got, err := readBack(format, ref.Bytes)
	var want []string
	for _, v := range vals {
		want = append(want, zson.FormatValue(v))
	}
	if err != nil || !SameSeq(got, want) {
		c.Fail("oracle", "C18:complete:unreadable:"+wc.Format,
			fmt.Sprintf("writer %s: with no sink failure the delivered bytes do not read back to the %d input values (read %d, err=%v)", wc.Name, len(want), len(got), err),
			map[string]any{"writer": wc, "input": in, "k": -1})
	}
}

func replay(c *Ctx) {
	var r struct {
		Writer wcase  `json:"writer"`
		Input  input  `json:"input"`
		K      int    `json:"k"`
		Mode   string `json:"mode"`
	}
	if err := json.Unmarshal(c.Replay, &r); err != nil || r.Writer.Name == "" {
		c.Note("replay not understood: %v", err)
		return
	}
	_, vals, err := parseAll(r.Input.ZSON)
	if err != nil {
		c.Note("replay input: %v", err)
		return
	}
	c.Eval("replay")
	if r.K < 0 {
		ref := runOne(r.Writer, vals, -1, "oneshot")
		checkComplete(c, r.Writer, r.Input, vals, ref)
		return
	}
	t := runOne(r.Writer, vals, r.K, r.Mode)
	if t.Panic != "" {
		c.Fail("panic", "C18:panic:"+r.Writer.Name, firstLine(t.Panic), r)
	} else if t.Failed > 0 && !anyTrue(t.OpErr) {
		c.Fail("oracle", "C18:unreported:"+r.Writer.Format+":"+whereOf(t, r.K), "replayed: sink failure not reported", r)
	}
}

var _ = zio.NopCloser
