/-
  C12 — branch and metadata updates are linearizable; accepted commits stay replayable.
  Property theorems only.  Model: Zed/Model/{StoreEngine,JournalQueue,BranchCommit}.lean — the
  labelled transition system of DESIGN.md §4 L5 (one `step c` = one storage operation of client c,
  atomic puts).  All theorems quantify over every label sequence, i.e. every number of clients,
  every history of started procedures and every interleaving; nothing is bounded.
  `Reach j s`: s is reachable from a state where journal j is freshly created by labels that do
  not delete pool j (for the lake-level `pools/` journal, j = 0, every label sequence qualifies:
  `reach_pools`).
-/
import Zed.Proofs.StoreTables
namespace Zed.Props.C12
open Zed.Store

/-- Every state a lake can get into is `Reach 0` (pools journal): no hypothesis on the labels. -/
theorem reach_pools (ls : List Label) : Reach 0 (Sys.init.run ls) :=
  ⟨Sys.init, ls, init_fresh, noReset_zero ls, rfl⟩

/-- **journal_linear** — in every reachable state the entries of journal j are exactly the
    positions 1..e (contiguous, none missing, none beyond), and HEAD is e or e-1. -/
theorem journal_linear (j : Nat) (s : Sys) (h : Reach j s) :
    ∃ e, (∀ n, (s.store (.ent j n)).isSome ↔ (1 ≤ n ∧ n ≤ e)) ∧
      headOf s.store j ≤ e ∧ e ≤ headOf s.store j + 1 := by
  obtain ⟨e, he⟩ := h.inv1
  exact ⟨e, he.range, he.he, he.eh⟩

/-- **entry_created_once** — an entry, once created, is never created again or changed: it
    keeps its value in every later state (so entry n+1 is created exactly once; the loser of the
    put-if-absent race writes nothing). -/
theorem entry_created_once (j : Nat) (s : Sys) (h : Reach j s) (ls : List Label) (hn : NoReset j ls)
    (n : Nat) (v : SVal) (hv : s.store (.ent j n) = some v) : (s.run ls).store (.ent j n) = some v := by
  obtain ⟨e, he⟩ := h.inv1
  obtain ⟨_, _, _, _, hent⟩ := inv1_run ls he hn
  exact hent n v hv

/-- **head_monotone** — HEAD never regresses. -/
theorem head_monotone (j : Nat) (s : Sys) (h : Reach j s) (ls : List Label) (hn : NoReset j ls) :
    headOf s.store j ≤ headOf (s.run ls).store j := by
  obtain ⟨e, he⟩ := h.inv1
  obtain ⟨_, _, _, hh, _⟩ := inv1_run ls he hn
  exact hh

/-- **head_writer_is_creator** — the causality behind `head_monotone`: a client about to write
    HEAD = n is the (unique) creator of entry n, entry n is the last one, and HEAD is still n-1.
    A change that writes HEAD before the entry, or lets the loser of the race write it, breaks
    this proof. -/
theorem head_writer_is_creator (j : Nat) (s : Sys) (h : Reach j s) (c n : Nat)
    (hc : (s.cl c).pcOn j = some (.putHead n)) :
    (s.store (.ent j n)).isSome ∧ s.store (.ent j (n + 1)) = none ∧ headOf s.store j + 1 = n ∧
      ∀ c' n', (s.cl c').pcOn j = some (.putHead n') → c' = c := by
  obtain ⟨e, he⟩ := h.inv1
  obtain ⟨hne, hH⟩ := he.ph c n hc
  subst hne
  refine ⟨(he.range n).mpr (by omega), ?_, hH, fun c' n' hc' => he.uniq c' c n' n hc' hc⟩
  have := (he.range (n + 1))
  cases hx : s.store (.ent j (n + 1)) with
  | none => rfl
  | some v => rw [hx] at this; simp at this; omega

/-- **constraint_exact** — every entry n+1 was written by one of the four journal.Store
    operations whose constraint held under *exactly* the table replayed from entries 1..n —
    never under a stale table: the loser of a put-if-absent race re-loads and re-checks.  (So a
    key is inserted only when absent — names stay unique —, a branch tip is updated only from
    the parent it was checked against, a delete removes the very value it was checked against.)
    A change that checks the constraint against a stale table, or retries without reloading,
    breaks this proof. -/
theorem constraint_exact (j : Nat) (s : Sys) (h : Reach j s) (n : Nat)
    (hn : (s.store (.ent j (n + 1))).isSome) :
    ∃ (op : JOp) (t : Table), tableAt s.store j n = some t ∧ op.check t = none ∧
      s.store (.ent j (n + 1)) = some (.entry op.acts) := by
  obtain ⟨e, h1, h2⟩ := h.inv12
  exact h2.wf n (by have := (h1.range (n + 1)).mp hn; omega)

/-- **journal_replayable** — at every moment the journal replays without error, both up to
    HEAD (what readers see) and up to its end. -/
theorem journal_replayable (j : Nat) (s : Sys) (h : Reach j s) :
    (∃ t, visibleTable s.store j = some t) ∧
      ∀ n, (s.store (.ent j n)).isSome → ∃ t, tableAt s.store j n = some t := by
  obtain ⟨e, h1, h2⟩ := h.inv12
  refine ⟨h2.wf.tableAt_some _ h1.he, fun n hn => h2.wf.tableAt_some n ((h1.range n).mp hn).2⟩

/-- **failed_op_invisible** (journal level) — a journal procedure step that ends in failure
    (constraint, key exists, no such key, retries exceeded, I/O) writes neither an entry nor
    HEAD; and a procedure that *has* created its entry can only go on to write HEAD and end
    with `ok` (see `commit_at_end_succeeds`), so a failed operation has created no entry. -/
theorem failed_op_invisible (s : Store) (j : Nat) (jc : JCache) (k : JKind) (pc : JPc)
    (st : Store) (jc' : JCache) (r : Res) (ev : Ev)
    (h : jstep s j jc k pc = .done st jc' r ev) (hr : r ≠ .ok) :
    (∀ n, st (.ent j n) = s (.ent j n)) ∧ st (.head j) = s (.head j) :=
  jstep_fail_quiet s j jc k pc st jc' r ev h hr

/-! Non-vacuity: the hypotheses are satisfiable and the system does move. -/

/-- A concrete run on the pools journal: client 0 inserts key 1, client 1 inserts key 2,
    interleaved so that client 1 loses the put-if-absent race once and retries. -/
def demoLabels : List Label :=
  [.start 0 (.commit 0 0 (.insert 1 7)), .start 1 (.commit 0 0 (.insert 2 8)),
   .step 0, .step 1, .step 0, .step 1, .step 0, .step 1, .step 1, .step 1, .step 1, .step 1, .step 1, .step 1]

example : headOf (Sys.init.run demoLabels).store 0 = 2 := by decide
example : Reach 0 (Sys.init.run demoLabels) := reach_pools _

end Zed.Props.C12
