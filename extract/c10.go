package main

// Fact set C10 (shared with C08): the aggregate table of runtime/sam/expr/agg.
//
//   aggs : for every `case "<name>":` of agg.NewPattern — the name, whether it needs an
//          argument, the implementing type and constructor argument, and the *shape* of the
//          type's partial interface:
//            ResultAsPartial   "result"  body is exactly `return recv.Result(…)`
//                              "custom"  anything else (avg: {sum,count}; dcount: sketch bytes)
//            ConsumeAsPartial  "consume" body is, after leading `if … { panic(…) }` guards,
//                              exactly one call recv.Consume(x) / recv.consumeVal(x)
//                              "custom"  anything else
//   applySkipsMissing : expr.Aggregator.Apply consumes `v` only under `if !v.IsMissing()`
//   liftedOps : the dag op types of the `switch op := ops[egress].(type)` in
//          optimizer.liftIntoParPaths (the operators copied into scatter legs), in order
//   sortLiftGuards : the conditions of the top-level `if … { return }` statements of the
//          dag.Sort case of liftIntoParPaths (when a sort is NOT copied into the legs)
//   rightStyleSwaps : the statements of `case "right":` in compiler/kernel/op.go (what is
//          swapped before join.New for a right join: keys, parents, declared directions)
//   sortedInputKeyRanges : the expressions the two loops range over that decide whether a
//          summarize is told its input is sorted (optimizer.propagateSortKeyOp's dag.Summarize
//          case, optimizer.isKeyOfSummarize): only the FIRST group-by key may count
//
// Anything not recognised is refused.

import (
	"fmt"
	"go/ast"
	"os"
	"path/filepath"
	"sort"
	"strings"
)

func init() { register("C10", genC10) }

type c10Agg struct {
	name, typ, arg string
	needarg        bool
}

func genC10(repo string) (string, error) {
	af, err := parseFile(repo, "runtime/sam/expr/agg/agg.go")
	if err != nil {
		return "", err
	}
	fd, err := af.funcDecl("", "NewPattern")
	if err != nil {
		return "", err
	}
	sw := firstSwitch(fd.Body, "op")
	if sw == nil {
		return "", fmt.Errorf("%s: NewPattern: `switch op` not found", af.pos(fd))
	}
	var aggs []c10Agg
	sawDefault := false
	for _, s := range sw.Body.List {
		cc := s.(*ast.CaseClause)
		if cc.List == nil {
			sawDefault = true
			continue
		}
		if len(cc.List) != 1 {
			return "", fmt.Errorf("%s: NewPattern: multi-valued case", af.pos(cc))
		}
		name, ok := strLit(cc.List[0])
		if !ok {
			return "", fmt.Errorf("%s: NewPattern: case label is not a string literal", af.pos(cc))
		}
		a := c10Agg{name: name, needarg: true}
		seenPattern := false
		for _, st := range cc.Body {
			as, ok := st.(*ast.AssignStmt)
			if !ok || len(as.Lhs) != 1 || len(as.Rhs) != 1 {
				return "", fmt.Errorf("%s: NewPattern case %q: statement `%s` not recognised", af.pos(st), name, renderStmt(af, st))
			}
			lhs, _ := identName(as.Lhs[0])
			switch lhs {
			case "needarg":
				if v, _ := identName(as.Rhs[0]); v != "false" {
					return "", fmt.Errorf("%s: NewPattern case %q: needarg assigned %s", af.pos(st), name, renderExpr(af, as.Rhs[0]))
				}
				a.needarg = false
			case "pattern":
				fl, ok := as.Rhs[0].(*ast.FuncLit)
				if !ok {
					return "", fmt.Errorf("%s: NewPattern case %q: pattern is not a func literal", af.pos(st), name)
				}
				typ, arg, err := c10Constructed(af, fl)
				if err != nil {
					return "", fmt.Errorf("%s: NewPattern case %q: %v", af.pos(st), name, err)
				}
				a.typ, a.arg = typ, arg
				seenPattern = true
			default:
				return "", fmt.Errorf("%s: NewPattern case %q: assignment to %s not recognised", af.pos(st), name, lhs)
			}
		}
		if !seenPattern {
			return "", fmt.Errorf("%s: NewPattern case %q: no pattern", af.pos(cc), name)
		}
		aggs = append(aggs, a)
	}
	if !sawDefault || len(aggs) == 0 {
		return "", fmt.Errorf("%s: NewPattern: switch without default or without cases", af.pos(sw))
	}

	// methods of the implementing types, from every non-test file of the package
	dir := filepath.Join(repo, "runtime/sam/expr/agg")
	ents, err := os.ReadDir(dir)
	if err != nil {
		return "", err
	}
	type meth struct {
		f  *file
		fd *ast.FuncDecl
	}
	methods := map[string]meth{} // "Type.Method"
	ctors := map[string]string{} // constructor func -> type it returns (&T{...} / T literal / var)
	var names []string
	for _, e := range ents {
		if strings.HasSuffix(e.Name(), ".go") && !strings.HasSuffix(e.Name(), "_test.go") {
			names = append(names, e.Name())
		}
	}
	sort.Strings(names)
	for _, n := range names {
		f, err := parseFile(repo, "runtime/sam/expr/agg/"+n)
		if err != nil {
			return "", err
		}
		for _, d := range f.f.Decls {
			fd, ok := d.(*ast.FuncDecl)
			if !ok || fd.Body == nil {
				continue
			}
			if fd.Recv == nil {
				if t, ok := c10ReturnsNew(fd); ok {
					ctors[fd.Name.Name] = t
				}
				continue
			}
			t := fd.Recv.List[0].Type
			if s, ok := t.(*ast.StarExpr); ok {
				t = s.X
			}
			id, ok := t.(*ast.Ident)
			if !ok {
				continue
			}
			methods[id.Name+"."+fd.Name.Name] = meth{f, fd}
		}
	}
	var rows []string
	for _, a := range aggs {
		typ := a.typ
		if strings.HasPrefix(typ, "call:") {
			c := strings.TrimPrefix(typ, "call:")
			t, ok := ctors[c]
			if !ok {
				return "", fmt.Errorf("agg %q: constructor %s not recognised (no `return &T{…}`)", a.name, c)
			}
			typ = t
		}
		for _, m := range []string{"Consume", "ConsumeAsPartial", "Result", "ResultAsPartial"} {
			if _, ok := methods[typ+"."+m]; !ok {
				return "", fmt.Errorf("agg %q: method %s.%s not found", a.name, typ, m)
			}
		}
		rp := methods[typ+".ResultAsPartial"]
		rap := "custom"
		if e, ok := singleReturn(rp.fd.Body.List); ok {
			if c, ok := e.(*ast.CallExpr); ok {
				if n, ok := selName(c.Fun); ok && n == c10Recv(rp.fd)+".Result" {
					rap = "result"
				}
			}
		}
		cp := methods[typ+".ConsumeAsPartial"]
		cap := c10ConsumeShape(cp.f, cp.fd)
		rows = append(rows, fmt.Sprintf("(%s, %v, %s, %s, %s, %s)", leanStr(a.name), a.needarg, leanStr(typ), leanStr(a.arg), leanStr(rap), leanStr(cap)))
	}
	var b strings.Builder
	b.WriteString("def aggs : List (String × Bool × String × String × String × String) :=\n  [" + strings.Join(rows, ",\n   ") + "]\n")

	// ---- expr.Aggregator.Apply ---------------------------------------------------------
	ef, err := parseFile(repo, "runtime/sam/expr/agg.go")
	if err != nil {
		return "", err
	}
	ap, err := ef.funcDecl("Aggregator", "Apply")
	if err != nil {
		return "", err
	}
	stmts := ap.Body.List
	if len(stmts) != 3 {
		return "", fmt.Errorf("%s: Aggregator.Apply: %d statements, expected 3 (where-guard, eval, consume)", ef.pos(ap), len(stmts))
	}
	if got := renderStmt(ef, stmts[1]); got != "v := a.expr.Eval(ectx, this)" {
		return "", fmt.Errorf("%s: Aggregator.Apply: `%s` not recognised", ef.pos(stmts[1]), got)
	}
	skips := renderStmt(ef, stmts[2]) == "if !v.IsMissing() { f.Consume(v) }"
	if !skips {
		return "", fmt.Errorf("%s: Aggregator.Apply: consume statement `%s` not recognised", ef.pos(stmts[2]), renderStmt(ef, stmts[2]))
	}
	wg, ok := stmts[0].(*ast.IfStmt)
	if !ok || renderExpr(ef, wg.Cond) != "a.where != nil" {
		return "", fmt.Errorf("%s: Aggregator.Apply: where guard not recognised", ef.pos(stmts[0]))
	}
	fmt.Fprintf(&b, "def applySkipsMissing : Bool := %v\n", skips)

	// ---- optimizer.liftIntoParPaths ------------------------------------------------------
	pf, err := parseFile(repo, "compiler/optimizer/parallelize.go")
	if err != nil {
		return "", err
	}
	lf, err := pf.funcDecl("Optimizer", "liftIntoParPaths")
	if err != nil {
		return "", err
	}
	var lifted []string
	found := false
	ast.Inspect(lf.Body, func(n ast.Node) bool {
		ts, ok := n.(*ast.TypeSwitchStmt)
		if !ok || found {
			return true
		}
		if !strings.Contains(renderNode(pf, ts.Assign), "ops[egress]") {
			return true
		}
		found = true
		for _, s := range ts.Body.List {
			cc := s.(*ast.CaseClause)
			for _, e := range cc.List {
				lifted = append(lifted, strings.TrimPrefix(renderExpr(pf, e), "*dag."))
			}
		}
		return false
	})
	// the top-level `if cond { return }` guards of the dag.Sort case: when a sort is NOT lifted
	var sortGuards []string
	ast.Inspect(lf.Body, func(n ast.Node) bool {
		cc, ok := n.(*ast.CaseClause)
		if !ok || len(cc.List) != 1 || renderExpr(pf, cc.List[0]) != "*dag.Sort" {
			return true
		}
		for _, st := range cc.Body {
			is, ok := st.(*ast.IfStmt)
			if !ok || is.Else != nil || is.Init != nil || len(is.Body.List) == 0 {
				continue
			}
			if r, ok := is.Body.List[len(is.Body.List)-1].(*ast.ReturnStmt); ok && len(r.Results) == 0 && len(is.Body.List) == 1 {
				sortGuards = append(sortGuards, renderExpr(pf, is.Cond))
			}
		}
		return false
	})
	if !found || len(lifted) == 0 {
		return "", fmt.Errorf("%s: liftIntoParPaths: `switch op := ops[egress].(type)` not found", pf.pos(lf))
	}
	fmt.Fprintf(&b, "def liftedOps : List String := %s\n", leanStrList(lifted))
	fmt.Fprintf(&b, "def sortLiftGuards : List String := %s\n", leanStrList(sortGuards))

	// ---- which group-by keys make the optimizer declare a summarize's input sorted -------
	// (the Aggregator streams on its first key only: fix 32e95e058)
	of, err := parseFile(repo, "compiler/optimizer/optimizer.go")
	if err != nil {
		return "", err
	}
	pk, err := of.funcDecl("Optimizer", "propagateSortKeyOp")
	if err != nil {
		return "", err
	}
	var ranges []string
	ast.Inspect(pk.Body, func(n ast.Node) bool {
		cc, ok := n.(*ast.CaseClause)
		if !ok || len(cc.List) != 1 || renderExpr(of, cc.List[0]) != "*dag.Summarize" {
			return true
		}
		for _, st := range cc.Body {
			ast.Inspect(st, func(m ast.Node) bool {
				if rs, ok := m.(*ast.RangeStmt); ok {
					ranges = append(ranges, renderExpr(of, rs.X))
				}
				return true
			})
		}
		return false
	})
	if len(ranges) != 1 {
		return "", fmt.Errorf("%s: propagateSortKeyOp: %d range loops in the dag.Summarize case, expected 1", of.pos(pk), len(ranges))
	}
	opf, err := parseFile(repo, "compiler/optimizer/op.go")
	if err != nil {
		return "", err
	}
	ik, err := opf.funcDecl("", "isKeyOfSummarize")
	if err != nil {
		return "", err
	}
	n0 := len(ranges)
	ast.Inspect(ik.Body, func(m ast.Node) bool {
		if rs, ok := m.(*ast.RangeStmt); ok {
			ranges = append(ranges, renderExpr(opf, rs.X))
		}
		return true
	})
	if len(ranges) != n0+1 {
		return "", fmt.Errorf("%s: isKeyOfSummarize: %d range loops, expected 1", opf.pos(ik), len(ranges)-n0)
	}
	fmt.Fprintf(&b, "def sortedInputKeyRanges : List String := %s\n", leanStrList(ranges))

	// ---- the right-join style: what the kernel swaps before join.New ----------------------
	kf, err := parseFile(repo, "compiler/kernel/op.go")
	if err != nil {
		return "", err
	}
	var swaps []string
	nright := 0
	ast.Inspect(kf.f, func(n ast.Node) bool {
		cc, ok := n.(*ast.CaseClause)
		if !ok || len(cc.List) != 1 {
			return true
		}
		if v, ok := strLit(cc.List[0]); !ok || v != "right" {
			return true
		}
		nright++
		for _, st := range cc.Body {
			swaps = append(swaps, renderStmt(kf, st))
		}
		return false
	})
	if nright != 1 {
		return "", fmt.Errorf("compiler/kernel/op.go: %d `case \"right\":` clauses, expected 1", nright)
	}
	fmt.Fprintf(&b, "def rightStyleSwaps : List String := %s\n", leanStrList(swaps))
	return b.String(), nil
}

func c10Recv(fd *ast.FuncDecl) string {
	if fd.Recv != nil && len(fd.Recv.List) == 1 && len(fd.Recv.List[0].Names) == 1 {
		return fd.Recv.List[0].Names[0].Name
	}
	return "_"
}

// c10Constructed: what `func() Function { … }` builds.
//
//	{ var c Count; return &c }          -> ("Count", "")
//	{ return &Avg{} }                   -> ("Avg", "")
//	{ return NewDCount() }              -> ("call:NewDCount", "")
//	{ return newMathReducer(anymath.Add) } -> ("call:newMathReducer", "anymath.Add")
func c10Constructed(f *file, fl *ast.FuncLit) (string, string, error) {
	stmts := fl.Body.List
	switch len(stmts) {
	case 1:
		r, ok := stmts[0].(*ast.ReturnStmt)
		if !ok || len(r.Results) != 1 {
			break
		}
		switch e := r.Results[0].(type) {
		case *ast.UnaryExpr:
			if cl, ok := e.X.(*ast.CompositeLit); ok && len(cl.Elts) == 0 {
				if t, ok := identName(cl.Type); ok {
					return t, "", nil
				}
			}
		case *ast.CallExpr:
			fn, ok := identName(e.Fun)
			if !ok {
				break
			}
			switch len(e.Args) {
			case 0:
				return "call:" + fn, "", nil
			case 1:
				if a, ok := selName(e.Args[0]); ok {
					return "call:" + fn, a, nil
				}
			}
		}
	case 2:
		ds, ok := stmts[0].(*ast.DeclStmt)
		r, ok2 := stmts[1].(*ast.ReturnStmt)
		if !ok || !ok2 {
			break
		}
		gd := ds.Decl.(*ast.GenDecl)
		if len(gd.Specs) != 1 {
			break
		}
		vs, ok := gd.Specs[0].(*ast.ValueSpec)
		if !ok || len(vs.Names) != 1 || vs.Values != nil {
			break
		}
		t, ok := identName(vs.Type)
		if !ok || len(r.Results) != 1 || renderExpr(f, r.Results[0]) != "&"+vs.Names[0].Name {
			break
		}
		return t, "", nil
	}
	return "", "", fmt.Errorf("pattern body `%s` not recognised", renderNode(f, fl.Body))
}

// c10ReturnsNew: a constructor whose (last) statement is `return &T{…}`.
func c10ReturnsNew(fd *ast.FuncDecl) (string, bool) {
	if len(fd.Body.List) == 0 {
		return "", false
	}
	r, ok := fd.Body.List[len(fd.Body.List)-1].(*ast.ReturnStmt)
	if !ok || len(r.Results) != 1 {
		return "", false
	}
	u, ok := r.Results[0].(*ast.UnaryExpr)
	if !ok {
		return "", false
	}
	cl, ok := u.X.(*ast.CompositeLit)
	if !ok {
		return "", false
	}
	return identName(cl.Type)
}

// c10ConsumeShape classifies a ConsumeAsPartial body.
func c10ConsumeShape(f *file, fd *ast.FuncDecl) string {
	recv := c10Recv(fd)
	stmts := fd.Body.List
	// strip leading panic guards
	for len(stmts) > 0 {
		is, ok := stmts[0].(*ast.IfStmt)
		if !ok || is.Else != nil || is.Init != nil || len(is.Body.List) != 1 {
			break
		}
		es, ok := is.Body.List[0].(*ast.ExprStmt)
		if !ok {
			break
		}
		if _, ok := callTo(es.X, "panic"); !ok {
			break
		}
		stmts = stmts[1:]
	}
	if len(stmts) != 1 {
		return "custom"
	}
	es, ok := stmts[0].(*ast.ExprStmt)
	if !ok {
		return "custom"
	}
	c, ok := es.X.(*ast.CallExpr)
	if !ok || len(c.Args) != 1 {
		return "custom"
	}
	n, _ := selName(c.Fun)
	if n == recv+".Consume" || n == recv+".consumeVal" {
		if a, ok := identName(c.Args[0]); ok && len(fd.Type.Params.List) == 1 && len(fd.Type.Params.List[0].Names) == 1 && a == fd.Type.Params.List[0].Names[0].Name {
			return "consume"
		}
	}
	return "custom"
}
