package hlib

// Helpers for the vector-runtime checks (C03 / C09): vector copies of lake objects.

import (
	"context"
	"fmt"

	"github.com/brimdata/super/api"
	"github.com/segmentio/ksuid"
)

// AddVectors creates vector (VNG) copies of all data objects of pool@branch that have
// none yet, in one commit, and returns the number of objects.
func (l *TLake) AddVectors(pool, branch string) (n int, err error) {
	e, _ := Protect(func() error {
		ids, err := l.ObjectIDs(pool, branch)
		if err != nil {
			return err
		}
		var ks []ksuid.KSUID
		for _, s := range ids {
			if len(s) >= 2 && s[0] == '"' {
				s = s[1 : len(s)-1]
			}
			k, err := ksuid.Parse(s)
			if err != nil {
				return fmt.Errorf("object id %q: %w", s, err)
			}
			ks = append(ks, k)
		}
		n = len(ks)
		if n == 0 {
			return nil
		}
		_, err = l.LK.AddVectors(context.Background(), pool, branch, ks, api.CommitMessage{Author: "verif", Body: "vector add"})
		return err
	})
	return n, e
}

// DeleteVectors removes the vector copies of all data objects of pool@branch.
func (l *TLake) DeleteVectors(pool, branch string) error {
	e, _ := Protect(func() error {
		ids, err := l.ObjectIDs(pool, branch)
		if err != nil {
			return err
		}
		var ks []ksuid.KSUID
		for _, s := range ids {
			if len(s) >= 2 && s[0] == '"' {
				s = s[1 : len(s)-1]
			}
			k, err := ksuid.Parse(s)
			if err != nil {
				return err
			}
			ks = append(ks, k)
		}
		if len(ks) == 0 {
			return nil
		}
		_, err = l.LK.DeleteVectors(context.Background(), pool, branch, ks, api.CommitMessage{Author: "verif", Body: "vector delete"})
		return err
	})
	return e
}
