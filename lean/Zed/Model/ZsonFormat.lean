import Zed.Model.ZsonTy
/-!
  C02 — the ZSON formatter (`zson/formatter.go`, `zson/zson.go`) as a pure function from
  (formatter typedef state, type, value) to the abstract syntax the real parser produces for
  the text the real formatter writes.  Layout (pretty-printing) produces no tokens and is
  therefore absent: `fmtTop` has no `pretty` argument at all (`pretty_irrelevant`).

  Mirrors, function by function: `Implied`, `SelfDescribing`, `hasName`, `nameOf`,
  `saveType`, `formatValueAndDecorate`, `formatValue(known, parentImplied, decorate)`,
  `decorate`, `formatRecord`, `formatVector`, `elemHelper.add/needsDecoration`,
  `formatUnion`, `formatMap`, `Formatter.formatType/formatTypeBody` (typedef saved *before*
  the children; error types use the canonical printer with a fresh table), the package-level
  `formatType` / `zed.AppendTypeValue` (typedef saved *after* the children).
-/
namespace Zed.Zson
open Generated

def assoc (n : Name) : List (Name × Ty) → Option Ty
  | [] => none
  | (m, t) :: r => if m = n then some t else assoc n r

structure FState where
  typedefs : List (Name × Ty) := []
  permanent : Option (List (Name × Ty)) := none
  persist : Name → Bool := fun _ => false

namespace FState
/-- `Formatter.hasName`: the *name* is bound (to whatever type). -/
def hasName (st : FState) : Ty → Bool
  | .named n _ =>
    (assoc n st.typedefs).isSome ||
      (match st.permanent with | some p => (assoc n p).isSome | none => false)
  | _ => false

/-- `Formatter.nameOf`: the name is bound to exactly this type (`""` means "no"). -/
def nameOf (st : FState) : Ty → Option Name
  | .named n u =>
    if n = [] then none
    else if assoc n st.typedefs = some (.named n u) then some n
    else match st.permanent with
      | some p => if assoc n p = some (.named n u) then some n else none
      | none => none
  | _ => none

/-- `Formatter.saveType`. -/
def saveType (st : FState) (n : Name) (t : Ty) : FState :=
  { st with
    typedefs := (n, t) :: st.typedefs
    permanent := match st.permanent with
      | some p => if st.persist n then some ((n, t) :: p) else some p
      | none => none }

/-- `FormatRecord`: typedefs are reset, the permanent table survives. -/
def resetTypedefs (st : FState) : FState := { st with typedefs := [] }
end FState

mutual
/-- `zson.Implied` over the regenerated primitive set. -/
def implied : Ty → Bool
  | .prim id => C02.impliedPrims.contains id
  | .record fs => impliedFields fs
  | .array t => implied t
  | .set t => implied t
  | .map k v => implied k && implied v
  | .error t => implied t
  | .union _ => false
  | .enum _ => false
  | .named _ _ => false
def impliedFields : Fields → Bool
  | .nil => true
  | .cons _ t r => implied t && impliedFields r
end

/-- `zson.SelfDescribing`. -/
def selfDescribing : Ty → Bool
  | .named _ u => selfDescribing u
  | .record _ => true
  | .array _ => true
  | .set _ => true
  | .map _ _ => true
  | t => implied t

/-! ### primitive text classification (what `Parser.matchPrimitive` says about the text) -/

def decNat : Bytes → Nat → Nat
  | [], acc => acc
  | b :: r, acc => decNat r (acc * 10 + (b.toNat - 48))

def maxInt64 : Nat := 9223372036854775807

/-- The `Type` field of the `astzed.Primitive` the parser builds from the text the formatter
    printed for a primitive of type `id`: decimal integers are `int64` when they fit and
    `uint64` otherwise, every float spelling is `float64`, everything else is its own type. -/
def lexClass (id : Nat) (text : Bytes) : Name :=
  if id ≤ C02.idInt256 then
    if text.head? = some 45 then ascii "int64"
    else if decNat text 0 ≤ maxInt64 then ascii "int64" else ascii "uint64"
  else if C02.idFloat16 ≤ id ∧ id ≤ C02.idFloat256 then ascii "float64"
  else primName id

def nullAny : AAny := .prim (ascii "null") (ascii "null")

/-! ### canonical type printer (`formatType` function, `zed.AppendTypeValue`) -/

mutual
def canonType (defs : List (Name × Ty)) : Ty → List (Name × Ty) × ATy
  | .named n u =>
    if assoc n defs = some (.named n u) then (defs, .name n)
    else
      let (d1, a) := canonType defs u
      ((n, .named n u) :: d1, .def_ n a)
  | .prim id => (defs, .prim (primName id))
  | .record fs => let (d, a) := canonFields defs fs; (d, .record a)
  | .array t => let (d, a) := canonType defs t; (d, .array a)
  | .set t => let (d, a) := canonType defs t; (d, .set a)
  | .map k v =>
    let (d1, a) := canonType defs k
    let (d2, b) := canonType d1 v
    (d2, .map a b)
  | .union ts => let (d, a) := canonTys defs ts; (d, .union a)
  | .enum syms => (defs, .enum syms)
  | .error t => let (d, a) := canonType defs t; (d, .error a)
def canonFields (defs : List (Name × Ty)) : Fields → List (Name × Ty) × AFields
  | .nil => (defs, .nil)
  | .cons n t r =>
    let (d1, a) := canonType defs t
    let (d2, b) := canonFields d1 r
    (d2, .cons n a b)
def canonTys (defs : List (Name × Ty)) : Tys → List (Name × Ty) × ATys
  | .nil => (defs, .nil)
  | .cons t r =>
    let (d1, a) := canonType defs t
    let (d2, b) := canonTys d1 r
    (d2, .cons a b)
end

/-! ### `Formatter.formatType` -/

mutual
def fmtType (st : FState) : Ty → FState × ATy
  | .named n u =>
    match st.nameOf (.named n u) with
    | some m => (st, .name m)
    | none =>
      let st1 := st.saveType n (.named n u)
      let (st2, a) := fmtType st1 u
      (st2, .def_ n a)
  | .prim id => (st, .prim (primName id))
  | .record fs => let (s, a) := fmtTypeFields st fs; (s, .record a)
  | .array t => let (s, a) := fmtType st t; (s, .array a)
  | .set t => let (s, a) := fmtType st t; (s, .set a)
  | .map k v =>
    let (s1, a) := fmtType st k
    let (s2, b) := fmtType s1 v
    (s2, .map a b)
  | .union ts => let (s, a) := fmtTypeTys st ts; (s, .union a)
  | .enum syms => (st, .enum syms)
  | .error t => (st, .error (canonType [] t).2)
def fmtTypeFields (st : FState) : Fields → FState × AFields
  | .nil => (st, .nil)
  | .cons n t r =>
    let (s1, a) := fmtType st t
    let (s2, b) := fmtTypeFields s1 r
    (s2, .cons n a b)
def fmtTypeTys (st : FState) : Tys → FState × ATys
  | .nil => (st, .nil)
  | .cons t r =>
    let (s1, a) := fmtType st t
    let (s2, b) := fmtTypeTys s1 r
    (s2, .cons a b)
end

/-- `Formatter.decorate(typ, known, null)`. -/
def decorateM (st : FState) (t : Ty) (known null : Bool) : FState × List Deco :=
  if known || (!(null && t != tyNull) && implied t) then (st, [])
  else match st.nameOf t with
    | some n => (st, [.cast (.name n)])
    | none =>
      if selfDescribing t && !null then
        match t with
        | .named n _ => (st.saveType n t, [.def_ n])
        | _ => (st, [])
      else
        let (st1, a) := fmtType st t
        (st1, [.cast a])

/-! ### `elemHelper` -/

/-- `elemHelper.add`'s view of an element of a container whose element type is a union
    (possibly under names): the member type the element is formatted with. -/
def elemMember : Ty → Val → Option Ty
  | .named _ u, .named v => elemMember u v
  | .union ts, .union tag _ => ts.get? tag
  | _, _ => none

def seenAdd (seen : List Ty) : Option Ty → List Ty
  | some t => if seen.contains t then seen else t :: seen
  | none => seen

def seenTypes (et : Ty) : Vals → List Ty → List Ty
  | .nil, seen => seen
  | .cons v r, seen => seenTypes et r (seenAdd seen (elemMember et v))

def seenKeys (kt : Ty) : Entries → List Ty → List Ty
  | .nil, seen => seen
  | .cons k _ r, seen => seenKeys kt r (seenAdd seen (elemMember kt k))

def seenVals (vt : Ty) : Entries → List Ty → List Ty
  | .nil, seen => seen
  | .cons _ v r, seen => seenVals vt r (seenAdd seen (elemMember vt v))

def unionLen : Ty → Option Nat
  | .union ts => some ts.length
  | _ => none

/-- `elemHelper.needsDecoration`. -/
def needsDecoration (et : Ty) (seen : List Ty) : Bool :=
  match unionLen et.under with
  | some n => et.isNamed || decide (seen.length < n)
  | none => false

def finish (st : FState) (t : Ty) (parentKnown decorate null : Bool) (a : AAny) (ds : List Deco) :
    FState × AAny × List Deco :=
  if decorate then
    let (st1, ds1) := decorateM st t parentKnown null
    (st1, a, ds ++ ds1)
  else (st, a, ds)

/-! ### `Formatter.formatValue` -/

mutual
/-- `elem = true`: the value is an element of an array / set / map and goes through
    `elemHelper.add` first (which, for a union element type, turns a null into a `null` of
    type null and any other element into its member value and member type). -/
def fmtValue (st : FState) (t : Ty) (v : Val) (parentKnown parentImplied decorate elem : Bool) :
    FState × AAny × List Deco :=
  match v with
  | .null =>
    if elem && t.under.isUnion then (st, nullAny, [])
    else
      let pk := if parentImplied then false else parentKnown
      if decorate then
        let (st1, ds) := decorateM st t pk true
        (st1, nullAny, ds)
      else (st, nullAny, [])
  | .prim text =>
    match t with
    | .prim id => finish st t parentKnown decorate false (.prim (lexClass id text) text) []
    | _ => (st, .nil, [])
  | .typeval ty =>
    match t with
    | .prim _ => finish st t parentKnown decorate false (.typeval (canonType [] ty).2) []
    | _ => (st, .nil, [])
  | .named v' =>
    match t with
    | .named _ u =>
      if elem && u.under.isUnion then fmtValue st u v' parentKnown parentImplied decorate true
      else
        let known := parentKnown || st.hasName t
        let (st1, a, ds) := fmtValue st u v' known parentImplied false false
        finish st1 t parentKnown decorate false a ds
    | _ => (st, .nil, [])
  | .record vs =>
    match t with
    | .record fs =>
      let known := parentKnown || st.hasName t
      let (st1, a) := fmtFields st fs vs known parentImplied
      finish st1 t parentKnown decorate false (.record a) []
    | _ => (st, .nil, [])
  | .array vs =>
    match t with
    | .array et =>
      let known := parentKnown || st.hasName t
      let (st1, a) := fmtElems st et vs known parentImplied
      let null := match vs with | .nil => true | _ => false
      let (st2, ds) :=
        if !null && needsDecoration et (seenTypes et vs []) then decorateM st1 t false true else (st1, [])
      finish st2 t parentKnown decorate null (.array a) ds
    | _ => (st, .nil, [])
  | .set vs =>
    match t with
    | .set et =>
      let known := parentKnown || st.hasName t
      let (st1, a) := fmtElems st et vs known parentImplied
      let null := match vs with | .nil => true | _ => false
      let (st2, ds) :=
        if !null && needsDecoration et (seenTypes et vs []) then decorateM st1 t false true else (st1, [])
      finish st2 t parentKnown decorate null (.set a) ds
    | _ => (st, .nil, [])
  | .map es =>
    match t with
    | .map kt vt =>
      let known := parentKnown || st.hasName t
      let (st1, a) := fmtEntries st kt vt es known parentImplied
      let null := match es with | .nil => true | _ => false
      let (st2, ds) :=
        if needsDecoration kt (seenKeys kt es []) || needsDecoration vt (seenVals vt es [])
        then decorateM st1 t false true else (st1, [])
      finish st2 t parentKnown decorate null (.map a) ds
    | _ => (st, .nil, [])
  | .union tag v' =>
    match t with
    | .union ts =>
      if elem then
        -- `elemHelper.add` untagged the element: it is formatted as its member
        fmtValue st ((ts.get? tag).getD tyNull) v' parentKnown parentImplied decorate false
      else
        -- `formatUnion`: known = false, parentImplied = true, decorate = true
        let (st1, a, ds) := fmtValue st ((ts.get? tag).getD tyNull) v' false true true false
        finish st1 t parentKnown decorate false a ds
    | _ => (st, .nil, [])
  | .enum sel =>
    match t with
    | .enum syms => finish st t parentKnown decorate false (.enum (syms.getD sel [])) []
    | _ => (st, .nil, [])
  | .error v' =>
    match t with
    | .error u =>
      let known := parentKnown || st.hasName t
      let (st1, a, ds) := fmtValue st u v' known parentImplied false false
      finish st1 t parentKnown decorate false (.error (mkVal a ds)) []
    | _ => (st, .nil, [])
def fmtFields (st : FState) (fs : Fields) (vs : Vals) (known parentImplied : Bool) : FState × AVFields :=
  match vs, fs with
  | .cons v r, .cons n t fr =>
    let (st1, a, ds) := fmtValue st t v known parentImplied true false
    let (st2, rest) := fmtFields st1 fr r known parentImplied
    (st2, .cons n (mkVal a ds) rest)
  | _, _ => (st, .nil)
def fmtElems (st : FState) (et : Ty) (vs : Vals) (known parentImplied : Bool) : FState × AVals :=
  match vs with
  | .cons v r =>
    let (st1, a, ds) := fmtValue st et v known parentImplied true true
    let (st2, rest) := fmtElems st1 et r known parentImplied
    (st2, .cons (mkVal a ds) rest)
  | .nil => (st, .nil)
def fmtEntries (st : FState) (kt vt : Ty) (es : Entries) (known parentImplied : Bool) : FState × AEntries :=
  match es with
  | .cons k v r =>
    let (st1, ka, kds) := fmtValue st kt k known parentImplied true true
    let (st2, va, vds) := fmtValue st1 vt v known parentImplied true true
    let (st3, rest) := fmtEntries st2 kt vt r known parentImplied
    (st3, .cons (mkVal ka kds) (mkVal va vds) rest)
  | .nil => (st, .nil)
end

/-- `Formatter.formatValueAndDecorate` = `Formatter.Format`. -/
def fmtTop (st : FState) (t : Ty) (v : Val) : FState × AVal :=
  let known := st.hasName t
  let imp := implied t
  let (st1, a, ds) := fmtValue st t v known imp false false
  let (st2, ds2) := decorateM st1 t false v.isNull
  (st2, mkVal a (ds ++ ds2))

/-- `Formatter.FormatRecord`. -/
def fmtRecordTop (st : FState) (t : Ty) (v : Val) : FState × AVal :=
  fmtTop st.resetTypedefs t v

/-- `FormatType` (also the body of a type value). -/
def fmtTypeTop (t : Ty) : ATy := (canonType [] t).2

end Zed.Zson
