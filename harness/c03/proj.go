package main

import (
	"fmt"
	"strings"

	. "verifharness/hlib"
)

// genPaths draws a prefix-free set of field paths from the record types of the case
// (existing at top level, nested, absent from some or all types), as the demand analysis
// would produce them.
func genPaths(c *Ctx, vc *vcase) [][]string {
	r := c.Rng
	var cands [][]string
	var walk func(t *TSpec, prefix []string, depth int)
	walk = func(t *TSpec, prefix []string, depth int) {
		for t.Kind == "named" || t.Kind == "error" {
			t = t.Elems[0]
		}
		if t.Kind != "record" || depth > 2 {
			return
		}
		for _, f := range t.Fields {
			p := append(append([]string{}, prefix...), f.Name)
			cands = append(cands, p)
			walk(f.Type, p, depth+1)
		}
	}
	for _, t := range vc.Types {
		walk(t, nil, 0)
	}
	cands = append(cands, []string{"zz"}, []string{"a", "zz"}, []string{"a"}, []string{"b", "c"})
	n := 1 + r.Intn(3)
	var out [][]string
	for tries := 0; len(out) < n && tries < 20; tries++ {
		p := cands[r.Intn(len(cands))]
		ok := true
		for _, q := range out {
			if isPrefix(p, q) || isPrefix(q, p) {
				ok = false
			}
		}
		if ok {
			out = append(out, p)
		}
	}
	return out
}

func isPrefix(a, b []string) bool {
	if len(a) > len(b) {
		return false
	}
	for i := range a {
		if a[i] != b[i] {
			return false
		}
	}
	return true
}

func pathsSexp(paths [][]string) string {
	var sb strings.Builder
	sb.WriteString("(paths")
	for _, p := range paths {
		sb.WriteString(" (")
		for i, e := range p {
			if i > 0 {
				sb.WriteByte(' ')
			}
			sb.WriteString(HexAtom([]byte(e)))
		}
		sb.WriteByte(')')
	}
	sb.WriteByte(')')
	return sb.String()
}

func pathsText(paths [][]string) string {
	var out []string
	for _, p := range paths {
		out = append(out, strings.Join(p, "."))
	}
	return strings.Join(out, ",")
}

// checkProj: the real projection of every value must be the model's `restrict` of the input
// value (the data at the requested paths, error("missing") for absent paths).
func (h *harness) checkProj(vc *vcase, feat map[string]bool) {
	c := h.c
	if feat["enum"] || feat["null-union"] || feat["error-under-null"] {
		c.Stat("proj:skipped(known-broken feature)")
		return
	}
	c.Stat("proj:cases")
	c.Stat(fmt.Sprintf("proj:paths:%d", len(vc.Paths)))
	want := c.Model().Call("(C03 restrict " + pathsSexp(vc.Paths) + " " + vc.modelInput() + ")")
	c.Res.ModelCases++
	bad := func(x *vcase) string {
		o, rows := h.pathOutcome(x, "proj")
		if o != "" {
			return o
		}
		w := want
		if x != vc {
			w = c.Model().Call("(C03 restrict " + pathsSexp(x.Paths) + " " + x.modelInput() + ")")
		}
		if got := modelOf(rows); got != w {
			return "diff projection " + firstDiffText(w, got)
		}
		return ""
	}
	o := bad(vc)
	if o == "" {
		// T2: the model's loader + projection over the real columns gives the same rows
		if resp, crashed, _ := h.call(vc, []string{"dump"}, ""); !crashed && resp.DumpErr == "" && resp.Dump != "" {
			c.Res.ModelCases++
			if mv := c.Model().Call("(C03 vec " + pathsSexp(vc.Paths) + " " + resp.Dump + ")"); mv != want {
				c.Fail("correspondence", "C03:corr:projvec", fmt.Sprintf("model projection of the loaded vectors differs from the specification `restrict` (and the real projection): paths %s model=%s want=%s", pathsText(vc.Paths), trunc(mv, 300), trunc(want, 300)), vc.replay("proj"))
			} else {
				c.Stat("projm:agrees")
			}
		}
		return
	}
	if o2 := bad(vc); o2 == "" {
		c.Stat("proj:unconfirmed")
		return
	}
	cls := outcomeClass(o)
	if h.seenClass == nil {
		h.seenClass = map[string]bool{}
	}
	if cls == "panic" || cls == "crash" {
		if resp, crashed, _ := h.call(vc, []string{"dump"}, ""); !crashed && resp.Dump != "" &&
			c.Model().Call("(C03 projcrash "+pathsSexp(vc.Paths)+" "+resp.Dump+")") == "1" {
			if h.seenClass["proj:nested-record-partial-load"] {
				c.Stat("proj:repeat-of-reported-class:nested-record-partial-load")
				return
			}
			h.seenClass["proj:nested-record-partial-load"] = true
		}
	}
	min := shrinkCase(vc, func(x *vcase) bool {
		oc := outcomeClass(bad(x))
		if cls == "crash" || cls == "panic" {
			return oc == "crash" || oc == "panic"
		}
		return oc == cls
	}, 100)
	o2 := bad(min)
	if o2 == "" {
		o2, min = o, vc
	}
	kind := "oracle"
	if oc := outcomeClass(o2); oc == "crash" || oc == "panic" {
		kind = "panic"
	}
	class := vecClass(min, o2)
	if kind == "panic" && class == "other-panic" {
		// the model's account of the nil-vector panic: a record below an array / set / map /
		// union loaded only at the projected fields
		if resp, crashed, _ := h.call(min, []string{"dump"}, ""); !crashed && resp.Dump != "" {
			if c.Model().Call("(C03 projcrash "+pathsSexp(min.Paths)+" "+resp.Dump+")") == "1" {
				class = "nested-record-partial-load"
			}
		}
	}
	c.Fail(kind, "C03:projection:"+class,
		fmt.Sprintf("projection %s of %d value(s) of type(s) %s: %s", pathsText(min.Paths), len(min.Seq), trunc(typesOf(min), 200), trunc(o2, 400)),
		min.replay("proj"))
}

func firstDiffText(want, got string) string {
	n := len(want)
	if len(got) < n {
		n = len(got)
	}
	i := 0
	for i < n && want[i] == got[i] {
		i++
	}
	lo := i - 60
	if lo < 0 {
		lo = 0
	}
	return fmt.Sprintf("at %d: want …%s got …%s", i, trunc(want[lo:], 200), trunc(got[lo:], 200))
}
