import Zed.Model.Compare
namespace Zed

theorem fastPath_isNumber (id : Nat) (h : fastPathId id = true) : isNumberId id = true := by
  simp [fastPathId, isNumberId, evalBounds, evalBound, Generated.C06.fastPathGuard, Generated.C06.isNumber] at *
  omega

theorem isNumber_of_primId {t : Ty} {id : Nat} (h : t.primId? = some id) (hn : isNumberId id = true) :
    t.isNumber = true := by simp [Ty.isNumber, h, hn]

def nullSentinel (nm : Bool) : Int :=
  sentinelOf (if nm then Generated.C06.fastNullSentinel.1 else Generated.C06.fastNullSentinel.2)

theorem nullSentinel_eq (nm : Bool) : nullSentinel nm = if nm then maxInt64 else minInt64 := by
  cases nm <;> decide

inductive FastShape (nm : Bool) : Val → Int → Prop
  | null (t) : FastShape nm (.null t) (nullSentinel nm)
  | int (t i) : FastShape nm (.num t (.int i)) i
  | uint (t u) : FastShape nm (.num t (.uint u)) (if (u : Int) > maxInt64 then maxInt64 else u)

theorem fastKey_some {nm : Bool} {v : Val} {k : Int} (h : fastKey nm v = some k) :
    ∃ id, v.ty.primId? = some id ∧ fastPathId id = true ∧ FastShape nm v k := by
  unfold fastKey at h
  cases hp : v.ty.primId? with
  | none => simp [hp] at h
  | some id =>
    simp only [hp] at h
    by_cases f : fastPathId id = true
    · refine ⟨id, rfl, f, ?_⟩
      simp only [f, Bool.not_true, Bool.false_eq_true, if_false] at h
      cases v with
      | null t => simp only [Option.some.injEq] at h; subst h; exact FastShape.null t
      | num t n =>
        cases n with
        | int i => simp only [Option.some.injEq] at h; subst h; exact FastShape.int t i
        | uint u => simp only [Option.some.injEq] at h; subst h; exact FastShape.uint t u
        | float f => simp at h
      | _ => simp at h
    · simp [f] at h

end Zed
namespace Zed

/-- what is compared once both values are known to have the same underlying type -/
def cmpSameOf (nm : Bool) : Val → Val → Ordering
  | .seq _ xs, .seq _ ys => cmpVals nm xs ys
  | a, b => cmpLeaf a b

theorem cmpVal_eq (nm : Bool) (a b : Val) : cmpVal nm a b = cmpCore nm a b (cmpSameOf nm a b) := by
  cases a <;> cases b <;> simp [cmpVal, cmpSameOf]

theorem cmpVal_null_null (nm : Bool) (t t' : Ty) : cmpVal nm (.null t) (.null t') = .eq := by
  rw [cmpVal_eq]; simp [cmpCore, Val.isNull, ordOfInt, Generated.C06.bothNull]

theorem cmpVal_null_left (nm : Bool) (t : Ty) (b : Val) (hb : b.isNull = false) :
    cmpVal nm (.null t) b = if nm then .gt else .lt := by
  rw [cmpVal_eq]
  have h1 : (Val.null t).isNull = true := rfl
  cases nm <;> simp [cmpCore, h1, hb, ordOfInt, Generated.C06.nullA]

theorem cmpVal_null_right (nm : Bool) (t : Ty) (a : Val) (ha : a.isNull = false) :
    cmpVal nm a (.null t) = if nm then .lt else .gt := by
  rw [cmpVal_eq]
  have h1 : (Val.null t).isNull = true := rfl
  cases nm <;> simp [cmpCore, h1, ha, ordOfInt, Generated.C06.nullB]

theorem cmpVal_num (nm : Bool) (t t' : Ty) (n n' : Num) (ht : t.isNumber = true) (ht' : t'.isNumber = true) :
    cmpVal nm (.num t n) (.num t' n') = cmpNum n n' := by
  rw [cmpVal_eq]; simp [cmpCore, Val.isNull, Val.ty, Val.num?, ht, ht']

theorem int_range {id : Nat} {i : Int} (h : numOk id (.int i) = true) : minInt64 ≤ i ∧ i ≤ maxInt64 := by
  simp [numOk] at h; exact ⟨h.1.2, h.2⟩

theorem ok_num {t : Ty} {n : Num} {id : Nat} (h : (Val.num t n).ok = true) (hp : t.primId? = some id) :
    numOk id n = true := by
  simp [Val.ok, hp] at h; exact h.2

theorem min_neg : minInt64 < 0 := by decide
theorem max_pos : 0 < maxInt64 := by decide

theorem fastKey_cmp (nm : Bool) (x y : Val) (ka kb : Int)
    (hx : fastKey nm x = some ka) (hy : fastKey nm y = some kb) (okx : x.ok = true) (oky : y.ok = true) :
    (ka ≠ kb → cmpVal nm x y = if ka < kb then .lt else .gt) ∧
    (ka = kb → ka ≠ maxInt64 → ka ≠ minInt64 → cmpVal nm x y = .eq) := by
  obtain ⟨idx, hpx, fx, sx⟩ := fastKey_some hx
  obtain ⟨idy, hpy, fy, sy⟩ := fastKey_some hy
  have nx := isNumber_of_primId hpx (fastPath_isNumber _ fx)
  have ny := isNumber_of_primId hpy (fastPath_isNumber _ fy)
  have hmin := min_neg
  have hmax := max_pos
  cases sx with
  | null t =>
    cases sy with
    | null t' =>
      rw [cmpVal_null_null, nullSentinel_eq]
      refine ⟨fun h => absurd rfl h, fun _ h2 h3 => ?_⟩
      cases nm
      · exact absurd rfl h3
      · exact absurd rfl h2
    | int t' j =>
      have r := int_range (ok_num oky hpy)
      rw [cmpVal_null_left nm t _ rfl, nullSentinel_eq]
      cases nm
      · simp only [Bool.false_eq_true, if_false]
        refine ⟨fun h => ?_, fun _ _ h3 => absurd rfl h3⟩
        rw [if_pos (by omega)]
      · simp only [if_true]
        refine ⟨fun h => ?_, fun _ h2 _ => absurd rfl h2⟩
        rw [if_neg (by omega)]
    | uint t' u =>
      rw [cmpVal_null_left nm t _ rfl, nullSentinel_eq]
      cases nm
      · simp only [Bool.false_eq_true, if_false]
        refine ⟨fun h => ?_, fun _ _ h3 => absurd rfl h3⟩
        rw [if_pos (by split <;> omega)]
      · simp only [if_true]
        refine ⟨fun h => ?_, fun _ h2 _ => absurd rfl h2⟩
        rw [if_neg (by split <;> omega)]
  | int t i =>
    have ri := int_range (ok_num okx hpx)
    cases sy with
    | null t' =>
      rw [cmpVal_null_right nm t' _ rfl, nullSentinel_eq]
      cases nm
      · simp only [Bool.false_eq_true, if_false]
        refine ⟨fun h => ?_, fun h _ h3 => absurd h h3⟩
        rw [if_neg (by omega)]
      · simp only [if_true]
        refine ⟨fun h => ?_, fun h h2 _ => absurd h h2⟩
        rw [if_pos (by omega)]
    | int t' j =>
      simp only [Val.ty] at nx ny
      rw [cmpVal_num nm t t' _ _ nx ny]
      simp only [cmpNum]
      constructor
      · intro h
        split
        · rename_i hl; exact Int.compare_eq_lt.mpr hl
        · rename_i hl; exact Int.compare_eq_gt.mpr (by omega)
      · intro h _ _; exact Int.compare_eq_eq.mpr h
    | uint t' u =>
      simp only [Val.ty] at nx ny
      rw [cmpVal_num nm t t' _ _ nx ny]
      simp only [cmpNum]
      constructor
      · intro h
        by_cases hu : (u : Int) > maxInt64
        · simp only [hu, if_true] at h ⊢
          have h1 : ka < maxInt64 := by omega
          simp only [h1, if_true]
          by_cases hi : ka < 0
          · simp only [hi, if_true]
          · simp only [hi, if_false]; exact Nat.compare_eq_lt.mpr (by omega)
        · simp only [hu, if_false] at h ⊢
          by_cases hi : ka < 0
          · have h1 : ka < (u : Int) := by omega
            simp only [hi, h1, if_true]
          · simp only [hi, if_false]
            by_cases hl : ka < (u : Int)
            · simp only [hl, if_true]; exact Nat.compare_eq_lt.mpr (by omega)
            · simp only [hl, if_false]; exact Nat.compare_eq_gt.mpr (by omega)
      · intro h h2 h3
        by_cases hu : (u : Int) > maxInt64
        · simp only [hu, if_true] at h; exact absurd h h2
        · simp only [hu, if_false] at h
          have hi : ¬ ka < 0 := by omega
          simp only [hi, if_false]; exact Nat.compare_eq_eq.mpr (by omega)
  | uint t u =>
    cases sy with
    | null t' =>
      rw [cmpVal_null_right nm t' _ rfl, nullSentinel_eq]
      cases nm
      · simp only [Bool.false_eq_true, if_false]
        refine ⟨fun h => ?_, fun h _ h3 => absurd h h3⟩
        rw [if_neg (by split <;> omega)]
      · simp only [if_true]
        refine ⟨fun h => ?_, fun h h2 _ => absurd h h2⟩
        by_cases hu : (u : Int) > maxInt64
        · rw [if_pos hu] at h; exact absurd rfl h
        · rw [if_neg hu] at h ⊢; rw [if_pos (by omega)]
    | int t' j =>
      have rj := int_range (ok_num oky hpy)
      simp only [Val.ty] at nx ny
      rw [cmpVal_num nm t t' _ _ nx ny]
      simp only [cmpNum]
      constructor
      · intro h
        by_cases hu : (u : Int) > maxInt64
        · simp only [hu, if_true] at h ⊢
          have h1 : ¬ maxInt64 < kb := by omega
          simp only [h1, if_false]
          by_cases hj : kb < 0
          · simp only [hj, if_true]
          · simp only [hj, if_false]; exact Nat.compare_eq_gt.mpr (by omega)
        · simp only [hu, if_false] at h ⊢
          by_cases hj : kb < 0
          · have h1 : ¬ (u : Int) < kb := by omega
            simp only [hj, h1, if_true, if_false]
          · simp only [hj, if_false]
            by_cases hl : (u : Int) < kb
            · simp only [hl, if_true]; exact Nat.compare_eq_lt.mpr (by omega)
            · simp only [hl, if_false]; exact Nat.compare_eq_gt.mpr (by omega)
      · intro h h2 h3
        by_cases hu : (u : Int) > maxInt64
        · simp only [hu, if_true] at h2; exact absurd rfl h2
        · simp only [hu, if_false] at h
          have hj : ¬ kb < 0 := by omega
          simp only [hj, if_false]; exact Nat.compare_eq_eq.mpr (by omega)
    | uint t' v =>
      simp only [Val.ty] at nx ny
      rw [cmpVal_num nm t t' _ _ nx ny]
      simp only [cmpNum]
      constructor
      · intro h
        by_cases hu : (u : Int) > maxInt64 <;> by_cases hv : (v : Int) > maxInt64
        · rw [if_pos hu, if_pos hv] at h; exact absurd rfl h
        · rw [if_pos hu, if_neg hv, if_neg (by omega)]; exact Nat.compare_eq_gt.mpr (by omega)
        · rw [if_neg hu, if_pos hv, if_pos (by omega)]; exact Nat.compare_eq_lt.mpr (by omega)
        · rw [if_neg hu, if_neg hv] at h ⊢
          by_cases hl : (u : Int) < v
          · rw [if_pos hl]; exact Nat.compare_eq_lt.mpr (by omega)
          · rw [if_neg hl]; exact Nat.compare_eq_gt.mpr (by omega)
      · intro h h2 h3
        by_cases hu : (u : Int) > maxInt64
        · rw [if_pos hu] at h2; exact absurd rfl h2
        · by_cases hv : (v : Int) > maxInt64
          · rw [if_neg hu, if_pos hv] at h; omega
          · rw [if_neg hu, if_neg hv] at h; exact Nat.compare_eq_eq.mpr (by omega)

end Zed
namespace Zed

theorem lessFast_eq (nm : Bool) (dirs : List Bool) (a b : Row) (x y : Val) (xs ys : List Val) (ka kb : Int)
    (ha : a.keys = x :: xs) (hb : b.keys = y :: ys)
    (hx : fastKey nm x = some ka) (hy : fastKey nm y = some kb) (okx : x.ok = true) (oky : y.ok = true) :
    lessFast nm dirs a b ka kb = lessSlow nm dirs a b := by
  unfold lessFast lessSlow cmpRow
  rw [ha, hb]
  cases dirs with
  | nil => simp [cmpKeys]
  | cons d ds =>
    simp only [cmpKeys]
    cases d with
    | false =>
      simp only [Bool.false_eq_true, if_false]
      have k := fastKey_cmp nm x y ka kb hx hy okx oky
      by_cases hne : ka = kb
      · simp only [hne, ne_eq, not_true_eq_false, if_false]
        by_cases hs : kb ≠ maxInt64 ∧ kb ≠ minInt64
        · have := k.2 hne (hne ▸ hs.1) (hne ▸ hs.2)
          simp [hs, this]
        · simp only [hs, if_false]
          cases cmpVal nm x y <;> simp
      · have := k.1 hne
        simp only [ne_eq, hne, not_false_eq_true, if_true, this]
        by_cases hl : ka < kb <;> simp [hl]
    | true =>
      simp only [if_true]
      have k := fastKey_cmp nm y x kb ka hy hx oky okx
      by_cases hne : kb = ka
      · simp only [hne, ne_eq, not_true_eq_false, if_false]
        by_cases hs : ka ≠ maxInt64 ∧ ka ≠ minInt64
        · have := k.2 hne (hne ▸ hs.1) (hne ▸ hs.2)
          simp [hs, this]
        · simp only [hs, if_false]
          cases cmpVal nm y x <;> simp
      · have := k.1 hne
        simp only [ne_eq, hne, not_false_eq_true, if_true, this]
        by_cases hl : kb < ka <;> simp [hl]

theorem lessUsed_eq (nm : Bool) (dirs : List Bool) (rows : List Row) (a b : Row)
    (oka : ∀ k ∈ a.keys, k.ok = true) (okb : ∀ k ∈ b.keys, k.ok = true) :
    lessUsed nm dirs rows a b = lessSlow nm dirs a b := by
  unfold lessUsed
  split
  · cases ha : a.keys with
    | nil => rfl
    | cons x xs =>
      cases hb : b.keys with
      | nil => rfl
      | cons y ys =>
        simp only
        cases hx : fastKey nm x with
        | none => rfl
        | some ka =>
          cases hy : fastKey nm y with
          | none => rfl
          | some kb =>
            simp only
            exact lessFast_eq nm dirs a b x y xs ys ka kb ha hb hx hy (oka x (by simp [ha])) (okb y (by simp [hb]))
  · rfl

/-- the bulk sorter (int64 fast path included) sorts exactly like the plain Comparator -/
theorem sortRows_eq_ref (nm : Bool) (dirs : List Bool) (rows : List Row)
    (hok : ∀ r ∈ rows, ∀ k ∈ r.keys, k.ok = true) : sortRows nm dirs rows = sortRowsRef nm dirs rows := by
  unfold sortRows sortRowsRef stableSortBy
  have := List.map_mergeSort (f := id) (r := fun a b => !lessUsed nm dirs rows b a)
    (s := fun a b => !lessSlow nm dirs b a) (l := rows)
    (fun a ha b hb => by simp only [id]; rw [lessUsed_eq nm dirs rows b a (hok b hb) (hok a ha)])
  simpa using this

end Zed
