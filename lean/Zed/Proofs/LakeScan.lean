/-
  The unfiltered scan (lister → slicer → per-partition merge) returns exactly the values
  the scanned objects hold: lister is a permutation, slicer only groups, merge is a
  permutation of the concatenation.  Helper lemmas for C14.
-/
import Zed.Proofs.LakeStable
namespace Zed.Lake
variable {K V : Type}

theorem mergeK_perm (cfg : Cfg K V) (ls : List (List V)) : (mergeK cfg ls).Perm ls.flatten := by
  induction ls with
  | nil => simp [mergeK]
  | cons l ls ih =>
    simp only [mergeK, List.foldr_cons, List.flatten_cons]
    exact (List.merge_perm_append _).trans (List.Perm.append_left l ih)

theorem slicerStep_flat (cfg : Cfg K V) (st : SlicerSt K) (o : Obj K) :
    (slicerStep cfg st o).out.flatten ++ (slicerStep cfg st o).group = st.out.flatten ++ st.group ++ [o] := by
  unfold slicerStep
  simp only []
  split
  · split <;> simp
  · simp

theorem slicer_fold_flat (cfg : Cfg K V) (objs : List (Obj K)) (st : SlicerSt K) :
    (objs.foldl (slicerStep cfg) st).out.flatten ++ (objs.foldl (slicerStep cfg) st).group
      = st.out.flatten ++ st.group ++ objs := by
  induction objs generalizing st with
  | nil => simp
  | cons o os ih => simp only [List.foldl_cons]; rw [ih, slicerStep_flat]; simp

/-- the slicer only groups: the concatenation of its partitions is its input -/
theorem slicer_flatten (cfg : Cfg K V) (objs : List (Obj K)) : (slicer cfg objs).flatten = objs := by
  have h := slicer_fold_flat cfg objs {}
  simp only [List.flatten_nil, List.nil_append] at h
  unfold slicer
  simp only []
  split
  · rename_i he
    have : (objs.foldl (slicerStep cfg) {}).group = [] := by simpa using he
    rw [this] at h; simpa using h
  · simpa using h

theorem lister_perm (cfg : Cfg K V) (objs : List (Obj K)) : (lister cfg objs).Perm objs :=
  List.mergeSort_perm _ _
end Zed.Lake
namespace Zed.Lake
variable {K V : Type}

/-- payload of an object in the file store (empty if the file is gone) -/
def pay (files : List (Nat × List V)) (o : Obj K) : List V := (fileOf files o.id).getD []

theorem payloads_ok (files : List (Nat × List V)) (objs : List (Obj K)) (ls : List (List V))
    (h : payloads files objs = .ok ls) : ls = objs.map (pay files) := by
  induction objs generalizing ls with
  | nil => simp [payloads] at h; simp [h]
  | cons o os ih =>
    unfold payloads at h
    cases ho : fileOf files o.id with
    | none => simp [ho] at h
    | some p =>
      simp only [ho] at h
      cases hr : payloads files os with
      | error e => simp [hr] at h
      | ok r =>
        simp only [hr, Except.ok.injEq] at h
        rw [← h, ih r hr]
        simp [pay, ho]

theorem scanParts_perm (cfg : Cfg K V) (files : List (Nat × List V)) (parts : List (List (Obj K))) (r : List V)
    (h : scanParts cfg files parts = .ok r) : r.Perm (parts.flatten.flatMap (pay files)) := by
  induction parts generalizing r with
  | nil => simp [scanParts] at h; simp [h]
  | cons p ps ih =>
    unfold scanParts at h
    cases hp : payloads files p with
    | error e => simp [hp] at h
    | ok ls =>
      simp only [hp] at h
      cases hr : scanParts cfg files ps with
      | error e => simp [hr] at h
      | ok r' =>
        simp only [hr, Except.ok.injEq] at h
        rw [← h, List.flatten_cons, List.flatMap_append]
        refine List.Perm.append ?_ (ih r' hr)
        rw [payloads_ok files p ls hp]
        have := mergeK_perm cfg (p.map (pay files))
        simpa [List.flatMap] using this

/-- **contents of a scan**: the unfiltered scan of a set of objects returns exactly the values
    the objects hold (as a multiset), whatever the lister order and the partitioning -/
theorem scanObjs_perm (cfg : Cfg K V) (files : List (Nat × List V)) (objs : List (Obj K)) (r : List V)
    (h : scanObjs cfg files objs = .ok r) : r.Perm (objs.flatMap (pay files)) := by
  unfold scanObjs at h
  have h1 := scanParts_perm cfg files _ r h
  rw [slicer_flatten] at h1
  exact h1.trans ((lister_perm cfg objs).flatMap_right _)
end Zed.Lake
