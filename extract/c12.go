package main

import (
	"fmt"
	"go/ast"
	"go/token"
	"strings"
)

// Fact set C12 (shared by C12 and C17): the retry bounds and the order of the storage-level
// calls of the commit protocols, as written in the source.
//
//	lake/journal/store.go   maxRetries, the journal-snapshot rule `head-at > N`, the calls of Store.commit
//	lake/journal/queue.go   the calls of Queue.CommitAt (entry before HEAD)
//	lake/branch.go          maxCommitRetries, the calls of Branch.commit
//	lake/root.go            the calls of Root.CreatePool / Root.RemovePool
func init() { register("C12", genC12) }

func constInt(f *file, name string) (int64, error) {
	for _, d := range f.f.Decls {
		gd, ok := d.(*ast.GenDecl)
		if !ok || gd.Tok != token.CONST {
			continue
		}
		for _, sp := range gd.Specs {
			vs := sp.(*ast.ValueSpec)
			for i, n := range vs.Names {
				if n.Name == name && i < len(vs.Values) {
					if v, ok := intLit(vs.Values[i]); ok {
						return v, nil
					}
					return 0, fmt.Errorf("%s: const %s is not an integer literal", f.pos(vs), name)
				}
			}
		}
	}
	return 0, fmt.Errorf("%s: const %s not found", f.path, name)
}

// callsIn lists, in source order, the calls in fd whose rendered callee passes keep.
func callsIn(fd *ast.FuncDecl, keep func(string) bool) []string {
	var out []string
	ast.Inspect(fd.Body, func(n ast.Node) bool {
		if c, ok := n.(*ast.CallExpr); ok {
			if name, ok := selName(c.Fun); ok && keep(name) {
				out = append(out, name)
			}
		}
		return true
	})
	return out
}

func genC12(repo string) (string, error) {
	var b strings.Builder
	store, err := parseFile(repo, "lake/journal/store.go")
	if err != nil {
		return "", err
	}
	queue, err := parseFile(repo, "lake/journal/queue.go")
	if err != nil {
		return "", err
	}
	branch, err := parseFile(repo, "lake/branch.go")
	if err != nil {
		return "", err
	}
	root, err := parseFile(repo, "lake/root.go")
	if err != nil {
		return "", err
	}
	mr, err := constInt(store, "maxRetries")
	if err != nil {
		return "", err
	}
	mcr, err := constInt(branch, "maxCommitRetries")
	if err != nil {
		return "", err
	}
	fmt.Fprintf(&b, "def maxRetries : Nat := %d\n", mr)
	fmt.Fprintf(&b, "def maxCommitRetries : Nat := %d\n", mcr)

	// the snapshot rule in Store.load: `if head-at > N {`
	load, err := store.funcDecl("Store", "load")
	if err != nil {
		return "", err
	}
	snapN := int64(-1)
	ast.Inspect(load.Body, func(n ast.Node) bool {
		if is, ok := n.(*ast.IfStmt); ok {
			if be, ok := is.Cond.(*ast.BinaryExpr); ok && be.Op == token.GTR {
				if renderExpr(store, be.X) == "head - at" || renderExpr(store, be.X) == "head-at" {
					if v, ok := intLit(be.Y); ok {
						snapN = v
					}
				}
			}
		}
		return true
	})
	if snapN < 0 {
		return "", fmt.Errorf("%s: Store.load: `if head-at > N` not found", store.pos(load))
	}
	fmt.Fprintf(&b, "def snapEvery : Nat := %d\n", snapN)

	// retry loops must have the recognised shape `for X := 0; X < bound; X++`
	checkLoop := func(f *file, fd *ast.FuncDecl, bound string) error {
		found := false
		ast.Inspect(fd.Body, func(n ast.Node) bool {
			if fs, ok := n.(*ast.ForStmt); ok && fs.Cond != nil {
				if be, ok := fs.Cond.(*ast.BinaryExpr); ok && be.Op == token.LSS {
					if y, ok := identName(be.Y); ok && y == bound {
						found = true
					}
				}
			}
			return true
		})
		if !found {
			return fmt.Errorf("%s: %s: no `for … < %s` retry loop", f.pos(fd), fd.Name.Name, bound)
		}
		return nil
	}
	commit, err := store.funcDecl("Store", "commit")
	if err != nil {
		return "", err
	}
	if err := checkLoop(store, commit, "maxRetries"); err != nil {
		return "", err
	}
	commitAt, err := queue.funcDecl("Queue", "CommitAt")
	if err != nil {
		return "", err
	}
	bcommit, err := branch.funcDecl("Branch", "commit")
	if err != nil {
		return "", err
	}
	if err := checkLoop(branch, bcommit, "maxCommitRetries"); err != nil {
		return "", err
	}
	createPool, err := root.funcDecl("Root", "CreatePool")
	if err != nil {
		return "", err
	}
	removePool, err := root.funcDecl("Root", "RemovePool")
	if err != nil {
		return "", err
	}
	fmt.Fprintf(&b, "def commitAtCalls : List String := %s\n", leanStrList(callsIn(commitAt, func(s string) bool {
		return strings.HasPrefix(s, "q.")
	})))
	fmt.Fprintf(&b, "def storeCommitCalls : List String := %s\n", leanStrList(callsIn(commit, func(s string) bool {
		return (strings.HasPrefix(s, "s.") && !strings.Contains(s, ".mu.")) || s == "fn" || s == "os.IsExist"
	})))
	fmt.Fprintf(&b, "def branchCommitCalls : List String := %s\n", leanStrList(callsIn(bcommit, func(s string) bool {
		return strings.HasPrefix(s, "b.pool.") || s == "create"
	})))
	fmt.Fprintf(&b, "def createPoolCalls : List String := %s\n", leanStrList(callsIn(createPool, func(s string) bool {
		return strings.HasPrefix(s, "r.") || s == "CreatePool" || s == "RemovePool"
	})))
	fmt.Fprintf(&b, "def removePoolCalls : List String := %s\n", leanStrList(callsIn(removePool, func(s string) bool {
		return strings.HasPrefix(s, "r.") || s == "RemovePool"
	})))
	return b.String(), nil
}
