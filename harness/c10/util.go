package main

import (
	zed "github.com/brimdata/super"
	"github.com/brimdata/super/zson"
)

func fmtFloat(f float64) string { return zson.FormatValue(zed.NewFloat64(f)) }

func typeValIdent(v zed.Value) string { return zson.String(v.Type()) + "|" + zson.FormatValue(v) }

// probeMain: ad-hoc runs of the real operators (developer aid): zvh probe '<prog>' limit sort row…
func probeMain() {}

// fieldVal returns the named top-level field of a record value (a null field included —
// zed.Value.Deref returns nil for those).
func fieldVal(v zed.Value, name string) (zed.Value, bool) {
	rt := zed.TypeRecordOf(v.Type())
	if rt == nil {
		return zed.Null, false
	}
	i, ok := rt.IndexOfField(name)
	if !ok {
		return zed.Null, false
	}
	it := v.Bytes().Iter()
	for k := 0; !it.Done(); k++ {
		b := it.Next()
		if k == i {
			return zed.NewValue(rt.Fields[i].Type, b), true
		}
	}
	return zed.Null, false
}

func zson_type(v zed.Value) string { return zson.String(v.Type()) }
