/-
  C19 — the lake service behaves exactly like direct access; errors, including errors after a
  query response has started streaming, are delivered to the remote client.
  Property theorems only: the framing logic of api/queryio (model: Zed.Model.SvcQueryio) over
  the tables regenerated from api/queryio/writer.go and api/mime.go (Zed.Generated.C19).
  The equivalence of the two access paths over whole histories is decided by correspondence
  (harness/c19), not by a theorem.
-/
import Zed.Model.SvcQueryio
import Zed.Model.SvcDispatch
import Zed.Model.SvcRecord
namespace Zed.Props.C19
open Zed.Svc

/-! ### Obligations on the regenerated tables -/

/-- The response formats whose writer has a control channel are exactly zjson and zng; every
    other format (zson, json, csv, …) goes through a writer without one. -/
theorem control_formats : Generated.C19.controlFormats = ["zjson", "zng"] := by decide

/-- `Writer.WriteControl` does nothing unless `ctrl` is on and the writer is a controlWriter;
    `Writer.WriteError` returns nothing to the handler. -/
theorem write_control_guards :
    Generated.C19.writeControlGuards = ["!w.ctrl => return nil", "only if w.writer is controlWriter"] ∧
    Generated.C19.writeErrorReturnsNothing = true := by decide

/-- The Accept / Content-Type tables are inverse to each other: the media type the service
    announces for a format is parsed back to that format. -/
theorem mime_roundtrip :
    ∀ p ∈ Generated.C19.formatToMediaType, mediaTypeToFormat p.2 = some p.1 := by decide

/-- … and every media type the service accepts is the one it announces for the format it maps to. -/
theorem mime_roundtrip_inv :
    ∀ p ∈ Generated.C19.mediaTypeToFormat, formatToMediaType p.2 = some p.1 := by decide

/-- the response formats of the property's quantifier are all known to both tables -/
theorem response_formats_known :
    ∀ f ∈ ["zng", "zson", "zjson", "json", "csv"], (formatToMediaType f).isSome = true := by decide

/-- Format negotiation honours the Accept header: asking for exactly the media type of a
    response format yields that format, whatever follows in the list. -/
theorem negotiate_exact :
    ∀ p ∈ Generated.C19.formatToMediaType, ∀ (rest : List String) (dflt : String),
      negotiate dflt (p.2 :: rest) = some p.1 := by
  intro p hp rest dflt
  have h := mime_roundtrip p hp
  have hne : ∀ q ∈ Generated.C19.formatToMediaType, ¬ (q.2 = "" ∨ q.2 = "*/*") := by decide
  simp [negotiate, hne p hp, h]

/-! ### Per-method refinement (handler = decode → lake operation → encode) -/

/-- Every Interface method whose handler is pure dispatch reaches, through the service, the same
    lake operation as direct access (regenerated from lake/api/local.go and service/handlers.go):
    the same call with the same number of arguments, or the local handle's own method. -/
theorem dispatch_same_core :
    ∀ m ∈ ["CreatePool", "RemovePool", "RenamePool", "CreateBranch", "MergeBranch", "Revert", "Load", "Delete",
      "DeleteWhere", "Compact", "AddVectors", "DeleteVectors", "Vacuum"], sameCore m = true := by decide

/-- **remote_refines_local.**  For a method whose handler decodes what the client encoded,
    applies the same guard and reaches the same lake operation: the call through the service
    leaves the lake in the same state and returns the same response or error as direct access,
    for every request and every state. -/
theorem remote_refines_local {σ α ρ ω : Type} (encode : α → ω) (decode : ω → Option α)
    (hcodec : ∀ r, decode (encode r) = some r)
    (guardL guardH : α → Option String) (hguard : ∀ r, guardH r = guardL r)
    (core : α → σ → Outcome σ ρ) (req : α) (s : σ) :
    handlerRun decode guardH core (encode req) s = localRun guardL core req s := by
  simp [handlerRun, hcodec, localRun, hguard]

/-- Both paths reject the empty pool name (regenerated; the handler's check was added by the
    repair 4479a0e7f), so the guard hypothesis of `remote_refines_local` holds for CreatePool. -/
theorem createPool_guards_agree :
    Generated.C19.localChecksEmptyPoolName = true ∧ Generated.C19.handlerChecksEmptyPoolName = true := by
  decide

/-- The defect repaired by 4479a0e7f, kept as a theorem about the model: when only direct
    access checks for the empty pool name, some request is rejected by one path and changes the
    state on the other. -/
theorem not_remote_refines_local_when_handler_lacks_guard :
    ¬ ∀ (core : String → List String → Outcome (List String) Unit) (name : String) (s : List String),
        handlerRun (some : String → Option String) (fun _ => none) core name s =
          localRun (fun n => if n == "" then some "no pool name provided" else none) core name s := by
  intro h
  have := h (fun n s => (.ok (), s ++ [n])) "" []
  revert this; decide

/-- **load_refines_local_partial.**  Guard: the body reads to its end without error.  Then load
    through the service is load by direct access. -/
theorem load_refines_local_partial (body : List Item) (s : List (List Nat))
    (h : (readAll body).2 = none) : handlerLoad body s = localLoad body s := by
  have key : ∀ b : List Item, (readAll b).2 = none → (readAll b).1.map Item.recd = b := by
    intro b
    induction b with
    | nil => simp [readAll]
    | cons i r ih =>
      cases i with
      | recd n => intro hb; simp only [readAll] at hb ⊢; simp [ih hb]
      | err m => intro hb; simp [readAll] at hb
  unfold handlerLoad localLoad warningsReader
  split
  · rw [key body h]
  · rfl

/-- The handler's reader swallows read errors on the current tree (regenerated) … -/
theorem load_reader_swallows :
    Generated.C19.loadReaderWrapped = true ∧ Generated.C19.loadReaderSwallowsErrors = true := by decide

/-- **not_load_refines_local.**  … so a body with good records followed by a read error is
    committed up to the error through the service and rejected, with nothing committed, by direct
    access; and a body that is broken from the start is reported as empty. -/
theorem not_load_refines_local :
    handlerLoad [.recd 1, .recd 2, .err "syntax"] [] = (.ok (), [[1, 2]]) ∧
    localLoad [.recd 1, .recd 2, .err "syntax"] [] = (.error "syntax", []) ∧
    handlerLoad [.err "syntax"] [] = (.error "empty transaction", []) ∧
    localLoad [.err "syntax"] [] = (.error "syntax", []) := by decide

/-! ### The client's replay recorder (`api/client/request.go`) -/

/-- `recordReader.Read` returns the count of the wrapped reader, untouched; the replay buffer
    is 16 MiB (regenerated). -/
theorem record_reader_facts :
    Generated.C19.recordReaderReturnsReadCount = true ∧ Generated.C19.recordLimit = 16777216 ∧
    Generated.C19.recordReaderRecords = "b[:cc]" := by decide

private theorem recRun_forward {α : Type} (limit : Nat) (st : Recorder α) (chunks : List (List α)) :
    (recRun true limit st chunks).2 = chunks.flatten := by
  induction chunks generalizing st with
  | nil => simp [recRun]
  | cons c cs ih =>
    simp only [recRun, List.flatten_cons]
    rw [ih]
    unfold recRead
    split <;> simp

/-- **record_forwards_all.**  Whatever the sizes of the reads (any chunking of any body, of any
    length), the bytes the HTTP transport receives are exactly the bytes of the body. -/
theorem record_forwards_all {α : Type} (chunks : List (List α)) :
    (recRunCode chunks).2 = chunks.flatten := by
  unfold recRunCode
  rw [record_reader_facts.1]
  exact recRun_forward _ _ _

private theorem recRun_buf {α : Type} (fwd : Bool) (limit : Nat) (pre : List α) (nr : Bool) (chunks : List (List α)) :
    (recRun fwd limit ⟨pre.take limit, nr⟩ chunks).1.buf = (pre ++ chunks.flatten).take limit := by
  induction chunks generalizing pre nr with
  | nil => simp [recRun]
  | cons c cs ih =>
    simp only [recRun, List.flatten_cons]
    unfold recRead
    by_cases h : (pre.take limit).length < limit
    · have hp : pre.length < limit := by
        rw [List.length_take] at h; omega
      have e1 : pre.take limit = pre := List.take_of_length_le (by omega)
      simp only [h, if_true]
      have e2 : pre ++ c.take (limit - pre.length) = (pre ++ c).take limit := by
        rw [List.take_append]
        rw [List.take_of_length_le (by omega : pre.length ≤ limit)]
      rw [e1, e2, ih (pre ++ c) nr, List.append_assoc]
    · have hp : limit ≤ pre.length := by
        rw [List.length_take] at h; omega
      simp only [h, if_false]
      rw [ih pre true]
      rw [List.take_append_of_le_length hp, List.take_append_of_le_length hp]

/-- **record_replay_prefix.**  The replay buffer is exactly the first `limit` bytes of the body,
    for every chunking. -/
theorem record_replay_prefix {α : Type} (chunks : List (List α)) :
    (recRunCode (α := α) chunks).1.buf = chunks.flatten.take Generated.C19.recordLimit := by
  unfold recRunCode
  have := recRun_buf (α := α) Generated.C19.recordReaderReturnsReadCount Generated.C19.recordLimit [] false chunks
  simpa using this

/-- The seeded failure mode, as a theorem about the model: a recorder whose `Read` returns its
    own clamped count loses the bytes of the read that crosses the limit. -/
theorem not_record_forwards_all_when_clamped :
    ¬ ∀ (limit : Nat) (chunks : List (List Nat)), (recRun false limit {} chunks).2 = chunks.flatten := by
  intro h
  have := h 4 [[1, 2, 3], [4, 5, 6], [7]]
  revert this; decide

/-! ### Framing -/

private theorem decode_append_nonerr (ch : String) (fs gs : List Frame)
    (h : ∀ f ∈ fs, ∀ m, f ≠ .error m) :
    ∃ ch', clientDecode ch (fs ++ gs) =
      ((clientDecode ch fs).1 ++ (clientDecode ch' gs).1, (clientDecode ch' gs).2) ∧
      (clientDecode ch fs).2 = none := by
  induction fs generalizing ch with
  | nil => exact ⟨ch, by simp [clientDecode], by simp [clientDecode]⟩
  | cons f rest ih =>
    have hr : ∀ f ∈ rest, ∀ m, f ≠ .error m := fun f hf => h f (List.mem_cons_of_mem _ hf)
    cases f with
    | values vs =>
      obtain ⟨ch', h1, h2⟩ := ih ch hr
      exact ⟨ch', by simp [clientDecode, h1], by simp [clientDecode, h2]⟩
    | channelSet c =>
      obtain ⟨ch', h1, h2⟩ := ih c hr
      exact ⟨ch', by simp [clientDecode, h1], by simp [clientDecode, h2]⟩
    | channelEnd c =>
      obtain ⟨ch', h1, h2⟩ := ih ch hr
      exact ⟨ch', by simp [clientDecode, h1], by simp [clientDecode, h2]⟩
    | stats =>
      obtain ⟨ch', h1, h2⟩ := ih ch hr
      exact ⟨ch', by simp [clientDecode, h1], by simp [clientDecode, h2]⟩
    | error m => exact absurd rfl (h (.error m) List.mem_cons_self m)

/-- With control frames on, the events of a run decode to exactly the labelled values, and the
    client's channel follows the server's. -/
private theorem encodeEvents_on (es : List Event) (ch : String) :
    (∀ f ∈ (encodeEvents true ch es).1, ∀ m, f ≠ .error m) ∧
    ∀ (tail : List Frame),
      clientDecode ch ((encodeEvents true ch es).1 ++ tail) =
        (Run.labelled es ++ (clientDecode (encodeEvents true ch es).2 tail).1,
         (clientDecode (encodeEvents true ch es).2 tail).2) := by
  induction es generalizing ch with
  | nil => simp [encodeEvents, Run.labelled]
  | cons e rest ih =>
    cases e with
    | batch label vals =>
      by_cases hv : vals.isEmpty = true
      · have : vals = [] := by simpa using hv
        subst this
        simp only [encodeEvents, List.isEmpty_nil, if_true, Run.labelled, List.map_nil, List.nil_append]
        exact ih ch
      · obtain ⟨i1, i2⟩ := ih label
        by_cases hc : ch = label
        · subst hc
          simp only [encodeEvents, hv, Bool.false_eq_true, if_false, ne_eq, not_true_eq_false, List.nil_append,
            Run.labelled]
          refine ⟨?_, fun tail => ?_⟩
          · intro f hf m
            rcases List.mem_cons.1 hf with rfl | hf
            · simp
            · exact i1 f hf m
          · simp only [List.cons_append, List.nil_append, clientDecode, i2 tail, List.append_assoc]
        · simp only [encodeEvents, hv, Bool.false_eq_true, if_false, ne_eq, hc, not_false_eq_true, if_true,
            writeControl, Run.labelled]
          refine ⟨?_, fun tail => ?_⟩
          · intro f hf m
            simp only [List.cons_append, List.nil_append, List.mem_cons] at hf
            rcases hf with rfl | rfl | hf
            · simp
            · simp
            · exact i1 f hf m
          · simp only [List.cons_append, List.nil_append, clientDecode, i2 tail, List.append_assoc]
    | chanEnd label =>
      obtain ⟨i1, i2⟩ := ih ch
      simp only [encodeEvents, writeControl, if_true, Run.labelled]
      refine ⟨?_, fun tail => ?_⟩
      · intro f hf m
        simp only [List.cons_append, List.nil_append, List.mem_cons] at hf
        rcases hf with rfl | hf
        · simp
        · exact i1 f hf m
      · simp only [List.cons_append, List.nil_append, clientDecode, i2 tail]
    | tick =>
      obtain ⟨i1, i2⟩ := ih ch
      simp only [encodeEvents, writeControl, if_true, Run.labelled]
      refine ⟨?_, fun tail => ?_⟩
      · intro f hf m
        simp only [List.cons_append, List.nil_append, List.mem_cons] at hf
        rcases hf with rfl | hf
        · simp
        · exact i1 f hf m
      · simp only [List.cons_append, List.nil_append, clientDecode, i2 tail]

/-  Full statement (FALSE of the current code, see `not_queryio_roundtrip`):

      queryio_roundtrip : ∀ fmt ctrl run,
        clientDecode "" (serverEncode fmt ctrl run) = (labelled values of run, run.err)

    i.e. for every result sequence and every position of a late error the client gets the
    values produced before the error and the error.  Proved under the guard
    `ctrl = true ∧ hasControl fmt = true` (zng and zjson with `?ctrl=T`). -/

/-- **queryio_roundtrip_partial.**  Guard: control frames requested and the response format has
    a control channel.  Then, for every run — any batches on any channels, channel ends, timer
    ticks, and either the normal end or an error after any prefix — the client decodes exactly
    the values produced, with their channel labels, in order, and the error if there was one. -/
theorem queryio_roundtrip_partial (fmt : String) (r : Run) (hf : hasControl fmt = true) :
    clientDecode "" (serverEncode fmt true r) = (Run.labelled r.events, r.err) := by
  unfold serverEncode
  simp only [hf, Bool.and_self]
  rw [(encodeEvents_on r.events "").2]
  cases r.err with
  | none => simp [writeControl, clientDecode]
  | some m => simp [writeControl, clientDecode]

/-- Without control frames the values still arrive in order (labels are lost). -/
private theorem encodeEvents_off (es : List Event) (ch : String) (tail : List Frame) :
    (clientDecode "" ((encodeEvents false ch es).1 ++ tail)).1.map (·.2) =
      Run.values es ++ (clientDecode "" tail).1.map (·.2) ∧
    (clientDecode "" ((encodeEvents false ch es).1 ++ tail)).2 = (clientDecode "" tail).2 := by
  induction es generalizing ch with
  | nil => simp [encodeEvents, Run.values, Run.labelled]
  | cons e rest ih =>
    cases e with
    | batch label vals =>
      by_cases hv : vals.isEmpty = true
      · have : vals = [] := by simpa using hv
        subst this
        simp only [encodeEvents, List.isEmpty_nil, if_true, Run.values, Run.labelled, List.map_nil, List.nil_append]
        exact ih ch
      · obtain ⟨i1, i2⟩ := ih label
        simp only [encodeEvents, hv, Bool.false_eq_true, if_false, writeControl, ite_self, List.nil_append,
          List.cons_append, clientDecode, List.map_append, List.map_map, i1, i2, Run.values, Run.labelled,
          List.append_assoc, and_true]
        simp [Function.comp_def]
    | chanEnd label =>
      obtain ⟨i1, i2⟩ := ih ch
      simp only [encodeEvents, writeControl, Bool.false_eq_true, if_false, List.nil_append, Run.values, Run.labelled]
      exact ⟨i1, i2⟩
    | tick =>
      obtain ⟨i1, i2⟩ := ih ch
      simp only [encodeEvents, writeControl, Bool.false_eq_true, if_false, List.nil_append, Run.values, Run.labelled]
      exact ⟨i1, i2⟩

/-- **late_error_dropped.**  When `ctrl` is off, or the response format has no control channel
    (zson, json, csv, …), *every* late error is dropped: for every run the client decodes the
    values produced before the error and no error at all — a short, apparently complete
    result. -/
theorem late_error_dropped (fmt : String) (ctrl : Bool) (r : Run)
    (h : ctrl = false ∨ hasControl fmt = false) :
    (clientDecode "" (serverEncode fmt ctrl r)).1.map (·.2) = Run.values r.events ∧
    (clientDecode "" (serverEncode fmt ctrl r)).2 = none := by
  have hon : (ctrl && hasControl fmt) = false := by
    rcases h with h | h <;> simp [h]
  unfold serverEncode
  simp only [hon]
  have := encodeEvents_off r.events "" []
  cases r.err with
  | none => simpa [writeControl, clientDecode] using this
  | some m => simpa [writeControl, clientDecode] using this

/-- **not_queryio_roundtrip.**  The full statement is false: with `ctrl` off (any format), and
    with zson / json / csv even with `ctrl` on, a run that fails after its first batch is
    decoded as a complete result without error. -/
theorem not_queryio_roundtrip :
    ¬ ∀ (fmt : String) (ctrl : Bool) (r : Run),
        clientDecode "" (serverEncode fmt ctrl r) = (Run.labelled r.events, r.err) := by
  intro h
  have := h "zson" true ⟨[.batch "main" [1, 2]], some "read error"⟩
  revert this; decide

theorem not_queryio_roundtrip_ctrl_off :
    ¬ ∀ (r : Run), clientDecode "" (serverEncode "zng" false r) = (Run.labelled r.events, r.err) := by
  intro h
  have := h ⟨[.batch "" [7]], some "read error"⟩
  revert this; decide

/-! ### Non-vacuity -/

/-- the guard of the partial theorem is satisfiable: zng and zjson have a control channel -/
example : hasControl "zng" = true ∧ hasControl "zjson" = true ∧ hasControl "zson" = false ∧
    hasControl "json" = false ∧ hasControl "csv" = false := by decide

/-- a run with two channels, a tick and a late error, on the wire and back -/
example :
    serverEncode "zng" true ⟨[.batch "main" [1, 2], .tick, .batch "side" [3], .chanEnd "side", .batch "side" [4]], some "boom"⟩ =
      [.channelSet "main", .values [1, 2], .stats, .channelSet "side", .values [3], .channelEnd "side", .values [4], .error "boom"] ∧
    clientDecode "" (serverEncode "zng" true ⟨[.batch "main" [1, 2], .tick, .batch "side" [3], .chanEnd "side", .batch "side" [4]], some "boom"⟩) =
      ([("main", 1), ("main", 2), ("side", 3), ("side", 4)], some "boom") := by decide

end Zed.Props.C19
